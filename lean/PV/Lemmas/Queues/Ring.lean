import PV.Model.Queues
/-
Helper lemmas for the `Ring` section of C16 (BlockQueue / ThreadedBufferedStream).

Ghost counters: `A` = blocks spilled by the caller (including the poison), `D` = blocks released by the
writer thread, `Qd` = the spilled data blocks that have not yet been appended to `file`
(the poison block `[]`, if queued, follows them).
-/
namespace PV.Lemmas.Queues.Ring
open PV.Queues PV.Queues.Ring

/-! ### arithmetic -/

theorem next_mod (p : Params) (hn : 1 ≤ p.nBlocks) (k : Nat) : next p (k % p.nBlocks) = (k + 1) % p.nBlocks := by
  unfold next
  have hlt : k % p.nBlocks < p.nBlocks := Nat.mod_lt _ hn
  have e : (k + 1) % p.nBlocks = (k % p.nBlocks + 1) % p.nBlocks := by
    rw [Nat.add_mod k 1, Nat.add_mod (k % p.nBlocks) 1, Nat.mod_mod]
  rw [e]
  by_cases h : k % p.nBlocks + 1 = p.nBlocks
  · rw [if_pos h, h, Nat.mod_self]
  · rw [if_neg h]; exact (Nat.mod_eq_of_lt (by omega)).symm

theorem mod_ne_of_lt {a b n : Nat} (h1 : a < b) (h2 : b < a + n) : a % n ≠ b % n := by
  intro h
  have h0 := Nat.sub_mod_eq_zero_of_mod_eq h.symm
  have hd : n ∣ b - a := Nat.dvd_of_mod_eq_zero h0
  have := Nat.le_of_dvd (by omega) hd
  omega

/-! ### the invariant -/

def hC : CPc → Nat | .acquiring => 0 | _ => 1
def eC : CPc → Nat | .exited => 1 | _ => 0
def rC : CPc → Nat | .released => 1 | _ => 0
def gP : PPc → Nat | .acquiring => 0 | .posted => 0 | _ => 1
def ptail (b : Bool) : List (List UInt8) := if b then [[]] else []

structure Inv (p : Params) (s : State) (A D : Nat) (Qd : List (List UInt8)) : Prop where
  pcur : s.pCur = A % p.nBlocks
  ccur : s.cCur = D % p.nBlocks
  blen : s.blocks.length = p.nBlocks
  out : s.output + D + hC s.cPc = A + eC s.cPc
  tr : s.trash + A + gP s.pPc = p.nBlocks + D
  qlen : (Qd ++ ptail s.poisoned).length + D + rC s.cPc = A
  qne : ∀ b ∈ Qd, b ≠ []
  qblk : ∀ j k, j < (Qd ++ ptail s.poisoned).length → k = D + rC s.cPc + j →
    s.blocks.getD (k % p.nBlocks) [] = (Qd ++ ptail s.poisoned).getD j []
  bytes : s.file ++ Qd.flatten ++ (if s.pPc = .ready then s.fill else []) ++ s.data ++ s.calls.flatten = p.calls.flatten
  fillle : s.fill.length ≤ p.blockSize
  pois : s.poisoned = true → s.data = [] ∧ s.calls = [] ∧ (s.pPc = .posted ∨ s.pPc = .joining ∨ s.pPc = .joined)
  join : (s.pPc = .joining ∨ s.pPc = .joined) → s.poisoned = true
  joined : s.pPc = .joined → s.cPc = .exited
  exited : s.cPc = .exited → Qd = [] ∧ s.poisoned = true
  bad : s.bad = false

theorem inv_init (p : Params) : Inv p (init p) 0 0 [] := by
  constructor <;> simp [init, hC, eC, rC, gP, ptail]

theorem inv_pAcquire {p : Params} {s s' : State} {A D : Nat} {Qd : List (List UInt8)} 
    (h : Inv p s A D Qd) (hs : step p s .pAcquire = some s') : Inv p s' A D Qd := by
  obtain ⟨output, trash, blocks, pCur, pPc, fill, data, calls, poisoned, cCur, cPc, file, bad⟩ := s
  obtain ⟨h1, h2, h3, h4, h5, h6, h7, h8, h9, h10, h11, h12, h13, h14, h15⟩ := h
  simp only [step] at hs
  dsimp only at *
  have hx : gP pPc = 0 → 0 < trash → ¬ (cPc = .holding ∧ cCur = pCur) := by
    rintro hg ht ⟨rfl, e⟩
    simp only [hC, eC] at h4
    rw [h1, h2] at e
    exact mod_ne_of_lt (a := D) (b := A) (n := p.nBlocks) (by omega) (by omega) e
  split at hs
  · rename_i hc
    obtain ⟨rfl, ht⟩ := hc
    cases hs
    have hx' := hx rfl ht
    constructor <;> simp_all [hC, eC, rC, gP] <;> omega
  · split at hs
    · rename_i hc
      obtain ⟨rfl, ht⟩ := hc
      cases hs
      have hx' := hx rfl ht
      cases poisoned <;> (constructor <;> simp_all [hC, eC, rC, gP] <;> omega)
    · cases hs

end PV.Lemmas.Queues.Ring
