import PV.Model.RingReserve
/-
Helper lemmas for PV.Props.C16 `Ring2` (ring of blocks with write() and in-place operator<< operations).
Adapted from PV/Lemmas/Queues/Ring.lean (same invariant, extended by the pending `Ensure` amount).

Ghost counters: `A` = blocks spilled by the caller (including the poison), `D` = blocks released by the
writer thread, `Qd` = the spilled data blocks that have not yet been appended to `file`
(the poison block `[]`, if queued, follows them).
-/
namespace PV.Lemmas.Queues.Ring2
open PV.Queues PV.Queues.Ring2

/-! ### arithmetic -/

theorem next_mod (p : Params) (hn : 1 ≤ p.nBlocks) (k : Nat) : next p (k % p.nBlocks) = (k + 1) % p.nBlocks := by
  unfold next
  have hlt : k % p.nBlocks < p.nBlocks := Nat.mod_lt _ hn
  have e : (k + 1) % p.nBlocks = (k % p.nBlocks + 1) % p.nBlocks := by
    rw [Nat.add_mod k 1, Nat.add_mod (k % p.nBlocks) 1, Nat.mod_mod]
  rw [e]
  by_cases h : k % p.nBlocks + 1 = p.nBlocks
  · rw [if_pos h, h, Nat.mod_self]
  · rw [if_neg h]; exact (Nat.mod_eq_of_lt (by omega)).symm

theorem mod_ne_of_lt {a b n : Nat} (h1 : a < b) (h2 : b < a + n) : a % n ≠ b % n := by
  intro h
  have h0 := Nat.sub_mod_eq_zero_of_mod_eq h.symm
  have hd : n ∣ b - a := Nat.dvd_of_mod_eq_zero h0
  have := Nat.le_of_dvd (by omega) hd
  omega

/-! ### the invariant -/

def hC : CPc → Nat | .acquiring => 0 | _ => 1
def eC : CPc → Nat | .exited => 1 | _ => 0
def rC : CPc → Nat | .released => 1 | _ => 0
def gP : PPc → Nat | .acquiring => 0 | .posted => 0 | _ => 1
def ptail (b : Bool) : List (List UInt8) := if b then [[]] else []

structure Inv (p : Params) (s : State) (A D : Nat) (Qd : List (List UInt8)) : Prop where
  pcur : s.pCur = A % p.nBlocks
  ccur : s.cCur = D % p.nBlocks
  blen : s.blocks.length = p.nBlocks
  out : s.output + D + hC s.cPc = A + eC s.cPc
  tr : s.trash + A + gP s.pPc = p.nBlocks + D
  qlen : (Qd ++ ptail s.poisoned).length + D + rC s.cPc = A
  qne : ∀ b ∈ Qd, b ≠ []
  qblk : ∀ j k, j < (Qd ++ ptail s.poisoned).length → k = D + rC s.cPc + j →
    s.blocks.getD (k % p.nBlocks) [] = (Qd ++ ptail s.poisoned).getD j []
  bytes : s.file ++ Qd.flatten ++ (if s.pPc = .ready then s.fill else []) ++ s.data ++ (s.calls.map (·.bytes)).flatten = allBytes p
  fillle : s.fill.length ≤ p.blockSize
  pois : s.poisoned = true → s.data = [] ∧ s.calls = [] ∧ (s.pPc = .posted ∨ s.pPc = .joining ∨ s.pPc = .joined)
  join : (s.pPc = .joining ∨ s.pPc = .joined) → s.poisoned = true
  joined : s.pPc = .joined → s.cPc = .exited
  exited : s.cPc = .exited → Qd = [] ∧ s.poisoned = true
  bad : s.bad = false
  wf : ∀ c ∈ s.calls, c.reserve ≤ p.blockSize ∧ (0 < c.reserve → c.bytes.length ≤ c.reserve)
  needle : s.need ≤ p.blockSize
  needdata : 0 < s.need → s.data.length ≤ s.need

theorem inv_init (p : Params) (hw : p.WF) : Inv p (init p) 0 0 [] := by
  constructor
  case wf => exact hw
  all_goals simp [init, hC, eC, rC, gP, ptail, allBytes]

theorem inv_pAcquire {p : Params} {s s' : State} {A D : Nat} {Qd : List (List UInt8)} 
    (h : Inv p s A D Qd) (hs : step p s .pAcquire = some s') : Inv p s' A D Qd := by
  obtain ⟨output, trash, blocks, pCur, pPc, fill, data, need, calls, poisoned, cCur, cPc, file, bad⟩ := s
  obtain ⟨h1, h2, h3, h4, h5, h6, h7, h8, h9, h10, h11, h12, h13, h14, h15, h16, h17, h18⟩ := h
  simp only [step] at hs
  dsimp only at *
  have hx : gP pPc = 0 → 0 < trash → ¬ (cPc = .holding ∧ cCur = pCur) := by
    rintro hg ht ⟨rfl, e⟩
    simp only [hC, eC] at h4
    rw [h1, h2] at e
    exact mod_ne_of_lt (a := D) (b := A) (n := p.nBlocks) (by omega) (by omega) e
  split at hs
  · rename_i hc
    obtain ⟨rfl, ht⟩ := hc
    cases hs
    have hx' := hx rfl ht
    constructor <;> simp_all [hC, eC, rC, gP] <;> omega
  · split at hs
    · rename_i hc
      obtain ⟨rfl, ht⟩ := hc
      cases hs
      have hx' := hx rfl ht
      cases poisoned <;> (constructor <;> simp_all [hC, eC, rC, gP] <;> omega)
    · cases hs

/-! ### preservation, label by label -/

theorem inv_pCall {p : Params} {s s' : State} {A D : Nat} {Qd : List (List UInt8)}
    (h : Inv p s A D Qd) (hs : step p s .pCall = some s') : Inv p s' A D Qd := by
  obtain ⟨output, trash, blocks, pCur, pPc, fill, data, need, calls, poisoned, cCur, cPc, file, bad⟩ := s
  obtain ⟨h1, h2, h3, h4, h5, h6, h7, h8, h9, h10, h11, h12, h13, h14, h15, h16, h17, h18⟩ := h
  simp only [step] at hs
  dsimp only at *
  split at hs
  · split at hs
    · rename_i hc
      obtain ⟨rfl, rfl, rfl, hp⟩ := hc
      cases hs
      have hc0 := h16 _ (List.mem_cons_self)
      constructor <;> simp_all [hC, eC, rC, gP]
    · cases hs
  · cases hs

theorem inv_pCopy {p : Params} {s s' : State} {A D : Nat} {Qd : List (List UInt8)}
    (h : Inv p s A D Qd) (hs : step p s .pCopy = some s') : Inv p s' A D Qd := by
  obtain ⟨output, trash, blocks, pCur, pPc, fill, data, need, calls, poisoned, cCur, cPc, file, bad⟩ := s
  obtain ⟨h1, h2, h3, h4, h5, h6, h7, h8, h9, h10, h11, h12, h13, h14, h15, h16, h17, h18⟩ := h
  simp only [step] at hs
  dsimp only at *
  split at hs
  · rename_i hn0
    subst hn0
    split at hs
    · rename_i hc
      obtain ⟨rfl, hd, hf⟩ := hc
      cases hs
      constructor <;> simp_all [hC, eC, rC, gP] <;> omega
    · cases hs
  · rename_i hn0
    split at hs
    · rename_i hc
      obtain ⟨rfl, hf⟩ := hc
      cases hs
      have hnp : 0 < need := Nat.pos_of_ne_zero hn0
      have hdl := h18 hnp
      constructor <;> simp_all [hC, eC, rC, gP] <;> omega
    · cases hs

theorem inv_pJoin {p : Params} {s s' : State} {A D : Nat} {Qd : List (List UInt8)}
    (h : Inv p s A D Qd) (hs : step p s .pJoin = some s') : Inv p s' A D Qd := by
  obtain ⟨output, trash, blocks, pCur, pPc, fill, data, need, calls, poisoned, cCur, cPc, file, bad⟩ := s
  obtain ⟨h1, h2, h3, h4, h5, h6, h7, h8, h9, h10, h11, h12, h13, h14, h15, h16, h17, h18⟩ := h
  simp only [step] at hs
  dsimp only at *
  split at hs
  · rename_i hc
    obtain ⟨rfl, rfl⟩ := hc
    cases hs
    constructor <;> simp_all [hC, eC, rC, gP]
  · cases hs

theorem inv_cAcquire {p : Params} {s s' : State} {A D : Nat} {Qd : List (List UInt8)}
    (h : Inv p s A D Qd) (hs : step p s .cAcquire = some s') : Inv p s' A D Qd := by
  obtain ⟨output, trash, blocks, pCur, pPc, fill, data, need, calls, poisoned, cCur, cPc, file, bad⟩ := s
  obtain ⟨h1, h2, h3, h4, h5, h6, h7, h8, h9, h10, h11, h12, h13, h14, h15, h16, h17, h18⟩ := h
  simp only [step] at hs
  dsimp only at *
  split at hs
  · rename_i hc
    obtain ⟨rfl, ho⟩ := hc
    have hx : ¬ (pPc = .ready ∧ pCur = cCur) := by
      rintro ⟨rfl, e⟩
      simp only [hC, eC, gP] at h4 h5
      rw [h1, h2] at e
      exact mod_ne_of_lt (a := D) (b := A) (n := p.nBlocks) (by omega) (by omega) e.symm
    cases hs
    constructor <;> simp_all [hC, eC, rC, gP] <;> omega
  · cases hs

theorem inv_cRelease {p : Params} {s s' : State} {A D : Nat} {Qd : List (List UInt8)} (hn : 1 ≤ p.nBlocks)
    (h : Inv p s A D Qd) (hs : step p s .cRelease = some s') : Inv p s' A (D + 1) Qd := by
  obtain ⟨output, trash, blocks, pCur, pPc, fill, data, need, calls, poisoned, cCur, cPc, file, bad⟩ := s
  obtain ⟨h1, h2, h3, h4, h5, h6, h7, h8, h9, h10, h11, h12, h13, h14, h15, h16, h17, h18⟩ := h
  simp only [step] at hs
  dsimp only at *
  split at hs
  · rename_i hc
    subst hc
    cases hs
    have := next_mod p hn D
    constructor <;> simp_all [hC, eC, rC, gP] <;> try omega
  · cases hs



theorem qblk_push {blocks Q : List (List UInt8)} {lo A n : Nat} {x : List UInt8} (hlen : blocks.length = n)
    (hq : Q.length + lo = A) (hlt : A < lo + n)
    (h : ∀ j k, j < Q.length → k = lo + j → blocks.getD (k % n) [] = Q.getD j []) :
    ∀ j k, j < (Q ++ [x]).length → k = lo + j → (blocks.set (A % n) x).getD (k % n) [] = (Q ++ [x]).getD j [] := by
  intro j k hj hk
  subst hk
  have hn : 0 < n := by omega
  have hA : A % n < n := Nat.mod_lt _ hn
  simp only [List.length_append, List.length_singleton] at hj
  by_cases hjq : j < Q.length
  · have hne : A % n ≠ (lo + j) % n := fun e => mod_ne_of_lt (a := lo + j) (b := A) (n := n) (by omega) (by omega) e.symm
    have := h j (lo + j) hjq rfl
    simp only [List.getD_eq_getElem?_getD] at this ⊢
    rw [List.getElem?_set_ne hne, this, List.getElem?_append_left hjq]
  · have : j = Q.length := by omega
    subst this
    have e : lo + Q.length = A := by omega
    simp only [List.getD_eq_getElem?_getD]
    rw [e, List.getElem?_set_self (by omega)]
    simp

macro "ring_fin" : tactic => `(tactic|
  (first
    | omega
    | (simp only [hC, eC, rC, gP, ptail] at *; omega)
    | (simp_all [hC, eC, rC, gP, ptail] <;> omega)
    | simp_all [hC, eC, rC, gP, ptail]))

theorem inv_pSpill {p : Params} {s s' : State} {A D : Nat} {Qd : List (List UInt8)} (hn : 1 ≤ p.nBlocks)
    (hb : 1 ≤ p.blockSize)
    (h : Inv p s A D Qd) (hs : step p s .pSpill = some s') : ∃ Qd', Inv p s' (A + 1) D Qd' := by
  obtain ⟨output, trash, blocks, pCur, pPc, fill, data, need, calls, poisoned, cCur, cPc, file, bad⟩ := s
  obtain ⟨h1, h2, h3, h4, h5, h6, h7, h8, h9, h10, h11, h12, h13, h14, h15, h16, h17, h18⟩ := h
  simp only [step] at hs
  dsimp only at *
  have hnx := next_mod p hn A
  split at hs
  · rename_i hc
    obtain ⟨rfl, hp⟩ := hc
    have hp' : poisoned = false := by simpa using hp
    subst hp'
    subst h1
    simp only [ptail, Bool.false_eq_true, if_false, List.append_nil, gP] at h6 h8 h5
    have hq : ∀ x : List UInt8, ∀ j k, j < (Qd ++ [x]).length → k = D + rC cPc + j →
        (blocks.set (A % p.nBlocks) x).getD (k % p.nBlocks) [] = (Qd ++ [x]).getD j [] :=
      fun x => qblk_push h3 (by omega) (by omega) h8
    have hqne : fill ≠ [] → ∀ b ∈ Qd ++ [fill], b ≠ [] := by
      intro hfne b hb; rcases List.mem_append.mp hb with hb | hb
      · exact h7 b hb
      · simp at hb; subst hb; exact hfne
    split at hs
    · rename_i hc
      obtain ⟨hn0, hd, hf⟩ := hc
      cases hs
      have hfne : fill ≠ [] := by
        intro e; subst e; simp at hf; omega
      refine ⟨Qd ++ [fill], ?_⟩
      constructor
      case qblk =>
        simp only [ptail, Bool.false_eq_true, if_false, List.append_nil]
        exact hq fill
      case qne => exact hqne hfne
      all_goals dsimp only
      all_goals ring_fin
    · split at hs
      · rename_i hc
        obtain ⟨hnp, hroom, hfne⟩ := hc
        cases hs
        refine ⟨Qd ++ [fill], ?_⟩
        constructor
        case qblk =>
          simp only [ptail, Bool.false_eq_true, if_false, List.append_nil]
          exact hq fill
        case qne => exact hqne hfne
        all_goals dsimp only
        all_goals ring_fin
      · split at hs
        · rename_i hc
          obtain ⟨hn0, hd, hcl, hfne⟩ := hc
          cases hs
          refine ⟨Qd ++ [fill], ?_⟩
          constructor
          case qblk =>
            simp only [ptail, Bool.false_eq_true, if_false, List.append_nil]
            exact hq fill
          case qne => exact hqne hfne
          all_goals dsimp only
          all_goals ring_fin
        · split at hs
          · rename_i hc
            obtain ⟨hn0, hd, hcl, hfe⟩ := hc
            cases hs
            refine ⟨Qd, ?_⟩
            constructor
            case qblk =>
              simp only [ptail, if_true]
              exact hq []
            case qne => exact h7
            all_goals dsimp only
            all_goals ring_fin
          · cases hs
  · cases hs

theorem inv_cWrite {p : Params} {s s' : State} {A D : Nat} {Qd : List (List UInt8)}
    (h : Inv p s A D Qd) (hs : step p s .cWrite = some s') : ∃ Qd', Inv p s' A D Qd' := by
  obtain ⟨output, trash, blocks, pCur, pPc, fill, data, need, calls, poisoned, cCur, cPc, file, bad⟩ := s
  obtain ⟨h1, h2, h3, h4, h5, h6, h7, h8, h9, h10, h11, h12, h13, h14, h15, h16, h17, h18⟩ := h
  simp only [step] at hs
  dsimp only at *
  split at hs
  · rename_i hc
    subst hc
    subst h2
    simp only [hC, eC, rC, Nat.add_zero] at h4 h6 h8
    have h0 := h8 0 D (by omega) rfl
    cases Qd with
    | nil =>
      have hp : poisoned = true := by
        cases poisoned
        · simp [ptail] at h6; omega
        · rfl
      subst hp
      simp only [ptail, if_true, List.nil_append] at h0 h6 h8
      simp only [List.getD_cons_zero] at h0
      rw [h0] at hs
      simp only [if_true] at hs
      cases hs
      refine ⟨[], ?_⟩
      constructor
      case qblk =>
        simp only [ptail, if_true, List.nil_append, rC, Nat.add_zero]
        exact h8
      all_goals try dsimp only
      all_goals ring_fin
    | cons b0 Qd1 =>
      simp only [List.cons_append, List.getD_cons_zero] at h0
      have hb0 : b0 ≠ [] := h7 b0 (by simp)
      rw [h0, if_neg hb0] at hs
      cases hs
      refine ⟨Qd1, ?_⟩
      constructor
      case qblk =>
        intro j k hj hk
        have := h8 (j + 1) k (by simp at hj ⊢; omega) (by simp only [rC] at hk; omega)
        simpa using this
      case qne => intro b hb; exact h7 b (by simp [hb])
      all_goals try dsimp only
      all_goals ring_fin
  · cases hs

/-! ### consequences -/

theorem inv_step {p : Params} {s s' : State} {l : Label} {A D : Nat} {Qd : List (List UInt8)} (hn : 1 ≤ p.nBlocks)
    (hb : 1 ≤ p.blockSize) (h : Inv p s A D Qd) (hs : step p s l = some s') : ∃ A' D' Qd', Inv p s' A' D' Qd' := by
  cases l with
  | pAcquire => exact ⟨_, _, _, inv_pAcquire h hs⟩
  | pCall => exact ⟨_, _, _, inv_pCall h hs⟩
  | pCopy => exact ⟨_, _, _, inv_pCopy h hs⟩
  | pSpill => obtain ⟨Q, hQ⟩ := inv_pSpill hn hb h hs; exact ⟨_, _, _, hQ⟩
  | pJoin => exact ⟨_, _, _, inv_pJoin h hs⟩
  | cAcquire => exact ⟨_, _, _, inv_cAcquire h hs⟩
  | cWrite => obtain ⟨Q, hQ⟩ := inv_cWrite h hs; exact ⟨_, _, _, hQ⟩
  | cRelease => exact ⟨_, _, _, inv_cRelease hn h hs⟩

theorem reach_inv {p : Params} (hn : 1 ≤ p.nBlocks) (hb : 1 ≤ p.blockSize) (hw : p.WF) {s : State} (hr : Reachable p s) :
    ∃ A D Qd, Inv p s A D Qd := by
  induction hr with
  | init => exact ⟨0, 0, [], inv_init p hw⟩
  | step _ hs ih => obtain ⟨A, D, Qd, h⟩ := ih; exact inv_step hn hb h hs

theorem inv_prefix {p : Params} {s : State} {A D : Nat} {Qd : List (List UInt8)} (h : Inv p s A D Qd) :
    s.file <+: allBytes p := by
  rw [← h.bytes]
  simp only [List.append_assoc]
  exact List.prefix_append _ _

theorem inv_final {p : Params} {s : State} {A D : Nat} {Qd : List (List UInt8)} (h : Inv p s A D Qd)
    (hf : Final s) : s.file = allBytes p := by
  have hj : s.pPc = .joined := hf
  have he := h.exited (h.joined hj)
  have hp := h.pois he.2
  have hb := h.bytes
  rw [he.1, hp.1, hp.2.1, hj] at hb
  simpa using hb

theorem writer_enabled (p : Params) (s : State) (h1 : s.cPc ≠ .exited) (h2 : s.cPc = .acquiring → 0 < s.output) :
    ∃ l s', step p s l = some s' := by
  obtain ⟨output, trash, blocks, pCur, pPc, fill, data, need, calls, poisoned, cCur, cPc, file, bad⟩ := s
  dsimp only at *
  cases cPc with
  | acquiring => exact ⟨.cAcquire, by simp [step, h2 rfl]⟩
  | holding =>
    refine ⟨.cWrite, ?_⟩
    simp only [step, if_true]
    split <;> exact ⟨_, rfl⟩
  | released => exact ⟨.cRelease, by simp [step]⟩
  | exited => exact absurd rfl h1

theorem inv_no_deadlock {p : Params} {s : State} {A D : Nat} {Qd : List (List UInt8)} (hn : 2 ≤ p.nBlocks)
    (h : Inv p s A D Qd) : Final s ∨ ∃ l s', step p s l = some s' := by
  rcases hp : s.pPc with _ | _ | _ | _ | _
  · -- acquiring
    right
    by_cases ht : 0 < s.trash
    · exact ⟨.pAcquire, _, by simp only [step]; rw [if_pos ⟨hp, ht⟩]⟩
    · apply writer_enabled
      · intro he
        have := h.pois (h.exited he).2
        rw [hp] at this; simp at this
      · intro ha
        have h4 := h.out; have h5 := h.tr
        rw [ha] at h4; rw [hp] at h5
        simp only [hC, eC, gP] at h4 h5
        omega
  · -- ready
    right
    have hpo : s.poisoned = false := by
      cases hq : s.poisoned
      · rfl
      · have := h.pois hq; rw [hp] at this; simp at this
    by_cases hn0 : s.need = 0
    · by_cases hd : s.data = []
      · cases hc : s.calls with
        | nil =>
          refine ⟨.pSpill, ?_⟩
          by_cases hf : s.fill = [] <;> simp [step, hp, hpo, hd, hc, hf, hn0]
        | cons c rest =>
          refine ⟨.pCall, ?_⟩
          simp [step, hp, hpo, hd, hc, hn0]
      · by_cases hf : s.fill.length < p.blockSize
        · refine ⟨.pCopy, ?_⟩
          simp [step, hp, hd, hf, hn0]
        · refine ⟨.pSpill, ?_⟩
          have hfl := h.fillle
          have hfe : s.fill.length = p.blockSize := by omega
          simp [step, hp, hpo, hd, hfe, hn0]
    · by_cases hroom : s.need ≤ p.blockSize - s.fill.length
      · refine ⟨.pCopy, ?_⟩
        simp [step, hp, hn0, hroom]
      · refine ⟨.pSpill, ?_⟩
        have hnl := h.needle
        have hfne : s.fill ≠ [] := by
          intro e; rw [e] at hroom; simp at hroom; omega
        have hnp : 0 < s.need := Nat.pos_of_ne_zero hn0
        have hlt : p.blockSize - s.fill.length < s.need := by omega
        simp only [step]
        rw [if_pos (by simp [hp, hpo]), if_neg (by simp [hn0]), if_pos ⟨hnp, hlt, hfne⟩]
        exact ⟨_, rfl⟩
  · -- posted
    right
    by_cases ht : 0 < s.trash
    · refine ⟨.pAcquire, ?_⟩
      simp only [step]
      rw [if_neg (by rw [hp]; simp), if_pos ⟨hp, ht⟩]
      exact ⟨_, rfl⟩
    · apply writer_enabled
      · intro he
        have h6 := h.qlen; have h5 := h.tr
        rw [(h.exited he).1, (h.exited he).2, he] at h6
        rw [hp] at h5
        simp [ptail, rC, gP] at h6 h5
        omega
      · intro ha
        have h4 := h.out; have h5 := h.tr
        rw [ha] at h4; rw [hp] at h5
        simp only [hC, eC, gP] at h4 h5
        omega
  · -- joining
    right
    by_cases he : s.cPc = .exited
    · exact ⟨.pJoin, _, by simp only [step]; rw [if_pos ⟨hp, he⟩]⟩
    · apply writer_enabled _ _ he
      intro ha
      have h4 := h.out; have h6 := h.qlen
      rw [h.join (Or.inl hp), ha] at h6
      rw [ha] at h4
      simp [ptail, rC, hC, eC] at h4 h6
      omega
  · left; exact hp


/-! ### termination measure -/

def wc : CPc → Nat | .exited => 0 | .acquiring => 2 | .released => 3 | .holding => 4
def wp (s : State) : Nat :=
  match s.pPc with
  | .joined => 0
  | .joining => 1
  | .posted => if s.poisoned then 2 else 7
  | .acquiring => 7
  | .ready => if s.fill = [] then 6 else 11
/-- termination measure -/
def mu (s : State) : Nat :=
  7 * (s.data.length + (s.calls.map (·.bytes)).flatten.length) + 7 * s.calls.length + (if s.need = 0 then 0 else 6)
    + wp s + 3 * s.output + wc s.cPc

theorem mu_decreases {p : Params} (hb : 1 ≤ p.blockSize) {s s' : State} {l : Label} (hs : step p s l = some s') :
    mu s' < mu s := by
  obtain ⟨output, trash, blocks, pCur, pPc, fill, data, need, calls, poisoned, cCur, cPc, file, bad⟩ := s
  cases l with
  | pAcquire =>
    simp only [step] at hs
    split at hs
    · rename_i hc; obtain ⟨rfl, ht⟩ := hc; cases hs
      simp [mu, wp]
    · split at hs
      · rename_i hc; obtain ⟨rfl, ht⟩ := hc; cases hs
        cases poisoned <;> simp [mu, wp]
      · cases hs
  | pCall =>
    simp only [step] at hs
    split at hs
    · split at hs
      · rename_i c rest hc; obtain ⟨rfl, rfl, rfl, hp⟩ := hc; cases hs
        by_cases hfe : fill = [] <;> by_cases hr0 : c.reserve = 0 <;> simp [mu, wp, hfe, hr0] <;> omega
      · cases hs
    · cases hs
  | pCopy =>
    simp only [step] at hs
    split at hs
    · rename_i hn0; subst hn0
      split at hs
      · rename_i hc; obtain ⟨rfl, hd, hf⟩ := hc; cases hs
        have hdl : 0 < data.length := List.length_pos_iff.mpr hd
        have hb0 : p.blockSize ≠ 0 := by omega
        by_cases hfe : fill = [] <;> simp [mu, wp, hfe, hd, hb0] <;> omega
      · cases hs
    · rename_i hn0
      split at hs
      · rename_i hc; obtain ⟨rfl, hf⟩ := hc; cases hs
        by_cases hfe : fill = [] <;> by_cases hde : data = [] <;> simp [mu, wp, hfe, hde, hn0] <;> omega
      · cases hs
  | pSpill =>
    simp only [step] at hs
    split at hs
    · rename_i hc; obtain ⟨rfl, hp⟩ := hc
      have hp' : poisoned = false := by simpa using hp
      subst hp'
      split at hs
      · rename_i hc; obtain ⟨hn0, hd, hf⟩ := hc; cases hs
        have hfne : fill ≠ [] := by intro e; subst e; simp at hf; omega
        simp [mu, wp, hfne]; omega
      · split at hs
        · rename_i hc; obtain ⟨hnp, hroom, hfne⟩ := hc; cases hs
          simp [mu, wp, hfne]; omega
        · split at hs
          · rename_i hc; obtain ⟨hn0, hd, hcl, hfne⟩ := hc; cases hs
            simp [mu, wp, hfne]; omega
          · split at hs
            · rename_i hc; obtain ⟨hn0, hd, hcl, hfe⟩ := hc; cases hs
              simp_all [mu, wp]; omega
            · cases hs
    · cases hs
  | pJoin =>
    simp only [step] at hs
    split at hs
    · rename_i hc; obtain ⟨rfl, rfl⟩ := hc; cases hs
      simp [mu, wp]
    · cases hs
  | cAcquire =>
    simp only [step] at hs
    split at hs
    · rename_i hc; obtain ⟨rfl, ho⟩ := hc; cases hs
      simp [mu, wp, wc]; omega
    · cases hs
  | cWrite =>
    simp only [step] at hs
    split at hs
    · rename_i hc; subst hc
      split at hs <;> cases hs <;> simp [mu, wp, wc] <;> omega
    · cases hs
  | cRelease =>
    simp only [step] at hs
    split at hs
    · rename_i hc; subst hc; cases hs
      simp [mu, wp, wc]
    · cases hs

end PV.Lemmas.Queues.Ring2
