import PV.Model.Queues
/-
Inductive invariant of the UnboundedSingleQueue LTS (`PV.Queues.USQ`), used by C16
(`usq_safe`, `usq_fifo`, `usq_no_deadlock`).
-/
namespace PV.Lemmas.Queues.USQ
open PV.Queues PV.Queues.USQ

/-- 1 while the producer has written an entry it has not posted yet. -/
def pw : PPc → Nat
  | .wrote => 1
  | _ => 0

/-- 1 while the producer is inside `Produce`. -/
def pbusy : PPc → Nat
  | .idle => 0
  | _ => 1

/-- 1 while the consumer has claimed (semaphore) an entry it has not read yet. -/
def cw : CPc → Nat
  | .idle => 0
  | _ => 1

structure Inv (p : Params) (s : State) : Prop where
  bad : s.bad = false
  written : s.written = List.range s.written.length
  got : s.got = List.range s.r
  wcount : s.written.length = s.produced + pw s.pPc
  pcount : s.produced = s.valid + s.r + cw s.cPc
  pLo : s.pPage * p.pageSize ≤ s.written.length
  pHi : s.written.length ≤ s.pPage * p.pageSize + p.pageSize
  pRoom : s.pPc = .paged → s.written.length < s.pPage * p.pageSize + p.pageSize
  linked : s.linked = s.pPage + 1
  cLo : s.cPage * p.pageSize ≤ s.r
  cHi : s.r ≤ s.cPage * p.pageSize + p.pageSize
  cRoom : s.cPc = .paged → s.r < s.cPage * p.pageSize + p.pageSize
  freed : s.freed = s.cPage
  pages : s.cPage ≤ s.pPage
  prodLe : s.produced + pbusy s.pPc ≤ p.n

theorem range_snoc (l : List Nat) (h : l = List.range l.length) :
    l ++ [l.length] = List.range (l ++ [l.length]).length := by
  rw [List.length_append, List.length_singleton, List.range_succ, ← h]

theorem range_getElem?_some {l : List Nat} (h : l = List.range l.length) {r x : Nat}
    (hx : l[r]? = some x) : x = r ∧ r < l.length := by
  obtain ⟨hlt, hv⟩ := List.getElem?_eq_some_iff.mp hx
  refine ⟨?_, hlt⟩
  have : (List.range l.length)[r]? = some x := by rw [← h]; exact hx
  rw [List.getElem?_range hlt] at this
  exact (Option.some.inj this).symm

theorem inv_init (p : Params) : Inv p init := by
  constructor <;> simp [init, pw, cw, pbusy]

theorem inv_step {p : Params} (hp : 1 ≤ p.pageSize) {s s' : State} {l : Label}
    (h : Inv p s) (hs : step p s l = some s') : Inv p s' := by
  obtain ⟨hbad, hwr, hgot, hwc, hpc, hpLo, hpHi, hpRoom, hlink, hcLo, hcHi, hcRoom, hfreed, hpages, hprod⟩ := h
  obtain ⟨written, linked, pPage, valid, pPc, produced, r, cPage, freed, cPc, got, bad⟩ := s
  simp only at hbad hwr hgot hwc hpc hpLo hpHi hpRoom hlink hcLo hcHi hcRoom hfreed hpages hprod
  cases l
  case pPage =>
    simp only [step] at hs
    split at hs
    · rename_i hc
      obtain ⟨hidle, hlt⟩ := hc
      subst hidle
      simp only [pw, pbusy, Nat.add_mul, Nat.one_mul] at *
      split at hs
      · cases hs
        constructor <;> simp only [pw, pbusy, Nat.add_mul, Nat.one_mul] <;> first | assumption | omega | (intro _; omega)
      · cases hs
        constructor <;> simp only [pw, pbusy] <;> first | assumption | omega | (intro _; omega)
    · cases hs
  case pWrite =>
    simp only [step] at hs
    split at hs
    · rename_i hc
      subst hc
      cases hs
      have hroom := hpRoom rfl
      simp only [pw, pbusy] at *
      constructor <;> simp only [pw, pbusy, List.length_append, List.length_singleton]
      case written => rw [List.range_succ, ← hwr]
      case bad =>
        subst hbad hfreed
        simp only [Bool.false_or, decide_eq_false_iff_not]
        omega
      all_goals first | assumption | omega | (intro _; omega) | (intro h; cases h)
    · cases hs
  case pPost =>
    simp only [step] at hs
    split at hs
    · rename_i hc
      subst hc
      cases hs
      simp only [pw, pbusy] at *
      constructor <;> simp only [pw, pbusy]
      all_goals first | assumption | omega | (intro _; omega) | (intro h; cases h)
    · cases hs
  case cWait =>
    simp only [step] at hs
    split at hs
    · rename_i hc
      obtain ⟨hidle, hlt, hv⟩ := hc
      subst hidle
      cases hs
      simp only [cw] at *
      constructor <;> simp only [cw]
      all_goals first | assumption | omega | (intro _; omega) | (intro h; cases h)
    · cases hs
  case cPage =>
    simp only [step] at hs
    split at hs
    · rename_i hc
      subst hc
      simp only [cw, Nat.add_mul, Nat.one_mul] at *
      split at hs
      · rename_i hr
        cases hs
        have hlt : cPage * p.pageSize < pPage * p.pageSize := by omega
        have hpg : cPage < pPage := Nat.lt_of_mul_lt_mul_right hlt
        constructor <;> simp only [cw, Nat.add_mul, Nat.one_mul]
        case bad =>
          subst hbad
          simp only [Bool.false_or, decide_eq_false_iff_not]
          omega
        all_goals first | assumption | omega | (intro _; omega) | (intro h; cases h)
      · cases hs
        constructor <;> simp only [cw]
        all_goals first | assumption | omega | (intro _; omega) | (intro h; cases h)
    · cases hs
  case cRead =>
    simp only [step] at hs
    split at hs
    · rename_i hc
      subst hc
      have hroom := hcRoom rfl
      simp only [cw] at *
      split at hs
      · rename_i x hx
        cases hs
        obtain ⟨hxr, hrlt⟩ := range_getElem?_some hwr hx
        subst hxr
        constructor <;> simp only [cw]
        case got => rw [List.range_succ, ← hgot]
        all_goals first | assumption | omega | (intro _; omega) | (intro h; cases h)
      · rename_i hx
        exfalso
        have := List.getElem?_eq_none_iff.mp hx
        omega
    · cases hs

theorem inv_of_reachable {p : Params} (hp : 1 ≤ p.pageSize) {s : State} (hr : Reachable p s) :
    Inv p s := by
  induction hr with
  | init => exact inv_init p
  | step _ hs ih => exact inv_step hp ih hs

/-- progress: every reachable non-final state has an enabled step. -/
theorem progress {p : Params} {s : State} (h : Inv p s) :
    Final p s ∨ ∃ l s', step p s l = some s' := by
  obtain ⟨hbad, hwr, hgot, hwc, hpc, hpLo, hpHi, hpRoom, hlink, hcLo, hcHi, hcRoom, hfreed, hpages, hprod⟩ := h
  obtain ⟨written, linked, pPage, valid, pPc, produced, r, cPage, freed, cPc, got, bad⟩ := s
  simp only at hbad hwr hgot hwc hpc hpLo hpHi hpRoom hlink hcLo hcHi hcRoom hfreed hpages hprod
  have hgl : got.length = r := by rw [hgot, List.length_range]
  cases pPc
  case paged => exact Or.inr ⟨.pWrite, by simp only [step, if_true]; exact ⟨_, rfl⟩⟩
  case wrote => exact Or.inr ⟨.pPost, by simp only [step, if_true]; exact ⟨_, rfl⟩⟩
  case idle =>
    by_cases hlt : produced < p.n
    · right
      refine ⟨.pPage, ?_⟩
      simp only [step, hlt, and_self, if_true]
      split <;> exact ⟨_, rfl⟩
    · simp only [pbusy, pw] at *
      have hpn : produced = p.n := by omega
      cases cPc
      case waited =>
        right
        refine ⟨.cPage, ?_⟩
        simp only [step, if_true]
        split <;> exact ⟨_, rfl⟩
      case paged =>
        right
        refine ⟨.cRead, ?_⟩
        simp only [step, if_true]
        split <;> exact ⟨_, rfl⟩
      case idle =>
        simp only [cw] at *
        by_cases hg : r < p.n
        · right
          refine ⟨.cWait, ?_⟩
          have hv : 0 < valid := by omega
          simp only [step, hgl, hg, hv, and_self, if_true]
          exact ⟨_, rfl⟩
        · left
          refine ⟨rfl, hpn, rfl, ?_⟩
          simp only [hgl]
          omega

theorem fifo_of_inv {p : Params} {s : State} (h : Inv p s) :
    s.got = List.range s.got.length ∧ s.got.length ≤ s.written.length := by
  have hgl : s.got.length = s.r := by rw [h.got, List.length_range]
  refine ⟨by rw [hgl]; exact h.got, ?_⟩
  have h1 := h.wcount
  have h2 := h.pcount
  omega

end PV.Lemmas.Queues.USQ
