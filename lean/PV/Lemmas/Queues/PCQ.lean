import PV.Model.Queues
namespace PV.Lemmas.Queues.PCQ
open PV.Queues PV.Queues.PCQ

/-! ### sums of a weight over a list -/
def lsum {α : Type} (f : α → Nat) : List α → Nat
  | [] => 0
  | a :: l => f a + lsum f l

@[simp] theorem lsum_nil {α : Type} (f : α → Nat) : lsum f [] = 0 := rfl
@[simp] theorem lsum_cons {α : Type} (f : α → Nat) (a : α) (l : List α) : lsum f (a :: l) = f a + lsum f l := rfl

theorem lsum_eq_map_sum {α : Type} (f : α → Nat) (l : List α) : lsum f l = (l.map f).sum := by
  induction l with
  | nil => rfl
  | cons a l ih => simp [ih]

theorem lsum_set {α : Type} (f : α → Nat) : ∀ (l : List α) (i : Nat) (a b : α), l[i]? = some a →
    lsum f (l.set i b) + f a = lsum f l + f b
  | [], _, _, _, h => by simp at h
  | x :: l, 0, a, b, h => by
    simp at h; subst h; simp; omega
  | x :: l, i + 1, a, b, h => by
    simp at h
    have := lsum_set f l i a b h
    simp; omega

theorem le_lsum {α : Type} (f : α → Nat) : ∀ (l : List α) (i : Nat) (a : α), l[i]? = some a → f a ≤ lsum f l
  | [], _, _, h => by simp at h
  | x :: l, 0, a, h => by simp at h; subst h; simp
  | x :: l, i + 1, a, h => by
    simp at h
    have := le_lsum f l i a h
    simp; omega

theorem lsum_eq_zero {α : Type} (f : α → Nat) : ∀ (l : List α), (∀ (i : Nat) a, l[i]? = some a → f a = 0) → lsum f l = 0
  | [], _ => rfl
  | x :: l, h => by
    have h0 := h 0 x (by simp)
    have := lsum_eq_zero f l (fun i a hi => h (i + 1) a (by simpa using hi))
    simp; omega

theorem lsum_le_lsum {α β : Type} (f : α → Nat) (g : β → Nat) : ∀ (l1 : List α) (l2 : List β), l1.length = l2.length →
    (∀ (i : Nat) a b, l1[i]? = some a → l2[i]? = some b → f a ≤ g b) → lsum f l1 ≤ lsum g l2
  | [], [], _, _ => by simp
  | [], _ :: _, h, _ => by simp at h
  | _ :: _, [], h, _ => by simp at h
  | x :: l1, y :: l2, hl, h => by
    have h0 := h 0 x y (by simp) (by simp)
    have := lsum_le_lsum f g l1 l2 (by simpa using hl) (fun i a b ha hb => h (i + 1) a b (by simpa using ha) (by simpa using hb))
    simp; omega

theorem exists_lt_of_lsum_lt {α β : Type} (f : α → Nat) (g : β → Nat) (l1 : List α) (l2 : List β) (hl : l1.length = l2.length)
    (h : lsum f l1 < lsum g l2) : ∃ (i : Nat) (a : α) (b : β), l1[i]? = some a ∧ l2[i]? = some b ∧ f a < g b := by
  apply Classical.byContradiction
  intro hn
  have := lsum_le_lsum g f l2 l1 hl.symm (fun i b a hb ha => by
    apply Classical.byContradiction
    intro hlt
    exact hn ⟨i, a, b, ha, hb, by omega⟩)
  omega

theorem eq_of_lsum_eq {α β : Type} (f : α → Nat) (g : β → Nat) : ∀ (l1 : List α) (l2 : List β), l1.length = l2.length →
    (∀ (i : Nat) a b, l1[i]? = some a → l2[i]? = some b → f a ≤ g b) → lsum f l1 = lsum g l2 →
    ∀ (i : Nat) a b, l1[i]? = some a → l2[i]? = some b → f a = g b
  | [], _, _, _, _ => by intro i a b ha; simp at ha
  | _ :: _, [], h, _, _ => by simp at h
  | x :: l1, y :: l2, hl, h, he => by
    have h0 := h 0 x y (by simp) (by simp)
    have hl' : l1.length = l2.length := by simpa using hl
    have h' : ∀ (i : Nat) a b, l1[i]? = some a → l2[i]? = some b → f a ≤ g b :=
      fun i a b ha hb => h (i + 1) a b (by simpa using ha) (by simpa using hb)
    have hle := lsum_le_lsum f g l1 l2 hl' h'
    simp at he
    intro i a b ha hb
    cases i with
    | zero => simp at ha hb; subst ha; subst hb; omega
    | succ i =>
      simp at ha hb
      exact eq_of_lsum_eq f g l1 l2 hl' h' (by omega) i a b ha hb

theorem getElem?_set_cases {α : Type} {l : List α} {i k : Nat} {b x : α} (h : (l.set i b)[k]? = some x) :
    (k = i ∧ x = b) ∨ (k ≠ i ∧ l[k]? = some x) := by
  by_cases hk : i = k
  · subst hk
    left
    rw [List.getElem?_set_self'] at h
    cases hh : l[i]? <;> simp [hh] at h
    exact ⟨rfl, h.symm⟩
  · right
    rw [List.getElem?_set_ne hk] at h
    exact ⟨fun e => hk e.symm, h⟩

/-! ### ring arithmetic -/
theorem succ_mod_wrap (w c : Nat) (hc : 1 ≤ c) : (if w % c + 1 = c then 0 else w % c + 1) = (w + 1) % c := by
  have hlt : w % c < c := Nat.mod_lt _ (by omega)
  have hw : (w + 1) % c = (c * (w / c) + (w % c + 1)) % c := by
    congr 1
    have := Nat.div_add_mod w c
    omega
  rw [hw, Nat.mul_add_mod]
  split
  · next h => rw [h, Nat.mod_self]
  · next h => exact (Nat.mod_eq_of_lt (by omega)).symm

theorem mod_ne_of_lt (a b c : Nat) (h1 : a < b) (h2 : b < a + c) : a % c ≠ b % c := by
  intro h
  have hd : c ∣ b - a := Nat.dvd_of_mod_eq_zero (Nat.sub_mod_eq_zero_of_mod_eq h.symm)
  have := Nat.le_of_dvd (by omega) hd
  omega

/-! ### what each step does -/
theorem step_pWait {p : Params} {s s' : State} {i : Nat} (h : step p s (.pWait i) = some s') :
    ∃ pr its, s.prods[i]? = some pr ∧ p.items[i]? = some its ∧ pr.pc = .idle ∧ pr.next < its.length ∧ 0 < s.empty ∧
      s' = { s with empty := s.empty - 1, prods := s.prods.set i { pr with pc := .waited } } := by
  simp only [step] at h
  split at h
  · next pr its h1 h2 =>
    split at h
    · next hc => exact ⟨pr, its, h1, h2, hc.1, hc.2.1, hc.2.2, by simpa using h.symm⟩
    · simp at h
  · simp at h

theorem step_pEnter {p : Params} {s s' : State} {i : Nat} (h : step p s (.pEnter i) = some s') :
    ∃ pr, s.prods[i]? = some pr ∧ pr.pc = .waited ∧ s.pLock = none ∧
      s' = { s with pLock := some i, prods := s.prods.set i { pr with pc := .inSlot },
                    bad := s.bad || (s.slots.getD s.produceAt none).isSome || decide (s.cLock.isSome ∧ s.consumeAt = s.produceAt) } := by
  simp only [step] at h
  split at h
  · next pr h1 =>
    split at h
    · next hc => exact ⟨pr, h1, hc.1, hc.2, by simpa using h.symm⟩
    · simp at h
  · simp at h

theorem step_pLeave {p : Params} {s s' : State} {i : Nat} (h : step p s (.pLeave i) = some s') :
    ∃ pr its, s.prods[i]? = some pr ∧ p.items[i]? = some its ∧ pr.pc = .inSlot ∧ s.pLock = some i ∧
      s' = { s with slots := s.slots.set s.produceAt (some (its.getD pr.next (0, 0))),
                    produceAt := if s.produceAt + 1 = p.cap then 0 else s.produceAt + 1,
                    pLock := none, writes := s.writes ++ [its.getD pr.next (0, 0)],
                    prods := s.prods.set i { pr with pc := .done } } := by
  simp only [step] at h
  split at h
  · next pr its h1 h2 =>
    split at h
    · next hc => exact ⟨pr, its, h1, h2, hc.1, hc.2, by simpa using h.symm⟩
    · simp at h
  · simp at h

theorem step_pPost {p : Params} {s s' : State} {i : Nat} (h : step p s (.pPost i) = some s') :
    ∃ pr, s.prods[i]? = some pr ∧ pr.pc = .done ∧
      s' = { s with used := s.used + 1, prods := s.prods.set i { pc := .idle, next := pr.next + 1 } } := by
  simp only [step] at h
  split at h
  · next pr h1 =>
    split at h
    · next hc => exact ⟨pr, h1, hc, by simpa using h.symm⟩
    · simp at h
  · simp at h

theorem step_cWait {p : Params} {s s' : State} {j : Nat} (h : step p s (.cWait j) = some s') :
    ∃ c q, s.cons[j]? = some c ∧ p.quotas[j]? = some q ∧ c.pc = .idle ∧ c.taken < q ∧ 0 < s.used ∧
      s' = { s with used := s.used - 1, cons := s.cons.set j { c with pc := .waited } } := by
  simp only [step] at h
  split at h
  · next c q h1 h2 =>
    split at h
    · next hc => exact ⟨c, q, h1, h2, hc.1, hc.2.1, hc.2.2, by simpa using h.symm⟩
    · simp at h
  · simp at h

theorem step_cEnter {p : Params} {s s' : State} {j : Nat} (h : step p s (.cEnter j) = some s') :
    ∃ c, s.cons[j]? = some c ∧ c.pc = .waited ∧ s.cLock = none ∧
      s' = { s with cLock := some j, cons := s.cons.set j { c with pc := .inSlot },
                    bad := s.bad || (s.slots.getD s.consumeAt none).isNone || decide (s.pLock.isSome ∧ s.produceAt = s.consumeAt) } := by
  simp only [step] at h
  split at h
  · next c h1 =>
    split at h
    · next hc => exact ⟨c, h1, hc.1, hc.2, by simpa using h.symm⟩
    · simp at h
  · simp at h

theorem step_cLeave {p : Params} {s s' : State} {j : Nat} (h : step p s (.cLeave j) = some s') :
    ∃ c, s.cons[j]? = some c ∧ c.pc = .inSlot ∧ s.cLock = some j ∧
      s' = { s with slots := s.slots.set s.consumeAt none,
                    consumeAt := if s.consumeAt + 1 = p.cap then 0 else s.consumeAt + 1,
                    cLock := none, reads := s.reads ++ [(s.slots.getD s.consumeAt none).getD (0, 0)],
                    cons := s.cons.set j { c with pc := .done, got := c.got ++ [(s.slots.getD s.consumeAt none).getD (0, 0)] } } := by
  simp only [step] at h
  split at h
  · next c h1 =>
    split at h
    · next hc => exact ⟨c, h1, hc.1, hc.2, by simpa using h.symm⟩
    · simp at h
  · simp at h

theorem step_cPost {p : Params} {s s' : State} {j : Nat} (h : step p s (.cPost j) = some s') :
    ∃ c, s.cons[j]? = some c ∧ c.pc = .done ∧
      s' = { s with empty := s.empty + 1, cons := s.cons.set j { c with pc := .idle, taken := c.taken + 1 } } := by
  simp only [step] at h
  split at h
  · next c h1 =>
    split at h
    · next hc => exact ⟨c, h1, hc, by simpa using h.symm⟩
    · simp at h
  · simp at h

/-! ### the master invariant -/
def wPre : Pc → Nat | .waited => 1 | .inSlot => 1 | _ => 0
def wDone : Pc → Nat | .done => 1 | _ => 0
def pPre (x : Prod) : Nat := wPre x.pc
def pDone (x : Prod) : Nat := wDone x.pc
def pK (x : Prod) : Nat := x.next + wDone x.pc
def cPre (x : Cons) : Nat := wPre x.pc
def cDone (x : Cons) : Nat := wDone x.pc
def cK (x : Cons) : Nat := x.taken + wDone x.pc

structure Inv (p : Params) (s : State) : Prop where
  lenP : s.prods.length = p.items.length
  lenC : s.cons.length = p.quotas.length
  lenS : s.slots.length = p.cap
  t1 : s.empty + lsum pPre s.prods + lsum pDone s.prods + s.used + lsum cPre s.cons + lsum cDone s.cons = p.cap
  t2 : s.writes.length = s.reads.length + lsum pDone s.prods + s.used + lsum cPre s.cons
  wK : s.writes.length = lsum pK s.prods
  rK : s.reads.length = lsum cK s.cons
  mP : ∀ (i : Nat) pr, s.prods[i]? = some pr → (pr.pc = .inSlot ↔ s.pLock = some i)
  mPl : ∀ i, s.pLock = some i → i < s.prods.length
  mC : ∀ (j : Nat) c, s.cons[j]? = some c → (c.pc = .inSlot ↔ s.cLock = some j)
  mCl : ∀ j, s.cLock = some j → j < s.cons.length
  pa : s.produceAt = s.writes.length % p.cap
  ca : s.consumeAt = s.reads.length % p.cap
  live : ∀ m, s.reads.length ≤ m → m < s.writes.length → s.slots[m % p.cap]? = some s.writes[m]?
  dead : ∀ m, s.writes.length ≤ m → m < s.reads.length + p.cap → s.slots[m % p.cap]? = some none
  fifo : s.reads <+: s.writes
  bP : ∀ (i : Nat) pr, s.prods[i]? = some pr →
    pr.next ≤ (p.items.getD i []).length ∧ (pr.pc ≠ .idle → pr.next < (p.items.getD i []).length)
  bC : ∀ (j : Nat) c, s.cons[j]? = some c → c.taken ≤ p.quotas.getD j 0 ∧ (c.pc ≠ .idle → c.taken < p.quotas.getD j 0)
  nb : s.bad = false

theorem inv_init (p : Params) : Inv p (init p) := by
  have z1 : ∀ (l : List (List Item)) (f : Prod → Nat), f ⟨.idle, 0⟩ = 0 → lsum f (l.map (fun _ => (⟨.idle, 0⟩ : Prod))) = 0 := by
    intro l f hf; induction l with
    | nil => rfl
    | cons a l ih => simp [ih, hf]
  have z2 : ∀ (l : List Nat) (f : Cons → Nat), f ⟨.idle, 0, []⟩ = 0 → lsum f (l.map (fun _ => (⟨.idle, 0, []⟩ : Cons))) = 0 := by
    intro l f hf; induction l with
    | nil => rfl
    | cons a l ih => simp [ih, hf]
  constructor <;> simp [init]
  · rw [z1 _ _ rfl, z1 _ _ rfl, z2 _ _ rfl, z2 _ _ rfl]; simp
  · rw [z1 _ _ rfl, z2 _ _ rfl]
  · rw [z1 _ _ rfl]
  · rw [z2 _ _ rfl]
  · intro m hm
    rw [Nat.mod_eq_of_lt hm]; simp [hm]

theorem inv_pWait {p : Params} {s s' : State} {i : Nat} (hI : Inv p s)
    (h : step p s (.pWait i) = some s') : Inv p s' := by
  obtain ⟨pr, its, h1, h2, hpc, hn, he, rfl⟩ := step_pWait h
  have e1 := lsum_set pPre _ _ _ { pr with pc := .waited } h1
  have e2 := lsum_set pDone _ _ _ { pr with pc := .waited } h1
  have e3 := lsum_set pK _ _ _ { pr with pc := .waited } h1
  simp [pPre, pDone, pK, wPre, wDone, hpc] at e1 e2 e3
  constructor <;> dsimp only
  · simpa using hI.lenP
  · exact hI.lenC
  · exact hI.lenS
  · have := hI.t1; omega
  · have := hI.t2; omega
  · have := hI.wK; omega
  · exact hI.rK
  · intro k x hk
    rcases getElem?_set_cases hk with ⟨rfl, rfl⟩ | ⟨hne, hk'⟩
    · have := hI.mP _ _ h1; simp [hpc] at this ⊢; exact this
    · exact hI.mP _ _ hk'
  · simpa using hI.mPl
  · exact hI.mC
  · exact hI.mCl
  · exact hI.pa
  · exact hI.ca
  · exact hI.live
  · exact hI.dead
  · exact hI.fifo
  · intro k x hk
    rcases getElem?_set_cases hk with ⟨rfl, rfl⟩ | ⟨hne, hk'⟩
    · have := hI.bP _ _ h1; simp [h2] at this ⊢; omega
    · exact hI.bP _ _ hk'
  · exact hI.bC
  · exact hI.nb


theorem inv_pEnter {p : Params} {s s' : State} {i : Nat} (hI : Inv p s)
    (h : step p s (.pEnter i) = some s') : Inv p s' := by
  obtain ⟨pr, h1, hpc, hl, rfl⟩ := step_pEnter h
  have e1 := lsum_set pPre _ _ _ { pr with pc := .inSlot } h1
  have e2 := lsum_set pDone _ _ _ { pr with pc := .inSlot } h1
  have e3 := lsum_set pK _ _ _ { pr with pc := .inSlot } h1
  have e4 := le_lsum pPre _ _ _ h1
  simp [pPre, pDone, pK, wPre, wDone, hpc] at e1 e2 e3 e4
  have hRW := hI.fifo.length_le
  have ht1 := hI.t1
  have ht2 := hI.t2
  constructor <;> dsimp only
  · simpa using hI.lenP
  · exact hI.lenC
  · exact hI.lenS
  · omega
  · omega
  · have := hI.wK; omega
  · exact hI.rK
  · intro k x hk
    rcases getElem?_set_cases hk with ⟨rfl, rfl⟩ | ⟨hne, hk'⟩
    · simp
    · have := hI.mP _ _ hk'
      rw [hl] at this
      simp at this
      simp [this]; omega
  · intro k hk
    simp at hk; subst hk
    have := (List.getElem?_eq_some_iff.mp h1).1
    simpa using this
  · exact hI.mC
  · exact hI.mCl
  · exact hI.pa
  · exact hI.ca
  · exact hI.live
  · exact hI.dead
  · exact hI.fifo
  · intro k x hk
    rcases getElem?_set_cases hk with ⟨rfl, rfl⟩ | ⟨hne, hk'⟩
    · have := hI.bP _ _ h1; simp [hpc] at this ⊢; omega
    · exact hI.bP _ _ hk'
  · exact hI.bC
  · have hd := hI.dead s.writes.length (Nat.le_refl _) (by omega)
    rw [← hI.pa] at hd
    have hb := hI.nb
    simp only [hb, Bool.false_or, Bool.or_eq_false_iff, decide_eq_false_iff_not]
    refine ⟨by simp [hd], ?_⟩
    rintro ⟨hs, hcp⟩
    obtain ⟨j, hj⟩ := Option.isSome_iff_exists.mp hs
    have hjl := hI.mCl j hj
    have hcj : s.cons[j]? = some s.cons[j] := List.getElem?_eq_getElem hjl
    have hin := (hI.mC j _ hcj).mpr hj
    have e5 := le_lsum cPre _ _ _ hcj
    simp [cPre, wPre, hin] at e5
    rw [hI.pa, hI.ca] at hcp
    exact mod_ne_of_lt _ _ _ (by omega) (by omega) hcp


theorem inv_pLeave {p : Params} {s s' : State} {i : Nat} (hc : 1 ≤ p.cap) (hI : Inv p s)
    (h : step p s (.pLeave i) = some s') : Inv p s' := by
  obtain ⟨pr, its, h1, h2, hpc, hl, rfl⟩ := step_pLeave h
  have e1 := lsum_set pPre _ _ _ { pr with pc := .done } h1
  have e2 := lsum_set pDone _ _ _ { pr with pc := .done } h1
  have e3 := lsum_set pK _ _ _ { pr with pc := .done } h1
  have e4 := le_lsum pPre _ _ _ h1
  simp [pPre, pDone, pK, wPre, wDone, hpc] at e1 e2 e3 e4
  have hRW := hI.fifo.length_le
  have ht1 := hI.t1
  have ht2 := hI.t2
  have hplt : s.writes.length % p.cap < s.slots.length := by rw [hI.lenS]; exact Nat.mod_lt _ (by omega)
  constructor <;> dsimp only
  · simpa using hI.lenP
  · exact hI.lenC
  · simpa using hI.lenS
  · omega
  · simp; omega
  · have := hI.wK; simp; omega
  · exact hI.rK
  · intro k x hk
    rcases getElem?_set_cases hk with ⟨rfl, rfl⟩ | ⟨hne, hk'⟩
    · simp
    · have := hI.mP _ _ hk'
      rw [hl] at this
      simp at this
      simp [this]; omega
  · intro k hk
    simp at hk
  · exact hI.mC
  · exact hI.mCl
  · rw [hI.pa, succ_mod_wrap _ _ hc]; simp
  · exact hI.ca
  · intro m hm1 hm2
    simp only [List.length_append, List.length_singleton] at hm2
    rw [hI.pa]
    by_cases hmw : m = s.writes.length
    · subst hmw
      rw [List.getElem?_set_self hplt]
      simp
    · rw [List.getElem?_set_ne (mod_ne_of_lt _ _ _ (by omega) (by omega)).symm]
      rw [hI.live m hm1 (by omega)]
      rw [List.getElem?_append_left (by omega)]
  · intro m hm1 hm2
    simp only [List.length_append, List.length_singleton] at hm1
    rw [hI.pa]
    rw [List.getElem?_set_ne (mod_ne_of_lt _ _ _ (by omega) (by omega))]
    exact hI.dead m (by omega) hm2
  · exact hI.fifo.trans (List.prefix_append _ _)
  · intro k x hk
    rcases getElem?_set_cases hk with ⟨rfl, rfl⟩ | ⟨hne, hk'⟩
    · have := hI.bP _ _ h1; simp [hpc] at this ⊢; omega
    · exact hI.bP _ _ hk'
  · exact hI.bC
  · exact hI.nb


theorem inv_pPost {p : Params} {s s' : State} {i : Nat} (hI : Inv p s)
    (h : step p s (.pPost i) = some s') : Inv p s' := by
  obtain ⟨pr, h1, hpc, rfl⟩ := step_pPost h
  have e1 := lsum_set pPre _ _ _ { pc := .idle, next := pr.next + 1 } h1
  have e2 := lsum_set pDone _ _ _ { pc := .idle, next := pr.next + 1 } h1
  have e3 := lsum_set pK _ _ _ { pc := .idle, next := pr.next + 1 } h1
  simp [pPre, pDone, pK, wPre, wDone, hpc] at e1 e2 e3
  have ht1 := hI.t1
  have ht2 := hI.t2
  constructor <;> dsimp only
  · simpa using hI.lenP
  · exact hI.lenC
  · exact hI.lenS
  · omega
  · omega
  · have := hI.wK; omega
  · exact hI.rK
  · intro k x hk
    rcases getElem?_set_cases hk with ⟨rfl, rfl⟩ | ⟨hne, hk'⟩
    · have := hI.mP _ _ h1; simp [hpc] at this ⊢; exact this
    · exact hI.mP _ _ hk'
  · simpa using hI.mPl
  · exact hI.mC
  · exact hI.mCl
  · exact hI.pa
  · exact hI.ca
  · exact hI.live
  · exact hI.dead
  · exact hI.fifo
  · intro k x hk
    rcases getElem?_set_cases hk with ⟨rfl, rfl⟩ | ⟨hne, hk'⟩
    · have := hI.bP _ _ h1; simp [hpc] at this ⊢; omega
    · exact hI.bP _ _ hk'
  · exact hI.bC
  · exact hI.nb

theorem inv_cWait {p : Params} {s s' : State} {j : Nat} (hI : Inv p s)
    (h : step p s (.cWait j) = some s') : Inv p s' := by
  obtain ⟨c, q, h1, h2, hpc, hn, he, rfl⟩ := step_cWait h
  have e1 := lsum_set cPre _ _ _ { c with pc := .waited } h1
  have e2 := lsum_set cDone _ _ _ { c with pc := .waited } h1
  have e3 := lsum_set cK _ _ _ { c with pc := .waited } h1
  simp [cPre, cDone, cK, wPre, wDone, hpc] at e1 e2 e3
  have ht1 := hI.t1
  have ht2 := hI.t2
  constructor <;> dsimp only
  · exact hI.lenP
  · simpa using hI.lenC
  · exact hI.lenS
  · omega
  · omega
  · exact hI.wK
  · have := hI.rK; omega
  · exact hI.mP
  · exact hI.mPl
  · intro k x hk
    rcases getElem?_set_cases hk with ⟨rfl, rfl⟩ | ⟨hne, hk'⟩
    · have := hI.mC _ _ h1; simp [hpc] at this ⊢; exact this
    · exact hI.mC _ _ hk'
  · simpa using hI.mCl
  · exact hI.pa
  · exact hI.ca
  · exact hI.live
  · exact hI.dead
  · exact hI.fifo
  · exact hI.bP
  · intro k x hk
    rcases getElem?_set_cases hk with ⟨rfl, rfl⟩ | ⟨hne, hk'⟩
    · have := hI.bC _ _ h1; simp [h2] at this ⊢; omega
    · exact hI.bC _ _ hk'
  · exact hI.nb

theorem inv_cEnter {p : Params} {s s' : State} {j : Nat} (hI : Inv p s)
    (h : step p s (.cEnter j) = some s') : Inv p s' := by
  obtain ⟨c, h1, hpc, hl, rfl⟩ := step_cEnter h
  have e1 := lsum_set cPre _ _ _ { c with pc := .inSlot } h1
  have e2 := lsum_set cDone _ _ _ { c with pc := .inSlot } h1
  have e3 := lsum_set cK _ _ _ { c with pc := .inSlot } h1
  have e4 := le_lsum cPre _ _ _ h1
  simp [cPre, cDone, cK, wPre, wDone, hpc] at e1 e2 e3 e4
  have hRW := hI.fifo.length_le
  have ht1 := hI.t1
  have ht2 := hI.t2
  constructor <;> dsimp only
  · exact hI.lenP
  · simpa using hI.lenC
  · exact hI.lenS
  · omega
  · omega
  · exact hI.wK
  · have := hI.rK; omega
  · exact hI.mP
  · exact hI.mPl
  · intro k x hk
    rcases getElem?_set_cases hk with ⟨rfl, rfl⟩ | ⟨hne, hk'⟩
    · simp
    · have := hI.mC _ _ hk'
      rw [hl] at this
      simp at this
      simp [this]; omega
  · intro k hk
    simp at hk; subst hk
    have := (List.getElem?_eq_some_iff.mp h1).1
    simpa using this
  · exact hI.pa
  · exact hI.ca
  · exact hI.live
  · exact hI.dead
  · exact hI.fifo
  · exact hI.bP
  · intro k x hk
    rcases getElem?_set_cases hk with ⟨rfl, rfl⟩ | ⟨hne, hk'⟩
    · have := hI.bC _ _ h1; simp [hpc] at this ⊢; omega
    · exact hI.bC _ _ hk'
  · have hd := hI.live s.reads.length (Nat.le_refl _) (by omega)
    rw [← hI.ca] at hd
    have hw : s.writes[s.reads.length]? = some s.writes[s.reads.length] := List.getElem?_eq_getElem (by omega)
    rw [hw] at hd
    have hb := hI.nb
    simp only [hb, Bool.false_or, Bool.or_eq_false_iff, decide_eq_false_iff_not]
    refine ⟨by simp [hd], ?_⟩
    rintro ⟨hs, hcp⟩
    obtain ⟨i, hi⟩ := Option.isSome_iff_exists.mp hs
    have hil := hI.mPl i hi
    have hpi : s.prods[i]? = some s.prods[i] := List.getElem?_eq_getElem hil
    have hin := (hI.mP i _ hpi).mpr hi
    have e5 := le_lsum pPre _ _ _ hpi
    simp [pPre, wPre, hin] at e5
    rw [hI.pa, hI.ca] at hcp
    exact mod_ne_of_lt _ _ _ (by omega) (by omega) hcp.symm

theorem inv_cLeave {p : Params} {s s' : State} {j : Nat} (hc : 1 ≤ p.cap) (hI : Inv p s)
    (h : step p s (.cLeave j) = some s') : Inv p s' := by
  obtain ⟨c, h1, hpc, hl, rfl⟩ := step_cLeave h
  generalize hit : (s.slots.getD s.consumeAt none).getD (0, 0) = it
  have e1 := lsum_set cPre _ _ _ { c with pc := .done, got := c.got ++ [it] } h1
  have e2 := lsum_set cDone _ _ _ { c with pc := .done, got := c.got ++ [it] } h1
  have e3 := lsum_set cK _ _ _ { c with pc := .done, got := c.got ++ [it] } h1
  have e4 := le_lsum cPre _ _ _ h1
  simp [cPre, cDone, cK, wPre, wDone, hpc] at e1 e2 e3 e4
  have hRW := hI.fifo.length_le
  have ht1 := hI.t1
  have ht2 := hI.t2
  have hplt : s.reads.length % p.cap < s.slots.length := by rw [hI.lenS]; exact Nat.mod_lt _ (by omega)
  have hd := hI.live s.reads.length (Nat.le_refl _) (by omega)
  rw [← hI.ca] at hd
  obtain ⟨w, hw⟩ : ∃ w, s.writes[s.reads.length]? = some w :=
    ⟨_, List.getElem?_eq_getElem (show s.reads.length < s.writes.length by omega)⟩
  rw [hw] at hd
  have hit' : it = w := by rw [← hit]; simp [hd]
  constructor <;> dsimp only
  · exact hI.lenP
  · simpa using hI.lenC
  · simpa using hI.lenS
  · omega
  · simp; omega
  · exact hI.wK
  · have := hI.rK; simp; omega
  · exact hI.mP
  · exact hI.mPl
  · intro k x hk
    rcases getElem?_set_cases hk with ⟨rfl, rfl⟩ | ⟨hne, hk'⟩
    · simp
    · have := hI.mC _ _ hk'
      rw [hl] at this
      simp at this
      simp [this]; omega
  · intro k hk
    simp at hk
  · exact hI.pa
  · rw [hI.ca, succ_mod_wrap _ _ hc]; simp
  · intro m hm1 hm2
    simp only [List.length_append, List.length_singleton] at hm1
    rw [hI.ca]
    rw [List.getElem?_set_ne (mod_ne_of_lt _ _ _ (by omega) (by omega))]
    exact hI.live m (by omega) hm2
  · intro m hm1 hm2
    simp only [List.length_append, List.length_singleton] at hm2
    rw [hI.ca]
    by_cases hmw : m = s.reads.length + p.cap
    · subst hmw
      rw [Nat.add_mod_right, List.getElem?_set_self hplt]
    · rw [List.getElem?_set_ne (mod_ne_of_lt _ _ _ (by omega) (by omega))]
      exact hI.dead m hm1 (by omega)
  · rw [hit']
    have hp := List.prefix_iff_eq_take.mp hI.fifo
    have : s.reads ++ [w] = s.writes.take (s.reads.length + 1) := by
      rw [List.take_add_one, hw, ← hp]; rfl
    rw [this]
    exact List.take_prefix _ _
  · exact hI.bP
  · intro k x hk
    rcases getElem?_set_cases hk with ⟨rfl, rfl⟩ | ⟨hne, hk'⟩
    · have := hI.bC _ _ h1; simp [hpc] at this ⊢; omega
    · exact hI.bC _ _ hk'
  · exact hI.nb

theorem inv_cPost {p : Params} {s s' : State} {j : Nat} (hI : Inv p s)
    (h : step p s (.cPost j) = some s') : Inv p s' := by
  obtain ⟨c, h1, hpc, rfl⟩ := step_cPost h
  have e1 := lsum_set cPre _ _ _ { c with pc := .idle, taken := c.taken + 1 } h1
  have e2 := lsum_set cDone _ _ _ { c with pc := .idle, taken := c.taken + 1 } h1
  have e3 := lsum_set cK _ _ _ { c with pc := .idle, taken := c.taken + 1 } h1
  simp [cPre, cDone, cK, wPre, wDone, hpc] at e1 e2 e3
  have ht1 := hI.t1
  have ht2 := hI.t2
  constructor <;> dsimp only
  · exact hI.lenP
  · simpa using hI.lenC
  · exact hI.lenS
  · omega
  · omega
  · exact hI.wK
  · have := hI.rK; omega
  · exact hI.mP
  · exact hI.mPl
  · intro k x hk
    rcases getElem?_set_cases hk with ⟨rfl, rfl⟩ | ⟨hne, hk'⟩
    · have := hI.mC _ _ h1; simp [hpc] at this ⊢; exact this
    · exact hI.mC _ _ hk'
  · simpa using hI.mCl
  · exact hI.pa
  · exact hI.ca
  · exact hI.live
  · exact hI.dead
  · exact hI.fifo
  · exact hI.bP
  · intro k x hk
    rcases getElem?_set_cases hk with ⟨rfl, rfl⟩ | ⟨hne, hk'⟩
    · have := hI.bC _ _ h1; simp [hpc] at this ⊢; omega
    · exact hI.bC _ _ hk'
  · exact hI.nb

theorem inv_step {p : Params} {s s' : State} {l : Label} (hc : 1 ≤ p.cap) (hI : Inv p s)
    (h : step p s l = some s') : Inv p s' := by
  cases l with
  | pWait i => exact inv_pWait hI h
  | pEnter i => exact inv_pEnter hI h
  | pLeave i => exact inv_pLeave hc hI h
  | pPost i => exact inv_pPost hI h
  | cWait j => exact inv_cWait hI h
  | cEnter j => exact inv_cEnter hI h
  | cLeave j => exact inv_cLeave hc hI h
  | cPost j => exact inv_cPost hI h

theorem inv_of_reachable {p : Params} (hc : 1 ≤ p.cap) {s : State} (hr : Reachable p s) : Inv p s := by
  induction hr with
  | init => exact inv_init p
  | step _ hs ih => exact inv_step hc ih hs

/-! ### no deadlock -/
theorem totalItems_eq (p : Params) : totalItems p = lsum List.length p.items := by
  rw [lsum_eq_map_sum]; rfl

theorem totalQuota_eq (p : Params) : totalQuota p = lsum id p.quotas := by
  rw [lsum_eq_map_sum]; simp [totalQuota]

theorem enabled_pLeave {p : Params} {s : State} (hI : Inv p s) {k : Nat} (hl : s.pLock = some k) :
    ∃ l s', step p s l = some s' := by
  have hk := hI.mPl k hl
  have hpk : s.prods[k]? = some s.prods[k] := List.getElem?_eq_getElem hk
  have hin := (hI.mP k _ hpk).mpr hl
  have hik : p.items[k]? = some (p.items[k]'(by rw [← hI.lenP]; exact hk)) := List.getElem?_eq_getElem _
  exact ⟨.pLeave k, _, by simp only [step, hpk, hik, hin, hl, and_self, if_true]; rfl⟩

theorem enabled_cLeave {p : Params} {s : State} (hI : Inv p s) {k : Nat} (hl : s.cLock = some k) :
    ∃ l s', step p s l = some s' := by
  have hk := hI.mCl k hl
  have hck : s.cons[k]? = some s.cons[k] := List.getElem?_eq_getElem hk
  have hin := (hI.mC k _ hck).mpr hl
  exact ⟨.cLeave k, _, by simp only [step, hck, hin, hl, and_self, if_true]; rfl⟩

theorem enabled_of_prod_busy {p : Params} {s : State} (hI : Inv p s) {i : Nat} {pr : Prod}
    (h1 : s.prods[i]? = some pr) (hpc : pr.pc ≠ .idle) : ∃ l s', step p s l = some s' := by
  cases hp : pr.pc with
  | idle => exact absurd hp hpc
  | waited =>
    cases hl : s.pLock with
    | none => exact ⟨.pEnter i, _, by simp only [step, h1, hp, hl, and_self, if_true]; rfl⟩
    | some k => exact enabled_pLeave hI hl
  | inSlot => exact enabled_pLeave hI ((hI.mP i pr h1).mp hp)
  | done => exact ⟨.pPost i, _, by simp only [step, h1, hp, if_true]; rfl⟩

theorem enabled_of_cons_busy {p : Params} {s : State} (hI : Inv p s) {j : Nat} {c : Cons}
    (h1 : s.cons[j]? = some c) (hpc : c.pc ≠ .idle) : ∃ l s', step p s l = some s' := by
  cases hp : c.pc with
  | idle => exact absurd hp hpc
  | waited =>
    cases hl : s.cLock with
    | none => exact ⟨.cEnter j, _, by simp only [step, h1, hp, hl, and_self, if_true]; rfl⟩
    | some k => exact enabled_cLeave hI hl
  | inSlot => exact enabled_cLeave hI ((hI.mC j c h1).mp hp)
  | done => exact ⟨.cPost j, _, by simp only [step, h1, hp, if_true]; rfl⟩

/-- facts about a quiescent state (all threads idle) -/
theorem quiescent_facts {p : Params} {s : State} (hI : Inv p s)
    (hP : ∀ (i : Nat) pr, s.prods[i]? = some pr → pr.pc = .idle)
    (hC : ∀ (j : Nat) c, s.cons[j]? = some c → c.pc = .idle) :
    s.empty + s.used = p.cap ∧ s.writes.length = s.reads.length + s.used ∧
    s.writes.length = lsum (·.next) s.prods ∧ s.reads.length = lsum (·.taken) s.cons := by
  have z1 : lsum pPre s.prods = 0 := lsum_eq_zero _ _ (fun i a h => by simp [pPre, wPre, hP i a h])
  have z2 : lsum pDone s.prods = 0 := lsum_eq_zero _ _ (fun i a h => by simp [pDone, wDone, hP i a h])
  have z3 : lsum cPre s.cons = 0 := lsum_eq_zero _ _ (fun i a h => by simp [cPre, wPre, hC i a h])
  have z4 : lsum cDone s.cons = 0 := lsum_eq_zero _ _ (fun i a h => by simp [cDone, wDone, hC i a h])
  have k1 : lsum pK s.prods = lsum (·.next) s.prods := by
    apply Nat.le_antisymm
    · exact lsum_le_lsum _ _ _ _ rfl (fun i a b ha hb => by
        rw [ha] at hb; cases hb; simp [pK, wDone, hP i a ha])
    · exact lsum_le_lsum _ _ _ _ rfl (fun i a b ha hb => by
        rw [ha] at hb; cases hb; simp [pK])
  have k2 : lsum cK s.cons = lsum (·.taken) s.cons := by
    apply Nat.le_antisymm
    · exact lsum_le_lsum _ _ _ _ rfl (fun i a b ha hb => by
        rw [ha] at hb; cases hb; simp [cK, wDone, hC i a ha])
    · exact lsum_le_lsum _ _ _ _ rfl (fun i a b ha hb => by
        rw [ha] at hb; cases hb; simp [cK])
  have := hI.t1; have := hI.t2; have := hI.wK; have := hI.rK
  refine ⟨by omega, by omega, by omega, by omega⟩

theorem next_le_total {p : Params} {s : State} (hI : Inv p s) : lsum (·.next) s.prods ≤ totalItems p := by
  rw [totalItems_eq]
  exact lsum_le_lsum _ _ _ _ hI.lenP (fun i a b ha hb => by
    have := (hI.bP i a ha).1
    simpa [hb] using this)

theorem taken_le_total {p : Params} {s : State} (hI : Inv p s) : lsum (·.taken) s.cons ≤ totalQuota p := by
  rw [totalQuota_eq]
  exact lsum_le_lsum _ _ _ _ hI.lenC (fun i a b ha hb => by
    have := (hI.bC i a ha).1
    simpa [hb] using this)

theorem no_deadlock {p : Params} {s : State} (hc : 1 ≤ p.cap) (hq : totalItems p = totalQuota p) (hI : Inv p s) :
    Final p s ∨ ∃ l s', step p s l = some s' := by
  by_cases hP : ∀ (i : Nat) pr, s.prods[i]? = some pr → pr.pc = .idle
  case neg =>
    right
    apply Classical.byContradiction
    intro hn
    exact hP (fun i pr h => Classical.byContradiction (fun hne => hn (enabled_of_prod_busy hI h hne)))
  by_cases hC : ∀ (j : Nat) c, s.cons[j]? = some c → c.pc = .idle
  case neg =>
    right
    apply Classical.byContradiction
    intro hn
    exact hC (fun i pr h => Classical.byContradiction (fun hne => hn (enabled_of_cons_busy hI h hne)))
  obtain ⟨q1, q2, q3, q4⟩ := quiescent_facts hI hP hC
  have b1 := next_le_total hI
  have b2 := taken_le_total hI
  by_cases hu : 0 < s.used
  · right
    have hlt : lsum (·.taken) s.cons < lsum id p.quotas := by rw [← totalQuota_eq]; omega
    obtain ⟨j, c, q, hj, hqj, hcq⟩ := exists_lt_of_lsum_lt _ _ _ _ hI.lenC hlt
    have hcq' : c.taken < q := hcq
    exact ⟨.cWait j, _, by simp only [step, hj, hqj, hC j c hj, hcq', hu, and_self, if_true]; rfl⟩
  · by_cases hw : s.writes.length < totalItems p
    · right
      have hlt : lsum (·.next) s.prods < lsum List.length p.items := by rw [← totalItems_eq]; omega
      obtain ⟨i, pr, its, hi, hii, hlt'⟩ := exists_lt_of_lsum_lt _ _ _ _ hI.lenP hlt
      have hlt'' : pr.next < its.length := hlt'
      have he : 0 < s.empty := by omega
      exact ⟨.pWait i, _, by simp only [step, hi, hii, hP i pr hi, hlt'', he, and_self, if_true]; rfl⟩
    · left
      have e1 : lsum (·.next) s.prods = lsum List.length p.items := by rw [← totalItems_eq]; omega
      have e2 : lsum (·.taken) s.cons = lsum id p.quotas := by rw [← totalQuota_eq]; omega
      constructor
      · intro i pr hi
        refine ⟨hP i pr hi, ?_⟩
        have hil : i < p.items.length := by rw [← hI.lenP]; exact (List.getElem?_eq_some_iff.mp hi).1
        have hii : p.items[i]? = some p.items[i] := List.getElem?_eq_getElem hil
        have := eq_of_lsum_eq _ _ _ _ hI.lenP (fun i a b ha hb => by
          have := (hI.bP i a ha).1
          simpa [hb] using this) e1 i pr _ hi hii
        simpa [hii] using this
      · intro j c hj
        refine ⟨hC j c hj, ?_⟩
        have hjl : j < p.quotas.length := by rw [← hI.lenC]; exact (List.getElem?_eq_some_iff.mp hj).1
        have hjj : p.quotas[j]? = some p.quotas[j] := List.getElem?_eq_getElem hjl
        have := eq_of_lsum_eq _ _ _ _ hI.lenC (fun i a b ha hb => by
          have := (hI.bC i a ha).1
          simpa [hb] using this) e2 j c _ hj hjj
        simpa [hjj] using this

/-! ### exactly once -/
/-- ghost: what the producers have written so far, grouped by producer -/
def wrote : List Prod → List (List Item) → List Item
  | pr :: ps, its :: is => its.take (pK pr) ++ wrote ps is
  | [], _ => []
  | _ :: _, [] => []

theorem wrote_set_same : ∀ (ps : List Prod) (is : List (List Item)) (i : Nat) (pr pr' : Prod),
    ps[i]? = some pr → pK pr' = pK pr → wrote (ps.set i pr') is = wrote ps is
  | [], _, _, _, _, h, _ => by simp at h
  | x :: ps, [], _, _, _, _, _ => by cases ‹Nat› <;> simp [wrote]
  | x :: ps, y :: is, 0, pr, pr', h, hk => by
    simp at h; subst h; simp [wrote, hk]
  | x :: ps, y :: is, i + 1, pr, pr', h, hk => by
    simp at h
    simp [wrote, wrote_set_same ps is i pr pr' h hk]

theorem wrote_set_succ : ∀ (ps : List Prod) (is : List (List Item)) (i : Nat) (pr pr' : Prod) (its : List Item),
    ps[i]? = some pr → is[i]? = some its → pK pr' = pK pr + 1 → pK pr < its.length →
    (wrote (ps.set i pr') is).Perm (wrote ps is ++ [its.getD (pK pr) (0, 0)])
  | [], _, _, _, _, _, h, _, _, _ => by simp at h
  | x :: ps, [], _, _, _, _, _, h, _, _ => by simp at h
  | x :: ps, y :: is, 0, pr, pr', its, h, h2, hk, hlt => by
    simp at h h2; subst h; subst h2
    simp only [List.set_cons_zero, wrote, hk]
    rw [List.take_add_one, List.getElem?_eq_getElem hlt]
    simp only [Option.toList_some, List.getD_eq_getElem?_getD, List.getElem?_eq_getElem hlt, Option.getD_some,
      List.append_assoc]
    exact List.Perm.append_left _ List.perm_append_comm
  | x :: ps, y :: is, i + 1, pr, pr', its, h, h2, hk, hlt => by
    simp at h h2
    simp only [List.set_cons_succ, wrote, List.append_assoc]
    exact List.Perm.append_left _ (wrote_set_succ ps is i pr pr' its h h2 hk hlt)

theorem wrote_full : ∀ (ps : List Prod) (is : List (List Item)), ps.length = is.length →
    (∀ (i : Nat) pr its, ps[i]? = some pr → is[i]? = some its → pK pr = its.length) → wrote ps is = is.flatten
  | [], [], _, _ => rfl
  | [], _ :: _, h, _ => by simp at h
  | _ :: _, [], h, _ => by simp at h
  | x :: ps, y :: is, hl, h => by
    have h0 := h 0 x y (by simp) (by simp)
    have := wrote_full ps is (by simpa using hl) (fun i pr its h1 h2 => h (i + 1) pr its (by simpa using h1) (by simpa using h2))
    simp [wrote, h0, this]

theorem map_set_same {α β : Type} (f : α → β) : ∀ (l : List α) (i : Nat) (a b : α), l[i]? = some a → f b = f a →
    (l.set i b).map f = l.map f
  | [], _, _, _, h, _ => by simp at h
  | x :: l, 0, a, b, h, hf => by simp at h; subst h; simp [hf]
  | x :: l, i + 1, a, b, h, hf => by
    simp at h
    simp [map_set_same f l i a b h hf]

theorem flatten_map_set_perm {α β : Type} (f : α → List β) : ∀ (l : List α) (i : Nat) (a b : α) (x : β), l[i]? = some a →
    f b = f a ++ [x] → ((l.set i b).map f).flatten.Perm ((l.map f).flatten ++ [x])
  | [], _, _, _, _, h, _ => by simp at h
  | y :: l, 0, a, b, x, h, hf => by
    simp at h; subst h
    simp only [List.set_cons_zero, List.map_cons, List.flatten_cons, hf, List.append_assoc]
    exact List.Perm.append_left _ List.perm_append_comm
  | y :: l, i + 1, a, b, x, h, hf => by
    simp at h
    simp only [List.set_cons_succ, List.map_cons, List.flatten_cons, List.append_assoc]
    exact List.Perm.append_left _ (flatten_map_set_perm f l i a b x h hf)

structure Inv2 (p : Params) (s : State) : Prop where
  pw : s.writes.Perm (wrote s.prods p.items)
  pr : (s.cons.map (·.got)).flatten.Perm s.reads

theorem inv2_init (p : Params) : Inv2 p (init p) := by
  have z : ∀ (l : List (List Item)), wrote (l.map (fun _ => (⟨.idle, 0⟩ : Prod))) l = [] := by
    intro l; induction l with
    | nil => rfl
    | cons a l ih => simp [wrote, ih, pK, wDone]
  constructor
  · simp [init, z]
  · simp [init]

theorem inv2_step {p : Params} {s s' : State} {l : Label} (hI : Inv p s) (h2 : Inv2 p s)
    (h : step p s l = some s') : Inv2 p s' := by
  cases l with
  | pWait i =>
    obtain ⟨pr, its, h1, hi, hpc, hn, he, rfl⟩ := step_pWait h
    exact ⟨by dsimp only; rw [wrote_set_same _ _ _ _ _ h1 (by simp [pK, wDone, hpc])]; exact h2.pw, h2.pr⟩
  | pEnter i =>
    obtain ⟨pr, h1, hpc, hl, rfl⟩ := step_pEnter h
    exact ⟨by dsimp only; rw [wrote_set_same _ _ _ _ _ h1 (by simp [pK, wDone, hpc])]; exact h2.pw, h2.pr⟩
  | pLeave i =>
    obtain ⟨pr, its, h1, hi, hpc, hl, rfl⟩ := step_pLeave h
    refine ⟨?_, h2.pr⟩
    dsimp only
    have hb := (hI.bP i pr h1).2 (by simp [hpc])
    simp only [List.getD_eq_getElem?_getD, hi, Option.getD_some] at hb
    have hk : pK pr = pr.next := by simp [pK, wDone, hpc]
    have := wrote_set_succ s.prods p.items i pr { pr with pc := .done } its h1 hi (by simp [pK, wDone, hpc]) (by omega)
    rw [hk] at this
    exact (List.Perm.append_right _ h2.pw).trans this.symm
  | pPost i =>
    obtain ⟨pr, h1, hpc, rfl⟩ := step_pPost h
    exact ⟨by dsimp only; rw [wrote_set_same _ _ _ _ _ h1 (by simp [pK, wDone, hpc])]; exact h2.pw, h2.pr⟩
  | cWait j =>
    obtain ⟨c, q, h1, hj, hpc, hn, he, rfl⟩ := step_cWait h
    exact ⟨h2.pw, by dsimp only; rw [map_set_same (·.got) _ _ c { c with pc := .waited } h1 rfl]; exact h2.pr⟩
  | cEnter j =>
    obtain ⟨c, h1, hpc, hl, rfl⟩ := step_cEnter h
    exact ⟨h2.pw, by dsimp only; rw [map_set_same (·.got) _ _ c { c with pc := .inSlot } h1 rfl]; exact h2.pr⟩
  | cLeave j =>
    obtain ⟨c, h1, hpc, hl, rfl⟩ := step_cLeave h
    refine ⟨h2.pw, ?_⟩
    dsimp only
    generalize (s.slots.getD s.consumeAt none).getD (0, 0) = it
    exact (flatten_map_set_perm (·.got) _ _ c { c with pc := .done, got := c.got ++ [it] } it h1 rfl).trans
      (List.Perm.append_right _ h2.pr)
  | cPost j =>
    obtain ⟨c, h1, hpc, rfl⟩ := step_cPost h
    exact ⟨h2.pw, by dsimp only; rw [map_set_same (·.got) _ _ c { c with pc := .idle, taken := c.taken + 1 } h1 rfl]; exact h2.pr⟩

theorem inv2_of_reachable {p : Params} (hc : 1 ≤ p.cap) {s : State} (hr : Reachable p s) : Inv2 p s := by
  induction hr with
  | init => exact inv2_init p
  | step hr' hs ih => exact inv2_step (inv_of_reachable hc hr') ih hs

theorem exactly_once {p : Params} {s : State} (hq : totalItems p = totalQuota p) (hI : Inv p s) (h2 : Inv2 p s)
    (hf : Final p s) :
    s.reads = s.writes ∧ s.writes.Perm p.items.flatten ∧ (s.cons.map (·.got)).flatten.Perm p.items.flatten := by
  obtain ⟨q1, q2, q3, q4⟩ := quiescent_facts hI (fun i pr h => (hf.1 i pr h).1) (fun j c h => (hf.2 j c h).1)
  have e1 : lsum (·.next) s.prods = totalItems p := by
    rw [totalItems_eq]
    apply Nat.le_antisymm
    · exact lsum_le_lsum _ _ _ _ hI.lenP (fun i a b ha hb => by
        have := (hf.1 i a ha).2; simp [hb] at this; simp [this])
    · exact lsum_le_lsum _ _ _ _ hI.lenP.symm (fun i b a hb ha => by
        have := (hf.1 i a ha).2; simp [hb] at this; simp [this])
  have e2 : lsum (·.taken) s.cons = totalQuota p := by
    rw [totalQuota_eq]
    apply Nat.le_antisymm
    · exact lsum_le_lsum _ _ _ _ hI.lenC (fun i a b ha hb => by
        have := (hf.2 i a ha).2; simp [hb] at this; simp [this])
    · exact lsum_le_lsum _ _ _ _ hI.lenC.symm (fun i b a hb ha => by
        have := (hf.2 i a ha).2; simp [hb] at this; simp [this])
  have hrw : s.reads = s.writes := hI.fifo.eq_of_length (by omega)
  have hfull : wrote s.prods p.items = p.items.flatten :=
    wrote_full _ _ hI.lenP (fun i pr its h1 hi => by
      have := hf.1 i pr h1
      simp [hi] at this
      simp [pK, wDone, this.1, this.2])
  have hw : s.writes.Perm p.items.flatten := hfull ▸ h2.pw
  exact ⟨hrw, hw, (hrw ▸ h2.pr).trans hw⟩

/-! ### per-producer order -/
/-- number of items producer `i` has written -/
def kAt (ps : List Prod) (i : Nat) : Nat := (ps[i]?.map pK).getD 0

theorem kAt_set {ps : List Prod} {i' : Nat} {pr : Prod} (pr' : Prod) (h : ps[i']? = some pr) (i : Nat) :
    kAt (ps.set i' pr') i = if i = i' then pK pr' else kAt ps i := by
  unfold kAt
  split
  · next e =>
    subst e
    rw [List.getElem?_set_self (List.getElem?_eq_some_iff.mp h).1]; rfl
  · next e =>
    rw [List.getElem?_set_ne (fun e' => e e'.symm)]

theorem kAt_set_same {ps : List Prod} {i' : Nat} {pr : Prod} (pr' : Prod) (h : ps[i']? = some pr) (hk : pK pr' = pK pr)
    (i : Nat) : kAt (ps.set i' pr') i = kAt ps i := by
  rw [kAt_set pr' h]
  split
  · next e => subst e; simp [kAt, h, hk]
  · rfl

structure Inv3 (p : Params) (s : State) : Prop where
  ord : ∀ i, s.writes.filter (fun it => it.1 == i) = (p.items.getD i []).take (kAt s.prods i)
  sub : ∀ (j : Nat) c, s.cons[j]? = some c → c.got.Sublist s.reads

theorem inv3_init (p : Params) : Inv3 p (init p) := by
  constructor
  · intro i
    have : kAt (init p).prods i = 0 := by
      simp only [kAt, init, List.getElem?_map]
      cases p.items[i]? <;> simp [pK, wDone]
    rw [this]; simp [init]
  · intro j c h
    simp only [init, List.getElem?_map] at h
    cases hq : p.quotas[j]? <;> simp [hq] at h
    subst h; simp [init]

theorem sub_set_same {cs : List Cons} {rs : List Item} (hs : ∀ (j : Nat) c, cs[j]? = some c → c.got.Sublist rs)
    {j : Nat} {c c' : Cons} (h1 : cs[j]? = some c) (hg : c'.got = c.got) :
    ∀ (k : Nat) x, (cs.set j c')[k]? = some x → x.got.Sublist rs := by
  intro k x hk
  rcases getElem?_set_cases hk with ⟨rfl, rfl⟩ | ⟨_, hk'⟩
  · rw [hg]; exact hs _ _ h1
  · exact hs _ _ hk'

theorem inv3_step {p : Params} {s s' : State} {l : Label}
    (hid : ∀ (i : Nat) (its : List Item), p.items[i]? = some its → ∀ it ∈ its, it.1 = i)
    (hI : Inv p s) (h3 : Inv3 p s) (h : step p s l = some s') : Inv3 p s' := by
  cases l with
  | pWait i =>
    obtain ⟨pr, its, h1, hi, hpc, hn, he, rfl⟩ := step_pWait h
    exact ⟨fun k => by dsimp only; rw [kAt_set_same _ h1 (by simp [pK, wDone, hpc])]; exact h3.ord k, h3.sub⟩
  | pEnter i =>
    obtain ⟨pr, h1, hpc, hl, rfl⟩ := step_pEnter h
    exact ⟨fun k => by dsimp only; rw [kAt_set_same _ h1 (by simp [pK, wDone, hpc])]; exact h3.ord k, h3.sub⟩
  | pLeave i =>
    obtain ⟨pr, its, h1, hi, hpc, hl, rfl⟩ := step_pLeave h
    refine ⟨?_, h3.sub⟩
    intro k
    dsimp only
    have hb := (hI.bP i pr h1).2 (by simp [hpc])
    simp only [List.getD_eq_getElem?_getD, hi, Option.getD_some] at hb
    have hget : its.getD pr.next (0, 0) = its[pr.next] := by simp [hb]
    have htag : (its[pr.next]).1 = i := hid i its hi _ (List.getElem_mem hb)
    rw [hget, List.filter_append, h3.ord k, kAt_set _ h1]
    by_cases hk : k = i
    · subst hk
      have hkat : kAt s.prods k = pr.next := by simp [kAt, h1, pK, wDone, hpc]
      simp only [if_true, hkat, pK, wDone, List.getD_eq_getElem?_getD, hi, Option.getD_some]
      rw [List.take_add_one, List.getElem?_eq_getElem hb]
      simp [htag]
    · have : (its[pr.next].1 == k) = false := by simp [htag]; omega
      simp [hk, this]
  | pPost i =>
    obtain ⟨pr, h1, hpc, rfl⟩ := step_pPost h
    exact ⟨fun k => by dsimp only; rw [kAt_set_same _ h1 (by simp [pK, wDone, hpc])]; exact h3.ord k, h3.sub⟩
  | cWait j =>
    obtain ⟨c, q, h1, hj, hpc, hn, he, rfl⟩ := step_cWait h
    exact ⟨h3.ord, sub_set_same h3.sub h1 rfl⟩
  | cEnter j =>
    obtain ⟨c, h1, hpc, hl, rfl⟩ := step_cEnter h
    exact ⟨h3.ord, sub_set_same h3.sub h1 rfl⟩
  | cLeave j =>
    obtain ⟨c, h1, hpc, hl, rfl⟩ := step_cLeave h
    refine ⟨h3.ord, ?_⟩
    dsimp only
    intro k x hk
    rcases getElem?_set_cases hk with ⟨rfl, rfl⟩ | ⟨_, hk'⟩
    · exact List.Sublist.append (h3.sub _ _ h1) (List.Sublist.refl _)
    · exact (h3.sub _ _ hk').trans (List.sublist_append_left _ _)
  | cPost j =>
    obtain ⟨c, h1, hpc, rfl⟩ := step_cPost h
    exact ⟨h3.ord, sub_set_same h3.sub h1 rfl⟩

theorem inv3_of_reachable {p : Params} (hc : 1 ≤ p.cap)
    (hid : ∀ (i : Nat) (its : List Item), p.items[i]? = some its → ∀ it ∈ its, it.1 = i)
    {s : State} (hr : Reachable p s) : Inv3 p s := by
  induction hr with
  | init => exact inv3_init p
  | step hr' hs ih => exact inv3_step hid (inv_of_reachable hc hr') ih hs

end PV.Lemmas.Queues.PCQ
