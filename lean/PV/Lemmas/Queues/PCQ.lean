import PV.Model.Queues
namespace PV.Lemmas.Queues.PCQ
open PV.Queues PV.Queues.PCQ

/-! ### sums of a weight over a list -/
def lsum {α : Type} (f : α → Nat) : List α → Nat
  | [] => 0
  | a :: l => f a + lsum f l

@[simp] theorem lsum_nil {α : Type} (f : α → Nat) : lsum f [] = 0 := rfl
@[simp] theorem lsum_cons {α : Type} (f : α → Nat) (a : α) (l : List α) : lsum f (a :: l) = f a + lsum f l := rfl

theorem lsum_eq_map_sum {α : Type} (f : α → Nat) (l : List α) : lsum f l = (l.map f).sum := by
  induction l with
  | nil => rfl
  | cons a l ih => simp [ih]

theorem lsum_set {α : Type} (f : α → Nat) : ∀ (l : List α) (i : Nat) (a b : α), l[i]? = some a →
    lsum f (l.set i b) + f a = lsum f l + f b
  | [], _, _, _, h => by simp at h
  | x :: l, 0, a, b, h => by
    simp at h; subst h; simp; omega
  | x :: l, i + 1, a, b, h => by
    simp at h
    have := lsum_set f l i a b h
    simp; omega

theorem le_lsum {α : Type} (f : α → Nat) : ∀ (l : List α) (i : Nat) (a : α), l[i]? = some a → f a ≤ lsum f l
  | [], _, _, h => by simp at h
  | x :: l, 0, a, h => by simp at h; subst h; simp
  | x :: l, i + 1, a, h => by
    simp at h
    have := le_lsum f l i a h
    simp; omega

theorem lsum_eq_zero {α : Type} (f : α → Nat) : ∀ (l : List α), (∀ (i : Nat) a, l[i]? = some a → f a = 0) → lsum f l = 0
  | [], _ => rfl
  | x :: l, h => by
    have h0 := h 0 x (by simp)
    have := lsum_eq_zero f l (fun i a hi => h (i + 1) a (by simpa using hi))
    simp; omega

theorem lsum_le_lsum {α β : Type} (f : α → Nat) (g : β → Nat) : ∀ (l1 : List α) (l2 : List β), l1.length = l2.length →
    (∀ (i : Nat) a b, l1[i]? = some a → l2[i]? = some b → f a ≤ g b) → lsum f l1 ≤ lsum g l2
  | [], [], _, _ => by simp
  | [], _ :: _, h, _ => by simp at h
  | _ :: _, [], h, _ => by simp at h
  | x :: l1, y :: l2, hl, h => by
    have h0 := h 0 x y (by simp) (by simp)
    have := lsum_le_lsum f g l1 l2 (by simpa using hl) (fun i a b ha hb => h (i + 1) a b (by simpa using ha) (by simpa using hb))
    simp; omega

theorem exists_lt_of_lsum_lt {α β : Type} (f : α → Nat) (g : β → Nat) (l1 : List α) (l2 : List β) (hl : l1.length = l2.length)
    (h : lsum f l1 < lsum g l2) : ∃ (i : Nat) (a : α) (b : β), l1[i]? = some a ∧ l2[i]? = some b ∧ f a < g b := by
  apply Classical.byContradiction
  intro hn
  have := lsum_le_lsum g f l2 l1 hl.symm (fun i b a hb ha => by
    apply Classical.byContradiction
    intro hlt
    exact hn ⟨i, a, b, ha, hb, by omega⟩)
  omega

theorem eq_of_lsum_eq {α β : Type} (f : α → Nat) (g : β → Nat) : ∀ (l1 : List α) (l2 : List β), l1.length = l2.length →
    (∀ (i : Nat) a b, l1[i]? = some a → l2[i]? = some b → f a ≤ g b) → lsum f l1 = lsum g l2 →
    ∀ (i : Nat) a b, l1[i]? = some a → l2[i]? = some b → f a = g b
  | [], _, _, _, _ => by intro i a b ha; simp at ha
  | _ :: _, [], h, _, _ => by simp at h
  | x :: l1, y :: l2, hl, h, he => by
    have h0 := h 0 x y (by simp) (by simp)
    have hl' : l1.length = l2.length := by simpa using hl
    have h' : ∀ (i : Nat) a b, l1[i]? = some a → l2[i]? = some b → f a ≤ g b :=
      fun i a b ha hb => h (i + 1) a b (by simpa using ha) (by simpa using hb)
    have hle := lsum_le_lsum f g l1 l2 hl' h'
    simp at he
    intro i a b ha hb
    cases i with
    | zero => simp at ha hb; subst ha; subst hb; omega
    | succ i =>
      simp at ha hb
      exact eq_of_lsum_eq f g l1 l2 hl' h' (by omega) i a b ha hb

theorem getElem?_set_cases {α : Type} {l : List α} {i k : Nat} {b x : α} (h : (l.set i b)[k]? = some x) :
    (k = i ∧ x = b) ∨ (k ≠ i ∧ l[k]? = some x) := by
  by_cases hk : i = k
  · subst hk
    left
    rw [List.getElem?_set_self'] at h
    cases hh : l[i]? <;> simp [hh] at h
    exact ⟨rfl, h.symm⟩
  · right
    rw [List.getElem?_set_ne hk] at h
    exact ⟨fun e => hk e.symm, h⟩

/-! ### ring arithmetic -/
theorem succ_mod_wrap (w c : Nat) (hc : 1 ≤ c) : (if w % c + 1 = c then 0 else w % c + 1) = (w + 1) % c := by
  have hlt : w % c < c := Nat.mod_lt _ (by omega)
  have hw : (w + 1) % c = (c * (w / c) + (w % c + 1)) % c := by
    congr 1
    have := Nat.div_add_mod w c
    omega
  rw [hw, Nat.mul_add_mod]
  split
  · next h => rw [h, Nat.mod_self]
  · next h => exact (Nat.mod_eq_of_lt (by omega)).symm

theorem mod_ne_of_lt (a b c : Nat) (h1 : a < b) (h2 : b < a + c) : a % c ≠ b % c := by
  intro h
  have hd : c ∣ b - a := Nat.dvd_of_mod_eq_zero (Nat.sub_mod_eq_zero_of_mod_eq h.symm)
  have := Nat.le_of_dvd (by omega) hd
  omega

/-! ### what each step does -/
theorem step_pWait {p : Params} {s s' : State} {i : Nat} (h : step p s (.pWait i) = some s') :
    ∃ pr its, s.prods[i]? = some pr ∧ p.items[i]? = some its ∧ pr.pc = .idle ∧ pr.next < its.length ∧ 0 < s.empty ∧
      s' = { s with empty := s.empty - 1, prods := s.prods.set i { pr with pc := .waited } } := by
  simp only [step] at h
  split at h
  · next pr its h1 h2 =>
    split at h
    · next hc => exact ⟨pr, its, h1, h2, hc.1, hc.2.1, hc.2.2, by simpa using h.symm⟩
    · simp at h
  · simp at h

theorem step_pEnter {p : Params} {s s' : State} {i : Nat} (h : step p s (.pEnter i) = some s') :
    ∃ pr, s.prods[i]? = some pr ∧ pr.pc = .waited ∧ s.pLock = none ∧
      s' = { s with pLock := some i, prods := s.prods.set i { pr with pc := .inSlot },
                    bad := s.bad || (s.slots.getD s.produceAt none).isSome || decide (s.cLock.isSome ∧ s.consumeAt = s.produceAt) } := by
  simp only [step] at h
  split at h
  · next pr h1 =>
    split at h
    · next hc => exact ⟨pr, h1, hc.1, hc.2, by simpa using h.symm⟩
    · simp at h
  · simp at h

theorem step_pLeave {p : Params} {s s' : State} {i : Nat} (h : step p s (.pLeave i) = some s') :
    ∃ pr its, s.prods[i]? = some pr ∧ p.items[i]? = some its ∧ pr.pc = .inSlot ∧ s.pLock = some i ∧
      s' = { s with slots := s.slots.set s.produceAt (some (its.getD pr.next (0, 0))),
                    produceAt := if s.produceAt + 1 = p.cap then 0 else s.produceAt + 1,
                    pLock := none, writes := s.writes ++ [its.getD pr.next (0, 0)],
                    prods := s.prods.set i { pr with pc := .done } } := by
  simp only [step] at h
  split at h
  · next pr its h1 h2 =>
    split at h
    · next hc => exact ⟨pr, its, h1, h2, hc.1, hc.2, by simpa using h.symm⟩
    · simp at h
  · simp at h

theorem step_pPost {p : Params} {s s' : State} {i : Nat} (h : step p s (.pPost i) = some s') :
    ∃ pr, s.prods[i]? = some pr ∧ pr.pc = .done ∧
      s' = { s with used := s.used + 1, prods := s.prods.set i { pc := .idle, next := pr.next + 1 } } := by
  simp only [step] at h
  split at h
  · next pr h1 =>
    split at h
    · next hc => exact ⟨pr, h1, hc, by simpa using h.symm⟩
    · simp at h
  · simp at h

theorem step_cWait {p : Params} {s s' : State} {j : Nat} (h : step p s (.cWait j) = some s') :
    ∃ c q, s.cons[j]? = some c ∧ p.quotas[j]? = some q ∧ c.pc = .idle ∧ c.taken < q ∧ 0 < s.used ∧
      s' = { s with used := s.used - 1, cons := s.cons.set j { c with pc := .waited } } := by
  simp only [step] at h
  split at h
  · next c q h1 h2 =>
    split at h
    · next hc => exact ⟨c, q, h1, h2, hc.1, hc.2.1, hc.2.2, by simpa using h.symm⟩
    · simp at h
  · simp at h

theorem step_cEnter {p : Params} {s s' : State} {j : Nat} (h : step p s (.cEnter j) = some s') :
    ∃ c, s.cons[j]? = some c ∧ c.pc = .waited ∧ s.cLock = none ∧
      s' = { s with cLock := some j, cons := s.cons.set j { c with pc := .inSlot },
                    bad := s.bad || (s.slots.getD s.consumeAt none).isNone || decide (s.pLock.isSome ∧ s.produceAt = s.consumeAt) } := by
  simp only [step] at h
  split at h
  · next c h1 =>
    split at h
    · next hc => exact ⟨c, h1, hc.1, hc.2, by simpa using h.symm⟩
    · simp at h
  · simp at h

theorem step_cLeave {p : Params} {s s' : State} {j : Nat} (h : step p s (.cLeave j) = some s') :
    ∃ c, s.cons[j]? = some c ∧ c.pc = .inSlot ∧ s.cLock = some j ∧
      s' = { s with slots := s.slots.set s.consumeAt none,
                    consumeAt := if s.consumeAt + 1 = p.cap then 0 else s.consumeAt + 1,
                    cLock := none, reads := s.reads ++ [(s.slots.getD s.consumeAt none).getD (0, 0)],
                    cons := s.cons.set j { c with pc := .done, got := c.got ++ [(s.slots.getD s.consumeAt none).getD (0, 0)] } } := by
  simp only [step] at h
  split at h
  · next c h1 =>
    split at h
    · next hc => exact ⟨c, h1, hc.1, hc.2, by simpa using h.symm⟩
    · simp at h
  · simp at h

theorem step_cPost {p : Params} {s s' : State} {j : Nat} (h : step p s (.cPost j) = some s') :
    ∃ c, s.cons[j]? = some c ∧ c.pc = .done ∧
      s' = { s with empty := s.empty + 1, cons := s.cons.set j { c with pc := .idle, taken := c.taken + 1 } } := by
  simp only [step] at h
  split at h
  · next c h1 =>
    split at h
    · next hc => exact ⟨c, h1, hc, by simpa using h.symm⟩
    · simp at h
  · simp at h

end PV.Lemmas.Queues.PCQ
