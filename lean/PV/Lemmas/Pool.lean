import PV.Model.Pool
/-
Helper lemmas and the main theorems about `PV.Pool` (util::Pool).  The property-level statements are restated in
PV/Props/C20.lean.
-/
namespace PV.Lemmas.Pool
open PV.Pool

/-! ### helpers -/

/-- allocation order: earlier allocations sit in earlier pages, or lower in the same page -/
def ordered (a b : Live) : Prop :=
  a.addr.page < b.addr.page ∨ (a.addr.page = b.addr.page ∧ a.addr.off + a.size ≤ b.addr.off)

theorem ordered_disjoint {a b : Live} (h : ordered a b) : disjoint a b := by
  unfold ordered at h; unfold disjoint; omega

structure Inv (h : Hist) : Prop where
  cur_le : h.pool.cur ≤ h.pool.endOff
  inpage : ∀ l ∈ h.live, inPage h.pool l.addr l.size
  last : ∀ l, h.live.getLast? = some l →
    l.addr.page = h.pool.pages.length ∧ l.addr.off + l.size = h.pool.cur
  below : ∀ l ∈ h.live, l.addr.page = h.pool.pages.length → l.addr.off + l.size ≤ h.pool.cur
  ord : h.live.Pairwise ordered
  copies : ∀ c ∈ h.copies, inPage h.pool c.src c.len ∧ inPage h.pool c.dst c.len ∧ c.src.page < c.dst.page
  sizes : ∀ k (hk : k < h.pool.pages.length), 32 * 2 ^ k ≤ h.pool.pages[k]

theorem endOff_append (ps : List Nat) (a c : Nat) : Pool.endOff ⟨ps ++ [a], c⟩ = a := by
  simp [Pool.endOff]

theorem pageSize_append (ps : List Nat) (a c c' j : Nat) (hj : j ≤ ps.length) :
    Pool.pageSize ⟨ps ++ [a], c⟩ j = Pool.pageSize ⟨ps, c'⟩ j := by
  unfold Pool.pageSize
  split
  · rfl
  · simp only [List.getD_eq_getElem?_getD]
    rw [List.getElem?_append_left (by omega)]

theorem pageSize_new (ps : List Nat) (a c : Nat) :
    Pool.pageSize ⟨ps ++ [a], c⟩ (ps.length + 1) = a := by
  simp [Pool.pageSize, List.getD_eq_getElem?_getD]

theorem pageSize_last (p : Pool) : p.pageSize p.pages.length = p.endOff := by
  unfold Pool.pageSize Pool.endOff
  split
  · rename_i h0
    have : p.pages = [] := List.eq_nil_of_length_eq_zero h0
    simp [this]
  · simp [List.getD_eq_getElem?_getD, List.getLast?_eq_getElem?]

theorem inPage_append {ps : List Nat} {c' : Nat} (x c : Nat) {a : Addr} {n : Nat}
    (h : inPage ⟨ps, c'⟩ a n) : inPage ⟨ps ++ [x], c⟩ a n := by
  obtain ⟨h1, h2⟩ := h
  refine ⟨?_, ?_⟩
  · simp only [List.length_append, List.length_cons, List.length_nil]
    simp only at h1; omega
  · rw [pageSize_append ps x c c' a.page h1]; exact h2

theorem inPage_cur {ps : List Nat} {c' : Nat} (c : Nat) {a : Addr} {n : Nat}
    (h : inPage ⟨ps, c'⟩ a n) : inPage ⟨ps, c⟩ a n := h

theorem amount_ge_size (n s : Nat) : s ≤ amount n s := Nat.le_max_right _ _

theorem amount_ge_pow (n s : Nat) : 32 * 2 ^ n ≤ amount n s := by
  unfold amount; rw [Nat.shiftLeft_eq]; exact Nat.le_max_left _ _

theorem inv_init : Inv Hist.init := by
  refine ⟨?_, ?_, ?_, ?_, ?_, ?_, ?_⟩ <;> simp [Hist.init, PV.Pool.init, Pool.endOff]

theorem inv_newpage (h : Hist) (hi : Inv h) (L : List Live) (s : Nat) (C : List Copy)
    (hL : ∀ b ∈ L, b ∈ h.live) (hord : L.Pairwise ordered)
    (hC : ∀ c ∈ C, c ∈ h.copies ∨
      (inPage h.pool c.src c.len ∧ c.dst = ⟨h.pool.pages.length + 1, 0⟩ ∧ c.len ≤ s)) :
    Inv ⟨⟨h.pool.pages ++ [amount h.pool.pages.length s], s⟩,
         L ++ [⟨⟨h.pool.pages.length + 1, 0⟩, s⟩], C⟩ := by
  have hnew : ∀ m, m ≤ s → inPage ⟨h.pool.pages ++ [amount h.pool.pages.length s], s⟩
      ⟨h.pool.pages.length + 1, 0⟩ m := by
    intro m hm
    refine ⟨by simp, ?_⟩
    rw [pageSize_new]
    have := amount_ge_size h.pool.pages.length s
    simp only; omega
  refine ⟨?_, ?_, ?_, ?_, ?_, ?_, ?_⟩
  · simp only [endOff_append]; exact amount_ge_size _ _
  · intro l hl
    rcases List.mem_append.1 hl with hl | hl
    · exact inPage_append _ _ (hi.inpage l (hL l hl))
    · rw [List.mem_singleton] at hl; subst hl
      exact hnew s (Nat.le_refl _)
  · intro l hl
    simp only [List.getLast?_append, List.getLast?_singleton, Option.some_or, Option.some.injEq] at hl
    subst hl
    simp
  · intro l hl hp
    rcases List.mem_append.1 hl with hl | hl
    · have := (hi.inpage l (hL l hl)).1
      simp only [List.length_append, List.length_cons, List.length_nil] at hp
      omega
    · rw [List.mem_singleton] at hl; subst hl
      simp
  · rw [List.pairwise_append]
    refine ⟨hord, List.pairwise_singleton _ _, ?_⟩
    intro a ha b hb
    rw [List.mem_singleton] at hb; subst hb
    have := (hi.inpage a (hL a ha)).1
    left; simp only; omega
  · intro c hc
    rcases hC c hc with hc | ⟨h1, h2, h3⟩
    · obtain ⟨c1, c2, c3⟩ := hi.copies c hc
      exact ⟨inPage_append _ _ c1, inPage_append _ _ c2, c3⟩
    · refine ⟨inPage_append _ _ h1, ?_, ?_⟩
      · rw [h2]; exact hnew _ h3
      · rw [h2]; have := h1.1; simp only; omega
  · intro k hk
    simp only [List.length_append, List.length_cons, List.length_nil] at hk
    by_cases hlt : k < h.pool.pages.length
    · simp only [List.getElem_append_left hlt]; exact hi.sizes k hlt
    · have : k = h.pool.pages.length := by omega
      subst this
      simp only [List.getElem_append_right (Nat.le_refl _), Nat.sub_self, List.getElem_cons_zero]
      exact amount_ge_pow _ _

theorem inv_samepage (h : Hist) (hi : Inv h) (L : List Live) (o s : Nat)
    (hL : ∀ b ∈ L, b ∈ h.live ∧ (b.addr.page = h.pool.pages.length → b.addr.off + b.size ≤ o))
    (hord : L.Pairwise ordered) (hend : o + s ≤ h.pool.endOff) :
    Inv ⟨⟨h.pool.pages, o + s⟩, L ++ [⟨⟨h.pool.pages.length, o⟩, s⟩], h.copies⟩ := by
  refine ⟨?_, ?_, ?_, ?_, ?_, ?_, ?_⟩
  · exact hend
  · intro l hl
    rcases List.mem_append.1 hl with hl | hl
    · exact inPage_cur _ (hi.inpage l (hL l hl).1)
    · rw [List.mem_singleton] at hl; subst hl
      refine ⟨Nat.le_refl _, ?_⟩
      have := pageSize_last h.pool
      simp only [Pool.pageSize] at this ⊢
      simp only [Pool.endOff] at hend
      rw [this]; exact hend
  · intro l hl
    simp only [List.getLast?_append, List.getLast?_singleton, Option.some_or, Option.some.injEq] at hl
    subst hl
    simp
  · intro l hl hp
    rcases List.mem_append.1 hl with hl | hl
    · have := (hL l hl).2 hp
      simp only; omega
    · rw [List.mem_singleton] at hl; subst hl
      simp
  · rw [List.pairwise_append]
    refine ⟨hord, List.pairwise_singleton _ _, ?_⟩
    intro a ha b hb
    rw [List.mem_singleton] at hb; subst hb
    have h1 := (hi.inpage a (hL a ha).1).1
    have h2 := (hL a ha).2
    unfold ordered; simp only
    omega
  · intro c hc
    obtain ⟨c1, c2, c3⟩ := hi.copies c hc
    exact ⟨inPage_cur _ c1, inPage_cur _ c2, c3⟩
  · exact hi.sizes

theorem step_alloc (h : Hist) (n : Nat) : h.step (.alloc n) = some
    (if h.pool.cur + n > h.pool.endOff then
      ⟨⟨h.pool.pages ++ [amount h.pool.pages.length n], n⟩,
        h.live ++ [⟨⟨h.pool.pages.length + 1, 0⟩, n⟩], h.copies⟩
     else ⟨⟨h.pool.pages, h.pool.cur + n⟩,
        h.live ++ [⟨⟨h.pool.pages.length, h.pool.cur⟩, n⟩], h.copies⟩) := by
  simp only [Hist.step, allocate, more]
  split <;> rfl

theorem live_split {h : Hist} {l : Live} (hl : h.live.getLast? = some l) :
    h.live = h.live.dropLast ++ [l] := by
  obtain ⟨ys, hys⟩ := List.getLast?_eq_some_iff.1 hl
  rw [hys]; simp

theorem step_cont (h h' : Hist) (d : Int) (hi : Inv h) (hs : h.step (.cont d) = some h') :
    ∃ l, h.live.getLast? = some l ∧ 0 ≤ (l.size : Int) + d ∧
      (((h.pool.cur + d).toNat > h.pool.endOff ∧ 0 ≤ d ∧
        h' = ⟨⟨h.pool.pages ++ [amount h.pool.pages.length ((l.size : Int) + d).toNat],
                ((l.size : Int) + d).toNat⟩,
              h.live.dropLast ++ [⟨⟨h.pool.pages.length + 1, 0⟩, ((l.size : Int) + d).toNat⟩],
              h.copies ++ [⟨l.addr, ⟨h.pool.pages.length + 1, 0⟩, l.size⟩]⟩)
      ∨ ((h.pool.cur + d).toNat ≤ h.pool.endOff ∧
        h' = ⟨⟨h.pool.pages, l.addr.off + ((l.size : Int) + d).toNat⟩,
              h.live.dropLast ++ [⟨⟨h.pool.pages.length, l.addr.off⟩, ((l.size : Int) + d).toNat⟩],
              h.copies⟩)) := by
  simp only [Hist.step] at hs
  split at hs
  · contradiction
  · rename_i l hl
    split at hs
    · contradiction
    · rename_i hd
      obtain ⟨hpage, hcur⟩ := hi.last l hl
      have hle := hi.cur_le
      refine ⟨l, hl, by omega, ?_⟩
      split at hs
      · contradiction
      rename_i p' a c heq
      simp only [Option.some.injEq] at hs
      simp only [continue_] at heq
      split at heq
      · contradiction
      · split at heq
        · rename_i hgt
          left
          refine ⟨hgt, by omega, ?_⟩
          simp only [more, Option.some.injEq, Prod.mk.injEq] at heq
          obtain ⟨rfl, rfl, rfl⟩ := heq
          rw [← hs]
          have e1 : ((h.pool.cur : Int) + d).toNat - l.addr.off = ((l.size : Int) + d).toNat := by omega
          have e2 : ((((l.size : Int) + d).toNat : Int) - d).toNat = l.size := by omega
          simp only [e1, e2, Option.toList]
        · rename_i hgt
          right
          refine ⟨by omega, ?_⟩
          simp only [Option.some.injEq, Prod.mk.injEq] at heq
          obtain ⟨rfl, rfl, rfl⟩ := heq
          rw [← hs]
          have e1 : ((h.pool.cur : Int) + d).toNat = l.addr.off + ((l.size : Int) + d).toNat := by omega
          obtain ⟨⟨pg, off⟩, sz⟩ := l
          simp only at hpage; subst hpage
          simp only [e1, Option.toList, List.append_nil]

theorem inv_step (h h' : Hist) (o : Op) (hi : Inv h) (hs : h.step o = some h') : Inv h' := by
  cases o with
  | alloc n =>
    rw [step_alloc] at hs
    injection hs with hs; subst hs
    split
    · exact inv_newpage h hi h.live n h.copies (fun b hb => hb) hi.ord (fun c hc => Or.inl hc)
    · exact inv_samepage h hi h.live h.pool.cur n (fun b hb => ⟨hb, hi.below b hb⟩) hi.ord (by omega)
  | cont d =>
    obtain ⟨l, hl, hd, hcase⟩ := step_cont h h' d hi hs
    have hsplit := live_split hl
    have hmem : ∀ b ∈ h.live.dropLast, b ∈ h.live := fun b hb => List.dropLast_subset _ hb
    have hord := hi.ord
    rw [hsplit, List.pairwise_append] at hord
    obtain ⟨hord1, -, hord2⟩ := hord
    have hlmem : l ∈ h.live := by rw [hsplit]; simp
    obtain ⟨hpage, hcur⟩ := hi.last l hl
    rcases hcase with ⟨hgt, hd0, rfl⟩ | ⟨hle, rfl⟩
    · refine inv_newpage h hi _ _ _ hmem hord1 ?_
      intro c hc
      rcases List.mem_append.1 hc with hc | hc
      · exact Or.inl hc
      · rw [List.mem_singleton] at hc; subst hc
        right
        exact ⟨hi.inpage l hlmem, rfl, by simp only; omega⟩
    · refine inv_samepage h hi _ _ _ ?_ hord1 (by omega)
      intro b hb
      refine ⟨hmem b hb, ?_⟩
      intro hbp
      have := hord2 b hb l (by simp)
      unfold ordered at this
      omega

theorem inv_run (ops : List Op) : ∀ h0 h, Inv h0 → h0.run ops = some h → Inv h := by
  induction ops with
  | nil =>
    intro h0 h hi hr
    simp only [Hist.run, Option.some.injEq] at hr
    subst hr; exact hi
  | cons o os ih =>
    intro h0 h hi hr
    simp only [Hist.run] at hr
    split at hr
    · contradiction
    · rename_i h1 hs
      exact ih h1 h (inv_step h0 h1 o hi hs) hr

theorem inv_of_run {ops : List Op} {h : Hist} (hr : Hist.init.run ops = some h) : Inv h :=
  inv_run ops _ _ inv_init hr

theorem sum_ge (ps : List Nat) : ∀ j, (∀ k (hk : k < ps.length), 32 * 2 ^ (k + j) ≤ ps[k]) →
    32 * 2 ^ (j + ps.length) ≤ ps.sum + 32 * 2 ^ j := by
  induction ps with
  | nil => intro j _; simp
  | cons a t ih =>
    intro j hb
    have h0 := hb 0 (by simp)
    simp only [List.getElem_cons_zero, Nat.zero_add] at h0
    have ht := ih (j + 1) (by
      intro k hk
      have := hb (k + 1) (by simp; omega)
      simp only [List.getElem_cons_succ] at this
      have e : k + (j + 1) = k + 1 + j := by omega
      rw [e]; exact this)
    simp only [List.sum_cons, List.length_cons]
    have e1 : j + (t.length + 1) = j + 1 + t.length := by omega
    have e2 : 2 ^ (j + 1) = 2 * 2 ^ j := by rw [Nat.pow_succ]; omega
    rw [e1]; rw [e2] at ht
    omega

/-- every live allocation lies inside one malloc'ed page (a size-0 allocation may sit in the NULL region) -/
theorem run_live_in_page (ops : List Op) (h : Hist) (hr : Hist.init.run ops = some h) :
    ∀ l ∈ h.live, inPage h.pool l.addr l.size :=
  (inv_of_run hr).inpage

/-- no two live allocations share a byte -/
theorem run_live_disjoint (ops : List Op) (h : Hist) (hr : Hist.init.run ops = some h) :
    h.live.Pairwise disjoint :=
  (inv_of_run hr).ord.imp ordered_disjoint

/-- every memcpy made by Continue reads inside the old page, writes inside the new one, and the two are different pages -/
theorem run_copies_in_bounds (ops : List Op) (h : Hist) (hr : Hist.init.run ops = some h) :
    ∀ c ∈ h.copies, inPage h.pool c.src c.len ∧ inPage h.pool c.dst c.len ∧ c.src.page < c.dst.page :=
  (inv_of_run hr).copies

/-- Continue on the most recent allocation is defined whenever the allocation does not shrink below nothing:
the model's contract test never fires for callers that pass the most recent base -/
theorem cont_defined (ops : List Op) (h : Hist) (hr : Hist.init.run ops = some h) (l : Live) (d : Int)
    (hl : h.live.getLast? = some l) (hd : 0 ≤ (l.size : Int) + d) : (h.step (.cont d)).isSome = true := by
  have hi := inv_of_run hr
  obtain ⟨hpage, hcur⟩ := hi.last l hl
  simp only [Hist.step, hl]
  rw [if_neg (by omega)]
  simp only [continue_]
  rw [if_neg (by omega)]
  split
  · rename_i heq
    split at heq <;> cases heq
  · rfl

/-- a moving Continue copies exactly the old length of the allocation, from its old place -/
theorem cont_copy_is_old (ops : List Op) (h h' : Hist) (hr : Hist.init.run ops = some h) (l : Live) (d : Int)
    (hl : h.live.getLast? = some l) (hs : h.step (.cont d) = some h') :
    h'.copies = h.copies ∨ ∃ l', h'.live.getLast? = some l' ∧ h'.copies = h.copies ++ [⟨l.addr, l'.addr, l.size⟩] := by
  obtain ⟨l0, hl0, -, hcase⟩ := step_cont h h' d (inv_of_run hr) hs
  rw [hl] at hl0
  injection hl0 with hl0; subst hl0
  rcases hcase with ⟨-, -, rfl⟩ | ⟨-, rfl⟩
  · right
    exact ⟨⟨⟨h.pool.pages.length + 1, 0⟩, ((l.size : Int) + d).toNat⟩, by simp, rfl⟩
  · left; rfl

/-- earlier allocations never move and never change size, pages never change size -/
theorem step_keeps_earlier (h h' : Hist) (o : Op) (hs : h.step o = some h') :
    h.live.dropLast <+: h'.live ∧ h.pool.pages <+: h'.pool.pages ∧ (∀ n, o = .alloc n → h.live <+: h'.live) := by
  cases o with
  | alloc n =>
    rw [step_alloc] at hs
    injection hs with hs; subst hs
    split
    · exact ⟨(List.dropLast_prefix _).trans (List.prefix_append _ _), List.prefix_append _ _,
        fun _ _ => List.prefix_append _ _⟩
    · exact ⟨(List.dropLast_prefix _).trans (List.prefix_append _ _), List.prefix_refl _,
        fun _ _ => List.prefix_append _ _⟩
  | cont d =>
    refine ⟨?_, ?_, fun n hn => by cases hn⟩
    all_goals
      simp only [Hist.step] at hs
      split at hs
      · contradiction
      split at hs
      · contradiction
      split at hs
      · contradiction
      rename_i p' a c heq
      simp only [Option.some.injEq] at hs
      subst hs
    · exact List.prefix_append _ _
    · simp only [continue_] at heq
      split at heq
      · contradiction
      split at heq
      · simp only [more, Option.some.injEq, Prod.mk.injEq] at heq
        obtain ⟨rfl, -, -⟩ := heq
        exact List.prefix_append _ _
      · simp only [Option.some.injEq, Prod.mk.injEq] at heq
        obtain ⟨rfl, -, -⟩ := heq
        exact List.prefix_refl _

/-- page k is at least 32·2^k bytes -/
theorem run_page_sizes (ops : List Op) (h : Hist) (hr : Hist.init.run ops = some h) :
    ∀ k (hk : k < h.pool.pages.length), 32 * 2 ^ k ≤ h.pool.pages[k] :=
  (inv_of_run hr).sizes

/-- as long as the pages fit a 64-bit address space there are at most 59 of them, so the shift count in
`32 << free_list_.size()` is below 64 at every call of More (no undefined shift, no wrap to a tiny page) -/
theorem shift_count_small (ops : List Op) (h : Hist) (hr : Hist.init.run ops = some h)
    (hfit : h.pool.pages.sum < 2 ^ 64) : h.pool.pages.length ≤ 59 := by
  have hs := sum_ge h.pool.pages 0 (by simpa using (inv_of_run hr).sizes)
  simp only [Nat.zero_add, Nat.pow_zero, Nat.mul_one] at hs
  apply Nat.le_of_not_lt
  intro hlt
  have hp : 2 ^ 60 ≤ 2 ^ h.pool.pages.length := Nat.pow_le_pow_right (by decide) hlt
  omega

end PV.Lemmas.Pool
