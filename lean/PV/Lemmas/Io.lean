import PV.Model.Io
import PV.Model.Reader
import PV.Lemmas.Reader
/-
Helper lemmas for C03: the retry loops of PV.Model.Io generalised over their accumulators.
-/
namespace PV.Lemmas.Io
open PV.Io

theorem writeAll_ok (sched : List Int) :
    (∀ o ∈ sched, (0 : Int) ≤ o) → ∀ (fuel : Nat) (data done : List UInt8) (log : List Nat),
      data.length + sched.length + 1 ≤ fuel →
      ∃ log', writeAll fuel data sched done log = .ok (done ++ data) log' := by
  induction sched with
  | nil =>
    intro _ fuel data done log hf
    obtain ⟨f, rfl⟩ : ∃ f, fuel = f + 1 := ⟨fuel - 1, by omega⟩
    unfold writeAll
    cases data with
    | nil => simp
    | cons a t => simp
  | cons o rest ih =>
    intro hb fuel data done log hf
    obtain ⟨f, rfl⟩ : ∃ f, fuel = f + 1 := ⟨fuel - 1, by omega⟩
    have hb' : ∀ o ∈ rest, (0 : Int) ≤ o := fun x hx => hb x (List.mem_cons_of_mem _ hx)
    have ho : 0 ≤ o := hb o (List.mem_cons_self ..)
    unfold writeAll
    by_cases hd : data.isEmpty = true
    · have : data = [] := List.isEmpty_iff.mp hd
      subst this
      simp
    · simp only [hd, Bool.false_eq_true, if_false]
      by_cases h0 : (o == 0) = true
      · simp only [h0, if_true]
        simp only [List.length_cons] at hf
        exact ih hb' f data done _ (by omega)
      · simp only [h0, Bool.false_eq_true, if_false]
        have hneg : ¬ o < 0 := by omega
        simp only [hneg, if_false]
        simp only [List.length_cons] at hf
        obtain ⟨l, hl⟩ := ih hb' f (data.drop (min o.toNat data.length))
          (done ++ data.take (min o.toNat data.length)) (data.length :: log)
          (by simp only [List.length_drop]; omega)
        refine ⟨l, ?_⟩
        rw [hl, List.append_assoc, List.take_append_drop]

theorem writeAll_err_prefix (fuel : Nat) :
    ∀ (data : List UInt8) (sched : List Int) (done : List UInt8) (log : List Nat)
      (d : List UInt8) (l : List Nat),
      writeAll fuel data sched done log = .err d l → d <+: done ++ data := by
  induction fuel with
  | zero => intro data sched done log d l h; simp [writeAll] at h
  | succ f ih =>
    intro data sched done log d l h
    unfold writeAll at h
    by_cases hd : data.isEmpty = true
    · simp [hd] at h
    · simp only [hd, Bool.false_eq_true, if_false] at h
      cases sched with
      | nil => simp at h
      | cons o rest =>
        simp only at h
        by_cases h0 : (o == 0) = true
        · simp only [h0, if_true] at h
          exact ih _ _ _ _ _ _ h
        · simp only [h0, Bool.false_eq_true, if_false] at h
          by_cases hneg : o < 0
          · simp only [hneg, if_true, WRes.err.injEq] at h
            rw [← h.1]
            exact List.prefix_append _ _
          · simp only [hneg, if_false] at h
            have := ih _ _ _ _ _ _ h
            rwa [List.append_assoc, List.take_append_drop] at this

theorem partialRead_ok (sched : List Int) :
    (∀ o ∈ sched, (0 : Int) ≤ o) → ∀ (fuel amount : Nat) (src : List UInt8) (log : List Nat),
      sched.length + 1 ≤ fuel →
      ∃ k sched' log', partialRead fuel amount src sched log
          = some (some (src.take k, src.drop k, sched'), log') ∧
        (∀ o ∈ sched', (0 : Int) ≤ o) ∧ k ≤ amount ∧ (0 < amount → 0 < k) := by
  induction sched with
  | nil =>
    intro _ fuel amount src log hf
    obtain ⟨f, rfl⟩ : ∃ f, fuel = f + 1 := ⟨fuel - 1, by omega⟩
    unfold partialRead
    exact ⟨amount, [], _, rfl, by simp, Nat.le_refl _, id⟩
  | cons o rest ih =>
    intro hb fuel amount src log hf
    obtain ⟨f, rfl⟩ : ∃ f, fuel = f + 1 := ⟨fuel - 1, by omega⟩
    have hb' : ∀ o ∈ rest, (0 : Int) ≤ o := fun x hx => hb x (List.mem_cons_of_mem _ hx)
    have ho : 0 ≤ o := hb o (List.mem_cons_self ..)
    simp only [List.length_cons] at hf
    unfold partialRead
    by_cases h0 : (o == 0) = true
    · simp only [h0, if_true]
      exact ih hb' f amount src _ (by omega)
    · simp only [h0, Bool.false_eq_true, if_false]
      have hneg : ¬ o < 0 := by omega
      simp only [hneg, if_false]
      have hne : o ≠ 0 := by simpa using h0
      exact ⟨min o.toNat amount, rest, _, rfl, hb', Nat.min_le_right _ _, by omega⟩

theorem readLoop_spec (t : Bool) (fuel : Nat) :
    ∀ (remaining : Nat) (src : List UInt8) (sched : List Int) (got : List UInt8) (log : List Nat),
      (∀ o ∈ sched, (0 : Int) ≤ o) → remaining + 1 ≤ fuel →
      ((t = false ∨ remaining ≤ src.length) →
        ∃ log', readLoop t fuel remaining src sched got log = .ok (got ++ src.take remaining) log') ∧
      (t = true → src.length < remaining →
        ∃ log', readLoop t fuel remaining src sched got log = .eof log') := by
  induction fuel with
  | zero => intro remaining src sched got log _ hf; omega
  | succ f ih =>
    intro remaining src sched got log hb hf
    unfold readLoop
    by_cases hr : (remaining == 0) = true
    · have : remaining = 0 := by simpa using hr
      subst this
      simp
    · simp only [hr, Bool.false_eq_true, if_false]
      have hrpos : 0 < remaining := by
        have : remaining ≠ 0 := by simpa using hr
        omega
      obtain ⟨k, sched', log', hpr, hb', hk, hkpos⟩ :=
        partialRead_ok sched hb (sched.length + 1) remaining src log (Nat.le_refl _)
      have hk1 := hkpos hrpos
      rw [hpr]
      simp only
      by_cases he : (src.take k).isEmpty = true
      · have hsrc : src = [] := by
          have := List.isEmpty_iff.mp he
          cases src with
          | nil => rfl
          | cons a t =>
            obtain ⟨k', rfl⟩ : ∃ k', k = k' + 1 := ⟨k - 1, by omega⟩
            simp at this
        subst hsrc
        simp only [he, if_true]
        cases t <;> simp <;> omega
      · simp only [he, Bool.false_eq_true, if_false]
        have hlen : (src.take k).length = min k src.length := List.length_take
        have hpos : 0 < (src.take k).length := by
          cases h : src.take k with
          | nil => simp [h] at he
          | cons a t => simp
        obtain ⟨ih1, ih2⟩ := ih (remaining - (src.take k).length) (src.drop k) sched'
          (got ++ src.take k) log' hb' (by omega)
        have key : src.take k ++ (src.drop k).take (remaining - (src.take k).length)
            = src.take remaining := by
          rw [hlen]
          by_cases hks : k ≤ src.length
          · rw [Nat.min_eq_left hks]
            have : remaining = k + (remaining - k) := by omega
            conv => rhs; rw [this, List.take_add]
          · have h1 : src.take k = src := List.take_of_length_le (by omega)
            have h2 : src.drop k = [] := List.drop_of_length_le (by omega)
            have h3 : src.take remaining = src := List.take_of_length_le (by omega)
            rw [h1, h2, h3]; simp
        constructor
        · intro hc
          obtain ⟨l, hl⟩ := ih1 (by
            rcases hc with hc | hc
            · exact Or.inl hc
            · right; simp only [List.length_drop]; omega)
          refine ⟨l, ?_⟩
          rw [hl, List.append_assoc, key]
        · intro ht hlt
          exact ih2 ht (by simp only [List.length_drop]; omega)

end PV.Lemmas.Io
