import PV.Model.Cache
import PV.Spec.FirstOcc
namespace PV.Lemmas.Cache
open PV.Cache PV.Spec.FirstOcc

/-- copy of `PV.Props.C04.firstWithKey` (bridged by `rfl` there). -/
def fwk (key : Line → Nat) (lines : List Line) (l : Line) : Line :=
  (lines.find? (fun x => key x == key l)).getD l

theorem input_fst (key : Line → Nat) (ls : List Line) :
    ∀ seen, (input key seen ls).1 = firstOccGo key seen ls := by
  induction ls with
  | nil => intro seen; simp [input, firstOccGo]
  | cons l ls ih =>
    intro seen
    simp only [input, firstOccGo]
    by_cases h : key l ∈ seen
    · simp [h, ih]
    · simp [h, ih]

/-- value printed for a line, given the already filled entries. -/
def valOf (key : Line → Nat) (child : Line → Line) (filled : List (Nat × Line))
    (rest : List Line) (l : Line) : Line :=
  match filled.find? (·.1 == key l) with
  | some p => p.2
  | none => child (fwk key rest l)

theorem output_gen (key : Line → Nat) (child : Line → Line) (rest : List Line) :
    ∀ (seen : List Nat) (filled : List (Nat × Line)),
      (∀ k, k ∈ seen ↔ (filled.find? (·.1 == k)).isSome = true) →
      output filled ((input key seen rest).1.map child) (input key seen rest).2 =
        some (rest.map (valOf key child filled rest)) := by
  induction rest with
  | nil => intro seen filled _; simp [input, output]
  | cons l ls ih =>
    intro seen filled hinv
    by_cases h : key l ∈ seen
    · -- key already present
      have hs := (hinv (key l)).1 h
      obtain ⟨p, hp⟩ := Option.isSome_iff_exists.1 hs
      have hin : input key seen (l :: ls) =
          ((input key seen ls).1, (key l, false) :: (input key seen ls).2) := by
        simp [input, h]
      rw [hin]
      simp only [output, hp]
      rw [ih seen filled hinv]
      simp only [Option.map_some, List.map_cons, Option.some.injEq, List.cons.injEq]
      refine ⟨by simp [valOf, hp], ?_⟩
      apply List.map_congr_left
      intro l' _
      unfold valOf
      cases hl' : filled.find? (·.1 == key l') with
      | some p' => rfl
      | none =>
        have hne : key l ≠ key l' := by
          intro e
          rw [e] at hp
          rw [hp] at hl'
          cases hl'
        simp [fwk, hne]
    · -- new key
      have hs : filled.find? (·.1 == key l) = none := by
        cases hf : filled.find? (·.1 == key l) with
        | none => rfl
        | some p => exact absurd ((hinv (key l)).2 (by simp [hf])) h
      have hin : input key seen (l :: ls) =
          (l :: (input key (key l :: seen) ls).1,
            (key l, true) :: (input key (key l :: seen) ls).2) := by
        simp [input, h]
      rw [hin]
      simp only [List.map_cons, output, hs]
      have hinv' : ∀ k, k ∈ key l :: seen ↔
          (((key l, child l) :: filled).find? (·.1 == k)).isSome = true := by
        intro k
        by_cases e : key l = k
        · simp [e]
        · have e' : ¬ k = key l := fun h => e h.symm
          simp [e, e', hinv k]
      rw [ih (key l :: seen) ((key l, child l) :: filled) hinv']
      simp only [Option.map_some, Option.some.injEq, List.cons.injEq]
      refine ⟨by simp [valOf, hs, fwk], ?_⟩
      apply List.map_congr_left
      intro l' _
      unfold valOf
      by_cases e : key l = key l'
      · rw [← e, hs]
        simp [fwk, e]
      · simp [fwk, e]

theorem run_spec (key : Line → Nat) (child : Line → Line) (lines : List Line) :
    run key child lines = some (lines.map (fun l => child (fwk key lines l))) := by
  have h := output_gen key child lines [] [] (by simp)
  have hv : valOf key child [] lines = fun l => child (fwk key lines l) := by
    funext l; simp [valOf]
  rw [hv] at h
  exact h

theorem fwk_self_of_inj (key : Line → Nat) (lines : List Line)
    (hinj : ∀ a ∈ lines, ∀ b ∈ lines, key a = key b → a = b) (l : Line) (hl : l ∈ lines) :
    fwk key lines l = l := by
  unfold fwk
  cases hf : lines.find? (fun x => key x == key l) with
  | none =>
    rfl
  | some x =>
    have hx := List.mem_of_find?_eq_some hf
    have hk := List.find?_some hf
    simp only [beq_iff_eq] at hk
    simpa using hinj x hx l hl hk

end PV.Lemmas.Cache
