import PV.Lemmas.Wrapper.Inv1
namespace PV.Lemmas.Wrapper
open PV.Wrapper

def collW : CollState → Nat
  | .reading .. => 3
  | .peeking => 2
  | .idle => 1
  | _ => 0

/-- termination measure: remaining moves of every chunk / record / flag. -/
def mu (p : Params) (s : State) : Nat :=
  7 * (S p (nrec p) - (S p s.fRec + s.fSent)) + 4 * s.buf.length + 3 * s.pipe1.length +
  2 * (s.cRead.length - s.cEmitted) + s.pipe2.length +
  (if s.fSpilling = true then 1 else if s.buf = [] then 0 else 2) +
  8 * (nrec p - s.fRec) + (if s.fEnq = true then 0 else 4) + (if s.fPoison = true then 0 else 4) +
  (if s.fClosed = true then 0 else 1) + (if s.cEof = true then 0 else 1) + 3 * s.queue.length + collW s.coll

theorem mu_decreases {p : Params} {s s' : State} {l : Label} (hs : step p s l = some s') : mu p s' < mu p s := by
  cases l
  case fEnqueue =>
    simp only [step, Option.ite_none_right_eq_some, Option.some.injEq] at hs
    obtain ⟨⟨g1, g2, g3, g4⟩, rfl⟩ := hs
    simp at g2
    simp [mu, g2]; omega
  case fAppend =>
    simp only [step, Option.ite_none_right_eq_some, Option.some.injEq] at hs
    obtain ⟨⟨g1, g2, g3, g4, g5⟩, rfl⟩ := hs
    simp at g3
    have := S_lt p g1
    simp only [mu, g3]
    simp
    split <;> omega
  case fSpillStart =>
    simp only [step, Option.ite_none_right_eq_some, Option.some.injEq] at hs
    obtain ⟨⟨g1, g2, g3⟩, rfl⟩ := hs
    simp at g1
    simp [mu, g1, g2]
  case fSpill =>
    obtain ⟨c, rest, g1, g2, g3, rfl⟩ := step_fSpill hs
    simp [mu, g1, g2]; omega
  case fSpillEnd =>
    simp only [step, Option.ite_none_right_eq_some, Option.some.injEq] at hs
    obtain ⟨⟨g1, g2⟩, rfl⟩ := hs
    simp [mu, g1, g2]
  case fNext =>
    simp only [step, Option.ite_none_right_eq_some, Option.some.injEq] at hs
    obtain ⟨⟨g1, g2, g3, g4⟩, rfl⟩ := hs
    simp [mu, g3, S_succ, g2]; omega
  case fPoison =>
    simp only [step, Option.ite_none_right_eq_some, Option.some.injEq] at hs
    obtain ⟨⟨g1, g2, g3, g4⟩, rfl⟩ := hs
    simp at g2
    simp [mu, g2]; omega
  case fClose =>
    simp only [step, Option.ite_none_right_eq_some, Option.some.injEq] at hs
    obtain ⟨⟨g1, g2, g3, g4, g5⟩, rfl⟩ := hs
    simp at g2
    simp [mu, g2]
  case cRead =>
    obtain ⟨c, rest, g1, g2, rfl⟩ := step_cRead hs
    simp [mu, g1]; omega
  case cEof =>
    simp only [step, Option.ite_none_right_eq_some, Option.some.injEq] at hs
    obtain ⟨⟨g1, g2, g3⟩, rfl⟩ := hs
    simp at g3
    simp [mu, g3]
  case cWrite =>
    obtain ⟨c, g1, g2, g3, rfl⟩ := step_cWrite hs
    have : s.cEmitted < s.cRead.length := by
      rcases List.getElem?_eq_some_iff.1 g1 with ⟨h, -⟩; exact h
    simp [mu]; omega
  case kConsume =>
    obtain ⟨g1, ⟨r, n, rest, g2, rfl⟩ | ⟨rest, g2, rfl⟩⟩ := step_kConsume hs
    · simp [mu, g1, g2, collW]; omega
    · simp [mu, g1, g2, collW]; omega
  case kRead =>
    obtain ⟨r, n, k, c, rest, g1, g2, g3, rfl⟩ := step_kRead hs
    simp [mu, g1, g2, collW]
  case kOut =>
    obtain ⟨r, n, g1, rfl⟩ := step_kOut hs
    have hw : collW (if p.peek = true ∧ s.queue = [] then CollState.peeking else CollState.idle) ≤ 2 := by
      split <;> decide
    simp only [mu, g1]
    generalize collW (if p.peek = true ∧ s.queue = [] then CollState.peeking else CollState.idle) = w at hw
    simp only [collW]; omega
  case kPeekData =>
    simp only [step, Option.ite_none_right_eq_some, Option.some.injEq] at hs
    obtain ⟨⟨g1, g2⟩, rfl⟩ := hs
    have hw : collW (if s.queue = [] then CollState.failed else CollState.idle) ≤ 1 := by
      split <;> decide
    simp only [mu, g1]
    generalize collW (if s.queue = [] then CollState.failed else CollState.idle) = w at hw
    simp only [collW]; omega
  case kPeekEof =>
    simp only [step, Option.ite_none_right_eq_some, Option.some.injEq] at hs
    obtain ⟨⟨g1, g2, g3, g4⟩, rfl⟩ := hs
    simp [mu, g1, collW]
end PV.Lemmas.Wrapper
