import PV.Model.Wrapper
/-
C05 helper: states reached by an accepted label trace are reachable.
-/
namespace PV.Lemmas.Wrapper
open PV.Wrapper

theorem reachable_of_runTrace {p : Params} {s s' : State} (hr : Reachable p s) (tr : List Label)
    (h : runTrace p s tr = some s') : Reachable p s' := by
  induction tr generalizing s with
  | nil => simp only [runTrace, Option.some.injEq] at h; subst h; exact hr
  | cons l ls ih =>
    simp only [runTrace] at h
    split at h
    · rename_i t ht; exact ih (Reachable.step hr ht) h
    · cases h

end PV.Lemmas.Wrapper
