import PV.Lemmas.Wrapper.Defs
namespace PV.Lemmas.Wrapper
open PV.Wrapper

@[simp] theorem S_zero (p : Params) : S p 0 = 0 := rfl
theorem S_succ (p : Params) (r : Nat) : S p (r + 1) = S p r + sizeOf p r := rfl

theorem S_mono (p : Params) {a b : Nat} (h : a ≤ b) : S p a ≤ S p b := by
  induction b with
  | zero => have : a = 0 := by omega
            subst this; exact Nat.le_refl _
  | succ b ih =>
    by_cases hab : a = b + 1
    · subst hab; exact Nat.le_refl _
    · have := ih (by omega); rw [S_succ]; omega

theorem S_lt (p : Params) {r n : Nat} (h : r < n) : S p r + sizeOf p r ≤ S p n := by
  have := S_mono p (show r + 1 ≤ n from h); rwa [S_succ] at this

theorem sizeOf_ge (p : Params) {r : Nat} (h : nrec p ≤ r) : sizeOf p r = 0 := by
  unfold Wrapper.sizeOf nrec at *; simp [List.getD_eq_getElem?_getD, List.getElem?_eq_none h]

@[simp] theorem part_zero (r : Nat) : part r 0 = [] := rfl
theorem part_succ (r k : Nat) : part r (k + 1) = part r k ++ [(r, k)] := by
  simp [part, List.range_succ]
@[simp] theorem part_length (r k : Nat) : (part r k).length = k := by simp [part]

@[simp] theorem chunksUpTo_zero (p : Params) : chunksUpTo p 0 = [] := rfl
theorem chunksUpTo_succ (p : Params) (r : Nat) :
    chunksUpTo p (r + 1) = chunksUpTo p r ++ part r (sizeOf p r) := by
  simp [chunksUpTo, part, List.range_succ, List.flatMap_append]

@[simp] theorem chunksUpTo_length (p : Params) (r : Nat) : (chunksUpTo p r).length = S p r := by
  induction r with
  | zero => rfl
  | succ r ih => rw [chunksUpTo_succ, List.length_append, ih, part_length, S_succ]

theorem part_prefix (r : Nat) {k k' : Nat} (h : k ≤ k') : part r k <+: part r k' := by
  induction k' with
  | zero => have : k = 0 := by omega
            subst this; exact List.prefix_refl _
  | succ k' ih =>
    by_cases hk : k = k' + 1
    · subst hk; exact List.prefix_refl _
    · rw [part_succ]; exact (ih (by omega)).trans (List.prefix_append _ _)

theorem chunksUpTo_prefix (p : Params) {a b : Nat} (h : a ≤ b) : chunksUpTo p a <+: chunksUpTo p b := by
  induction b with
  | zero => have : a = 0 := by omega
            subst this; exact List.prefix_refl _
  | succ b ih =>
    by_cases hk : a = b + 1
    · subst hk; exact List.prefix_refl _
    · rw [chunksUpTo_succ]; exact (ih (by omega)).trans (List.prefix_append _ _)

theorem appended_prefix (p : Params) {r k : Nat} (hr : r ≤ nrec p) (hk : k ≤ sizeOf p r) :
    chunksUpTo p r ++ part r k <+: allChunks p := by
  unfold allChunks
  by_cases h : r < nrec p
  · refine List.IsPrefix.trans ?_ (chunksUpTo_prefix p (show r + 1 ≤ nrec p from h))
    rw [chunksUpTo_succ]
    exact (List.prefix_append_right_inj _).2 (part_prefix r hk)
  · have : r = nrec p := by omega
    subst this
    have : k = 0 := by have := sizeOf_ge p (Nat.le_refl (nrec p)); omega
    subst this; simp

theorem qfull_length (p : Params) (e : Nat) (b : Bool) :
    (qfull p e b).length = e + (if b then 1 else 0) := by
  cases b <;> simp [qfull]

theorem qfull_getElem? (p : Params) (e : Nat) (b : Bool) (i : Nat) :
    (qfull p e b)[i]? = if i < e then some (entry p i) else if i = e ∧ b = true then some none else none := by
  unfold qfull
  by_cases h : i < e
  · simp [List.getElem?_append, h]
  · cases b
    · simp [h]
    · simp [List.getElem?_append, h]
      by_cases h2 : i = e
      · simp [h2]
      · simp [h2]; omega

theorem qfull_succ (p : Params) (e : Nat) : qfull p (e + 1) false = qfull p e false ++ [entry p e] := by
  simp [qfull, List.range_succ]
theorem qfull_true (p : Params) (e : Nat) : qfull p e true = qfull p e false ++ [none] := by
  simp [qfull]

theorem range_prefix {a b : Nat} (h : a ≤ b) : List.range a <+: List.range b := by
  obtain ⟨c, rfl⟩ := Nat.exists_eq_add_of_le h
  rw [List.range_add]; exact List.prefix_append _ _

end PV.Lemmas.Wrapper
