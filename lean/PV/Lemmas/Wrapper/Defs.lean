import PV.Model.Wrapper
import PV.Model.WrapperTrace
/-
C05 helper definitions: chunk lists, the master invariant `Inv` of the wrapper LTS.
-/
namespace PV.Lemmas.Wrapper
open PV.Wrapper

/-- number of chunks of the records `< r`. -/
def S (p : Params) : Nat → Nat
  | 0 => 0
  | r + 1 => S p r + sizeOf p r

/-- the first `k` chunks of record `r`. -/
def part (r k : Nat) : List Chunk := (List.range k).map (fun j => (r, j))

/-- all chunks of the records `< r`, in order. -/
def chunksUpTo (p : Params) (r : Nat) : List Chunk :=
  (List.range r).flatMap (fun i => (List.range (sizeOf p i)).map (fun k => (i, k)))

/-- identical copy of `PV.Props.C05.allChunks`. -/
def allChunks (p : Params) : List Chunk := chunksUpTo p (nrec p)

/-- number of record entries produced so far. -/
def eIdx (s : State) : Nat := s.fRec + (if s.fEnq then 1 else 0)

def entry (p : Params) (i : Nat) : Option (Nat × Nat) := some (i, sizeOf p i)

/-- everything ever put on the queue: `e` record entries, then the end marker iff `b`. -/
def qfull (p : Params) (e : Nat) (b : Bool) : List (Option (Nat × Nat)) :=
  (List.range e).map (entry p) ++ (if b then [none] else [])

/-- entries consumed by the collector beyond the emitted records. -/
def cpos : CollState → Nat
  | .reading .. => 1
  | .finished => 1
  | _ => 0

/-- collector-local invariant (`ol` = records emitted, `gl` = answers consumed, `e` = entries produced,
    `fp` = end marker produced). -/
def collOk (p : Params) (ol gl e : Nat) (fp : Bool) : CollState → Prop
  | .reading r sz k => r = ol ∧ sz = sizeOf p r ∧ k ≤ sz ∧ gl = S p r + k ∧ ol + 1 ≤ e
  | .finished => gl = S p ol ∧ fp = true ∧ ol = e
  | .peeking => gl = S p ol ∧ ol ≤ e ∧ ol ≠ 0 ∧
      (p.enqueueFirst = true → p.poisonFirst = true → gl = 0 ∨ gl < S p (nrec p))
  | _ => gl = S p ol ∧ ol ≤ e

/-- the master invariant (valid for every `p.Ok`; mode-specific conjuncts are guarded). -/
structure Inv (p : Params) (s : State) : Prop where
  fRec_le : s.fRec ≤ nrec p
  fSent_le : s.fSent ≤ sizeOf p s.fRec
  enq_lt : s.fEnq = true → s.fRec < nrec p
  ef_sent : p.enqueueFirst = true → s.fEnq = false → s.fSent = 0
  nef_sent : p.enqueueFirst = false → s.fEnq = true → s.fSent = sizeOf p s.fRec
  poison_rec : s.fPoison = true → s.fRec = nrec p
  closed : s.fClosed = true → s.fRec = nrec p ∧ s.buf = [] ∧ s.fSpilling = false
  pf_closed : p.poisonFirst = true → s.fClosed = true → s.fPoison = true
  npf_poison : p.poisonFirst = false → s.fPoison = true → s.fClosed = true
  eof : s.cEof = true → s.fClosed = true ∧ s.pipe1 = []
  buf_le : s.buf.length ≤ p.bufCap
  spilling : s.fSpilling = true →
    (s.fRec < nrec p ∧ s.fSent < sizeOf p s.fRec ∧ (p.enqueueFirst = true → s.fEnq = true)) ∨
    (s.fRec = nrec p ∧ (p.poisonFirst = true → s.fPoison = true))
  conserve : s.cRead ++ s.pipe1 ++ s.buf = chunksUpTo p s.fRec ++ part s.fRec s.fSent
  emit : s.got ++ s.pipe2 = s.cRead.take s.cEmitted
  emit_le : s.cEmitted ≤ s.cRead.length
  out_range : s.out = List.range s.out.length
  queue : s.queue = (qfull p (eIdx s) s.fPoison).drop (s.out.length + cpos s.coll)
  qlen : s.out.length + cpos s.coll ≤ eIdx s + (if s.fPoison then 1 else 0)
  coll : collOk p s.out.length s.got.length (eIdx s) s.fPoison s.coll
  last_in_buf : p.enqueueFirst = true → p.poisonFirst = true → s.fPoison = false → s.buf = [] →
    S p s.fRec + s.fSent = 0 ∨ (s.fRec < nrec p ∧ s.fSent < sizeOf p s.fRec ∧ s.fEnq = true)

end PV.Lemmas.Wrapper
