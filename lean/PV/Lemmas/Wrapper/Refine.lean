import PV.Lemmas.Wrapper.Inv2
namespace PV.Lemmas.Wrapper
open PV.Wrapper

/-- abstract feeder position (record, entry announced, counter) of a concrete state. -/
def feederOf (p : Params) (s : State) : Nat × Bool × Nat :=
  if p.enqueueFirst then
    if s.fEnq then
      if s.fSent < Wrapper.sizeOf p s.fRec then (s.fRec, true, Wrapper.sizeOf p s.fRec - s.fSent)
      else (s.fRec + 1, false, 0)
    else (s.fRec, false, 0)
  else if s.fEnq then (s.fRec + 1, false, 0) else (s.fRec, false, s.fSent)

def curOf : CollState → Option (Nat × Nat)
  | .reading _ n k => some (n, k)
  | _ => none

def finOf : CollState → Bool
  | .finished => true
  | _ => false

/-- the abstract state of a concrete state. -/
def absOf (p : Params) (s : State) : AState :=
  { fRec := (feederOf p s).1, fEnq := (feederOf p s).2.1, fSent := (feederOf p s).2.2,
    fPoison := s.fPoison, fClosed := s.fClosed, written := S p s.fRec + s.fSent,
    queue := s.queue.map (Option.map Prod.snd), cur := curOf s.coll, reads := s.got.length,
    outs := s.out.length, finished := finOf s.coll }

theorem absOf_init (p : Params) : absOf p init = ainit := by
  cases h : p.enqueueFirst <;> simp [absOf, feederOf, init, ainit, h, curOf, finOf]

def RefStep (p : Params) (s : State) (l : Label) (s' : State) : Prop :=
  match project p s l with
  | some e => astep p.enqueueFirst p.poisonFirst (absOf p s) e = some (absOf p s')
  | none => absOf p s' = absOf p s

theorem ref_fAppend {p : Params} {s s' : State} (h : Inv p s) (hs : step p s .fAppend = some s') :
    RefStep p s .fAppend s' := by
  simp only [step, Option.ite_none_right_eq_some, Option.some.injEq] at hs
  obtain ⟨⟨g1, g2, g3, g4, g5⟩, rfl⟩ := hs
  have hp : s.fPoison = false := by
    cases hx : s.fPoison
    · rfl
    · have := h.poison_rec hx; omega
  have hc : s.fClosed = false := by
    cases hx : s.fClosed
    · rfl
    · have := (h.closed hx).1; omega
  simp only [RefStep, project]
  cases hef : p.enqueueFirst
  · have he : s.fEnq = false := by
      cases hx : s.fEnq
      · rfl
      · have := h.nef_sent hef hx; omega
    simp [astep, absOf, feederOf, hef, he, hp, hc]; omega
  · have he := g4 hef
    simp [astep, absOf, feederOf, hef, he, hp, hc, g2]
    refine ⟨by omega, ?_⟩
    by_cases hlt : s.fSent + 1 < Wrapper.sizeOf p s.fRec
    · have : ¬ (Wrapper.sizeOf p s.fRec - s.fSent - 1 = 0) := by omega
      simp [hlt, this]; omega
    · have : Wrapper.sizeOf p s.fRec - s.fSent - 1 = 0 := by omega
      simp [hlt, this]; omega

theorem Inv.not_poison {p : Params} {s : State} (h : Inv p s) (g : s.fRec < nrec p) : s.fPoison = false := by
  cases hx : s.fPoison
  · rfl
  · have := h.poison_rec hx; omega

theorem Inv.not_enq {p : Params} {s : State} (h : Inv p s) (g : s.fRec = nrec p) : s.fEnq = false := by
  cases hx : s.fEnq
  · rfl
  · have := h.enq_lt hx; omega

theorem ref_fEnqueue {p : Params} {s s' : State} (h : Inv p s) (hs : step p s .fEnqueue = some s') :
    RefStep p s .fEnqueue s' := by
  simp only [step, Option.ite_none_right_eq_some, Option.some.injEq] at hs
  obtain ⟨⟨g1, g2, g3, g4⟩, rfl⟩ := hs
  have hp := h.not_poison g1
  simp at g2
  simp only [RefStep, project]
  cases hef : p.enqueueFirst
  · simp [hef] at g4
    simp [astep, absOf, feederOf, hef, g2, hp, g4]
  · simp [hef] at g4
    simp [astep, absOf, feederOf, hef, g2, hp, g4]
    by_cases hz : Wrapper.sizeOf p s.fRec = 0
    · simp [hz]
    · have : 0 < Wrapper.sizeOf p s.fRec := by omega
      simp [hz, this]

theorem ref_fNext {p : Params} {s s' : State} (hs : step p s .fNext = some s') :
    RefStep p s .fNext s' := by
  simp only [step, Option.ite_none_right_eq_some, Option.some.injEq] at hs
  obtain ⟨⟨g1, g2, g3, g4⟩, rfl⟩ := hs
  simp only [RefStep, project]
  cases hef : p.enqueueFirst <;> simp [absOf, feederOf, hef, g3, g2, S_succ]

theorem ref_fPoison {p : Params} {s s' : State} (h : Inv p s) (hs : step p s .fPoison = some s') :
    RefStep p s .fPoison s' := by
  simp only [step, Option.ite_none_right_eq_some, Option.some.injEq] at hs
  obtain ⟨⟨g1, g2, g3, g4⟩, rfl⟩ := hs
  have he := h.not_enq g1
  simp at g2
  simp only [RefStep, project]
  cases hef : p.enqueueFirst <;> cases hpf : p.poisonFirst <;>
    simp [hpf] at g4 <;> simp [astep, absOf, feederOf, hef, g2, he, g4]

theorem ref_fClose {p : Params} {s s' : State} (hs : step p s .fClose = some s') :
    RefStep p s .fClose s' := by
  simp only [step, Option.ite_none_right_eq_some, Option.some.injEq] at hs
  obtain ⟨⟨g1, g2, g3, g4, g5⟩, rfl⟩ := hs
  simp at g2
  simp only [RefStep, project]
  simp [astep, absOf, feederOf, g2]
  exact g5

theorem ref_kConsume {p : Params} {s s' : State} (hs : step p s .kConsume = some s') :
    RefStep p s .kConsume s' := by
  obtain ⟨g1, ⟨r, n, rest, g2, rfl⟩ | ⟨rest, g2, rfl⟩⟩ := step_kConsume hs
  · simp [RefStep, project, g2, astep, absOf, feederOf, g1, curOf, finOf]
  · simp [RefStep, project, g2, astep, absOf, feederOf, g1, curOf, finOf]

theorem ref_kRead {p : Params} {s s' : State} (h : Inv p s) (hs : step p s .kRead = some s') :
    RefStep p s .kRead s' := by
  obtain ⟨r, n, k, c, rest, g1, g2, g3, rfl⟩ := step_kRead hs
  obtain ⟨l1, l2⟩ := h.lens
  have := h.emit_le
  rw [g2] at l1; simp at l1
  simp [RefStep, project, astep, absOf, feederOf, g1, curOf, finOf, g3]
  omega

theorem ref_kOut {p : Params} {s s' : State} (hs : step p s .kOut = some s') :
    RefStep p s .kOut s' := by
  obtain ⟨r, n, g1, rfl⟩ := step_kOut hs
  have h1 : curOf (if p.peek = true ∧ s.queue = [] then CollState.peeking else CollState.idle) = none := by
    split <;> rfl
  have h2 : finOf (if p.peek = true ∧ s.queue = [] then CollState.peeking else CollState.idle) = false := by
    split <;> rfl
  simp only [RefStep, project, astep, absOf, h1, h2, g1]
  simp [curOf, finOf, feederOf]

theorem ref_step {p : Params} {s s' : State} {l : Label} (h : Inv p s) (hs : step p s l = some s') :
    RefStep p s l s' := by
  cases l
  case fEnqueue => exact ref_fEnqueue h hs
  case fAppend => exact ref_fAppend h hs
  case fNext => exact ref_fNext hs
  case fPoison => exact ref_fPoison h hs
  case fClose => exact ref_fClose hs
  case kConsume => exact ref_kConsume hs
  case kRead => exact ref_kRead h hs
  case kOut => exact ref_kOut hs
  case fSpillStart =>
    simp only [step, Option.ite_none_right_eq_some, Option.some.injEq] at hs
    obtain ⟨-, rfl⟩ := hs; rfl
  case fSpill => obtain ⟨c, rest, -, -, -, rfl⟩ := step_fSpill hs; rfl
  case fSpillEnd =>
    simp only [step, Option.ite_none_right_eq_some, Option.some.injEq] at hs
    obtain ⟨-, rfl⟩ := hs; rfl
  case cRead => obtain ⟨c, rest, -, -, rfl⟩ := step_cRead hs; rfl
  case cEof =>
    simp only [step, Option.ite_none_right_eq_some, Option.some.injEq] at hs
    obtain ⟨-, rfl⟩ := hs; rfl
  case cWrite => obtain ⟨c, -, -, -, rfl⟩ := step_cWrite hs; rfl
  case kPeekData =>
    simp only [step, Option.ite_none_right_eq_some, Option.some.injEq] at hs
    obtain ⟨⟨g1, g2⟩, rfl⟩ := hs
    have h1 : curOf (if s.queue = [] then CollState.failed else CollState.idle) = none := by
      split <;> rfl
    have h2 : finOf (if s.queue = [] then CollState.failed else CollState.idle) = false := by
      split <;> rfl
    simp only [RefStep, project, absOf, h1, h2, g1]
    simp [feederOf, curOf, finOf]
  case kPeekEof =>
    simp only [step, Option.ite_none_right_eq_some, Option.some.injEq] at hs
    obtain ⟨⟨g1, g2, g3, g4⟩, rfl⟩ := hs
    simp only [RefStep, project, absOf, feederOf, g1, curOf, finOf]
end PV.Lemmas.Wrapper
