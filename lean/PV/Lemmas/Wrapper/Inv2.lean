import PV.Lemmas.Wrapper.Inv1
namespace PV.Lemmas.Wrapper
open PV.Wrapper

theorem inv_fSpill {p : Params} {s s' : State} (h : Inv p s) (hs : step p s .fSpill = some s') : Inv p s' := by
  obtain ⟨c, rest, g1, g2, g3, rfl⟩ := step_fSpill hs
  constructor <;> (try dsimp only) <;> try inv_field h
  all_goals try inv_auto h
  · have := h.conserve; rw [g1] at this; simpa using this

theorem inv_cRead {p : Params} {s s' : State} (h : Inv p s) (hs : step p s .cRead = some s') : Inv p s' := by
  obtain ⟨c, rest, g1, g2, rfl⟩ := step_cRead hs
  constructor <;> (try dsimp only) <;> try inv_field h
  all_goals try inv_auto h
  · have := h.conserve; rw [g1] at this; simpa using this
  · rw [List.take_append_of_le_length h.emit_le]; exact h.emit

theorem inv_cEof {p : Params} {s s' : State} (h : Inv p s) (hs : step p s .cEof = some s') : Inv p s' := by
  simp only [step, Option.ite_none_right_eq_some, Option.some.injEq] at hs
  obtain ⟨⟨g1, g2, g3⟩, rfl⟩ := hs
  constructor <;> (try dsimp only) <;> try inv_field h
  all_goals try inv_auto h

theorem inv_cWrite {p : Params} {s s' : State} (h : Inv p s) (hs : step p s .cWrite = some s') : Inv p s' := by
  obtain ⟨c, g1, g2, g3, rfl⟩ := step_cWrite hs
  constructor <;> (try dsimp only) <;> try inv_field h
  all_goals try inv_auto h
  · rw [List.take_add_one, g1, ← List.append_assoc, h.emit]; rfl

theorem drop_eq_cons {α : Type} {l : List α} {c : Nat} {x : α} {rest : List α} (h : x :: rest = l.drop c) :
    l[c]? = some x ∧ rest = l.drop (c + 1) := by
  constructor
  · have : (l.drop c)[0]? = some x := by rw [← h]; rfl
    simpa using this
  · have : (l.drop c).drop 1 = rest := by rw [← h]; rfl
    rw [← this, List.drop_drop]

theorem queue_head_some {p : Params} {e : Nat} {b : Bool} {c r n : Nat} {rest : List (Option (Nat × Nat))}
    (h : some (r, n) :: rest = (qfull p e b).drop c) :
    c < e ∧ r = c ∧ n = Wrapper.sizeOf p c ∧ rest = (qfull p e b).drop (c + 1) := by
  obtain ⟨h1, h2⟩ := drop_eq_cons h
  rw [qfull_getElem?] at h1
  refine ⟨?_, ?_, ?_, h2⟩ <;> (simp only [entry] at h1; grind)

theorem queue_head_none {p : Params} {e : Nat} {b : Bool} {c : Nat} {rest : List (Option (Nat × Nat))}
    (h : none :: rest = (qfull p e b).drop c) :
    c = e ∧ b = true ∧ rest = (qfull p e b).drop (c + 1) := by
  obtain ⟨h1, h2⟩ := drop_eq_cons h
  rw [qfull_getElem?] at h1
  refine ⟨?_, ?_, h2⟩ <;> (simp only [entry] at h1; grind)

theorem Inv.lens {p : Params} {s : State} (h : Inv p s) :
    s.got.length + s.pipe2.length = s.cEmitted ∧
    s.cRead.length + s.pipe1.length + s.buf.length = S p s.fRec + s.fSent := by
  constructor
  · have := congrArg List.length h.emit
    have := h.emit_le
    simp at *; omega
  · have := congrArg List.length h.conserve
    simp at this; omega

theorem inv_kConsume {p : Params} {s s' : State} (h : Inv p s) (hs : step p s .kConsume = some s') : Inv p s' := by
  obtain ⟨g1, ⟨r, n, rest, g2, rfl⟩ | ⟨rest, g2, rfl⟩⟩ := step_kConsume hs
  · clear hs
    have hq := h.queue; have hc := h.coll
    rw [g2, g1] at hq; rw [g1] at hc
    obtain ⟨q1, q2, q3, q4⟩ := queue_head_some hq
    subst q2 q3
    simp only [cpos, collOk, Nat.add_zero] at hc q1 q4
    constructor <;> (try dsimp only) <;> try inv_field h
    · exact q4
    · simp only [cpos, eIdx] at *; omega
    · simp only [collOk, cpos, eIdx, Nat.add_zero] at *
      refine ⟨trivial, trivial, by omega, by omega, by omega⟩
  · clear hs
    have hq := h.queue; have hc := h.coll
    rw [g2, g1] at hq; rw [g1] at hc
    obtain ⟨q1, q2, q4⟩ := queue_head_none hq
    simp only [cpos, collOk, Nat.add_zero] at hc q1 q4
    constructor <;> (try dsimp only) <;> try inv_field h
    · exact q4
    · simp only [cpos, eIdx, q2] at *; simp; omega
    · simp only [collOk, eIdx] at *; simp [q2]; omega

theorem inv_kRead {p : Params} {s s' : State} (h : Inv p s) (hs : step p s .kRead = some s') : Inv p s' := by
  obtain ⟨r, n, k, c, rest, g1, g2, g3, rfl⟩ := step_kRead hs
  constructor <;> (try dsimp only) <;> try inv_field h
  · have := h.emit; rw [g2] at this; simpa using this
  · have := h.queue; rw [g1] at this; exact this
  · have := h.qlen; rw [g1] at this; exact this
  · have := h.coll; rw [g1] at this; simp only [collOk, eIdx, List.length_append, List.length_singleton] at *; omega

theorem peekQ_arith {gl Sr sz SF fSent szF cR p1 bl p2 cE : Nat}
    (hgl : gl = Sr + sz) (l1 : gl + p2 = cE) (l0 : cE ≤ cR) (l2 : cR + p1 + bl = SF + fSent) (h2 : fSent ≤ szF)
    (hSF : SF + szF = Sr + sz ∨ (SF = Sr + sz ∧ fSent = 0)) :
    bl = 0 ∧ (SF + fSent = 0 → gl = 0) ∧ ¬ (fSent < szF ∧ SF + szF = Sr + sz) := by
  omega

theorem inv_kOut {p : Params} {s s' : State} (h : Inv p s) (hs : step p s .kOut = some s') : Inv p s' := by
  obtain ⟨r, n, g1, rfl⟩ := step_kOut hs
  clear hs
  have hc := h.coll; have hq := h.queue; have hl := h.qlen
  rw [g1] at hc hq hl
  simp only [collOk, cpos] at hc hq hl
  obtain ⟨c1, c2, -, c4, c5⟩ := hc
  subst c1 c2
  have hcp : cpos (if p.peek = true ∧ s.queue = [] then CollState.peeking else CollState.idle) = 0 := by
    split <;> rfl
  constructor <;> (try dsimp only) <;> try inv_field h
  · rw [List.length_append, List.length_singleton, List.range_succ, ← h.out_range]
  · rw [hcp]; simpa [eIdx] using hq
  · rw [hcp]; simpa [eIdx] using hl
  · have hS := S_succ p s.out.length
    simp only [List.length_append, List.length_singleton]
    split
    · rename_i hpk
      obtain ⟨-, hqe⟩ := hpk
      have hlen := congrArg List.length hq
      rw [hqe] at hlen
      simp only [List.length_nil, List.length_drop, qfull_length] at hlen
      obtain ⟨l1, l2⟩ := h.lens
      have hb := h.last_in_buf; have h4 := h.ef_sent; have h2 := h.fSent_le; have l0 := h.emit_le
      have hfp : s.fPoison = false := by
        cases hx : s.fPoison
        · rfl
        · rw [hx] at hlen; simp only [if_true] at hlen; omega
      rw [hfp] at hlen; simp only [Bool.false_eq_true, if_false, Nat.add_zero] at hlen
      have he : eIdx s = s.out.length + 1 := by omega
      refine ⟨by omega, by simp only [eIdx] at *; omega, by omega, ?_⟩
      intro ef pf
      left
      simp only [eIdx] at he
      cases hx : s.fEnq
      · rw [hx] at he; simp only [Bool.false_eq_true, if_false, Nat.add_zero] at he
        have hs0 := h4 ef hx
        rw [he] at l2 hb
        obtain ⟨a1, a2, a3⟩ := peekQ_arith (szF := 0) c4 l1 l0 l2 (by omega) (Or.inr ⟨hS, hs0⟩)
        rcases hb ef pf hfp (List.eq_nil_of_length_eq_zero a1) with hb | hb
        · exact a2 hb
        · rw [hx] at hb; simp at hb
      · rw [hx] at he; simp only [if_true] at he
        have he' : s.fRec = s.out.length := by omega
        rw [← he'] at c4 hS
        obtain ⟨a1, a2, a3⟩ := peekQ_arith c4 l1 l0 l2 h2 (Or.inl rfl)
        rcases hb ef pf hfp (List.eq_nil_of_length_eq_zero a1) with hb | hb
        · exact a2 hb
        · exact absurd ⟨hb.2.1, rfl⟩ a3
    · simp only [collOk, eIdx] at *; omega

theorem inv_kPeekData {p : Params} {s s' : State} (h : Inv p s) (hs : step p s .kPeekData = some s') : Inv p s' := by
  simp only [step, Option.ite_none_right_eq_some, Option.some.injEq] at hs
  obtain ⟨⟨g1, g2⟩, rfl⟩ := hs
  have hc := h.coll; have hq := h.queue; have hl := h.qlen
  rw [g1] at hc hq hl
  have hcp : cpos (if s.queue = [] then CollState.failed else CollState.idle) = 0 := by
    split <;> rfl
  constructor <;> (try dsimp only) <;> try inv_field h
  · rw [hcp]; exact hq
  · rw [hcp]; exact hl
  · split <;> (simp only [collOk, eIdx] at *; omega)

theorem inv_kPeekEof {p : Params} {s s' : State} (h : Inv p s) (hs : step p s .kPeekEof = some s') : Inv p s' := by
  simp only [step, Option.ite_none_right_eq_some, Option.some.injEq] at hs
  obtain ⟨⟨g1, g2, g3, g4⟩, rfl⟩ := hs
  have hc := h.coll; have hq := h.queue; have hl := h.qlen
  rw [g1] at hc hq hl
  constructor <;> (try dsimp only) <;> try inv_field h
  · exact hq
  · exact hl
  · simp only [collOk, eIdx] at *; omega

theorem inv_step {p : Params} {s s' : State} {l : Label} (h : Inv p s) (hs : step p s l = some s') : Inv p s' := by
  cases l
  · exact inv_fEnqueue h hs
  · exact inv_fAppend h hs
  · exact inv_fSpillStart h hs
  · exact inv_fSpill h hs
  · exact inv_fSpillEnd h hs
  · exact inv_fNext h hs
  · exact inv_fPoison h hs
  · exact inv_fClose h hs
  · exact inv_cRead h hs
  · exact inv_cEof h hs
  · exact inv_cWrite h hs
  · exact inv_kConsume h hs
  · exact inv_kRead h hs
  · exact inv_kOut h hs
  · exact inv_kPeekData h hs
  · exact inv_kPeekEof h hs

theorem inv_reachable {p : Params} {s : State} (hr : Reachable p s) : Inv p s := by
  induction hr with
  | init => exact inv_init p
  | step _ hs ih => exact inv_step ih hs

/-- everything appended so far is a prefix of all chunks. -/
theorem Inv.cRead_prefix {p : Params} {s : State} (h : Inv p s) : s.cRead <+: allChunks p := by
  have h1 : s.cRead <+: s.cRead ++ s.pipe1 ++ s.buf := by
    rw [List.append_assoc]; exact List.prefix_append _ _
  rw [h.conserve] at h1
  exact h1.trans (appended_prefix p h.fRec_le h.fSent_le)

theorem Inv.got_prefix {p : Params} {s : State} (h : Inv p s) : s.got <+: allChunks p := by
  have h1 : s.got <+: s.got ++ s.pipe2 := List.prefix_append _ _
  rw [h.emit] at h1
  exact (h1.trans (List.take_prefix _ _)).trans h.cRead_prefix

theorem Inv.out_len_le {p : Params} {s : State} (h : Inv p s) : s.out.length ≤ nrec p := by
  have h1 := h.coll; have h2 := h.fRec_le; have h3 := h.enq_lt
  have : eIdx s ≤ nrec p := by
    simp only [eIdx]; cases hx : s.fEnq
    · simp; exact h2
    · simp; exact h3 hx
  revert h1; cases s.coll <;> simp only [collOk] <;> omega

theorem Inv.out_prefix {p : Params} {s : State} (h : Inv p s) : s.out <+: List.range (nrec p) := by
  rw [h.out_range]; exact range_prefix h.out_len_le

theorem Inv.final {p : Params} {s : State} (h : Inv p s) (hf : Final p s) :
    s.out = List.range (nrec p) ∧ s.got = allChunks p ∧ s.cRead = allChunks p := by
  obtain ⟨f1, f2, f3, f4, f5, f6, f7, f8⟩ := hf
  obtain ⟨c1, c2, c3⟩ := h.closed f2
  have hc := h.conserve
  have hs0 : s.fSent = 0 := by
    have := h.fSent_le; rw [c1, sizeOf_ge p (Nat.le_refl _)] at this; omega
  rw [c2, f6, hs0, c1] at hc
  simp only [List.append_nil, part_zero] at hc
  have hg := h.emit
  rw [f7, f5, List.take_length, List.append_nil] at hg
  have hcoll := h.coll
  rw [f1] at hcoll
  simp only [collOk, eIdx] at hcoll
  have hfe : s.fEnq = false := by
    cases hx : s.fEnq
    · rfl
    · have := h.enq_lt hx; omega
  rw [hfe, c1] at hcoll
  refine ⟨?_, ?_, hc⟩
  · rw [h.out_range, hcoll.2.2]; simp
  · rw [hg]; exact hc
end PV.Lemmas.Wrapper
