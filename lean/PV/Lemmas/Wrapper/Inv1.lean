import PV.Lemmas.Wrapper.Basic
namespace PV.Lemmas.Wrapper
open PV.Wrapper

theorem inv_init (p : Params) : Inv p init := by
  constructor <;> simp [init, eIdx, cpos, qfull, collOk]

macro "inv_field" h:ident : tactic => `(tactic| first
  | exact ($h).fRec_le | exact ($h).fSent_le | exact ($h).enq_lt | exact ($h).ef_sent | exact ($h).nef_sent
  | exact ($h).poison_rec | exact ($h).closed | exact ($h).pf_closed | exact ($h).npf_poison | exact ($h).eof
  | exact ($h).buf_le | exact ($h).spilling | exact ($h).conserve | exact ($h).emit | exact ($h).emit_le
  | exact ($h).out_range | exact ($h).queue | exact ($h).qlen | exact ($h).coll | exact ($h).last_in_buf)

macro "inv_facts" h:ident : tactic => `(tactic| (
  have i1 := ($h).fRec_le; have i2 := ($h).fSent_le; have i3 := ($h).enq_lt; have i4 := ($h).ef_sent
  have i5 := ($h).nef_sent; have i6 := ($h).poison_rec; have i7 := ($h).closed; have i8 := ($h).pf_closed
  have i9 := ($h).npf_poison; have i10 := ($h).eof; have i11 := ($h).buf_le; have i12 := ($h).spilling
  have i15 := ($h).emit_le; have i18 := ($h).qlen; have i20 := ($h).last_in_buf))

theorem inv_fEnqueue {p : Params} {s s' : State} (h : Inv p s) (hs : step p s .fEnqueue = some s') : Inv p s' := by
  simp only [step, Option.ite_none_right_eq_some, Option.some.injEq] at hs
  obtain ⟨⟨g1, g2, g3, g4⟩, rfl⟩ := hs
  constructor <;> (try dsimp only) <;> try inv_field h
  all_goals try (inv_facts h; simp only [eIdx] at *; grind)
  all_goals simp only [eIdx] at *
  · have hq := h.queue; have hl := h.qlen; have hp := h.poison_rec
    have hfp : s.fPoison = false := by cases hx : s.fPoison <;> simp_all <;> omega
    have hfe : s.fEnq = false := by simpa using g2
    simp [eIdx, hfp, hfe] at hq hl
    simp only [hfp, if_true, qfull_succ]
    rw [List.drop_append_of_le_length (by simpa [qfull_length] using hl), ← hq]; rfl
  · have hc := h.coll; have hp := h.poison_rec
    have hfe : s.fEnq = false := by simpa using g2
    simp [eIdx, hfe] at hc
    revert hc; cases s.coll <;> simp [collOk] <;> grind

macro "inv_auto" h:ident : tactic => `(tactic| (inv_facts $h; simp only [eIdx] at *; grind))

theorem inv_fAppend {p : Params} {s s' : State} (h : Inv p s) (hs : step p s .fAppend = some s') : Inv p s' := by
  simp only [step, Option.ite_none_right_eq_some, Option.some.injEq] at hs
  obtain ⟨⟨g1, g2, g3, g4, g5⟩, rfl⟩ := hs
  constructor <;> (try dsimp only) <;> try inv_field h
  all_goals try inv_auto h
  · rw [part_succ, ← List.append_assoc, ← List.append_assoc, h.conserve]
  · simp

theorem inv_fSpillStart {p : Params} {s s' : State} (h : Inv p s) (hs : step p s .fSpillStart = some s') : Inv p s' := by
  simp only [step, Option.ite_none_right_eq_some, Option.some.injEq] at hs
  obtain ⟨⟨g1, g2, g3⟩, rfl⟩ := hs
  constructor <;> (try dsimp only) <;> try inv_field h
  all_goals try inv_auto h

theorem inv_fSpillEnd {p : Params} {s s' : State} (h : Inv p s) (hs : step p s .fSpillEnd = some s') : Inv p s' := by
  simp only [step, Option.ite_none_right_eq_some, Option.some.injEq] at hs
  obtain ⟨⟨g1, g2⟩, rfl⟩ := hs
  constructor <;> (try dsimp only) <;> try inv_field h
  all_goals try inv_auto h

theorem inv_fNext {p : Params} {s s' : State} (h : Inv p s) (hs : step p s .fNext = some s') : Inv p s' := by
  simp only [step, Option.ite_none_right_eq_some, Option.some.injEq] at hs
  obtain ⟨⟨g1, g2, g3, g4⟩, rfl⟩ := hs
  constructor <;> (try dsimp only) <;> try inv_field h
  all_goals try inv_auto h
  · rw [chunksUpTo_succ, ← g2, part_zero, List.append_nil]; exact h.conserve
  · have := h.queue; simpa [eIdx, g3] using this
  · have := h.coll; simpa [eIdx, g3] using this
  · have := h.last_in_buf; have := S_succ p s.fRec; grind

theorem inv_fPoison {p : Params} {s s' : State} (h : Inv p s) (hs : step p s .fPoison = some s') : Inv p s' := by
  simp only [step, Option.ite_none_right_eq_some, Option.some.injEq] at hs
  obtain ⟨⟨g1, g2, g3, g4⟩, rfl⟩ := hs
  constructor <;> (try dsimp only) <;> try inv_field h
  all_goals try inv_auto h
  · have hq := h.queue; have hl := h.qlen
    have hfp : s.fPoison = false := by simpa using g2
    simp [hfp, eIdx] at hq hl ⊢
    rw [qfull_true, List.drop_append_of_le_length (by simpa [qfull_length] using hl), ← hq]
  · have hc := h.coll
    have hfp : s.fPoison = false := by simpa using g2
    revert hc; cases s.coll <;> simp [collOk, hfp, eIdx]

theorem inv_fClose {p : Params} {s s' : State} (h : Inv p s) (hs : step p s .fClose = some s') : Inv p s' := by
  simp only [step, Option.ite_none_right_eq_some, Option.some.injEq] at hs
  obtain ⟨⟨g1, g2, g3, g4, g5⟩, rfl⟩ := hs
  constructor <;> (try dsimp only) <;> try inv_field h
  all_goals try inv_auto h

theorem step_fSpill {p : Params} {s s' : State} (hs : step p s .fSpill = some s') :
    ∃ c rest, s.buf = c :: rest ∧ s.fSpilling = true ∧ s.pipe1.length < p.cap1 ∧
      s' = { s with buf := rest, pipe1 := s.pipe1 ++ [c] } := by
  simp only [step] at hs
  split at hs
  · rename_i c rest hb
    simp only [Option.ite_none_right_eq_some, Option.some.injEq] at hs
    exact ⟨c, rest, hb, hs.1.1, hs.1.2, hs.2.symm⟩
  · cases hs

theorem step_cRead {p : Params} {s s' : State} (hs : step p s .cRead = some s') :
    ∃ c rest, s.pipe1 = c :: rest ∧ pending p s ≤ p.readAhead ∧
      s' = { s with pipe1 := rest, cRead := s.cRead ++ [c] } := by
  simp only [step] at hs
  split at hs
  · rename_i c rest hb
    simp only [Option.ite_none_right_eq_some, Option.some.injEq] at hs
    exact ⟨c, rest, hb, hs.1, hs.2.symm⟩
  · cases hs

theorem step_cWrite {p : Params} {s s' : State} (hs : step p s .cWrite = some s') :
    ∃ c, s.cRead[s.cEmitted]? = some c ∧ s.cEmitted < p.release s.cRead.length s.cEof ∧ s.pipe2.length < p.cap2 ∧
      s' = { s with pipe2 := s.pipe2 ++ [c], cEmitted := s.cEmitted + 1 } := by
  simp only [step] at hs
  split at hs
  · rename_i hg
    split at hs
    · rename_i c hc
      simp only [Option.some.injEq] at hs
      exact ⟨c, hc, hg.1, hg.2, hs.symm⟩
    · cases hs
  · cases hs

theorem step_kConsume {p : Params} {s s' : State} (hs : step p s .kConsume = some s') :
    s.coll = .idle ∧ ((∃ r n rest, s.queue = some (r, n) :: rest ∧ s' = { s with queue := rest, coll := .reading r n 0 }) ∨
      (∃ rest, s.queue = none :: rest ∧ s' = { s with queue := rest, coll := .finished })) := by
  simp only [step] at hs
  split at hs
  · rename_i hg
    refine ⟨hg, ?_⟩
    split at hs
    · rename_i r n rest hq
      simp only [Option.some.injEq] at hs
      exact Or.inl ⟨r, n, rest, hq, hs.symm⟩
    · rename_i rest hq
      simp only [Option.some.injEq] at hs
      exact Or.inr ⟨rest, hq, hs.symm⟩
    · cases hs
  · cases hs

theorem step_kRead {p : Params} {s s' : State} (hs : step p s .kRead = some s') :
    ∃ r n k c rest, s.coll = .reading r n k ∧ s.pipe2 = c :: rest ∧ k < n ∧
      s' = { s with pipe2 := rest, got := s.got ++ [c], coll := .reading r n (k + 1) } := by
  simp only [step] at hs
  split at hs
  · rename_i r n k c rest hc hp
    simp only [Option.ite_none_right_eq_some, Option.some.injEq] at hs
    exact ⟨r, n, k, c, rest, hc, hp, hs.1, hs.2.symm⟩
  · cases hs

theorem step_kOut {p : Params} {s s' : State} (hs : step p s .kOut = some s') :
    ∃ r n, s.coll = .reading r n n ∧
      s' = { s with out := s.out ++ [r], coll := if p.peek ∧ s.queue = [] then .peeking else .idle } := by
  simp only [step] at hs
  split at hs
  · rename_i r n k hc
    simp only [Option.ite_none_right_eq_some, Option.some.injEq] at hs
    obtain ⟨rfl, hs⟩ := hs
    exact ⟨r, k, hc, hs.symm⟩
  · cases hs
end PV.Lemmas.Wrapper
