import PV.Lemmas.Wrapper.Inv2
namespace PV.Lemmas.Wrapper
open PV.Wrapper

def En (p : Params) (s : State) : Prop := ∃ l s', step p s l = some s'

theorem en_fEnqueue {p : Params} {s : State} (h1 : s.fRec < nrec p) (h2 : s.fEnq = false) (h3 : s.fSpilling = false)
    (h4 : if p.enqueueFirst then s.fSent = 0 else s.fSent = Wrapper.sizeOf p s.fRec) : En p s :=
  ⟨.fEnqueue, _, if_pos ⟨h1, by simp [h2], by simp [h3], h4⟩⟩

theorem en_fAppend {p : Params} {s : State} (h1 : s.fRec < nrec p) (h2 : s.fSent < Wrapper.sizeOf p s.fRec)
    (h3 : s.fSpilling = false) (h4 : p.enqueueFirst = true → s.fEnq = true) (h5 : s.buf.length < p.bufCap) : En p s :=
  ⟨.fAppend, _, if_pos ⟨h1, h2, by simp [h3], h4, h5⟩⟩

theorem en_fSpillStart {p : Params} {s : State} (h1 : s.fSpilling = false) (h2 : s.buf ≠ [])
    (h3 : (s.fRec < nrec p ∧ s.fSent < Wrapper.sizeOf p s.fRec ∧ (p.enqueueFirst = true → s.fEnq = true) ∧ s.buf.length = p.bufCap) ∨
         (s.fRec = nrec p ∧ s.fClosed = false ∧ (p.poisonFirst = true → s.fPoison = true))) : En p s :=
  ⟨.fSpillStart, _, if_pos ⟨by simp [h1], h2, by simpa using h3⟩⟩

theorem en_fSpill {p : Params} {s : State} (h1 : s.fSpilling = true) (h2 : s.buf ≠ []) (h3 : s.pipe1.length < p.cap1) :
    En p s := by
  refine ⟨.fSpill, ?_⟩
  simp only [step]
  split
  · exact ⟨_, if_pos ⟨h1, h3⟩⟩
  · rename_i hb; exact absurd hb h2

theorem en_fSpillEnd {p : Params} {s : State} (h1 : s.fSpilling = true) (h2 : s.buf = []) : En p s :=
  ⟨.fSpillEnd, _, if_pos ⟨h1, h2⟩⟩

theorem en_fNext {p : Params} {s : State} (h1 : s.fRec < nrec p) (h2 : s.fSent = Wrapper.sizeOf p s.fRec)
    (h3 : s.fEnq = true) (h4 : s.fSpilling = false) : En p s :=
  ⟨.fNext, _, if_pos ⟨h1, h2, h3, by simp [h4]⟩⟩

theorem en_fPoison {p : Params} {s : State} (h1 : s.fRec = nrec p) (h2 : s.fPoison = false) (h3 : s.fSpilling = false)
    (h4 : p.poisonFirst = false → s.fClosed = true) : En p s :=
  ⟨.fPoison, _, if_pos ⟨h1, by simp [h2], by simp [h3], by cases hx : p.poisonFirst <;> simp [h4, hx]⟩⟩

theorem en_fClose {p : Params} {s : State} (h1 : s.fRec = nrec p) (h2 : s.fClosed = false) (h3 : s.fSpilling = false)
    (h4 : s.buf = []) (h5 : p.poisonFirst = true → s.fPoison = true) : En p s :=
  ⟨.fClose, _, if_pos ⟨h1, by simp [h2], by simp [h3], h4, h5⟩⟩

theorem en_cRead {p : Params} {s : State} (h1 : s.pipe1 ≠ []) (h2 : pending p s ≤ p.readAhead) : En p s := by
  refine ⟨.cRead, ?_⟩
  simp only [step]
  split
  · exact ⟨_, if_pos h2⟩
  · rename_i hb; exact absurd hb h1

theorem en_cEof {p : Params} {s : State} (h1 : s.pipe1 = []) (h2 : s.fClosed = true) (h3 : s.cEof = false) : En p s :=
  ⟨.cEof, _, if_pos ⟨h1, h2, by simp [h3]⟩⟩

theorem en_cWrite {p : Params} {s : State} (h1 : s.cEmitted < p.release s.cRead.length s.cEof)
    (h2 : s.pipe2.length < p.cap2) (h3 : s.cEmitted < s.cRead.length) : En p s := by
  refine ⟨.cWrite, ?_⟩
  simp only [step, if_pos (And.intro h1 h2), List.getElem?_eq_getElem h3]
  exact ⟨_, rfl⟩

theorem en_kConsume {p : Params} {s : State} (h1 : s.coll = .idle) (h2 : s.queue ≠ []) : En p s := by
  refine ⟨.kConsume, ?_⟩
  simp only [step, if_pos h1]
  split
  · exact ⟨_, rfl⟩
  · exact ⟨_, rfl⟩
  · rename_i hb; exact absurd hb h2

theorem en_kRead {p : Params} {s : State} {r n k : Nat} (h1 : s.coll = .reading r n k) (h2 : s.pipe2 ≠ []) (h3 : k < n) :
    En p s := by
  refine ⟨.kRead, ?_⟩
  cases hp : s.pipe2 with
  | nil => exact absurd hp h2
  | cons c rest =>
    simp only [step, h1, hp, if_pos h3]
    exact ⟨_, rfl⟩

theorem en_kOut {p : Params} {s : State} {r n : Nat} (h1 : s.coll = .reading r n n) : En p s := by
  refine ⟨.kOut, ?_⟩
  simp only [step, h1, if_true]
  exact ⟨_, rfl⟩

theorem en_kPeekData {p : Params} {s : State} (h1 : s.coll = .peeking) (h2 : s.pipe2 ≠ []) : En p s :=
  ⟨.kPeekData, _, if_pos ⟨h1, h2⟩⟩


def Done (s : State) : Prop :=
  s.fClosed = true ∧ s.cEof = true ∧ s.pipe1 = [] ∧ s.cEmitted = s.cRead.length

/-- the feeder can move unless it has closed the pipe or waits for room in pipe1. -/
theorem feeder_progress {p : Params} {s : State} (h : Inv p s) (hok : p.Ok) (ef : p.enqueueFirst = true)
    (hc : s.fClosed = false) (hp1 : s.pipe1 = []) : En p s := by
  have c1 := hok.c1; have hb := hok.buf
  cases hsp : s.fSpilling
  · -- not spilling
    by_cases hr : s.fRec < nrec p
    · cases he : s.fEnq
      · exact en_fEnqueue hr he hsp (by simp [ef, h.ef_sent ef he])
      · by_cases hs : s.fSent < Wrapper.sizeOf p s.fRec
        · by_cases hbl : s.buf.length < p.bufCap
          · exact en_fAppend hr hs hsp (fun _ => he) hbl
          · have hbe : s.buf.length = p.bufCap := by have := h.buf_le; omega
            refine en_fSpillStart hsp ?_ (Or.inl ⟨hr, hs, fun _ => he, hbe⟩)
            intro hn; rw [hn] at hbe; simp at hbe; omega
        · exact en_fNext hr (by have := h.fSent_le; omega) he hsp
    · have hr' : s.fRec = nrec p := by have := h.fRec_le; omega
      cases hpo : s.fPoison
      · cases hpf : p.poisonFirst
        · by_cases hbn : s.buf = []
          · exact en_fClose hr' hc hsp hbn (by simp [hpf])
          · exact en_fSpillStart hsp hbn (Or.inr ⟨hr', hc, by simp [hpf]⟩)
        · exact en_fPoison hr' hpo hsp (by simp [hpf])
      · by_cases hbn : s.buf = []
        · exact en_fClose hr' hc hsp hbn (fun _ => hpo)
        · exact en_fSpillStart hsp hbn (Or.inr ⟨hr', hc, fun _ => hpo⟩)
  · by_cases hbn : s.buf = []
    · exact en_fSpillEnd hsp hbn
    · exact en_fSpill hsp hbn (by rw [hp1]; exact c1)

/-- child / feeder progress: if the child's output pipe has room, something is enabled or all is flushed. -/
theorem cf_progress {p : Params} {s : State} (h : Inv p s) (hok : p.Ok) (ef : p.enqueueFirst = true)
    (hp2 : s.pipe2.length < p.cap2) : En p s ∨ Done s := by
  by_cases hw : s.cEmitted < p.release s.cRead.length s.cEof
  · exact Or.inl (en_cWrite hw hp2 (Nat.lt_of_lt_of_le hw (hok.policy.le _ _)))
  · by_cases hp1 : s.pipe1 = []
    · cases hc : s.fClosed
      · exact Or.inl (feeder_progress h hok ef hc hp1)
      · cases he : s.cEof
        · exact Or.inl (en_cEof hp1 hc he)
        · refine Or.inr ⟨hc, he, hp1, ?_⟩
          rw [he, hok.policy.eof] at hw
          have := h.emit_le; omega
    · exact Or.inl (en_cRead hp1 (by unfold pending; omega))

/-- when everything is flushed the child has read all chunks. -/
theorem Inv.done_len {p : Params} {s : State} (h : Inv p s) (hd : Done s) :
    s.cEmitted = S p (nrec p) ∧ s.fRec = nrec p ∧ s.fEnq = false := by
  obtain ⟨d1, d2, d3, d4⟩ := hd
  obtain ⟨c1, c2, c3⟩ := h.closed d1
  obtain ⟨l1, l2⟩ := h.lens
  have hs0 : s.fSent = 0 := by
    have := h.fSent_le; rw [c1, sizeOf_ge p (Nat.le_refl _)] at this; omega
  have hfe : s.fEnq = false := by
    cases hx : s.fEnq
    · rfl
    · have := h.enq_lt hx; omega
  rw [c2, d3, hs0, c1] at l2
  simp at l2
  exact ⟨by omega, c1, hfe⟩


/-- bound used repeatedly: answers consumed + in pipe2 never exceed the chunks of the entries produced. -/
theorem Inv.emitted_le {p : Params} {s : State} (h : Inv p s) (ef : p.enqueueFirst = true) :
    s.got.length + s.pipe2.length ≤ S p (eIdx s) := by
  obtain ⟨l1, l2⟩ := h.lens
  have := h.emit_le; have h2 := h.fSent_le
  simp only [eIdx]
  cases hx : s.fEnq
  · have := h.ef_sent ef hx; simp; omega
  · simp [S_succ]; omega

theorem Inv.eIdx_le {p : Params} {s : State} (h : Inv p s) : eIdx s ≤ nrec p := by
  have h2 := h.fRec_le; have h3 := h.enq_lt
  simp only [eIdx]; cases hx : s.fEnq
  · simp; exact h2
  · simp; exact h3 hx

/-- hypotheses of the corrected theorems. -/
structure Hyp (p : Params) : Prop where
  ok : p.Ok
  ef : p.enqueueFirst = true
  pf : p.peek = true → p.poisonFirst = true
  nz : p.peek = true → nrec p = 0 ∨ 0 < S p (nrec p)

def NF (p : Params) (s : State) : Prop := s.coll ≠ .failed ∧ (s.coll = .peeking → p.peek = true)

theorem queue_nil_iff {p : Params} {s : State} (h : Inv p s) (hq : s.queue = []) :
    eIdx s + (if s.fPoison then 1 else 0) = s.out.length + cpos s.coll := by
  have := congrArg List.length h.queue
  rw [hq] at this
  simp only [List.length_nil, List.length_drop, qfull_length] at this
  have := h.qlen
  omega

theorem nf_step {p : Params} {s s' : State} {l : Label} (hp : Hyp p) (h : Inv p s) (hn : NF p s)
    (hs : step p s l = some s') : NF p s' := by
  cases l
  case fEnqueue =>
    simp only [step, Option.ite_none_right_eq_some, Option.some.injEq] at hs
    obtain ⟨-, rfl⟩ := hs; exact hn
  case fAppend =>
    simp only [step, Option.ite_none_right_eq_some, Option.some.injEq] at hs
    obtain ⟨-, rfl⟩ := hs; exact hn
  case fSpillStart =>
    simp only [step, Option.ite_none_right_eq_some, Option.some.injEq] at hs
    obtain ⟨-, rfl⟩ := hs; exact hn
  case fSpill => obtain ⟨c, rest, -, -, -, rfl⟩ := step_fSpill hs; exact hn
  case fSpillEnd =>
    simp only [step, Option.ite_none_right_eq_some, Option.some.injEq] at hs
    obtain ⟨-, rfl⟩ := hs; exact hn
  case fNext =>
    simp only [step, Option.ite_none_right_eq_some, Option.some.injEq] at hs
    obtain ⟨-, rfl⟩ := hs; exact hn
  case fPoison =>
    simp only [step, Option.ite_none_right_eq_some, Option.some.injEq] at hs
    obtain ⟨-, rfl⟩ := hs; exact hn
  case fClose =>
    simp only [step, Option.ite_none_right_eq_some, Option.some.injEq] at hs
    obtain ⟨-, rfl⟩ := hs; exact hn
  case cRead => obtain ⟨c, rest, -, -, rfl⟩ := step_cRead hs; exact hn
  case cEof =>
    simp only [step, Option.ite_none_right_eq_some, Option.some.injEq] at hs
    obtain ⟨-, rfl⟩ := hs; exact hn
  case cWrite => obtain ⟨c, -, -, -, rfl⟩ := step_cWrite hs; exact hn
  case kConsume =>
    obtain ⟨-, ⟨r, n, rest, -, rfl⟩ | ⟨rest, -, rfl⟩⟩ := step_kConsume hs <;> simp [NF]
  case kRead => obtain ⟨r, n, k, c, rest, -, -, -, rfl⟩ := step_kRead hs; simp [NF]
  case kOut =>
    obtain ⟨r, n, -, rfl⟩ := step_kOut hs
    dsimp only [NF]
    split
    · rename_i hc; exact ⟨by simp, fun _ => hc.1⟩
    · simp
  case kPeekData =>
    simp only [step, Option.ite_none_right_eq_some, Option.some.injEq] at hs
    obtain ⟨⟨g1, g2⟩, rfl⟩ := hs
    have pk := hn.2 g1
    have hq : s.queue ≠ [] := by
      intro hq
      have e1 := queue_nil_iff h hq
      have e2 := h.emitted_le hp.ef
      have hc := h.coll
      rw [g1] at hc e1
      simp only [collOk, cpos] at hc e1
      have : 0 < s.pipe2.length := List.length_pos_iff.2 g2
      have : eIdx s = s.out.length := by omega
      rw [this] at e2; omega
    simp [NF, hq]
  case kPeekEof =>
    exfalso
    simp only [step, Option.ite_none_right_eq_some, Option.some.injEq] at hs
    obtain ⟨⟨g1, g2, g3, g4⟩, -⟩ := hs
    have pk := hn.2 g1
    obtain ⟨f1, f2⟩ := h.eof g3
    obtain ⟨d1, d2, d3⟩ := h.done_len ⟨f1, g3, f2, g4⟩
    obtain ⟨l1, l2⟩ := h.lens
    rw [g2] at l1
    have hc := h.coll
    rw [g1] at hc
    simp only [collOk, eIdx, d3] at hc
    obtain ⟨c1, c2, c3, c4⟩ := hc
    have := c4 hp.ef (hp.pf pk)
    have := hp.nz pk
    simp at l1 c2
    omega

theorem nf_reachable {p : Params} {s : State} (hp : Hyp p) (hr : Reachable p s) : NF p s := by
  induction hr with
  | init => simp [NF, init]
  | step hr hs ih => exact nf_step hp (inv_reachable hr) ih hs


theorem progress {p : Params} {s : State} (hp : Hyp p) (h : Inv p s) (hn : NF p s) : Final p s ∨ En p s := by
  have hok := hp.ok; have ef := hp.ef
  have c2 := hok.c2
  obtain ⟨l1, l2⟩ := h.lens
  have hcoll := h.coll
  have hem := h.emitted_le ef
  have hele := h.eIdx_le
  cases hc : s.coll with
  | failed => exact absurd hc hn.1
  | reading r n k =>
    rw [hc] at hcoll
    obtain ⟨rfl, rfl, k1, k2, k3⟩ := hcoll
    by_cases hk : k = Wrapper.sizeOf p s.out.length
    · subst hk; exact Or.inr (en_kOut hc)
    · by_cases hp2 : s.pipe2 = []
      · rcases cf_progress h hok ef (by rw [hp2]; exact c2) with he | hd
        · exact Or.inr he
        · exfalso
          obtain ⟨d1, d2, d3⟩ := h.done_len hd
          rw [hp2] at l1
          have := S_lt p (show s.out.length < nrec p by omega)
          simp at l1; omega
      · exact Or.inr (en_kRead hc hp2 (by omega))
  | idle =>
    rw [hc] at hcoll
    obtain ⟨k1, k2⟩ := hcoll
    by_cases hq : s.queue = []
    · have e1 := queue_nil_iff h hq
      rw [hc] at e1; simp only [cpos] at e1
      have he : eIdx s = s.out.length := by omega
      have hfp : s.fPoison = false := by
        cases hx : s.fPoison
        · rfl
        · rw [hx] at e1; simp at e1; omega
      rw [he] at hem
      rcases cf_progress h hok ef (by omega) with he | hd
      · exact Or.inr he
      · obtain ⟨d1, d2, d3⟩ := h.done_len hd
        obtain ⟨c1, c2, c3⟩ := h.closed hd.1
        refine Or.inr (en_fPoison d2 hfp c3 (fun _ => hd.1))
    · exact Or.inr (en_kConsume hc hq)
  | peeking =>
    by_cases hp2 : s.pipe2 = []
    · rcases cf_progress h hok ef (by rw [hp2]; exact c2) with he | hd
      · exact Or.inr he
      · exact Or.inr ⟨.kPeekEof, _, if_pos ⟨hc, hp2, hd.2.1, hd.2.2.2⟩⟩
    · exact Or.inr (en_kPeekData hc hp2)
  | finished =>
    rw [hc] at hcoll
    obtain ⟨k1, k2, k3⟩ := hcoll
    have hq : s.queue = [] := by
      rw [h.queue, hc, List.drop_eq_nil_iff, qfull_length, k2, k3]; simp [cpos]
    have hpr := h.poison_rec k2
    have hS := S_mono p hele
    rw [← k3] at hem
    rcases cf_progress h hok ef (by omega) with he | hd
    · exact Or.inr he
    · refine Or.inl ⟨hc, hd.1, k2, hd.2.1, hd.2.2.2, hd.2.2.1, ?_, hq⟩
      apply List.eq_nil_of_length_eq_zero
      obtain ⟨d1, d2, d3⟩ := h.done_len hd
      rw [k3] at k1
      have : eIdx s = nrec p := by simp [eIdx, d2, d3]
      rw [this] at k1; omega

end PV.Lemmas.Wrapper
