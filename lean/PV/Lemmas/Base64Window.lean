import PV.Model.Base64
import PV.Spec.Base64
import PV.Lemmas.Base64
/-
Helper lemmas for C09 windows: RFC 4648 encoding is compositional at 3-byte boundaries.
-/
namespace PV.Lemmas.Base64Window
open PV.Base64 PV.Spec.Base64 PV.Lemmas.Base64

/-- induction in steps of three elements -/
theorem three_step {α : Type} {P : List α → Prop} (h0 : P []) (h1 : ∀ a, P [a]) (h2 : ∀ a b, P [a, b])
    (h3 : ∀ a b c r, P r → P (a :: b :: c :: r)) : ∀ l, P l
  | [] => h0
  | [a] => h1 a
  | [a, b] => h2 a b
  | a :: b :: c :: r => h3 a b c r (three_step h0 h1 h2 h3 r)

theorem rfc4648_cons3 (a b c : UInt8) (r : List UInt8) :
    rfc4648 (a :: b :: c :: r) =
      alpha ((a.toNat * 65536 + b.toNat * 256 + c.toNat) / 262144) ::
      alpha ((a.toNat * 65536 + b.toNat * 256 + c.toNat) / 4096 % 64) ::
      alpha ((a.toNat * 65536 + b.toNat * 256 + c.toNat) / 64 % 64) ::
      alpha ((a.toNat * 65536 + b.toNat * 256 + c.toNat) % 64) :: rfc4648 r := by
  simp only [rfc4648]

theorem rfc4648_append (a b : List UInt8) (h : a.length % 3 = 0) :
    rfc4648 (a ++ b) = rfc4648 a ++ rfc4648 b := by
  induction a using three_step with
  | h0 => simp [rfc4648]
  | h1 x => simp [List.length] at h
  | h2 x y => simp [List.length] at h
  | h3 x y z r ih =>
    have hr : r.length % 3 = 0 := by simp only [List.length_cons] at h; omega
    simp only [List.cons_append, rfc4648_cons3, ih hr]

theorem rfc4648_length (bs : List UInt8) : (rfc4648 bs).length = 4 * ((bs.length + 2) / 3) := by
  induction bs using three_step with
  | h0 => simp [rfc4648]
  | h1 x => simp [rfc4648]
  | h2 x y => simp [rfc4648]
  | h3 x y z r ih =>
    simp only [rfc4648_cons3, List.length_cons, ih]; omega

theorem rfc4648_length_aligned (bs : List UInt8) (h : bs.length % 3 = 0) :
    (rfc4648 bs).length = 4 * (bs.length / 3) := by
  rw [rfc4648_length]; omega

theorem encode_length (bs : List UInt8) : (encode bs).length = 4 * ((bs.length + 2) / 3) := by
  rw [encode_eq]; exact rfc4648_length bs

theorem rfc4648_window (pre mid post : List UInt8) (hp : pre.length % 3 = 0) (hm : mid.length % 3 = 0) :
    ((rfc4648 (pre ++ mid ++ post)).drop (4 * (pre.length / 3))).take (4 * (mid.length / 3)) = rfc4648 mid := by
  rw [List.append_assoc, rfc4648_append pre _ hp, rfc4648_append mid _ hm,
    List.drop_left' (rfc4648_length_aligned pre hp), List.take_left' (rfc4648_length_aligned mid hm)]

theorem rfc4648_tail (pre last : List UInt8) (hp : pre.length % 3 = 0) :
    (rfc4648 (pre ++ last)).drop (4 * (pre.length / 3)) = rfc4648 last := by
  rw [rfc4648_append pre _ hp, List.drop_left' (rfc4648_length_aligned pre hp)]

theorem encode_window (pre mid post : List UInt8) (hp : pre.length % 3 = 0) (hm : mid.length % 3 = 0) :
    ((encode (pre ++ mid ++ post)).drop (4 * (pre.length / 3))).take (4 * (mid.length / 3)) = encode mid := by
  rw [encode_eq, encode_eq]; exact rfc4648_window pre mid post hp hm

theorem encode_tail (pre last : List UInt8) (hp : pre.length % 3 = 0) :
    (encode (pre ++ last)).drop (4 * (pre.length / 3)) = encode last := by
  rw [encode_eq, encode_eq]; exact rfc4648_tail pre last hp

end PV.Lemmas.Base64Window
