import PV.Model.Tools
import PV.Spec.FirstOcc
import PV.Lemmas.Table
import PV.Lemmas.Utf8
/-
Helper lemmas for C01 (dedupe), C06 (shard) and C18 (line filters).
-/
namespace PV.Lemmas.Tools
open PV.Tools PV.Spec.FirstOcc

/-! ### pure list facts about `firstOccGo` -/
section FirstOcc
variable {α β : Type} [DecidableEq β]

theorem firstOccGo_nil (f : α → β) (seen : List β) : firstOccGo f seen [] = [] := by
  simp [firstOccGo]

theorem firstOccGo_cons (f : α → β) (seen : List β) (l : α) (ls : List α) :
    firstOccGo f seen (l :: ls) =
      if f l ∈ seen then firstOccGo f seen ls else l :: firstOccGo f (f l :: seen) ls := by
  simp [firstOccGo]

/-- only the membership of the input keys in `seen` matters. -/
theorem firstOccGo_congr (f : α → β) : ∀ (ls : List α) (s s' : List β),
    (∀ x ∈ ls, f x ∈ s ↔ f x ∈ s') → firstOccGo f s ls = firstOccGo f s' ls := by
  intro ls
  induction ls with
  | nil => intro s s' _; simp [firstOccGo_nil]
  | cons l ls ih =>
    intro s s' h
    rw [firstOccGo_cons, firstOccGo_cons]
    have hl := h l (by simp)
    by_cases hm : f l ∈ s
    · rw [if_pos hm, if_pos (hl.1 hm)]
      exact ih s s' (fun x hx => h x (by simp [hx]))
    · rw [if_neg hm, if_neg (fun h' => hm (hl.2 h'))]
      congr 1
      apply ih
      intro x hx
      have := h x (by simp [hx])
      simp only [List.mem_cons, this]

theorem firstOccGo_char (f : α → β) : ∀ (ls pre : List α) (seen : List β),
    (∀ x, x ∈ seen ↔ x ∈ pre.map f) →
    firstOccGo f seen ls =
      ((ls.zipIdx pre.length).filter
        (fun (l, i) => decide (f l ∉ ((pre ++ ls).take i).map f))).map (·.1) := by
  intro ls
  induction ls with
  | nil => intro pre seen _; simp [firstOccGo_nil]
  | cons l ls ih =>
    intro pre seen h
    rw [firstOccGo_cons, List.zipIdx_cons, List.filter_cons]
    have htake : (pre ++ l :: ls).take pre.length = pre := by simp
    have hassoc : pre ++ l :: ls = (pre ++ [l]) ++ ls := by simp
    have hlen : pre.length + 1 = (pre ++ [l]).length := by simp
    by_cases hm : f l ∈ seen
    · have hm' : f l ∈ pre.map f := (h _).1 hm
      rw [if_pos hm]
      simp only [htake, hm', not_true_eq_false, decide_false, Bool.false_eq_true, if_false]
      rw [hassoc, hlen]
      apply ih
      intro x
      rw [h x]
      simp only [List.map_append, List.mem_append, List.map_cons, List.map_nil, List.mem_singleton]
      constructor
      · exact Or.inl
      · rintro (hx | hx)
        · exact hx
        · rw [hx]; exact hm'
    · have hm' : f l ∉ pre.map f := fun h' => hm ((h _).2 h')
      rw [if_neg hm]
      simp only [htake, hm', not_false_eq_true, decide_true, if_true, List.map_cons]
      congr 1
      rw [hassoc, hlen]
      apply ih
      intro x
      simp only [List.mem_cons, h x, List.map_append, List.mem_append, List.map_cons, List.map_nil,
        List.not_mem_nil, or_false]
      exact Or.comm

theorem firstOccGo_sublist (f : α → β) : ∀ (ls : List α) (seen : List β),
    (firstOccGo f seen ls).Sublist ls := by
  intro ls
  induction ls with
  | nil => intro seen; simp [firstOccGo_nil]
  | cons l ls ih =>
    intro seen
    rw [firstOccGo_cons]
    split
    · exact (ih seen).cons l
    · exact (ih _).cons_cons l

theorem mem_firstOccGo (f : α → β) : ∀ (ls : List α) (seen : List β) (x : α),
    x ∈ firstOccGo f seen ls → x ∈ ls ∧ f x ∉ seen := by
  intro ls
  induction ls with
  | nil => intro seen x h; simp [firstOccGo_nil] at h
  | cons l ls ih =>
    intro seen x h
    rw [firstOccGo_cons] at h
    by_cases hm : f l ∈ seen
    · rw [if_pos hm] at h
      have := ih seen x h
      exact ⟨by simp [this.1], this.2⟩
    · rw [if_neg hm, List.mem_cons] at h
      rcases h with h | h
      · subst h; exact ⟨by simp, hm⟩
      · have := ih _ x h
        exact ⟨by simp [this.1], fun h' => this.2 (by simp [h'])⟩

theorem firstOccGo_nodup (f : α → β) : ∀ (ls : List α) (seen : List β),
    ((firstOccGo f seen ls).map f).Nodup := by
  intro ls
  induction ls with
  | nil => intro seen; simp [firstOccGo_nil]
  | cons l ls ih =>
    intro seen
    rw [firstOccGo_cons]
    split
    · exact ih seen
    · rw [List.map_cons, List.nodup_cons]
      refine ⟨?_, ih _⟩
      intro hmem
      obtain ⟨x, hx, hfx⟩ := List.mem_map.1 hmem
      have := (mem_firstOccGo f ls _ x hx).2
      apply this
      rw [hfx]; simp

theorem firstOccGo_complete (f : α → β) : ∀ (ls : List α) (seen : List β),
    ∀ l ∈ ls, f l ∈ seen ∨ f l ∈ (firstOccGo f seen ls).map f := by
  intro ls
  induction ls with
  | nil => intro seen l h; simp at h
  | cons a ls ih =>
    intro seen l hl
    rw [firstOccGo_cons]
    rw [List.mem_cons] at hl
    by_cases hm : f a ∈ seen
    · rw [if_pos hm]
      rcases hl with hl | hl
      · subst hl; exact Or.inl hm
      · exact ih seen l hl
    · rw [if_neg hm, List.map_cons]
      rcases hl with hl | hl
      · subst hl; right; simp
      · rcases ih (f a :: seen) l hl with h | h
        · rw [List.mem_cons] at h
          rcases h with h | h
          · right; rw [h]; simp
          · exact Or.inl h
        · right; simp only [List.mem_cons]; exact Or.inr h

theorem firstOccGo_id (f : α → β) : ∀ (xs : List α) (seen : List β),
    (∀ x ∈ xs, f x ∉ seen) → (xs.map f).Nodup → firstOccGo f seen xs = xs := by
  intro xs
  induction xs with
  | nil => intro seen _ _; simp [firstOccGo_nil]
  | cons a xs ih =>
    intro seen h hn
    rw [firstOccGo_cons, if_neg (h a (by simp))]
    rw [List.map_cons, List.nodup_cons] at hn
    congr 1
    apply ih _ _ hn.2
    intro x hx
    rw [List.mem_cons, not_or]
    refine ⟨?_, h x (by simp [hx])⟩
    intro he
    apply hn.1
    rw [← he]
    exact List.mem_map_of_mem hx

theorem firstOccGo_text {γ : Type} [DecidableEq γ] (key : α → β) (text : α → γ) :
    ∀ (ls : List α) (s1 : List β) (s2 : List γ),
    (∀ a ∈ ls, ∀ b ∈ ls, key a = key b ↔ text a = text b) →
    (∀ a ∈ ls, key a ∈ s1 ↔ text a ∈ s2) →
    firstOccGo key s1 ls = firstOccGo text s2 ls := by
  intro ls
  induction ls with
  | nil => intro s1 s2 _ _; simp [firstOccGo_nil]
  | cons l ls ih =>
    intro s1 s2 h hs
    rw [firstOccGo_cons, firstOccGo_cons]
    have hl := hs l (by simp)
    have h' : ∀ a ∈ ls, ∀ b ∈ ls, key a = key b ↔ text a = text b :=
      fun a ha b hb => h a (by simp [ha]) b (by simp [hb])
    by_cases hm : key l ∈ s1
    · rw [if_pos hm, if_pos (hl.1 hm)]
      exact ih s1 s2 h' (fun a ha => hs a (by simp [ha]))
    · rw [if_neg hm, if_neg (fun h'' => hm (hl.2 h''))]
      congr 1
      apply ih _ _ h'
      intro a ha
      simp only [List.mem_cons, hs a (by simp [ha]), h a (by simp [ha]) l (by simp)]

/-- filtering by a predicate of the key commutes with first-occurrence. -/
theorem firstOccGo_filter (f : α → β) (q : β → Bool) : ∀ (ls : List α) (seen : List β),
    firstOccGo f seen (ls.filter (fun l => q (f l))) =
      (firstOccGo f seen ls).filter (fun l => q (f l)) := by
  intro ls
  induction ls with
  | nil => intro seen; simp [firstOccGo_nil]
  | cons l ls ih =>
    intro seen
    rw [List.filter_cons, firstOccGo_cons]
    by_cases hq : q (f l) = true
    · rw [if_pos hq, firstOccGo_cons]
      by_cases hm : f l ∈ seen
      · rw [if_pos hm, if_pos hm]; exact ih seen
      · rw [if_neg hm, if_neg hm, List.filter_cons, if_pos hq, ih]
    · rw [if_neg hq]
      by_cases hm : f l ∈ seen
      · rw [if_pos hm]; exact ih seen
      · rw [if_neg hm, List.filter_cons, if_neg hq, ← ih]
        apply firstOccGo_congr
        intro x hx
        have hqx := (List.mem_filter.1 hx).2
        rw [List.mem_cons]
        constructor
        · exact Or.inr
        · rintro (h | h)
          · rw [h] at hqx; exact absurd hqx hq
          · exact h

/-! ### `parGo` -/

theorem parGo_nil (f : α → β) (s0 s1 : List β) : parGo f s0 s1 [] = [] := by
  simp [parGo]

theorem parGo_cons (f : α → β) (s0 s1 : List β) (a b : α) (ps : List (α × α)) :
    parGo f s0 s1 ((a, b) :: ps) =
      if f a ∈ s0 then parGo f s0 s1 ps
      else if f b ∈ s1 then parGo f (f a :: s0) s1 ps
      else (a, b) :: parGo f (f a :: s0) (f b :: s1) ps := by
  simp [parGo]

theorem parGo_sublist (f : α → β) : ∀ (ps : List (α × α)) (s0 s1 : List β),
    (parGo f s0 s1 ps).Sublist ps := by
  intro ps
  induction ps with
  | nil => intro s0 s1; simp [parGo_nil]
  | cons p ps ih =>
    intro s0 s1
    obtain ⟨a, b⟩ := p
    rw [parGo_cons]
    split
    · exact (ih _ _).cons _
    · split
      · exact (ih _ _).cons _
      · exact (ih _ _).cons_cons _

theorem mem_parGo (f : α → β) : ∀ (ps : List (α × α)) (s0 s1 : List β) (x : α × α),
    x ∈ parGo f s0 s1 ps → f x.1 ∉ s0 ∧ f x.2 ∉ s1 := by
  intro ps
  induction ps with
  | nil => intro s0 s1 x h; simp [parGo_nil] at h
  | cons p ps ih =>
    intro s0 s1 x h
    obtain ⟨a, b⟩ := p
    rw [parGo_cons] at h
    by_cases h0 : f a ∈ s0
    · rw [if_pos h0] at h; exact ih _ _ x h
    · rw [if_neg h0] at h
      by_cases h1 : f b ∈ s1
      · rw [if_pos h1] at h
        have := ih _ _ x h
        exact ⟨fun h' => this.1 (by simp [h']), this.2⟩
      · rw [if_neg h1, List.mem_cons] at h
        rcases h with h | h
        · subst h; exact ⟨h0, h1⟩
        · have := ih _ _ x h
          exact ⟨fun h' => this.1 (by simp [h']), fun h' => this.2 (by simp [h'])⟩

theorem parGo_nodup (f : α → β) : ∀ (ps : List (α × α)) (s0 s1 : List β),
    ((parGo f s0 s1 ps).map (fun p => f p.1)).Nodup ∧
      ((parGo f s0 s1 ps).map (fun p => f p.2)).Nodup := by
  intro ps
  induction ps with
  | nil => intro s0 s1; simp [parGo_nil]
  | cons p ps ih =>
    intro s0 s1
    obtain ⟨a, b⟩ := p
    rw [parGo_cons]
    split
    · exact ih _ _
    · split
      · exact ih _ _
      · rw [List.map_cons, List.map_cons, List.nodup_cons, List.nodup_cons]
        refine ⟨⟨?_, (ih _ _).1⟩, ⟨?_, (ih _ _).2⟩⟩
        · intro hmem
          obtain ⟨x, hx, hfx⟩ := List.mem_map.1 hmem
          apply (mem_parGo f ps _ _ x hx).1
          simp only at hfx
          rw [hfx]; simp
        · intro hmem
          obtain ⟨x, hx, hfx⟩ := List.mem_map.1 hmem
          apply (mem_parGo f ps _ _ x hx).2
          simp only at hfx
          rw [hfx]; simp

theorem parGo_both_new (f : α → β) (a b : α) (post : List (α × α)) :
    ∀ (pre : List (α × α)) (s0 s1 : List β),
    f a ∉ s0 → f b ∉ s1 → f a ∉ pre.map (fun p => f p.1) → f b ∉ pre.map (fun p => f p.2) →
    (a, b) ∈ parGo f s0 s1 (pre ++ (a, b) :: post) := by
  intro pre
  induction pre with
  | nil =>
    intro s0 s1 h0 h1 _ _
    rw [List.nil_append, parGo_cons, if_neg h0, if_neg h1]
    simp
  | cons p pre ih =>
    intro s0 s1 h0 h1 ha hb
    obtain ⟨a', b'⟩ := p
    rw [List.map_cons, List.mem_cons, not_or] at ha hb
    have h0' : f a ∉ f a' :: s0 := by
      rw [List.mem_cons, not_or]; exact ⟨ha.1, h0⟩
    have h1' : f b ∉ f b' :: s1 := by
      rw [List.mem_cons, not_or]; exact ⟨hb.1, h1⟩
    rw [List.cons_append, parGo_cons]
    split
    · exact ih _ _ h0 h1 ha.2 hb.2
    · split
      · exact ih _ _ h0' h1 ha.2 hb.2
      · rw [List.mem_cons]; right
        exact ih _ _ h0' h1' ha.2 hb.2

end FirstOcc

/-! ### the seen-set (hash table) against a key list -/
section Seen
open PV.Table PV.Spec.Map PV.Lemmas.Table

def keys (m : M) : List Nat := m.map Prod.fst

theorem keys_nil : keys [] = [] := rfl
theorem keys_cons (e : Nat × Nat) (m : M) : keys (e :: m) = e.1 :: keys m := rfl

theorem lookup_eq_none_iff (m : M) (k : Nat) : lookup m k = none ↔ k ∉ keys m := by
  unfold lookup keys
  rw [List.find?_eq_none, List.mem_map]
  constructor
  · rintro h ⟨x, hx, hxk⟩
    exact h x hx (by simp [hxk])
  · intro h x hx hxk
    exact h ⟨x, hx, by simpa using hxk⟩

theorem mem_keys_of_lookup (m : M) (k : Nat) (e : Nat × Nat) (hl : lookup m k = some e) :
    k ∈ keys m := by
  apply Decidable.byContradiction
  intro hc
  rw [(lookup_eq_none_iff m k).2 hc] at hl
  cases hl

theorem lookup_isSome (m : M) (k : Nat) : (lookup m k).isSome = decide (k ∈ keys m) := by
  cases hl : lookup m k with
  | none => simp [(lookup_eq_none_iff m k).1 hl]
  | some e => simp [mem_keys_of_lookup m k e hl]

theorem foi_spec (t : Table) (m : M) (hi : Inv t) (ha : Abs t m) (k : Nat) (hk : k ≠ 0) :
    ∃ e t', findOrInsert t (k, 0) = some (decide (k ∈ keys m), e, t') ∧ Inv t' ∧
      Abs t' (if k ∈ keys m then m else (k, 0) :: m) := by
  obtain ⟨t', hs, hi', ha'⟩ := findOrInsert_spec t m hi ha k 0 hk
  simp only [PV.Table.step] at hs
  cases hf : findOrInsert t (k, 0) with
  | none => rw [hf] at hs; simp at hs
  | some r =>
    obtain ⟨f, e, t''⟩ := r
    rw [hf] at hs
    simp only [Option.map_some, Option.some.injEq, Prod.mk.injEq] at hs
    obtain ⟨h1, h2⟩ := hs
    subst h2
    have hsome := lookup_isSome m k
    cases hl : lookup m k with
    | none =>
      have hm : k ∉ keys m := (lookup_eq_none_iff m k).1 hl
      simp only [PV.Spec.Map.step, hl] at h1 ha'
      simp only [Ans.inserted.injEq] at h1
      refine ⟨e, t'', ?_, hi', ?_⟩
      · rw [h1.1]; simp [hm]
      · rw [if_neg hm]; exact ha'
    | some e' =>
      have hm : k ∈ keys m := mem_keys_of_lookup m k e' hl
      simp only [PV.Spec.Map.step, hl] at h1 ha'
      simp only [Ans.inserted.injEq] at h1
      refine ⟨e, t'', ?_, hi', ?_⟩
      · rw [h1.1]; simp [hm]
      · rw [if_pos hm]; exact ha'

theorem dedupeLoop_spec (key : Line → Nat) : ∀ (ls : List Line) (t : Table) (m : M),
    Inv t → Abs t m → (∀ l ∈ ls, key l ≠ 0) →
    dedupeLoop key t ls = some (firstOccGo key (keys m) ls) := by
  intro ls
  induction ls with
  | nil => intro t m _ _ _; simp [dedupeLoop, firstOccGo_nil]
  | cons l ls ih =>
    intro t m hi ha h0
    obtain ⟨e, t', hf, hi', ha'⟩ := foi_spec t m hi ha (key l) (h0 l (by simp))
    have h0' : ∀ l ∈ ls, key l ≠ 0 := fun x hx => h0 x (by simp [hx])
    have ih' := ih t' _ hi' ha' h0'
    simp only [dedupeLoop, hf, ih', firstOccGo_cons]
    by_cases hm : key l ∈ keys m
    · simp [hm]
    · simp [hm, keys_cons]

theorem dedupeParLoop_spec (key : Line → Nat) : ∀ (ps : List (Line × Line)) (t0 t1 : Table)
    (m0 m1 : M), Inv t0 → Abs t0 m0 → Inv t1 → Abs t1 m1 →
    (∀ p ∈ ps, key p.1 ≠ 0 ∧ key p.2 ≠ 0) →
    dedupeParLoop key t0 t1 ps = some (parGo key (keys m0) (keys m1) ps) := by
  intro ps
  induction ps with
  | nil => intro t0 t1 m0 m1 _ _ _ _ _; simp [dedupeParLoop, parGo_nil]
  | cons p ps ih =>
    intro t0 t1 m0 m1 hi0 ha0 hi1 ha1 h0
    obtain ⟨a, b⟩ := p
    have hab := h0 (a, b) (by simp)
    have h0' : ∀ p ∈ ps, key p.1 ≠ 0 ∧ key p.2 ≠ 0 := fun x hx => h0 x (by simp [hx])
    obtain ⟨e0, t0', hf0, hi0', ha0'⟩ := foi_spec t0 m0 hi0 ha0 (key a) hab.1
    rw [parGo_cons]
    by_cases hm0 : key a ∈ keys m0
    · rw [if_pos hm0] at ha0'
      simp only [dedupeParLoop, hf0, hm0, decide_true, if_true]
      exact ih t0' t1 m0 m1 hi0' ha0' hi1 ha1 h0'
    · rw [if_neg hm0] at ha0'
      obtain ⟨e1, t1', hf1, hi1', ha1'⟩ := foi_spec t1 m1 hi1 ha1 (key b) hab.2
      have ih' := ih t0' t1' _ _ hi0' ha0' hi1' ha1' h0'
      simp only [dedupeParLoop, hf0, hm0, decide_false, Bool.false_eq_true, if_false, hf1, ih']
      by_cases hm1 : key b ∈ keys m1
      · simp [hm1, keys_cons]
      · simp [hm1, keys_cons]

theorem loadSet_spec (key : Line → Nat) : ∀ (ls : List Line) (t : Table) (m : M),
    Inv t → Abs t m → (∀ l ∈ ls, key l ≠ 0) →
    ∃ t' m', loadSet key t ls = some t' ∧ Inv t' ∧ Abs t' m' ∧
      ∀ x, x ∈ keys m' ↔ (x ∈ keys m ∨ x ∈ ls.map key) := by
  intro ls
  induction ls with
  | nil => intro t m hi ha _; exact ⟨t, m, rfl, hi, ha, by simp⟩
  | cons l ls ih =>
    intro t m hi ha h0
    obtain ⟨e, t', hf, hi', ha'⟩ := foi_spec t m hi ha (key l) (h0 l (by simp))
    obtain ⟨t2, m2, h2, hi2, ha2, hk2⟩ := ih t' _ hi' ha' (fun x hx => h0 x (by simp [hx]))
    refine ⟨t2, m2, ?_, hi2, ha2, ?_⟩
    · simp only [loadSet, hf, h2]
    · intro x
      rw [hk2 x]
      by_cases hm : key l ∈ keys m
      · rw [if_pos hm]
        simp only [List.map_cons, List.mem_cons]
        constructor
        · rintro (h | h)
          · exact Or.inl h
          · exact Or.inr (Or.inr h)
        · rintro (h | h | h)
          · exact Or.inl h
          · rw [h]; exact Or.inl hm
          · exact Or.inr h
      · rw [if_neg hm]
        simp only [keys_cons, List.map_cons, List.mem_cons]
        constructor
        · rintro ((h | h) | h)
          · exact Or.inr (Or.inl h)
          · exact Or.inl h
          · exact Or.inr (Or.inr h)
        · rintro (h | h | h)
          · exact Or.inl (Or.inr h)
          · exact Or.inl (Or.inl h)
          · exact Or.inr h

theorem subtractLoop_spec (key : Line → Nat) (t : Table) (m : M) (hi : Inv t) (ha : Abs t m) :
    ∀ (ls : List Line), (∀ l ∈ ls, key l ≠ 0) →
    subtractLoop key t ls = some (ls.filter (fun l => decide (key l ∉ keys m))) := by
  intro ls
  induction ls with
  | nil => intro _; simp [subtractLoop]
  | cons l ls ih =>
    intro h0
    have hf := find_abs t m hi ha (key l) (h0 l (by simp))
    have ih' := ih (fun x hx => h0 x (by simp [hx]))
    simp only [subtractLoop, hf, ih', lookup_isSome, List.filter_cons]
    by_cases hm : key l ∈ keys m
    · simp [hm]
    · simp [hm]

/-- copy of `PV.Props.C18.ccSpecGo` (the property file's specification function). -/
def ccGo (key : Line → Nat) : List Nat → List Line → List Line
  | _, [] => []
  | seen, l :: ls =>
    let l := stripSpaces l
    if ccMagic.isPrefixOf l then ccGo key seen ls
    else if key l ∈ seen then ccGo key seen ls
    else if PV.Utf8.isUTF8 l then l :: ccGo key (key l :: seen) ls
    else ccGo key (key l :: seen) ls

theorem ccGo_nil (key : Line → Nat) (seen : List Nat) : ccGo key seen [] = [] := by
  simp [ccGo]

theorem ccGo_cons (key : Line → Nat) (seen : List Nat) (l : Line) (ls : List Line) :
    ccGo key seen (l :: ls) =
      if ccMagic.isPrefixOf (stripSpaces l) then ccGo key seen ls
      else if key (stripSpaces l) ∈ seen then ccGo key seen ls
      else if PV.Utf8.isUTF8 (stripSpaces l) then
        stripSpaces l :: ccGo key (key (stripSpaces l) :: seen) ls
      else ccGo key (key (stripSpaces l) :: seen) ls := by
  simp [ccGo]

theorem ccGo_congr (key : Line → Nat) : ∀ (ls : List Line) (s s' : List Nat),
    (∀ x, x ∈ s ↔ x ∈ s') → ccGo key s ls = ccGo key s' ls := by
  intro ls
  induction ls with
  | nil => intro s s' _; simp [ccGo_nil]
  | cons l ls ih =>
    intro s s' h
    have hc : ∀ k x, x ∈ k :: s ↔ x ∈ k :: s' := by
      intro k x; simp only [List.mem_cons, h x]
    rw [ccGo_cons, ccGo_cons, ih s s' h, ih _ _ (hc (key (stripSpaces l)))]
    simp only [h]

theorem ccLoop_spec (key : Line → Nat) : ∀ (ls : List Line) (t : Table) (m : M),
    Inv t → Abs t m → (∀ l ∈ ls, key (stripSpaces l) ≠ 0) →
    ccLoop key t ls = some (ccGo key (keys m) ls) := by
  intro ls
  induction ls with
  | nil => intro t m _ _ _; simp [ccLoop, ccGo_nil]
  | cons l ls ih =>
    intro t m hi ha h0
    have h0' : ∀ l ∈ ls, key (stripSpaces l) ≠ 0 := fun x hx => h0 x (by simp [hx])
    rw [ccGo_cons]
    by_cases hmag : ccMagic.isPrefixOf (stripSpaces l) = true
    · simp only [ccLoop, hmag, if_true]
      exact ih t m hi ha h0'
    · obtain ⟨e, t', hf, hi', ha'⟩ := foi_spec t m hi ha (key (stripSpaces l)) (h0 l (by simp))
      have ih' := ih t' _ hi' ha' h0'
      simp only [ccLoop, hmag, Bool.false_eq_true, if_false, hf, ih']
      by_cases hm : key (stripSpaces l) ∈ keys m
      · simp [hm]
      · by_cases hu : PV.Utf8.isUTF8 (stripSpaces l) = true
        · simp [hm, hu, keys_cons]
        · simp [hm, hu, keys_cons]

theorem foi_zero : ∃ e t', findOrInsert init (0, 0) = some (true, e, t') := by
  have hz : (findOrInsert init (0, 0)).map (fun r => r.1) = some true := by decide +kernel
  cases hf : findOrInsert init (0, 0) with
  | none => rw [hf] at hz; simp at hz
  | some r =>
    obtain ⟨f, e, t⟩ := r
    rw [hf] at hz
    simp only [Option.map_some, Option.some.injEq] at hz
    subst hz
    exact ⟨e, t, rfl⟩

theorem dedupe_zero (key : Line → Nat) (l : Line) (h : key l = 0) : dedupe key [l] = some [] := by
  obtain ⟨e, t', hf⟩ := foi_zero
  simp only [dedupe, dedupeLoop, h, hf, if_true]

theorem subtractLines_spec (key : Line → Nat) (sub ls : List Line)
    (h0 : ∀ l ∈ sub ++ ls, key l ≠ 0) :
    subtractLines key sub ls = some (ls.filter (fun l => decide (key l ∉ sub.map key))) := by
  obtain ⟨t, m, hl, hi, ha, hk⟩ := loadSet_spec key sub init [] init_inv init_abs
    (fun l hl => h0 l (by simp [hl]))
  unfold subtractLines
  rw [hl]
  simp only
  rw [subtractLoop_spec key t m hi ha ls (fun l hl => h0 l (by simp [hl]))]
  congr 1
  apply List.filter_congr
  intro x _
  simp only [hk (key x), keys_nil, List.not_mem_nil, false_or]

theorem mem_ccGo (key : Line → Nat) : ∀ (ls : List Line) (seen : List Nat) (x : Line),
    x ∈ ccGo key seen ls → PV.Utf8.isUTF8 x = true ∧ key x ∉ seen := by
  intro ls
  induction ls with
  | nil => intro seen x h; simp [ccGo_nil] at h
  | cons l ls ih =>
    intro seen x h
    rw [ccGo_cons] at h
    have hweak : ∀ x, x ∈ ccGo key (key (stripSpaces l) :: seen) ls →
        PV.Utf8.isUTF8 x = true ∧ key x ∉ seen := by
      intro x hx
      have := ih _ x hx
      exact ⟨this.1, fun h' => this.2 (by simp [h'])⟩
    split at h
    · exact ih _ x h
    · split at h
      · exact ih _ x h
      · rename_i hm
        split at h
        · rename_i hu
          rw [List.mem_cons] at h
          rcases h with h | h
          · subst h; exact ⟨hu, hm⟩
          · exact hweak x h
        · exact hweak x h

theorem ccGo_nodup (key : Line → Nat) : ∀ (ls : List Line) (seen : List Nat),
    ((ccGo key seen ls).map key).Nodup := by
  intro ls
  induction ls with
  | nil => intro seen; simp [ccGo_nil]
  | cons l ls ih =>
    intro seen
    rw [ccGo_cons]
    split
    · exact ih _
    · split
      · exact ih _
      · split
        · rw [List.map_cons, List.nodup_cons]
          refine ⟨?_, ih _⟩
          intro hmem
          obtain ⟨x, hx, hfx⟩ := List.mem_map.1 hmem
          apply (mem_ccGo key ls _ x hx).2
          rw [hfx]; simp
        · exact ih _

theorem ccdedupe_ccGo (key : Line → Nat) (remove ls : List Line)
    (h0 : ∀ l ∈ remove ++ ls, key (stripSpaces l) ≠ 0) :
    commoncrawlDedupe key remove ls =
      some (ccGo key ((remove.map (fun l => key (stripSpaces l))).reverse) ls) := by
  obtain ⟨t, m, hl, hi, ha, hk⟩ := loadSet_spec key (remove.map stripSpaces) init [] init_inv
    init_abs (by
      intro l hl
      obtain ⟨x, hx, hxl⟩ := List.mem_map.1 hl
      rw [← hxl]
      exact h0 x (by simp [hx]))
  unfold commoncrawlDedupe
  rw [hl]
  simp only
  rw [ccLoop_spec key ls t m hi ha (fun l hl => h0 l (by simp [hl]))]
  congr 1
  apply ccGo_congr
  intro x
  rw [hk x]
  simp [keys_nil]

end Seen

/-! ### shard -/
section Shard
variable {α : Type}

theorem filter_lt_succ_perm (g : α → Nat) (n : Nat) : ∀ ls : List α,
    (ls.filter (fun l => decide (g l < n)) ++ ls.filter (fun l => g l == n)).Perm
      (ls.filter (fun l => decide (g l < n + 1))) := by
  intro ls
  induction ls with
  | nil => simp
  | cons l ls ih =>
    simp only [List.filter_cons]
    by_cases h1 : g l < n
    · have e1 : decide (g l < n) = true := by simpa using h1
      have e2 : (g l == n) = false := by simp; omega
      have e3 : decide (g l < n + 1) = true := by simp; omega
      rw [e1, e2, e3]
      simp only [if_true, Bool.false_eq_true, if_false, List.cons_append]
      exact ih.cons l
    · by_cases h2 : g l = n
      · have e1 : decide (g l < n) = false := by simpa using h1
        have e2 : (g l == n) = true := by simpa using h2
        have e3 : decide (g l < n + 1) = true := by simp; omega
        rw [e1, e2, e3]
        simp only [if_true, Bool.false_eq_true, if_false]
        exact List.perm_middle.trans (ih.cons l)
      · have e1 : decide (g l < n) = false := by simpa using h1
        have e2 : (g l == n) = false := by simpa using h2
        have e3 : decide (g l < n + 1) = false := by simp; omega
        rw [e1, e2, e3]
        simp only [Bool.false_eq_true, if_false]
        exact ih

theorem flatten_range_filter_perm (g : α → Nat) (ls : List α) : ∀ n : Nat,
    (((List.range n).map (fun i => ls.filter (fun l => g l == i))).flatten).Perm
      (ls.filter (fun l => decide (g l < n))) := by
  intro n
  induction n with
  | zero => simp
  | succ n ih =>
    rw [List.range_succ, List.map_append, List.flatten_append]
    simp only [List.map_cons, List.map_nil, List.flatten_cons, List.flatten_nil, List.append_nil]
    exact (ih.append_right _).trans (filter_lt_succ_perm g n ls)

theorem shard_flatten_perm (key : Line → Nat) (n : Nat) (hn : 0 < n) (ls : List Line) :
    (shard key n ls).flatten.Perm ls := by
  have h := flatten_range_filter_perm (fun l => key l % n) ls n
  have hall : ls.filter (fun l => decide (key l % n < n)) = ls := by
    rw [List.filter_eq_self]
    intro l _
    simp [Nat.mod_lt _ hn]
  rw [hall] at h
  exact h

theorem shard_firstOcc (key : Line → Nat) (n : Nat) (ls : List Line) :
    (shard key n ls).map (firstOccBy key) = shard key n (firstOccBy key ls) := by
  unfold shard
  rw [List.map_map]
  apply List.map_congr_left
  intro i _
  simp only [Function.comp, shardFile, firstOccBy]
  exact firstOccGo_filter key (fun k => k % n == i) ls []

end Shard

/-! ### stateless filters -/
section Filters

theorem isUTF8_iff (bs : List UInt8) :
    PV.Utf8.isUTF8 bs = true ↔ PV.Spec.Utf8.WellFormed bs := by
  unfold PV.Utf8.isUTF8 PV.Spec.Utf8.WellFormed
  rw [Option.isSome_iff_exists]
  exact exists_congr fun cs =>
    PV.Lemmas.Utf8.decodeAllFuel_iff bs.length bs cs (Nat.le_refl _)

theorem b64_nil : removeInvalidUtf8Base64 [] = some [] := by
  simp [removeInvalidUtf8Base64]

theorem b64_cons (l : Line) (ls : List Line) :
    removeInvalidUtf8Base64 (l :: ls) =
      match PV.Base64.decode l, removeInvalidUtf8Base64 ls with
      | .ok d, some rest =>
        some ((if PV.Utf8.isUTF8 d then l else PV.Base64.encode []) :: rest)
      | _, _ => none := by
  rw [removeInvalidUtf8Base64]
  rfl

theorem b64_append (a b : List Line) :
    removeInvalidUtf8Base64 (a ++ b) =
      (match removeInvalidUtf8Base64 a, removeInvalidUtf8Base64 b with
       | some x, some y => some (x ++ y)
       | _, _ => none) := by
  induction a with
  | nil =>
    rw [List.nil_append, b64_nil]
    cases removeInvalidUtf8Base64 b <;> simp
  | cons l a ih =>
    rw [List.cons_append, b64_cons, b64_cons, ih]
    cases PV.Base64.decode l <;> cases removeInvalidUtf8Base64 a <;>
      cases removeInvalidUtf8Base64 b <;> simp

theorem b64_linewise : ∀ (ls out : List Line), removeInvalidUtf8Base64 ls = some out →
    out.length = ls.length ∧ ∀ i (hi : i < ls.length) (ho : i < out.length),
      out[i] = ls[i] ∨ out[i] = PV.Base64.encode [] := by
  intro ls
  induction ls with
  | nil =>
    intro out h
    rw [b64_nil] at h
    injection h with h
    subst h
    exact ⟨rfl, fun i hi => absurd hi (by simp)⟩
  | cons l ls ih =>
    intro out h
    rw [b64_cons] at h
    cases hd : PV.Base64.decode l with
    | ok d =>
      cases hr : removeInvalidUtf8Base64 ls with
      | none => rw [hd, hr] at h; simp at h
      | some rest =>
        rw [hd, hr] at h
        simp only [Option.some.injEq] at h
        subst h
        obtain ⟨hlen, hidx⟩ := ih rest hr
        refine ⟨by simp [hlen], ?_⟩
        intro i hi ho
        cases i with
        | zero =>
          simp only [List.getElem_cons_zero]
          by_cases hu : PV.Utf8.isUTF8 d = true
          · left; simp [hu]
          · right; simp [hu]
        | succ i =>
          simp only [List.getElem_cons_succ]
          exact hidx i (by simpa using hi) (by simpa using ho)
    | notB64 => rw [hd] at h; simp at h
    | length => rw [hd] at h; simp at h

end Filters

/-! ### shard file names -/
section Names

theorem padLeft_toList (w i : Nat) :
    (padLeft w (toString i)).toList =
      List.replicate (w - (toString i).length) '0' ++ Nat.toDigits 10 i := by
  simp [padLeft, String.toList_append]

theorem padLeft_decode (w i : Nat) :
    Nat.ofDigitChars 10 (padLeft w (toString i)).toList 0 = i := by
  rw [padLeft_toList, Nat.ofDigitChars_append]
  simp

theorem shardName_inj (pfx : String) (w i j : Nat)
    (h : pfx ++ padLeft w (toString i) = pfx ++ padLeft w (toString j)) : i = j := by
  have h1 := congrArg String.toList h
  rw [String.toList_append, String.toList_append] at h1
  have h2 := List.append_cancel_left h1
  have h3 := congrArg (fun cs => Nat.ofDigitChars 10 cs 0) h2
  simp only [padLeft_decode] at h3
  exact h3

theorem shardNames_nodup (pfx : String) (n : Nat) : (shardNames pfx n).Nodup := by
  unfold shardNames
  simp only
  rw [List.Nodup, List.pairwise_map]
  apply List.Pairwise.imp _ (List.pairwise_lt_range)
  intro i j hij h
  have := shardName_inj pfx _ i j h
  omega

end Names

end PV.Lemmas.Tools
