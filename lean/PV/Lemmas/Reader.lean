import PV.Model.Reader
import PV.Spec.Records
namespace PV.Lemmas.Reader
open PV.Reader PV.Spec.Records

/-! ## the specification `splitRecords` -/

theorem splitGo_lossless (delim : UInt8) (bs : List UInt8) : ∀ cur : List UInt8,
    (splitGo delim false (bs ++ [delim]) cur).flatMap (· ++ [delim]) = cur.reverse ++ bs ++ [delim] := by
  induction bs with
  | nil =>
    intro cur
    simp [splitGo, stripOneCr]
  | cons b r ih =>
    intro cur
    by_cases hb : b = delim
    · subst hb
      have := ih []
      simp only [List.reverse_nil, List.nil_append] at this
      simp [splitGo, stripOneCr, this]
    · have hb' : (b == delim) = false := by simpa using hb
      simp only [List.cons_append, splitGo, hb', Bool.false_eq_true, if_false]
      rw [ih (b :: cur)]
      simp

theorem splitGo_delim (delim : UInt8) (stripCr : Bool) (pre post : List UInt8)
    (hpre : ∀ b ∈ pre, b ≠ delim) : ∀ cur : List UInt8,
    splitGo delim stripCr (pre ++ delim :: post) cur
      = stripOneCr stripCr (cur.reverse ++ pre) :: splitGo delim stripCr post [] := by
  induction pre with
  | nil => intro cur; simp [splitGo]
  | cons b r ih =>
    intro cur
    have hb : (b == delim) = false := by simpa using hpre b (by simp)
    simp only [List.cons_append, splitGo, hb, Bool.false_eq_true, if_false]
    rw [ih (fun x hx => hpre x (by simp [hx])) (b :: cur)]
    simp

theorem splitGo_nodelim (delim : UInt8) (stripCr : Bool) (pre : List UInt8)
    (hpre : ∀ b ∈ pre, b ≠ delim) : ∀ cur : List UInt8, cur.reverse ++ pre ≠ [] →
    splitGo delim stripCr pre cur = [cur.reverse ++ pre] := by
  induction pre with
  | nil => intro cur h; simp at h; simp [splitGo, h]
  | cons b r ih =>
    intro cur _
    have hb : (b == delim) = false := by simpa using hpre b (by simp)
    simp only [splitGo, hb, Bool.false_eq_true, if_false]
    rw [ih (fun x hx => hpre x (by simp [hx])) (b :: cur) (by simp)]
    simp

theorem splitRecords_nil (delim : UInt8) (stripCr : Bool) : splitRecords delim stripCr [] = [] := by
  simp [splitRecords, splitGo]

theorem splitRecords_delim (delim : UInt8) (stripCr : Bool) (pre post : List UInt8)
    (hpre : ∀ b ∈ pre, b ≠ delim) :
    splitRecords delim stripCr (pre ++ delim :: post)
      = stripOneCr stripCr pre :: splitRecords delim stripCr post := by
  simpa [splitRecords] using splitGo_delim delim stripCr pre post hpre []

theorem splitRecords_nodelim (delim : UInt8) (stripCr : Bool) (pre : List UInt8)
    (hpre : ∀ b ∈ pre, b ≠ delim) (hne : pre ≠ []) :
    splitRecords delim stripCr pre = [pre] := by
  simpa [splitRecords] using splitGo_nodelim delim stripCr pre hpre [] (by simpa using hne)

/-- the model's `subtractCr` computation agrees with `stripOneCr`. -/
theorem stripOneCr_take (stripCr : Bool) (u : List UInt8) (k : Nat) (hk : k ≤ u.length) :
    stripOneCr stripCr (u.take k)
      = u.take (k - (if stripCr && decide (k > 0) && u.getD (k - 1) 0 == 13 then 1 else 0)) := by
  cases k with
  | zero => simp [stripOneCr]
  | succ j =>
    have hj : j < u.length := hk
    have h1 : (u.take (j+1)).getLast? = some (u.getD j 0) := by
      rw [List.getLast?_take]
      simp [hj]
    have h2 : (u.take (j+1)).dropLast = u.take j := by
      rw [List.dropLast_eq_take, List.take_take, List.length_take]
      congr 1; omega
    unfold stripOneCr
    rw [h1, h2]
    simp
    split <;> simp_all

/-! ## `takeWhile` facts (std::find) -/

theorem tw_skip (d : UInt8) (u : List UInt8) (skip : Nat)
    (h : ∀ b ∈ u.take skip, b ≠ d) (hs : skip ≤ u.length) :
    skip + ((u.drop skip).takeWhile (· != d)).length = (u.takeWhile (· != d)).length := by
  conv => rhs; rw [← List.take_append_drop skip u]
  rw [List.takeWhile_append_of_pos (by simpa using h)]
  simp [List.length_take, Nat.min_eq_left hs]

theorem tw_split (d : UInt8) : ∀ u : List UInt8, (u.takeWhile (· != d)).length < u.length →
    u = u.takeWhile (· != d) ++ d :: u.drop ((u.takeWhile (· != d)).length + 1) := by
  intro u
  induction u with
  | nil => simp
  | cons b r ih =>
    intro h
    by_cases hb : b = d
    · subst hb; simp
    · have hb' : (b != d) = true := by simpa using hb
      simp only [List.takeWhile_cons, hb', if_true, List.length_cons, Nat.add_lt_add_iff_right] at h ⊢
      simp only [List.cons_append, List.drop_succ_cons]
      congr 1
      exact ih h

theorem tw_mem (d : UInt8) (u : List UInt8) : ∀ b ∈ u.takeWhile (· != d), b ≠ d := by
  intro b hb
  have h := List.all_takeWhile (l := u) (p := (· != d))
  rw [List.all_eq_true] at h
  simpa using h b hb

theorem tw_all (d : UInt8) (u : List UInt8) (h : ¬ (u.takeWhile (· != d)).length < u.length) :
    u.takeWhile (· != d) = u := by
  have hp : u.takeWhile (· != d) <+: u := List.takeWhile_prefix _
  exact hp.eq_of_length_le (by omega)

/-! ## `readLine` over an abstract backing -/

theorem readLine_succ {σ : Type} (B : Backing σ) (delim : UInt8) (stripCr : Bool) (fuel skip : Nat) (s : σ) :
  readLine B delim stripCr (fuel+1) skip s =
    (let buf := B.buf s
     let pos := B.pos s
     let i := pos + skip + ((buf.drop (pos + skip)).takeWhile (· != delim)).length
     if i < buf.length then
      .line ((buf.take (i - (if stripCr && i > pos && buf.getD (i - 1) 0 == 13 then 1 else 0))).drop pos) (B.setPos s (i + 1))
    else if B.atEnd s then
      if pos == buf.length then .eof s else .line (buf.drop pos) (B.setPos s buf.length)
    else readLine B delim stripCr fuel (buf.length - pos) (B.shift s)) := rfl

theorem readLine_eval {σ : Type} (B : Backing σ) (delim : UInt8) (stripCr : Bool) (fuel skip : Nat) (s : σ)
    (hpos : B.pos s ≤ (B.buf s).length)
    (hskip : skip ≤ ((B.buf s).drop (B.pos s)).length)
    (hno : ∀ b ∈ ((B.buf s).drop (B.pos s)).take skip, b ≠ delim) :
    readLine B delim stripCr (fuel+1) skip s =
      (let u := (B.buf s).drop (B.pos s)
       let k := (u.takeWhile (· != delim)).length
       if k < u.length then .line (stripOneCr stripCr (u.take k)) (B.setPos s (B.pos s + k + 1))
       else if B.atEnd s then
         if u = [] then .eof s else .line u (B.setPos s (B.buf s).length)
       else readLine B delim stripCr fuel u.length (B.shift s)) := by
  rw [readLine_succ]
  simp only []
  have hi := tw_skip delim _ skip hno hskip
  rw [List.drop_drop] at hi
  generalize hu : (B.buf s).drop (B.pos s) = u at *
  generalize hk : (u.takeWhile (· != delim)).length = k at *
  have hul : u.length = (B.buf s).length - B.pos s := by rw [← hu]; simp
  rw [Nat.add_assoc, hi]
  by_cases hlt : k < u.length
  · have hlt' : B.pos s + k < (B.buf s).length := by omega
    rw [if_pos hlt, if_pos hlt']
    congr 1
    rw [stripOneCr_take _ _ _ (by omega), List.drop_take, hu]
    congr 1
    by_cases hk0 : k = 0
    · subst hk0; simp
    · have h1 : decide (B.pos s + k > B.pos s) = decide (k > 0) := by
        simp
      have h2 : (B.buf s).getD (B.pos s + k - 1) 0 = u.getD (k - 1) 0 := by
        rw [← hu]
        simp only [List.getD_eq_getElem?_getD, List.getElem?_drop]
        congr 2; omega
      rw [h1, h2]
      split <;> omega
  · have hlt' : ¬ B.pos s + k < (B.buf s).length := by omega
    rw [if_neg hlt, if_neg hlt']
    cases hE : B.atEnd s
    · simp [hul]
    · simp only [if_true]
      by_cases hu0 : u = []
      · have : B.pos s = (B.buf s).length := by
          have := List.length_eq_zero_iff.mpr hu0; omega
        simp [hu0, this]
      · have : B.pos s ≠ (B.buf s).length := by
          intro h; apply hu0; apply List.length_eq_zero_iff.mp; omega
        simp [hu0, this]


/-- "stream view" of a backing: an invariant, the unread stream `rest` (unread part of the window
    followed by everything the source will still deliver) and a progress measure for `Shift`. -/
structure Sys {σ : Type} (B : Backing σ) where
  Inv : σ → Prop
  rest : σ → List UInt8
  mu : σ → Nat
  pos_le : ∀ s, Inv s → B.pos s ≤ (B.buf s).length
  pfx : ∀ s, Inv s → (B.buf s).drop (B.pos s) <+: rest s
  atEnd_rest : ∀ s, Inv s → B.atEnd s = true → rest s = (B.buf s).drop (B.pos s)
  shift : ∀ s, Inv s → B.atEnd s = false →
     Inv (B.shift s) ∧ rest (B.shift s) = rest s ∧
     (B.buf s).drop (B.pos s) <+: (B.buf (B.shift s)).drop (B.pos (B.shift s)) ∧
     mu (B.shift s) < mu s
  setPos : ∀ s p, Inv s → B.pos s ≤ p → p ≤ (B.buf s).length →
     Inv (B.setPos s p) ∧ rest (B.setPos s p) = (rest s).drop (p - B.pos s) ∧
     B.buf (B.setPos s p) = B.buf s ∧ B.pos (B.setPos s p) = p ∧
     B.atEnd (B.setPos s p) = B.atEnd s ∧ mu (B.setPos s p) = mu s

/-- what one `ReadLine` call must deliver from state `s`. -/
def Post {σ : Type} {B : Backing σ} (S : Sys B) (delim : UInt8) (stripCr : Bool) (s : σ) : LineRes σ → Prop
  | .diverged => False
  | .eof s' => S.rest s = [] ∧ S.Inv s' ∧ B.atEnd s' = true ∧ B.pos s' = (B.buf s').length ∧ S.mu s' ≤ S.mu s
  | .line l s' => S.Inv s' ∧ S.mu s' ≤ S.mu s ∧
      splitRecords delim stripCr (S.rest s) = l :: splitRecords delim stripCr (S.rest s') ∧
      (S.rest s').length < (S.rest s).length

theorem Post_shift {σ : Type} {B : Backing σ} (S : Sys B) (delim : UInt8) (stripCr : Bool) (s s' : σ)
    (hr : S.rest s' = S.rest s) (hm : S.mu s' ≤ S.mu s) (r : LineRes σ)
    (h : Post S delim stripCr s' r) : Post S delim stripCr s r := by
  cases r with
  | diverged => exact h
  | eof t =>
    obtain ⟨h1, h2, h3, h4, h5⟩ := h
    exact ⟨by rw [← hr]; exact h1, h2, h3, h4, by omega⟩
  | line l t =>
    obtain ⟨h1, h2, h3, h4⟩ := h
    exact ⟨h1, by omega, by rw [← hr]; exact h3, by rw [← hr]; exact h4⟩

theorem readLine_post {σ : Type} {B : Backing σ} (S : Sys B) (delim : UInt8) (stripCr : Bool) :
    ∀ (fuel skip : Nat) (s : σ), S.Inv s →
      skip ≤ ((B.buf s).drop (B.pos s)).length →
      (∀ b ∈ ((B.buf s).drop (B.pos s)).take skip, b ≠ delim) →
      S.mu s < fuel →
      Post S delim stripCr s (readLine B delim stripCr fuel skip s) := by
  intro fuel
  induction fuel with
  | zero => intro skip s _ _ _ h; omega
  | succ fuel ih =>
    intro skip s hI hskip hno hmu
    have hpos := S.pos_le s hI
    rw [readLine_eval B delim stripCr fuel skip s hpos hskip hno]
    simp only []
    obtain ⟨fut, hfut⟩ := S.pfx s hI
    generalize hu : (B.buf s).drop (B.pos s) = u at *
    have hul : u.length = (B.buf s).length - B.pos s := by rw [← hu]; simp
    by_cases hlt : (u.takeWhile (· != delim)).length < u.length
    · rw [if_pos hlt]
      have hsp := tw_split delim u hlt
      generalize hk : (u.takeWhile (· != delim)).length = k at *
      have hpre : u.takeWhile (· != delim) = u.take k := by
        conv => rhs; rw [hsp]
        rw [List.take_left' hk]
      obtain ⟨s1, s2, s3, s4, s5, s6⟩ := S.setPos s (B.pos s + k + 1) hI (by omega) (by omega)
      have hk1 : B.pos s + k + 1 - B.pos s = k + 1 := by omega
      rw [hk1] at s2
      have hrest : S.rest s = u.take k ++ delim :: (u.drop (k+1) ++ fut) := by
        rw [← hfut]; conv => lhs; rw [hsp, hpre]
        simp
      have hrest' : (S.rest s).drop (k+1) = u.drop (k+1) ++ fut := by
        rw [← hfut, List.drop_append_of_le_length (by omega)]
      refine ⟨s1, by omega, ?_, ?_⟩
      · rw [s2, hrest', hrest]
        exact splitRecords_delim delim stripCr _ _ (by rw [← hpre]; exact tw_mem delim u)
      · rw [s2, List.length_drop]
        have : (S.rest s).length = u.length + fut.length := by rw [← hfut]; simp
        omega
    · rw [if_neg hlt]
      have hall := tw_all delim u hlt
      have hnod : ∀ b ∈ u, b ≠ delim := by rw [← hall]; exact tw_mem delim u
      cases hE : B.atEnd s
      · simp only [Bool.false_eq_true, if_false]
        obtain ⟨h1, h2, h3, h4⟩ := S.shift s hI hE
        rw [hu] at h3
        apply Post_shift S delim stripCr s (B.shift s) h2 (by omega)
        obtain ⟨ex, hex⟩ := h3
        apply ih
        · exact h1
        · rw [← hex]; simp
        · rw [← hex, List.take_left]; exact hnod
        · omega
      · simp only [if_true]
        have hru : S.rest s = u := by rw [S.atEnd_rest s hI hE, hu]
        by_cases hu0 : u = []
        · rw [if_pos hu0]
          refine ⟨by rw [hru, hu0], hI, hE, ?_, Nat.le_refl _⟩
          have := List.length_eq_zero_iff.mpr hu0; omega
        · rw [if_neg hu0]
          obtain ⟨s1, s2, s3, s4, s5, s6⟩ := S.setPos s (B.buf s).length hI hpos (Nat.le_refl _)
          have hr' : S.rest (B.setPos s (B.buf s).length) = [] := by
            rw [s2, hru, ← hul]; simp
          refine ⟨s1, by omega, ?_, ?_⟩
          · rw [hr', hru, splitRecords_nil]
            exact splitRecords_nodelim delim stripCr u hnod hu0
          · rw [hr', hru]
            exact List.length_pos_iff.mpr hu0


theorem readAll_post {σ : Type} {B : Backing σ} (S : Sys B) (delim : UInt8) (stripCr : Bool) (shiftFuel : Nat) :
    ∀ (fuel : Nat) (s : σ), S.Inv s → S.mu s < shiftFuel → (S.rest s).length < fuel →
      ∃ s', readAll B delim stripCr shiftFuel fuel s = some (splitRecords delim stripCr (S.rest s), s') ∧
        S.Inv s' ∧ B.atEnd s' = true ∧ B.pos s' = (B.buf s').length := by
  intro fuel
  induction fuel with
  | zero => intro s _ _ h; omega
  | succ fuel ih =>
    intro s hI hmu hlen
    have hp := readLine_post S delim stripCr shiftFuel 0 s hI (Nat.zero_le _) (by simp) hmu
    rw [readAll]
    cases hr : readLine B delim stripCr shiftFuel 0 s with
    | diverged => rw [hr] at hp; exact hp.elim
    | eof t =>
      rw [hr] at hp
      obtain ⟨h1, h2, h3, h4, _⟩ := hp
      exact ⟨t, by simp [h1, splitRecords_nil], h2, h3, h4⟩
    | line l t =>
      rw [hr] at hp
      obtain ⟨h1, h2, h3, h4⟩ := hp
      obtain ⟨s', e1, e2, e3, e4⟩ := ih t h1 (by omega) (by omega)
      exact ⟨s', by simp [e1, h3], e2, e3, e4⟩

theorem readLine_at_eof {σ : Type} (B : Backing σ) (delim : UInt8) (stripCr : Bool) (fuel : Nat) (s : σ)
    (hE : B.atEnd s = true) (hp : B.pos s = (B.buf s).length) :
    readLine B delim stripCr (fuel + 1) 0 s = .eof s := by
  rw [readLine_succ]
  simp [hp, hE]


/-! ## read mode -/

def want (amount : Nat) (sched : List Nat) : Nat :=
  match sched with
  | [] => amount
  | n :: _ => max 1 (min n amount)

theorem osRead_eq (amount : Nat) (src : List UInt8) (sched : List Nat) :
    osRead amount src sched = (src.take (want amount sched), src.drop (want amount sched), sched.tail) := rfl

theorem want_pos (amount : Nat) (sched : List Nat) (h : 0 < amount) : 0 < want amount sched := by
  unfold want; split <;> omega

theorem want_le (amount : Nat) (sched : List Nat) (h : 0 < amount) : want amount sched ≤ amount := by
  unfold want; split <;> omega

/-- the state after `ReadShift`, given what the buffer looks like after the reset / memmove /
    doubling step. -/
def afterRead (buf : List UInt8) (pos cap : Nat) (s : RState) : RState :=
  let w := want (cap - buf.length) s.sched
  { buf := buf ++ s.src.take w, pos := pos, cap := cap, atEnd := (s.src.take w).isEmpty,
    src := s.src.drop w, sched := s.sched.tail }

theorem readShift_reset (s : RState) (h : s.pos = s.buf.length) (hc : 0 < s.cap) :
    readShift s = afterRead [] 0 s.cap s := by
  have : ¬ (0 = s.cap) := by omega
  simp [readShift, h, osRead_eq, afterRead, this]

theorem readShift_double (s : RState) (h : s.pos ≠ s.buf.length) (h1 : s.buf.length = s.cap) (h2 : s.pos = 0) :
    readShift s = afterRead s.buf 0 (s.cap * 2) s := by
  have : ¬ (0 = s.cap) := by omega
  simp [readShift, osRead_eq, afterRead, h1, h2, this]

theorem readShift_move (s : RState) (h : s.pos ≠ s.buf.length) (h1 : s.buf.length = s.cap) (h2 : s.pos ≠ 0) :
    readShift s = afterRead (s.buf.drop s.pos) 0 s.cap s := by
  have : ¬ (s.pos = s.cap) := by omega
  simp [readShift, osRead_eq, afterRead, h1, h2, this]

theorem readShift_plain (s : RState) (h : s.pos ≠ s.buf.length) (h1 : s.buf.length ≠ s.cap) :
    readShift s = afterRead s.buf s.pos s.cap s := by
  simp [readShift, osRead_eq, afterRead, h1, h]


def RInv (s : RState) : Prop :=
  s.pos ≤ s.buf.length ∧ s.buf.length ≤ s.cap ∧ 0 < s.cap ∧ (s.atEnd = true → s.src = [])

def rrest (s : RState) : List UInt8 := s.buf.drop s.pos ++ s.src

def rmu (s : RState) : Nat := if s.atEnd then 0 else s.src.length + 1

theorem readShift_cases (s : RState) (hI : RInv s) :
    ∃ buf pos cap, readShift s = afterRead buf pos cap s ∧ buf.drop pos = s.buf.drop s.pos ∧
      pos ≤ buf.length ∧ buf.length < cap := by
  obtain ⟨h1, h2, h3, _⟩ := hI
  by_cases hp : s.pos = s.buf.length
  · exact ⟨[], 0, s.cap, readShift_reset s hp h3, by simp [hp], by simp, by simpa using h3⟩
  · by_cases hc : s.buf.length = s.cap
    · by_cases h0 : s.pos = 0
      · exact ⟨s.buf, 0, s.cap * 2, readShift_double s hp hc h0, by simp [h0], by simp, by omega⟩
      · exact ⟨s.buf.drop s.pos, 0, s.cap, readShift_move s hp hc h0, by simp, by simp,
          by simp; omega⟩
    · exact ⟨s.buf, s.pos, s.cap, readShift_plain s hp hc, rfl, h1, by omega⟩

theorem take_eq_nil_of_pos (l : List UInt8) (w : Nat) (hw : 0 < w) (h : l.take w = []) : l = [] := by
  cases l with
  | nil => rfl
  | cons a t => cases w with
    | zero => omega
    | succ n => simp at h

theorem afterRead_facts (buf : List UInt8) (pos cap : Nat) (s : RState)
    (hp : pos ≤ buf.length) (hc : buf.length < cap) (hE : s.atEnd = false) :
    RInv (afterRead buf pos cap s) ∧
    rrest (afterRead buf pos cap s) = buf.drop pos ++ s.src ∧
    buf.drop pos <+: (afterRead buf pos cap s).buf.drop (afterRead buf pos cap s).pos ∧
    rmu (afterRead buf pos cap s) < rmu s := by
  have hw := want_pos (cap - buf.length) s.sched (by omega)
  have hw' := want_le (cap - buf.length) s.sched (by omega)
  generalize hwd : want (cap - buf.length) s.sched = w at *
  have hnil : s.src.take w = [] → s.src = [] := take_eq_nil_of_pos _ _ hw
  refine ⟨⟨?_, ?_, ?_, ?_⟩, ?_, ?_, ?_⟩
  · simp only [afterRead, hwd, List.length_append]; omega
  · simp only [afterRead, hwd, List.length_append, List.length_take]; omega
  · simp only [afterRead]; omega
  · simp only [afterRead, hwd, List.isEmpty_iff]
    intro h; rw [hnil h]; simp
  · simp only [rrest, afterRead, hwd]
    rw [List.drop_append_of_le_length hp, List.append_assoc, List.take_append_drop]
  · simp only [afterRead, hwd]
    rw [List.drop_append_of_le_length hp]
    exact List.prefix_append _ _
  · simp only [rmu, afterRead, hwd, hE, List.isEmpty_iff]
    by_cases h : s.src.take w = []
    · simp [h]
    · have hne : s.src ≠ [] := by intro h'; apply h; simp [h']
      have := List.length_pos_iff.mpr hne
      simp only [h, Bool.false_eq_true, if_false, List.length_drop]
      simp; omega

def readSys : Sys readBacking where
  Inv := RInv
  rest := rrest
  mu := rmu
  pos_le := fun s h => h.1
  pfx := fun s _ => List.prefix_append _ _
  atEnd_rest := fun s h hE => by
    have : s.src = [] := h.2.2.2 hE
    simp [rrest, this, readBacking]
  shift := fun s h hE => by
    obtain ⟨buf, pos, cap, e, hd, hp, hc⟩ := readShift_cases s h
    obtain ⟨f1, f2, f3, f4⟩ := afterRead_facts buf pos cap s hp hc hE
    show RInv (readShift s) ∧ rrest (readShift s) = rrest s ∧
      s.buf.drop s.pos <+: (readShift s).buf.drop (readShift s).pos ∧ rmu (readShift s) < rmu s
    rw [e]
    exact ⟨f1, by rw [f2, hd]; rfl, by rw [← hd]; exact f3, f4⟩
  setPos := fun s p h h1 h2 => by
    obtain ⟨i1, i2, i3, i4⟩ := h
    refine ⟨⟨h2, i2, i3, i4⟩, ?_, rfl, rfl, rfl, rfl⟩
    show List.drop p s.buf ++ s.src = (List.drop s.pos s.buf ++ s.src).drop (p - s.pos)
    have h1' : s.pos ≤ p := h1
    have h2' : p ≤ s.buf.length := h2
    rw [List.drop_append_of_le_length (by simp; omega), List.drop_drop]
    congr 2; omega


theorem initRead_facts (cap0 : Nat) (hcap : 0 < cap0) (src : List UInt8) (sched : List Nat) :
    RInv (initRead cap0 src sched) ∧ rrest (initRead cap0 src sched) = src ∧
    rmu (initRead cap0 src sched) < src.length + 1 := by
  have hI : RInv { buf := [], pos := 0, cap := cap0, atEnd := false, src := src, sched := sched } :=
    ⟨by simp, by simp, hcap, by simp⟩
  obtain ⟨h1, h2, _, h4⟩ := readSys.shift _ hI rfl
  exact ⟨h1, h2, h4⟩

theorem readAll_read (delim : UInt8) (stripCr : Bool) (cap0 : Nat) (hcap : 0 < cap0)
    (src : List UInt8) (sched : List Nat) :
    ∃ s', readAll readBacking delim stripCr (src.length + 2) (src.length + 2) (initRead cap0 src sched)
        = some (splitRecords delim stripCr src, s') ∧
      s'.atEnd = true ∧ s'.pos = s'.buf.length := by
  obtain ⟨h1, h2, h3⟩ := initRead_facts cap0 hcap src sched
  obtain ⟨s', e, _, e3, e4⟩ := readAll_post readSys delim stripCr (src.length + 2) (src.length + 2)
    (initRead cap0 src sched) h1 (by show rmu _ < _; omega) (by show (rrest _).length < _; rw [h2]; omega)
  refine ⟨s', ?_, e3, e4⟩
  rw [e]; show some (splitRecords delim stripCr (rrest _), s') = _; rw [h2]

/-! ## mmap mode -/

theorem mmapShift_fields (s : MState) (cap' : Nat)
    (hcap : (if s.mapped && s.pos == (s.pos + s.mappedOff) % s.page then s.cap * 2 else s.cap) = cap') :
    (mmapShift s).file = s.file ∧ (mmapShift s).page = s.page ∧ (mmapShift s).cap = cap' ∧
    (mmapShift s).mappedOff = s.pos + s.mappedOff - (s.pos + s.mappedOff) % s.page ∧
    (mmapShift s).pos = (s.pos + s.mappedOff) % s.page ∧ (mmapShift s).mapped = true ∧
    ((cap' ≥ s.file.length - (s.pos + s.mappedOff - (s.pos + s.mappedOff) % s.page) ∧
        (mmapShift s).atEnd = true ∧
        (mmapShift s).winLen = s.file.length - (s.pos + s.mappedOff - (s.pos + s.mappedOff) % s.page)) ∨
     (cap' < s.file.length - (s.pos + s.mappedOff - (s.pos + s.mappedOff) % s.page) ∧
        (mmapShift s).atEnd = s.atEnd ∧ (mmapShift s).winLen = cap')) := by
  unfold mmapShift
  simp only []
  rw [hcap]
  generalize s.pos + s.mappedOff - (s.pos + s.mappedOff) % s.page = mo
  by_cases h : cap' ≥ s.file.length - mo
  · rw [if_pos h]; simp [h]
  · rw [if_neg h]; simp; omega


def MInv (s : MState) : Prop :=
  s.mapped = true ∧ 0 < s.page ∧ s.page ∣ s.mappedOff ∧ s.page ∣ s.cap ∧ 0 < s.cap ∧
  s.pos ≤ s.winLen ∧ s.mappedOff + s.winLen ≤ s.file.length ∧
  (s.atEnd = true → s.mappedOff + s.winLen = s.file.length) ∧
  (s.atEnd = false → s.winLen = s.cap ∧ s.mappedOff + s.cap < s.file.length)

def mrest (s : MState) : List UInt8 := s.file.drop (s.mappedOff + s.pos)

def mmu (s : MState) : Nat := if s.atEnd then 0 else s.file.length - (s.mappedOff + s.winLen) + 1

theorem window_drop (s : MState) (p : Nat) :
    s.window.drop p = (s.file.drop (s.mappedOff + p)).take (s.winLen - p) := by
  simp [MState.window, List.drop_take, List.drop_drop]

theorem window_length (s : MState) (h : s.mappedOff + s.winLen ≤ s.file.length) :
    s.window.length = s.winLen := by
  simp [MState.window]; omega

/-- arithmetic of the page rounding of `position_`. -/
theorem page_split (page pos off : Nat) (hp : 0 < page) (hd : page ∣ off) :
    ∃ m r, pos = m + r ∧ r < page ∧ (pos + off) % page = r ∧ page ∣ m ∧ (m = 0 ∨ page ≤ m) := by
  refine ⟨page * (pos / page), pos % page, (Nat.div_add_mod pos page).symm, Nat.mod_lt _ hp, ?_,
    Nat.dvd_mul_right _ _, ?_⟩
  · obtain ⟨q, rfl⟩ := hd
    exact Nat.add_mul_mod_self_left _ _ _
  · rcases Nat.eq_zero_or_pos (pos / page) with h | h
    · left; simp [h]
    · right; exact Nat.le_mul_of_pos_right _ h

theorem mmapShift_sys (s : MState) (hI : MInv s) (hE : s.atEnd = false) :
    MInv (mmapShift s) ∧ mrest (mmapShift s) = mrest s ∧
    s.window.drop s.pos <+: (mmapShift s).window.drop (mmapShift s).pos ∧
    mmu (mmapShift s) < mmu s := by
  obtain ⟨i1, i2, i3, i4, i5, i6, i7, i8, i9⟩ := hI
  obtain ⟨i9, i10⟩ := i9 hE
  obtain ⟨m, r, hpos, hr, hmod, hdm, hm⟩ := page_split s.page s.pos s.mappedOff i2 i3
  -- the new capacity
  obtain ⟨cap', hcap, hc1, hc2, hc3⟩ : ∃ cap',
      (if s.mapped && s.pos == (s.pos + s.mappedOff) % s.page then s.cap * 2 else s.cap) = cap' ∧
      s.page ∣ cap' ∧ (m = 0 → cap' = s.cap * 2) ∧ (s.page ≤ m → cap' = s.cap) := by
    refine ⟨_, rfl, ?_, ?_, ?_⟩
    · split
      · exact Nat.dvd_mul_right_of_dvd i4 2
      · exact i4
    · intro h; simp [i1, hmod]; omega
    · intro h
      have : ¬ (s.pos = r) := by omega
      simp [hmod, this]
  have hcpos : 0 < cap' := by
    rcases hm with h | h
    · rw [hc2 h]; omega
    · rw [hc3 h]; omega
  have hpc : s.page ≤ cap' := Nat.le_of_dvd hcpos hc1
  obtain ⟨f1, f2, f3, f4, f5, f6, f7⟩ := mmapShift_fields s cap' hcap
  rw [hmod] at f4 f5 f7
  have hmo : s.pos + s.mappedOff - r = s.mappedOff + m := by omega
  rw [hmo] at f4 f7
  have hdm' : s.page ∣ s.mappedOff + m := Nat.dvd_add i3 hdm
  refine ⟨⟨f6, by rw [f2]; exact i2, by rw [f2, f4]; exact hdm', by rw [f2, f3]; exact hc1,
    by rw [f3]; omega, ?_, ?_, ?_, ?_⟩, ?_, ?_, ?_⟩
  · rw [f5]; rcases f7 with ⟨_, _, h⟩ | ⟨_, _, h⟩ <;> rw [h] <;> omega
  · rw [f1, f4]; rcases f7 with ⟨_, _, h⟩ | ⟨_, _, h⟩ <;> rw [h] <;> omega
  · rw [f1, f4]; rcases f7 with ⟨_, _, h⟩ | ⟨_, h', h⟩
    · rw [h]; omega
    · rw [h', hE]; simp
  · rw [f1, f4, f3]; rcases f7 with ⟨_, h', h⟩ | ⟨_, _, h⟩
    · rw [h']; simp
    · rw [h]; intro _; omega
  · simp only [mrest, f1, f4, f5]; congr 1; omega
  · rw [window_drop, window_drop, f1, f4, f5]
    have : s.mappedOff + m + r = s.mappedOff + s.pos := by omega
    rw [this]
    apply List.take_prefix_take_left
    rcases f7 with ⟨_, _, h⟩ | ⟨_, _, h⟩ <;> rw [h]
    · omega
    · rcases hm with h0 | h0
      · rw [hc2 h0]; omega
      · rw [hc3 h0]; omega
  · simp only [mmu, hE, f1, f4]
    rcases f7 with ⟨_, h', h⟩ | ⟨_, h', h⟩
    · rw [h']; simp
    · rw [h', hE, h]
      simp only [Bool.false_eq_true, if_false]
      rcases hm with h0 | h0
      · rw [hc2 h0] at *; omega
      · rw [hc3 h0] at *; omega


def mmapSys : Sys mmapBacking where
  Inv := MInv
  rest := mrest
  mu := mmu
  pos_le := fun s h => by
    show s.pos ≤ s.window.length
    rw [window_length s h.2.2.2.2.2.2.1]; exact h.2.2.2.2.2.1
  pfx := fun s _ => by
    show s.window.drop s.pos <+: mrest s
    rw [window_drop]; exact List.take_prefix _ _
  atEnd_rest := fun s h hE => by
    show mrest s = s.window.drop s.pos
    rw [window_drop, mrest, List.take_of_length_le]
    have := h.2.2.2.2.2.2.2.1 hE
    simp; omega
  shift := fun s h hE => mmapShift_sys s h hE
  setPos := fun s p h h1 h2 => by
    obtain ⟨i1, i2, i3, i4, i5, i6, i7, i8, i9⟩ := h
    have h1' : s.pos ≤ p := h1
    have h2' : p ≤ s.window.length := h2
    rw [window_length s i7] at h2'
    refine ⟨⟨i1, i2, i3, i4, i5, h2', i7, i8, i9⟩, ?_, rfl, rfl, rfl, rfl⟩
    show s.file.drop (s.mappedOff + p) = (s.file.drop (s.mappedOff + s.pos)).drop (p - s.pos)
    rw [List.drop_drop]; congr 1; omega

theorem initMmap_facts (file : List UInt8) (page cap0 start : Nat)
    (hpage : 0 < page) (hcap : 0 < cap0) (hdvd : page ∣ cap0) (hstart : start ≤ file.length) :
    MInv (initMmap file page cap0 start) ∧ mrest (initMmap file page cap0 start) = file.drop start ∧
    mmu (initMmap file page cap0 start) < file.length + 2 := by
  obtain ⟨f1, f2, f3, f4, f5, f6, f7⟩ := mmapShift_fields
    { file := file, page := page, cap := cap0, mappedOff := start, winLen := 0, pos := 0,
      atEnd := false, mapped := false } cap0 (by simp)
  simp only [Nat.zero_add] at f1 f2 f3 f4 f5 f7
  have hr : start % page < page := Nat.mod_lt _ hpage
  have hr' : start % page ≤ start := Nat.mod_le _ _
  have hd : page ∣ start - start % page := Nat.dvd_sub_mod _
  have hpc : page ≤ cap0 := Nat.le_of_dvd hcap hdvd
  generalize start % page = r at *
  unfold initMmap
  generalize mmapShift _ = t at *
  refine ⟨⟨f6, by rw [f2]; exact hpage, by rw [f2, f4]; exact hd, by rw [f2, f3]; exact hdvd,
    by rw [f3]; exact hcap, ?_, ?_, ?_, ?_⟩, ?_, ?_⟩
  · rw [f5]; rcases f7 with ⟨_, _, h⟩ | ⟨_, _, h⟩ <;> rw [h] <;> omega
  · rw [f1, f4]; rcases f7 with ⟨_, _, h⟩ | ⟨_, _, h⟩ <;> rw [h] <;> omega
  · rw [f1, f4]; rcases f7 with ⟨_, _, h⟩ | ⟨_, h', h⟩
    · rw [h]; omega
    · rw [h']; simp
  · rw [f1, f4, f3]; rcases f7 with ⟨_, h', h⟩ | ⟨_, _, h⟩
    · rw [h']; simp
    · rw [h]; intro _; omega
  · simp only [mrest, f1, f4, f5]; congr 1; omega
  · simp only [mmu, f1]; split <;> omega

theorem readAll_mmap (delim : UInt8) (stripCr : Bool) (file : List UInt8) (page cap0 start : Nat)
    (hpage : 0 < page) (hcap : 0 < cap0) (hdvd : page ∣ cap0) (hstart : start ≤ file.length) :
    ∃ s', readAll mmapBacking delim stripCr (file.length + 2) (file.length + 2) (initMmap file page cap0 start)
        = some (splitRecords delim stripCr (file.drop start), s') ∧
      s'.atEnd = true ∧ s'.pos = s'.window.length := by
  obtain ⟨h1, h2, h3⟩ := initMmap_facts file page cap0 start hpage hcap hdvd hstart
  obtain ⟨s', e, _, e3, e4⟩ := readAll_post mmapSys delim stripCr (file.length + 2) (file.length + 2)
    (initMmap file page cap0 start) h1 h3
    (by show (mrest _).length < _; rw [h2]; simp; omega)
  refine ⟨s', ?_, e3, e4⟩
  rw [e]; show some (splitRecords delim stripCr (mrest _), s') = _; rw [h2]

end PV.Lemmas.Reader
