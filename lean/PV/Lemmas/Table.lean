import PV.Model.Table
import PV.Spec.Map
namespace PV.Lemmas.Table
end PV.Lemmas.Table
