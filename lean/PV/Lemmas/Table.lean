import PV.Model.Table
import PV.Spec.Map
import PV.Lemmas.Table.Run
/-
C13 helper lemmas (split over PV/Lemmas/Table/*.lean):
  Basic    index arithmetic, cyclic intervals, counting, Distinct / PathClosed
  Probe    firstEmpty / probe on a well-formed table
  Fill     effect of writing one slot
  Insert   structural invariant `Good`, insertion of a fresh key, insertList (phase 3 of Double)
  Roll     rollOver (phase 1 of Double)
  Reinsert reinsertAll (phase 2 of Double) with its loop invariant `P2`
  Double   `double_inv`
  Run      `Inv`, `Abs`, `run_inv`
-/
namespace PV.Lemmas.Table
end PV.Lemmas.Table
