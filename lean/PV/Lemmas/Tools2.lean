import PV.Model.Tools2
import PV.Lemmas.Tools
/-! helper lemmas for the base64_number / vocab theorems -/
namespace PV.Lemmas.Tools2
open PV.Tools PV.Tools2

theorem tokensGo_spec (isDelim : UInt8 → Bool) : ∀ (bs cur : List UInt8),
    (∀ b ∈ cur, isDelim b = false) →
    (∀ t ∈ tokensGo isDelim bs cur, t ≠ [] ∧ ∀ b ∈ t, isDelim b = false) ∧
    (tokensGo isDelim bs cur).flatten = cur.reverse ++ bs.filter (fun b => !isDelim b) := by
  intro bs
  induction bs with
  | nil =>
    intro cur hc
    by_cases h : cur = []
    · simp [tokensGo, h]
    · simp [tokensGo, h]
      exact hc
  | cons b r ih =>
    intro cur hc
    by_cases hb : isDelim b = true
    · have ih0 := ih [] (by simp)
      by_cases h : cur = []
      · simp only [tokensGo, hb, h, if_true]
        simpa [hb] using ih0
      · simp only [tokensGo, hb, h, if_true, if_false]
        refine ⟨?_, ?_⟩
        · intro t ht
          rcases List.mem_cons.1 ht with rfl | ht
          · exact ⟨by simpa using h, by simpa using hc⟩
          · exact ih0.1 t ht
        · simpa [hb] using ih0.2
    · have hb' : isDelim b = false := by simpa using hb
      have ih1 := ih (b :: cur) (by
        intro x hx
        rcases List.mem_cons.1 hx with rfl | hx
        · exact hb'
        · exact hc x hx)
      simp only [tokensGo, hb', Bool.false_eq_true, if_false]
      refine ⟨ih1.1, ?_⟩
      rw [ih1.2]
      simp [hb']

theorem tokens_spec (isDelim : UInt8 → Bool) (bs : List UInt8) :
    (∀ t ∈ tokens isDelim bs, t ≠ [] ∧ ∀ b ∈ t, isDelim b = false) ∧
    (tokens isDelim bs).flatten = bs.filter (fun b => !isDelim b) := by
  simpa [tokens] using tokensGo_spec isDelim bs [] (by simp)

theorem base64NumberFrom_append : ∀ (a b : List Line) (i : Nat),
    base64NumberFrom i (a ++ b) =
      (base64NumberFrom i a).bind (fun x => (base64NumberFrom (i + a.length) b).map (x ++ ·)) := by
  intro a
  induction a with
  | nil =>
    intro b i
    simp [base64NumberFrom]
  | cons l a ih =>
    intro b i
    simp only [List.cons_append, base64NumberFrom]
    cases hd : PV.Base64.decode l with
    | ok doc =>
      simp only [ih b (i + 1), List.length_cons]
      have : i + 1 + a.length = i + (a.length + 1) := by omega
      rw [this]
      cases base64NumberFrom (i + 1) a with
      | none => simp
      | some x =>
        cases base64NumberFrom (i + (a.length + 1)) b with
        | none => simp
        | some y => simp [List.append_assoc]
    | notB64 => simp
    | length => simp

theorem numberDoc_lines (i : Nat) (doc : List UInt8) :
    ∀ o ∈ numberDoc i doc, ∃ body, o = body ++ [9] ++ decimal i ∧ body ≠ [] ∧
      (9 : UInt8) ∉ body ∧ (10 : UInt8) ∉ body := by
  intro o ho
  simp only [numberDoc, List.mem_map] at ho
  obtain ⟨body, hb, rfl⟩ := ho
  have hs := tokens_spec (· == 10) (doc.map (fun b => if b == 9 then 32 else b))
  obtain ⟨hne, hnd⟩ := hs.1 body hb
  refine ⟨body, rfl, hne, ?_, ?_⟩
  · intro h9
    have hmem : (9 : UInt8) ∈ (tokens (· == 10) (doc.map (fun b => if b == 9 then 32 else b))).flatten :=
      List.mem_flatten.2 ⟨body, hb, h9⟩
    rw [hs.2] at hmem
    have hmem' := (List.mem_filter.1 hmem).1
    obtain ⟨x, _, hx⟩ := List.mem_map.1 hmem'
    by_cases h : x = 9
    · subst h; revert hx; decide
    · have : (x == 9) = false := by simpa using h
      rw [this] at hx
      simp at hx
      exact h hx
  · intro h10
    have := hnd 10 h10
    revert this; decide

theorem base64NumberFrom_lines : ∀ (ls : List Line) (i : Nat) (out : List Line),
    base64NumberFrom i ls = some out →
    ∀ o ∈ out, ∃ j body, i ≤ j ∧ j < i + ls.length ∧ o = body ++ [9] ++ decimal j ∧ body ≠ [] ∧
      (9 : UInt8) ∉ body ∧ (10 : UInt8) ∉ body := by
  intro ls
  induction ls with
  | nil =>
    intro i out h o ho
    simp [base64NumberFrom] at h
    subst h
    simp at ho
  | cons l ls ih =>
    intro i out h o ho
    simp only [base64NumberFrom] at h
    cases hd : PV.Base64.decode l with
    | ok doc =>
      rw [hd] at h
      simp only at h
      cases hr : base64NumberFrom (i + 1) ls with
      | none => rw [hr] at h; simp at h
      | some rest =>
        rw [hr] at h
        simp at h
        subst h
        rcases List.mem_append.1 ho with ho | ho
        · obtain ⟨body, h1, h2, h3, h4⟩ := numberDoc_lines i doc o ho
          exact ⟨i, body, Nat.le_refl _, by simp, h1, h2, h3, h4⟩
        · obtain ⟨j, body, hj1, hj2, h1, h2, h3, h4⟩ := ih (i + 1) rest hr o ho
          refine ⟨j, body, by omega, ?_, h1, h2, h3, h4⟩
          simp only [List.length_cons]; omega
    | notB64 => rw [hd] at h; simp at h
    | length => rw [hd] at h; simp at h

end PV.Lemmas.Tools2
