import PV.Lemmas.Table.Roll
/-
C13 helper lemmas, part 6: phase 2 of Double (reinsertAll), old size n, new ring size 2n.
-/
namespace PV.Lemmas.Table
open PV.Table

/-! ### pure part: one step of the loop on key functions -/

section pure
variable {n i l k : Nat} {f f' : Nat → Nat}

theorem land (hn : 0 < n) (hi : i < n) (ha : k % n ≤ i) (hup : f (i + n) = 0)
    (hwalk : ∀ x, x < 2 * n → between (k % (2 * n)) x l → x ≠ i ∧ f x ≠ 0) :
    k % (2 * n) ≤ l ∧ (l ≤ i ∨ (n ≤ k % (2 * n) ∧ l ≤ i + n)) := by
  have h1 : ¬ between (k % (2 * n)) i l := fun hb => (hwalk i (by omega) hb).1 rfl
  have h2 : ¬ between (k % (2 * n)) (i + n) l := fun hb => (hwalk (i + n) (by omega) hb).2 hup
  have h3 := mod_two_mul k n hn
  generalize k % (2 * n) = a' at *
  generalize k % n = a at *
  unfold between at h1 h2
  omega

theorem step_unproc (_hi : i < n)
    (hf' : ∀ x, f' x = if x = l then k else if x = i then 0 else f x)
    (hloc : l ≤ i ∨ n ≤ l)
    (unproc : ∀ j, i ≤ j → j < n → f j ≠ 0 → f j % n ≤ j) :
    ∀ j, i + 1 ≤ j → j < n → f' j ≠ 0 → f' j % n ≤ j := by
  intro j hj hjn hne
  have h1 : j ≠ l := by omega
  have h2 : j ≠ i := by omega
  rw [hf' j, if_neg h1, if_neg h2] at hne ⊢
  exact unproc j (by omega) hjn hne

theorem step_placed (hi : i < n) (hk0 : k ≠ 0)
    (hf' : ∀ x, f' x = if x = l then k else if x = i then 0 else f x)
    (hland : k % (2 * n) ≤ l ∧ (l ≤ i ∨ (n ≤ k % (2 * n) ∧ l ≤ i + n)))
    (hwalk : ∀ x, x < 2 * n → between (k % (2 * n)) x l → x ≠ i ∧ f x ≠ 0)
    (placed : ∀ j, j < 2 * n → (j < i ∨ n ≤ j) → f j ≠ 0 →
      f j % (2 * n) ≤ j ∧ (n ≤ j → n ≤ f j % (2 * n)) ∧
        ∀ x, f j % (2 * n) ≤ x → x < j → f x ≠ 0) :
    ∀ j, j < 2 * n → (j < i + 1 ∨ n ≤ j) → f' j ≠ 0 →
      f' j % (2 * n) ≤ j ∧ (n ≤ j → n ≤ f' j % (2 * n)) ∧
        ∀ x, f' j % (2 * n) ≤ x → x < j → f' x ≠ 0 := by
  intro j hj hreg hne
  by_cases hjl : j = l
  · subst hjl
    have hfj : f' j = k := by rw [hf' j, if_pos rfl]
    rw [hfj]
    refine ⟨hland.1, by omega, ?_⟩
    intro x hx hxj
    have := hwalk x (by omega) (by unfold between; omega)
    rw [hf' x, if_neg (by omega), if_neg this.1]
    exact this.2
  · have hji : j ≠ i := by
      intro h; rw [hf' j, if_neg hjl, if_pos h] at hne; exact hne rfl
    have hfj : f' j = f j := by rw [hf' j, if_neg hjl, if_neg hji]
    rw [hfj] at hne ⊢
    obtain ⟨p1, p2, p3⟩ := placed j hj (by omega) hne
    refine ⟨p1, p2, ?_⟩
    intro x hx hxj
    have hxi : x ≠ i := by
      have := p2
      omega
    rw [hf' x]
    by_cases hxl : x = l
    · rw [if_pos hxl]; exact hk0
    · rw [if_neg hxl, if_neg hxi]; exact p3 x hx hxj

theorem step_upper (hi : i < n)
    (hf' : ∀ x, f' x = if x = l then k else if x = i then 0 else f x)
    (hloc : l ≤ i ∨ l ≤ i + n)
    (upper : ∀ u, n ≤ u → u < 2 * n → f u ≠ 0 → u < i + n) :
    ∀ u, n ≤ u → u < 2 * n → f' u ≠ 0 → u < i + 1 + n := by
  intro u hu hu2 hne
  by_cases hul : u = l
  · omega
  · rw [hf' u, if_neg hul, if_neg (by omega)] at hne
    have := upper u hu hu2 hne
    omega

end pure

/-! ### the loop invariant -/

structure P2 (n i : Nat) (t : Table) : Prop where
  size : t.slots.size = 2 * n
  wf : WF t
  unproc : ∀ j, i ≤ j → j < n → t.key j ≠ 0 → t.key j % n ≤ j
  placed : ∀ j, j < 2 * n → (j < i ∨ n ≤ j) → t.key j ≠ 0 →
      t.key j % (2 * n) ≤ j ∧ (n ≤ j → n ≤ t.key j % (2 * n)) ∧
        ∀ x, t.key j % (2 * n) ≤ x → x < j → t.key x ≠ 0
  upper : ∀ u, n ≤ u → u < 2 * n → t.key u ≠ 0 → u < i + n
  distinct : Distinct t.key (2 * n)

theorem P2.skip {n i : Nat} {t : Table} (h : P2 n i t) (h0 : t.key i = 0) : P2 n (i + 1) t := by
  refine ⟨h.size, h.wf, ?_, ?_, ?_, h.distinct⟩
  · intro j hj; exact h.unproc j (by omega)
  · intro j hj hreg hne
    have : j ≠ i := by intro hji; subst hji; exact hne h0
    exact h.placed j hj (by omega) hne
  · intro u hu hu2 hne
    have := h.upper u hu hu2 hne
    omega

theorem reinsert_step (n i : Nat) (t : Table) (hn : 0 < n) (hi : i < n) (h : P2 n i t)
    (hk : t.key i ≠ 0) :
    ∃ t', uncheckedInsert { t with slots := t.slots.setIfInBounds i (0, (t.slots.getD i (0, 0)).2) }
        (t.slots.getD i (0, 0)) = some t' ∧
      P2 n (i + 1) t' ∧ cnt t'.key (2 * n) = cnt t.key (2 * n) ∧
      (∀ e', e'.1 ≠ 0 → (HasA t'.slots e' ↔ HasA t.slots e')) ∧
      t'.mask = t.mask ∧ t'.entries = t.entries := by
  have hsz := h.size
  have hisz : i < t.slots.size := by omega
  -- the cleared table
  let e := t.slots.getD i (0, 0)
  let sc := t.slots.setIfInBounds i (0, e.2)
  let tc : Table := { t with slots := sc }
  have hscsz : sc.size = 2 * n := by
    show (t.slots.setIfInBounds i (0, e.2)).size = 2 * n
    rw [Array.size_setIfInBounds]; exact hsz
  have hwc : WF tc := by
    unfold WF
    show t.mask + 1 = sc.size ∧ ∃ m, sc.size = 2 ^ m
    rw [hscsz, ← hsz]; exact h.wf
  have hfc : ∀ x, tc.key x = if x = i then 0 else t.key x := by
    intro x
    show keyOf (t.slots.setIfInBounds i (0, e.2)) x = _
    rw [keyOf_set]
    by_cases hx : x = i
    · rw [if_pos ⟨hx.symm, hisz⟩, if_pos hx]
    · rw [if_neg (fun h2 => hx h2.1.symm), if_neg hx]; rfl
  have hk' : e.1 ≠ 0 := hk
  obtain ⟨l, hl, hlN, hl0, hwalk⟩ := uncheckedInsert_spec tc hwc
    ⟨i, by show i < sc.size; omega, by rw [hfc]; simp⟩ e
  have hlN' : l < 2 * n := by
    have : l < sc.size := hlN
    omega
  have hwalk' : ∀ x, x < 2 * n → between (e.1 % (2 * n)) x l → x ≠ i ∧ t.key x ≠ 0 := by
    intro x hx hb
    have h1 : tc.slots.size = 2 * n := hscsz
    have := hwalk x (by omega) (by rw [h1]; exact hb)
    rw [hfc x] at this
    by_cases hxi : x = i
    · rw [if_pos hxi] at this; exact absurd rfl this
    · rw [if_neg hxi] at this; exact ⟨hxi, this⟩
  have hup : t.key (i + n) = 0 := by
    apply Classical.byContradiction; intro hne
    have := h.upper (i + n) (by omega) (by omega) hne
    omega
  have hland := land (f := t.key) hn hi (h.unproc i (Nat.le_refl _) hi hk) hup hwalk'
  -- the new table
  refine ⟨_, hl, ?_, ?_, ?_, rfl, rfl⟩
  · have hf' : ∀ x, keyOf (sc.setIfInBounds l e) x
        = if x = l then e.1 else if x = i then 0 else t.key x := by
      intro x
      rw [keyOf_set]
      by_cases hx : x = l
      · rw [if_pos ⟨hx.symm, hlN⟩, if_pos hx]
      · rw [if_neg (fun h2 => hx h2.1.symm), if_neg hx]; exact hfc x
    refine ⟨?_, ?_, ?_, ?_, ?_, ?_⟩
    · show (sc.setIfInBounds l e).size = 2 * n
      rw [Array.size_setIfInBounds]; exact hscsz
    · unfold WF
      show t.mask + 1 = (sc.setIfInBounds l e).size ∧ ∃ m, (sc.setIfInBounds l e).size = 2 ^ m
      rw [Array.size_setIfInBounds]; exact hwc
    · exact step_unproc hi hf' (by omega) h.unproc
    · exact step_placed hi hk' hf' hland hwalk' h.placed
    · exact step_upper hi hf' (by omega) h.upper
    · show Distinct (keyOf (sc.setIfInBounds l e)) (2 * n)
      rw [← hscsz]
      apply distinct_set_fill sc l e hlN
      · show Distinct (keyOf (t.slots.setIfInBounds i (0, e.2))) sc.size
        rw [hscsz, ← hsz]
        apply distinct_set_clear _ _ _ rfl
        rw [hsz]; exact h.distinct
      · intro x hx heq
        have h1 : tc.key x = e.1 := heq
        rw [hfc x] at h1
        by_cases hxi : x = i
        · rw [if_pos hxi] at h1; exact hk' h1.symm
        · rw [if_neg hxi] at h1
          exact hxi (h.distinct x i (by omega) (by omega) (by rw [h1]; exact hk') h1)
  · show cnt (keyOf (sc.setIfInBounds l e)) (2 * n) = cnt (keyOf t.slots) (2 * n)
    have c1 := cnt_set_fill sc l e hlN hl0 hk'
    have c2 := cnt_set_clear t.slots i (0, e.2) hisz hk rfl
    rw [hscsz] at c1
    rw [hsz] at c2
    have : cnt (keyOf sc) (2 * n) = cnt (keyOf (t.slots.setIfInBounds i (0, e.2))) (2 * n) := rfl
    omega
  · intro e' he'
    show HasA (sc.setIfInBounds l e) e' ↔ HasA t.slots e'
    rw [hasA_set_fill sc l e hlN hl0 e' he']
    have hc : HasA sc e' ↔ _ := hasA_set_clear t.slots i e.2 hisz e' he'
    rw [hc]
    constructor
    · rintro (⟨j, hj, _, hje⟩ | h1)
      · exact ⟨j, hj, hje⟩
      · exact ⟨i, hisz, h1.symm⟩
    · rintro ⟨j, hj, hje⟩
      by_cases hji : j = i
      · right; rw [← hje, hji]
      · left; exact ⟨j, hj, hji, hje⟩

end PV.Lemmas.Table

namespace PV.Lemmas.Table
open PV.Table

theorem reinsertAll_spec (n : Nat) (hn : 0 < n) : ∀ (fuel i : Nat) (t : Table),
    i ≤ n → n - i < fuel → P2 n i t →
    ∃ t', reinsertAll t n fuel i = some t' ∧ P2 n n t' ∧
      cnt t'.key (2 * n) = cnt t.key (2 * n) ∧
      (∀ e', e'.1 ≠ 0 → (HasA t'.slots e' ↔ HasA t.slots e')) ∧
      t'.mask = t.mask ∧ t'.entries = t.entries := by
  intro fuel
  induction fuel with
  | zero => intro i t _ h; omega
  | succ fuel ih =>
    intro i t hin hf hp
    by_cases hi : i = n
    · subst hi
      exact ⟨t, by simp [reinsertAll], hp, rfl, fun _ _ => Iff.rfl, rfl, rfl⟩
    · have hbeq : (i == n) = false := by simp [hi]
      by_cases hk : t.key i = 0
      · obtain ⟨t', h1, h2, h3, h4, h5, h6⟩ := ih (i + 1) t (by omega) (by omega) (hp.skip hk)
        refine ⟨t', ?_, h2, h3, h4, h5, h6⟩
        have hk' : (t.slots.getD i (0, 0)).1 = 0 := hk
        simp only [reinsertAll, hbeq, hk']
        simpa using h1
      · obtain ⟨t1, s1, s2, s3, s4, s5, s6⟩ := reinsert_step n i t hn (by omega) hp hk
        obtain ⟨t', h1, h2, h3, h4, h5, h6⟩ := ih (i + 1) t1 (by omega) (by omega) s2
        refine ⟨t', ?_, h2, by omega, ?_, by omega, by omega⟩
        · have hk' : ((t.slots.getD i (0, 0)).1 != 0) = true := by
            simp only [bne_iff_ne, ne_eq]; exact hk
          simp only [reinsertAll, hbeq, hk']
          simp only [Bool.false_eq_true, if_false, if_true]
          rw [s1]; exact h1
        · intro e' he'; rw [h4 e' he', s4 e' he']

end PV.Lemmas.Table
