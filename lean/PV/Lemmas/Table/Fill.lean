import PV.Lemmas.Table.Probe
/-
C13 helper lemmas, part 3: effect of writing one slot (array level), insertList.
-/
namespace PV.Lemmas.Table
open PV.Table

def keyOf (s : Array Entry) (x : Nat) : Nat := (s.getD x (0, 0)).1

theorem key_eq_keyOf (t : Table) : t.key = keyOf t.slots := rfl

/-- some slot holds entry e -/
def HasA (s : Array Entry) (e : Entry) : Prop := ∃ j, j < s.size ∧ s.getD j (0, 0) = e

theorem keyOf_set (s : Array Entry) (l : Nat) (e : Entry) (x : Nat) :
    keyOf (s.setIfInBounds l e) x = if l = x ∧ l < s.size then e.1 else keyOf s x := by
  unfold keyOf; rw [getD_set]; split <;> rfl

theorem keyOf_ge (s : Array Entry) (x : Nat) (h : s.size ≤ x) : keyOf s x = 0 := by
  unfold keyOf; rw [getD_ge _ _ h]

theorem keyOf_set_self (s : Array Entry) (l : Nat) (e : Entry) (hl : l < s.size) :
    keyOf (s.setIfInBounds l e) l = e.1 := by
  rw [keyOf_set]; simp [hl]

theorem keyOf_set_ne (s : Array Entry) (l : Nat) (e : Entry) (x : Nat) (h : x ≠ l) :
    keyOf (s.setIfInBounds l e) x = keyOf s x := by
  rw [keyOf_set]; have : ¬ (l = x ∧ l < s.size) := fun h2 => h h2.1.symm
  simp [this]

theorem cnt_set_fill (s : Array Entry) (l : Nat) (e : Entry) (hl : l < s.size)
    (h0 : keyOf s l = 0) (he : e.1 ≠ 0) :
    cnt (keyOf (s.setIfInBounds l e)) s.size = cnt (keyOf s) s.size + 1 := by
  apply cnt_fill _ _ _ l hl
  · intro x _ hne; exact keyOf_set_ne s l e x hne
  · exact h0
  · rw [keyOf_set_self s l e hl]; exact he

theorem cnt_set_clear (s : Array Entry) (l : Nat) (e : Entry) (hl : l < s.size)
    (h0 : keyOf s l ≠ 0) (he : e.1 = 0) :
    cnt (keyOf (s.setIfInBounds l e)) s.size + 1 = cnt (keyOf s) s.size := by
  apply cnt_clear _ _ _ l hl
  · intro x _ hne; exact keyOf_set_ne s l e x hne
  · exact h0
  · rw [keyOf_set_self s l e hl]; exact he

theorem hasA_set_fill (s : Array Entry) (l : Nat) (e : Entry) (hl : l < s.size)
    (h0 : keyOf s l = 0) (e' : Entry) (he' : e'.1 ≠ 0) :
    HasA (s.setIfInBounds l e) e' ↔ HasA s e' ∨ e' = e := by
  unfold HasA
  rw [Array.size_setIfInBounds]
  constructor
  · rintro ⟨j, hj, hje⟩
    rw [getD_set] at hje
    by_cases h : l = j
    · right; rw [if_pos ⟨h, hl⟩] at hje; exact hje.symm
    · left; rw [if_neg (fun h2 => h h2.1)] at hje; exact ⟨j, hj, hje⟩
  · rintro (⟨j, hj, hje⟩ | h)
    · refine ⟨j, hj, ?_⟩
      have : l ≠ j := by
        intro h; subst h; apply he'; rw [← hje]; exact h0
      rw [getD_set]; simp [this, hje]
    · refine ⟨l, hl, ?_⟩
      rw [getD_set]; simp [hl, h]

theorem hasA_set_clear (s : Array Entry) (i : Nat) (v : Nat) (hi : i < s.size)
    (e' : Entry) (he' : e'.1 ≠ 0) :
    HasA (s.setIfInBounds i (0, v)) e' ↔ ∃ j, j < s.size ∧ j ≠ i ∧ s.getD j (0, 0) = e' := by
  unfold HasA
  rw [Array.size_setIfInBounds]
  constructor
  · rintro ⟨j, hj, hje⟩
    rw [getD_set] at hje
    by_cases h : i = j
    · rw [if_pos ⟨h, hi⟩] at hje; rw [← hje] at he'; exact absurd rfl he'
    · rw [if_neg (fun h2 => h h2.1)] at hje; exact ⟨j, hj, fun h2 => h h2.symm, hje⟩
  · rintro ⟨j, hj, hne, hje⟩
    refine ⟨j, hj, ?_⟩
    rw [getD_set]
    have : ¬ (i = j ∧ i < s.size) := fun h => hne h.1.symm
    simp [this, hje]

theorem distinct_set_fill (s : Array Entry) (l : Nat) (e : Entry) (hl : l < s.size)
    (hd : Distinct (keyOf s) s.size) (hnew : ∀ x, x < s.size → keyOf s x ≠ e.1) :
    Distinct (keyOf (s.setIfInBounds l e)) s.size :=
  hd.fill hl (keyOf_set_self s l e hl) (fun x _ hne => keyOf_set_ne s l e x hne) hnew

theorem distinct_set_clear (s : Array Entry) (l : Nat) (e : Entry) (he : e.1 = 0)
    (hd : Distinct (keyOf s) s.size) :
    Distinct (keyOf (s.setIfInBounds l e)) s.size := by
  intro i j hi hj hne heq
  rw [keyOf_set] at hne heq
  rw [keyOf_set] at heq
  by_cases h1 : l = i ∧ l < s.size
  · rw [if_pos h1] at hne; exact absurd he hne
  · rw [if_neg h1] at hne heq
    by_cases h2 : l = j ∧ l < s.size
    · rw [if_pos h2, he] at heq; exact absurd heq hne
    · rw [if_neg h2] at heq
      exact hd i j hi hj hne heq

theorem pathClosed_set_fill (s : Array Entry) (l : Nat) (e : Entry) (hl : l < s.size)
    (h0 : keyOf s l = 0) (hp : PathClosed (keyOf s) s.size)
    (hwalk : ∀ x, x < s.size → between (e.1 % s.size) x l → keyOf s x ≠ 0) :
    PathClosed (keyOf (s.setIfInBounds l e)) s.size :=
  hp.fill hl (keyOf_set_self s l e hl) (fun x _ hne => keyOf_set_ne s l e x hne) h0 hwalk

end PV.Lemmas.Table
