import PV.Lemmas.Table.Basic
/-
C13 helper lemmas, part 2: the probing loops on a well-formed table.
-/
namespace PV.Lemmas.Table
open PV.Table

/-- size is a power of two and mask = size - 1 -/
def WF (t : Table) : Prop := t.mask + 1 = t.slots.size ∧ ∃ m, t.slots.size = 2 ^ m

theorem WF.pos {t : Table} (h : WF t) : 0 < t.slots.size := by
  obtain ⟨_, m, hm⟩ := h; rw [hm]; exact Nat.pow_pos (by decide)

theorem WF.ideal {t : Table} (h : WF t) (k : Nat) : t.ideal k = k % t.slots.size := by
  obtain ⟨h1, m, hm⟩ := h
  have : t.mask = 2 ^ m - 1 := by omega
  unfold Table.ideal
  rw [this, Nat.and_two_pow_sub_one_eq_mod, hm]

theorem WF.ideal_lt {t : Table} (h : WF t) (k : Nat) : t.ideal k < t.slots.size := by
  rw [h.ideal]; exact Nat.mod_lt _ h.pos

theorem WF.next {t : Table} (h : WF t) (i : Nat) (hi : i < t.slots.size) :
    t.next i = if i + 1 < t.slots.size then i + 1 else 0 := by
  have h2 : t.next i = (i + 1) % t.slots.size := by
    obtain ⟨h1, m, hm⟩ := h
    have : t.mask = 2 ^ m - 1 := by omega
    unfold Table.next
    rw [this, Nat.and_two_pow_sub_one_eq_mod, hm]
  rw [h2]
  split
  · exact Nat.mod_eq_of_lt (by assumption)
  · have : i + 1 = t.slots.size := by omega
    rw [this, Nat.mod_self]

theorem key_set (t : Table) (i : Nat) (e : Entry) (x : Nat) :
    Table.key { t with slots := t.slots.setIfInBounds i e } x
      = if i = x ∧ i < t.slots.size then e.1 else t.key x := by
  unfold Table.key
  simp only [getD_set]
  split <;> rfl

theorem key_ge (t : Table) (x : Nat) (h : t.slots.size ≤ x) : t.key x = 0 := by
  unfold Table.key; rw [getD_ge _ _ h]

theorem firstEmpty_spec (t : Table) (hw : WF t) : ∀ fuel i, i < t.slots.size →
    (∃ x, x < t.slots.size ∧ t.key x = 0 ∧ cdist t.slots.size i x < fuel) →
    ∃ e, firstEmpty t fuel i = some e ∧ e < t.slots.size ∧ t.key e = 0 ∧
      ∀ x, x < t.slots.size → between i x e → t.key x ≠ 0 := by
  intro fuel
  induction fuel with
  | zero => intro i _ ⟨x, _, _, h⟩; omega
  | succ fuel ih =>
    intro i hi ⟨x, hx, hx0, hd⟩
    by_cases hk : t.key i = 0
    · refine ⟨i, by simp [firstEmpty, hk], hi, hk, ?_⟩
      intro y _ hb; unfold between at hb; omega
    · have hn := hw.next i hi
      have hxi : x ≠ i := by intro h; subst h; exact hk hx0
      have hi' : t.next i < t.slots.size := by rw [hn]; split <;> omega
      obtain ⟨e, he, heN, he0, hwalk⟩ := ih (t.next i) hi' ⟨x, hx, hx0, by
        rw [hn]; unfold cdist at *; split at hd <;> split <;> split <;> omega⟩
      refine ⟨e, by simp [firstEmpty, hk, he], heN, he0, ?_⟩
      intro y hy hb
      by_cases hyi : y = i
      · subst hyi; exact hk
      · apply hwalk y hy
        have hei : e ≠ i := by intro h; subst h; exact hk he0
        rw [hn]; unfold between at *; split <;> omega

theorem probe_spec (t : Table) (hw : WF t) (k : Nat) : ∀ fuel i, i < t.slots.size →
    (∃ x, x < t.slots.size ∧ (t.key x = 0 ∨ t.key x = k) ∧ cdist t.slots.size i x < fuel) →
    ∃ b e, probe t k fuel i = some (b, e) ∧ e < t.slots.size ∧
      (b = true → t.key e = k) ∧ (b = false → t.key e = 0 ∧ t.key e ≠ k) ∧
      ∀ x, x < t.slots.size → between i x e → t.key x ≠ 0 ∧ t.key x ≠ k := by
  intro fuel
  induction fuel with
  | zero => intro i _ ⟨x, _, _, h⟩; omega
  | succ fuel ih =>
    intro i hi ⟨x, hx, hx0, hd⟩
    by_cases hk : t.key i = k
    · refine ⟨true, i, by simp [probe, hk], hi, fun _ => hk, by simp, ?_⟩
      intro y _ hb; unfold between at hb; omega
    · by_cases hk0 : t.key i = 0
      · refine ⟨false, i, by simp only [probe, hk0]; rw [hk0] at hk; simp [hk], hi, by simp, fun _ => ⟨hk0, hk⟩, ?_⟩
        intro y _ hb; unfold between at hb; omega
      · have hn := hw.next i hi
        have hxi : x ≠ i := by
          intro h; subst h; rcases hx0 with h | h
          · exact hk0 h
          · exact hk h
        have hi' : t.next i < t.slots.size := by rw [hn]; split <;> omega
        obtain ⟨b, e, he, heN, hbt, hbf, hwalk⟩ := ih (t.next i) hi' ⟨x, hx, hx0, by
          rw [hn]; unfold cdist at *; split at hd <;> split <;> split <;> omega⟩
        refine ⟨b, e, by simp [probe, hk, hk0, he], heN, hbt, hbf, ?_⟩
        intro y hy hb
        by_cases hyi : y = i
        · subst hyi; exact ⟨hk0, hk⟩
        · apply hwalk y hy
          have hei : e ≠ i := by
            intro h; subst h
            cases b
            · exact hk0 (hbf rfl).1
            · exact hk (hbt rfl)
          rw [hn]; unfold between at *; split <;> omega

theorem cdist_lt (N i x : Nat) (hi : i < N) (hx : x < N) : cdist N i x < N := by
  unfold cdist; split <;> omega

/-- a stored key is found where it is -/
theorem probe_found (t : Table) (hw : WF t) (hd : Distinct t.key t.slots.size)
    (hp : PathClosed t.key t.slots.size) (k j : Nat) (hk : k ≠ 0) (hj : j < t.slots.size)
    (hkj : t.key j = k) : probe t k t.buckets (t.ideal k) = some (true, j) := by
  have hi := hw.ideal_lt k
  obtain ⟨b, e, he, heN, hbt, hbf, hwalk⟩ := probe_spec t hw k t.slots.size (t.ideal k) hi
    ⟨j, hj, Or.inr hkj, cdist_lt _ _ _ hi hj⟩
  unfold Table.buckets
  rw [he]
  cases b
  · exfalso
    obtain ⟨h0, hne⟩ := hbf rfl
    have hje : j ≠ e := by intro h; subst h; exact hne hkj
    have hnb : ¬ between (t.ideal k) j e := fun hb => (hwalk j hj hb).2 hkj
    have : between (t.key j % t.slots.size) e j := by
      rw [hkj, ← hw.ideal]; unfold between at *; omega
    exact hp j hj (by omega) e heN this h0
  · have := hd e j heN hj (by rw [hbt rfl]; exact hk) (by rw [hbt rfl, hkj])
    rw [this]

/-- an absent key leads to the first empty slot of its walk -/
theorem probe_absent (t : Table) (hw : WF t) (hc : cnt t.key t.slots.size < t.slots.size)
    (k : Nat) (hk : ∀ j, j < t.slots.size → t.key j ≠ k) :
    ∃ e, probe t k t.buckets (t.ideal k) = some (false, e) ∧ e < t.slots.size ∧ t.key e = 0 ∧
      ∀ x, x < t.slots.size → between (k % t.slots.size) x e → t.key x ≠ 0 := by
  have hi := hw.ideal_lt k
  obtain ⟨x, hx, hx0⟩ := exists_empty _ _ hc
  obtain ⟨b, e, he, heN, hbt, hbf, hwalk⟩ := probe_spec t hw k t.slots.size (t.ideal k) hi
    ⟨x, hx, Or.inl hx0, cdist_lt _ _ _ hi hx⟩
  cases b
  · refine ⟨e, he, heN, (hbf rfl).1, ?_⟩
    intro y hy hb; rw [← hw.ideal] at hb; exact (hwalk y hy hb).1
  · exact absurd (hbt rfl) (hk e heN)

theorem firstEmpty_ideal (t : Table) (hw : WF t) (hc : ∃ x, x < t.slots.size ∧ t.key x = 0)
    (k : Nat) :
    ∃ e, firstEmpty t t.buckets (t.ideal k) = some e ∧ e < t.slots.size ∧ t.key e = 0 ∧
      ∀ x, x < t.slots.size → between (k % t.slots.size) x e → t.key x ≠ 0 := by
  have hi := hw.ideal_lt k
  obtain ⟨x, hx, hx0⟩ := hc
  obtain ⟨e, he, heN, he0, hwalk⟩ := firstEmpty_spec t hw t.slots.size (t.ideal k) hi
    ⟨x, hx, hx0, cdist_lt _ _ _ hi hx⟩
  refine ⟨e, he, heN, he0, ?_⟩
  intro y hy hb; rw [← hw.ideal] at hb; exact hwalk y hy hb

theorem uncheckedInsert_spec (t : Table) (hw : WF t) (hc : ∃ x, x < t.slots.size ∧ t.key x = 0)
    (e : Entry) :
    ∃ l, uncheckedInsert t e = some { t with slots := t.slots.setIfInBounds l e } ∧
      l < t.slots.size ∧ t.key l = 0 ∧
      ∀ x, x < t.slots.size → between (e.1 % t.slots.size) x l → t.key x ≠ 0 := by
  obtain ⟨l, hl, hlN, hl0, hwalk⟩ := firstEmpty_ideal t hw hc e.1
  exact ⟨l, by simp [uncheckedInsert, hl], hlN, hl0, hwalk⟩

end PV.Lemmas.Table
