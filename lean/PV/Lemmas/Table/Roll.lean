import PV.Lemmas.Table.Insert
/-
C13 helper lemmas, part 5: phase 1 of Double (rollOver).
-/
namespace PV.Lemmas.Table
open PV.Table

theorem rollOver_spec (n : Nat) : ∀ (fuel i : Nat) (s : Array Entry) (acc : List Entry),
    i ≤ n → n - i < fuel →
    ∃ r s', i ≤ r ∧ r ≤ n ∧ (∀ x, i ≤ x → x < r → keyOf s x ≠ 0) ∧ (r = n ∨ keyOf s r = 0) ∧
      rollOver s n fuel i acc
        = (s', acc.reverse ++ (List.range' i (r - i)).map (fun x => s.getD x (0, 0))) ∧
      s'.size = s.size ∧
      ∀ x, s'.getD x (0, 0)
        = if i ≤ x ∧ x < r then (0, (s.getD x (0, 0)).2) else s.getD x (0, 0) := by
  intro fuel
  induction fuel with
  | zero => intro i s acc _ h; omega
  | succ fuel ih =>
    intro i s acc hin hf
    by_cases h : i ≠ n ∧ keyOf s i ≠ 0
    · have hcond : (i != n && (s.getD i (0, 0)).1 != 0) = true := by
        simp only [Bool.and_eq_true, bne_iff_ne, ne_eq]
        exact ⟨h.1, h.2⟩
      have hisz : i < s.size := by
        apply Classical.byContradiction; intro hge
        exact h.2 (keyOf_ge s i (by omega))
      obtain ⟨r, s', hir, hrn, hocc, hend, heq, hsz, hget⟩ :=
        ih (i + 1) (s.setIfInBounds i (0, (s.getD i (0, 0)).2)) (s.getD i (0, 0) :: acc)
          (by omega) (by omega)
      refine ⟨r, s', by omega, hrn, ?_, ?_, ?_, ?_, ?_⟩
      · intro x hx hxr
        by_cases hxi : x = i
        · subst hxi; exact h.2
        · have := hocc x (by omega) hxr
          rwa [keyOf_set_ne _ _ _ _ hxi] at this
      · rcases hend with h1 | h1
        · exact Or.inl h1
        · right; rwa [keyOf_set_ne _ _ _ _ (by omega)] at h1
      · simp only [rollOver]
        rw [if_pos hcond, heq]
        have hr : r - i = (r - (i + 1)) + 1 := by omega
        rw [hr, List.range'_succ, List.map_cons, List.reverse_cons, List.append_assoc]
        congr 2
        simp only [List.singleton_append, List.cons.injEq, true_and]
        apply List.map_congr_left
        intro x hx
        have hx1 : i + 1 ≤ x := by
          rw [List.mem_range'_1] at hx; exact hx.1
        rw [getD_set, if_neg (by omega)]
      · rw [hsz, Array.size_setIfInBounds]
      · intro x
        rw [hget x]
        by_cases hxi : x = i
        · subst hxi
          rw [if_neg (by omega), getD_set, if_pos ⟨rfl, hisz⟩, if_pos (by omega)]
        · have hs : (s.setIfInBounds i (0, (s.getD i (0, 0)).2)).getD x (0, 0) = s.getD x (0, 0) := by
            rw [getD_set, if_neg (fun h2 => hxi h2.1.symm)]
          rw [hs]
          by_cases hc : i + 1 ≤ x ∧ x < r
          · rw [if_pos hc, if_pos (by omega)]
          · rw [if_neg hc, if_neg (by omega)]
    · have hcond : ¬ ((i != n && (s.getD i (0, 0)).1 != 0) = true) := by
        intro hc
        simp only [Bool.and_eq_true, bne_iff_ne, ne_eq] at hc
        exact h hc
      refine ⟨i, s, Nat.le_refl _, hin, by intro x _ _; omega, ?_, ?_, rfl, ?_⟩
      · by_cases h1 : i = n
        · exact Or.inl h1
        · right
          apply Classical.byContradiction; intro h2; exact h ⟨h1, h2⟩
      · simp only [rollOver]
        rw [if_neg hcond]; simp
      · intro x; rw [if_neg (by omega)]

end PV.Lemmas.Table
