import PV.Lemmas.Table.Double
/-
C13 helper lemmas, part 8: the full invariant, the abstraction relation to the spec map,
and the refinement induction over operation histories.
-/
namespace PV.Lemmas.Table
open PV.Table PV.Spec.Map

/-! ### find -/

theorem find_present (t : Table) (N : Nat) (hg : Good t N) (k j : Nat) (hk : k ≠ 0) (hj : j < N)
    (hkj : t.key j = k) : find t k = some (some (t.slots.getD j (0, 0))) := by
  have hsz := hg.size
  subst hsz
  unfold find
  rw [probe_found t hg.wf hg.distinct hg.closed k j hk hj hkj]

theorem find_absent (t : Table) (N : Nat) (hg : Good t N) (hc : cnt t.key N < N) (k : Nat)
    (hk : ∀ j, j < N → t.key j ≠ k) : find t k = some none := by
  have hsz := hg.size
  subst hsz
  obtain ⟨e, he, _⟩ := probe_absent t hg.wf hc k hk
  unfold find
  rw [he]

theorem find_eq_of_hasA (t t' : Table) (N N' : Nat) (hg : Good t N) (hg' : Good t' N')
    (hc : cnt t.key N < N) (hc' : cnt t'.key N' < N')
    (hh : ∀ e, e.1 ≠ 0 → (HasA t'.slots e ↔ HasA t.slots e)) (k : Nat) (hk : k ≠ 0) :
    find t' k = find t k := by
  have hsz := hg.size
  have hsz' := hg'.size
  by_cases hex : ∃ j, j < N ∧ t.key j = k
  · obtain ⟨j, hj, hkj⟩ := hex
    rw [find_present t N hg k j hk hj hkj]
    have hkj' : (t.slots.getD j (0, 0)).1 = k := hkj
    obtain ⟨j', hj', hje⟩ := (hh (t.slots.getD j (0, 0)) (by rw [hkj']; exact hk)).2
      ⟨j, by omega, rfl⟩
    rw [find_present t' N' hg' k j' hk (by omega)
      (by show (t'.slots.getD j' (0, 0)).1 = k; rw [hje]; exact hkj'), hje]
  · rw [find_absent t N hg hc k (fun j hj hkj => hex ⟨j, hj, hkj⟩)]
    apply find_absent t' N' hg' hc' k
    intro j' hj' hkj'
    have hkj2 : (t'.slots.getD j' (0, 0)).1 = k := hkj'
    obtain ⟨j, hj, hje⟩ := (hh (t'.slots.getD j' (0, 0)) (by rw [hkj2]; exact hk)).1
      ⟨j', by omega, rfl⟩
    exact hex ⟨j, by omega, by show (t.slots.getD j (0, 0)).1 = k; rw [hje]; exact hkj2⟩

/-! ### invariant and abstraction -/

def Inv (t : Table) : Prop :=
  ∃ N, Good t N ∧ (∃ m, 3 ≤ m ∧ N = 2 ^ m) ∧ t.entries = cnt t.key N ∧
    t.entries ≤ t.threshold ∧ t.threshold = thresholdOf N

def Abs (t : Table) (m : M) : Prop :=
  ∀ k, k ≠ 0 → ∀ e, lookup m k = some e ↔ (e.1 = k ∧ HasA t.slots e)

theorem thresholdOf_lt (N : Nat) (hN : 0 < N) : thresholdOf N < N := by
  unfold thresholdOf; omega

theorem Inv.cnt_lt {t : Table} {N : Nat} (_hg : Good t N) (hN : 0 < N)
    (he : t.entries = cnt t.key N) (hle : t.entries ≤ t.threshold)
    (hth : t.threshold = thresholdOf N) : cnt t.key N < N := by
  have := thresholdOf_lt N hN
  omega

theorem Good.of_eq {t t' : Table} {N : Nat} (hg : Good t N) (hs : t'.slots = t.slots)
    (hm : t'.mask = t.mask) : Good t' N := by
  have hk : t'.key = t.key := by rw [key_eq_keyOf, key_eq_keyOf, hs]
  refine ⟨by rw [hs]; exact hg.size, ?_, by rw [hk]; exact hg.distinct, by rw [hk]; exact hg.closed⟩
  unfold WF; rw [hs, hm]; exact hg.wf

theorem find_abs (t : Table) (m : M) (hi : Inv t) (ha : Abs t m) (k : Nat) (hk : k ≠ 0) :
    find t k = some (lookup m k) := by
  obtain ⟨N, hg, ⟨p, hp, hN⟩, he, hle, hth⟩ := hi
  have hN0 : 0 < N := by rw [hN]; exact Nat.pow_pos (by decide)
  have hc := Inv.cnt_lt hg hN0 he hle hth
  have hsz := hg.size
  by_cases hex : ∃ j, j < N ∧ t.key j = k
  · obtain ⟨j, hj, hkj⟩ := hex
    rw [find_present t N hg k j hk hj hkj]
    have := (ha k hk (t.slots.getD j (0, 0))).2 ⟨hkj, j, by omega, rfl⟩
    rw [this]
  · rw [find_absent t N hg hc k (fun j hj hkj => hex ⟨j, hj, hkj⟩)]
    cases hl : lookup m k with
    | none => rfl
    | some e =>
      exfalso
      obtain ⟨h1, j, hj, hje⟩ := (ha k hk e).1 hl
      exact hex ⟨j, by omega, by show (t.slots.getD j (0, 0)).1 = k; rw [hje]; exact h1⟩

theorem two_pow_ge_eight (m : Nat) (h : 3 ≤ m) : 8 ≤ 2 ^ m := by
  have := Nat.pow_le_pow_right (n := 2) (by decide) h
  simpa using this

theorem doubleIfNeeded_spec (t : Table) (hi : Inv t) :
    ∃ t', doubleIfNeeded t = some t' ∧ Inv t' ∧ t'.entries < t'.threshold ∧
      (∀ e, e.1 ≠ 0 → (HasA t'.slots e ↔ HasA t.slots e)) := by
  by_cases hlt : t.entries < t.threshold
  · exact ⟨t, by simp [doubleIfNeeded, hlt], hi, hlt, fun _ _ => Iff.rfl⟩
  · obtain ⟨N, hg, ⟨p, hp, hN⟩, he, hle, hth⟩ := hi
    have hN8 : 8 ≤ N := by rw [hN]; exact two_pow_ge_eight p hp
    have hc := Inv.cnt_lt hg (by omega) he hle hth
    obtain ⟨t2, h2, hg2, hc2, hh2, he2⟩ := double_inv t N hg hc
    have hb : t2.buckets = 2 * N := hg2.size
    have hthr : t.entries < thresholdOf (2 * N) := by
      have h1 : thresholdOf N < N := thresholdOf_lt N (by omega)
      unfold thresholdOf
      omega
    refine ⟨{ t2 with threshold := thresholdOf t2.buckets }, by simp [doubleIfNeeded, hlt, h2],
      ⟨2 * N, hg2.of_eq rfl rfl, ⟨p + 1, by omega, by rw [Nat.pow_succ, hN]; omega⟩, ?_, ?_, ?_⟩,
      ?_, hh2⟩
    · show t2.entries = cnt t2.key (2 * N)
      rw [he2, hc2, he]
    · show t2.entries ≤ thresholdOf t2.buckets
      rw [hb, he2]; omega
    · show thresholdOf t2.buckets = thresholdOf (2 * N)
      rw [hb]
    · show t2.entries < thresholdOf t2.buckets
      rw [hb, he2]; exact hthr

theorem Abs.of_hasA {t t' : Table} {m : M} (ha : Abs t m)
    (hh : ∀ e, e.1 ≠ 0 → (HasA t'.slots e ↔ HasA t.slots e)) : Abs t' m := by
  intro k hk e
  rw [ha k hk e]
  constructor
  · rintro ⟨h1, h2⟩; exact ⟨h1, (hh e (by rw [h1]; exact hk)).2 h2⟩
  · rintro ⟨h1, h2⟩; exact ⟨h1, (hh e (by rw [h1]; exact hk)).1 h2⟩

theorem lookup_cons (m : M) (a : Nat × Nat) (k : Nat) :
    lookup (a :: m) k = if a.1 = k then some a else lookup m k := by
  unfold lookup
  rw [List.find?_cons]
  by_cases h : a.1 = k
  · have hb : (a.1 == k) = true := by simpa using h
    rw [hb, if_pos h]
  · have hb : (a.1 == k) = false := by simpa using h
    rw [hb, if_neg h]

theorem findOrInsert_spec (t : Table) (m : M) (hi : Inv t) (ha : Abs t m) (k v : Nat)
    (hk : k ≠ 0) :
    ∃ t', step t (.insert k v) = some ((PV.Spec.Map.step m (.insert k v)).1, t') ∧ Inv t' ∧
      Abs t' (PV.Spec.Map.step m (.insert k v)).2 := by
  obtain ⟨t1, h1, hi1, hlt1, hh1⟩ := doubleIfNeeded_spec t hi
  have ha1 : Abs t1 m := ha.of_hasA hh1
  obtain ⟨N, hg, ⟨p, hp, hN⟩, he, hle, hth⟩ := hi1
  have hN0 : 0 < N := by rw [hN]; exact Nat.pow_pos (by decide)
  have hc := Inv.cnt_lt hg hN0 he hle hth
  have hsz := hg.size
  subst hsz
  by_cases hex : ∃ j, j < t1.slots.size ∧ t1.key j = k
  · obtain ⟨j, hj, hkj⟩ := hex
    have hpr := probe_found t1 hg.wf hg.distinct hg.closed k j hk hj hkj
    have hl := (ha1 k hk (t1.slots.getD j (0, 0))).2 ⟨hkj, j, hj, rfl⟩
    refine ⟨t1, ?_, ⟨_, hg, ⟨p, hp, hN⟩, he, hle, hth⟩, ?_⟩
    · simp only [PV.Table.step, findOrInsert, h1, hpr, PV.Spec.Map.step, hl, Option.map_some]
    · simp only [PV.Spec.Map.step, hl]; exact ha1
  · have habs : ∀ j, j < t1.slots.size → t1.key j ≠ k := fun j hj hkj => hex ⟨j, hj, hkj⟩
    obtain ⟨l, hpr, hlN, hl0, hwalk⟩ := probe_absent t1 hg.wf hc k habs
    have hl : lookup m k = none := by
      cases hl : lookup m k with
      | none => rfl
      | some e =>
        exfalso
        obtain ⟨h1, j, hj, hje⟩ := (ha1 k hk e).1 hl
        exact hex ⟨j, hj, by show (t1.slots.getD j (0, 0)).1 = k; rw [hje]; exact h1⟩
    have hth2 := thresholdOf_lt t1.slots.size hN0
    have hfull : ¬ (t1.entries + 1 ≥ t1.buckets) := by
      unfold Table.buckets; omega
    refine ⟨{ t1 with slots := t1.slots.setIfInBounds l (k, v), entries := t1.entries + 1 }, ?_,
      ⟨t1.slots.size, ?_, ⟨p, hp, hN⟩, ?_, ?_, hth⟩, ?_⟩
    · simp only [PV.Table.step, findOrInsert, h1, hpr, PV.Spec.Map.step, hl, hfull, if_false,
        Option.map_some]
    · exact good_fill t1 _ _ hg l (k, v) rfl rfl hlN hl0 hwalk habs
    · show t1.entries + 1 = cnt (keyOf (t1.slots.setIfInBounds l (k, v))) t1.slots.size
      rw [cnt_set_fill t1.slots l (k, v) hlN hl0 hk, he]; rfl
    · show t1.entries + 1 ≤ t1.threshold
      omega
    · simp only [PV.Spec.Map.step, hl]
      intro k' hk' e
      show _ ↔ (e.1 = k' ∧ HasA (t1.slots.setIfInBounds l (k, v)) e)
      rw [lookup_cons]
      by_cases hkk : k = k'
      · subst hkk
        rw [if_pos rfl]
        constructor
        · intro h; injection h with h; subst h
          exact ⟨rfl, (hasA_set_fill _ _ _ hlN hl0 _ hk).2 (Or.inr rfl)⟩
        · rintro ⟨h1, h2⟩
          rcases (hasA_set_fill _ _ _ hlN hl0 e (by rw [h1]; exact hk)).1 h2 with ⟨j, hj, hje⟩ | h
          · exfalso; exact hex ⟨j, hj, by show (t1.slots.getD j (0, 0)).1 = k; rw [hje]; exact h1⟩
          · rw [h]
      · rw [if_neg hkk, ha1 k' hk' e]
        constructor
        · rintro ⟨h1, h2⟩
          exact ⟨h1, (hasA_set_fill _ _ _ hlN hl0 e (by rw [h1]; exact hk')).2 (Or.inl h2)⟩
        · rintro ⟨h1, h2⟩
          rcases (hasA_set_fill _ _ _ hlN hl0 e (by rw [h1]; exact hk')).1 h2 with h | h
          · exact ⟨h1, h⟩
          · exfalso; rw [h] at h1; exact hkk h1

theorem step_spec (t : Table) (m : M) (hi : Inv t) (ha : Abs t m) (op : Op) (hk : opKey op ≠ 0) :
    ∃ t', step t op = some ((PV.Spec.Map.step m op).1, t') ∧ Inv t' ∧
      Abs t' (PV.Spec.Map.step m op).2 := by
  cases op with
  | insert k v => exact findOrInsert_spec t m hi ha k v hk
  | find k =>
    refine ⟨t, ?_, hi, ha⟩
    simp only [PV.Table.step, PV.Spec.Map.step, find_abs t m hi ha k hk, Option.map_some]

theorem run_inv : ∀ (ops : List Op) (t : Table) (m : M), Inv t → Abs t m →
    (∀ op ∈ ops, opKey op ≠ 0) →
    ∃ t', run t ops = some ((PV.Spec.Map.run m ops).1, t') ∧ Inv t' ∧
      Abs t' (PV.Spec.Map.run m ops).2 := by
  intro ops
  induction ops with
  | nil => intro t m hi ha _; exact ⟨t, rfl, hi, ha⟩
  | cons op ops ih =>
    intro t m hi ha hk
    obtain ⟨t1, h1, hi1, ha1⟩ := step_spec t m hi ha op (hk op (by simp))
    obtain ⟨t2, h2, hi2, ha2⟩ := ih t1 _ hi1 ha1 (fun o ho => hk o (by simp [ho]))
    refine ⟨t2, ?_, hi2, ?_⟩
    · simp only [PV.Table.run, h1, h2, PV.Spec.Map.run, Option.map_some]
    · simp only [PV.Spec.Map.run]; exact ha2

/-! ### the initial table -/

theorem init_key (x : Nat) : init.key x = 0 := by
  unfold Table.key init
  simp only [Array.getD_eq_getD_getElem?, Array.getElem?_replicate]
  split <;> rfl

theorem init_inv : Inv init := by
  refine ⟨8, ⟨?_, ⟨?_, 3, ?_⟩, ?_, ?_⟩, ⟨3, by omega, by decide⟩, ?_, ?_, rfl⟩
  · simp [init, initBuckets]
  · simp [init, initBuckets]
  · simp [init, initBuckets]
  · intro i j _ _ hne; exact absurd (init_key i) hne
  · intro j _ hne; exact absurd (init_key j) hne
  · show 0 = cnt init.key 8
    rw [cnt_zero init.key 0 8 (fun x _ _ => init_key x) (by omega)]; rfl
  · show 0 ≤ _; omega

theorem init_abs : Abs init [] := by
  intro k hk e
  constructor
  · intro h; simp [lookup] at h
  · rintro ⟨h1, j, _, hje⟩
    exfalso
    have := init_key j
    unfold Table.key at this
    rw [hje, h1] at this
    exact hk this

end PV.Lemmas.Table

namespace PV.Lemmas.Table
open PV.Table PV.Spec.Map

theorem double_preserves_of_inv (t : Table) (hi : Inv t) :
    ∃ t', double t = some t' ∧ t'.buckets = 2 * t.buckets ∧
      ∀ k, k ≠ 0 → find t' k = find t k := by
  obtain ⟨N, hg, ⟨p, hp, hN⟩, he, hle, hth⟩ := hi
  have hN0 : 0 < N := by rw [hN]; exact Nat.pow_pos (by decide)
  have hc := Inv.cnt_lt hg hN0 he hle hth
  obtain ⟨t2, h2, hg2, hc2, hh2, _⟩ := double_inv t N hg hc
  refine ⟨t2, h2, ?_, ?_⟩
  · show t2.slots.size = 2 * t.slots.size
    rw [hg2.size, hg.size]
  · intro k hk
    exact find_eq_of_hasA t t2 N (2 * N) hg hg2 hc (by omega) hh2 k hk

theorem shape_of_inv (t : Table) (hi : Inv t) :
    t.entries < t.buckets ∧ (∃ n, 3 ≤ n ∧ t.buckets = 2 ^ n) ∧ t.mask + 1 = t.buckets := by
  obtain ⟨N, hg, ⟨p, hp, hN⟩, he, hle, hth⟩ := hi
  have hN0 : 0 < N := by rw [hN]; exact Nat.pow_pos (by decide)
  have hc := Inv.cnt_lt hg hN0 he hle hth
  have hb : t.buckets = N := hg.size
  refine ⟨by omega, ⟨p, hp, by omega⟩, ?_⟩
  rw [hb, ← hg.size]; exact hg.wf.1

end PV.Lemmas.Table
