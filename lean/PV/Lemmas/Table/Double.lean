import PV.Lemmas.Table.Reinsert
/-
C13 helper lemmas, part 7: Double = phase 1 + phase 2 + phase 3 preserves the structural invariant
and the set of stored entries.
-/
namespace PV.Lemmas.Table
open PV.Table

theorem cnt_prefix_clear (f g : Nat → Nat) (r : Nat) (hf : ∀ x, x < r → f x ≠ 0)
    (hg : ∀ x, g x = if x < r then 0 else f x) : ∀ m, cnt g m + min r m = cnt f m := by
  intro m
  induction m with
  | zero => simp [cnt]
  | succ m ih =>
    simp only [cnt]
    rw [hg m]
    by_cases hm : m < r
    · have := hf m hm
      simp only [hm, if_true, this, ne_eq, not_true_eq_false, if_false, not_false_eq_true]
      omega
    · simp only [hm, if_false]
      split <;> omega

theorem phase1 (t : Table) (n : Nat) (hg : Good t n) (hc : cnt t.key n < n) :
    ∃ r s1, r < n ∧
      rollOver (t.slots ++ Array.replicate n (0, 0)) n (n + 1) 0 []
        = (s1, (List.range' 0 r).map (fun x => t.slots.getD x (0, 0))) ∧
      s1.size = 2 * n ∧
      (∀ x, s1.getD x (0, 0)
        = if x < r then (0, (t.slots.getD x (0, 0)).2) else t.slots.getD x (0, 0)) ∧
      (∀ x, x < r → t.key x ≠ 0) ∧ t.key r = 0 := by
  have hsz := hg.size
  obtain ⟨r, s1, _, hrn, hocc, hend, heq, hs1, hget⟩ :=
    rollOver_spec n (n + 1) 0 (t.slots ++ Array.replicate n (0, 0)) [] (by omega) (by omega)
  have hk0 : ∀ x, keyOf (t.slots ++ Array.replicate n (0, 0)) x = t.key x := by
    intro x; unfold keyOf; rw [getD_append_zero]; rfl
  obtain ⟨x0, hx0, hx00⟩ := exists_empty _ _ hc
  have hrx : r ≤ x0 := by
    apply Classical.byContradiction; intro hlt
    exact hocc x0 (by omega) (by omega) (by rw [hk0]; exact hx00)
  have hr0 : t.key r = 0 := by
    rcases hend with h | h
    · omega
    · rwa [hk0] at h
  refine ⟨r, s1, by omega, ?_, ?_, ?_, ?_, hr0⟩
  · rw [heq]
    simp only [List.reverse_nil, List.nil_append, Nat.sub_zero]
    congr 1
    apply List.map_congr_left
    intro x _; exact getD_append_zero _ _ _
  · rw [hs1, Array.size_append, Array.size_replicate]; omega
  · intro x
    rw [hget x, getD_append_zero]
    by_cases hx : x < r
    · rw [if_pos ⟨by omega, hx⟩, if_pos hx]
    · rw [if_neg (fun h => hx h.2), if_neg hx]
  · intro x hx; have := hocc x (by omega) hx; rwa [hk0] at this

theorem P2_init (t t1 : Table) (n r : Nat) (hg : Good t n) (hr : r < n)
    (hsz1 : t1.slots.size = 2 * n) (hm : t1.mask = (t.mask <<< 1) ||| 1)
    (hkey : ∀ x, t1.key x = if x < r then 0 else t.key x) (hr0 : t.key r = 0) : P2 n 0 t1 := by
  have hsz := hg.size
  have hge : ∀ x, n ≤ x → t1.key x = 0 := by
    intro x hx; rw [hkey x, if_neg (by omega)]; exact key_ge t x (by omega)
  refine ⟨hsz1, ?_, ?_, ?_, ?_, ?_⟩
  · obtain ⟨h1, m, hm2⟩ := hg.wf
    unfold WF
    rw [hm, shl_or_one, hsz1]
    refine ⟨by omega, m + 1, ?_⟩
    rw [Nat.pow_succ]; omega
  · intro j _ hjn hne
    rw [hkey j] at hne ⊢
    by_cases hjr : j < r
    · rw [if_pos hjr] at hne; exact absurd rfl hne
    · rw [if_neg hjr] at hne ⊢
      have hjr' : j ≠ r := by intro h; subst h; exact hne hr0
      have := hg.closed j hjn hne r (by omega)
      have hnb : ¬ between (t.key j % n) r j := fun hb => this hb hr0
      unfold between at hnb
      omega
  · intro j hj hreg hne
    exact absurd (hge j (by omega)) hne
  · intro u hu _ hne
    exact absurd (hge u hu) hne
  · intro i j hi hj hne heq
    have hi' : i < n := by
      apply Classical.byContradiction; intro h; exact hne (hge i (by omega))
    have hj' : j < n := by
      apply Classical.byContradiction; intro h
      rw [hge j (by omega)] at heq; exact hne heq
    rw [hkey i] at hne heq
    by_cases hir : i < r
    · rw [if_pos hir] at hne; exact absurd rfl hne
    · rw [if_neg hir] at hne heq
      rw [hkey j] at heq
      by_cases hjr : j < r
      · rw [if_pos hjr] at heq; exact absurd heq hne
      · rw [if_neg hjr] at heq
        exact hg.distinct i j hi' hj' hne heq

theorem P2.good {n : Nat} {t : Table} (h : P2 n n t) : Good t (2 * n) := by
  refine ⟨h.size, h.wf, h.distinct, ?_⟩
  intro j hj hne x hx hb
  obtain ⟨p1, _, p3⟩ := h.placed j hj (by omega) hne
  unfold between at hb
  exact p3 x (by omega) (by omega)

theorem double_inv (t : Table) (n : Nat) (hg : Good t n) (hc : cnt t.key n < n) :
    ∃ t', double t = some t' ∧ Good t' (2 * n) ∧ cnt t'.key (2 * n) = cnt t.key n ∧
      (∀ e, e.1 ≠ 0 → (HasA t'.slots e ↔ HasA t.slots e)) ∧ t'.entries = t.entries := by
  have hsz := hg.size
  have hn : 0 < n := by rw [← hsz]; exact hg.wf.pos
  obtain ⟨r, s1, hr, hroll, hs1, hget, hocc, hr0⟩ := phase1 t n hg hc
  let t1 : Table := { t with slots := s1, mask := (t.mask <<< 1) ||| 1 }
  have hkey1 : ∀ x, t1.key x = if x < r then 0 else t.key x := by
    intro x
    show (s1.getD x (0, 0)).1 = _
    rw [hget x]; split <;> rfl
  have hp0 : P2 n 0 t1 := P2_init t t1 n r hg hr hs1 rfl hkey1 hr0
  obtain ⟨t2, h2, hp2, hc2, hh2, hm2, he2⟩ := reinsertAll_spec n hn (n + 1) 0 t1 (by omega) (by omega) hp0
  have hg2 := hp2.good
  -- counting
  have hc1 : cnt t1.key (2 * n) + r = cnt t.key n := by
    have h1 : cnt t1.key (2 * n) = cnt t1.key n := by
      apply cnt_zero _ n (2 * n) _ (by omega)
      intro x hx _
      rw [hkey1 x, if_neg (by omega)]; exact key_ge t x (by omega)
    have h2 := cnt_prefix_clear t.key t1.key r hocc hkey1 n
    rw [Nat.min_eq_left (by omega)] at h2
    omega
  -- entries
  have hh1 : ∀ e, e.1 ≠ 0 → (HasA s1 e ↔ ∃ j, r ≤ j ∧ j < n ∧ t.slots.getD j (0, 0) = e) := by
    intro e he
    constructor
    · rintro ⟨j, hj, hje⟩
      rw [hget j] at hje
      by_cases hjr : j < r
      · rw [if_pos hjr] at hje; rw [← hje] at he; exact absurd rfl he
      · rw [if_neg hjr] at hje
        refine ⟨j, by omega, ?_, hje⟩
        apply Classical.byContradiction; intro hjn
        rw [getD_ge _ _ (by omega)] at hje
        rw [← hje] at he; exact he rfl
    · rintro ⟨j, hjr, hjn, hje⟩
      refine ⟨j, by omega, ?_⟩
      rw [hget j, if_neg (by omega)]; exact hje
  have hmem : ∀ e, e ∈ (List.range' 0 r).map (fun x => t.slots.getD x (0, 0)) ↔
      ∃ x, x < r ∧ t.slots.getD x (0, 0) = e := by
    intro e
    simp only [List.mem_map, List.mem_range'_1]
    constructor
    · rintro ⟨x, hx, hxe⟩; exact ⟨x, by omega, hxe⟩
    · rintro ⟨x, hx, hxe⟩; exact ⟨x, by omega, hxe⟩
  -- phase 3
  obtain ⟨t3, h3, hg3, hc3, hh3, hm3, he3⟩ := insertList_spec (2 * n)
    ((List.range' 0 r).map (fun x => t.slots.getD x (0, 0))) t2 hg2
    (by simp only [List.length_map, List.length_range']; omega)
    (by
      intro e he
      obtain ⟨x, hx, hxe⟩ := (hmem e).1 he
      have hek : e.1 = t.key x := by rw [← hxe]; rfl
      have he0 : e.1 ≠ 0 := by rw [hek]; exact hocc x hx
      refine ⟨he0, ?_⟩
      intro y hy heq
      have hy2 : y < t2.slots.size := by rw [hg2.size]; exact hy
      have hk2 : (t2.slots.getD y (0, 0)).1 = e.1 := heq
      have : HasA t1.slots (t2.slots.getD y (0, 0)) :=
        (hh2 _ (by rw [hk2]; exact he0)).1 ⟨y, hy2, rfl⟩
      obtain ⟨j, hjr, hjn, hje⟩ := (hh1 _ (by rw [hk2]; exact he0)).1 this
      have hkj : t.key j = t.key x := by
        show (t.slots.getD j (0, 0)).1 = _
        rw [hje, hk2, hek]
      have := hg.distinct j x hjn (by omega) (by rw [hkj]; exact hocc x hx) hkj
      omega)
    (by
      rw [List.pairwise_map]
      apply List.Pairwise.imp_of_mem _ (List.pairwise_lt_range' (s := 0) (n := r))
      intro a b ha hb hab heq
      rw [List.mem_range'_1] at ha hb
      have := hg.distinct a b (by omega) (by omega) (hocc a (by omega)) heq
      omega)
  refine ⟨t3, ?_, hg3, ?_, ?_, by rw [he3, he2]⟩
  · simp only [double, Table.buckets, hsz]
    rw [hroll]
    simp only []
    rw [h2]
    exact h3
  · simp only [List.length_map, List.length_range'] at hc3
    omega
  · intro e he
    rw [hh3 e he, hh2 e he, hmem e]
    show HasA s1 e ∨ _ ↔ _
    rw [hh1 e he]
    constructor
    · rintro (⟨j, _, hjn, hje⟩ | ⟨x, hx, hxe⟩)
      · exact ⟨j, by omega, hje⟩
      · exact ⟨x, by omega, hxe⟩
    · rintro ⟨j, hj, hje⟩
      by_cases hjr : j < r
      · right; exact ⟨j, hjr, hje⟩
      · left; exact ⟨j, by omega, by omega, hje⟩

end PV.Lemmas.Table
