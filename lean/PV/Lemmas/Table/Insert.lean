import PV.Lemmas.Table.Fill
/-
C13 helper lemmas, part 4: structural invariant bundle, insertion of a fresh key, insertList.
-/
namespace PV.Lemmas.Table
open PV.Table

/-- structural part of the invariant, for ring size N -/
structure Good (t : Table) (N : Nat) : Prop where
  size : t.slots.size = N
  wf : WF t
  distinct : Distinct t.key N
  closed : PathClosed t.key N

theorem good_fill (t t' : Table) (N : Nat) (hg : Good t N) (l : Nat) (e : Entry)
    (hs : t'.slots = t.slots.setIfInBounds l e) (hm : t'.mask = t.mask) (hl : l < N)
    (h0 : t.key l = 0)
    (hwalk : ∀ x, x < N → between (e.1 % N) x l → t.key x ≠ 0)
    (hnew : ∀ x, x < N → t.key x ≠ e.1) : Good t' N := by
  obtain ⟨hsz, hw, hd, hp⟩ := hg
  subst hsz
  have hk : t'.key = keyOf (t.slots.setIfInBounds l e) := by rw [key_eq_keyOf, hs]
  refine ⟨by rw [hs, Array.size_setIfInBounds], ?_, ?_, ?_⟩
  · unfold WF; rw [hs, Array.size_setIfInBounds, hm]; exact hw
  · rw [hk]; exact distinct_set_fill _ _ _ hl hd hnew
  · rw [hk]; exact pathClosed_set_fill _ _ _ hl h0 hp hwalk

theorem insert_good (t : Table) (N : Nat) (hg : Good t N) (hc : cnt t.key N < N) (e : Entry)
    (he : e.1 ≠ 0) (hnew : ∀ x, x < N → t.key x ≠ e.1) :
    ∃ t', uncheckedInsert t e = some t' ∧ Good t' N ∧ cnt t'.key N = cnt t.key N + 1 ∧
      (∀ e', e'.1 ≠ 0 → (HasA t'.slots e' ↔ HasA t.slots e' ∨ e' = e)) ∧
      t'.mask = t.mask ∧ t'.entries = t.entries := by
  have hsz := hg.size
  subst hsz
  obtain ⟨l, hl, hlN, hl0, hwalk⟩ := uncheckedInsert_spec t hg.wf (exists_empty _ _ hc) e
  refine ⟨_, hl, good_fill t _ _ hg l e rfl rfl hlN hl0 hwalk hnew, ?_, ?_, rfl, rfl⟩
  · exact cnt_set_fill t.slots l e hlN hl0 he
  · intro e' he'; exact hasA_set_fill t.slots l e hlN hl0 e' he'

theorem insertList_spec (N : Nat) : ∀ (L : List Entry) (t : Table), Good t N →
    cnt t.key N + L.length < N →
    (∀ e, e ∈ L → e.1 ≠ 0 ∧ ∀ x, x < N → t.key x ≠ e.1) →
    L.Pairwise (fun a b => a.1 ≠ b.1) →
    ∃ t', insertList t L = some t' ∧ Good t' N ∧ cnt t'.key N = cnt t.key N + L.length ∧
      (∀ e', e'.1 ≠ 0 → (HasA t'.slots e' ↔ HasA t.slots e' ∨ e' ∈ L)) ∧
      t'.mask = t.mask ∧ t'.entries = t.entries := by
  intro L
  induction L with
  | nil =>
    intro t hg _ _ _
    exact ⟨t, rfl, hg, rfl, by simp, rfl, rfl⟩
  | cons e es ih =>
    intro t hg hc hL hpw
    simp only [List.length_cons] at hc
    obtain ⟨he0, henew⟩ := hL e (by simp)
    obtain ⟨t1, h1, hg1, hc1, hh1, hm1, he1⟩ := insert_good t N hg (by omega) e he0 henew
    rw [List.pairwise_cons] at hpw
    have hL1 : ∀ e', e' ∈ es → e'.1 ≠ 0 ∧ ∀ x, x < N → t1.key x ≠ e'.1 := by
      intro e' he'
      obtain ⟨h0, hn⟩ := hL e' (by simp [he'])
      refine ⟨h0, ?_⟩
      intro x hx heq
      -- slot x of t1 holds an entry with key e'.1 ≠ 0
      have hsz1 := hg1.size
      have : HasA t1.slots (t1.slots.getD x (0, 0)) := ⟨x, by omega, rfl⟩
      have hk : (t1.slots.getD x (0, 0)).1 = e'.1 := heq
      rcases (hh1 _ (by rw [hk]; exact h0)).1 this with ⟨j, hj, hje⟩ | h
      · have hsz := hg.size
        apply hn j (by omega)
        show (t.slots.getD j (0, 0)).1 = e'.1
        rw [hje]; exact hk
      · exact hpw.1 e' he' (by rw [← h, hk])
    obtain ⟨t2, h2, hg2, hc2, hh2, hm2, he2⟩ := ih t1 hg1 (by omega) hL1 hpw.2
    refine ⟨t2, by simp [insertList, h1, h2], hg2, by simp only [List.length_cons]; omega, ?_,
      by omega, by omega⟩
    intro e' he'
    rw [hh2 e' he', hh1 e' he', List.mem_cons, or_assoc]

end PV.Lemmas.Table
