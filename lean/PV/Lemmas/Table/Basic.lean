import PV.Model.Table
import PV.Spec.Map
/-
C13 helper lemmas, part 1: pure index arithmetic, array views, counting, structural predicates.
-/
namespace PV.Lemmas.Table
open PV.Table

/-! ### array view -/

theorem getD_set (s : Array Entry) (i j : Nat) (e : Entry) :
    (s.setIfInBounds i e).getD j (0, 0) = if i = j ∧ i < s.size then e else s.getD j (0, 0) := by
  simp only [Array.getD_eq_getD_getElem?, Array.getElem?_setIfInBounds]
  by_cases h : i = j
  · subst h
    by_cases h2 : i < s.size
    · simp [h2]
    · simp [h2]
  · simp [h]

theorem getD_ge (s : Array Entry) (j : Nat) (h : s.size ≤ j) : s.getD j (0, 0) = (0, 0) := by
  simp [Array.getD_eq_getD_getElem?, Array.getElem?_eq_none h]

theorem getD_append_zero (s : Array Entry) (n j : Nat) :
    (s ++ Array.replicate n (0, 0)).getD j (0, 0) = s.getD j (0, 0) := by
  simp only [Array.getD_eq_getD_getElem?, Array.getElem?_append, Array.getElem?_replicate]
  by_cases h : j < s.size
  · simp [h]
  · have : s[j]? = none := Array.getElem?_eq_none (by omega)
    simp only [h, if_false, this]
    split <;> rfl

/-! ### modular arithmetic -/

theorem mod_two_mul (k n : Nat) (hn : 0 < n) :
    k % (2 * n) = k % n ∨ k % (2 * n) = k % n + n := by
  have h1 : k % (2 * n) % n = k % n := by
    rw [Nat.mul_comm]; exact Nat.mod_mul_right_mod k n 2
  have h2 : k % (2 * n) < 2 * n := Nat.mod_lt _ (by omega)
  generalize k % (2 * n) = y at h1 h2
  by_cases hy : y < n
  · left; rw [← h1, Nat.mod_eq_of_lt hy]
  · right
    rw [← h1, Nat.mod_eq_sub_mod (by omega), Nat.mod_eq_of_lt (by omega)]
    omega

theorem shl_or_one (a : Nat) : (a <<< 1) ||| 1 = 2 * a + 1 := by
  rw [← Nat.shiftLeft_add_eq_or_of_lt (by decide), Nat.shiftLeft_eq]; omega

/-! ### cyclic intervals: `between a x j` iff x lies on the cyclic walk a, a+1, … strictly before j -/

def between (a x j : Nat) : Prop :=
  (a ≤ j ∧ a ≤ x ∧ x < j) ∨ (j < a ∧ (a ≤ x ∨ x < j))

/-- cyclic distance from i to x in a ring of size N -/
def cdist (N i x : Nat) : Nat := if i ≤ x then x - i else x + N - i

/-! ### counting occupied slots of a key function -/

def cnt (f : Nat → Nat) : Nat → Nat
  | 0 => 0
  | m + 1 => cnt f m + (if f m ≠ 0 then 1 else 0)

theorem cnt_le (f : Nat → Nat) (m : Nat) : cnt f m ≤ m := by
  induction m with
  | zero => simp [cnt]
  | succ m ih => simp only [cnt]; split <;> omega

theorem cnt_congr (f g : Nat → Nat) (m : Nat) (h : ∀ x < m, f x = g x) : cnt f m = cnt g m := by
  induction m with
  | zero => rfl
  | succ m ih =>
    simp only [cnt]
    rw [ih (fun x hx => h x (by omega)), h m (by omega)]

theorem cnt_zero (f : Nat → Nat) (a m : Nat) (h : ∀ x, a ≤ x → x < m → f x = 0) (ha : a ≤ m) :
    cnt f m = cnt f a := by
  induction m with
  | zero => have : a = 0 := by omega
            subst this; rfl
  | succ m ih =>
    by_cases hm : a = m + 1
    · subst hm; rfl
    · simp only [cnt]
      rw [ih (fun x h1 h2 => h x h1 (by omega)) (by omega), h m (by omega) (by omega)]
      simp

theorem exists_empty (f : Nat → Nat) (m : Nat) (h : cnt f m < m) : ∃ x < m, f x = 0 := by
  induction m with
  | zero => omega
  | succ m ih =>
    simp only [cnt] at h
    by_cases hm : f m = 0
    · exact ⟨m, by omega, hm⟩
    · simp only [hm, ne_eq, not_false_eq_true, if_true] at h
      obtain ⟨x, hx, hx0⟩ := ih (by omega)
      exact ⟨x, by omega, hx0⟩

/-- changing one slot from empty to occupied -/
theorem cnt_fill (f g : Nat → Nat) (m l : Nat) (hl : l < m) (h : ∀ x < m, x ≠ l → g x = f x)
    (hf : f l = 0) (hg : g l ≠ 0) : cnt g m = cnt f m + 1 := by
  induction m with
  | zero => omega
  | succ m ih =>
    simp only [cnt]
    by_cases hm : l = m
    · subst hm
      rw [cnt_congr g f l (fun x hx => h x (by omega) (by omega))]
      simp [hf, hg]
    · rw [ih (by omega) (fun x hx hne => h x (by omega) hne), h m (by omega) (by omega)]
      omega

/-- changing one slot from occupied to empty -/
theorem cnt_clear (f g : Nat → Nat) (m l : Nat) (hl : l < m) (h : ∀ x < m, x ≠ l → g x = f x)
    (hf : f l ≠ 0) (hg : g l = 0) : cnt g m + 1 = cnt f m := by
  have := cnt_fill g f m l hl (fun x hx hne => (h x hx hne).symm) hg hf
  omega

/-! ### structural predicates on a key function with ring size N -/

def Distinct (f : Nat → Nat) (N : Nat) : Prop :=
  ∀ i j, i < N → j < N → f i ≠ 0 → f i = f j → i = j

def PathClosed (f : Nat → Nat) (N : Nat) : Prop :=
  ∀ j, j < N → f j ≠ 0 → ∀ x, x < N → between (f j % N) x j → f x ≠ 0

/-- filling an empty slot l reached by walking over occupied slots from the key's ideal slot
    keeps all paths closed -/
theorem PathClosed.fill {f g : Nat → Nat} {N l k : Nat} (hp : PathClosed f N) (hl : l < N)
    (hgl : g l = k) (hg : ∀ x < N, x ≠ l → g x = f x) (hfl : f l = 0)
    (hwalk : ∀ x, x < N → between (k % N) x l → f x ≠ 0) : PathClosed g N := by
  intro j hj hgj x hx hb
  by_cases hjl : j = l
  · subst hjl
    rw [hgl] at hb
    have := hwalk x hx hb
    by_cases hxl : x = j
    · subst hxl; unfold between at hb; omega
    · rw [hg x hx hxl]; exact this
  · rw [hg j hj hjl] at hgj hb
    by_cases hxl : x = l
    · subst hxl
      exact absurd hfl (hp j hj hgj x hx hb)
    · rw [hg x hx hxl]; exact hp j hj hgj x hx hb

theorem Distinct.fill {f g : Nat → Nat} {N l k : Nat} (hd : Distinct f N) (hl : l < N)
    (hgl : g l = k) (hg : ∀ x < N, x ≠ l → g x = f x)
    (hnew : ∀ x, x < N → f x ≠ k) : Distinct g N := by
  intro i j hi hj hne heq
  by_cases hil : i = l <;> by_cases hjl : j = l
  · omega
  · subst hil; rw [hgl, hg j hj hjl] at heq; exact absurd heq.symm (hnew j hj)
  · subst hjl; rw [hgl, hg i hi hil] at heq; exact absurd heq (hnew i hi)
  · rw [hg i hi hil] at hne heq; rw [hg j hj hjl] at heq; exact hd i j hi hj hne heq

end PV.Lemmas.Table
