import PV.Model.ReaderFallback
import PV.Lemmas.Reader
/-! helper lemmas for PV.Props.C02

The `Sys` structure of `PV.Lemmas.Reader` demands that `Shift` extends the unread part of the window.  At the
mmap -> read transition that is false (the new buffer restarts at the first unconsumed byte and holds only what
the first `read` returned), so `ReadLine`'s `skip` may point beyond the new window.  `Sys'` drops that field and
`readLine_post'` carries the loop invariant on the unread *stream* instead: its first `skip` bytes contain no
delimiter (`skip` may exceed the window, in which case `std::find` finds nothing). -/
namespace PV.Lemmas.ReaderFallback
open PV.Reader PV.Spec.Records PV.Lemmas.Reader

/-- `readLine_eval` without the bound on `skip`. -/
theorem readLine_eval' {σ : Type} (B : Backing σ) (delim : UInt8) (stripCr : Bool) (fuel skip : Nat) (s : σ)
    (hpos : B.pos s ≤ (B.buf s).length)
    (hno : ∀ b ∈ ((B.buf s).drop (B.pos s)).take skip, b ≠ delim) :
    readLine B delim stripCr (fuel+1) skip s =
      (let u := (B.buf s).drop (B.pos s)
       let k := (u.takeWhile (· != delim)).length
       if k < u.length then .line (stripOneCr stripCr (u.take k)) (B.setPos s (B.pos s + k + 1))
       else if B.atEnd s then
         if u = [] then .eof s else .line u (B.setPos s (B.buf s).length)
       else readLine B delim stripCr fuel u.length (B.shift s)) := by
  by_cases hskip : skip ≤ ((B.buf s).drop (B.pos s)).length
  · exact readLine_eval B delim stripCr fuel skip s hpos hskip hno
  · have hlen : ((B.buf s).drop (B.pos s)).length = (B.buf s).length - B.pos s := by simp
    have hno' : ∀ b ∈ (B.buf s).drop (B.pos s), b ≠ delim := by
      rw [List.take_of_length_le (by omega)] at hno; exact hno
    have e0 := readLine_eval B delim stripCr fuel ((B.buf s).drop (B.pos s)).length s hpos (Nat.le_refl _)
      (by rw [List.take_length]; exact hno')
    rw [← e0, readLine_succ, readLine_succ]
    simp only []
    have h1 : (B.buf s).drop (B.pos s + skip) = [] := by
      apply List.drop_eq_nil_of_le; omega
    have h2 : (B.buf s).drop (B.pos s + ((B.buf s).drop (B.pos s)).length) = [] := by
      apply List.drop_eq_nil_of_le; omega
    rw [h1, h2]
    simp only [List.takeWhile_nil, List.length_nil, Nat.add_zero]
    have n1 : ¬ B.pos s + skip < (B.buf s).length := by omega
    have n2 : ¬ B.pos s + ((B.buf s).drop (B.pos s)).length < (B.buf s).length := by omega
    simp only [n1, n2, if_false]

/-- `Sys` with a `shift` field that only preserves the stream (no statement about the window). -/
structure Sys' {σ : Type} (B : Backing σ) where
  Inv : σ → Prop
  rest : σ → List UInt8
  mu : σ → Nat
  pos_le : ∀ s, Inv s → B.pos s ≤ (B.buf s).length
  pfx : ∀ s, Inv s → (B.buf s).drop (B.pos s) <+: rest s
  atEnd_rest : ∀ s, Inv s → B.atEnd s = true → rest s = (B.buf s).drop (B.pos s)
  shift : ∀ s, Inv s → B.atEnd s = false →
     Inv (B.shift s) ∧ rest (B.shift s) = rest s ∧ mu (B.shift s) < mu s
  setPos : ∀ s p, Inv s → B.pos s ≤ p → p ≤ (B.buf s).length →
     Inv (B.setPos s p) ∧ rest (B.setPos s p) = (rest s).drop (p - B.pos s) ∧
     B.buf (B.setPos s p) = B.buf s ∧ B.pos (B.setPos s p) = p ∧
     B.atEnd (B.setPos s p) = B.atEnd s ∧ mu (B.setPos s p) = mu s

def Post' {σ : Type} {B : Backing σ} (S : Sys' B) (delim : UInt8) (stripCr : Bool) (s : σ) : LineRes σ → Prop
  | .diverged => False
  | .eof s' => S.rest s = [] ∧ S.Inv s' ∧ B.atEnd s' = true ∧ B.pos s' = (B.buf s').length ∧ S.mu s' ≤ S.mu s
  | .line l s' => S.Inv s' ∧ S.mu s' ≤ S.mu s ∧
      splitRecords delim stripCr (S.rest s) = l :: splitRecords delim stripCr (S.rest s') ∧
      (S.rest s').length < (S.rest s).length

theorem Post_shift' {σ : Type} {B : Backing σ} (S : Sys' B) (delim : UInt8) (stripCr : Bool) (s s' : σ)
    (hr : S.rest s' = S.rest s) (hm : S.mu s' ≤ S.mu s) (r : LineRes σ)
    (h : Post' S delim stripCr s' r) : Post' S delim stripCr s r := by
  cases r with
  | diverged => exact h
  | eof t =>
    obtain ⟨h1, h2, h3, h4, h5⟩ := h
    exact ⟨by rw [← hr]; exact h1, h2, h3, h4, by omega⟩
  | line l t =>
    obtain ⟨h1, h2, h3, h4⟩ := h
    exact ⟨h1, by omega, by rw [← hr]; exact h3, by rw [← hr]; exact h4⟩

theorem readLine_post' {σ : Type} {B : Backing σ} (S : Sys' B) (delim : UInt8) (stripCr : Bool) :
    ∀ (fuel skip : Nat) (s : σ), S.Inv s →
      (∀ b ∈ (S.rest s).take skip, b ≠ delim) →
      S.mu s < fuel →
      Post' S delim stripCr s (readLine B delim stripCr fuel skip s) := by
  intro fuel
  induction fuel with
  | zero => intro skip s _ _ h; omega
  | succ fuel ih =>
    intro skip s hI hno hmu
    have hpos := S.pos_le s hI
    obtain ⟨fut, hfut⟩ := S.pfx s hI
    have hnou : ∀ b ∈ ((B.buf s).drop (B.pos s)).take skip, b ≠ delim := by
      intro b hb
      apply hno b
      rw [← hfut, List.take_append]
      exact List.mem_append_left _ hb
    rw [readLine_eval' B delim stripCr fuel skip s hpos hnou]
    simp only []
    generalize hu : (B.buf s).drop (B.pos s) = u at *
    have hul : u.length = (B.buf s).length - B.pos s := by rw [← hu]; simp
    by_cases hlt : (u.takeWhile (· != delim)).length < u.length
    · rw [if_pos hlt]
      have hsp := tw_split delim u hlt
      generalize hk : (u.takeWhile (· != delim)).length = k at *
      have hpre : u.takeWhile (· != delim) = u.take k := by
        conv => rhs; rw [hsp]
        rw [List.take_left' hk]
      obtain ⟨s1, s2, s3, s4, s5, s6⟩ := S.setPos s (B.pos s + k + 1) hI (by omega) (by omega)
      have hk1 : B.pos s + k + 1 - B.pos s = k + 1 := by omega
      rw [hk1] at s2
      have hrest : S.rest s = u.take k ++ delim :: (u.drop (k+1) ++ fut) := by
        rw [← hfut]; conv => lhs; rw [hsp, hpre]
        simp
      have hrest' : (S.rest s).drop (k+1) = u.drop (k+1) ++ fut := by
        rw [← hfut, List.drop_append_of_le_length (by omega)]
      refine ⟨s1, by omega, ?_, ?_⟩
      · rw [s2, hrest', hrest]
        exact splitRecords_delim delim stripCr _ _ (by rw [← hpre]; exact tw_mem delim u)
      · rw [s2, List.length_drop]
        have : (S.rest s).length = u.length + fut.length := by rw [← hfut]; simp
        omega
    · rw [if_neg hlt]
      have hall := tw_all delim u hlt
      have hnod : ∀ b ∈ u, b ≠ delim := by rw [← hall]; exact tw_mem delim u
      cases hE : B.atEnd s
      · simp only [Bool.false_eq_true, if_false]
        obtain ⟨h1, h2, h4⟩ := S.shift s hI hE
        apply Post_shift' S delim stripCr s (B.shift s) h2 (by omega)
        apply ih
        · exact h1
        · rw [h2, ← hfut, List.take_left]; exact hnod
        · omega
      · simp only [if_true]
        have hru : S.rest s = u := by rw [S.atEnd_rest s hI hE, hu]
        by_cases hu0 : u = []
        · rw [if_pos hu0]
          refine ⟨by rw [hru, hu0], hI, hE, ?_, Nat.le_refl _⟩
          have := List.length_eq_zero_iff.mpr hu0; omega
        · rw [if_neg hu0]
          obtain ⟨s1, s2, s3, s4, s5, s6⟩ := S.setPos s (B.buf s).length hI hpos (Nat.le_refl _)
          have hr' : S.rest (B.setPos s (B.buf s).length) = [] := by
            rw [s2, hru, ← hul]; simp
          refine ⟨s1, by omega, ?_, ?_⟩
          · rw [hr', hru, splitRecords_nil]
            exact splitRecords_nodelim delim stripCr u hnod hu0
          · rw [hr', hru]
            exact List.length_pos_iff.mpr hu0

theorem readAll_post' {σ : Type} {B : Backing σ} (S : Sys' B) (delim : UInt8) (stripCr : Bool) (shiftFuel : Nat) :
    ∀ (fuel : Nat) (s : σ), S.Inv s → S.mu s < shiftFuel → (S.rest s).length < fuel →
      ∃ s', readAll B delim stripCr shiftFuel fuel s = some (splitRecords delim stripCr (S.rest s), s') ∧
        S.Inv s' ∧ B.atEnd s' = true ∧ B.pos s' = (B.buf s').length := by
  intro fuel
  induction fuel with
  | zero => intro s _ _ h; omega
  | succ fuel ih =>
    intro s hI hmu hlen
    have hp := readLine_post' S delim stripCr shiftFuel 0 s hI (by simp) hmu
    rw [readAll]
    cases hr : readLine B delim stripCr shiftFuel 0 s with
    | diverged => rw [hr] at hp; exact hp.elim
    | eof t =>
      rw [hr] at hp
      obtain ⟨h1, h2, h3, h4, _⟩ := hp
      exact ⟨t, by simp [h1, splitRecords_nil], h2, h3, h4⟩
    | line l t =>
      rw [hr] at hp
      obtain ⟨h1, h2, h3, h4⟩ := hp
      obtain ⟨s', e1, e2, e3, e4⟩ := ih t h1 (by omega) (by omega)
      exact ⟨s', by simp [e1, h3], e2, e3, e4⟩

/-! ## the fallback backing -/

def fInv : FState → Prop
  | .m s _ _ => MInv s
  | .r s => RInv s

def frest : FState → List UInt8
  | .m s _ _ => mrest s
  | .r s => rrest s

/-- mmap shifts decrease `mmu`; the transition lands in a read state with `rmu ≤ file.length + 1`; read shifts
    decrease `rmu`. -/
def fmu : FState → Nat
  | .m s _ _ => mmu s + s.file.length + 2
  | .r s => rmu s

/-- the transition step: `readShift` on the fresh read state positioned at the first unconsumed byte. -/
theorem transition_facts (s : MState) (sched : List Nat) (cap : Nat) (hcap : 0 < cap) :
    RInv (readShift { buf := [], pos := 0, cap := cap, atEnd := false,
                      src := s.file.drop (s.pos + s.mappedOff), sched := sched }) ∧
    rrest (readShift { buf := [], pos := 0, cap := cap, atEnd := false,
                       src := s.file.drop (s.pos + s.mappedOff), sched := sched }) = mrest s ∧
    rmu (readShift { buf := [], pos := 0, cap := cap, atEnd := false,
                     src := s.file.drop (s.pos + s.mappedOff), sched := sched }) < s.file.length + 2 := by
  obtain ⟨h1, h2, h3⟩ := initRead_facts cap hcap (s.file.drop (s.pos + s.mappedOff)) sched
  unfold initRead at h1 h2 h3
  refine ⟨h1, ?_, ?_⟩
  · rw [h2, mrest, Nat.add_comm]
  · have : (s.file.drop (s.pos + s.mappedOff)).length ≤ s.file.length := by simp
    omega

def fallbackSys : Sys' fallbackBacking where
  Inv := fInv
  rest := frest
  mu := fmu
  pos_le := fun s h => by
    cases s with
    | m s k sc => exact mmapSys.pos_le s h
    | r s => exact readSys.pos_le s h
  pfx := fun s h => by
    cases s with
    | m s k sc => exact mmapSys.pfx s h
    | r s => exact readSys.pfx s h
  atEnd_rest := fun s h hE => by
    cases s with
    | m s k sc => exact mmapSys.atEnd_rest s h hE
    | r s => exact readSys.atEnd_rest s h hE
  shift := fun s h hE => by
    cases s with
    | r s =>
      obtain ⟨h1, h2, _, h4⟩ := readSys.shift s h hE
      exact ⟨h1, h2, h4⟩
    | m s k sc =>
      cases k with
      | succ k =>
        obtain ⟨h1, h2, _, h4⟩ := mmapShift_sys s h hE
        refine ⟨h1, h2, ?_⟩
        show mmu (mmapShift s) + (mmapShift s).file.length + 2 < mmu s + s.file.length + 2
        have hf : (mmapShift s).file = s.file := rfl
        rw [hf]; omega
      | zero =>
        have hc : 0 < s.cap := h.2.2.2.2.1
        have hcap : 0 < (if s.mapped && s.pos == (s.pos + s.mappedOff) % s.page then s.cap * 2 else s.cap) := by
          split <;> omega
        obtain ⟨h1, h2, h3⟩ := transition_facts s sc _ hcap
        refine ⟨h1, h2, ?_⟩
        show rmu _ < mmu s + s.file.length + 2
        exact Nat.lt_of_lt_of_le h3 (by omega)
  setPos := fun s p h h1 h2 => by
    cases s with
    | m s k sc =>
      obtain ⟨a1, a2, a3, a4, a5, a6⟩ := mmapSys.setPos s p h h1 h2
      refine ⟨a1, a2, a3, a4, a5, ?_⟩
      show mmu { s with pos := p } + s.file.length + 2 = mmu s + s.file.length + 2
      rfl
    | r s =>
      exact readSys.setPos s p h h1 h2

theorem initFallback_facts (file : List UInt8) (page cap0 start mapsLeft : Nat) (sched : List Nat)
    (hpage : 0 < page) (hcap : 0 < cap0) (hdvd : page ∣ cap0) (hstart : start ≤ file.length) :
    fInv (initFallback file page cap0 start mapsLeft sched) ∧
    frest (initFallback file page cap0 start mapsLeft sched) = file.drop start ∧
    fmu (initFallback file page cap0 start mapsLeft sched) < 2 * (file.length + 2) := by
  cases mapsLeft with
  | succ k =>
    obtain ⟨h1, h2, h3⟩ := initMmap_facts file page cap0 start hpage hcap hdvd hstart
    refine ⟨h1, h2, ?_⟩
    show mmu (initMmap file page cap0 start) + (initMmap file page cap0 start).file.length + 2 < _
    have hf : (initMmap file page cap0 start).file = file := rfl
    rw [hf]; omega
  | zero =>
    obtain ⟨h1, h2, h3⟩ := initRead_facts cap0 hcap (file.drop start) sched
    have e : initFallback file page cap0 start 0 sched = .r (initRead cap0 (file.drop start) sched) := by
      simp [initFallback, fbShift, initRead]
    rw [e]
    refine ⟨h1, h2, ?_⟩
    show rmu _ < _
    have : (file.drop start).length ≤ file.length := by simp
    omega

theorem readAll_fallback (delim : UInt8) (stripCr : Bool) (file : List UInt8) (page cap0 start mapsLeft : Nat)
    (sched : List Nat) (hpage : 0 < page) (hcap : 0 < cap0) (hdvd : page ∣ cap0) (hstart : start ≤ file.length) :
    ∃ s', readAll fallbackBacking delim stripCr (2 * (file.length + 2)) (file.length + 2)
        (initFallback file page cap0 start mapsLeft sched)
        = some (splitRecords delim stripCr (file.drop start), s') ∧
      s'.atEnd = true ∧ s'.pos = s'.buf.length := by
  obtain ⟨h1, h2, h3⟩ := initFallback_facts file page cap0 start mapsLeft sched hpage hcap hdvd hstart
  obtain ⟨s', e, _, e3, e4⟩ := readAll_post' fallbackSys delim stripCr (2 * (file.length + 2)) (file.length + 2)
    (initFallback file page cap0 start mapsLeft sched) h1 h3
    (by show (frest _).length < _; rw [h2]; simp; omega)
  refine ⟨s', ?_, e3, e4⟩
  rw [e]; show some (splitRecords delim stripCr (frest _), s') = _; rw [h2]

end PV.Lemmas.ReaderFallback
