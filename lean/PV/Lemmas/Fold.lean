import PV.Model.Fold
import PV.Model.Utf8
import PV.Lemmas.Utf8
namespace PV.Lemmas.Fold
end PV.Lemmas.Fold
