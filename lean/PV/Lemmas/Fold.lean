import PV.Model.Fold
import PV.Model.Utf8
import PV.Lemmas.Utf8
namespace PV.Lemmas.Fold
open PV.Fold PV.Utf8 PV.Spec.Utf8 PV.Lemmas.Utf8

/-! ### well-formed byte strings, code point boundaries -/

/-- well-formed UTF-8 (same as `Spec.Utf8.WellFormed`) -/
def WF (bs : List UInt8) : Prop :=
  ∃ cs : List Nat, (∀ c ∈ cs, Scalar c) ∧ bs = cs.flatMap encodeCP

theorem decodeAll_iff' (bs : List UInt8) (cs : List Nat) :
    decodeAll bs = some cs ↔ ((∀ c ∈ cs, Scalar c) ∧ bs = cs.flatMap encodeCP) :=
  decodeAllFuel_iff bs.length bs cs (Nat.le_refl _)

theorem isUTF8_iff_WF (bs : List UInt8) : isUTF8 bs = true ↔ WF bs := by
  unfold isUTF8 WF
  rw [Option.isSome_iff_exists]
  exact exists_congr fun cs => decodeAll_iff' bs cs

theorem WF_nil : WF [] := ⟨[], by simp, rfl⟩

theorem WF_append {a b : List UInt8} : WF a → WF b → WF (a ++ b) := by
  rintro ⟨ca, ha, rfl⟩ ⟨cb, hb, rfl⟩
  refine ⟨ca ++ cb, ?_, by rw [List.flatMap_append]⟩
  intro c hc
  rcases List.mem_append.mp hc with h | h
  · exact ha c h
  · exact hb c h

theorem WF_encodeCP {c : Nat} (hc : Scalar c) : WF (encodeCP c) :=
  ⟨[c], by simpa using hc, by simp⟩

theorem decodeAll_encodeCP {c : Nat} (hc : Scalar c) : decodeAll (encodeCP c) = some [c] := by
  rw [decodeAll_iff']
  exact ⟨by simpa using hc, by simp⟩

theorem decode_mono {x y : List UInt8} {c n : Nat} (h : decode x = some (c, n)) (hp : x <+: y) :
    decode y = some (c, n) := by
  rw [decode_eq_some_iff] at h ⊢
  exact ⟨h.1, h.2.1, h.2.2.trans hp⟩

/-- the first code point of a non-empty well-formed string -/
theorem WF_decode {b : List UInt8} (hb : WF b) (hne : b ≠ []) :
    ∃ c n, decode b = some (c, n) ∧ Scalar c ∧ 1 ≤ n ∧ n = (encodeCP c).length ∧
      b.take n = encodeCP c ∧ WF (b.drop n) := by
  obtain ⟨cs, hs, rfl⟩ := hb
  cases cs with
  | nil => simp at hne
  | cons c cs =>
    refine ⟨c, (encodeCP c).length, ?_, hs c (List.mem_cons_self ..), encodeCP_length_pos c, rfl, ?_, ?_⟩
    · rw [decode_eq_some_iff]
      exact ⟨hs c (List.mem_cons_self ..), rfl, by rw [List.flatMap_cons]; exact List.prefix_append _ _⟩
    · rw [List.flatMap_cons, List.take_left' rfl]
    · rw [List.flatMap_cons, List.drop_left' rfl]
      exact ⟨cs, fun x hx => hs x (List.mem_cons_of_mem _ hx), rfl⟩

/-- UTF-8 is a prefix code: a well-formed prefix of a well-formed string leaves a well-formed rest -/
theorem WF_cancel_aux : ∀ (cs : List Nat) (y : List UInt8), (∀ c ∈ cs, Scalar c) →
    WF (cs.flatMap encodeCP ++ y) → WF y
  | [], y, _, h => by simpa using h
  | c :: cs, y, hs, h => by
    have hc : Scalar c := hs c (List.mem_cons_self ..)
    have hlen := encodeCP_length_pos c
    have hne : (c :: cs).flatMap encodeCP ++ y ≠ [] := by
      intro h0
      have := congrArg List.length h0
      simp only [List.flatMap_cons, List.length_append, List.length_nil] at this
      omega
    obtain ⟨c', n, hdec, _, _, hn, htake, hdrop⟩ := WF_decode h hne
    have hdec' : decode ((c :: cs).flatMap encodeCP ++ y) = some (c, (encodeCP c).length) := by
      rw [decode_eq_some_iff]
      refine ⟨hc, rfl, ?_⟩
      rw [List.flatMap_cons, List.append_assoc]
      exact List.prefix_append _ _
    rw [hdec] at hdec'
    simp only [Option.some.injEq, Prod.mk.injEq] at hdec'
    obtain ⟨rfl, rfl⟩ := hdec'
    rw [List.flatMap_cons, List.append_assoc, List.drop_left' rfl] at hdrop
    exact WF_cancel_aux cs y (fun x hx => hs x (List.mem_cons_of_mem _ hx)) hdrop

theorem WF_cancel_left {x y : List UInt8} (hx : WF x) (hxy : WF (x ++ y)) : WF y := by
  obtain ⟨cs, hs, rfl⟩ := hx
  exact WF_cancel_aux cs y hs hxy

/-- `p` is a code point boundary of `line` -/
def Bd (line : List UInt8) (p : Nat) : Prop := p ≤ line.length ∧ WF (line.take p)

theorem Bd_zero (line : List UInt8) : Bd line 0 := ⟨Nat.zero_le _, by simpa using WF_nil⟩

theorem Bd_length {line : List UInt8} (hv : WF line) : Bd line line.length :=
  ⟨Nat.le_refl _, by simpa using hv⟩

theorem Bd_drop {line : List UInt8} (hv : WF line) {p : Nat} (hp : Bd line p) : WF (line.drop p) := by
  apply WF_cancel_left hp.2
  rw [List.take_append_drop]; exact hv

theorem slice_length (line : List UInt8) (a b : Nat) (hb : b ≤ line.length) :
    (slice line a b).length = b - a := by
  unfold slice
  rw [List.length_drop, List.length_take]; omega

theorem slice_self (line : List UInt8) (a : Nat) : slice line a a = [] := by
  unfold slice; simp

theorem slice_append (line : List UInt8) {a b c : Nat} (hab : a ≤ b) (hbc : b ≤ c)
    (hc : c ≤ line.length) :
    slice line a c = slice line a b ++ slice line b c := by
  unfold slice
  have h1 : List.take c line = List.take b line ++ List.drop b (List.take c line) := by
    have : List.take b line = List.take b (List.take c line) := by
      rw [List.take_take, Nat.min_eq_left hbc]
    rw [this, List.take_append_drop]
  conv => lhs; rw [h1]
  rw [List.drop_append_of_le_length (by rw [List.length_take]; omega)]

theorem take_append_slice (line : List UInt8) {a b : Nat} (hab : a ≤ b) :
    line.take a ++ slice line a b = line.take b := by
  unfold slice
  have : List.take a line = List.take a (List.take b line) := by
    rw [List.take_take, Nat.min_eq_left hab]
  rw [this, List.take_append_drop]

theorem slice_eq_take_drop (line : List UInt8) (a b : Nat) :
    slice line a b = (line.drop a).take (b - a) := by
  unfold slice; rw [List.drop_take]

theorem Bd_slice {line : List UInt8} {a b : Nat} (ha : Bd line a) (hb : Bd line b) (hab : a ≤ b) :
    WF (slice line a b) := by
  apply WF_cancel_left ha.2
  rw [take_append_slice line hab]; exact hb.2

/-- decoding at a boundary before the end succeeds and leads to the next boundary -/
theorem Bd_step {line : List UInt8} (hv : WF line) {p : Nat} (hp : Bd line p) (hlt : p < line.length) :
    ∃ c n, decode (line.drop p) = some (c, n) ∧ Scalar c ∧ 1 ≤ n ∧ p + n ≤ line.length ∧
      Bd line (p + n) ∧ slice line p (p + n) = encodeCP c := by
  have hne : line.drop p ≠ [] := by
    intro h0
    have := congrArg List.length h0
    rw [List.length_drop] at this; simp at this; omega
  obtain ⟨c, n, hdec, hc, h1, hn, htake, hdrop⟩ := WF_decode (Bd_drop hv hp) hne
  have hle : p + n ≤ line.length := by
    have := congrArg List.length htake
    rw [List.length_take, List.length_drop, ← hn] at this
    omega
  refine ⟨c, n, hdec, hc, h1, hle, ⟨hle, ?_⟩, ?_⟩
  · rw [List.take_add, htake]
    exact WF_append hp.2 (WF_encodeCP hc)
  · rw [slice_eq_take_drop, Nat.add_sub_cancel_left, htake]

/-- boundaries do not fall inside a code point -/
theorem Bd_nest {line : List UInt8} {a b c n : Nat} (ha : Bd line a) (hb : Bd line b)
    (hab : a < b) (hdec : decode (line.drop a) = some (c, n)) : a + n ≤ b := by
  have hwf := Bd_slice ha hb (Nat.le_of_lt hab)
  have hlen := slice_length line a b hb.1
  have hne : slice line a b ≠ [] := by
    intro h0; rw [h0] at hlen; simp at hlen; omega
  obtain ⟨c', n', hdec', _, _, hn', htake, _⟩ := WF_decode hwf hne
  have hpre : slice line a b <+: line.drop a := by
    rw [slice_eq_take_drop]; exact List.take_prefix _ _
  have := decode_mono hdec' hpre
  rw [hdec] at this
  simp only [Option.some.injEq, Prod.mk.injEq] at this
  obtain ⟨rfl, rfl⟩ := this
  have := congrArg List.length htake
  rw [List.length_take, hlen, ← hn'] at this
  omega

/-! ### delimiter runs and `peek` -/

/-- a concatenation of encoded delimiter code points -/
def DelimRun (o : Opts) (d : List UInt8) : Prop :=
  ∃ cs : List Nat, (∀ c ∈ cs, Scalar c ∧ c ∈ o.delims) ∧ d = cs.flatMap encodeCP

theorem DelimRun_nil (o : Opts) : DelimRun o [] := ⟨[], by simp, rfl⟩

theorem DelimRun_cons {o : Opts} {c : Nat} {d : List UInt8} (hs : Scalar c) (hc : c ∈ o.delims)
    (hd : DelimRun o d) : DelimRun o (encodeCP c ++ d) := by
  obtain ⟨cs, h, rfl⟩ := hd
  refine ⟨c :: cs, ?_, by rw [List.flatMap_cons]⟩
  intro x hx
  rcases List.mem_cons.mp hx with rfl | hx
  · exact ⟨hs, hc⟩
  · exact h x hx

theorem DelimRun_WF {o : Opts} {d : List UInt8} (hd : DelimRun o d) : WF d := by
  obtain ⟨cs, h, rfl⟩ := hd
  exact ⟨cs, fun c hc => (h c hc).1, rfl⟩

theorem DelimRun_decodeAll {o : Opts} {d : List UInt8} (hd : DelimRun o d) :
    ∃ cs, decodeAll d = some cs ∧ ∀ c ∈ cs, c ∈ o.delims := by
  obtain ⟨cs, h, rfl⟩ := hd
  exact ⟨cs, (decodeAll_iff' _ _).mpr ⟨fun c hc => (h c hc).1, rfl⟩, fun c hc => (h c hc).2⟩

theorem findDelimiter_mem {ds : List Nat} {c : Nat} (h : (findDelimiter ds c).isNone = false) :
    c ∈ ds := by
  unfold findDelimiter at h
  cases hf : ds.findIdx? (· == c) with
  | none => rw [hf] at h; simp at h
  | some i =>
    apply Classical.byContradiction
    intro hc
    have : ds.findIdx? (· == c) = none := by
      rw [List.findIdx?_eq_none_iff]
      intro x hx
      apply Bool.eq_false_iff.mpr
      intro hxc
      exact hc ((beq_iff_eq.mp hxc) ▸ hx)
    rw [this] at hf; cases hf

/-- the code point at boundary `p` is not a delimiter -/
def NonDelimAt (line : List UInt8) (o : Opts) (p : Nat) : Prop :=
  ∃ c n, decode (line.drop p) = some (c, n) ∧ (findDelimiter o.delims c).isNone = true

/-- why `peek` stopped at `pce` -/
def StopReason (line : List UInt8) (o : Opts) (last pce : Nat) : Prop :=
  pce ≥ line.length ∨ (o.keep = true ∧ pce - last ≥ o.width) ∨
    ∃ c n, decode (line.drop pce) = some (c, n) ∧
      ((o.keep = true ∧ pce + n - last > o.width) ∨ (findDelimiter o.delims c).isNone = true)

theorem peek_spec (line : List UInt8) (o : Opts) (last : Nat) (hv : WF line) :
    ∀ (fuel p0 : Nat), Bd line p0 → line.length - p0 + 1 ≤ fuel →
    ∃ pce, peek line o last fuel p0 = some pce ∧ p0 ≤ pce ∧ Bd line pce ∧
      DelimRun o (slice line p0 pce) ∧
      (o.keep = true → pce - last ≤ max o.width (p0 - last)) ∧
      (∀ b, Bd line b → p0 ≤ b → NonDelimAt line o b → pce ≤ b) ∧
      StopReason line o last pce := by
  intro fuel
  induction fuel with
  | zero => intro p0 _ h; omega
  | succ fuel ih =>
    intro p0 hb hf
    rw [peek]
    have stop : ∀ (hs : StopReason line o last p0),
        ∃ pce, some p0 = some pce ∧ p0 ≤ pce ∧ Bd line pce ∧
        DelimRun o (slice line p0 pce) ∧
        (o.keep = true → pce - last ≤ max o.width (p0 - last)) ∧
        (∀ b, Bd line b → p0 ≤ b → NonDelimAt line o b → pce ≤ b) ∧
        StopReason line o last pce := by
      intro hs
      refine ⟨p0, rfl, Nat.le_refl _, hb, ?_, ?_, ?_, hs⟩
      · rw [slice_self]; exact DelimRun_nil o
      · intro _; exact Nat.le_max_right _ _
      · intro b _ h _; exact h
    split
    · exact stop (Or.inl ‹_›)
    · rename_i hlt
      split
      · rename_i hk
        simp only [Bool.and_eq_true, decide_eq_true_eq] at hk
        exact stop (Or.inr (Or.inl hk))
      · rename_i hk
        obtain ⟨c, n, hdec, hc, h1, hle, hbn, hsl⟩ := Bd_step hv hb (by omega)
        rw [hdec]
        simp only
        split
        · rename_i hk2
          simp only [Bool.and_eq_true, decide_eq_true_eq] at hk2
          exact stop (Or.inr (Or.inr ⟨c, n, hdec, Or.inl hk2⟩))
        · rename_i hk2
          split
          · rename_i hnd
            exact stop (Or.inr (Or.inr ⟨c, n, hdec, Or.inr hnd⟩))
          · rename_i hnd
            obtain ⟨pce, hp, hle2, hbd, hrun, hkeep, hnp, hsr⟩ := ih (p0 + n) hbn (by omega)
            refine ⟨pce, hp, by omega, hbd, ?_, ?_, ?_, hsr⟩
            · rw [slice_append line (Nat.le_add_right p0 n) hle2 hbd.1, hsl]
              exact DelimRun_cons hc (findDelimiter_mem (Bool.eq_false_iff.mpr hnd)) hrun
            · intro hkt
              have := hkeep hkt
              simp only [hkt, Bool.true_and, decide_eq_true_eq] at hk2
              have := Nat.le_max_left o.width (p0 - last)
              rcases Nat.le_total o.width (p0 + n - last) with h | h
              · rw [Nat.max_eq_right h] at *; omega
              · rw [Nat.max_eq_left h] at *; omega
            · intro b hbb hpb hndb
              rcases Nat.eq_or_lt_of_le hpb with rfl | hlt'
              · obtain ⟨c', n', hdec', hn'⟩ := hndb
                rw [hdec] at hdec'
                simp only [Option.some.injEq, Prod.mk.injEq] at hdec'
                obtain ⟨rfl, rfl⟩ := hdec'
                exact absurd hn' hnd
              · exact hnp b hbb (Bd_nest hb hbb hlt' hdec) hndb

/-! ### one iteration of `loop` -/

def posCutOf (pd : List Nat) (last pos : Nat) : Nat :=
  match pd.find? (· > last) with
  | some p => p
  | none => pos

def cutState (line : List UInt8) (o : Opts) (s : St) (pd : List Nat) (pfd posCut pce : Nat) : St :=
  { pos := pce, last := pce, pd := pd, pfd := pfd,
    out := (if o.keep then (slice line s.last pce, [])
            else (slice line s.last posCut, slice line posCut pce)) :: s.out }

def cutStep (line : List UInt8) (o : Opts) (s : St) (pd : List Nat) (pfd pos : Nat) : Option St :=
  match peek line o s.last (line.length + 1) (posCutOf pd s.last pos) with
  | none => none
  | some pce => some (cutState line o s pd pfd (posCutOf pd s.last pos) pce)

/-- one iteration of `loop` after decoding and updating `pd`/`pfd` -/
def step2 (line : List UInt8) (o : Opts) (s : St) (cl : Nat) (pd : List Nat) (pfd : Nat) : Option St :=
  let pos := s.pos + cl
  let overshoot := pos - s.last > o.width && pos - cl > s.last
  let pos := if overshoot then pos - cl else pos
  if !overshoot && pos - s.last < o.width then
    some { s with pos := pos, pd := pd, pfd := pfd }
  else cutStep line o s pd pfd pos

def step (line : List UInt8) (o : Opts) (s : St) : Option St :=
  match decode (line.drop s.pos) with
  | none => none
  | some (ch, cl) =>
    match findDelimiter o.delims ch with
    | some i => step2 line o s cl (s.pd.set i s.pfd) s.pfd
    | none => step2 line o s cl s.pd (s.pos + cl)

theorem bind_ite {α β : Type} (c : Prop) [Decidable c] (a b : Option α) (g : α → Option β) :
    (if c then a else b).bind g = if c then a.bind g else b.bind g := by
  split <;> rfl

theorem loop_succ (line : List UInt8) (o : Opts) (fuel : Nat) (s : St) :
    loop line o (fuel + 1) s =
      if s.pos ≥ line.length then some s else (step line o s).bind (loop line o fuel) := by
  rw [loop]
  split
  · rfl
  · unfold step
    cases hdec : decode (line.drop s.pos) with
    | none => rfl
    | some r =>
      obtain ⟨ch, cl⟩ := r
      simp only
      cases hfd : findDelimiter o.delims ch with
      | none =>
        simp only [step2, cutStep, cutState, posCutOf]
        rw [bind_ite]
        congr 1
        generalize peek line o s.last _ _ = P
        cases P <;> rfl
      | some i =>
        simp only [step2, cutStep, cutState, posCutOf]
        rw [bind_ite]
        congr 1
        generalize peek line o s.last _ _ = P
        cases P <;> rfl

/-! ### the loop invariant -/

def ItemOK (o : Opts) (it : List UInt8 × List UInt8) : Prop :=
  (it.1.length ≤ o.width ∨ ∃ c, decodeAll it.1 = some [c]) ∧ WF it.1 ∧
  (o.keep = true → it.2 = []) ∧ DelimRun o it.2

structure Inv (line : List UInt8) (o : Opts) (s : St) : Prop where
  le1 : s.last ≤ s.pos
  bl : Bd line s.last
  bp : Bd line s.pos
  bpd : ∀ p ∈ s.pd, Bd line p
  bpfd : Bd line s.pfd
  w3 : s.pos - s.last < o.width
  w4 : ∀ p ∈ s.pd, p - s.last ≤ o.width
  w5 : s.pfd - s.last ≤ o.width ∨ NonDelimAt line o s.pos
  cat : (s.out.reverse).flatMap (fun x => x.1 ++ x.2) = line.take s.last
  items : ∀ it ∈ s.out, ItemOK o it ∧ it.1 ≠ []

def mu (line : List UInt8) (s : St) : Nat :=
  (line.length - s.last) * (line.length + 2) + (line.length - s.pos) + 1

theorem posCutOf_cases (pd : List Nat) (last pos : Nat) :
    (posCutOf pd last pos = pos) ∨ (posCutOf pd last pos ∈ pd ∧ last < posCutOf pd last pos) := by
  unfold posCutOf
  cases hf : pd.find? (· > last) with
  | none => exact Or.inl rfl
  | some p =>
    right
    exact ⟨List.mem_of_find?_eq_some hf, by simpa using List.find?_some hf⟩

/-- the "single code point wider than the width" situation -/
def Single (o : Opts) (s : St) (cl pos : Nat) : Prop :=
  s.pos = s.last ∧ pos = s.last + cl ∧ o.width < cl

theorem cutStep_spec (line : List UInt8) (o : Opts) (hv : WF line) (hw : 1 ≤ o.width) (s : St)
    (hI : Inv line o s) (ch cl : Nat) (hdec : decode (line.drop s.pos) = some (ch, cl))
    (hch : Scalar ch) (hsl : slice line s.pos (s.pos + cl) = encodeCP ch)
    (pd : List Nat) (pfd pos : Nat)
    (hpd : ∀ p ∈ pd, Bd line p ∧ p - s.last ≤ o.width) (hpfd : Bd line pfd)
    (hpos : s.last < pos) (hbpos : Bd line pos)
    (hW : pos - s.last ≤ o.width ∨ Single o s cl pos)
    (h5 : pfd - s.last ≤ o.width ∨ (pfd = pos ∧ Single o s cl pos) ∨
      (NonDelimAt line o pos ∧ pos - s.last < o.width ∧ ∀ p ∈ pd, s.last < p → p ≤ pos)) :
    ∃ s', cutStep line o s pd pfd pos = some s' ∧ Inv line o s' ∧ mu line s' < mu line s := by
  -- facts about the cut position
  have hpc : s.last < posCutOf pd s.last pos ∧ Bd line (posCutOf pd s.last pos) ∧
      ((posCutOf pd s.last pos - s.last ≤ o.width ∧ ¬ Single o s cl pos) ∨
        (Single o s cl pos ∧ posCutOf pd s.last pos = pos)) ∧
      ((∀ p ∈ pd, s.last < p → p ≤ pos) → posCutOf pd s.last pos ≤ pos) := by
    rcases posCutOf_cases pd s.last pos with h | ⟨hm, hl⟩
    · rw [h]
      refine ⟨hpos, hbpos, ?_, fun _ => Nat.le_refl _⟩
      by_cases hS : Single o s cl pos
      · exact Or.inr ⟨hS, rfl⟩
      · rcases hW with h | h
        · exact Or.inl ⟨h, hS⟩
        · exact absurd h hS
    · refine ⟨hl, (hpd _ hm).1, Or.inl ⟨(hpd _ hm).2, ?_⟩, fun h => h _ hm hl⟩
      rintro ⟨h1, h2, h3⟩
      rw [h1] at hdec
      have := Bd_nest hI.bl (hpd _ hm).1 hl hdec
      have := (hpd _ hm).2
      omega
  unfold cutStep
  generalize posCutOf pd s.last pos = pc at hpc ⊢
  obtain ⟨hpc1, hpc2, hpc3, hpc4⟩ := hpc
  obtain ⟨pce, hpk, hle, hbe, hrun, hkeep, hnp, hsr⟩ :=
    peek_spec line o s.last hv (line.length + 1) pc hpc2 (by omega)
  have hbl := hI.bl
  have hpcel : pce ≤ line.length := hbe.1
  refine ⟨cutState line o s pd pfd pc pce, ?_, ?_, ?_⟩
  · rw [hpk]
  · -- the emitted item
    have hpiece1 : slice line s.last pc ≠ [] := by
      intro h0
      have := slice_length line s.last pc hpc2.1
      rw [h0] at this; simp at this; omega
    have hwpc : (slice line s.last pc).length ≤ o.width ∨
        ∃ c, decodeAll (slice line s.last pc) = some [c] := by
      rcases hpc3 with ⟨h, _⟩ | ⟨⟨h1, h2, h3⟩, h4⟩
      · left; rw [slice_length line s.last pc hpc2.1]; exact h
      · right
        refine ⟨ch, ?_⟩
        rw [h4, h2, ← h1, hsl]
        exact decodeAll_encodeCP hch
    have hitem : ItemOK o (if o.keep then (slice line s.last pce, [])
        else (slice line s.last pc, slice line pc pce)) ∧
        (if o.keep then (slice line s.last pce, [])
        else (slice line s.last pc, slice line pc pce)).1 ≠ [] := by
      cases hk : o.keep with
      | false =>
        simp only [Bool.false_eq_true, if_false]
        have hkf : o.keep = true → slice line pc pce = [] := by
          intro h; rw [hk] at h; cases h
        exact ⟨⟨hwpc, Bd_slice hbl hpc2 (by omega), hkf, hrun⟩, hpiece1⟩
      | true =>
        simp only [if_true]
        have hk' := hkeep hk
        refine ⟨⟨?_, Bd_slice hbl hbe (by omega), fun _ => rfl, DelimRun_nil o⟩, ?_⟩
        · rcases hpc3 with ⟨h, _⟩ | ⟨⟨h1, h2, h3⟩, h4⟩
          · left
            rw [slice_length line s.last pce hpcel]
            rw [Nat.max_eq_left h] at hk'; exact hk'
          · have : pce = pc := by
              have : o.width ≤ pc - s.last := by omega
              rw [Nat.max_eq_right this] at hk'; omega
            rw [this]; exact hwpc
        · intro h0
          have := slice_length line s.last pce hpcel
          rw [h0] at this; simp at this; omega
    have hcat : line.take s.last ++ (if o.keep then (slice line s.last pce, [])
        else (slice line s.last pc, slice line pc pce)).1 ++ (if o.keep then (slice line s.last pce, [])
        else (slice line s.last pc, slice line pc pce)).2 = line.take pce := by
      cases hk : o.keep with
      | false =>
        simp only [Bool.false_eq_true, if_false]
        rw [List.append_assoc, ← slice_append line (Nat.le_of_lt hpc1) hle hpcel,
          take_append_slice line (by omega)]
      | true =>
        simp only [if_true, List.append_nil]
        rw [take_append_slice line (by omega)]
    constructor
    · exact Nat.le_refl _
    · exact hbe
    · exact hbe
    · intro p hp; exact (hpd p hp).1
    · exact hpfd
    · simp only [cutState]; omega
    · intro p hp
      have := (hpd p hp).2
      simp only [cutState]; omega
    · simp only [cutState]
      rcases h5 with h | ⟨h1, h2⟩ | ⟨hnd, hlt, hall⟩
      · left; omega
      · left
        have : pc = pos := by
          rcases hpc3 with ⟨_, h⟩ | ⟨_, h⟩
          · exact absurd h2 h
          · exact h
        omega
      · have hpcpos := hpc4 hall
        have hpcepos := hnp pos hbpos hpcpos hnd
        rcases Nat.eq_or_lt_of_le hpcepos with heq | hlt2
        · right; rw [heq]; exact hnd
        · rcases hsr with h | ⟨_, h⟩ | ⟨c, n, hd, h | h⟩
          · have := hbpos.1
            obtain ⟨c', n', hd', _⟩ := hnd
            have : pos < line.length := by
              apply Classical.byContradiction
              intro hge
              have : line.drop pos = [] := List.drop_eq_nil_of_le (by omega)
              rw [this] at hd'
              simp [decode] at hd'
            omega
          · omega
          · have := Bd_nest hbe hbpos hlt2 hd
            omega
          · right; exact ⟨c, n, hd, h⟩
    · simp only [cutState, List.reverse_cons, List.flatMap_append, List.flatMap_cons,
        List.flatMap_nil, List.append_nil]
      rw [hI.cat, ← List.append_assoc]
      exact hcat
    · intro it hit
      simp only [cutState] at hit
      rcases List.mem_cons.mp hit with rfl | hit
      · exact hitem
      · exact hI.items it hit
  · have hm : (line.length - pce + 1) * (line.length + 2) ≤
        (line.length - s.last) * (line.length + 2) :=
      Nat.mul_le_mul_right _ (by omega)
    rw [Nat.add_mul, Nat.one_mul] at hm
    simp only [mu, cutState]
    omega

theorem step2_spec (line : List UInt8) (o : Opts) (hv : WF line) (hw : 1 ≤ o.width) (s : St)
    (hI : Inv line o s) (hlt : s.pos < line.length) (ch cl : Nat)
    (hdec : decode (line.drop s.pos) = some (ch, cl)) (pd : List Nat) (pfd : Nat)
    (hpd : ∀ p ∈ pd, Bd line p ∧ p - s.last ≤ o.width) (hpfd : Bd line pfd)
    (h5 : pfd - s.last ≤ o.width ∨ (pfd = s.pos + cl ∧ NonDelimAt line o s.pos)) :
    ∃ s', step2 line o s cl pd pfd = some s' ∧ Inv line o s' ∧ mu line s' < mu line s := by
  obtain ⟨c, n, hdec', hc, h1, hle, hbn, hsl⟩ := Bd_step hv hI.bp hlt
  rw [hdec] at hdec'
  simp only [Option.some.injEq, Prod.mk.injEq] at hdec'
  obtain ⟨rfl, rfl⟩ := hdec'
  have hle1 := hI.le1
  have hw3 := hI.w3
  unfold step2
  simp only [Nat.add_sub_cancel]
  by_cases hov : s.pos + cl - s.last > o.width ∧ s.pos > s.last
  · have e1 : (decide (s.pos + cl - s.last > o.width) && decide (s.pos > s.last)) = true := by
      simp [hov]
    simp only [e1, Bool.not_true, Bool.false_and, Bool.false_eq_true, if_false, if_true]
    apply cutStep_spec line o hv hw s hI ch cl hdec hc hsl pd pfd s.pos hpd hpfd hov.2 hI.bp
    · exact Or.inl (by omega)
    · rcases h5 with h | ⟨h, hnd⟩
      · exact Or.inl h
      · refine Or.inr (Or.inr ⟨hnd, hw3, ?_⟩)
        intro p hp hlp
        apply Classical.byContradiction
        intro hgt
        have := Bd_nest hI.bp (hpd p hp).1 (by omega) hdec
        have := (hpd p hp).2
        omega
  · have e1 : (decide (s.pos + cl - s.last > o.width) && decide (s.pos > s.last)) = false := by
      simp only [Bool.and_eq_false_iff, decide_eq_false_iff_not]
      by_cases h1 : s.pos + cl - s.last > o.width
      · exact Or.inr (fun h2 => hov ⟨h1, h2⟩)
      · exact Or.inl h1
    simp only [e1, Bool.not_false, Bool.true_and, Bool.false_eq_true, if_false, decide_eq_true_eq]
    by_cases hc2 : s.pos + cl - s.last < o.width
    · rw [if_pos hc2]
      refine ⟨_, rfl, ?_, ?_⟩
      · constructor
        · simp only; omega
        · exact hI.bl
        · exact hbn
        · intro p hp; exact (hpd p hp).1
        · exact hpfd
        · exact hc2
        · intro p hp; exact (hpd p hp).2
        · left
          rcases h5 with h | ⟨h, _⟩
          · exact h
          · simp only; omega
        · exact hI.cat
        · exact hI.items
      · simp only [mu]; omega
    · rw [if_neg hc2]
      apply cutStep_spec line o hv hw s hI ch cl hdec hc hsl pd pfd (s.pos + cl) hpd hpfd
        (by omega) hbn
      · by_cases hwd : s.pos + cl - s.last ≤ o.width
        · exact Or.inl hwd
        · exact Or.inr ⟨by omega, by omega, by omega⟩
      · rcases h5 with h | ⟨h, hnd⟩
        · exact Or.inl h
        · by_cases hwd : s.pos + cl - s.last ≤ o.width
          · exact Or.inl (by omega)
          · exact Or.inr (Or.inl ⟨h, by omega, by omega, by omega⟩)

theorem step_spec (line : List UInt8) (o : Opts) (hv : WF line) (hw : 1 ≤ o.width) (s : St)
    (hI : Inv line o s) (hlt : s.pos < line.length) :
    ∃ s', step line o s = some s' ∧ Inv line o s' ∧ mu line s' < mu line s := by
  obtain ⟨ch, cl, hdec, hc, h1, hle, hbn, hsl⟩ := Bd_step hv hI.bp hlt
  unfold step
  rw [hdec]
  simp only
  cases hfd : findDelimiter o.delims ch with
  | none =>
    simp only
    apply step2_spec line o hv hw s hI hlt ch cl hdec
    · intro p hp; exact ⟨hI.bpd p hp, hI.w4 p hp⟩
    · exact hbn
    · exact Or.inr ⟨rfl, ch, cl, hdec, by rw [hfd]; rfl⟩
  | some i =>
    simp only
    have hpfdw : s.pfd - s.last ≤ o.width := by
      rcases hI.w5 with h | ⟨c, n, hd, hn⟩
      · exact h
      · rw [hdec] at hd
        simp only [Option.some.injEq, Prod.mk.injEq] at hd
        obtain ⟨rfl, rfl⟩ := hd
        rw [hfd] at hn; cases hn
    apply step2_spec line o hv hw s hI hlt ch cl hdec
    · intro p hp
      rcases List.mem_or_eq_of_mem_set hp with h | rfl
      · exact ⟨hI.bpd p h, hI.w4 p h⟩
      · exact ⟨hI.bpfd, hpfdw⟩
    · exact hI.bpfd
    · exact Or.inl hpfdw

theorem loop_spec (line : List UInt8) (o : Opts) (hv : WF line) (hw : 1 ≤ o.width) :
    ∀ (fuel : Nat) (s : St), Inv line o s → mu line s ≤ fuel →
      ∃ s', loop line o fuel s = some s' ∧ Inv line o s' ∧ line.length ≤ s'.pos := by
  intro fuel
  induction fuel with
  | zero => intro s _ h; simp only [mu] at h; omega
  | succ fuel ih =>
    intro s hI hf
    rw [loop_succ]
    by_cases hge : s.pos ≥ line.length
    · rw [if_pos hge]; exact ⟨s, rfl, hI, hge⟩
    · rw [if_neg hge]
      obtain ⟨s', hs, hI', hmu⟩ := step_spec line o hv hw s hI (by omega)
      rw [hs]
      exact ih s' hI' (by omega)

theorem Inv_init (line : List UInt8) (o : Opts) (hw : 1 ≤ o.width) :
    Inv line o ⟨0, 0, List.replicate o.delims.length 0, 0, []⟩ := by
  constructor
  · exact Nat.le_refl _
  · exact Bd_zero line
  · exact Bd_zero line
  · intro p hp; rw [List.eq_of_mem_replicate hp]; exact Bd_zero line
  · exact Bd_zero line
  · simp only; omega
  · intro p hp; rw [List.eq_of_mem_replicate hp]; simp
  · left; simp
  · simp
  · intro it hit; cases hit

/-- master lemma about `wrapLines` -/
theorem wrapLines_spec (line : List UInt8) (o : Opts) (hv : WF line) (hw : 1 ≤ o.width) :
    ∃ ps, wrapLines line o = some ps ∧ ps.flatMap (fun x => x.1 ++ x.2) = line ∧
      (∀ it ∈ ps, ItemOK o it) ∧ ps ≠ [] ∧ (line ≠ [] → ∀ it ∈ ps, it.1 ≠ []) := by
  have hmu : mu line ⟨0, 0, List.replicate o.delims.length 0, 0, []⟩ ≤
      (line.length + 1) * (line.length + 2) := by
    simp only [mu, Nat.sub_zero]
    rw [Nat.add_mul, Nat.one_mul]; omega
  obtain ⟨s, hs, hI, hge⟩ := loop_spec line o hv hw _ _ (Inv_init line o hw) hmu
  have hpos : s.pos = line.length := Nat.le_antisymm hI.bp.1 hge
  have hle1 := hI.le1
  have hw3 := hI.w3
  unfold wrapLines
  rw [hs]
  simp only
  by_cases hc : s.last < s.pos ∨ s.pos = 0
  · have e : (decide (s.last < s.pos) || s.pos == 0) = true := by
      simpa using hc
    rw [if_pos e]
    refine ⟨_, rfl, ?_, ?_, ?_, ?_⟩
    · simp only [List.reverse_cons, List.flatMap_append, List.flatMap_cons,
        List.flatMap_nil, List.append_nil]
      rw [hI.cat, take_append_slice line hle1, hpos, List.take_length]
    · intro it hit
      rw [List.mem_reverse] at hit
      rcases List.mem_cons.mp hit with rfl | hit
      · refine ⟨Or.inl ?_, Bd_slice hI.bl hI.bp hle1, fun _ => rfl, DelimRun_nil o⟩
        simp only
        rw [slice_length line _ _ hI.bp.1]; omega
      · exact (hI.items it hit).1
    · simp
    · intro hne it hit
      rw [List.mem_reverse] at hit
      have hlen : 0 < line.length := List.length_pos_iff.mpr hne
      rcases List.mem_cons.mp hit with rfl | hit
      · simp only
        intro h0
        have := slice_length line s.last s.pos hI.bp.1
        rw [h0] at this; simp at this; omega
      · exact (hI.items it hit).2
  · have e : ¬ (decide (s.last < s.pos) || s.pos == 0) = true := by
      simpa using hc
    rw [if_neg e]
    have hlast : s.last = line.length := by omega
    have hcat := hI.cat
    rw [hlast, List.take_length] at hcat
    refine ⟨_, rfl, hcat, ?_, ?_, ?_⟩
    · intro it hit
      rw [List.mem_reverse] at hit
      exact (hI.items it hit).1
    · intro h0
      rw [h0] at hcat
      simp only [List.flatMap_nil] at hcat
      rw [← hcat] at hpos
      simp at hpos; omega
    · intro _ it hit
      rw [List.mem_reverse] at hit
      exact (hI.items it hit).2

/-! ### the reader thread -/

theorem pairFun_eq : (fun (x : List UInt8 × List UInt8) => match x with | (p, d) => p ++ d) =
    fun x => x.1 ++ x.2 := by
  funext ⟨p, d⟩; rfl

theorem stripCr_eq (r : List UInt8) : stripCr r = r := by
  unfold stripCr
  simp [PV.Gen.foldfilterCollectStripCr]

theorem rejoin_id (ps : List (List UInt8 × List UInt8)) :
    rejoin id ps = ps.flatMap (fun x => x.1 ++ x.2) := by
  unfold rejoin
  congr 1

theorem foldfilter_id (o : Opts) (hw : 1 ≤ o.width) : ∀ (lines : List (List UInt8)),
    (∀ l ∈ lines, WF l) → foldfilter id o lines = some lines
  | [], _ => rfl
  | l :: ls, hv => by
    obtain ⟨ps, hps, hcat, _⟩ := wrapLines_spec l o (hv l (List.mem_cons_self ..)) hw
    have ih := foldfilter_id o hw ls (fun x hx => hv x (List.mem_cons_of_mem _ hx))
    rw [foldfilter, hps, ih]
    simp only [rejoin_id, hcat]

theorem foldfilter_length (child : List UInt8 → List UInt8) (o : Opts) (hw : 1 ≤ o.width) :
    ∀ (lines : List (List UInt8)), (∀ l ∈ lines, WF l) →
      ∃ out, foldfilter child o lines = some out ∧ out.length = lines.length
  | [], _ => ⟨[], rfl, rfl⟩
  | l :: ls, hv => by
    obtain ⟨ps, hps, _⟩ := wrapLines_spec l o (hv l (List.mem_cons_self ..)) hw
    obtain ⟨out, hout, hlen⟩ :=
      foldfilter_length child o hw ls (fun x hx => hv x (List.mem_cons_of_mem _ hx))
    refine ⟨rejoin child ps :: out, ?_, by simp [hlen]⟩
    rw [foldfilter, hps, hout]

end PV.Lemmas.Fold
