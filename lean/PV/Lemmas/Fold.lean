import PV.Model.Fold
import PV.Model.Utf8
import PV.Lemmas.Utf8
namespace PV.Lemmas.Fold
open PV.Fold PV.Utf8 PV.Spec.Utf8 PV.Lemmas.Utf8

/-! ### well-formed byte strings, code point boundaries -/

/-- well-formed UTF-8 (same as `Spec.Utf8.WellFormed`) -/
def WF (bs : List UInt8) : Prop :=
  ∃ cs : List Nat, (∀ c ∈ cs, Scalar c) ∧ bs = cs.flatMap encodeCP

theorem decodeAll_iff' (bs : List UInt8) (cs : List Nat) :
    decodeAll bs = some cs ↔ ((∀ c ∈ cs, Scalar c) ∧ bs = cs.flatMap encodeCP) :=
  decodeAllFuel_iff bs.length bs cs (Nat.le_refl _)

theorem isUTF8_iff_WF (bs : List UInt8) : isUTF8 bs = true ↔ WF bs := by
  unfold isUTF8 WF
  rw [Option.isSome_iff_exists]
  exact exists_congr fun cs => decodeAll_iff' bs cs

theorem WF_nil : WF [] := ⟨[], by simp, rfl⟩

theorem WF_append {a b : List UInt8} : WF a → WF b → WF (a ++ b) := by
  rintro ⟨ca, ha, rfl⟩ ⟨cb, hb, rfl⟩
  refine ⟨ca ++ cb, ?_, by rw [List.flatMap_append]⟩
  intro c hc
  rcases List.mem_append.mp hc with h | h
  · exact ha c h
  · exact hb c h

theorem WF_encodeCP {c : Nat} (hc : Scalar c) : WF (encodeCP c) :=
  ⟨[c], by simpa using hc, by simp⟩

theorem decodeAll_encodeCP {c : Nat} (hc : Scalar c) : decodeAll (encodeCP c) = some [c] := by
  rw [decodeAll_iff']
  exact ⟨by simpa using hc, by simp⟩

theorem decode_mono {x y : List UInt8} {c n : Nat} (h : decode x = some (c, n)) (hp : x <+: y) :
    decode y = some (c, n) := by
  rw [decode_eq_some_iff] at h ⊢
  exact ⟨h.1, h.2.1, h.2.2.trans hp⟩

/-- the first code point of a non-empty well-formed string -/
theorem WF_decode {b : List UInt8} (hb : WF b) (hne : b ≠ []) :
    ∃ c n, decode b = some (c, n) ∧ Scalar c ∧ 1 ≤ n ∧ n = (encodeCP c).length ∧
      b.take n = encodeCP c ∧ WF (b.drop n) := by
  obtain ⟨cs, hs, rfl⟩ := hb
  cases cs with
  | nil => simp at hne
  | cons c cs =>
    refine ⟨c, (encodeCP c).length, ?_, hs c (List.mem_cons_self ..), encodeCP_length_pos c, rfl, ?_, ?_⟩
    · rw [decode_eq_some_iff]
      exact ⟨hs c (List.mem_cons_self ..), rfl, by rw [List.flatMap_cons]; exact List.prefix_append _ _⟩
    · rw [List.flatMap_cons, List.take_left' rfl]
    · rw [List.flatMap_cons, List.drop_left' rfl]
      exact ⟨cs, fun x hx => hs x (List.mem_cons_of_mem _ hx), rfl⟩

/-- UTF-8 is a prefix code: a well-formed prefix of a well-formed string leaves a well-formed rest -/
theorem WF_cancel_aux : ∀ (cs : List Nat) (y : List UInt8), (∀ c ∈ cs, Scalar c) →
    WF (cs.flatMap encodeCP ++ y) → WF y
  | [], y, _, h => by simpa using h
  | c :: cs, y, hs, h => by
    have hc : Scalar c := hs c (List.mem_cons_self ..)
    have hlen := encodeCP_length_pos c
    have hne : (c :: cs).flatMap encodeCP ++ y ≠ [] := by
      intro h0
      have := congrArg List.length h0
      simp only [List.flatMap_cons, List.length_append, List.length_nil] at this
      omega
    obtain ⟨c', n, hdec, _, _, hn, htake, hdrop⟩ := WF_decode h hne
    have hdec' : decode ((c :: cs).flatMap encodeCP ++ y) = some (c, (encodeCP c).length) := by
      rw [decode_eq_some_iff]
      refine ⟨hc, rfl, ?_⟩
      rw [List.flatMap_cons, List.append_assoc]
      exact List.prefix_append _ _
    rw [hdec] at hdec'
    simp only [Option.some.injEq, Prod.mk.injEq] at hdec'
    obtain ⟨rfl, rfl⟩ := hdec'
    rw [List.flatMap_cons, List.append_assoc, List.drop_left' rfl] at hdrop
    exact WF_cancel_aux cs y (fun x hx => hs x (List.mem_cons_of_mem _ hx)) hdrop

theorem WF_cancel_left {x y : List UInt8} (hx : WF x) (hxy : WF (x ++ y)) : WF y := by
  obtain ⟨cs, hs, rfl⟩ := hx
  exact WF_cancel_aux cs y hs hxy

/-- `p` is a code point boundary of `line` -/
def Bd (line : List UInt8) (p : Nat) : Prop := p ≤ line.length ∧ WF (line.take p)

theorem Bd_zero (line : List UInt8) : Bd line 0 := ⟨Nat.zero_le _, by simpa using WF_nil⟩

theorem Bd_length {line : List UInt8} (hv : WF line) : Bd line line.length :=
  ⟨Nat.le_refl _, by simpa using hv⟩

theorem Bd_drop {line : List UInt8} (hv : WF line) {p : Nat} (hp : Bd line p) : WF (line.drop p) := by
  apply WF_cancel_left hp.2
  rw [List.take_append_drop]; exact hv

theorem slice_length (line : List UInt8) (a b : Nat) (hb : b ≤ line.length) :
    (slice line a b).length = b - a := by
  unfold slice
  rw [List.length_drop, List.length_take]; omega

theorem slice_self (line : List UInt8) (a : Nat) : slice line a a = [] := by
  unfold slice; simp

theorem slice_append (line : List UInt8) {a b c : Nat} (hab : a ≤ b) (hbc : b ≤ c)
    (hc : c ≤ line.length) :
    slice line a c = slice line a b ++ slice line b c := by
  unfold slice
  have h1 : List.take c line = List.take b line ++ List.drop b (List.take c line) := by
    have : List.take b line = List.take b (List.take c line) := by
      rw [List.take_take, Nat.min_eq_left hbc]
    rw [this, List.take_append_drop]
  conv => lhs; rw [h1]
  rw [List.drop_append_of_le_length (by rw [List.length_take]; omega)]

theorem take_append_slice (line : List UInt8) {a b : Nat} (hab : a ≤ b) :
    line.take a ++ slice line a b = line.take b := by
  unfold slice
  have : List.take a line = List.take a (List.take b line) := by
    rw [List.take_take, Nat.min_eq_left hab]
  rw [this, List.take_append_drop]

theorem slice_eq_take_drop (line : List UInt8) (a b : Nat) :
    slice line a b = (line.drop a).take (b - a) := by
  unfold slice; rw [List.drop_take]

theorem Bd_slice {line : List UInt8} {a b : Nat} (ha : Bd line a) (hb : Bd line b) (hab : a ≤ b) :
    WF (slice line a b) := by
  apply WF_cancel_left ha.2
  rw [take_append_slice line hab]; exact hb.2

/-- decoding at a boundary before the end succeeds and leads to the next boundary -/
theorem Bd_step {line : List UInt8} (hv : WF line) {p : Nat} (hp : Bd line p) (hlt : p < line.length) :
    ∃ c n, decode (line.drop p) = some (c, n) ∧ Scalar c ∧ 1 ≤ n ∧ p + n ≤ line.length ∧
      Bd line (p + n) ∧ slice line p (p + n) = encodeCP c := by
  have hne : line.drop p ≠ [] := by
    intro h0
    have := congrArg List.length h0
    rw [List.length_drop] at this; simp at this; omega
  obtain ⟨c, n, hdec, hc, h1, hn, htake, hdrop⟩ := WF_decode (Bd_drop hv hp) hne
  have hle : p + n ≤ line.length := by
    have := congrArg List.length htake
    rw [List.length_take, List.length_drop, ← hn] at this
    omega
  refine ⟨c, n, hdec, hc, h1, hle, ⟨hle, ?_⟩, ?_⟩
  · rw [List.take_add, htake]
    exact WF_append hp.2 (WF_encodeCP hc)
  · rw [slice_eq_take_drop, Nat.add_sub_cancel_left, htake]

/-- boundaries do not fall inside a code point -/
theorem Bd_nest {line : List UInt8} {a b c n : Nat} (ha : Bd line a) (hb : Bd line b)
    (hab : a < b) (hdec : decode (line.drop a) = some (c, n)) : a + n ≤ b := by
  have hwf := Bd_slice ha hb (Nat.le_of_lt hab)
  have hlen := slice_length line a b hb.1
  have hne : slice line a b ≠ [] := by
    intro h0; rw [h0] at hlen; simp at hlen; omega
  obtain ⟨c', n', hdec', _, _, hn', htake, _⟩ := WF_decode hwf hne
  have hpre : slice line a b <+: line.drop a := by
    rw [slice_eq_take_drop]; exact List.take_prefix _ _
  have := decode_mono hdec' hpre
  rw [hdec] at this
  simp only [Option.some.injEq, Prod.mk.injEq] at this
  obtain ⟨rfl, rfl⟩ := this
  have := congrArg List.length htake
  rw [List.length_take, hlen, ← hn'] at this
  omega

/-! ### delimiter runs and `peek` -/

/-- a concatenation of encoded delimiter code points -/
def DelimRun (o : Opts) (d : List UInt8) : Prop :=
  ∃ cs : List Nat, (∀ c ∈ cs, Scalar c ∧ c ∈ o.delims) ∧ d = cs.flatMap encodeCP

theorem DelimRun_nil (o : Opts) : DelimRun o [] := ⟨[], by simp, rfl⟩

theorem DelimRun_cons {o : Opts} {c : Nat} {d : List UInt8} (hs : Scalar c) (hc : c ∈ o.delims)
    (hd : DelimRun o d) : DelimRun o (encodeCP c ++ d) := by
  obtain ⟨cs, h, rfl⟩ := hd
  refine ⟨c :: cs, ?_, by rw [List.flatMap_cons]⟩
  intro x hx
  rcases List.mem_cons.mp hx with rfl | hx
  · exact ⟨hs, hc⟩
  · exact h x hx

theorem DelimRun_WF {o : Opts} {d : List UInt8} (hd : DelimRun o d) : WF d := by
  obtain ⟨cs, h, rfl⟩ := hd
  exact ⟨cs, fun c hc => (h c hc).1, rfl⟩

theorem DelimRun_decodeAll {o : Opts} {d : List UInt8} (hd : DelimRun o d) :
    ∃ cs, decodeAll d = some cs ∧ ∀ c ∈ cs, c ∈ o.delims := by
  obtain ⟨cs, h, rfl⟩ := hd
  exact ⟨cs, (decodeAll_iff' _ _).mpr ⟨fun c hc => (h c hc).1, rfl⟩, fun c hc => (h c hc).2⟩

theorem findDelimiter_mem {ds : List Nat} {c : Nat} (h : (findDelimiter ds c).isNone = false) :
    c ∈ ds := by
  unfold findDelimiter at h
  cases hf : ds.findIdx? (· == c) with
  | none => rw [hf] at h; simp at h
  | some i =>
    apply Classical.byContradiction
    intro hc
    have : ds.findIdx? (· == c) = none := by
      rw [List.findIdx?_eq_none_iff]
      intro x hx
      apply Bool.eq_false_iff.mpr
      intro hxc
      exact hc ((beq_iff_eq.mp hxc) ▸ hx)
    rw [this] at hf; cases hf

/-- the code point at boundary `p` is not a delimiter -/
def NonDelimAt (line : List UInt8) (o : Opts) (p : Nat) : Prop :=
  ∃ c n, decode (line.drop p) = some (c, n) ∧ (findDelimiter o.delims c).isNone = true

/-- why `peek` stopped at `pce` -/
def StopReason (line : List UInt8) (o : Opts) (last pce : Nat) : Prop :=
  pce ≥ line.length ∨ (o.keep = true ∧ pce - last ≥ o.width) ∨
    ∃ c n, decode (line.drop pce) = some (c, n) ∧
      ((o.keep = true ∧ pce + n - last > o.width) ∨ (findDelimiter o.delims c).isNone = true)

theorem peek_spec (line : List UInt8) (o : Opts) (last : Nat) (hv : WF line) :
    ∀ (fuel p0 : Nat), Bd line p0 → line.length - p0 + 1 ≤ fuel →
    ∃ pce, peek line o last fuel p0 = some pce ∧ p0 ≤ pce ∧ Bd line pce ∧
      DelimRun o (slice line p0 pce) ∧
      (o.keep = true → pce - last ≤ max o.width (p0 - last)) ∧
      (∀ b, Bd line b → p0 ≤ b → NonDelimAt line o b → pce ≤ b) ∧
      StopReason line o last pce := by
  intro fuel
  induction fuel with
  | zero => intro p0 _ h; omega
  | succ fuel ih =>
    intro p0 hb hf
    rw [peek]
    have stop : ∀ (hs : StopReason line o last p0),
        ∃ pce, some p0 = some pce ∧ p0 ≤ pce ∧ Bd line pce ∧
        DelimRun o (slice line p0 pce) ∧
        (o.keep = true → pce - last ≤ max o.width (p0 - last)) ∧
        (∀ b, Bd line b → p0 ≤ b → NonDelimAt line o b → pce ≤ b) ∧
        StopReason line o last pce := by
      intro hs
      refine ⟨p0, rfl, Nat.le_refl _, hb, ?_, ?_, ?_, hs⟩
      · rw [slice_self]; exact DelimRun_nil o
      · intro _; exact Nat.le_max_right _ _
      · intro b _ h _; exact h
    split
    · exact stop (Or.inl ‹_›)
    · rename_i hlt
      split
      · rename_i hk
        simp only [Bool.and_eq_true, decide_eq_true_eq] at hk
        exact stop (Or.inr (Or.inl hk))
      · rename_i hk
        obtain ⟨c, n, hdec, hc, h1, hle, hbn, hsl⟩ := Bd_step hv hb (by omega)
        rw [hdec]
        simp only
        split
        · rename_i hk2
          simp only [Bool.and_eq_true, decide_eq_true_eq] at hk2
          exact stop (Or.inr (Or.inr ⟨c, n, hdec, Or.inl hk2⟩))
        · rename_i hk2
          split
          · rename_i hnd
            exact stop (Or.inr (Or.inr ⟨c, n, hdec, Or.inr hnd⟩))
          · rename_i hnd
            obtain ⟨pce, hp, hle2, hbd, hrun, hkeep, hnp, hsr⟩ := ih (p0 + n) hbn (by omega)
            refine ⟨pce, hp, by omega, hbd, ?_, ?_, ?_, hsr⟩
            · rw [slice_append line (Nat.le_add_right p0 n) hle2 hbd.1, hsl]
              exact DelimRun_cons hc (findDelimiter_mem (Bool.eq_false_iff.mpr hnd)) hrun
            · intro hkt
              have := hkeep hkt
              simp only [hkt, Bool.true_and, decide_eq_true_eq] at hk2
              have := Nat.le_max_left o.width (p0 - last)
              rcases Nat.le_total o.width (p0 + n - last) with h | h
              · rw [Nat.max_eq_right h] at *; omega
              · rw [Nat.max_eq_left h] at *; omega
            · intro b hbb hpb hndb
              rcases Nat.eq_or_lt_of_le hpb with rfl | hlt'
              · obtain ⟨c', n', hdec', hn'⟩ := hndb
                rw [hdec] at hdec'
                simp only [Option.some.injEq, Prod.mk.injEq] at hdec'
                obtain ⟨rfl, rfl⟩ := hdec'
                exact absurd hn' hnd
              · exact hnp b hbb (Bd_nest hb hbb hlt' hdec) hndb

end PV.Lemmas.Fold
