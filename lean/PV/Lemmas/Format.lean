import PV.Model.Format
namespace PV.Lemmas.Format
open PV.Format

/-- a value below `10^k` has at most `k` decimal digits (given enough fuel). -/
theorem ndigits_le (fuel : Nat) : ∀ (k v : Nat), 1 ≤ k → k ≤ fuel → v < 10 ^ k → ndigits fuel v ≤ k := by
  induction fuel with
  | zero => intro k v h1 h2 _; omega
  | succ n ih =>
    intro k v h1 h2 hv
    unfold ndigits
    split
    · exact h1
    · rename_i h10
      match k, h1, h2, hv with
      | 1, _, _, hv => simp at hv; omega
      | k' + 2, _, h2, hv =>
        have hdiv : v / 10 < 10 ^ (k' + 1) := by
          apply Nat.div_lt_of_lt_mul
          rw [Nat.pow_succ] at hv
          omega
        have := ih (k' + 1) (v / 10) (by omega) (by omega) hdiv
        omega

theorem digits10_le (k v : Nat) (h1 : 1 ≤ k) (h2 : k ≤ 30) (hv : v < 10 ^ k) : digits10 v ≤ k :=
  ndigits_le 30 k v h1 h2 hv

theorem digits10_le5 (v : Nat) (hv : v < 100000) : digits10 v ≤ 5 :=
  digits10_le 5 v (by decide) (by decide) (by simpa using hv)

theorem digits10_le8 (v : Nat) (hv : v < 100000000) : digits10 v ≤ 8 :=
  digits10_le 8 v (by decide) (by decide) (by simpa using hv)

theorem u32_touched_le5 (v : Nat) (h : v < 100000) : (u32 v).2 ≤ 5 := by
  unfold u32
  have := digits10_le5 v h
  split
  · simpa using this
  · omega

theorem u32_touched_le10 (v : Nat) : (u32 v).2 ≤ 10 := by
  unfold u32
  split
  · rename_i h8
    have := digits10_le8 v h8
    show digits10 v ≤ 10
    omega
  · show (if v / 100000000 ≥ 10 then 2 else 1) + 8 ≤ 10
    split <;> omega

/-- `u64` touches at most 19 bytes below `10^19`, at most 20 below `2^64`. -/
theorem u64_touched_le19 (v : Nat) (h : v < 10000000000000000000) : (u64 v).2 ≤ 19 := by
  unfold u64
  split
  · rename_i h8
    have := digits10_le8 v h8
    show digits10 v ≤ 19
    omega
  · split
    · show 16 ≤ 19
      omega
    · show (if v / 10000000000000000 < 10 then 1 else if v / 10000000000000000 < 100 then 2
            else if v / 10000000000000000 < 1000 then 3 else 4) + 16 ≤ 19
      have : v / 10000000000000000 < 1000 := by omega
      split
      · omega
      · split
        · omega
        · omega

theorem u64_touched_le20 (v : Nat) : (u64 v).2 ≤ 20 := by
  unfold u64
  split
  · rename_i h8
    have := digits10_le8 v h8
    show digits10 v ≤ 20
    omega
  · split
    · show 16 ≤ 20
      omega
    · show (if v / 10000000000000000 < 10 then 1 else if v / 10000000000000000 < 100 then 2
            else if v / 10000000000000000 < 1000 then 3 else 4) + 16 ≤ 20
      split
      · omega
      · split
        · omega
        · split <;> omega

theorem i32_snd (v : Int) : (i32 v).2 = if v < 0 then (u32 (-v).toNat).2 + 1 else (u32 v.toNat).2 := by
  unfold i32
  split <;> rfl

theorem i64_snd (v : Int) : (i64 v).2 = if v < 0 then (u64 (-v).toNat).2 + 1 else (u64 v.toNat).2 := by
  unfold i64
  split <;> rfl

theorem floatTouched_le (neg : Bool) (len : Nat) (dp : Int) (hl : 1 ≤ len ∧ len ≤ 17)
    (hd : -323 ≤ dp ∧ dp ≤ 309) : floatTouched neg len dp ≤ 26 := by
  unfold floatTouched shortestLen
  have hs : (if neg = true then 1 else 0 : Nat) ≤ 1 := by split <;> omega
  generalize (if neg = true then 1 else 0 : Nat) = s at hs
  simp only []
  split
  · split
    · omega
    · split <;> omega
  · have hm : (if len > 1 then len + 1 else 1 : Nat) ≤ 18 := by split <;> omega
    generalize (if len > 1 then len + 1 else 1 : Nat) = m at hm
    have hx : (if dp - 1 < 0 then 1 else 0 : Nat) ≤ 1 := by split <;> omega
    generalize (if dp - 1 < 0 then 1 else 0 : Nat) = x at hx
    have he : ∀ e : Nat, (if e ≥ 100 then 3 else if e ≥ 10 then 2 else 1 : Nat) ≤ 3 := by
      intro e; split
      · omega
      · split <;> omega
    have := he (if dp - 1 < 0 then (-(dp - 1)).toNat else (dp - 1).toNat)
    omega

end PV.Lemmas.Format
