import PV.Model.Format
namespace PV.Lemmas.Format
end PV.Lemmas.Format
