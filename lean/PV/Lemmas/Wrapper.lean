import PV.Model.Wrapper
import PV.Model.WrapperTrace
import PV.Lemmas.Wrapper.Defs
import PV.Lemmas.Wrapper.Basic
import PV.Lemmas.Wrapper.Inv1
import PV.Lemmas.Wrapper.Inv2
import PV.Lemmas.Wrapper.Progress
import PV.Lemmas.Wrapper.Measure
import PV.Lemmas.Wrapper.Refine
import PV.Lemmas.Wrapper.Trace
/-
C05 helper lemmas (split over PV/Lemmas/Wrapper/*.lean):
  Defs     chunk lists, queue contents, the master invariant `Inv`
  Basic    list / arithmetic facts about `S`, `chunksUpTo`, `qfull`
  Inv1     characterisation of `step` per label; `Inv` preserved by the feeder labels
  Inv2     `Inv` preserved by child and collector labels; `inv_reachable`; order / completeness corollaries
  Progress enabledness lemmas, `cf_progress`, `nf_reachable` (collector never fails), `progress` (no deadlock)
  Measure  termination measure `mu`, `mu_decreases`
  Refine   abstraction function `absOf`, `ref_step`
  Trace    `reachable_of_runTrace`
-/
namespace PV.Lemmas.Wrapper
end PV.Lemmas.Wrapper
