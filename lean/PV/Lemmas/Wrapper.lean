import PV.Model.Wrapper
import PV.Model.WrapperTrace
namespace PV.Lemmas.Wrapper
end PV.Lemmas.Wrapper
