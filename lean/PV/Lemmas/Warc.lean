import PV.Model.Warc
import PV.Lemmas.Reader
namespace PV.Lemmas.Warc
open PV.Warc PV.Reader PV.Lemmas.Reader

/-! ## generic list facts -/

theorem tw_append_found {α : Type} (p : α → Bool) : ∀ (P Q : List α),
    (P.takeWhile p).length < P.length → (P ++ Q).takeWhile p = P.takeWhile p := by
  intro P
  induction P with
  | nil => intro Q h; simp at h
  | cons a t ih =>
    intro Q h
    by_cases ha : p a = true
    · simp only [List.takeWhile_cons, ha, if_true, List.length_cons, Nat.add_lt_add_iff_right,
        List.cons_append] at h ⊢
      rw [ih Q h]
    · simp [ha]

theorem tw_all_of_forall {α : Type} (p : α → Bool) : ∀ (P : List α), (∀ a ∈ P, p a = true) →
    P.takeWhile p = P := by
  intro P h
  induction P with
  | nil => rfl
  | cons a t ih =>
    simp only [List.takeWhile_cons, h a (by simp), if_true]
    rw [ih (fun x hx => h x (by simp [hx]))]

theorem tw_append_all {α : Type} (p : α → Bool) (P Q : List α) (h : ∀ a ∈ P, p a = true) :
    (P ++ Q).takeWhile p = P ++ Q.takeWhile p := by
  rw [List.takeWhile_append_of_pos h]

theorem tw_stop {α : Type} (p : α → Bool) (P : List α) (c : α) (Q : List α)
    (h : ∀ a ∈ P, p a = true) (hc : p c = false) :
    (P ++ c :: Q).takeWhile p = P := by
  rw [tw_append_all p P _ h]
  simp [hc]

/-! ## `HeaderReader::Line` -/

/-- line splitter on a list that starts at the read position: (line without CR, bytes used). -/
def specLine0 (D : List UInt8) : Option (List UInt8 × Nat) :=
  let n := (D.takeWhile (· != 10)).length
  if n < D.length then
    let raw := D.take n
    some (if raw.getLast? == some 13 then raw.dropLast else raw, n + 1)
  else none

/-- schedule-free specification of `headerLine` on the unread stream `R`. -/
def specLine (R : List UInt8) (consumed : Nat) : Option (List UInt8 × Nat × Nat) :=
  match specLine0 (R.drop consumed) with
  | none => none
  | some (l, n1) => some (l, consumed + l.length, consumed + n1)

def LinePost (R : List UInt8) (consumed : Nat) (res : LineRes) : Prop :=
  match specLine R consumed with
  | some (l, le, c') => ∃ out' s', res = .line l le c' out' s' ∧ out' ++ s'.src = R ∧ c' ≤ out'.length
  | none => res = if R.isEmpty then .eofClean else .eofDirty

theorem headerLine_succ (fuel : Nat) (out : List UInt8) (consumed : Nat) (s : Src) :
    headerLine (fuel + 1) out consumed s =
      (let rest := out.drop consumed
       let n := (rest.takeWhile (· != 10)).length
       if consumed + n < out.length then
         let raw := rest.take n
         let l := if raw.getLast? == some 13 then raw.dropLast else raw
         .line l (consumed + l.length) (consumed + n + 1) out s
       else
         match readMore out s with
         | none => if out.isEmpty then .eofClean else .eofDirty
         | some (out', s') => headerLine fuel out' consumed s') := rfl

theorem readMore_eq (out : List UInt8) (s : Src) :
    readMore out s = if (s.src.take (want kRead s.sched)).isEmpty then none
      else some (out ++ s.src.take (want kRead s.sched), ⟨s.src.drop (want kRead s.sched), s.sched.tail⟩) := by
  unfold readMore
  rw [osRead_eq]

theorem headerLine_spec : ∀ (fuel : Nat) (out : List UInt8) (consumed : Nat) (s : Src) (R : List UInt8),
    out ++ s.src = R → s.src.length + 2 ≤ fuel → LinePost R consumed (headerLine fuel out consumed s) := by
  intro fuel
  induction fuel with
  | zero => intro _ _ _ _ _ h; omega
  | succ fuel ih =>
    intro out consumed s R hR hf
    rw [headerLine_succ]
    simp only []
    by_cases hlt : consumed + ((out.drop consumed).takeWhile (· != 10)).length < out.length
    · rw [if_pos hlt]
      have hc : consumed ≤ out.length := by omega
      have hdrop : R.drop consumed = out.drop consumed ++ s.src := by
        rw [← hR, List.drop_append_of_le_length hc]
      have hlt' : ((out.drop consumed).takeWhile (· != 10)).length < (out.drop consumed).length := by
        rw [List.length_drop]; omega
      have htw : (R.drop consumed).takeWhile (· != 10) = (out.drop consumed).takeWhile (· != 10) := by
        rw [hdrop]; exact tw_append_found _ _ _ hlt'
      unfold LinePost specLine specLine0
      simp only [htw]
      have hlen : ((out.drop consumed).takeWhile (· != 10)).length < (R.drop consumed).length := by
        rw [hdrop, List.length_append]; omega
      rw [if_pos hlen]
      have htake : (R.drop consumed).take ((out.drop consumed).takeWhile (· != 10)).length
          = (out.drop consumed).take ((out.drop consumed).takeWhile (· != 10)).length := by
        rw [hdrop, List.take_append_of_le_length (by omega)]
      simp only [htake]
      exact ⟨out, s, by simp [Nat.add_assoc], hR, by omega⟩
    · rw [if_neg hlt, readMore_eq]
      have hw := want_pos kRead s.sched (by decide)
      generalize want kRead s.sched = w at hw
      by_cases hg : (s.src.take w).isEmpty = true
      · rw [if_pos hg]
        simp only []
        have hs : s.src = [] := take_eq_nil_of_pos _ _ hw (by simpa using hg)
        rw [hs, List.append_nil] at hR
        subst hR
        unfold LinePost specLine specLine0
        simp only []
        have : ¬ ((out.drop consumed).takeWhile (· != 10)).length < (out.drop consumed).length := by
          rw [List.length_drop]; omega
        rw [if_neg this]
        trivial
      · rw [if_neg hg]
        simp only []
        apply ih
        · simp only []
          rw [List.append_assoc, List.take_append_drop]; exact hR
        · simp only [List.length_drop]
          have : s.src ≠ [] := by intro h; apply hg; simp [h]
          have := List.length_pos_iff.mpr this
          omega


/-! ### facts about `specLine0` / `specLine` -/

theorem specLine0_some (D l : List UInt8) (n1 : Nat) (h : specLine0 D = some (l, n1)) :
    l.length + 1 ≤ n1 ∧ n1 ≤ D.length ∧ ∃ t, (t = 13 ∨ t = 10) ∧ l ++ [t] <+: D := by
  unfold specLine0 at h
  simp only [] at h
  split at h
  · rename_i hlt
    injection h with h
    injection h with h1 h2
    have hsp := tw_split 10 D hlt
    generalize hn : (D.takeWhile (· != 10)).length = n at *
    have htk : D.take n = D.takeWhile (· != 10) := by
      conv => lhs; rw [hsp]
      rw [List.take_left' hn]
    rw [htk] at h1
    generalize hraw : D.takeWhile (· != 10) = raw at *
    by_cases hl : raw.getLast? = some 13
    · have hl' : (raw.getLast? == some 13) = true := by simp [hl]
      rw [hl', if_pos rfl] at h1
      have hne : raw ≠ [] := by intro h0; simp [h0] at hl
      have hdl := List.dropLast_concat_getLast hne
      have hgl : raw.getLast hne = 13 := by
        rw [List.getLast?_eq_some_getLast hne] at hl
        injection hl
      rw [hgl, h1] at hdl
      refine ⟨?_, by omega, 13, Or.inl rfl, ?_⟩
      · have := congrArg List.length hdl
        simp at this; omega
      · rw [hdl, hsp]; exact List.prefix_append _ _
    · have hl' : (raw.getLast? == some 13) = false := by simp [hl]
      rw [hl'] at h1
      simp only [Bool.false_eq_true, if_false] at h1
      subst h1
      refine ⟨by omega, by omega, 10, Or.inr rfl, ?_⟩
      rw [hsp]
      simp
  · exact absurd h (by simp)

theorem specLine_some (R l : List UInt8) (c le c' : Nat) (h : specLine R c = some (l, le, c')) :
    le = c + l.length ∧ le < c' ∧ c' ≤ R.length ∧ c ≤ R.length ∧
      ∃ t, (t = 13 ∨ t = 10) ∧ l ++ [t] <+: R.drop c := by
  unfold specLine at h
  split at h
  · exact absurd h (by simp)
  · rename_i l0 n1 h0
    injection h with h
    injection h with h1 h2
    injection h2 with h2 h3
    subst h1
    obtain ⟨a1, a2, a3⟩ := specLine0_some _ _ _ h0
    rw [List.length_drop] at a2
    exact ⟨h2.symm, by omega, by omega, by omega, a3⟩

theorem specLine0_crlf (l tail : List UInt8) (h : (10 : UInt8) ∉ l) :
    specLine0 (l ++ 13 :: 10 :: tail) = some (l, l.length + 2) := by
  have htw : (l ++ 13 :: 10 :: tail).takeWhile (· != 10) = l ++ [13] := by
    have : l ++ 13 :: 10 :: tail = (l ++ [13]) ++ 10 :: tail := by simp
    rw [this]
    apply tw_stop
    · intro a ha
      simp only [List.mem_append, List.mem_singleton] at ha
      rcases ha with ha | ha
      · have : a ≠ 10 := fun e => h (e ▸ ha)
        simpa using this
      · subst ha; decide
    · decide
  unfold specLine0
  simp only [htw]
  rw [if_pos (by simp)]
  have : (l ++ 13 :: 10 :: tail).take (l ++ [13]).length = l ++ [13] := by
    have : l ++ 13 :: 10 :: tail = (l ++ [13]) ++ 10 :: tail := by simp
    rw [this, List.take_left]
  rw [this]
  simp

theorem specLine0_lf (l tail : List UInt8) (h : (10 : UInt8) ∉ l) :
    specLine0 (l ++ 10 :: tail) =
      some (if l.getLast? == some 13 then l.dropLast else l, l.length + 1) := by
  have htw : (l ++ 10 :: tail).takeWhile (· != 10) = l := by
    apply tw_stop
    · intro a ha
      have : a ≠ 10 := fun e => h (e ▸ ha)
      simpa using this
    · decide
  unfold specLine0
  simp only [htw]
  rw [if_pos (by simp), List.take_left]

theorem specLine0_none (D : List UInt8) (h : (10 : UInt8) ∉ D) : specLine0 D = none := by
  have : D.takeWhile (· != 10) = D := by
    apply tw_all_of_forall
    intro a ha
    have : a ≠ 10 := fun e => h (e ▸ ha)
    simpa using this
  unfold specLine0
  simp [this]


/-! ## `strtoll` -/

def sign (r1 : List UInt8) : Bool × Nat :=
  match r1 with
  | 45 :: _ => (true, 1)
  | 43 :: _ => (false, 1)
  | _ => (false, 0)

def valOf (neg : Bool) (digs : List UInt8) : Int :=
  let v : Nat := digs.foldl (fun a c => a * 10 + (c.toNat - 48)) 0
  if neg then (if v > 2 ^ 63 then -(2 ^ 63 : Int) else -(v : Int))
  else (if v ≥ 2 ^ 63 then (2 ^ 63 - 1 : Int) else (v : Int))

/-- `strtoll` relative to the start position. -/
def scan (rest : List UInt8) : Int × Nat × Bool :=
  let ws := (rest.takeWhile isSpace).length
  let r1 := rest.drop ws
  let digs := (r1.drop (sign r1).2).takeWhile isDigit
  if digs.isEmpty then (0, 0, false)
  else (valOf (sign r1).1 digs, ws + (sign r1).2 + digs.length, true)

theorem sign_cons (x : UInt8) (L : List UInt8) :
    sign (x :: L) = if x = 45 then (true, 1) else if x = 43 then (false, 1) else (false, 0) := by
  unfold sign; split <;> simp_all

theorem strtoll_def (out : List UInt8) (start : Nat) :
    strtoll out start =
      (let rest := out.drop start
       let ws := (rest.takeWhile isSpace).length
       let r1 := rest.drop ws
       let digs := (r1.drop (sign r1).2).takeWhile isDigit
       if digs.isEmpty then (0, start, false)
       else (valOf (sign r1).1 digs, start + ws + (sign r1).2 + digs.length, true)) := rfl

theorem strtoll_eq (out : List UInt8) (start : Nat) :
    strtoll out start =
      ((scan (out.drop start)).1, start + (scan (out.drop start)).2.1, (scan (out.drop start)).2.2) := by
  rw [strtoll_def]
  unfold scan
  simp only []
  split <;> simp [Nat.add_assoc]

/-- the Content-Length verdict computed by `headerLoop` (`none` = "Content-Length parse error"). -/
def verdict (r : Int × Nat × Bool) (start lineEnd : Nat) (is15 : Bool) : Option Nat :=
  if (start + r.2.1 != lineEnd) && !(is15 && !r.2.2) then none
  else if decide (r.1 < 0) || !r.2.2 then none
  else some r.1.toNat

def lenVerdict (out l : List UInt8) (lineEnd : Nat) : Option Nat :=
  verdict (scan (out.drop (lineEnd - l.length + 15))) (lineEnd - l.length + 15) lineEnd (l.length == 15)

theorem sign_le (r1 : List UInt8) : (sign r1).2 ≤ 1 := by
  unfold sign; split <;> simp

theorem sign_append (x : UInt8) (A Q : List UInt8) : sign (x :: A ++ Q) = sign (x :: A) := by
  rw [List.cons_append, sign_cons, sign_cons]

/-- the scan of a buffer that contains a non-space byte and then a non-digit terminator does not
    look beyond the terminator. -/
theorem scan_append (A : List UInt8) (c : UInt8) (Q : List UInt8)
    (hA : (A.takeWhile isSpace).length < A.length) (hc : isDigit c = false) :
    scan ((A ++ [c]) ++ Q) = scan (A ++ [c]) := by
  have h1 : ((A ++ [c]) ++ Q).takeWhile isSpace = A.takeWhile isSpace := by
    rw [List.append_assoc]; exact tw_append_found _ _ _ hA
  have h2 : (A ++ [c]).takeWhile isSpace = A.takeWhile isSpace := tw_append_found _ _ _ hA
  generalize hws : (A.takeWhile isSpace).length = ws at *
  -- A.drop ws = x :: A'
  obtain ⟨x, A', hx⟩ : ∃ x A', A.drop ws = x :: A' := by
    cases h : A.drop ws with
    | nil => have := congrArg List.length h; simp at this; omega
    | cons x A' => exact ⟨x, A', rfl⟩
  have d1 : ((A ++ [c]) ++ Q).drop ws = (x :: A' ++ [c]) ++ Q := by
    rw [List.append_assoc, List.drop_append_of_le_length (by omega), hx]; simp
  have d2 : (A ++ [c]).drop ws = x :: A' ++ [c] := by
    rw [List.drop_append_of_le_length (by omega), hx]
  unfold scan
  simp only [h1, h2, hws, d1, d2]
  have hs : sign ((x :: A' ++ [c]) ++ Q) = sign (x :: A' ++ [c]) := by
    have := sign_append x (A' ++ [c]) Q
    simpa [List.append_assoc] using this
  rw [hs]
  have hsl := sign_le (x :: A' ++ [c])
  generalize (sign (x :: A' ++ [c])) = sg at *
  have d3 : ((x :: A' ++ [c]) ++ Q).drop sg.2 = ((x :: A').drop sg.2 ++ [c]) ++ Q := by
    rw [List.drop_append_of_le_length (by simp; omega)]
    congr 1
    rw [List.drop_append_of_le_length (by simp; omega)]
  have d4 : (x :: A' ++ [c]).drop sg.2 = (x :: A').drop sg.2 ++ [c] := by
    rw [List.drop_append_of_le_length (by simp; omega)]
  have htw : (((x :: A').drop sg.2 ++ [c]) ++ Q).takeWhile isDigit
      = ((x :: A').drop sg.2 ++ [c]).takeWhile isDigit := by
    apply tw_append_found
    have : (((x :: A').drop sg.2 ++ [c]).takeWhile isDigit).length ≤ ((x :: A').drop sg.2).length := by
      rw [List.takeWhile_append]
      split
      · simp [hc]
      · exact (List.takeWhile_sublist _).length_le
    simp only [List.length_append, List.length_singleton]
    omega
  rw [d3, d4, htw]

theorem verdict_conv_false (v : Int) (start lineEnd : Nat) (is15 : Bool) (h : is15 = true ↔ start = lineEnd) :
    verdict (v, 0, false) start lineEnd is15 = none := by
  unfold verdict
  by_cases hs : start = lineEnd
  · simp [hs, h.mpr hs]
  · have : is15 = false := by
      cases is15 with
      | false => rfl
      | true => exact absurd (h.mp rfl) hs
    simp [hs, this]

/-- when only white space follows the key on the line, the verdict is a parse error however
    much of the following bytes the scan sees. -/
theorem verdict_allspace (A : List UInt8) (c : UInt8) (Y : List UInt8)
    (hA : ∀ a ∈ A, isSpace a = true) (hc : isSpace c = true) (start : Nat) (is15 : Bool)
    (h15 : is15 = true ↔ A.length = 0) :
    verdict (scan (A ++ c :: Y)) start (start + A.length) is15 = none := by
  have hws : A.length + 1 ≤ ((A ++ c :: Y).takeWhile isSpace).length := by
    rw [tw_append_all _ _ _ hA]
    simp [hc]
  unfold scan
  simp only []
  generalize ((A ++ c :: Y).takeWhile isSpace).length = W at *
  generalize (sign ((A ++ c :: Y).drop W)) = S
  generalize (((A ++ c :: Y).drop W).drop S.2).takeWhile isDigit = Dg
  split
  · apply verdict_conv_false
    rw [h15]; omega
  · rename_i hd
    have hdl : 0 < Dg.length := by
      cases Dg with
      | nil => simp at hd
      | cons _ _ => simp
    unfold verdict
    have : (start + (W + S.2 + Dg.length) != start + A.length) = true := by
      simp only [bne_iff_ne, ne_eq]
      omega
    simp [this]

theorem verdict_prefix (A : List UInt8) (c : UInt8) (hc : c = 13 ∨ c = 10) (X : List UInt8)
    (hX : A ++ [c] <+: X) (start : Nat) (is15 : Bool) (h15 : is15 = true ↔ A.length = 0) :
    verdict (scan X) start (start + A.length) is15
      = verdict (scan (A ++ [c])) start (start + A.length) is15 := by
  obtain ⟨Q, rfl⟩ := hX
  have hcd : isDigit c = false := by rcases hc with rfl | rfl <;> decide
  have hcs : isSpace c = true := by rcases hc with rfl | rfl <;> decide
  by_cases hA : (A.takeWhile isSpace).length < A.length
  · rw [scan_append A c Q hA hcd]
  · have hall : ∀ a ∈ A, isSpace a = true := by
      have hp : A.takeWhile isSpace <+: A := List.takeWhile_prefix _
      have := hp.eq_of_length_le (by omega)
      intro a ha
      rw [← this] at ha
      have h := List.all_takeWhile (l := A) (p := isSpace)
      rw [List.all_eq_true] at h
      exact h a ha
    have e1 : A ++ [c] ++ Q = A ++ c :: Q := by simp
    have e2 : A ++ [c] = A ++ c :: [] := by simp
    rw [e1, verdict_allspace A c Q hall hcs start is15 h15, e2,
      verdict_allspace A c [] hall hcs start is15 h15]


/-! ## the header loop -/

def isCL (l : List UInt8) : Bool :=
  decide (l.length ≥ 15) && (l.take 15).map toLowerByte == contentLengthKey

theorem headerLoop_raw (fuel : Nat) (line out : List UInt8) (consumed : Nat) (s : Src) (len : Option Nat) :
    headerLoop (fuel + 1) line out consumed s len =
    if line.isEmpty then
      match len with
      | none => .error .noLength
      | some n => .ok (n, consumed, out, s)
    else
      match headerLine (s.src.length + 2) out consumed s with
      | .line l lineEnd consumed' out' s' =>
        if l.length ≥ 15 && (l.take 15).map toLowerByte == contentLengthKey then
          if len.isSome then .error .twoLengths
          else
            let start := lineEnd - l.length + 15
            let (v, e, conv) := strtoll out' start
            if e != lineEnd && !(l.length == 15 && !conv) then .error .lengthParse
            else if v < 0 || !conv then .error .lengthParse
            else headerLoop fuel l out' consumed' s' (some v.toNat)
        else headerLoop fuel l out' consumed' s' len
      | _ => .error .eofInHeader := rfl

theorem headerLoop_succ (fuel : Nat) (line out : List UInt8) (consumed : Nat) (s : Src) (len : Option Nat) :
    headerLoop (fuel + 1) line out consumed s len =
      if line.isEmpty then
        (match len with
         | none => .error .noLength
         | some n => .ok (n, consumed, out, s))
      else
        match headerLine (s.src.length + 2) out consumed s with
        | .line l lineEnd consumed' out' s' =>
          if isCL l then
            if len.isSome then .error .twoLengths
            else match lenVerdict out' l lineEnd with
              | none => .error .lengthParse
              | some v => headerLoop fuel l out' consumed' s' (some v)
          else headerLoop fuel l out' consumed' s' len
        | _ => .error .eofInHeader := by
  rw [headerLoop_raw]
  split
  · rfl
  · split
    · rename_i l lineEnd consumed' out' s' _
      unfold isCL
      split
      · split
        · rfl
        · unfold lenVerdict verdict
          simp only [strtoll_eq]
          split
          · simp [*]
          · split
            · simp [*]
            · simp [*]
      · rfl
    · rfl


/-- schedule-free specification of `headerLoop` on the unread stream `R`: (length, consumed). -/
def hlSpec : Nat → List UInt8 → List UInt8 → Nat → Option Nat → Except Err (Nat × Nat)
  | 0, _, _, _, _ => .error .eofInHeader
  | fuel + 1, line, R, consumed, len =>
    if line.isEmpty then
      match len with
      | none => .error .noLength
      | some n => .ok (n, consumed)
    else
      match specLine R consumed with
      | some (l, le, c') =>
        if isCL l then
          if len.isSome then .error .twoLengths
          else match lenVerdict R l le with
            | none => .error .lengthParse
            | some v => hlSpec fuel l R c' (some v)
        else hlSpec fuel l R c' len
      | none => .error .eofInHeader

theorem hlSpec_succ (fuel : Nat) (line R : List UInt8) (consumed : Nat) (len : Option Nat) :
    hlSpec (fuel + 1) line R consumed len =
    if line.isEmpty then
      match len with
      | none => .error .noLength
      | some n => .ok (n, consumed)
    else
      match specLine R consumed with
      | some (l, le, c') =>
        if isCL l then
          if len.isSome then .error .twoLengths
          else match lenVerdict R l le with
            | none => .error .lengthParse
            | some v => hlSpec fuel l R c' (some v)
        else hlSpec fuel l R c' len
      | none => .error .eofInHeader := rfl

def LoopPost (R : List UInt8) (spec : Except Err (Nat × Nat))
    (res : Except Err (Nat × Nat × List UInt8 × Src)) : Prop :=
  match spec with
  | .error e => res = .error e
  | .ok (n, c) => ∃ out' s', res = .ok (n, c, out', s') ∧ out' ++ s'.src = R ∧ c ≤ out'.length

theorem isCL_length (l : List UInt8) (h : isCL l = true) : 15 ≤ l.length := by
  unfold isCL at h
  simp only [Bool.and_eq_true, decide_eq_true_eq] at h
  exact h.1

theorem lenVerdict_of_prefix (X l : List UInt8) (c : Nat) (t : UInt8) (ht : t = 13 ∨ t = 10)
    (hl : 15 ≤ l.length) (hX : l ++ [t] <+: X.drop c) :
    lenVerdict X l (c + l.length) =
      verdict (scan (l.drop 15 ++ [t])) (c + 15) (c + l.length) (l.length == 15) := by
  unfold lenVerdict
  have e1 : c + l.length - l.length + 15 = c + 15 := by omega
  have e2 : c + l.length = (c + 15) + (l.drop 15).length := by simp; omega
  rw [e1]
  rw [e2]
  have hpre : l.drop 15 ++ [t] <+: X.drop (c + 15) := by
    obtain ⟨Q, hQ⟩ := hX
    refine ⟨Q, ?_⟩
    rw [← List.drop_drop, ← hQ]
    simp only [List.append_assoc]
    rw [List.drop_append_of_le_length hl]
  have h15 : (l.length == 15) = true ↔ (l.drop 15).length = 0 := by
    simp only [List.length_drop, beq_iff_eq]; omega
  exact verdict_prefix (l.drop 15) t ht _ hpre (c + 15) _ h15

theorem lenVerdict_ext (R l : List UInt8) (c le c' : Nat) (h : specLine R c = some (l, le, c'))
    (hcl : isCL l = true) (out' ext : List UInt8) (hR : out' ++ ext = R) (hc' : c' ≤ out'.length) :
    lenVerdict out' l le = lenVerdict R l le := by
  obtain ⟨h1, h2, h3, h4, t, ht, hp⟩ := specLine_some R l c le c' h
  subst h1
  have hl := isCL_length l hcl
  rw [lenVerdict_of_prefix R l c t ht hl hp, lenVerdict_of_prefix out' l c t ht hl]
  have hp2 : out'.drop c <+: R.drop c := by
    rw [← hR, List.drop_append_of_le_length (by omega)]
    exact List.prefix_append _ _
  apply List.prefix_of_prefix_length_le hp hp2
  simp only [List.length_append, List.length_singleton, List.length_drop]
  omega

theorem headerLoop_spec : ∀ (fuel : Nat) (line out : List UInt8) (consumed : Nat) (s : Src)
    (len : Option Nat) (R : List UInt8), out ++ s.src = R → consumed ≤ out.length →
    LoopPost R (hlSpec fuel line R consumed len) (headerLoop fuel line out consumed s len) := by
  intro fuel
  induction fuel with
  | zero => intro line out consumed s len R _ _; exact rfl
  | succ fuel ih =>
    intro line out consumed s len R hR hc
    rw [headerLoop_succ, hlSpec_succ]
    by_cases hline : line.isEmpty = true
    · rw [if_pos hline, if_pos hline]
      cases len with
      | none => exact rfl
      | some n => exact ⟨out, s, rfl, hR, hc⟩
    · rw [if_neg hline, if_neg hline]
      have hp := headerLine_spec (s.src.length + 2) out consumed s R hR (Nat.le_refl _)
      unfold LinePost at hp
      cases hspec : specLine R consumed with
      | none =>
        rw [hspec] at hp
        simp only [] at hp
        rw [hp]
        by_cases hE : R.isEmpty = true
        · rw [if_pos hE]; exact rfl
        · rw [if_neg hE]; exact rfl
      | some r =>
        obtain ⟨l, le, c'⟩ := r
        rw [hspec] at hp
        obtain ⟨out', s', e, hR', hc'⟩ := hp
        rw [e]
        simp only []
        by_cases hcl : isCL l = true
        · rw [if_pos hcl, if_pos hcl]
          by_cases hlen : len.isSome = true
          · rw [if_pos hlen, if_pos hlen]; exact rfl
          · rw [if_neg hlen, if_neg hlen]
            rw [lenVerdict_ext R l consumed le c' hspec hcl out' s'.src hR' hc']
            cases lenVerdict R l le with
            | none => exact rfl
            | some v => exact ih l out' c' s' (some v) R hR' hc'
        · rw [if_neg hcl, if_neg hcl]
          exact ih l out' c' s' len R hR' hc'


/-! ## the body loop -/

theorem readBody_succ (fuel : Nat) (out : List UInt8) (need : Nat) (s : Src) :
    readBody (fuel + 1) out need s =
      if need == 0 then some (out, s)
      else if (s.src.take (want need s.sched)).isEmpty then none
      else readBody fuel (out ++ s.src.take (want need s.sched))
        (need - (s.src.take (want need s.sched)).length) ⟨s.src.drop (want need s.sched), s.sched.tail⟩ := by
  rw [readBody]
  simp only [osRead_eq]
  rfl

theorem readBody_spec : ∀ (fuel : Nat) (out : List UInt8) (need : Nat) (s : Src), need < fuel →
    (need ≤ s.src.length → ∃ sched', readBody fuel out need s
        = some (out ++ s.src.take need, ⟨s.src.drop need, sched'⟩)) ∧
    (s.src.length < need → readBody fuel out need s = none) := by
  intro fuel
  induction fuel with
  | zero => intro _ _ _ h; omega
  | succ fuel ih =>
    intro out need s hf
    rw [readBody_succ]
    by_cases h0 : need = 0
    · subst h0
      refine ⟨fun _ => ⟨s.sched, by simp⟩, fun h => by omega⟩
    · have hne : (need == 0) = false := by simpa using h0
      rw [hne]
      simp only [Bool.false_eq_true, if_false]
      have hw := want_pos need s.sched (by omega)
      have hw' := want_le need s.sched (by omega)
      generalize want need s.sched = w at hw hw'
      by_cases hg : (s.src.take w).isEmpty = true
      · rw [if_pos hg]
        have hs : s.src = [] := take_eq_nil_of_pos _ _ hw (by simpa using hg)
        refine ⟨fun h => ?_, fun _ => rfl⟩
        rw [hs] at h; simp at h; omega
      · rw [if_neg hg]
        have hsne : s.src ≠ [] := by intro h; apply hg; simp [h]
        have hpos := List.length_pos_iff.mpr hsne
        have hlen : (s.src.take w).length = min w s.src.length := List.length_take
        obtain ⟨i1, i2⟩ := ih (out ++ s.src.take w) (need - (s.src.take w).length)
          ⟨s.src.drop w, s.sched.tail⟩ (by rw [hlen]; omega)
        simp only [List.length_drop] at i1 i2
        constructor
        · intro h
          have hwl : w ≤ s.src.length := by omega
          obtain ⟨sched', e⟩ := i1 (by rw [hlen]; omega)
          refine ⟨sched', ?_⟩
          rw [e]
          have hl : (s.src.take w).length = w := by rw [hlen]; omega
          rw [hl, List.drop_drop, List.append_assoc]
          have e1 : w + (need - w) = need := by omega
          rw [e1]
          congr 2
          have := List.take_add (l := s.src) (i := w) (j := need - w)
          rw [e1] at this
          rw [this]
        · intro h
          apply i2
          rw [hlen]; omega

/-! ## `WARCReader::Read` -/

inductive SpecRes where
  | record (r : List UInt8) (R' : List UInt8)
  | eof
  | error (e : Err)

/-- schedule-free specification of `read` on the unread stream `R`. -/
def readSpec (R : List UInt8) : SpecRes :=
  match specLine R 0 with
  | none => if R.isEmpty then .eof else .error .eofInHeader
  | some (l, _, c) =>
    if l != "WARC/1.0".toUTF8.toList then .error .badVersion
    else
      match hlSpec (R.length + 2) l R c none with
      | .error e => .error e
      | .ok (length, c2) =>
        let total := c2 + length + 4
        if R.length < total then .error .eofInBody
        else if (R.take total).drop (total - 4) != [13, 10, 13, 10] then .error .noTerminator
        else .record (R.take total) (R.drop total)

def ReadPost (spec : SpecRes) (res : ReadRes) : Prop :=
  match spec with
  | .eof => res = .eof
  | .error e => res = .error e
  | .record r R' => ∃ ov' s', res = .record r ov' s' ∧ ov' ++ s'.src = R'

theorem read_spec (ov : List UInt8) (s : Src) (R : List UInt8) (hR : ov ++ s.src = R) :
    ReadPost (readSpec R) (PV.Warc.read ov s) := by
  have hp := headerLine_spec (s.src.length + 2) ov 0 s R hR (Nat.le_refl _)
  unfold LinePost at hp
  unfold PV.Warc.read readSpec
  cases hspec : specLine R 0 with
  | none =>
    rw [hspec] at hp
    simp only [] at hp
    rw [hp]
    by_cases hE : R.isEmpty = true
    · simp only [hE, if_true]; exact rfl
    · simp only [hE]; exact rfl
  | some r =>
    obtain ⟨l, le, c⟩ := r
    rw [hspec] at hp
    obtain ⟨out', s', e, hR', hc'⟩ := hp
    rw [e]
    simp only []
    by_cases hv : (l != "WARC/1.0".toUTF8.toList) = true
    · rw [if_pos hv, if_pos hv]; exact rfl
    · rw [if_neg hv, if_neg hv]
      have hfuel : out'.length + s'.src.length + 2 = R.length + 2 := by
        rw [← hR', List.length_append]
      rw [hfuel]
      have hl := headerLoop_spec (R.length + 2) l out' c s' none R hR' hc'
      unfold LoopPost at hl
      cases hh : hlSpec (R.length + 2) l R c none with
      | error er =>
        rw [hh] at hl
        simp only [] at hl
        rw [hl]; exact rfl
      | ok r2 =>
        obtain ⟨n, c2⟩ := r2
        rw [hh] at hl
        obtain ⟨out2, s2, e2, hR2, hc2⟩ := hl
        rw [e2]
        simp only []
        have hRl : R.length = out2.length + s2.src.length := by rw [← hR2, List.length_append]
        by_cases ht : c2 + n + 4 < out2.length
        · rw [if_pos ht, if_neg (by omega)]
          have htk : R.take (c2 + n + 4) = out2.take (c2 + n + 4) := by
            rw [← hR2, List.take_append_of_le_length (by omega)]
          rw [htk]
          by_cases hterm : ((out2.take (c2 + n + 4)).drop (c2 + n + 4 - 4) != [13, 10, 13, 10]) = true
          · rw [if_pos hterm, if_pos hterm]; exact rfl
          · rw [if_neg hterm, if_neg hterm]
            refine ⟨_, _, rfl, ?_⟩
            rw [← hR2, List.drop_append_of_le_length (by omega)]
        · rw [if_neg ht]
          obtain ⟨b1, b2⟩ := readBody_spec (c2 + n + 4 + 1) out2 (c2 + n + 4 - out2.length) s2 (by omega)
          by_cases hb : c2 + n + 4 - out2.length ≤ s2.src.length
          · obtain ⟨sched', eb⟩ := b1 hb
            rw [eb, if_neg (by omega)]
            simp only []
            have htk : R.take (c2 + n + 4) = out2 ++ s2.src.take (c2 + n + 4 - out2.length) := by
              have hd : out2.take (c2 + n + 4) = out2 := List.take_of_length_le (by omega)
              rw [← hR2, List.take_append, hd]
            rw [htk]
            by_cases hterm : ((out2 ++ s2.src.take (c2 + n + 4 - out2.length)).drop (c2 + n + 4 - 4)
                != [13, 10, 13, 10]) = true
            · rw [if_pos hterm, if_pos hterm]; exact rfl
            · rw [if_neg hterm, if_neg hterm]
              refine ⟨_, _, rfl, ?_⟩
              have hd : out2.drop (c2 + n + 4) = [] := List.drop_of_length_le (by omega)
              rw [← hR2, List.drop_append, hd]
          · rw [b2 (by omega), if_pos (by omega)]
            exact rfl

/-! ## `readAll` -/

def readAllSpec : Nat → List UInt8 → List (List UInt8) × Option Err
  | 0, _ => ([], none)
  | fuel + 1, R =>
    match readSpec R with
    | .eof => ([], none)
    | .error e => ([], some e)
    | .record r R' =>
      let (rs, e) := readAllSpec fuel R'
      (r :: rs, e)

theorem readAll_spec : ∀ (fuel : Nat) (ov : List UInt8) (s : Src) (R : List UInt8), ov ++ s.src = R →
    PV.Warc.readAll fuel ov s = readAllSpec fuel R := by
  intro fuel
  induction fuel with
  | zero => intro _ _ _ _; rfl
  | succ fuel ih =>
    intro ov s R hR
    have hp := read_spec ov s R hR
    unfold ReadPost at hp
    rw [PV.Warc.readAll, readAllSpec]
    cases hs : readSpec R with
    | eof => rw [hs] at hp; simp only [] at hp; rw [hp]
    | error e => rw [hs] at hp; simp only [] at hp; rw [hp]
    | record r R' =>
      rw [hs] at hp
      obtain ⟨ov', s', e, hR'⟩ := hp
      rw [e]
      simp only []
      rw [ih ov' s' R' hR']

theorem records_eq (input : List UInt8) (sched : List Nat) :
    records input sched = readAllSpec (input.length + 1) input := by
  unfold records
  exact readAll_spec _ [] ⟨input, sched⟩ input (by simp)


/-! ## tiling and record shape -/

theorem hlSpec_mono : ∀ (fuel : Nat) (line R : List UInt8) (c : Nat) (len : Option Nat) (n c2 : Nat),
    hlSpec fuel line R c len = .ok (n, c2) → c ≤ c2 := by
  intro fuel
  induction fuel with
  | zero => intro line R c len n c2 h; exact absurd h (by simp [hlSpec])
  | succ fuel ih =>
    intro line R c len n c2 h
    rw [hlSpec_succ] at h
    split at h
    · split at h
      · exact absurd h (by simp)
      · injection h with h; injection h with h1 h2; omega
    · split at h
      · rename_i l le c' hs
        obtain ⟨_, a2, _, _, _⟩ := specLine_some _ _ _ _ _ hs
        split at h
        · split at h
          · exact absurd h (by simp)
          · split at h
            · exact absurd h (by simp)
            · have := ih _ _ _ _ _ _ h; omega
        · have := ih _ _ _ _ _ _ h; omega
      · exact absurd h (by simp)

theorem readSpec_eof (R : List UInt8) (h : readSpec R = .eof) : R = [] := by
  unfold readSpec at h
  split at h
  · split at h
    · rename_i hE; simpa using hE
    · exact absurd h (by simp)
  · split at h
    · exact absurd h (by simp)
    · split at h
      · exact absurd h (by simp)
      · simp only [] at h
        split at h
        · exact absurd h (by simp)
        · split at h <;> exact absurd h (by simp)

theorem readSpec_record (R r R' : List UInt8) (h : readSpec R = .record r R') :
    R = r ++ R' ∧ 4 ≤ r.length ∧ "WARC/1.0".toUTF8.toList <+: r ∧ [13, 10, 13, 10] <:+ r := by
  unfold readSpec at h
  split at h
  · split at h <;> exact absurd h (by simp)
  · rename_i l le c hs
    split at h
    · exact absurd h (by simp)
    · rename_i hv
      split at h
      · exact absurd h (by simp)
      · rename_i n c2 hh
        simp only [] at h
        split at h
        · exact absurd h (by simp)
        · rename_i hlen
          split at h
          · exact absurd h (by simp)
          · rename_i hterm
            injection h with h1 h2
            subst h1 h2
            have hmono := hlSpec_mono _ _ _ _ _ _ _ hh
            obtain ⟨a1, a2, a3, a4, t, _, hp⟩ := specLine_some _ _ _ _ _ hs
            have hlv : l = "WARC/1.0".toUTF8.toList := by simpa using hv
            have hterm' : (R.take (c2 + n + 4)).drop (c2 + n + 4 - 4) = [13, 10, 13, 10] := by
              simpa using hterm
            refine ⟨(List.take_append_drop _ _).symm, ?_, ?_, ?_⟩
            · rw [List.length_take]; omega
            · rw [← hlv]
              have hp1 : l <+: R := by
                obtain ⟨Q, hQ⟩ := hp
                exact ⟨[t] ++ Q, by simpa using hQ⟩
              have hp2 : R.take (c2 + n + 4) <+: R := List.take_prefix _ _
              apply List.prefix_of_prefix_length_le hp1 hp2
              rw [List.length_take]; omega
            · refine ⟨(R.take (c2 + n + 4)).take (c2 + n + 4 - 4), ?_⟩
              rw [← hterm', List.take_append_drop]

theorem readAllSpec_succ (fuel : Nat) (R : List UInt8) :
    readAllSpec (fuel + 1) R =
      match readSpec R with
      | .eof => ([], none)
      | .error e => ([], some e)
      | .record r R' => (r :: (readAllSpec fuel R').1, (readAllSpec fuel R').2) := rfl

theorem readAllSpec_tile : ∀ (fuel : Nat) (R : List UInt8),
    (readAllSpec fuel R).1.flatten <+: R ∧
    (R.length < fuel → (readAllSpec fuel R).2 = none → (readAllSpec fuel R).1.flatten = R) := by
  intro fuel
  induction fuel with
  | zero => intro R; exact ⟨by simp [readAllSpec], fun h => by omega⟩
  | succ fuel ih =>
    intro R
    rw [readAllSpec_succ]
    cases hs : readSpec R with
    | eof =>
      simp only []
      have := readSpec_eof R hs
      subst this
      simp
    | error e => simp
    | record r R' =>
      simp only []
      obtain ⟨h1, h2, _, _⟩ := readSpec_record R r R' hs
      obtain ⟨i1, i2⟩ := ih R'
      constructor
      · rw [List.flatten_cons, h1]
        exact (List.prefix_append_right_inj r).mpr i1
      · intro hl hn
        rw [List.flatten_cons, i2 (by rw [h1, List.length_append] at hl; omega) hn, ← h1]

theorem readAllSpec_shape : ∀ (fuel : Nat) (R : List UInt8), ∀ r ∈ (readAllSpec fuel R).1,
    "WARC/1.0".toUTF8.toList <+: r ∧ [13, 10, 13, 10] <:+ r := by
  intro fuel
  induction fuel with
  | zero => intro R r hr; simp [readAllSpec] at hr
  | succ fuel ih =>
    intro R r hr
    rw [readAllSpec_succ] at hr
    cases hs : readSpec R with
    | eof => rw [hs] at hr; simp at hr
    | error e => rw [hs] at hr; simp at hr
    | record r0 R' =>
      rw [hs] at hr
      simp only [List.mem_cons] at hr
      rcases hr with rfl | hr
      · obtain ⟨_, _, h3, h4⟩ := readSpec_record R r R' hs
        exact ⟨h3, h4⟩
      · exact ih R' r hr


/-! ## decimal strings as bytes -/

theorem ba_toList_loop (bs : ByteArray) : ∀ (k i : Nat) (r : List UInt8), bs.size - i = k →
    ByteArray.toList.loop bs i r = r.reverse ++ bs.data.toList.drop i := by
  have hsz : bs.data.toList.length = bs.size := by rw [Array.length_toList]; rfl
  intro k
  induction k with
  | zero =>
    intro i r h
    rw [ByteArray.toList.loop]
    have : ¬ i < bs.size := by omega
    rw [if_neg this]
    have : bs.data.toList.drop i = [] := List.drop_of_length_le (by omega)
    rw [this]; simp
  | succ k ih =>
    intro i r h
    rw [ByteArray.toList.loop]
    have hi : i < bs.size := by omega
    rw [if_pos hi, ih (i+1) _ (by omega)]
    have hi' : i < bs.data.toList.length := by omega
    rw [List.drop_eq_getElem_cons hi']
    have : bs.get! i = bs.data.toList[i] := by
      cases bs with
      | mk d =>
        show d[i]! = _
        have : i < d.size := by simpa using hi'
        simp [getElem!_pos, this]
    rw [this]
    simp

theorem ba_toList (bs : ByteArray) : bs.toList = bs.data.toList := by
  unfold ByteArray.toList
  rw [ba_toList_loop bs _ 0 [] rfl]
  simp

def digitByte (c : Char) : UInt8 := c.val.toUInt8

theorem utf8_digits : ∀ (cs : List Char), (∀ c ∈ cs, c.isDigit = true) →
    cs.utf8Encode.data.toList = cs.map digitByte := by
  intro cs
  induction cs with
  | nil => intro _; simp
  | cons c cs ih =>
    intro h
    rw [List.utf8Encode_cons, ByteArray.toList_data_append, ih (fun x hx => h x (by simp [hx]))]
    have hc := h c (by simp)
    have h1 : c.utf8Size = 1 := by
      rw [Char.utf8Size_eq_one_iff]
      simp only [Char.isDigit, ge_iff_le, Bool.and_eq_true, decide_eq_true_eq, UInt32.le_iff_toNat_le] at hc ⊢
      have h2 : ('9' : Char).val.toNat = 57 := by decide
      rw [h2] at hc
      have : (127 : UInt32).toNat = 127 := by decide
      omega
    rw [List.utf8Encode_singleton, String.utf8EncodeChar_eq_singleton h1]
    simp [digitByte]

theorem digitByte_toNat (c : Char) (h : c.isDigit = true) :
    (digitByte c).toNat = c.toNat ∧ 48 ≤ c.toNat ∧ c.toNat ≤ 57 := by
  simp only [Char.isDigit, ge_iff_le, Bool.and_eq_true, decide_eq_true_eq, UInt32.le_iff_toNat_le] at h
  have h1 : ('0' : Char).val.toNat = 48 := by decide
  have h2 : ('9' : Char).val.toNat = 57 := by decide
  rw [h1, h2] at h
  unfold digitByte Char.toNat
  rw [UInt32.toNat_toUInt8]
  omega

theorem isDigit_iff (b : UInt8) : isDigit b = true ↔ 48 ≤ b.toNat ∧ b.toNat ≤ 57 := by
  unfold isDigit
  simp [UInt8.le_iff_toNat_le]

def natBytes (n : Nat) : List UInt8 := (toString n).toUTF8.toList

theorem natBytes_eq (n : Nat) : natBytes n = (Nat.toDigits 10 n).map digitByte := by
  unfold natBytes
  rw [ba_toList, String.toUTF8_eq_toByteArray, ← String.utf8Encode_toList]
  have : (toString n).toList = Nat.toDigits 10 n := by simp
  rw [this]
  exact utf8_digits _ (fun c hc => Nat.isDigit_of_mem_toDigits (by decide) (by decide) hc)

theorem natBytes_ne_nil (n : Nat) : natBytes n ≠ [] := by
  rw [natBytes_eq]; simp

theorem natBytes_digit (n : Nat) : ∀ d ∈ natBytes n, isDigit d = true := by
  intro d hd
  rw [natBytes_eq, List.mem_map] at hd
  obtain ⟨c, hc, rfl⟩ := hd
  have := digitByte_toNat c (Nat.isDigit_of_mem_toDigits (by decide) (by decide) hc)
  rw [isDigit_iff]; omega

theorem foldl_digits : ∀ (cs : List Char) (init : Nat), (∀ c ∈ cs, c.isDigit = true) →
    (cs.map digitByte).foldl (fun a c => a * 10 + (c.toNat - 48)) init = Nat.ofDigitChars 10 cs init := by
  intro cs
  induction cs with
  | nil => intro init _; simp [Nat.ofDigitChars]
  | cons c cs ih =>
    intro init h
    rw [List.map_cons, List.foldl_cons, Nat.ofDigitChars_cons, ih _ (fun x hx => h x (by simp [hx]))]
    have := digitByte_toNat c (h c (by simp))
    have h0 : ('0' : Char).toNat = 48 := by decide
    rw [this.1, h0, Nat.mul_comm]

theorem natBytes_val (n : Nat) : (natBytes n).foldl (fun a c => a * 10 + (c.toNat - 48)) 0 = n := by
  rw [natBytes_eq, foldl_digits _ _ (fun c hc => Nat.isDigit_of_mem_toDigits (by decide) (by decide) hc)]
  exact Nat.ofDigitChars_ten_toDigits


/-! ## computing the specification on concrete shapes -/

theorem digit_facts (d : UInt8) (h : isDigit d = true) :
    isSpace d = false ∧ d ≠ 45 ∧ d ≠ 43 ∧ d ≠ 10 ∧ d ≠ 13 := by
  rw [isDigit_iff] at h
  refine ⟨?_, ?_, ?_, ?_, ?_⟩
  · unfold isSpace
    simp only [UInt8.le_iff_toNat_le, Bool.or_eq_false_iff, beq_eq_false_iff_ne, ne_eq,
      Bool.and_eq_false_iff, decide_eq_false_iff_not, ← UInt8.toNat_inj]
    have : (32 : UInt8).toNat = 32 := rfl
    have : (9 : UInt8).toNat = 9 := rfl
    have : (13 : UInt8).toNat = 13 := rfl
    omega
  all_goals (intro e; subst e; revert h; decide)

theorem scan_digits (ds : List UInt8) (t : UInt8) (Q : List UInt8) (hne : ds ≠ [])
    (hd : ∀ d ∈ ds, isDigit d = true) (ht : isDigit t = false) :
    scan (32 :: (ds ++ t :: Q)) = (valOf false ds, 1 + ds.length, true) := by
  obtain ⟨d, ds', rfl⟩ := List.exists_cons_of_ne_nil hne
  obtain ⟨f1, f2, f3, _, _⟩ := digit_facts d (hd d (by simp))
  have hws : (32 :: (d :: ds' ++ t :: Q)).takeWhile isSpace = [32] := by
    have : isSpace 32 = true := by decide
    simp [f1, this]
  have htw : (d :: ds' ++ t :: Q).takeWhile isDigit = d :: ds' := tw_stop _ _ _ _ hd ht
  have hs : sign (d :: ds' ++ t :: Q) = (false, 0) := by
    rw [List.cons_append, sign_cons]; simp [f2, f3]
  unfold scan
  simp only [hws, List.length_singleton, List.drop_succ_cons, List.drop_zero, hs, htw]
  simp

theorem scan_neg (ds : List UInt8) (t : UInt8) (Q : List UInt8) (hne : ds ≠ [])
    (hd : ∀ d ∈ ds, isDigit d = true) (ht : isDigit t = false) :
    scan (32 :: 45 :: (ds ++ t :: Q)) = (valOf true ds, 2 + ds.length, true) := by
  have hws : (32 :: 45 :: (ds ++ t :: Q)).takeWhile isSpace = [32] := by
    have h1 : isSpace 32 = true := by decide
    have h2 : isSpace 45 = false := by decide
    simp [h1, h2]
  have htw : (ds ++ t :: Q).takeWhile isDigit = ds := tw_stop _ _ _ _ hd ht
  have hs : sign (45 :: (ds ++ t :: Q)) = (true, 1) := by
    rw [sign_cons]; simp
  unfold scan
  simp only [hws, List.length_singleton, List.drop_succ_cons, List.drop_zero, hs, htw]
  cases ds with
  | nil => exact absurd rfl hne
  | cons a b => simp

theorem valOf_false_nonneg (ds : List UInt8) : 0 ≤ valOf false ds := by
  unfold valOf
  simp only [Bool.false_eq_true, if_false]
  split <;> omega

theorem valOf_false_toNat (ds : List UInt8) (n : Nat)
    (h : ds.foldl (fun a c => a * 10 + (c.toNat - 48)) 0 = n) (hn : n < 2 ^ 63) :
    (valOf false ds).toNat = n := by
  unfold valOf
  simp only [Bool.false_eq_true, if_false, h]
  rw [if_neg (by omega)]
  simp

theorem valOf_true_neg (ds : List UInt8) (n : Nat)
    (h : ds.foldl (fun a c => a * 10 + (c.toNat - 48)) 0 = n) (hn : 0 < n) :
    valOf true ds < 0 := by
  unfold valOf
  simp only [if_true, h]
  split <;> omega

/-- a 15-byte key that matches `content-length:` case-insensitively -/
def IsKey (K : List UInt8) : Prop :=
  K.length = 15 ∧ K.map toLowerByte = contentLengthKey ∧ (10 : UInt8) ∉ K

theorem isCL_key (K rest : List UInt8) (hK : IsKey K) : isCL (K ++ rest) = true := by
  obtain ⟨h1, h2, _⟩ := hK
  unfold isCL
  rw [List.take_left' h1, h2]
  simp; omega

theorem lenVerdict_digits (X K ds : List UInt8) (c : Nat) (hK : IsKey K) (hne : ds ≠ [])
    (hd : ∀ d ∈ ds, isDigit d = true) (hX : (K ++ 32 :: ds) ++ [13] <+: X.drop c) :
    lenVerdict X (K ++ 32 :: ds) (c + (K ++ 32 :: ds).length) = some (valOf false ds).toNat := by
  have hl : 15 ≤ (K ++ 32 :: ds).length := by simp [hK.1]
  rw [lenVerdict_of_prefix X _ c 13 (Or.inl rfl) hl hX, List.drop_left' hK.1]
  have : 32 :: ds ++ [13] = 32 :: (ds ++ 13 :: []) := by simp
  rw [this, scan_digits ds 13 [] hne hd (by decide)]
  unfold verdict
  have hnn := valOf_false_nonneg ds
  have e : (c + 15 + (1 + ds.length) != c + (K ++ 32 :: ds).length) = false := by
    simp [hK.1]; omega
  simp only [e, Bool.false_and, Bool.false_eq_true, if_false, Bool.not_true, Bool.or_false]
  rw [if_neg (by simp; omega)]

theorem lenVerdict_neg (X K ds : List UInt8) (c : Nat) (hK : IsKey K) (hne : ds ≠ [])
    (hd : ∀ d ∈ ds, isDigit d = true) (hv : valOf true ds < 0)
    (hX : (K ++ 32 :: 45 :: ds) ++ [13] <+: X.drop c) :
    lenVerdict X (K ++ 32 :: 45 :: ds) (c + (K ++ 32 :: 45 :: ds).length) = none := by
  have hl : 15 ≤ (K ++ 32 :: 45 :: ds).length := by simp [hK.1]
  rw [lenVerdict_of_prefix X _ c 13 (Or.inl rfl) hl hX, List.drop_left' hK.1]
  have : 32 :: 45 :: ds ++ [13] = 32 :: 45 :: (ds ++ 13 :: []) := by simp
  rw [this, scan_neg ds 13 [] hne hd (by decide)]
  unfold verdict
  have e : (c + 15 + (2 + ds.length) != c + (K ++ 32 :: 45 :: ds).length) = false := by
    simp [hK.1]; omega
  simp only [e, Bool.false_and, Bool.false_eq_true, if_false, Bool.not_true, Bool.or_false]
  rw [if_pos (by simpa using hv)]



theorem specLine_crlf (R : List UInt8) (c : Nat) (h D : List UInt8) (hR : R.drop c = h ++ 13 :: 10 :: D)
    (h10 : (10 : UInt8) ∉ h) : specLine R c = some (h, c + h.length, c + (h.length + 2)) := by
  unfold specLine; rw [hR, specLine0_crlf h D h10]

theorem drop_add_of_drop (R : List UInt8) (c : Nat) (A D : List UInt8) (hR : R.drop c = A ++ D) :
    R.drop (c + A.length) = D := by
  rw [← List.drop_drop, hR, List.drop_left]

theorem isCL_nil : isCL [] = false := by decide

theorem hlSpec_plain (fuel : Nat) (line R : List UInt8) (c : Nat) (len : Option Nat) (h D : List UInt8)
    (hline : line.isEmpty = false) (hR : R.drop c = h ++ 13 :: 10 :: D) (h10 : (10 : UInt8) ∉ h)
    (hcl : isCL h = false) :
    hlSpec (fuel + 1) line R c len = hlSpec fuel h R (c + (h.length + 2)) len := by
  rw [hlSpec_succ, hline, specLine_crlf R c h D hR h10]
  simp [hcl]

theorem flat_length_ge (hs : List (List UInt8)) : hs.length ≤ (hs.flatMap (· ++ [13, 10])).length := by
  induction hs with
  | nil => simp
  | cons h hs ih => simp only [List.flatMap_cons, List.length_append, List.length_cons]; omega

theorem hlSpec_headers : ∀ (hs : List (List UInt8)) (fuel : Nat) (line R : List UInt8) (c : Nat)
    (len : Option Nat) (D : List UInt8),
    line.isEmpty = false → R.drop c = hs.flatMap (· ++ [13, 10]) ++ D →
    (∀ h ∈ hs, h ≠ [] ∧ (10 : UInt8) ∉ h ∧ isCL h = false) →
    ∃ line', line'.isEmpty = false ∧
      hlSpec (fuel + hs.length) line R c len
        = hlSpec fuel line' R (c + (hs.flatMap (· ++ [13, 10])).length) len := by
  intro hs
  induction hs with
  | nil => intro fuel line R c len D hl _ _; exact ⟨line, hl, by simp⟩
  | cons h hs ih =>
    intro fuel line R c len D hl hR hok
    obtain ⟨o1, o2, o3⟩ := hok h (by simp)
    have hR' : R.drop c = h ++ 13 :: 10 :: (hs.flatMap (· ++ [13, 10]) ++ D) := by
      rw [hR]; simp
    have hstep := hlSpec_plain (fuel + hs.length) line R c len h _ hl hR' o2 o3
    have hR2 : R.drop (c + (h.length + 2)) = hs.flatMap (· ++ [13, 10]) ++ D := by
      have := drop_add_of_drop R c (h ++ [13, 10]) (hs.flatMap (· ++ [13, 10]) ++ D) (by rw [hR]; simp)
      simpa using this
    have hne : h.isEmpty = false := by cases h with
      | nil => exact absurd rfl o1
      | cons _ _ => rfl
    obtain ⟨line', l1, l2⟩ := ih fuel h R (c + (h.length + 2)) len D hne hR2
      (fun x hx => hok x (by simp [hx]))
    refine ⟨line', l1, ?_⟩
    have e1 : fuel + (h :: hs).length = fuel + hs.length + 1 := by simp; omega
    rw [e1, hstep, l2]
    congr 1
    simp; omega

theorem key_line_no10 (K rest : List UInt8) (hK : IsKey K) (hr : (10 : UInt8) ∉ rest) :
    (10 : UInt8) ∉ K ++ rest := by
  intro h
  rcases List.mem_append.mp h with h | h
  · exact hK.2.2 h
  · exact hr h

theorem digits_no10 (pre ds : List UInt8) (hp : (10 : UInt8) ∉ pre) (hd : ∀ d ∈ ds, isDigit d = true) :
    (10 : UInt8) ∉ pre ++ ds := by
  intro h
  rcases List.mem_append.mp h with h | h
  · exact hp h
  · exact (digit_facts 10 (hd 10 h)).2.2.2.1 rfl

theorem hlSpec_cl (fuel : Nat) (line R : List UInt8) (c : Nat) (K ds D : List UInt8)
    (hline : line.isEmpty = false) (hK : IsKey K) (hne : ds ≠ []) (hd : ∀ d ∈ ds, isDigit d = true)
    (hR : R.drop c = (K ++ 32 :: ds) ++ 13 :: 10 :: D) :
    hlSpec (fuel + 1) line R c none
      = hlSpec fuel (K ++ 32 :: ds) R (c + ((K ++ 32 :: ds).length + 2)) (some (valOf false ds).toNat) := by
  have h10 : (10 : UInt8) ∉ K ++ 32 :: ds := by
    apply key_line_no10 K _ hK
    have := digits_no10 [32] ds (by decide) hd
    simpa using this
  rw [hlSpec_succ, hline, specLine_crlf R c _ D hR h10]
  simp only [Bool.false_eq_true, if_false]
  rw [if_pos (isCL_key K _ hK)]
  rw [lenVerdict_digits R K ds c hK hne hd (by rw [hR]; exact ⟨10 :: D, by simp⟩)]
  simp

theorem hlSpec_dup (fuel : Nat) (line R : List UInt8) (c m : Nat) (K rest D : List UInt8)
    (hline : line.isEmpty = false) (hK : IsKey K) (h10 : (10 : UInt8) ∉ rest)
    (hR : R.drop c = (K ++ rest) ++ 13 :: 10 :: D) :
    hlSpec (fuel + 1) line R c (some m) = .error .twoLengths := by
  rw [hlSpec_succ, hline, specLine_crlf R c _ D hR (key_line_no10 K rest hK h10)]
  simp only [Bool.false_eq_true, if_false]
  rw [if_pos (isCL_key K _ hK)]
  simp

theorem hlSpec_neg (fuel : Nat) (line R : List UInt8) (c : Nat) (K ds D : List UInt8)
    (hline : line.isEmpty = false) (hK : IsKey K) (hne : ds ≠ []) (hd : ∀ d ∈ ds, isDigit d = true)
    (hv : valOf true ds < 0)
    (hR : R.drop c = (K ++ 32 :: 45 :: ds) ++ 13 :: 10 :: D) :
    hlSpec (fuel + 1) line R c none = .error .lengthParse := by
  have h10 : (10 : UInt8) ∉ K ++ 32 :: 45 :: ds := by
    apply key_line_no10 K _ hK
    have := digits_no10 [32, 45] ds (by decide) hd
    simpa using this
  rw [hlSpec_succ, hline, specLine_crlf R c _ D hR h10]
  simp only [Bool.false_eq_true, if_false]
  rw [if_pos (isCL_key K _ hK)]
  rw [lenVerdict_neg R K ds c hK hne hd hv (by rw [hR]; exact ⟨10 :: D, by simp⟩)]
  simp

theorem hlSpec_blank (fuel : Nat) (line R : List UInt8) (c : Nat) (len : Option Nat) (D : List UInt8)
    (hline : line.isEmpty = false) (hR : R.drop c = 13 :: 10 :: D) :
    hlSpec (fuel + 2) line R c len =
      match len with
      | none => .error .noLength
      | some n => .ok (n, c + 2) := by
  rw [hlSpec_plain (fuel + 1) line R c len [] D hline (by simpa using hR) (by simp) isCL_nil]
  rw [hlSpec_succ]
  simp only [List.isEmpty_nil, if_true, List.length_nil, Nat.zero_add]



theorem ver_eq : "WARC/1.0".toUTF8.toList = [87, 65, 82, 67, 47, 49, 46, 48] := by decide +kernel

theorem specLine_version (D : List UInt8) :
    specLine ("WARC/1.0".toUTF8.toList ++ 13 :: 10 :: D) 0 = some ("WARC/1.0".toUTF8.toList, 8, 10) := by
  have := specLine_crlf ("WARC/1.0".toUTF8.toList ++ 13 :: 10 :: D) 0 "WARC/1.0".toUTF8.toList D rfl
    (by rw [ver_eq]; decide)
  rw [this, ver_eq]; rfl

theorem readSpec_err (R D : List UInt8) (e : Err) (hR : R = "WARC/1.0".toUTF8.toList ++ 13 :: 10 :: D)
    (hh : hlSpec (R.length + 2) "WARC/1.0".toUTF8.toList R 10 none = .error e) :
    readSpec R = .error e := by
  unfold readSpec
  have hs : specLine R 0 = some ("WARC/1.0".toUTF8.toList, 8, 10) := by rw [hR]; exact specLine_version D
  rw [hs]
  simp only [bne_self_eq_false, Bool.false_eq_true, if_false, hh]

theorem readSpec_ok (R D : List UInt8) (n c2 : Nat) (hR : R = "WARC/1.0".toUTF8.toList ++ 13 :: 10 :: D)
    (hh : hlSpec (R.length + 2) "WARC/1.0".toUTF8.toList R 10 none = .ok (n, c2))
    (M rest : List UInt8) (hM : R = M ++ rest) (hMl : M.length = c2 + n + 4)
    (hterm : [13, 10, 13, 10] <:+ M) :
    readSpec R = .record M rest := by
  unfold readSpec
  have hs : specLine R 0 = some ("WARC/1.0".toUTF8.toList, 8, 10) := by rw [hR]; exact specLine_version D
  rw [hs]
  simp only [bne_self_eq_false, Bool.false_eq_true, if_false, hh]
  have htk : R.take (c2 + n + 4) = M := by rw [hM, ← hMl, List.take_left]
  have hdr : R.drop (c2 + n + 4) = rest := by rw [hM, ← hMl, List.drop_left]
  rw [if_neg (by rw [hM, List.length_append]; omega), htk, hdr]
  obtain ⟨P, hP⟩ := hterm
  have hPl : P.length = c2 + n + 4 - 4 := by
    have := congrArg List.length hP
    simp at this; omega
  have : M.drop (c2 + n + 4 - 4) = [13, 10, 13, 10] := by rw [← hP, ← hPl, List.drop_left]
  rw [this]
  simp

theorem readSpec_nil : readSpec [] = .eof := by
  simp [readSpec, specLine, specLine0]

theorem readAllSpec_concat {α : Type} (f : α → List UInt8) (recs : List α)
    (hrec : ∀ r ∈ recs, ∀ rest, readSpec (f r ++ rest) = .record (f r) rest) :
    ∀ fuel, recs.length < fuel → readAllSpec fuel (recs.flatMap f) = (recs.map f, none) := by
  induction recs with
  | nil =>
    intro fuel hf
    obtain ⟨k, rfl⟩ : ∃ k, fuel = k + 1 := ⟨fuel - 1, by omega⟩
    rw [readAllSpec_succ]
    simp [readSpec_nil]
  | cons r recs ih =>
    intro fuel hf
    obtain ⟨k, rfl⟩ : ∃ k, fuel = k + 1 := ⟨fuel - 1, by omega⟩
    rw [readAllSpec_succ, List.flatMap_cons, hrec r (by simp)]
    simp only []
    rw [ih (fun x hx => hrec x (by simp [hx])) k (by simpa using hf)]
    simp

theorem readAllSpec_error (R : List UInt8) (e : Err) (h : readSpec R = .error e) :
    readAllSpec (R.length + 1) R = ([], some e) := by
  rw [readAllSpec_succ, h]



def OkH (h : List UInt8) : Prop := h ≠ [] ∧ (10 : UInt8) ∉ h ∧ isCL h = false

/-- a well-formed record with version line `V`, key `K` and decimal length `ds`. -/
def mkV (V : List UInt8) (hs : List (List UInt8)) (K ds body : List UInt8) : List UInt8 :=
  V ++ [13, 10] ++ hs.flatMap (· ++ [13, 10]) ++ (K ++ 32 :: ds) ++ [13, 10] ++ [13, 10] ++ body ++ [13, 10] ++ [13, 10]

theorem ver_facts (V : List UInt8) (hV : V = "WARC/1.0".toUTF8.toList) :
    V.length = 8 ∧ V.isEmpty = false := by
  rw [hV, ver_eq]; exact ⟨rfl, rfl⟩

theorem cons_isEmpty (K rest : List UInt8) (hK : IsKey K) : (K ++ rest).isEmpty = false := by
  have := hK.1
  cases K with
  | nil => simp at this
  | cons _ _ => rfl

theorem drop_of_eq (R A D : List UInt8) (k : Nat) (h : R = A ++ D) (hk : A.length = k) : R.drop k = D := by
  rw [h, ← hk, List.drop_left]

theorem hlSpec_mk (V : List UInt8) (hV : V = "WARC/1.0".toUTF8.toList) (hs : List (List UInt8))
    (K ds D4 R : List UInt8)
    (hok : ∀ h ∈ hs, OkH h) (hK : IsKey K) (hne : ds ≠ []) (hd : ∀ d ∈ ds, isDigit d = true)
    (hR : R = V ++ 13 :: 10 :: (hs.flatMap (· ++ [13, 10]) ++ ((K ++ 32 :: ds) ++ 13 :: 10 :: (13 :: 10 :: D4)))) :
    hlSpec (R.length + 2) V R 10 none
      = .ok ((valOf false ds).toNat, 10 + (hs.flatMap (· ++ [13, 10])).length + ((K ++ 32 :: ds).length + 2) + 2) := by
  obtain ⟨hVl, hVe⟩ := ver_facts V hV
  have hd10 : R.drop 10 = hs.flatMap (· ++ [13, 10]) ++ ((K ++ 32 :: ds) ++ 13 :: 10 :: (13 :: 10 :: D4)) := by
    apply drop_of_eq R (V ++ [13, 10]) _ 10 _ (by simp [hVl])
    rw [hR]; simp only [List.append_assoc, List.cons_append, List.nil_append]
  have hlen : hs.length + 1 ≤ R.length := by
    have := flat_length_ge hs
    rw [hR]; simp only [List.length_append, List.length_cons]; omega
  obtain ⟨f, hf⟩ : ∃ f, R.length + 2 = f + 3 + hs.length := ⟨R.length - hs.length - 1, by omega⟩
  rw [hf]
  obtain ⟨line', l1, l2⟩ := hlSpec_headers hs (f + 3) V R 10 none _ hVe hd10 hok
  rw [l2]
  have hd1 := drop_add_of_drop R 10 _ _ hd10
  rw [hlSpec_cl (f + 2) line' R _ K ds _ l1 hK hne hd hd1]
  have hd2 := drop_add_of_drop R _ ((K ++ 32 :: ds) ++ [13, 10]) (13 :: 10 :: D4) (by rw [hd1]; simp)
  have e2 : ((K ++ 32 :: ds) ++ [13, 10]).length = (K ++ 32 :: ds).length + 2 := by simp; omega
  rw [e2] at hd2
  rw [hlSpec_blank f _ R _ _ D4 (cons_isEmpty K _ hK) hd2]


theorem readSpec_ok' (V : List UInt8) (hV : V = "WARC/1.0".toUTF8.toList) (R D : List UInt8) (n c2 : Nat)
    (hR : R = V ++ 13 :: 10 :: D)
    (hh : hlSpec (R.length + 2) V R 10 none = .ok (n, c2))
    (M rest : List UInt8) (hM : R = M ++ rest) (hMl : M.length = c2 + n + 4)
    (hterm : [13, 10, 13, 10] <:+ M) :
    readSpec R = .record M rest := by
  subst hV
  exact readSpec_ok R D n c2 hR hh M rest hM hMl hterm

theorem readSpec_err' (V : List UInt8) (hV : V = "WARC/1.0".toUTF8.toList) (R D : List UInt8) (e : Err)
    (hR : R = V ++ 13 :: 10 :: D)
    (hh : hlSpec (R.length + 2) V R 10 none = .error e) :
    readSpec R = .error e := by
  subst hV
  exact readSpec_err R D e hR hh

theorem readSpec_mk (V : List UInt8) (hV : V = "WARC/1.0".toUTF8.toList) (hs : List (List UInt8))
    (K ds body rest : List UInt8)
    (hok : ∀ h ∈ hs, OkH h) (hK : IsKey K) (hne : ds ≠ []) (hd : ∀ d ∈ ds, isDigit d = true)
    (hn : (valOf false ds).toNat = body.length) :
    readSpec (mkV V hs K ds body ++ rest) = .record (mkV V hs K ds body) rest := by
  obtain ⟨hVl, hVe⟩ := ver_facts V hV
  have hR : mkV V hs K ds body ++ rest = V ++ 13 :: 10 :: (hs.flatMap (· ++ [13, 10]) ++
      ((K ++ 32 :: ds) ++ 13 :: 10 :: (13 :: 10 :: (body ++ [13, 10, 13, 10] ++ rest)))) := by
    simp [mkV]
  have hh := hlSpec_mk V hV hs K ds _ _ hok hK hne hd hR
  apply readSpec_ok' V hV _ _ _ _ hR hh (mkV V hs K ds body) rest rfl
  · simp [mkV, hVl, hn]; omega
  · exact ⟨V ++ [13, 10] ++ hs.flatMap (· ++ [13, 10]) ++ (K ++ 32 :: ds) ++ [13, 10] ++ [13, 10] ++ body,
      by simp [mkV]⟩

theorem readSpec_missing (V : List UInt8) (hV : V = "WARC/1.0".toUTF8.toList) (hs : List (List UInt8))
    (rest R : List UInt8) (hok : ∀ h ∈ hs, OkH h)
    (hR : R = V ++ 13 :: 10 :: (hs.flatMap (· ++ [13, 10]) ++ 13 :: 10 :: rest)) :
    readSpec R = .error .noLength := by
  obtain ⟨hVl, hVe⟩ := ver_facts V hV
  apply readSpec_err' V hV R _ _ hR
  have hd10 : R.drop 10 = hs.flatMap (· ++ [13, 10]) ++ 13 :: 10 :: rest := by
    apply drop_of_eq R (V ++ [13, 10]) _ 10 _ (by simp [hVl])
    rw [hR]; simp only [List.append_assoc, List.cons_append, List.nil_append]
  have hlen : hs.length + 1 ≤ R.length := by
    have := flat_length_ge hs
    rw [hR]; simp only [List.length_append, List.length_cons]; omega
  obtain ⟨f, hf⟩ : ∃ f, R.length + 2 = f + 2 + hs.length := ⟨R.length - hs.length, by omega⟩
  rw [hf]
  obtain ⟨line', l1, l2⟩ := hlSpec_headers hs (f + 2) V R 10 none _ hVe hd10 hok
  rw [l2]
  have hd1 := drop_add_of_drop R 10 _ _ hd10
  rw [hlSpec_blank f line' R _ none rest l1 hd1]

theorem readSpec_negative (V : List UInt8) (hV : V = "WARC/1.0".toUTF8.toList)
    (K ds D R : List UInt8) (hK : IsKey K) (hne : ds ≠ []) (hd : ∀ d ∈ ds, isDigit d = true)
    (hv : valOf true ds < 0)
    (hR : R = V ++ 13 :: 10 :: ((K ++ 32 :: 45 :: ds) ++ 13 :: 10 :: D)) :
    readSpec R = .error .lengthParse := by
  obtain ⟨hVl, hVe⟩ := ver_facts V hV
  apply readSpec_err' V hV R _ _ hR
  have hd10 : R.drop 10 = (K ++ 32 :: 45 :: ds) ++ 13 :: 10 :: D := by
    apply drop_of_eq R (V ++ [13, 10]) _ 10 _ (by simp [hVl])
    rw [hR]; simp only [List.append_assoc, List.cons_append, List.nil_append]
  exact hlSpec_neg (R.length + 1) V R 10 K ds D hVe hK hne hd hv hd10

theorem readSpec_duplicate (V : List UInt8) (hV : V = "WARC/1.0".toUTF8.toList)
    (K da K' db D R : List UInt8) (hK : IsKey K) (hK' : IsKey K')
    (hne : da ≠ []) (hd : ∀ d ∈ da, isDigit d = true) (hdb : ∀ d ∈ db, isDigit d = true)
    (hR : R = V ++ 13 :: 10 :: ((K ++ 32 :: da) ++ 13 :: 10 :: ((K' ++ 32 :: db) ++ 13 :: 10 :: D))) :
    readSpec R = .error .twoLengths := by
  obtain ⟨hVl, hVe⟩ := ver_facts V hV
  apply readSpec_err' V hV R _ _ hR
  have hd10 : R.drop 10 = (K ++ 32 :: da) ++ 13 :: 10 :: ((K' ++ 32 :: db) ++ 13 :: 10 :: D) := by
    apply drop_of_eq R (V ++ [13, 10]) _ 10 _ (by simp [hVl])
    rw [hR]; simp only [List.append_assoc, List.cons_append, List.nil_append]
  rw [show R.length + 2 = R.length + 1 + 1 by rfl, hlSpec_cl (R.length + 1) V R 10 K da _ hVe hK hne hd hd10]
  have hd1 := drop_add_of_drop R 10 ((K ++ 32 :: da) ++ [13, 10]) ((K' ++ 32 :: db) ++ 13 :: 10 :: D) (by rw [hd10]; simp)
  have e2 : ((K ++ 32 :: da) ++ [13, 10]).length = (K ++ 32 :: da).length + 2 := by simp; omega
  rw [e2] at hd1
  have h10 : (10 : UInt8) ∉ 32 :: db := by
    have := digits_no10 [32] db (by decide) hdb
    simpa using this
  exact hlSpec_dup R.length _ R _ _ K' (32 :: db) D (cons_isEmpty K _ hK) hK' h10 hd1

theorem readSpec_badVersion (line rest : List UInt8) (h1 : (10 : UInt8) ∉ line)
    (h2 : line ≠ "WARC/1.0".toUTF8.toList) (h3 : line ≠ "WARC/1.0".toUTF8.toList ++ [13]) :
    readSpec (line ++ 10 :: rest) = .error .badVersion := by
  unfold readSpec specLine
  rw [List.drop_zero, specLine0_lf line rest h1]
  simp only []
  rw [if_pos]
  simp only [bne_iff_ne, ne_eq]
  by_cases hl : line.getLast? = some 13
  · have : (line.getLast? == some 13) = true := by simp [hl]
    rw [this, if_pos rfl]
    intro e
    apply h3
    have hne : line ≠ [] := by intro h0; simp [h0] at hl
    have hdl := List.dropLast_concat_getLast hne
    have hgl : line.getLast hne = 13 := by
      rw [List.getLast?_eq_some_getLast hne] at hl
      injection hl
    rw [hgl, e] at hdl
    exact hdl.symm
  · have : (line.getLast? == some 13) = false := by simp [hl]
    rw [this]
    simpa using h2



/-! ## truncation -/

theorem specLine0_append (D E : List UInt8) (x : List UInt8 × Nat) (h : specLine0 D = some x) :
    specLine0 (D ++ E) = some x := by
  unfold specLine0 at h ⊢
  simp only [] at h ⊢
  split at h
  · rename_i hlt
    rw [tw_append_found _ D E hlt, if_pos (by rw [List.length_append]; omega),
      List.take_append_of_le_length (by omega)]
    exact h
  · exact absurd h (by simp)

theorem specLine_append (P E : List UInt8) (c : Nat) (x : List UInt8 × Nat × Nat)
    (h : specLine P c = some x) : specLine (P ++ E) c = some x := by
  have hc : c ≤ P.length := by
    obtain ⟨l, le, c'⟩ := x
    exact (specLine_some P l c le c' h).2.2.2.1
  unfold specLine at h ⊢
  rw [List.drop_append_of_le_length hc]
  split at h
  · exact absurd h (by simp)
  · rename_i l n1 h0
    rw [specLine0_append _ E _ h0]
    exact h

theorem hlSpec_prefix : ∀ (fuelP fuelR : Nat) (line P E : List UInt8) (c : Nat) (len : Option Nat) (n c2 : Nat),
    hlSpec fuelR line (P ++ E) c len = .ok (n, c2) → c ≤ P.length →
    (∃ e, hlSpec fuelP line P c len = .error e) ∨ (hlSpec fuelP line P c len = .ok (n, c2) ∧ c2 ≤ P.length) := by
  intro fuelP
  induction fuelP with
  | zero => intro _ _ _ _ _ _ _ _ _ _; exact Or.inl ⟨_, rfl⟩
  | succ fuelP ih =>
    intro fuelR line P E c len n c2 h hc
    cases fuelR with
    | zero => exact absurd h (by simp [hlSpec])
    | succ fR =>
      rw [hlSpec_succ] at h ⊢
      by_cases hline : line.isEmpty = true
      · rw [if_pos hline] at h ⊢
        cases len with
        | none => exact absurd h (by simp)
        | some m =>
          simp only [] at h ⊢
          injection h with h; injection h with h1 h2
          subst h1 h2
          exact Or.inr ⟨rfl, hc⟩
      · rw [if_neg hline] at h ⊢
        cases hsP : specLine P c with
        | none => exact Or.inl ⟨_, rfl⟩
        | some x =>
          obtain ⟨l, le, c'⟩ := x
          have hsR := specLine_append P E c _ hsP
          have hc' := (specLine_some P l c le c' hsP).2.2.1
          rw [hsR] at h
          simp only [] at h ⊢
          by_cases hcl : isCL l = true
          · rw [if_pos hcl] at h ⊢
            by_cases hlen : len.isSome = true
            · rw [if_pos hlen] at h; exact absurd h (by simp)
            · rw [if_neg hlen] at h ⊢
              rw [lenVerdict_ext (P ++ E) l c le c' hsR hcl P E rfl hc']
              cases hv : lenVerdict (P ++ E) l le with
              | none => rw [hv] at h; exact absurd h (by simp)
              | some v =>
                rw [hv] at h
                exact ih fR l P E c' (some v) n c2 h hc'
          · rw [if_neg hcl] at h ⊢
            exact ih fR l P E c' len n c2 h hc'

theorem readSpec_record_inv (R r R' : List UInt8) (h : readSpec R = .record r R') :
    ∃ l le c n c2, specLine R 0 = some (l, le, c) ∧ (l != "WARC/1.0".toUTF8.toList) = false ∧
      hlSpec (R.length + 2) l R c none = .ok (n, c2) ∧ c2 + n + 4 ≤ R.length ∧
      r = R.take (c2 + n + 4) := by
  unfold readSpec at h
  split at h
  · split at h <;> exact absurd h (by simp)
  · rename_i l le c hs
    split at h
    · exact absurd h (by simp)
    · rename_i hv
      split at h
      · exact absurd h (by simp)
      · rename_i n c2 hh
        simp only [] at h
        split at h
        · exact absurd h (by simp)
        · rename_i hlen
          split at h
          · exact absurd h (by simp)
          · injection h with h1 h2
            exact ⟨l, le, c, n, c2, hs, by simpa using hv, hh, by omega, h1.symm⟩

/-- no proper non-empty prefix of a record is accepted. -/
theorem readSpec_prefix_error (R r R' : List UInt8) (h : readSpec R = .record r R') (k : Nat)
    (hk0 : 0 < k) (hk : k < r.length) : ∃ e, readSpec (R.take k) = .error e := by
  obtain ⟨l, le, c, n, c2, hs, hv, hh, hlen, hr⟩ := readSpec_record_inv R r R' h
  have hkt : k < c2 + n + 4 := by
    rw [hr, List.length_take] at hk; omega
  have hPl : (R.take k).length = k := by rw [List.length_take]; omega
  have hPE : R.take k ++ R.drop k = R := List.take_append_drop k R
  generalize hP : R.take k = P at *
  generalize R.drop k = E at *
  subst hPE
  unfold readSpec
  cases hsP : specLine P 0 with
  | none =>
    simp only []
    have : P.isEmpty = false := by
      cases P with
      | nil => simp at hPl; omega
      | cons _ _ => rfl
    rw [this]
    exact ⟨_, rfl⟩
  | some x =>
    obtain ⟨l', le', c'⟩ := x
    have hsR := specLine_append P E 0 _ hsP
    rw [hs] at hsR
    injection hsR with hsR
    injection hsR with e1 e2
    injection e2 with e2 e3
    subst e1 e2 e3
    have hc' := (specLine_some P l 0 le c hsP).2.2.1
    simp only []
    rw [hv]
    simp only [Bool.false_eq_true, if_false]
    rcases hlSpec_prefix (P.length + 2) _ l P E c none n c2 hh hc' with ⟨e, he⟩ | ⟨he, _⟩
    · rw [he]; exact ⟨_, rfl⟩
    · rw [he]
      simp only []
      rw [if_pos (by omega)]
      exact ⟨_, rfl⟩


/-! ## literals -/

def keyU : List UInt8 := [67, 111, 110, 116, 101, 110, 116, 45, 76, 101, 110, 103, 116, 104, 58]
def keyL : List UInt8 := [99, 111, 110, 116, 101, 110, 116, 45, 108, 101, 110, 103, 116, 104, 58]

theorem keyU_isKey : IsKey keyU := ⟨rfl, by decide +kernel, by decide⟩
theorem keyL_isKey : IsKey keyL := ⟨rfl, by decide +kernel, by decide⟩
theorem strU : "Content-Length: ".toUTF8.toList = keyU ++ [32] := by decide +kernel
theorem strL : "content-length: ".toUTF8.toList = keyL ++ [32] := by decide +kernel
theorem strNeg : "Content-Length: -".toUTF8.toList = keyU ++ [32, 45] := by decide +kernel

theorem flatMap_length_ge {α : Type} (f : α → List UInt8) (recs : List α)
    (h : ∀ r ∈ recs, 1 ≤ (f r).length) : recs.length ≤ (recs.flatMap f).length := by
  induction recs with
  | nil => simp
  | cons r recs ih =>
    have := h r (by simp)
    have := ih (fun x hx => h x (by simp [hx]))
    simp only [List.flatMap_cons, List.length_append, List.length_cons]; omega

theorem okH_of (h : List UInt8) (h1 : h ≠ []) (h2 : (10 : UInt8) ∉ h)
    (h3 : ¬ ((h.take 15).map toLowerByte = contentLengthKey)) : OkH h := by
  refine ⟨h1, h2, ?_⟩
  unfold isCL
  have : ((h.take 15).map toLowerByte == contentLengthKey) = false := by simpa using h3
  rw [this]; simp


/-! ## saturation of `strtoll` (bodies of 2^63 bytes or more) -/

theorem valOf_false_sat (ds : List UInt8) (n : Nat)
    (h : ds.foldl (fun a c => a * 10 + (c.toNat - 48)) 0 = n) (hn : 2 ^ 63 ≤ n) :
    (valOf false ds).toNat = 2 ^ 63 - 1 := by
  unfold valOf
  simp only [Bool.false_eq_true, if_false, h]
  rw [if_pos (by omega)]
  rfl

theorem mkV_length (V : List UInt8) (hs : List (List UInt8)) (K ds body : List UInt8) :
    (mkV V hs K ds body).length =
      V.length + 2 + (hs.flatMap (· ++ [13, 10])).length + ((K ++ 32 :: ds).length + 2) + 2 + body.length + 4 := by
  simp only [mkV, List.length_append, List.length_cons, List.length_nil]
  omega

theorem readSpec_mk_sat (V : List UInt8) (hV : V = "WARC/1.0".toUTF8.toList)
    (K ds body R' : List UInt8) (hK : IsKey K) (hne : ds ≠ []) (hd : ∀ d ∈ ds, isDigit d = true)
    (hsat : (valOf false ds).toNat < body.length) :
    readSpec (mkV V [] K ds body) ≠ .record (mkV V [] K ds body) R' := by
  intro h
  obtain ⟨hVl, hVe⟩ := ver_facts V hV
  have hR : mkV V [] K ds body = V ++ 13 :: 10 :: (([] : List (List UInt8)).flatMap (· ++ [13, 10]) ++
      ((K ++ 32 :: ds) ++ 13 :: 10 :: (13 :: 10 :: (body ++ [13, 10, 13, 10])))) := by
    simp [mkV]
  have hh := hlSpec_mk V hV [] K ds _ _ (by simp) hK hne hd hR
  obtain ⟨l, le, c, n, c2, hs, hv, hh', hlen, hr⟩ := readSpec_record_inv _ _ _ h
  have hsv : specLine (mkV V [] K ds body) 0 = some (V, 8, 10) := by
    rw [hR, hV]; exact specLine_version _
  rw [hs] at hsv
  injection hsv with hsv
  injection hsv with e1 e2
  injection e2 with e2 e3
  subst e1 e3
  rw [hh] at hh'
  injection hh' with hh'
  injection hh' with e4 e5
  have hl := congrArg List.length hr
  rw [List.length_take, Nat.min_eq_left hlen, mkV_length] at hl
  rw [mkV_length] at hlen
  simp only [List.flatMap_nil, List.length_nil] at hl e5
  omega


theorem readAllSpec_single (M : List UInt8) (h : readSpec M = .record M []) :
    readAllSpec (M.length + 1) M = ([M], none) := by
  have h4 := (readSpec_record M M [] h).2.1
  obtain ⟨k, hk⟩ : ∃ k, M.length = k + 1 := ⟨M.length - 1, by omega⟩
  rw [readAllSpec_succ, h, hk]
  simp only []
  rw [readAllSpec_succ, readSpec_nil]

end PV.Lemmas.Warc
