import PV.Model.Warc
import PV.Lemmas.Reader
namespace PV.Lemmas.Warc
end PV.Lemmas.Warc
