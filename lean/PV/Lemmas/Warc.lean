import PV.Model.Warc
import PV.Lemmas.Reader
namespace PV.Lemmas.Warc
open PV.Warc PV.Reader PV.Lemmas.Reader

/-! ## generic list facts -/

theorem tw_append_found {α : Type} (p : α → Bool) : ∀ (P Q : List α),
    (P.takeWhile p).length < P.length → (P ++ Q).takeWhile p = P.takeWhile p := by
  intro P
  induction P with
  | nil => intro Q h; simp at h
  | cons a t ih =>
    intro Q h
    by_cases ha : p a = true
    · simp only [List.takeWhile_cons, ha, if_true, List.length_cons, Nat.add_lt_add_iff_right,
        List.cons_append] at h ⊢
      rw [ih Q h]
    · simp [ha]

theorem tw_all_of_forall {α : Type} (p : α → Bool) : ∀ (P : List α), (∀ a ∈ P, p a = true) →
    P.takeWhile p = P := by
  intro P h
  induction P with
  | nil => rfl
  | cons a t ih =>
    simp only [List.takeWhile_cons, h a (by simp), if_true]
    rw [ih (fun x hx => h x (by simp [hx]))]

theorem tw_append_all {α : Type} (p : α → Bool) (P Q : List α) (h : ∀ a ∈ P, p a = true) :
    (P ++ Q).takeWhile p = P ++ Q.takeWhile p := by
  rw [List.takeWhile_append_of_pos h]

theorem tw_stop {α : Type} (p : α → Bool) (P : List α) (c : α) (Q : List α)
    (h : ∀ a ∈ P, p a = true) (hc : p c = false) :
    (P ++ c :: Q).takeWhile p = P := by
  rw [tw_append_all p P _ h]
  simp [hc]

/-! ## `HeaderReader::Line` -/

/-- line splitter on a list that starts at the read position: (line without CR, bytes used). -/
def specLine0 (D : List UInt8) : Option (List UInt8 × Nat) :=
  let n := (D.takeWhile (· != 10)).length
  if n < D.length then
    let raw := D.take n
    some (if raw.getLast? == some 13 then raw.dropLast else raw, n + 1)
  else none

/-- schedule-free specification of `headerLine` on the unread stream `R`. -/
def specLine (R : List UInt8) (consumed : Nat) : Option (List UInt8 × Nat × Nat) :=
  match specLine0 (R.drop consumed) with
  | none => none
  | some (l, n1) => some (l, consumed + l.length, consumed + n1)

def LinePost (R : List UInt8) (consumed : Nat) (res : LineRes) : Prop :=
  match specLine R consumed with
  | some (l, le, c') => ∃ out' s', res = .line l le c' out' s' ∧ out' ++ s'.src = R ∧ c' ≤ out'.length
  | none => res = if R.isEmpty then .eofClean else .eofDirty

theorem headerLine_succ (fuel : Nat) (out : List UInt8) (consumed : Nat) (s : Src) :
    headerLine (fuel + 1) out consumed s =
      (let rest := out.drop consumed
       let n := (rest.takeWhile (· != 10)).length
       if consumed + n < out.length then
         let raw := rest.take n
         let l := if raw.getLast? == some 13 then raw.dropLast else raw
         .line l (consumed + l.length) (consumed + n + 1) out s
       else
         match readMore out s with
         | none => if out.isEmpty then .eofClean else .eofDirty
         | some (out', s') => headerLine fuel out' consumed s') := rfl

theorem readMore_eq (out : List UInt8) (s : Src) :
    readMore out s = if (s.src.take (want kRead s.sched)).isEmpty then none
      else some (out ++ s.src.take (want kRead s.sched), ⟨s.src.drop (want kRead s.sched), s.sched.tail⟩) := by
  unfold readMore
  rw [osRead_eq]

theorem headerLine_spec : ∀ (fuel : Nat) (out : List UInt8) (consumed : Nat) (s : Src) (R : List UInt8),
    out ++ s.src = R → s.src.length + 2 ≤ fuel → LinePost R consumed (headerLine fuel out consumed s) := by
  intro fuel
  induction fuel with
  | zero => intro _ _ _ _ _ h; omega
  | succ fuel ih =>
    intro out consumed s R hR hf
    rw [headerLine_succ]
    simp only []
    by_cases hlt : consumed + ((out.drop consumed).takeWhile (· != 10)).length < out.length
    · rw [if_pos hlt]
      have hc : consumed ≤ out.length := by omega
      have hdrop : R.drop consumed = out.drop consumed ++ s.src := by
        rw [← hR, List.drop_append_of_le_length hc]
      have hlt' : ((out.drop consumed).takeWhile (· != 10)).length < (out.drop consumed).length := by
        rw [List.length_drop]; omega
      have htw : (R.drop consumed).takeWhile (· != 10) = (out.drop consumed).takeWhile (· != 10) := by
        rw [hdrop]; exact tw_append_found _ _ _ hlt'
      unfold LinePost specLine specLine0
      simp only [htw]
      have hlen : ((out.drop consumed).takeWhile (· != 10)).length < (R.drop consumed).length := by
        rw [hdrop, List.length_append]; omega
      rw [if_pos hlen]
      have htake : (R.drop consumed).take ((out.drop consumed).takeWhile (· != 10)).length
          = (out.drop consumed).take ((out.drop consumed).takeWhile (· != 10)).length := by
        rw [hdrop, List.take_append_of_le_length (by omega)]
      simp only [htake]
      exact ⟨out, s, by simp [Nat.add_assoc], hR, by omega⟩
    · rw [if_neg hlt, readMore_eq]
      have hw := want_pos kRead s.sched (by decide)
      generalize want kRead s.sched = w at hw
      by_cases hg : (s.src.take w).isEmpty = true
      · rw [if_pos hg]
        simp only []
        have hs : s.src = [] := take_eq_nil_of_pos _ _ hw (by simpa using hg)
        rw [hs, List.append_nil] at hR
        subst hR
        unfold LinePost specLine specLine0
        simp only []
        have : ¬ ((out.drop consumed).takeWhile (· != 10)).length < (out.drop consumed).length := by
          rw [List.length_drop]; omega
        rw [if_neg this]
        trivial
      · rw [if_neg hg]
        simp only []
        apply ih
        · simp only []
          rw [List.append_assoc, List.take_append_drop]; exact hR
        · simp only [List.length_drop]
          have : s.src ≠ [] := by intro h; apply hg; simp [h]
          have := List.length_pos_iff.mpr this
          omega


/-! ### facts about `specLine0` / `specLine` -/

theorem specLine0_some (D l : List UInt8) (n1 : Nat) (h : specLine0 D = some (l, n1)) :
    l.length + 1 ≤ n1 ∧ n1 ≤ D.length ∧ ∃ t, (t = 13 ∨ t = 10) ∧ l ++ [t] <+: D := by
  unfold specLine0 at h
  simp only [] at h
  split at h
  · rename_i hlt
    injection h with h
    injection h with h1 h2
    have hsp := tw_split 10 D hlt
    generalize hn : (D.takeWhile (· != 10)).length = n at *
    have htk : D.take n = D.takeWhile (· != 10) := by
      conv => lhs; rw [hsp]
      rw [List.take_left' hn]
    rw [htk] at h1
    generalize hraw : D.takeWhile (· != 10) = raw at *
    by_cases hl : raw.getLast? = some 13
    · have hl' : (raw.getLast? == some 13) = true := by simp [hl]
      rw [hl', if_pos rfl] at h1
      have hne : raw ≠ [] := by intro h0; simp [h0] at hl
      have hdl := List.dropLast_concat_getLast hne
      have hgl : raw.getLast hne = 13 := by
        rw [List.getLast?_eq_some_getLast hne] at hl
        injection hl
      rw [hgl, h1] at hdl
      refine ⟨?_, by omega, 13, Or.inl rfl, ?_⟩
      · have := congrArg List.length hdl
        simp at this; omega
      · rw [hdl, hsp]; exact List.prefix_append _ _
    · have hl' : (raw.getLast? == some 13) = false := by simp [hl]
      rw [hl'] at h1
      simp only [Bool.false_eq_true, if_false] at h1
      subst h1
      refine ⟨by omega, by omega, 10, Or.inr rfl, ?_⟩
      rw [hsp]
      simp
  · exact absurd h (by simp)

theorem specLine_some (R l : List UInt8) (c le c' : Nat) (h : specLine R c = some (l, le, c')) :
    le = c + l.length ∧ le < c' ∧ c' ≤ R.length ∧ c ≤ R.length ∧
      ∃ t, (t = 13 ∨ t = 10) ∧ l ++ [t] <+: R.drop c := by
  unfold specLine at h
  split at h
  · exact absurd h (by simp)
  · rename_i l0 n1 h0
    injection h with h
    injection h with h1 h2
    injection h2 with h2 h3
    subst h1
    obtain ⟨a1, a2, a3⟩ := specLine0_some _ _ _ h0
    rw [List.length_drop] at a2
    exact ⟨h2.symm, by omega, by omega, by omega, a3⟩

theorem specLine0_crlf (l tail : List UInt8) (h : (10 : UInt8) ∉ l) :
    specLine0 (l ++ 13 :: 10 :: tail) = some (l, l.length + 2) := by
  have htw : (l ++ 13 :: 10 :: tail).takeWhile (· != 10) = l ++ [13] := by
    have : l ++ 13 :: 10 :: tail = (l ++ [13]) ++ 10 :: tail := by simp
    rw [this]
    apply tw_stop
    · intro a ha
      simp only [List.mem_append, List.mem_singleton] at ha
      rcases ha with ha | ha
      · have : a ≠ 10 := fun e => h (e ▸ ha)
        simpa using this
      · subst ha; decide
    · decide
  unfold specLine0
  simp only [htw]
  rw [if_pos (by simp)]
  have : (l ++ 13 :: 10 :: tail).take (l ++ [13]).length = l ++ [13] := by
    have : l ++ 13 :: 10 :: tail = (l ++ [13]) ++ 10 :: tail := by simp
    rw [this, List.take_left]
  rw [this]
  simp

theorem specLine0_lf (l tail : List UInt8) (h : (10 : UInt8) ∉ l) :
    specLine0 (l ++ 10 :: tail) =
      some (if l.getLast? == some 13 then l.dropLast else l, l.length + 1) := by
  have htw : (l ++ 10 :: tail).takeWhile (· != 10) = l := by
    apply tw_stop
    · intro a ha
      have : a ≠ 10 := fun e => h (e ▸ ha)
      simpa using this
    · decide
  unfold specLine0
  simp only [htw]
  rw [if_pos (by simp), List.take_left]

theorem specLine0_none (D : List UInt8) (h : (10 : UInt8) ∉ D) : specLine0 D = none := by
  have : D.takeWhile (· != 10) = D := by
    apply tw_all_of_forall
    intro a ha
    have : a ≠ 10 := fun e => h (e ▸ ha)
    simpa using this
  unfold specLine0
  simp [this]


/-! ## `strtoll` -/

def sign (r1 : List UInt8) : Bool × Nat :=
  match r1 with
  | 45 :: _ => (true, 1)
  | 43 :: _ => (false, 1)
  | _ => (false, 0)

def valOf (neg : Bool) (digs : List UInt8) : Int :=
  let v : Nat := digs.foldl (fun a c => a * 10 + (c.toNat - 48)) 0
  if neg then (if v > 2 ^ 63 then -(2 ^ 63 : Int) else -(v : Int))
  else (if v ≥ 2 ^ 63 then (2 ^ 63 - 1 : Int) else (v : Int))

/-- `strtoll` relative to the start position. -/
def scan (rest : List UInt8) : Int × Nat × Bool :=
  let ws := (rest.takeWhile isSpace).length
  let r1 := rest.drop ws
  let digs := (r1.drop (sign r1).2).takeWhile isDigit
  if digs.isEmpty then (0, 0, false)
  else (valOf (sign r1).1 digs, ws + (sign r1).2 + digs.length, true)

theorem sign_cons (x : UInt8) (L : List UInt8) :
    sign (x :: L) = if x = 45 then (true, 1) else if x = 43 then (false, 1) else (false, 0) := by
  unfold sign; split <;> simp_all

theorem strtoll_def (out : List UInt8) (start : Nat) :
    strtoll out start =
      (let rest := out.drop start
       let ws := (rest.takeWhile isSpace).length
       let r1 := rest.drop ws
       let digs := (r1.drop (sign r1).2).takeWhile isDigit
       if digs.isEmpty then (0, start, false)
       else (valOf (sign r1).1 digs, start + ws + (sign r1).2 + digs.length, true)) := rfl

theorem strtoll_eq (out : List UInt8) (start : Nat) :
    strtoll out start =
      ((scan (out.drop start)).1, start + (scan (out.drop start)).2.1, (scan (out.drop start)).2.2) := by
  rw [strtoll_def]
  unfold scan
  simp only []
  split <;> simp [Nat.add_assoc]

/-- the Content-Length verdict computed by `headerLoop` (`none` = "Content-Length parse error"). -/
def verdict (r : Int × Nat × Bool) (start lineEnd : Nat) (is15 : Bool) : Option Nat :=
  if (start + r.2.1 != lineEnd) && !(is15 && !r.2.2) then none
  else if decide (r.1 < 0) || !r.2.2 then none
  else some r.1.toNat

def lenVerdict (out l : List UInt8) (lineEnd : Nat) : Option Nat :=
  verdict (scan (out.drop (lineEnd - l.length + 15))) (lineEnd - l.length + 15) lineEnd (l.length == 15)

theorem sign_le (r1 : List UInt8) : (sign r1).2 ≤ 1 := by
  unfold sign; split <;> simp

theorem sign_append (x : UInt8) (A Q : List UInt8) : sign (x :: A ++ Q) = sign (x :: A) := by
  rw [List.cons_append, sign_cons, sign_cons]

/-- the scan of a buffer that contains a non-space byte and then a non-digit terminator does not
    look beyond the terminator. -/
theorem scan_append (A : List UInt8) (c : UInt8) (Q : List UInt8)
    (hA : (A.takeWhile isSpace).length < A.length) (hc : isDigit c = false) :
    scan ((A ++ [c]) ++ Q) = scan (A ++ [c]) := by
  have h1 : ((A ++ [c]) ++ Q).takeWhile isSpace = A.takeWhile isSpace := by
    rw [List.append_assoc]; exact tw_append_found _ _ _ hA
  have h2 : (A ++ [c]).takeWhile isSpace = A.takeWhile isSpace := tw_append_found _ _ _ hA
  generalize hws : (A.takeWhile isSpace).length = ws at *
  -- A.drop ws = x :: A'
  obtain ⟨x, A', hx⟩ : ∃ x A', A.drop ws = x :: A' := by
    cases h : A.drop ws with
    | nil => have := congrArg List.length h; simp at this; omega
    | cons x A' => exact ⟨x, A', rfl⟩
  have d1 : ((A ++ [c]) ++ Q).drop ws = (x :: A' ++ [c]) ++ Q := by
    rw [List.append_assoc, List.drop_append_of_le_length (by omega), hx]; simp
  have d2 : (A ++ [c]).drop ws = x :: A' ++ [c] := by
    rw [List.drop_append_of_le_length (by omega), hx]
  unfold scan
  simp only [h1, h2, hws, d1, d2]
  have hs : sign ((x :: A' ++ [c]) ++ Q) = sign (x :: A' ++ [c]) := by
    have := sign_append x (A' ++ [c]) Q
    simpa [List.append_assoc] using this
  rw [hs]
  have hsl := sign_le (x :: A' ++ [c])
  generalize (sign (x :: A' ++ [c])) = sg at *
  have d3 : ((x :: A' ++ [c]) ++ Q).drop sg.2 = ((x :: A').drop sg.2 ++ [c]) ++ Q := by
    rw [List.drop_append_of_le_length (by simp; omega)]
    congr 1
    rw [List.drop_append_of_le_length (by simp; omega)]
  have d4 : (x :: A' ++ [c]).drop sg.2 = (x :: A').drop sg.2 ++ [c] := by
    rw [List.drop_append_of_le_length (by simp; omega)]
  have htw : (((x :: A').drop sg.2 ++ [c]) ++ Q).takeWhile isDigit
      = ((x :: A').drop sg.2 ++ [c]).takeWhile isDigit := by
    apply tw_append_found
    have : (((x :: A').drop sg.2 ++ [c]).takeWhile isDigit).length ≤ ((x :: A').drop sg.2).length := by
      rw [List.takeWhile_append]
      split
      · simp [hc]
      · exact (List.takeWhile_sublist _).length_le
    simp only [List.length_append, List.length_singleton]
    omega
  rw [d3, d4, htw]

theorem verdict_conv_false (v : Int) (start lineEnd : Nat) (is15 : Bool) (h : is15 = true ↔ start = lineEnd) :
    verdict (v, 0, false) start lineEnd is15 = none := by
  unfold verdict
  by_cases hs : start = lineEnd
  · simp [hs, h.mpr hs]
  · have : is15 = false := by
      cases is15 with
      | false => rfl
      | true => exact absurd (h.mp rfl) hs
    simp [hs, this]

/-- when only white space follows the key on the line, the verdict is a parse error however
    much of the following bytes the scan sees. -/
theorem verdict_allspace (A : List UInt8) (c : UInt8) (Y : List UInt8)
    (hA : ∀ a ∈ A, isSpace a = true) (hc : isSpace c = true) (start : Nat) (is15 : Bool)
    (h15 : is15 = true ↔ A.length = 0) :
    verdict (scan (A ++ c :: Y)) start (start + A.length) is15 = none := by
  have hws : A.length + 1 ≤ ((A ++ c :: Y).takeWhile isSpace).length := by
    rw [tw_append_all _ _ _ hA]
    simp [hc]
  unfold scan
  simp only []
  generalize ((A ++ c :: Y).takeWhile isSpace).length = W at *
  generalize (sign ((A ++ c :: Y).drop W)) = S
  generalize (((A ++ c :: Y).drop W).drop S.2).takeWhile isDigit = Dg
  split
  · apply verdict_conv_false
    rw [h15]; omega
  · rename_i hd
    have hdl : 0 < Dg.length := by
      cases Dg with
      | nil => simp at hd
      | cons _ _ => simp
    unfold verdict
    have : (start + (W + S.2 + Dg.length) != start + A.length) = true := by
      simp only [bne_iff_ne, ne_eq]
      omega
    simp [this]

theorem verdict_prefix (A : List UInt8) (c : UInt8) (hc : c = 13 ∨ c = 10) (X : List UInt8)
    (hX : A ++ [c] <+: X) (start : Nat) (is15 : Bool) (h15 : is15 = true ↔ A.length = 0) :
    verdict (scan X) start (start + A.length) is15
      = verdict (scan (A ++ [c])) start (start + A.length) is15 := by
  obtain ⟨Q, rfl⟩ := hX
  have hcd : isDigit c = false := by rcases hc with rfl | rfl <;> decide
  have hcs : isSpace c = true := by rcases hc with rfl | rfl <;> decide
  by_cases hA : (A.takeWhile isSpace).length < A.length
  · rw [scan_append A c Q hA hcd]
  · have hall : ∀ a ∈ A, isSpace a = true := by
      have hp : A.takeWhile isSpace <+: A := List.takeWhile_prefix _
      have := hp.eq_of_length_le (by omega)
      intro a ha
      rw [← this] at ha
      have h := List.all_takeWhile (l := A) (p := isSpace)
      rw [List.all_eq_true] at h
      exact h a ha
    have e1 : A ++ [c] ++ Q = A ++ c :: Q := by simp
    have e2 : A ++ [c] = A ++ c :: [] := by simp
    rw [e1, verdict_allspace A c Q hall hcs start is15 h15, e2,
      verdict_allspace A c [] hall hcs start is15 h15]


/-! ## the header loop -/

def isCL (l : List UInt8) : Bool :=
  decide (l.length ≥ 15) && (l.take 15).map toLowerByte == contentLengthKey

theorem headerLoop_raw (fuel : Nat) (line out : List UInt8) (consumed : Nat) (s : Src) (len : Option Nat) :
    headerLoop (fuel + 1) line out consumed s len =
    if line.isEmpty then
      match len with
      | none => .error .noLength
      | some n => .ok (n, consumed, out, s)
    else
      match headerLine (s.src.length + 2) out consumed s with
      | .line l lineEnd consumed' out' s' =>
        if l.length ≥ 15 && (l.take 15).map toLowerByte == contentLengthKey then
          if len.isSome then .error .twoLengths
          else
            let start := lineEnd - l.length + 15
            let (v, e, conv) := strtoll out' start
            if e != lineEnd && !(l.length == 15 && !conv) then .error .lengthParse
            else if v < 0 || !conv then .error .lengthParse
            else headerLoop fuel l out' consumed' s' (some v.toNat)
        else headerLoop fuel l out' consumed' s' len
      | _ => .error .eofInHeader := rfl

theorem headerLoop_succ (fuel : Nat) (line out : List UInt8) (consumed : Nat) (s : Src) (len : Option Nat) :
    headerLoop (fuel + 1) line out consumed s len =
      if line.isEmpty then
        (match len with
         | none => .error .noLength
         | some n => .ok (n, consumed, out, s))
      else
        match headerLine (s.src.length + 2) out consumed s with
        | .line l lineEnd consumed' out' s' =>
          if isCL l then
            if len.isSome then .error .twoLengths
            else match lenVerdict out' l lineEnd with
              | none => .error .lengthParse
              | some v => headerLoop fuel l out' consumed' s' (some v)
          else headerLoop fuel l out' consumed' s' len
        | _ => .error .eofInHeader := by
  rw [headerLoop_raw]
  split
  · rfl
  · split
    · rename_i l lineEnd consumed' out' s' _
      unfold isCL
      split
      · split
        · rfl
        · unfold lenVerdict verdict
          simp only [strtoll_eq]
          split
          · simp [*]
          · split
            · simp [*]
            · simp [*]
      · rfl
    · rfl


/-- schedule-free specification of `headerLoop` on the unread stream `R`: (length, consumed). -/
def hlSpec : Nat → List UInt8 → List UInt8 → Nat → Option Nat → Except Err (Nat × Nat)
  | 0, _, _, _, _ => .error .eofInHeader
  | fuel + 1, line, R, consumed, len =>
    if line.isEmpty then
      match len with
      | none => .error .noLength
      | some n => .ok (n, consumed)
    else
      match specLine R consumed with
      | some (l, le, c') =>
        if isCL l then
          if len.isSome then .error .twoLengths
          else match lenVerdict R l le with
            | none => .error .lengthParse
            | some v => hlSpec fuel l R c' (some v)
        else hlSpec fuel l R c' len
      | none => .error .eofInHeader

theorem hlSpec_succ (fuel : Nat) (line R : List UInt8) (consumed : Nat) (len : Option Nat) :
    hlSpec (fuel + 1) line R consumed len =
    if line.isEmpty then
      match len with
      | none => .error .noLength
      | some n => .ok (n, consumed)
    else
      match specLine R consumed with
      | some (l, le, c') =>
        if isCL l then
          if len.isSome then .error .twoLengths
          else match lenVerdict R l le with
            | none => .error .lengthParse
            | some v => hlSpec fuel l R c' (some v)
        else hlSpec fuel l R c' len
      | none => .error .eofInHeader := rfl

def LoopPost (R : List UInt8) (spec : Except Err (Nat × Nat))
    (res : Except Err (Nat × Nat × List UInt8 × Src)) : Prop :=
  match spec with
  | .error e => res = .error e
  | .ok (n, c) => ∃ out' s', res = .ok (n, c, out', s') ∧ out' ++ s'.src = R ∧ c ≤ out'.length

theorem isCL_length (l : List UInt8) (h : isCL l = true) : 15 ≤ l.length := by
  unfold isCL at h
  simp only [Bool.and_eq_true, decide_eq_true_eq] at h
  exact h.1

theorem lenVerdict_of_prefix (X l : List UInt8) (c : Nat) (t : UInt8) (ht : t = 13 ∨ t = 10)
    (hl : 15 ≤ l.length) (hX : l ++ [t] <+: X.drop c) :
    lenVerdict X l (c + l.length) =
      verdict (scan (l.drop 15 ++ [t])) (c + 15) (c + l.length) (l.length == 15) := by
  unfold lenVerdict
  have e1 : c + l.length - l.length + 15 = c + 15 := by omega
  have e2 : c + l.length = (c + 15) + (l.drop 15).length := by simp; omega
  rw [e1]
  rw [e2]
  have hpre : l.drop 15 ++ [t] <+: X.drop (c + 15) := by
    obtain ⟨Q, hQ⟩ := hX
    refine ⟨Q, ?_⟩
    rw [← List.drop_drop, ← hQ]
    simp only [List.append_assoc]
    rw [List.drop_append_of_le_length hl]
  have h15 : (l.length == 15) = true ↔ (l.drop 15).length = 0 := by
    simp only [List.length_drop, beq_iff_eq]; omega
  exact verdict_prefix (l.drop 15) t ht _ hpre (c + 15) _ h15

theorem lenVerdict_ext (R l : List UInt8) (c le c' : Nat) (h : specLine R c = some (l, le, c'))
    (hcl : isCL l = true) (out' ext : List UInt8) (hR : out' ++ ext = R) (hc' : c' ≤ out'.length) :
    lenVerdict out' l le = lenVerdict R l le := by
  obtain ⟨h1, h2, h3, h4, t, ht, hp⟩ := specLine_some R l c le c' h
  subst h1
  have hl := isCL_length l hcl
  rw [lenVerdict_of_prefix R l c t ht hl hp, lenVerdict_of_prefix out' l c t ht hl]
  have hp2 : out'.drop c <+: R.drop c := by
    rw [← hR, List.drop_append_of_le_length (by omega)]
    exact List.prefix_append _ _
  apply List.prefix_of_prefix_length_le hp hp2
  simp only [List.length_append, List.length_singleton, List.length_drop]
  omega

theorem headerLoop_spec : ∀ (fuel : Nat) (line out : List UInt8) (consumed : Nat) (s : Src)
    (len : Option Nat) (R : List UInt8), out ++ s.src = R → consumed ≤ out.length →
    LoopPost R (hlSpec fuel line R consumed len) (headerLoop fuel line out consumed s len) := by
  intro fuel
  induction fuel with
  | zero => intro line out consumed s len R _ _; exact rfl
  | succ fuel ih =>
    intro line out consumed s len R hR hc
    rw [headerLoop_succ, hlSpec_succ]
    by_cases hline : line.isEmpty = true
    · rw [if_pos hline, if_pos hline]
      cases len with
      | none => exact rfl
      | some n => exact ⟨out, s, rfl, hR, hc⟩
    · rw [if_neg hline, if_neg hline]
      have hp := headerLine_spec (s.src.length + 2) out consumed s R hR (Nat.le_refl _)
      unfold LinePost at hp
      cases hspec : specLine R consumed with
      | none =>
        rw [hspec] at hp
        simp only [] at hp
        rw [hp]
        by_cases hE : R.isEmpty = true
        · rw [if_pos hE]; exact rfl
        · rw [if_neg hE]; exact rfl
      | some r =>
        obtain ⟨l, le, c'⟩ := r
        rw [hspec] at hp
        obtain ⟨out', s', e, hR', hc'⟩ := hp
        rw [e]
        simp only []
        by_cases hcl : isCL l = true
        · rw [if_pos hcl, if_pos hcl]
          by_cases hlen : len.isSome = true
          · rw [if_pos hlen, if_pos hlen]; exact rfl
          · rw [if_neg hlen, if_neg hlen]
            rw [lenVerdict_ext R l consumed le c' hspec hcl out' s'.src hR' hc']
            cases lenVerdict R l le with
            | none => exact rfl
            | some v => exact ih l out' c' s' (some v) R hR' hc'
        · rw [if_neg hcl, if_neg hcl]
          exact ih l out' c' s' len R hR' hc'


/-! ## the body loop -/

theorem readBody_succ (fuel : Nat) (out : List UInt8) (need : Nat) (s : Src) :
    readBody (fuel + 1) out need s =
      if need == 0 then some (out, s)
      else if (s.src.take (want need s.sched)).isEmpty then none
      else readBody fuel (out ++ s.src.take (want need s.sched))
        (need - (s.src.take (want need s.sched)).length) ⟨s.src.drop (want need s.sched), s.sched.tail⟩ := by
  rw [readBody]
  simp only [osRead_eq]

theorem readBody_spec : ∀ (fuel : Nat) (out : List UInt8) (need : Nat) (s : Src), need < fuel →
    (need ≤ s.src.length → ∃ sched', readBody fuel out need s
        = some (out ++ s.src.take need, ⟨s.src.drop need, sched'⟩)) ∧
    (s.src.length < need → readBody fuel out need s = none) := by
  intro fuel
  induction fuel with
  | zero => intro _ _ _ h; omega
  | succ fuel ih =>
    intro out need s hf
    rw [readBody_succ]
    by_cases h0 : need = 0
    · subst h0
      refine ⟨fun _ => ⟨s.sched, by simp⟩, fun h => by omega⟩
    · have hne : (need == 0) = false := by simpa using h0
      rw [hne]
      simp only [Bool.false_eq_true, if_false]
      have hw := want_pos need s.sched (by omega)
      have hw' := want_le need s.sched (by omega)
      generalize want need s.sched = w at hw hw'
      by_cases hg : (s.src.take w).isEmpty = true
      · rw [if_pos hg]
        have hs : s.src = [] := take_eq_nil_of_pos _ _ hw (by simpa using hg)
        refine ⟨fun h => ?_, fun _ => rfl⟩
        rw [hs] at h; simp at h; omega
      · rw [if_neg hg]
        have hsne : s.src ≠ [] := by intro h; apply hg; simp [h]
        have hpos := List.length_pos_iff.mpr hsne
        have hlen : (s.src.take w).length = min w s.src.length := List.length_take
        obtain ⟨i1, i2⟩ := ih (out ++ s.src.take w) (need - (s.src.take w).length)
          ⟨s.src.drop w, s.sched.tail⟩ (by rw [hlen]; omega)
        simp only [List.length_drop] at i1 i2
        constructor
        · intro h
          have hwl : w ≤ s.src.length := by omega
          obtain ⟨sched', e⟩ := i1 (by rw [hlen]; omega)
          refine ⟨sched', ?_⟩
          rw [e]
          have hl : (s.src.take w).length = w := by rw [hlen]; omega
          rw [hl, List.drop_drop, List.append_assoc]
          have e1 : w + (need - w) = need := by omega
          rw [e1]
          congr 2
          have := List.take_add (l := s.src) (i := w) (j := need - w)
          rw [e1] at this
          rw [this]
        · intro h
          apply i2
          rw [hlen]; omega

/-! ## `WARCReader::Read` -/

inductive SpecRes where
  | record (r : List UInt8) (R' : List UInt8)
  | eof
  | error (e : Err)

/-- schedule-free specification of `read` on the unread stream `R`. -/
def readSpec (R : List UInt8) : SpecRes :=
  match specLine R 0 with
  | none => if R.isEmpty then .eof else .error .eofInHeader
  | some (l, _, c) =>
    if l != "WARC/1.0".toUTF8.toList then .error .badVersion
    else
      match hlSpec (R.length + 2) l R c none with
      | .error e => .error e
      | .ok (length, c2) =>
        let total := c2 + length + 4
        if R.length < total then .error .eofInBody
        else if (R.take total).drop (total - 4) != [13, 10, 13, 10] then .error .noTerminator
        else .record (R.take total) (R.drop total)

def ReadPost (spec : SpecRes) (res : ReadRes) : Prop :=
  match spec with
  | .eof => res = .eof
  | .error e => res = .error e
  | .record r R' => ∃ ov' s', res = .record r ov' s' ∧ ov' ++ s'.src = R'

theorem read_spec (ov : List UInt8) (s : Src) (R : List UInt8) (hR : ov ++ s.src = R) :
    ReadPost (readSpec R) (read ov s) := by
  have hp := headerLine_spec (s.src.length + 2) ov 0 s R hR (Nat.le_refl _)
  unfold LinePost at hp
  unfold read readSpec
  cases hspec : specLine R 0 with
  | none =>
    rw [hspec] at hp
    simp only [] at hp
    rw [hp]
    by_cases hE : R.isEmpty = true
    · simp only [hE, if_true]; exact rfl
    · simp only [hE]; exact rfl
  | some r =>
    obtain ⟨l, le, c⟩ := r
    rw [hspec] at hp
    obtain ⟨out', s', e, hR', hc'⟩ := hp
    rw [e]
    simp only []
    by_cases hv : (l != "WARC/1.0".toUTF8.toList) = true
    · rw [if_pos hv, if_pos hv]; exact rfl
    · rw [if_neg hv, if_neg hv]
      have hfuel : out'.length + s'.src.length + 2 = R.length + 2 := by
        rw [← hR', List.length_append]
      rw [hfuel]
      have hl := headerLoop_spec (R.length + 2) l out' c s' none R hR' hc'
      unfold LoopPost at hl
      cases hh : hlSpec (R.length + 2) l R c none with
      | error er =>
        rw [hh] at hl
        simp only [] at hl
        rw [hl]; exact rfl
      | ok r2 =>
        obtain ⟨n, c2⟩ := r2
        rw [hh] at hl
        obtain ⟨out2, s2, e2, hR2, hc2⟩ := hl
        rw [e2]
        simp only []
        have hRl : R.length = out2.length + s2.src.length := by rw [← hR2, List.length_append]
        by_cases ht : c2 + n + 4 < out2.length
        · rw [if_pos ht, if_neg (by omega)]
          have htk : R.take (c2 + n + 4) = out2.take (c2 + n + 4) := by
            rw [← hR2, List.take_append_of_le_length (by omega)]
          rw [htk]
          by_cases hterm : ((out2.take (c2 + n + 4)).drop (c2 + n + 4 - 4) != [13, 10, 13, 10]) = true
          · rw [if_pos hterm, if_pos hterm]; exact rfl
          · rw [if_neg hterm, if_neg hterm]
            refine ⟨_, _, rfl, ?_⟩
            rw [← hR2, List.drop_append_of_le_length (by omega)]
        · rw [if_neg ht]
          obtain ⟨b1, b2⟩ := readBody_spec (c2 + n + 4 + 1) out2 (c2 + n + 4 - out2.length) s2 (by omega)
          by_cases hb : c2 + n + 4 - out2.length ≤ s2.src.length
          · obtain ⟨sched', eb⟩ := b1 hb
            rw [eb, if_neg (by omega)]
            simp only []
            have htk : R.take (c2 + n + 4) = out2 ++ s2.src.take (c2 + n + 4 - out2.length) := by
              rw [← hR2, List.take_append, List.take_of_length_le (by omega)]
            rw [htk]
            by_cases hterm : ((out2 ++ s2.src.take (c2 + n + 4 - out2.length)).drop (c2 + n + 4 - 4)
                != [13, 10, 13, 10]) = true
            · rw [if_pos hterm, if_pos hterm]; exact rfl
            · rw [if_neg hterm, if_neg hterm]
              refine ⟨_, _, rfl, ?_⟩
              rw [← hR2, List.drop_append, List.drop_of_length_le (by omega)]
              simp
          · rw [b2 (by omega), if_pos (by omega)]
            exact rfl

/-! ## `readAll` -/

def readAllSpec : Nat → List UInt8 → List (List UInt8) × Option Err
  | 0, _ => ([], none)
  | fuel + 1, R =>
    match readSpec R with
    | .eof => ([], none)
    | .error e => ([], some e)
    | .record r R' =>
      let (rs, e) := readAllSpec fuel R'
      (r :: rs, e)

theorem readAll_spec : ∀ (fuel : Nat) (ov : List UInt8) (s : Src) (R : List UInt8), ov ++ s.src = R →
    readAll fuel ov s = readAllSpec fuel R := by
  intro fuel
  induction fuel with
  | zero => intro _ _ _ _; rfl
  | succ fuel ih =>
    intro ov s R hR
    have hp := read_spec ov s R hR
    unfold ReadPost at hp
    rw [readAll, readAllSpec]
    cases hs : readSpec R with
    | eof => rw [hs] at hp; simp only [] at hp; rw [hp]
    | error e => rw [hs] at hp; simp only [] at hp; rw [hp]
    | record r R' =>
      rw [hs] at hp
      obtain ⟨ov', s', e, hR'⟩ := hp
      rw [e]
      simp only []
      rw [ih ov' s' R' hR']

theorem records_eq (input : List UInt8) (sched : List Nat) :
    records input sched = readAllSpec (input.length + 1) input := by
  unfold records
  exact readAll_spec _ [] ⟨input, sched⟩ input (by simp)

end PV.Lemmas.Warc
