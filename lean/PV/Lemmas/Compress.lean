import PV.Model.Compress
/-
Helper lemmas for C15 (PV/Props/C15.lean): inductive invariants of the writer controller (`wrun`)
and of the reader controller (`rrun`).
-/
namespace PV.Lemmas.Compress
open PV.Compress

/-! ## writer -/

theorem range_append_map (a k : Nat) :
    List.range a ++ (List.range k).map (· + a) = List.range (a + k) := by
  rw [List.range_add]
  congr 1
  apply List.map_congr_left
  intro x _
  omega

/-- appending `k` fresh identities keeps "file ++ buf = everything produced". -/
theorem acc_produce (file buf : List Nat) (p k : Nat) (h : file ++ buf = List.range p) :
    file ++ (buf ++ (List.range k).map (· + p)) = List.range (p + k) := by
  rw [← List.append_assoc, h, range_append_map]

/-- the inductive invariant of the writer controller. -/
structure WInv (s : WState) : Prop where
  acc : s.file ++ s.buf = List.range s.produced
  len : s.buf.length = s.bufSize - s.availOut
  le : s.availOut ≤ s.bufSize
  inp : s.consumed + s.availIn = s.given
  noIn : (s.mode = .idle ∨ s.mode = .fl ∨ s.mode = .flDrained ∨ s.mode = .awaitFin ∨ s.mode = .finDone) →
    s.availIn = 0
  full : (s.mode = .drained ∨ s.mode = .flDrained) → s.availOut = s.bufSize
  mem : (s.dirty = false ∨ s.mode = .finDone) → 1 ≤ s.members
  clean : s.mode = .idle → s.dirty = false → s.buf = []

theorem winv_init (bufSize kMin : Nat) : WInv (winit bufSize kMin) := by
  constructor <;> simp [winit]

theorem winv_step_write (s s' : WState) (n : Nat) (hs : WInv s) (h : wstep s (.write n) = some s') :
    WInv s' := by
  obtain ⟨acc, len, le, inp, noIn, full, mem, clean⟩ := hs
  simp only [wstep] at h
  split at h
  · rename_i hm
    have h0 : s.availIn = 0 := noIn (Or.inl hm)
    injection h with h
    subst h
    split
    · constructor <;> simp_all
    · constructor <;> simp_all
  · cases h

theorem winv_step_flush (s s' : WState) (d : Bool) (hs : WInv s) (h : wstep s (.flush d) = some s') :
    WInv s' := by
  obtain ⟨acc, len, le, inp, noIn, full, mem, clean⟩ := hs
  simp only [wstep] at h
  split at h
  · rename_i hm
    injection h with h
    subst h
    split
    · constructor <;> simp_all
    · constructor <;> simp_all
  · cases h

theorem winv_step_proc (s s' : WState) (a b : Nat) (hs : WInv s) (h : wstep s (.proc a b) = some s') :
    WInv s' := by
  obtain ⟨acc, len, le, inp, noIn, full, mem, clean⟩ := hs
  simp only [wstep] at h
  split at h
  · split at h
    · injection h with h
      subst h
      constructor <;> simp_all
    · cases h
  · split at h
    · injection h with h
      subst h
      constructor <;> simp_all
    · cases h
  · cases h

theorem winv_step_did (s s' : WState) (a b : Nat) (hs : WInv s) (h : wstep s (.did a b) = some s') :
    WInv s' := by
  obtain ⟨acc, len, le, inp, noIn, full, mem, clean⟩ := hs
  simp only [wstep] at h
  split at h
  · rename_i hc
    obtain ⟨hm, ha, hb⟩ := hc
    injection h with h
    subst h
    have hacc := acc_produce s.file s.buf s.produced (s.availOut - b) acc
    split
    · constructor <;> simp_all [WState.produce] <;> omega
    · constructor <;> simp_all [WState.produce] <;> omega
  · cases h

theorem winv_step_fin (s s' : WState) (b : Nat) (hs : WInv s) (h : wstep s (.fin b) = some s') :
    WInv s' := by
  obtain ⟨acc, len, le, inp, noIn, full, mem, clean⟩ := hs
  simp only [wstep] at h
  split at h
  · split at h
    · injection h with h
      subst h
      constructor <;> simp_all
    · cases h
  · split at h
    · injection h with h
      subst h
      constructor <;> simp_all
    · cases h
  · split at h
    · rename_i hc
      injection h with h
      subst h
      have hacc := acc_produce s.file s.buf s.produced (s.availOut - b) acc
      constructor <;> simp_all [WState.produce] <;> omega
    · cases h
  · cases h

theorem winv_step_findone (s s' : WState) (b : Nat) (hs : WInv s) (h : wstep s (.findone b) = some s') :
    WInv s' := by
  obtain ⟨acc, len, le, inp, noIn, full, mem, clean⟩ := hs
  simp only [wstep] at h
  split at h
  · rename_i hc
    obtain ⟨hm, hb⟩ := hc
    injection h with h
    subst h
    have hacc := acc_produce s.file s.buf s.produced (s.availOut - b) acc
    split
    · rename_i hbs
      have hlen : (s.buf ++ (List.range (s.availOut - b)).map (· + s.produced)).length = 0 := by
        rw [List.length_append, List.length_map, List.length_range]
        omega
      have hnil := List.eq_nil_of_length_eq_zero hlen
      constructor <;> simp_all [WState.produce] <;> omega
    · constructor <;> simp_all [WState.produce] <;> omega
  · cases h

theorem winv_step_drain (s s' : WState) (n : Nat) (hs : WInv s) (h : wstep s (.drain n) = some s') :
    WInv s' := by
  obtain ⟨acc, len, le, inp, noIn, full, mem, clean⟩ := hs
  simp only [wstep] at h
  split at h
  · split at h
    · injection h with h
      subst h
      constructor <;> simp_all [WState.drainAll]
    · cases h
  · split at h
    · injection h with h
      subst h
      constructor <;> simp_all [WState.drainAll]
    · cases h
  · split at h
    · injection h with h
      subst h
      have hacc := acc_produce s.file s.buf s.produced (s.availOut - (s.bufSize - n)) acc
      constructor <;> simp_all [WState.drainAll, WState.produce]
    · cases h
  · split at h
    · injection h with h
      subst h
      constructor <;> simp_all [WState.drainAll]
    · cases h
  · cases h

theorem winv_step (s s' : WState) (e : WEv) (hs : WInv s) (h : wstep s e = some s') : WInv s' := by
  cases e with
  | write n => exact winv_step_write s s' n hs h
  | proc a b => exact winv_step_proc s s' a b hs h
  | did a b => exact winv_step_did s s' a b hs h
  | drain n => exact winv_step_drain s s' n hs h
  | flush d => exact winv_step_flush s s' d hs h
  | fin b => exact winv_step_fin s s' b hs h
  | findone b => exact winv_step_findone s s' b hs h

theorem winv_run (evs : List WEv) (s s' : WState) (hs : WInv s) (h : wrun s evs = some s') : WInv s' := by
  induction evs generalizing s with
  | nil =>
    simp only [wrun] at h
    injection h with h
    subst h
    exact hs
  | cons e es ih =>
    simp only [wrun] at h
    split at h
    · rename_i s1 h1
      exact ih s1 (winv_step s s1 e hs h1) h
    · cases h

/-- the two configuration constants never change. -/
theorem wconst_step (s s' : WState) (e : WEv) (h : wstep s e = some s') :
    s'.bufSize = s.bufSize ∧ s'.kMin = s.kMin := by
  cases e <;> simp only [wstep] at h <;> (repeat' split at h) <;> cases h <;>
    simp [WState.produce, WState.drainAll]

theorem wconst_run (evs : List WEv) (s s' : WState) (h : wrun s evs = some s') :
    s'.bufSize = s.bufSize ∧ s'.kMin = s.kMin := by
  induction evs generalizing s with
  | nil =>
    simp only [wrun] at h
    injection h with h
    subst h
    exact ⟨rfl, rfl⟩
  | cons e es ih =>
    simp only [wrun] at h
    split at h
    · rename_i s1 h1
      have h2 := ih s1 h
      have h3 := wconst_step s s1 e h1
      exact ⟨h2.1.trans h3.1, h2.2.trans h3.2⟩
    · cases h

/-! ## reader -/

theorem rbound_step (s s' : RState) (e : REv) (hs : s.nout ≤ s.amount) (h : rstep s e = some s') :
    s'.nout ≤ s'.amount := by
  cases e <;> simp only [rstep] at h <;> (repeat' split at h) <;> cases h <;> simp_all

theorem rbound_run (evs : List REv) (s s' : RState) (hs : s.nout ≤ s.amount) (h : rrun s evs = some s') :
    s'.nout ≤ s'.amount := by
  induction evs generalizing s with
  | nil =>
    simp only [rrun] at h
    injection h with h
    subst h
    exact hs
  | cons e es ih =>
    simp only [rrun] at h
    split at h
    · rename_i s1 h1
      exact ih s1 (rbound_step s s1 e hs h1) h
    · cases h

/-- every codec call is an event of its own. -/
theorem rsteps_step (s s' : RState) (e : REv) (h : rstep s e = some s') : s'.steps ≤ s.steps + 1 := by
  cases e <;> simp only [rstep] at h <;> (repeat' split at h) <;> cases h <;> simp

theorem rsteps_run (evs : List REv) (s s' : RState) (h : rrun s evs = some s') :
    s'.steps ≤ s.steps + evs.length := by
  induction evs generalizing s with
  | nil =>
    simp only [rrun] at h
    injection h with h
    subst h
    simp
  | cons e es ih =>
    simp only [rrun] at h
    split at h
    · rename_i s1 h1
      have := ih s1 h
      have := rsteps_step s s1 e h1
      simp only [List.length_cons]
      omega
    · cases h

/-! ### the real no-spin bound: codec calls ≤ compressed bytes supplied + Read calls -/

def isRead : REv → Bool
  | .read _ => true
  | _ => false

/-- one codec call is still owed to the Read call while it sits at the loop head. -/
def credit : RMode → Nat
  | .head _ => 1
  | _ => 0

structure RInv (s : RState) (r : Nat) : Prop where
  pot : s.steps + s.availIn + credit s.mode ≤ s.fed + r
  flag : ∀ f b, s.mode = .awaitRes f b → s.availIn = 0 → f = true

/-- contract C1 for the answer `e` to the call the state is waiting on. -/
def pokStep (s : RState) (e : REv) : Prop :=
  ∀ f b ain nout, s.mode = .awaitRes f b → e = .ok ain nout → (s.availIn = 0 ∨ ain < s.availIn ∨ 0 < nout)

def pokHead (s : RState) : List REv → Prop
  | [] => True
  | e :: _ => pokStep s e

theorem rinv_init (already : Nat) : RInv (rinit already) 0 := by
  constructor <;> simp [rinit, credit]

theorem rinv_step_read (s s' : RState) (r n : Nat) (hs : RInv s r) (h : rstep s (.read n) = some s') :
    RInv s' (r + 1) := by
  obtain ⟨pot, flag⟩ := hs
  simp only [rstep] at h
  split at h
  · rename_i hc
    injection h with h
    subst h
    constructor
    · simp_all [credit]
      omega
    · simp
  · cases h

theorem rinv_step_input (s s' : RState) (r n : Nat) (hs : RInv s r) (h : rstep s (.input n) = some s') :
    RInv s' r := by
  obtain ⟨pot, flag⟩ := hs
  simp only [rstep] at h
  split at h
  · rename_i f hm
    split at h
    · injection h with h
      subst h
      constructor
      · simp_all [credit]
        omega
      · simp
    · cases h
  · cases h

theorem rinv_step_proc (s s' : RState) (r a b : Nat) (hs : RInv s r) (h : rstep s (.proc a b) = some s') :
    RInv s' r := by
  obtain ⟨pot, flag⟩ := hs
  simp only [rstep] at h
  split at h
  · rename_i f hm
    split at h
    · rename_i hc
      injection h with h
      subst h
      constructor
      · simp_all [credit]
        omega
      · intro f' b' hm' ha
        simp only [RMode.awaitRes.injEq] at hm'
        simp only at ha
        obtain ⟨hc1, hc2, hc3⟩ := hc
        rw [← hm'.1]
        simp_all
    · cases h
  · cases h

theorem rinv_step_ok (s s' : RState) (r a n : Nat) (hs : RInv s r) (hp : pokStep s (.ok a n))
    (h : rstep s (.ok a n) = some s') : RInv s' r := by
  obtain ⟨pot, flag⟩ := hs
  simp only [rstep] at h
  split at h
  · rename_i f before hm
    have hprog := hp f before a n hm rfl
    have hflag := flag f before hm
    split at h
    · rename_i hc
      obtain ⟨hc1, hc2, hc3⟩ := hc
      split at h
      · injection h with h
        subst h
        constructor
        · simp_all [credit]
          omega
        · simp
      · rename_i hnf
        split at h
        · rename_i hn0
          injection h with h
          subst h
          constructor
          · have hlt : a < s.availIn := by
              rcases hprog with h0 | hlt | hpos
              · exfalso
                apply hnf
                have hb : before = 0 := by omega
                simp [hflag h0, hn0, hb]
              · exact hlt
              · omega
            simp_all [credit]
            omega
          · simp
        · injection h with h
          subst h
          constructor
          · simp_all [credit]
            omega
          · simp
    · cases h
  · cases h

theorem rinv_step_end (s s' : RState) (r a n : Nat) (hs : RInv s r) (h : rstep s (.end_ a n) = some s') :
    RInv s' r := by
  obtain ⟨pot, flag⟩ := hs
  simp only [rstep] at h
  split at h
  · rename_i f before hm
    split at h
    · injection h with h
      subst h
      constructor
      · simp_all [credit]
        omega
      · simp
    · cases h
  · cases h

theorem rinv_step_ret (s s' : RState) (r n : Nat) (hs : RInv s r) (h : rstep s (.ret n) = some s') :
    RInv s' r := by
  obtain ⟨pot, flag⟩ := hs
  simp only [rstep] at h
  split at h
  · rename_i m hm
    split at h
    · injection h with h
      subst h
      constructor
      · simp_all [credit]
      · simp
    · cases h
  · cases h

theorem rinv_step (s s' : RState) (r : Nat) (e : REv) (hs : RInv s r) (hp : pokStep s e)
    (h : rstep s e = some s') : RInv s' (r + if isRead e then 1 else 0) := by
  cases e with
  | read n => exact rinv_step_read s s' r n hs h
  | input n => exact rinv_step_input s s' r n hs h
  | proc a b => exact rinv_step_proc s s' r a b hs h
  | ok a n => exact rinv_step_ok s s' r a n hs hp h
  | end_ a n => exact rinv_step_end s s' r a n hs h
  | ret n => exact rinv_step_ret s s' r n hs h

theorem progressOk_tail (e : REv) (es : List REv) (h : progressOk (e :: es) = true) :
    progressOk es = true := by
  unfold progressOk at h
  split at h
  · rename_i heq
    injection heq with h1 h2
    subst h2
    simp only [Bool.and_eq_true] at h
    exact h.2
  · rename_i heq
    injection heq with h1 h2
    subst h2
    exact h
  · rename_i heq
    cases heq

theorem progressOk_head (a b a' n : Nat) (rest : List REv)
    (h : progressOk (.proc a b :: .ok a' n :: rest) = true) : a = 0 ∨ a' < a ∨ 0 < n := by
  simp only [progressOk, Bool.and_eq_true, Bool.or_eq_true, decide_eq_true_eq] at h
  omega

/-- only a `proc` event leads into `awaitRes`, and it fixes the input the codec is called with. -/
theorem rstep_await (s s' : RState) (e : REv) (f : Bool) (b : Nat) (h : rstep s e = some s')
    (hm : s'.mode = .awaitRes f b) : ∃ a sp, e = .proc a sp ∧ s'.availIn = a := by
  cases e with
  | proc a sp =>
    refine ⟨a, sp, rfl, ?_⟩
    simp only [rstep] at h
    (repeat' split at h) <;> cases h <;> rfl
  | _ =>
    simp only [rstep] at h
    (repeat' split at h) <;> cases h <;> simp at hm

theorem rinv_run (evs : List REv) (s s' : RState) (r : Nat) (hs : RInv s r) (hh : pokHead s evs)
    (hp : progressOk evs = true) (h : rrun s evs = some s') : RInv s' (r + evs.countP isRead) := by
  induction evs generalizing s r with
  | nil =>
    simp only [rrun] at h
    injection h with h
    subst h
    simpa using hs
  | cons e es ih =>
    simp only [rrun] at h
    split at h
    · rename_i s1 h1
      have hs1 := rinv_step s s1 r e hs hh h1
      have hh1 : pokHead s1 es := by
        cases es with
        | nil => trivial
        | cons e2 rest =>
          intro f b ain nout hm he2
          obtain ⟨a, sp, he, ha⟩ := rstep_await s s1 e f b h1 hm
          subst he he2
          rw [ha]
          exact progressOk_head a sp ain nout rest hp
      have := ih s1 _ hs1 hh1 (progressOk_tail e es hp) h
      rw [List.countP_cons]
      rw [Nat.add_assoc, Nat.add_comm (List.countP isRead es)] at *
      exact this
    · cases h

end PV.Lemmas.Compress
