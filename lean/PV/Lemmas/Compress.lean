import PV.Model.Compress
/-
Helper lemmas for C15 (PV/Props/C15.lean): inductive invariants of the writer controller (`wrun`)
and of the reader controller (`rrun`).
-/
namespace PV.Lemmas.Compress
open PV.Compress

/-! ## writer -/

theorem range_append_map (a k : Nat) :
    List.range a ++ (List.range k).map (· + a) = List.range (a + k) := by
  rw [List.range_add]
  congr 1
  apply List.map_congr_left
  intro x _
  omega

/-- appending `k` fresh identities keeps "file ++ buf = everything produced". -/
theorem acc_produce (file buf : List Nat) (p k : Nat) (h : file ++ buf = List.range p) :
    file ++ (buf ++ (List.range k).map (· + p)) = List.range (p + k) := by
  rw [← List.append_assoc, h, range_append_map]

/-- the inductive invariant of the writer controller. -/
structure WInv (s : WState) : Prop where
  acc : s.file ++ s.buf = List.range s.produced
  len : s.buf.length = s.bufSize - s.availOut
  le : s.availOut ≤ s.bufSize
  inp : s.consumed + s.availIn = s.given
  noIn : (s.mode = .idle ∨ s.mode = .fl ∨ s.mode = .flDrained ∨ s.mode = .awaitFin ∨ s.mode = .finDone) →
    s.availIn = 0
  full : (s.mode = .drained ∨ s.mode = .flDrained) → s.availOut = s.bufSize
  mem : (s.dirty = false ∨ s.mode = .finDone) → 1 ≤ s.members
  clean : s.mode = .idle → s.dirty = false → s.buf = []

theorem winv_init (bufSize kMin : Nat) : WInv (winit bufSize kMin) := by
  constructor <;> simp [winit]

theorem winv_step_write (s s' : WState) (n : Nat) (hs : WInv s) (h : wstep s (.write n) = some s') :
    WInv s' := by
  obtain ⟨acc, len, le, inp, noIn, full, mem, clean⟩ := hs
  simp only [wstep] at h
  split at h
  · rename_i hm
    have h0 : s.availIn = 0 := noIn (Or.inl hm)
    injection h with h
    subst h
    split
    · constructor <;> simp_all
    · constructor <;> simp_all
  · cases h

theorem winv_step_flush (s s' : WState) (d : Bool) (hs : WInv s) (h : wstep s (.flush d) = some s') :
    WInv s' := by
  obtain ⟨acc, len, le, inp, noIn, full, mem, clean⟩ := hs
  simp only [wstep] at h
  split at h
  · rename_i hm
    injection h with h
    subst h
    split
    · constructor <;> simp_all
    · constructor <;> simp_all
  · cases h

theorem winv_step_proc (s s' : WState) (a b : Nat) (hs : WInv s) (h : wstep s (.proc a b) = some s') :
    WInv s' := by
  obtain ⟨acc, len, le, inp, noIn, full, mem, clean⟩ := hs
  simp only [wstep] at h
  split at h
  · split at h
    · injection h with h
      subst h
      constructor <;> simp_all
    · cases h
  · split at h
    · injection h with h
      subst h
      constructor <;> simp_all
    · cases h
  · cases h

theorem winv_step_did (s s' : WState) (a b : Nat) (hs : WInv s) (h : wstep s (.did a b) = some s') :
    WInv s' := by
  obtain ⟨acc, len, le, inp, noIn, full, mem, clean⟩ := hs
  simp only [wstep] at h
  split at h
  · rename_i hc
    obtain ⟨hm, ha, hb⟩ := hc
    injection h with h
    subst h
    have hacc := acc_produce s.file s.buf s.produced (s.availOut - b) acc
    split
    · constructor <;> simp_all [WState.produce] <;> omega
    · constructor <;> simp_all [WState.produce] <;> omega
  · cases h

theorem winv_step_fin (s s' : WState) (b : Nat) (hs : WInv s) (h : wstep s (.fin b) = some s') :
    WInv s' := by
  obtain ⟨acc, len, le, inp, noIn, full, mem, clean⟩ := hs
  simp only [wstep] at h
  split at h
  · split at h
    · injection h with h
      subst h
      constructor <;> simp_all
    · cases h
  · split at h
    · injection h with h
      subst h
      constructor <;> simp_all
    · cases h
  · split at h
    · rename_i hc
      injection h with h
      subst h
      have hacc := acc_produce s.file s.buf s.produced (s.availOut - b) acc
      constructor <;> simp_all [WState.produce] <;> omega
    · cases h
  · cases h

theorem winv_step_findone (s s' : WState) (b : Nat) (hs : WInv s) (h : wstep s (.findone b) = some s') :
    WInv s' := by
  obtain ⟨acc, len, le, inp, noIn, full, mem, clean⟩ := hs
  simp only [wstep] at h
  split at h
  · rename_i hc
    obtain ⟨hm, hb⟩ := hc
    injection h with h
    subst h
    have hacc := acc_produce s.file s.buf s.produced (s.availOut - b) acc
    split
    · rename_i hbs
      have hlen : (s.buf ++ (List.range (s.availOut - b)).map (· + s.produced)).length = 0 := by
        rw [List.length_append, List.length_map, List.length_range]
        omega
      have hnil := List.eq_nil_of_length_eq_zero hlen
      constructor <;> simp_all [WState.produce] <;> omega
    · constructor <;> simp_all [WState.produce] <;> omega
  · cases h

theorem winv_step_drain (s s' : WState) (n : Nat) (hs : WInv s) (h : wstep s (.drain n) = some s') :
    WInv s' := by
  obtain ⟨acc, len, le, inp, noIn, full, mem, clean⟩ := hs
  simp only [wstep] at h
  split at h
  · split at h
    · injection h with h
      subst h
      constructor <;> simp_all [WState.drainAll]
    · cases h
  · split at h
    · injection h with h
      subst h
      constructor <;> simp_all [WState.drainAll]
    · cases h
  · split at h
    · injection h with h
      subst h
      have hacc := acc_produce s.file s.buf s.produced (s.availOut - (s.bufSize - n)) acc
      constructor <;> simp_all [WState.drainAll, WState.produce]
    · cases h
  · split at h
    · injection h with h
      subst h
      constructor <;> simp_all [WState.drainAll]
    · cases h
  · cases h

theorem winv_step (s s' : WState) (e : WEv) (hs : WInv s) (h : wstep s e = some s') : WInv s' := by
  cases e with
  | write n => exact winv_step_write s s' n hs h
  | proc a b => exact winv_step_proc s s' a b hs h
  | did a b => exact winv_step_did s s' a b hs h
  | drain n => exact winv_step_drain s s' n hs h
  | flush d => exact winv_step_flush s s' d hs h
  | fin b => exact winv_step_fin s s' b hs h
  | findone b => exact winv_step_findone s s' b hs h

theorem winv_run (evs : List WEv) (s s' : WState) (hs : WInv s) (h : wrun s evs = some s') : WInv s' := by
  induction evs generalizing s with
  | nil =>
    simp only [wrun] at h
    injection h with h
    subst h
    exact hs
  | cons e es ih =>
    simp only [wrun] at h
    split at h
    · rename_i s1 h1
      exact ih s1 (winv_step s s1 e hs h1) h
    · cases h

/-! ## reader -/

theorem rbound_step (s s' : RState) (e : REv) (hs : s.nout ≤ s.amount) (h : rstep s e = some s') :
    s'.nout ≤ s'.amount := by
  cases e <;> simp only [rstep] at h <;> split at h
  all_goals first
    | cases h
    | (injection h with h; subst h; simp_all; done)
    | skip
  all_goals trace_state
  all_goals sorry

end PV.Lemmas.Compress
