import PV.Model.Substitute
import PV.Lemmas.Table
import PV.Lemmas.Tools
/-
Helper lemmas for C13 through the `substitute` tool: the loop over the real hash-table model equals the
association-list specification.
-/
namespace PV.Lemmas.Substitute
open PV.Substitute PV.Tools PV.Fields PV.Table PV.Spec.Map PV.Lemmas.Table PV.Lemmas.Tools

/-! ### one step of the two loops -/

theorem loop_nil (t : Table) (stored : List Line) : loop t stored [] = some [] := by
  simp [loop]

theorem specGo_nil (seen : List (Nat × Line)) : specGo seen [] = some [] := by
  simp [specGo]

theorem loop_cons_four (t : Table) (stored : List Line) (l : Line) (ls : List Line)
    (p0 p1 p2 p3 : Line) (h : rangeFields l ranges 9 = [p0, p1, p2, p3]) :
    loop t stored (l :: ls) =
      match findOrInsert t (key p1, stored.length) with
      | none => none
      | some (true, e, t') =>
        (loop t' stored ls).map (fun rest => replaced p0 p1 (stored.getD e.2 []) p3 :: rest)
      | some (false, _, t') =>
        (loop t' (stored ++ [p2]) ls).map (fun rest => l :: rest) := by
  rw [loop, h]; rfl

theorem specGo_cons_four (seen : List (Nat × Line)) (l : Line) (ls : List Line)
    (p0 p1 p2 p3 : Line) (h : rangeFields l ranges 9 = [p0, p1, p2, p3]) :
    specGo seen (l :: ls) =
      match seen.find? (·.1 == key p1) with
      | some (_, v) => (specGo seen ls).map (fun rest => replaced p0 p1 v p3 :: rest)
      | none => (specGo ((key p1, p2) :: seen) ls).map (fun rest => l :: rest) := by
  rw [specGo, h]; rfl

theorem length_four {α : Type} (xs : List α) (h : xs.length = 4) :
    ∃ a b c d, xs = [a, b, c, d] := by
  match xs, h with
  | [a, b, c, d], _ => exact ⟨a, b, c, d, rfl⟩

theorem loop_cons_bad (t : Table) (stored : List Line) (l : Line) (ls : List Line)
    (h : (rangeFields l ranges 9).length ≠ 4) : loop t stored (l :: ls) = none := by
  rw [loop]
  split
  · rename_i heq; rw [heq] at h; exact absurd rfl h
  · rfl

theorem specGo_cons_bad (seen : List (Nat × Line)) (l : Line) (ls : List Line)
    (h : (rangeFields l ranges 9).length ≠ 4) : specGo seen (l :: ls) = none := by
  rw [specGo]
  split
  · rename_i heq; rw [heq] at h; exact absurd rfl h
  · rfl

/-! ### FindOrInsert with an arbitrary value against the abstract map -/

theorem foi_val (t : Table) (m : M) (hi : Inv t) (ha : Abs t m) (k v : Nat) (hk : k ≠ 0) :
    (∃ e t', lookup m k = some e ∧ findOrInsert t (k, v) = some (true, e, t') ∧ Inv t' ∧
        Abs t' m) ∨
    (∃ e t', lookup m k = none ∧ findOrInsert t (k, v) = some (false, e, t') ∧ Inv t' ∧
        Abs t' ((k, v) :: m)) := by
  obtain ⟨t', hs, hi', ha'⟩ := findOrInsert_spec t m hi ha k v hk
  simp only [PV.Table.step] at hs
  cases hf : findOrInsert t (k, v) with
  | none => rw [hf] at hs; simp at hs
  | some r =>
    obtain ⟨f, e, t''⟩ := r
    rw [hf] at hs
    simp only [Option.map_some, Option.some.injEq, Prod.mk.injEq] at hs
    obtain ⟨h1, h2⟩ := hs
    subst h2
    cases hl : lookup m k with
    | none =>
      simp only [PV.Spec.Map.step, hl] at h1 ha'
      simp only [Ans.inserted.injEq] at h1
      right
      exact ⟨e, t'', rfl, by rw [h1.1], hi', ha'⟩
    | some e' =>
      simp only [PV.Spec.Map.step, hl] at h1 ha'
      simp only [Ans.inserted.injEq] at h1
      left
      exact ⟨e, t'', by rw [h1.2], by rw [h1.1], hi', ha'⟩

/-! ### the relation between the table's abstract map + string pool and the specification's list -/

/-- every key of the abstract map `m` points into the pool `stored`, at the value the specification remembers for
    that key; keys absent from `m` are absent from `seen`. -/
def R (m : M) (stored : List Line) (seen : List (Nat × Line)) : Prop :=
  ∀ k, (∀ e, lookup m k = some e →
          e.2 < stored.length ∧ ∃ k', seen.find? (·.1 == k) = some (k', stored.getD e.2 [])) ∧
       (lookup m k = none → seen.find? (·.1 == k) = none)

theorem R_nil : R [] [] [] := by
  intro k
  constructor
  · intro e h; simp [lookup] at h
  · intro _; rfl

theorem lookup_cons (e : Nat × Nat) (m : M) (k : Nat) :
    lookup (e :: m) k = if e.1 == k then some e else lookup m k := by
  unfold lookup
  rw [List.find?_cons]
  cases e.1 == k <;> rfl

theorem getD_append_lt (stored : List Line) (x : Line) (i : Nat) (h : i < stored.length) :
    (stored ++ [x]).getD i [] = stored.getD i [] := by
  simp [List.getD, List.getElem?_append_left h]

theorem getD_append_length (stored : List Line) (x : Line) :
    (stored ++ [x]).getD stored.length [] = x := by
  simp [List.getD]

theorem R_insert (m : M) (stored : List Line) (seen : List (Nat × Line)) (k0 : Nat) (v : Line)
    (hr : R m stored seen) : R ((k0, stored.length) :: m) (stored ++ [v]) ((k0, v) :: seen) := by
  intro k
  rw [lookup_cons, List.find?_cons]
  by_cases hk : (k0 == k) = true
  · simp only [hk, if_true]
    constructor
    · intro e he
      simp only [Option.some.injEq] at he
      subst he
      refine ⟨by simp, k0, ?_⟩
      simp only [getD_append_length]
    · intro h; cases h
  · have hk' : (k0 == k) = false := by simpa using hk
    simp only [hk', Bool.false_eq_true, if_false]
    obtain ⟨h1, h2⟩ := hr k
    constructor
    · intro e he
      obtain ⟨hlt, k', hf⟩ := h1 e he
      refine ⟨by simp; omega, k', ?_⟩
      rw [getD_append_lt stored v e.2 hlt]
      exact hf
    · exact h2

/-! ### the refinement -/

theorem loop_spec : ∀ (ls : List Line) (t : Table) (m : M) (stored : List Line)
    (seen : List (Nat × Line)), Inv t → Abs t m → R m stored seen →
    (∀ l ∈ ls, ∀ p0 p1 p2 p3, rangeFields l ranges 9 = [p0, p1, p2, p3] → key p1 ≠ 0) →
    loop t stored ls = specGo seen ls := by
  intro ls
  induction ls with
  | nil => intro t m stored seen _ _ _ _; rw [loop_nil, specGo_nil]
  | cons l ls ih =>
    intro t m stored seen hi ha hr h0
    have h0' : ∀ l ∈ ls, ∀ p0 p1 p2 p3, rangeFields l ranges 9 = [p0, p1, p2, p3] → key p1 ≠ 0 :=
      fun x hx => h0 x (by simp [hx])
    by_cases hlen : (rangeFields l ranges 9).length = 4
    · obtain ⟨p0, p1, p2, p3, hf⟩ := length_four _ hlen
      have hk : key p1 ≠ 0 := h0 l (by simp) p0 p1 p2 p3 hf
      rw [loop_cons_four t stored l ls p0 p1 p2 p3 hf, specGo_cons_four seen l ls p0 p1 p2 p3 hf]
      obtain ⟨h1, h2⟩ := hr (key p1)
      rcases foi_val t m hi ha (key p1) stored.length hk with
        ⟨e, t', hl, hfoi, hi', ha'⟩ | ⟨e, t', hl, hfoi, hi', ha'⟩
      · obtain ⟨_, k', hfind⟩ := h1 e hl
        rw [hfoi, hfind]
        simp only
        rw [ih t' m stored seen hi' ha' hr h0']
      · have hfind := h2 hl
        rw [hfoi, hfind]
        simp only
        rw [ih t' _ _ _ hi' ha' (R_insert m stored seen (key p1) p2 hr) h0']
    · rw [loop_cons_bad t stored l ls hlen, specGo_cons_bad seen l ls hlen]

theorem substitute_spec (ls : List Line)
    (h0 : ∀ l ∈ ls, ∀ p0 p1 p2 p3, rangeFields l ranges 9 = [p0, p1, p2, p3] → key p1 ≠ 0) :
    substitute ls = spec ls :=
  loop_spec ls init [] [] [] init_inv init_abs R_nil h0

/-! ### a short line is an error in the specification -/

theorem specGo_short (l : Line) (post : List Line) (hl : (rangeFields l ranges 9).length ≠ 4) :
    ∀ (pre : List Line) (seen : List (Nat × Line)), specGo seen (pre ++ l :: post) = none := by
  intro pre
  induction pre with
  | nil => intro seen; exact specGo_cons_bad seen l post hl
  | cons a pre ih =>
    intro seen
    rw [List.cons_append]
    by_cases hlen : (rangeFields a ranges 9).length = 4
    · obtain ⟨p0, p1, p2, p3, hf⟩ := length_four _ hlen
      rw [specGo_cons_four seen a _ p0 p1 p2 p3 hf]
      split
      · rw [ih]; rfl
      · rw [ih]; rfl
    · exact specGo_cons_bad seen a _ hlen

end PV.Lemmas.Substitute
