import PV.Model.Murmur
import PV.Spec.Murmur
/-
Helper lemmas for C14: the index-based MurmurHash64A model agrees with the list-chunking
reference, and never reads out of bounds.
-/
namespace PV.Lemmas.Murmur
open PV.Murmur PV.Spec.Murmur

/-! ### constants -/

theorem m_eq : m = M := by decide
theorem r_eq : r = R := by decide

theorem mixBlock_eq (h k : UInt64) : mixBlock h k = mix h k := by
  simp only [mixBlock, mix, m_eq, r_eq]

/-! ### shifts / or / xor on `UInt64` -/

theorem shl8 (x : UInt64) (k : UInt64) (hk : k.toNat + 8 < 64) : (x <<< k) <<< 8 = x <<< (k + 8) := by
  rw [UInt64.shiftLeft_add_of_toNat_lt (by simpa using hk)]

theorem shl_8_8 (x : UInt64) : (x <<< 8) <<< 8 = x <<< 16 := shl8 x 8 (by decide)
theorem shl_16_8 (x : UInt64) : (x <<< 16) <<< 8 = x <<< 24 := shl8 x 16 (by decide)
theorem shl_24_8 (x : UInt64) : (x <<< 24) <<< 8 = x <<< 32 := shl8 x 24 (by decide)
theorem shl_32_8 (x : UInt64) : (x <<< 32) <<< 8 = x <<< 40 := shl8 x 32 (by decide)
theorem shl_40_8 (x : UInt64) : (x <<< 40) <<< 8 = x <<< 48 := shl8 x 40 (by decide)
theorem shl_48_8 (x : UInt64) : (x <<< 48) <<< 8 = x <<< 56 := shl8 x 48 (by decide)

theorem or_left_comm (a b c : UInt64) : a ||| (b ||| c) = b ||| (a ||| c) := by
  rw [← UInt64.or_assoc, UInt64.or_comm a b, UInt64.or_assoc]
theorem xor_left_comm (a b c : UInt64) : a ^^^ (b ^^^ c) = b ^^^ (a ^^^ c) := by
  rw [← UInt64.xor_assoc, UInt64.xor_comm a b, UInt64.xor_assoc]

/-- a byte or-ed below a value shifted by 8 occupies disjoint bits, so `|||` is `^^^`. -/
theorem or_byte_eq_xor (x : UInt64) (b : UInt8) :
    (x <<< 8) ||| UInt64.ofNat b.toNat = (x <<< 8) ^^^ UInt64.ofNat b.toNat := by
  apply UInt64.toBitVec_inj.1
  apply BitVec.eq_of_getLsbD_eq
  intro i hi
  simp
  by_cases h8 : i < 8
  · simp [h8]
  · have : b.toBitVec.getLsbD i = false := BitVec.getLsbD_of_ge _ _ (by omega)
    simp [this]

/-! ### `le` -/

theorem le_nil : le [] = 0 := rfl
theorem le_cons (a : UInt8) (t : List UInt8) :
    le (a :: t) = (le t <<< 8) ||| UInt64.ofNat a.toNat := rfl
theorem le_cons_xor (a : UInt8) (t : List UInt8) :
    le (a :: t) = (le t <<< 8) ^^^ UInt64.ofNat a.toNat := by
  rw [le_cons, or_byte_eq_xor]

theorem or8 (x0 x1 x2 x3 x4 x5 x6 x7 : UInt64) :
    (((((((((0 : UInt64) <<< (8 : UInt64) ||| x7) <<< (8 : UInt64) ||| x6) <<< (8 : UInt64) ||| x5)
      <<< (8 : UInt64) ||| x4) <<< (8 : UInt64) ||| x3) <<< (8 : UInt64) ||| x2) <<< (8 : UInt64) ||| x1)
      <<< (8 : UInt64) ||| x0) =
    (x0 ||| (x1 <<< 8) ||| (x2 <<< 16) ||| (x3 <<< 24) ||| (x4 <<< 32) ||| (x5 <<< 40) |||
      (x6 <<< 48) ||| (x7 <<< 56)) := by
  simp only [UInt64.zero_shiftLeft, UInt64.zero_or]
  simp only [UInt64.shiftLeft_or]
  simp only [shl_8_8, shl_16_8, shl_24_8, shl_32_8, shl_40_8, shl_48_8]
  simp only [UInt64.or_assoc, UInt64.or_comm]

theorem le8 (a0 a1 a2 a3 a4 a5 a6 a7 : UInt8) :
    le [a0,a1,a2,a3,a4,a5,a6,a7] =
      (UInt64.ofNat a0.toNat ||| (UInt64.ofNat a1.toNat <<< 8) ||| (UInt64.ofNat a2.toNat <<< 16) |||
       (UInt64.ofNat a3.toNat <<< 24) ||| (UInt64.ofNat a4.toNat <<< 32) ||| (UInt64.ofNat a5.toNat <<< 40) |||
       (UInt64.ofNat a6.toNat <<< 48) ||| (UInt64.ofNat a7.toNat <<< 56)) := by
  simp only [le_cons, le_nil]
  exact or8 _ _ _ _ _ _ _ _

/-! ### reads -/

theorem rd_toArray (l : List UInt8) (off k : Nat) :
    rd l.toArray (off + k) = ((l.drop off)[k]?).map (fun b => UInt64.ofNat b.toNat) := by
  simp [rd, List.getElem?_drop]

theorem rd_toArray0 (l : List UInt8) (off : Nat) :
    rd l.toArray off = ((l.drop off)[0]?).map (fun b => UInt64.ofNat b.toNat) := by
  simpa using rd_toArray l off 0

theorem load64_eq (l : List UInt8) (off : Nat) (h : off + 8 ≤ l.length) :
    load64 l.toArray off = some (le ((l.drop off).take 8)) := by
  have hd : (l.drop off).length ≥ 8 := by simp; omega
  simp only [load64, rd_toArray]
  simp only [rd_toArray0]
  generalize l.drop off = d at hd
  match d, hd with
  | a0::a1::a2::a3::a4::a5::a6::a7::rest, _ =>
    simp [le8]

/-! ### the block loop -/

theorem blocks_eq (l : List UInt8) : ∀ (n i : Nat) (h : UInt64), 8 * (i + n) ≤ l.length →
    ∃ h', blocks l.toArray n i h = some h' ∧
      ∀ fuel, body (n + fuel) (l.drop (8 * i)) h = body fuel (l.drop (8 * (i + n))) h'
  | 0, i, h, _ => ⟨h, rfl, fun fuel => by simp⟩
  | n + 1, i, h, hle => by
    obtain ⟨h', hb, hbody⟩ := blocks_eq l n (i + 1) (mixBlock h (le ((l.drop (8 * i)).take 8)))
      (by omega)
    refine ⟨h', ?_, fun fuel => ?_⟩
    · simp only [blocks, load64_eq l (8 * i) (by omega)]
      exact hb
    · have hlen : (l.drop (8 * i)).length ≥ 8 := by simp; omega
      have e : n + 1 + fuel = (n + fuel) + 1 := by omega
      rw [e, body, if_pos hlen, List.drop_drop, ← mixBlock_eq]
      have e2 : 8 * i + 8 = 8 * (i + 1) := by omega
      have e3 : i + (n + 1) = i + 1 + n := by omega
      rw [e2, e3]
      exact hbody fuel

/-! ### the tail switch -/

local macro "tail_case" : tactic => `(tactic|
  (simp [body, m_eq, le_cons_xor, le_nil]
   simp only [UInt64.shiftLeft_xor, shl_8_8, shl_16_8, shl_24_8, shl_32_8, shl_40_8, UInt64.xor_assoc]))

theorem tail_eq (l : List UInt8) (base rem : Nat) (h : UInt64) (hrem : rem < 8)
    (hlen : base + rem = l.length) :
    tail l.toArray base rem h = some (body 1 (l.drop base) h) := by
  have hd : (l.drop base).length = rem := by simp; omega
  simp only [tail, rd_toArray]
  simp only [rd_toArray0]
  generalize l.drop base = d at hd
  subst hd
  match d, hrem with
  | [], _ => simp [body]
  | [a0], _ => simp [body, m_eq, le_cons_xor, le_nil]
  | [a0, a1], _ => tail_case
  | [a0, a1, a2], _ => tail_case
  | [a0, a1, a2, a3], _ => tail_case
  | [a0, a1, a2, a3, a4], _ => tail_case
  | [a0, a1, a2, a3, a4, a5], _ => tail_case
  | [a0, a1, a2, a3, a4, a5, a6], _ => tail_case
  | a0 :: a1 :: a2 :: a3 :: a4 :: a5 :: a6 :: a7 :: rest, hr => simp at hr; omega

/-! ### assembly -/

theorem hash64A?_eq (l : List UInt8) (seed : UInt64) :
    hash64A? l.toArray seed = some (murmurRef l seed) := by
  obtain ⟨h', hb, hbody⟩ := blocks_eq l (l.length / 8) 0 (seed ^^^ (UInt64.ofNat l.length * m))
    (by omega)
  have ht := tail_eq l (8 * (l.length / 8)) (l.length % 8) h' (Nat.mod_lt _ (by decide)) (by omega)
  have hb1 := hbody 1
  simp only [Nat.mul_zero, List.drop_zero, Nat.zero_add] at hb1
  simp only [hash64A?, List.size_toArray, hb, ht, murmurRef, finalize, Option.bind_some,
    Option.bind_eq_bind, Option.pure_def]
  rw [m_eq] at hb1
  simp only [m_eq, r_eq, hb1]

theorem hash64A_eq (l : List UInt8) (seed : UInt64) : hash64A l seed = murmurRef l seed := by
  simp [hash64A, hash64A?_eq]

theorem hash64A?_isSome (bs : Array UInt8) (seed : UInt64) : (hash64A? bs seed).isSome = true := by
  have := hash64A?_eq bs.toList seed
  simp only [Array.toArray_toList] at this
  simp [this]

theorem hashPieces_eq (seed : UInt64) (pieces : List (List UInt8)) :
    hashPieces seed pieces = pieces.foldl (fun h p => murmurRef p h) seed := by
  simp only [hashPieces, hash64A_eq]

end PV.Lemmas.Murmur
