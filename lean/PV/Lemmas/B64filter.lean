import PV.Model.B64filter
import PV.Lemmas.Base64
/-
Helper lemmas for C08 (b64filter: feeder/reader bookkeeping around the child).
-/
set_option linter.unusedVariables false
namespace PV.Lemmas.B64filter
open PV.B64filter PV.Base64 PV.Spec.Records

/-- cut a list into consecutive segments of the given lengths (same as `Props.C08.segments`). -/
def segs {α : Type} : List Nat → List α → List (List α)
  | [], _ => []
  | n :: ns, xs => xs.take n :: segs ns (xs.drop n)

/-! ## CR stripping is off in the reader -/

theorem stripCr_eq (r : List UInt8) : stripCr r = r := by
  simp [stripCr, PV.Gen.b64filterCollectStripCr]

theorem map_stripCr (ls : List (List UInt8)) : ls.map stripCr = ls := by
  rw [List.map_congr_left (fun r _ => stripCr_eq r), List.map_id']

/-! ## records of a newline-terminated text -/

theorem splitGo_nl (bs : List UInt8) : ∀ cur : List UInt8,
    splitGo 10 false (bs ++ [10]) cur ≠ [] ∧
    (splitGo 10 false (bs ++ [10]) cur).flatMap (· ++ [10]) = cur.reverse ++ bs ++ [10] := by
  induction bs with
  | nil =>
    intro cur
    simp [splitGo, stripOneCr]
  | cons b r ih =>
    intro cur
    by_cases hb : b = 10
    · subst hb
      have := (ih []).2
      simp only [List.reverse_nil, List.nil_append] at this
      simp [splitGo, stripOneCr, this]
    · have hb' : (b == 10) = false := by simpa using hb
      simp only [List.cons_append, splitGo, hb', Bool.false_eq_true, if_false]
      refine ⟨(ih (b :: cur)).1, ?_⟩
      rw [(ih (b :: cur)).2]
      simp

theorem splitRecords_nl_ne (bs : List UInt8) : splitRecords 10 false (bs ++ [10]) ≠ [] :=
  (splitGo_nl bs []).1

theorem splitRecords_nl_flat (bs : List UInt8) :
    (splitRecords 10 false (bs ++ [10])).flatMap (· ++ [10]) = bs ++ [10] := by
  have := (splitGo_nl bs []).2
  simpa [splitRecords] using this

/-! ## reassemble -/

theorem join_nl (rest : List (List UInt8)) : ∀ a : List UInt8,
    a ++ rest.flatMap (fun l => 10 :: l) ++ [10] = (a :: rest).flatMap (· ++ [10]) := by
  induction rest with
  | nil => intro a; simp
  | cons b rest ih =>
    intro a
    have := ih b
    simp only [List.flatMap_cons, List.append_assoc] at this ⊢
    simp only [List.cons_append, List.nil_append]
    rw [this]
    simp

theorem reassemble_true (ls : List (List UInt8)) (h : ls ≠ []) :
    reassemble ls true = ls.flatMap (· ++ [10]) := by
  cases ls with
  | nil => exact absurd rfl h
  | cons a rest =>
    simp only [reassemble, if_true]
    exact join_nl rest a

theorem reassemble_false (ls : List (List UInt8)) (h : ls ≠ []) :
    reassemble ls false ++ [10] = ls.flatMap (· ++ [10]) := by
  cases ls with
  | nil => exact absurd rfl h
  | cons a rest =>
    simp only [reassemble, Bool.false_eq_true, if_false, List.append_nil]
    exact join_nl rest a

/-! ## describe -/

theorem describe_lines_ne (doc : List UInt8) : (describe doc).lines ≠ [] := by
  unfold describe
  simp only
  by_cases h : doc.getLast? = some 10
  · obtain ⟨ys, rfl⟩ := List.getLast?_eq_some_iff.mp h
    have ht : ((ys ++ [10]).getLast? == some (10 : UInt8)) = true := by simp
    rw [ht]
    simp only [if_true]
    exact splitRecords_nl_ne ys
  · have ht : (doc.getLast? == some (10 : UInt8)) = false := by simpa using h
    rw [ht]
    simp only [Bool.false_eq_true, if_false]
    exact splitRecords_nl_ne doc

theorem describe_reassemble_raw (doc : List UInt8) :
    reassemble (describe doc).lines (describe doc).trailing = doc := by
  unfold describe
  simp only
  by_cases h : doc.getLast? = some 10
  · obtain ⟨ys, rfl⟩ := List.getLast?_eq_some_iff.mp h
    have ht : ((ys ++ [10]).getLast? == some (10 : UInt8)) = true := by simp
    rw [ht]
    simp only [if_true]
    rw [reassemble_true _ (splitRecords_nl_ne ys), splitRecords_nl_flat]
  · have ht : (doc.getLast? == some (10 : UInt8)) = false := by simpa using h
    rw [ht]
    simp only [Bool.false_eq_true, if_false]
    have := reassemble_false _ (splitRecords_nl_ne doc)
    rw [splitRecords_nl_flat] at this
    exact List.append_cancel_right this

theorem describe_reassemble' (doc : List UInt8) :
    reassemble ((describe doc).lines.map stripCr) (describe doc).trailing = doc := by
  rw [map_stripCr, describe_reassemble_raw]

/-! ## decodeAllDocs -/

theorem decodeAllDocs_length (input : List (List UInt8)) : ∀ docs,
    decodeAllDocs input = some docs → docs.length = input.length := by
  induction input with
  | nil => intro docs h; simp [decodeAllDocs] at h; subst h; rfl
  | cons l ls ih =>
    intro docs h
    rw [decodeAllDocs] at h
    split at h
    · rename_i d rest _ hr
      cases h
      simp [ih rest hr]
    · cases h

theorem decodeAllDocs_encoded (docs : List (List UInt8)) :
    decodeAllDocs (docs.map encode) = some docs := by
  induction docs with
  | nil => rfl
  | cons d ds ih =>
    simp only [List.map_cons, decodeAllDocs, PV.Lemmas.Base64.decode_encode', ih]

/-! ## collect -/

theorem collect_length (descs : List Desc) : ∀ (xs : List (List UInt8)) out,
    collect descs xs = some out → out.length = descs.length := by
  induction descs with
  | nil =>
    intro xs out h
    cases xs with
    | nil => simp [collect] at h; subst h; rfl
    | cons x xs => simp [collect] at h
  | cons d ds ih =>
    intro xs out h
    rw [collect] at h
    split at h
    · cases h
    · split at h
      · cases h
      · rename_i rest hr
        cases h
        simp [ih _ _ hr]

theorem collect_segs (descs : List Desc) : ∀ (xs : List (List UInt8)),
    xs.length = (descs.map (·.lines.length)).sum →
    collect descs xs = some
      ((descs.zip (segs (descs.map (·.lines.length)) xs)).map
        (fun (d, seg) => encode (reassemble (seg.map stripCr) d.trailing))) := by
  induction descs with
  | nil =>
    intro xs h
    have : xs = [] := List.eq_nil_of_length_eq_zero (by simpa using h)
    subst this
    simp [collect, segs]
  | cons d ds ih =>
    intro xs h
    simp only [List.map_cons, List.sum_cons] at h
    rw [collect]
    rw [if_neg (by omega), ih (xs.drop d.lines.length) (by rw [List.length_drop]; omega)]
    simp [segs]

theorem collect_exact (docs : List (List UInt8)) :
    collect (docs.map describe) ((docs.map describe).flatMap (·.lines)) = some (docs.map encode) := by
  induction docs with
  | nil => simp [collect]
  | cons d ds ih =>
    simp only [List.map_cons, List.flatMap_cons]
    rw [collect]
    rw [if_neg (by simp), List.drop_left' rfl, ih, List.take_left' rfl, describe_reassemble']

end PV.Lemmas.B64filter
