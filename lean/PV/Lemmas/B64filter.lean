import PV.Model.B64filter
import PV.Lemmas.Base64
namespace PV.Lemmas.B64filter
end PV.Lemmas.B64filter
