import PV.Model.Docenc
import PV.Lemmas.Base64
/-
Helper lemmas for C09 `index_selection_any_args`: `sortIndices` sorts, `uniqAdjacent` removes the
duplicates of a sorted list, and the walk over a strictly increasing index list selects exactly the
documents whose number is listed.
-/
namespace PV.Lemmas.Docenc
open PV.Docenc

/-! ## insertSorted / sortIndices -/

theorem mem_insertSorted (i x : Nat) : ∀ l : List Nat, x ∈ insertSorted i l ↔ x = i ∨ x ∈ l := by
  intro l
  induction l with
  | nil => simp [insertSorted]
  | cons j js ih =>
    unfold insertSorted
    split
    · simp
    · simp only [List.mem_cons, ih]
      constructor
      · rintro (h | h | h) <;> simp [h]
      · rintro (h | h | h) <;> simp [h]

theorem insertSorted_sorted (i : Nat) : ∀ l : List Nat, l.Pairwise (· ≤ ·) →
    (insertSorted i l).Pairwise (· ≤ ·) := by
  intro l
  induction l with
  | nil => intro _; simp [insertSorted]
  | cons j js ih =>
    intro h
    unfold insertSorted
    split
    · rename_i hij
      rw [List.pairwise_cons]
      refine ⟨?_, h⟩
      intro b hb
      rcases List.mem_cons.1 hb with hb | hb
      · omega
      · have := (List.pairwise_cons.1 h).1 b hb
        omega
    · rename_i hij
      rw [List.pairwise_cons] at h ⊢
      refine ⟨?_, ih h.2⟩
      intro b hb
      rcases (mem_insertSorted i b js).1 hb with hb | hb
      · omega
      · exact h.1 b hb

theorem mem_sortIndices (x : Nat) : ∀ args : List Nat, x ∈ sortIndices args ↔ x ∈ args := by
  intro args
  induction args with
  | nil => simp [sortIndices]
  | cons a as ih =>
    have : sortIndices (a :: as) = insertSorted a (sortIndices as) := rfl
    rw [this, mem_insertSorted, ih, List.mem_cons]

theorem sortIndices_sorted : ∀ args : List Nat, (sortIndices args).Pairwise (· ≤ ·) := by
  intro args
  induction args with
  | nil => simp [sortIndices]
  | cons a as ih =>
    have : sortIndices (a :: as) = insertSorted a (sortIndices as) := rfl
    rw [this]
    exact insertSorted_sorted a _ ih

/-! ## uniqAdjacent -/

theorem mem_uniqAdjacent (x : Nat) : ∀ l : List Nat, x ∈ uniqAdjacent l ↔ x ∈ l := by
  intro l
  fun_induction uniqAdjacent l with
  | case1 => simp
  | case2 a => simp
  | case3 a rest ih =>
    rw [ih]
    simp
  | case4 a b rest hab ih =>
    rw [List.mem_cons, ih, List.mem_cons (a := x) (b := a)]

theorem uniqAdjacent_strict : ∀ l : List Nat, l.Pairwise (· ≤ ·) →
    (uniqAdjacent l).Pairwise (· < ·) := by
  intro l
  fun_induction uniqAdjacent l with
  | case1 => intro _; simp
  | case2 a => intro _; simp
  | case3 a rest ih =>
    intro h
    exact ih (List.pairwise_cons.1 h).2
  | case4 a b rest hab ih =>
    intro h
    rw [List.pairwise_cons] at h ⊢
    refine ⟨?_, ih h.2⟩
    intro c hc
    rw [mem_uniqAdjacent] at hc
    have h1 := h.1 b (by simp)
    have h2 : b ≤ c := by
      rcases List.mem_cons.1 hc with hc | hc
      · omega
      · exact (List.pairwise_cons.1 h.2).1 c hc
    omega

theorem prepare_ne_nil (args : List Nat) (hne : args ≠ []) : prepare args ≠ [] := by
  obtain ⟨a, ha⟩ := List.exists_mem_of_ne_nil args hne
  have : a ∈ prepare args := by
    unfold prepare
    rw [mem_uniqAdjacent, mem_sortIndices]
    exact ha
  intro h
  rw [h] at this
  simp at this

theorem mem_prepare (x : Nat) (args : List Nat) : x ∈ prepare args ↔ x ∈ args := by
  unfold prepare
  rw [mem_uniqAdjacent, mem_sortIndices]

theorem prepare_strict (args : List Nat) : (prepare args).Pairwise (· < ·) :=
  uniqAdjacent_strict _ (sortIndices_sorted args)

/-! ## a strictly increasing index list against the document numbers -/

/-- the listed numbers not beyond `n`, in increasing order, are the members of `1..n` that are listed. -/
theorem filter_le_eq_range (ind : List Nat) (n : Nat) (hpos : ∀ i ∈ ind, 0 < i)
    (hs : ind.Pairwise (· < ·)) :
    ind.filter (fun i => decide (i ≤ n)) =
      ((List.range n).filter (fun k => decide (k + 1 ∈ ind))).map (· + 1) := by
  have hr : (List.range n).Pairwise (· < ·) := List.pairwise_lt_range
  have h1 : (ind.filter (fun i => decide (i ≤ n))).Pairwise (· < ·) := hs.filter _
  have h2 : (((List.range n).filter (fun k => decide (k + 1 ∈ ind))).map (· + 1)).Pairwise (· < ·) := by
    rw [List.pairwise_map]
    exact (hr.filter _).imp (by intro a b h; omega)
  have hmem : ∀ a, a ∈ ind.filter (fun i => decide (i ≤ n)) ↔
      a ∈ ((List.range n).filter (fun k => decide (k + 1 ∈ ind))).map (· + 1) := by
    intro a
    simp only [List.mem_filter, List.mem_map, List.mem_range, decide_eq_true_eq]
    constructor
    · rintro ⟨ha, hle⟩
      have := hpos a ha
      refine ⟨a - 1, ⟨by omega, ?_⟩, by omega⟩
      rw [show a - 1 + 1 = a by omega]
      exact ha
    · rintro ⟨k, ⟨hk, hin⟩, rfl⟩
      exact ⟨hin, by omega⟩
  have hnd1 : (ind.filter (fun i => decide (i ≤ n))).Nodup :=
    h1.imp (by intro a b h; exact Nat.ne_of_lt h)
  have hnd2 : (((List.range n).filter (fun k => decide (k + 1 ∈ ind))).map (· + 1)).Nodup :=
    h2.imp (by intro a b h; exact Nat.ne_of_lt h)
  have hperm := (List.perm_ext_iff_of_nodup hnd1 hnd2).2 hmem
  exact List.Perm.eq_of_pairwise (le := (· < ·)) (by intro a b _ _ hab hba; omega) h1 h2 hperm

theorem filterMap_index_eq {α : Type} (ind : List Nat) (ds : List α) (hpos : ∀ i ∈ ind, 0 < i)
    (hs : ind.Pairwise (· < ·)) :
    ind.filterMap (fun i => ds[i - 1]?) =
      ((List.range ds.length).filter (fun k => decide (k + 1 ∈ ind))).filterMap (fun k => ds[k]?) := by
  have hL : ind.filterMap (fun i => ds[i - 1]?) =
      (ind.filter (fun i => decide (i ≤ ds.length))).filterMap (fun i => ds[i - 1]?) := by
    clear hs
    induction ind with
    | nil => rfl
    | cons a as ih =>
      have ha := hpos a (by simp)
      have ih' := ih (fun i hi => hpos i (List.mem_cons_of_mem _ hi))
      by_cases hle : a ≤ ds.length
      · rw [List.filter_cons_of_pos (by simpa using hle)]
        rw [List.filterMap_cons, List.filterMap_cons, ih']
      · rw [List.filter_cons_of_neg (by simpa using hle)]
        rw [List.filterMap_cons, ih']
        have : ds[a - 1]? = none := by
          rw [List.getElem?_eq_none_iff]; omega
        rw [this]
  rw [hL, filter_le_eq_range ind ds.length hpos hs, List.filterMap_map]
  rfl

theorem selectArgs_spec {α : Type} (args : List Nat) (ds : List α)
    (hpos : ∀ i ∈ args, 0 < i) (hne : args ≠ []) :
    selectArgs args ds =
      ((List.range ds.length).filter (fun k => decide (k + 1 ∈ args))).filterMap (fun k => ds[k]?) := by
  have hpos' : ∀ i ∈ prepare args, 0 < i := fun i hi => hpos i ((mem_prepare i args).1 hi)
  have hsel : select (prepare args) ds = (prepare args).filterMap (fun i => ds[i - 1]?) := by
    have := PV.Lemmas.Base64.selectFrom_spec ds 0 (prepare args) (prepare_ne_nil args hne) hpos'
      (prepare_strict args)
    simpa [select] using this
  unfold selectArgs
  rw [hsel, filterMap_index_eq (prepare args) ds hpos' (prepare_strict args)]
  congr 1
  apply List.filter_congr
  intro k _
  simp only [mem_prepare]

end PV.Lemmas.Docenc
