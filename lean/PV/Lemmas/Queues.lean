import PV.Model.Queues
import PV.Lemmas.Queues.PCQ
import PV.Lemmas.Queues.USQ
import PV.Lemmas.Queues.Ring
namespace PV.Lemmas.Queues
end PV.Lemmas.Queues
