import PV.Model.Fields
import PV.Model.Murmur
import PV.Spec.Fields
/-
Helper lemmas for C10 (field selection, ParseFields, DefragmentFields).
-/
namespace PV.Lemmas.Fields
open PV.Fields PV.Spec.Fields

/-! ### splitFields / join -/

theorem splitFields_ne_nil (d : UInt8) (l : List UInt8) : splitFields d l ≠ [] := by
  induction l with
  | nil => simp [splitFields]
  | cons c r ih =>
    simp only [splitFields]
    split
    · simp
    · split <;> simp

theorem splitFields_cons_delim (d : UInt8) (r : List UInt8) :
    splitFields d (d :: r) = [] :: splitFields d r := by
  have h := splitFields_ne_nil d r
  rw [splitFields]
  cases hf : splitFields d r with
  | nil => exact absurd hf h
  | cons f fs => simp

theorem splitFields_cons_ne (d c : UInt8) (r : List UInt8) (hc : c ≠ d) :
    ∃ f fs, splitFields d r = f :: fs ∧ splitFields d (c :: r) = (c :: f) :: fs := by
  have h := splitFields_ne_nil d r
  rw [splitFields]
  cases hf : splitFields d r with
  | nil => exact absurd hf h
  | cons f fs => exact ⟨f, fs, rfl, by simp [hc]⟩

theorem splitFields_eq (d : UInt8) (l : List UInt8) :
    splitFields d l = l.takeWhile (· != d) ::
      (match l.dropWhile (· != d) with | [] => [] | _ :: r => splitFields d r) := by
  induction l with
  | nil => simp [splitFields]
  | cons c r ih =>
    by_cases hc : c = d
    · subst hc; rw [splitFields_cons_delim]; simp
    · obtain ⟨f, fs, h1, h2⟩ := splitFields_cons_ne d c r hc
      rw [h2]; rw [h1] at ih
      injection ih with ih1 ih2
      simp [hc, ih1, ih2]

theorem drop_length_takeWhile (p : UInt8 → Bool) (l : List UInt8) :
    l.drop (l.takeWhile p).length = l.dropWhile p := by
  induction l with
  | nil => simp
  | cons c r ih =>
    by_cases h : p c <;> simp [h, ih]

theorem take_length_takeWhile (p : UInt8 → Bool) (l : List UInt8) :
    l.take (l.takeWhile p).length = l.takeWhile p := by
  induction l with
  | nil => simp
  | cons c r ih =>
    by_cases h : p c <;> simp [h, ih]

theorem join_cons_cons (d c : UInt8) (f : List UInt8) (fs : List (List UInt8)) :
    join d ((c :: f) :: fs) = c :: join d (f :: fs) := by
  cases fs <;> simp [join]

theorem join_splitFields (d : UInt8) (l : List UInt8) : join d (splitFields d l) = l := by
  induction l with
  | nil => simp [splitFields, join]
  | cons c r ih =>
    by_cases hc : c = d
    · subst hc
      rw [splitFields_cons_delim]
      obtain ⟨f, fs, hf⟩ := List.exists_cons_of_ne_nil (splitFields_ne_nil c r)
      rw [hf] at ih ⊢
      simp [join, ih]
    · obtain ⟨f, fs, h1, h2⟩ := splitFields_cons_ne d c r hc
      rw [h2, join_cons_cons, ← h1, ih]

theorem join_append (d : UInt8) (a b : List (List UInt8)) (ha : a ≠ []) (hb : b ≠ []) :
    join d (a ++ b) = join d a ++ d :: join d b := by
  induction a with
  | nil => contradiction
  | cons x a ih =>
    cases a with
    | nil =>
      obtain ⟨y, b', rfl⟩ := List.exists_cons_of_ne_nil hb
      simp [join]
    | cons y a =>
      have := ih (by simp)
      simp only [List.cons_append] at this ⊢
      simp [join, this]

/-- `b` is the start offset of field number `i` of `line`. -/
def Inv (d : UInt8) (line : List UInt8) (i b : Nat) : Prop :=
  b ≤ line.length ∧ splitFields d (line.drop b) = (splitFields d line).drop i

theorem Inv.lt {d line i b} (h : Inv d line i b) : i < (splitFields d line).length := by
  have := splitFields_ne_nil d (line.drop b)
  rw [h.2] at this
  rcases Nat.lt_or_ge i (splitFields d line).length with hc | hc
  · exact hc
  · exact absurd (List.drop_eq_nil_iff.mpr hc) this

theorem inv_zero (d : UInt8) (line : List UInt8) : Inv d line 0 0 := by simp [Inv]

theorem Inv.join_drop {d line i b} (h : Inv d line i b) :
    join d ((splitFields d line).drop i) = line.drop b := by
  rw [← h.2, join_splitFields]

theorem Inv.step {d line i b} (h : Inv d line i b) :
    (splitFields d line).drop i =
        slice line b (findFrom line d b) :: (splitFields d line).drop (i + 1) ∧
    ((line.length < findFrom line d b + 1 ∧ (splitFields d line).length = i + 1) ∨
     (findFrom line d b + 1 ≤ line.length ∧ Inv d line (i + 1) (findFrom line d b + 1))) := by
  obtain ⟨hb, hs⟩ := h
  have hE := splitFields_eq d (line.drop b)
  rw [hs] at hE
  have hslice : slice line b (findFrom line d b) = (line.drop b).takeWhile (· != d) := by
    unfold slice findFrom
    rw [List.drop_take, Nat.add_sub_cancel_left, take_length_takeWhile]
  have hdw := drop_length_takeWhile (· != d) (line.drop b)
  have hle : ((line.drop b).takeWhile (· != d)).length ≤ (line.drop b).length :=
    (List.takeWhile_sublist _).length_le
  rw [List.length_drop] at hle
  have htail : (splitFields d line).drop (i + 1) = ((splitFields d line).drop i).tail := by
    rw [List.tail_drop]
  constructor
  · rw [htail, hE, hslice]; rfl
  · unfold findFrom
    by_cases hk : line.length < b + ((line.drop b).takeWhile (· != d)).length + 1
    · left
      refine ⟨hk, ?_⟩
      have : (line.drop b).dropWhile (· != d) = [] := by
        rw [← hdw, List.drop_eq_nil_iff, List.length_drop]; omega
      rw [this] at hE
      have := congrArg List.length hE
      simp at this; omega
    · right
      refine ⟨by omega, by omega, ?_⟩
      have hdd : (line.drop b).dropWhile (· != d) =
          line[b + ((line.drop b).takeWhile (· != d)).length]'(by omega) ::
            line.drop (b + ((line.drop b).takeWhile (· != d)).length + 1) := by
        rw [← hdw, List.drop_drop, List.drop_eq_getElem_cons (by omega)]
      rw [hdd] at hE
      rw [htail, hE]; rfl

theorem skipFields_spec {d line} (n : Nat) : ∀ {i b}, Inv d line i b →
    (i + n < (splitFields d line).length →
        ∃ b', skipFields line d n b = some b' ∧ Inv d line (i + n) b') ∧
    ((splitFields d line).length ≤ i + n → skipFields line d n b = none) := by
  induction n with
  | zero =>
    intro i b h
    have := h.lt
    exact ⟨fun _ => ⟨b, rfl, h⟩, fun hc => by omega⟩
  | succ n ih =>
    intro i b h
    have hlt := h.lt
    rcases h.step.2 with ⟨h1, h2⟩ | ⟨h1, h2⟩
    · refine ⟨fun hc => by omega, fun _ => ?_⟩
      simp only [skipFields]
      rw [if_pos (by omega)]
    · have ih' := ih h2
      have e : skipFields line d (n + 1) b = skipFields line d n (findFrom line d b + 1) := by
        simp only [skipFields]
        rw [if_neg (by omega)]
      rw [e]
      refine ⟨fun hc => ?_, fun hc => ih'.2 (by omega)⟩
      obtain ⟨b', hb', hI⟩ := ih'.1 (by omega)
      exact ⟨b', hb', by rw [show i + (n + 1) = i + 1 + n by omega]; exact hI⟩

theorem takeFields_spec {d line} (old n : Nat) : ∀ {i b}, Inv d line i b →
    (i + n < (splitFields d line).length →
        ∃ b', takeFields line d old n b = .inr b' ∧ Inv d line (i + n) b') ∧
    ((splitFields d line).length ≤ i + n →
        takeFields line d old n b = .inl (slice line old line.length)) := by
  induction n with
  | zero =>
    intro i b h
    have := h.lt
    exact ⟨fun _ => ⟨b, rfl, h⟩, fun hc => by omega⟩
  | succ n ih =>
    intro i b h
    have hlt := h.lt
    rcases h.step.2 with ⟨h1, h2⟩ | ⟨h1, h2⟩
    · refine ⟨fun hc => by omega, fun _ => ?_⟩
      simp only [takeFields]
      rw [if_pos (by omega)]
    · have ih' := ih h2
      have e : takeFields line d old (n + 1) b = takeFields line d old n (findFrom line d b + 1) := by
        simp only [takeFields]
        rw [if_neg (by omega)]
      rw [e]
      refine ⟨fun hc => ?_, fun hc => ih'.2 (by omega)⟩
      obtain ⟨b', hb', hI⟩ := ih'.1 (by omega)
      exact ⟨b', hb', by rw [show i + (n + 1) = i + 1 + n by omega]; exact hI⟩

theorem takeIndividual_spec {d line} (n : Nat) : ∀ {i b}, Inv d line i b →
    (i + n < (splitFields d line).length →
        ∃ b', takeIndividual line d n b = (((splitFields d line).drop i).take n, some b') ∧
          Inv d line (i + n) b') ∧
    ((splitFields d line).length ≤ i + n →
        takeIndividual line d n b = ((splitFields d line).drop i, none)) := by
  induction n with
  | zero =>
    intro i b h
    have := h.lt
    exact ⟨fun _ => ⟨b, by simp [takeIndividual], h⟩, fun hc => by omega⟩
  | succ n ih =>
    intro i b h
    have hlt := h.lt
    have hd := h.step.1
    rcases h.step.2 with ⟨h1, h2⟩ | ⟨h1, h2⟩
    · refine ⟨fun hc => by omega, fun _ => ?_⟩
      simp only [takeIndividual]
      rw [if_pos (by omega), hd, List.drop_eq_nil_iff.mpr (by omega)]
    · have ih' := ih h2
      have e : takeIndividual line d (n + 1) b =
          (slice line b (findFrom line d b) :: (takeIndividual line d n (findFrom line d b + 1)).1,
            (takeIndividual line d n (findFrom line d b + 1)).2) := by
        simp only [takeIndividual]
        rw [if_neg (by omega)]
      rw [e]
      refine ⟨fun hc => ?_, fun hc => ?_⟩
      · obtain ⟨b', hb', hI⟩ := ih'.1 (by omega)
        refine ⟨b', ?_, by rw [show i + (n + 1) = i + 1 + n by omega]; exact hI⟩
        rw [hb', hd]; simp
      · rw [ih'.2 (by omega), hd]

theorem slice_eq_drop (line : List UInt8) (a : Nat) : slice line a line.length = line.drop a := by
  simp [slice]

theorem Inv.slice_eq_join {d line i a n b'} (h : Inv d line i a) (h' : Inv d line (i + n) b')
    (hn : 1 ≤ n) : slice line a (b' - 1) = join d (((splitFields d line).drop i).take n) := by
  have hlt := h'.lt
  have hsplit : (splitFields d line).drop i =
      ((splitFields d line).drop i).take n ++ (splitFields d line).drop (i + n) := by
    rw [← List.drop_drop, List.take_append_drop]
  have hj := h.join_drop
  rw [hsplit, join_append, h'.join_drop] at hj
  · have hl := congrArg List.length hj
    simp only [List.length_append, List.length_cons, List.length_drop] at hl
    have ha := h.1
    have hb := h'.1
    generalize hJ : join d (((splitFields d line).drop i).take n) = J at hj hl ⊢
    unfold slice
    rw [List.drop_take, ← hj, List.take_left' (by omega)]
  · intro hc
    have := congrArg List.length hc
    simp at this
    omega
  · intro hc
    have := List.drop_eq_nil_iff.mp hc
    omega

theorem wf_head {f : FieldRange} {r} (h : WellFormed (f :: r)) : f.begin < f.stop := by
  cases r with
  | nil => exact h
  | cons g r => exact h.1

theorem wf_tail {f : FieldRange} {r} (h : WellFormed (f :: r)) : WellFormed r := by
  cases r with
  | nil => trivial
  | cons g r => exact h.2.2.2

theorem wf_all_lt : ∀ {fs : List FieldRange}, WellFormed fs → ∀ f ∈ fs, f.begin < f.stop
  | [], _, f, hf => by cases hf
  | g :: r, h, f, hf => by
    rcases List.mem_cons.mp hf with rfl | hf
    · exact wf_head h
    · exact wf_all_lt (wf_tail h) f hf

theorem wf_all_ge : ∀ {r : List FieldRange} {f : FieldRange}, WellFormed (f :: r) →
    ∀ g ∈ r, f.stop ≤ g.begin
  | [], _, _, g, hg => by cases hg
  | g' :: r, f, h, g, hg => by
    rcases List.mem_cons.mp hg with rfl | hg
    · exact h.2.1
    · have := wf_all_ge h.2.2.2 g hg
      have := wf_head h.2.2.2
      have := h.2.1
      omega

theorem wf_stop_inf {f : FieldRange} {r} (h : WellFormed (f :: r)) (hs : f.stop = kInf) : r = [] := by
  cases r with
  | nil => rfl
  | cons g r => exact absurd hs h.2.2.1

theorem filterMap_cutRange_nil (d : UInt8) (F : List (List UInt8)) (r : List FieldRange)
    (h : ∀ g ∈ r, F.length ≤ g.begin) : r.filterMap (cutRange d F) = [] := by
  rw [List.filterMap_eq_nil_iff]
  intro g hg
  have := h g hg
  simp only [cutRange]
  rw [if_neg (by omega)]

theorem rangeFieldsFrom_spec {d line} : ∀ (fs : List FieldRange) {i b}, Inv d line i b →
    WellFormed fs → (∀ f ∈ fs.head?, i ≤ f.begin) →
    rangeFieldsFrom line d fs i b = fs.filterMap (cutRange d (splitFields d line))
  | [], _, _, _, _, _ => by simp [rangeFieldsFrom]
  | f :: r, i, b, hI, hwf, hi => by
    have hib : i ≤ f.begin := hi f (by simp)
    have hfl := wf_head hwf
    have hge := wf_all_ge hwf
    have hskip := skipFields_spec (f.begin - i) hI
    rw [show i + (f.begin - i) = f.begin by omega] at hskip
    rcases Nat.lt_or_ge f.begin (splitFields d line).length with hlt | hlt
    · obtain ⟨b1, hb1, hI1⟩ := hskip.1 hlt
      have hmax : max i f.begin = f.begin := by omega
      rw [rangeFieldsFrom, hb1]
      simp only [hmax]
      rw [List.filterMap_cons]
      have hcut : cutRange d (splitFields d line) f =
          some (join d (selected (splitFields d line) f)) := by
        simp only [cutRange]; rw [if_pos hlt]
      rw [hcut]
      by_cases hs : f.stop = kInf
      · have hr := wf_stop_inf hwf hs
        subst hr
        simp only [hs, beq_self_eq_true, if_true, List.filterMap_nil]
        rw [slice_eq_drop, ← hI1.join_drop]
        simp [selected, hs]
      · have hsel : selected (splitFields d line) f =
            ((splitFields d line).drop f.begin).take (f.stop - f.begin) := by
          simp [selected, hs]
        rw [if_neg (by simpa using hs)]
        have htake := takeFields_spec b1 (f.stop - f.begin) hI1
        rw [show f.begin + (f.stop - f.begin) = f.stop by omega] at htake
        rcases Nat.lt_or_ge f.stop (splitFields d line).length with hlt2 | hlt2
        · obtain ⟨b2, hb2, hI2⟩ := htake.1 hlt2
          rw [hb2]
          simp only
          have hI2' : Inv d line (f.begin + (f.stop - f.begin)) b2 := by
            rw [show f.begin + (f.stop - f.begin) = f.stop by omega]; exact hI2
          rw [hI1.slice_eq_join hI2' (by omega), hsel]
          congr 1
          rw [show max f.begin f.stop = f.stop by omega]
          apply rangeFieldsFrom_spec r hI2 (wf_tail hwf)
          intro g hg
          exact hge g (List.mem_of_mem_head? hg)
        · rw [htake.2 hlt2]
          simp only
          rw [filterMap_cutRange_nil d _ r (fun g hg => by have := hge g hg; omega)]
          rw [slice_eq_drop, ← hI1.join_drop, hsel, List.take_of_length_le]
          rw [List.length_drop]; omega
    · rw [rangeFieldsFrom, hskip.2 hlt]
      simp only
      symm
      apply filterMap_cutRange_nil
      intro g hg
      rcases List.mem_cons.mp hg with rfl | hg
      · exact hlt
      · have := hge g hg; omega

theorem range_eq_cut' (line : List UInt8) (ranges : List FieldRange) (delim : UInt8)
    (h : WellFormed ranges) : rangeFields line ranges delim = cutSelect ranges delim line := by
  unfold rangeFields cutSelect
  exact rangeFieldsFrom_spec ranges (inv_zero delim line) h (fun _ _ => Nat.zero_le _)

theorem length_splitFields_le (d : UInt8) (l : List UInt8) :
    (splitFields d l).length ≤ l.length + 1 := by
  induction l with
  | nil => simp [splitFields]
  | cons c r ih =>
    by_cases hc : c = d
    · subst hc; rw [splitFields_cons_delim]; simp; omega
    · obtain ⟨f, fs, h1, h2⟩ := splitFields_cons_ne d c r hc
      rw [h2]; rw [h1] at ih; simp at ih ⊢; omega

theorem selected_nil_of_le (F : List (List UInt8)) (g : FieldRange) (h : F.length ≤ g.begin) :
    selected F g = [] := by
  unfold selected
  rw [List.drop_eq_nil_iff.mpr h]
  split <;> simp

theorem flatMap_selected_nil (F : List (List UInt8)) (r : List FieldRange)
    (h : ∀ g ∈ r, F.length ≤ g.begin) : r.flatMap (selected F) = [] := by
  rw [List.flatMap_eq_nil_iff]
  intro g hg
  exact selected_nil_of_le F g (h g hg)

theorem individualFieldsFrom_spec {d line} (hF : (splitFields d line).length ≤ kInf) :
    ∀ (fs : List FieldRange) {i b}, Inv d line i b →
    WellFormed fs → (∀ f ∈ fs.head?, i ≤ f.begin) →
    individualFieldsFrom line d fs i b = fs.flatMap (selected (splitFields d line))
  | [], _, _, _, _, _ => by simp [individualFieldsFrom]
  | f :: r, i, b, hI, hwf, hi => by
    have hib : i ≤ f.begin := hi f (by simp)
    have hfl := wf_head hwf
    have hge := wf_all_ge hwf
    have hskip := skipFields_spec (f.begin - i) hI
    rw [show i + (f.begin - i) = f.begin by omega] at hskip
    rcases Nat.lt_or_ge f.begin (splitFields d line).length with hlt | hlt
    · obtain ⟨b1, hb1, hI1⟩ := hskip.1 hlt
      have hmax : max i f.begin = f.begin := by omega
      rw [individualFieldsFrom, hb1]
      simp only [hmax]
      rw [List.flatMap_cons]
      have htake := takeIndividual_spec (f.stop - f.begin) hI1
      rw [show f.begin + (f.stop - f.begin) = f.stop by omega] at htake
      rcases Nat.lt_or_ge f.stop (splitFields d line).length with hlt2 | hlt2
      · obtain ⟨b2, hb2, hI2⟩ := htake.1 hlt2
        rw [hb2]
        simp only
        have hs : f.stop ≠ kInf := by omega
        have hsel : selected (splitFields d line) f =
            ((splitFields d line).drop f.begin).take (f.stop - f.begin) := by
          simp [selected, hs]
        rw [hsel]
        congr 1
        rw [show max f.begin f.stop = f.stop by omega]
        apply individualFieldsFrom_spec hF r hI2 (wf_tail hwf)
        intro g hg
        exact hge g (List.mem_of_mem_head? hg)
      · rw [htake.2 hlt2]
        simp only
        rw [flatMap_selected_nil _ r (fun g hg => by have := hge g hg; omega)]
        have hsel : selected (splitFields d line) f = (splitFields d line).drop f.begin := by
          unfold selected
          split
          · rfl
          · rw [List.take_of_length_le]
            rw [List.length_drop]; omega
        rw [hsel]; simp
    · rw [individualFieldsFrom, hskip.2 hlt]
      simp only
      symm
      apply flatMap_selected_nil
      intro g hg
      rcases List.mem_cons.mp hg with rfl | hg
      · exact hlt
      · have := hge g hg; omega

theorem individual_eq_selected' (line : List UInt8) (ranges : List FieldRange) (delim : UInt8)
    (h : WellFormed ranges) (hlen : line.length < kInf) :
    individualFields line ranges delim =
      ranges.flatMap (selected (splitFields delim line)) := by
  unfold individualFields
  have := length_splitFields_le delim line
  exact individualFieldsFrom_spec (by omega) ranges (inv_zero delim line) h
    (fun _ _ => Nat.zero_le _)

theorem splitFields_of_not_mem (d : UInt8) : ∀ (f : List UInt8), d ∉ f → splitFields d f = [f]
  | [], _ => by simp [splitFields]
  | c :: r, h => by
    have hc : c ≠ d := fun e => h (by simp [e])
    obtain ⟨f', fs', h1, h2⟩ := splitFields_cons_ne d c r hc
    rw [splitFields_of_not_mem d r (fun hm => h (List.mem_cons_of_mem _ hm))] at h1
    injection h1 with e1 e2
    rw [h2, ← e1, ← e2]

theorem splitFields_append_delim (d : UInt8) (r : List UInt8) : ∀ (a : List UInt8), d ∉ a →
    splitFields d (a ++ d :: r) = a :: splitFields d r
  | [], _ => by simp [splitFields_cons_delim]
  | c :: a, h => by
    have hc : c ≠ d := fun e => h (by simp [e])
    obtain ⟨f', fs', h1, h2⟩ := splitFields_cons_ne d c (a ++ d :: r) hc
    rw [splitFields_append_delim d r a (fun hm => h (List.mem_cons_of_mem _ hm))] at h1
    injection h1 with e1 e2
    rw [List.cons_append, h2, ← e1, ← e2]

theorem not_mem_of_mem_splitFields (d : UInt8) : ∀ (l : List UInt8), ∀ f ∈ splitFields d l, d ∉ f
  | [], f, hf => by simp [splitFields] at hf; simp [hf]
  | c :: r, f, hf => by
    have ih := not_mem_of_mem_splitFields d r
    by_cases hc : c = d
    · subst hc
      rw [splitFields_cons_delim] at hf
      rcases List.mem_cons.mp hf with rfl | hf
      · simp
      · exact ih f hf
    · obtain ⟨f', fs', h1, h2⟩ := splitFields_cons_ne d c r hc
      rw [h2] at hf
      rw [h1] at ih
      rcases List.mem_cons.mp hf with rfl | hf
      · intro hm
        rcases List.mem_cons.mp hm with e | hm
        · exact hc e.symm
        · exact ih f' (by simp) hm
      · exact ih f (List.mem_cons_of_mem _ hf)

theorem splitFields_join (d : UInt8) : ∀ (fs : List (List UInt8)), fs ≠ [] → (∀ f ∈ fs, d ∉ f) →
    splitFields d (join d fs) = fs
  | [], h, _ => absurd rfl h
  | [f], _, h => by simp [join, splitFields_of_not_mem d f (h f (by simp))]
  | f :: g :: r, _, h => by
    rw [join, splitFields_append_delim d _ f (h f (by simp)),
      splitFields_join d (g :: r) (by simp) (fun x hx => h x (List.mem_cons_of_mem _ hx))]

theorem mem_of_mem_selected {F : List (List UInt8)} {f : FieldRange} {x} (h : x ∈ selected F f) :
    x ∈ F := by
  unfold selected at h
  split at h
  · exact List.mem_of_mem_drop h
  · exact List.mem_of_mem_drop (List.mem_of_mem_take h)

theorem containsAll_begin_lt {ranges d l} (hw : WellFormed ranges) (h : ContainsAll ranges d l) :
    ∀ f ∈ ranges, f.begin < (splitFields d l).length := by
  intro f hf
  have h1 := h f hf
  have h2 := wf_all_lt hw f hf
  split at h1 <;> omega

theorem selected_ne_nil {F : List (List UInt8)} {f : FieldRange} (hb : f.begin < F.length)
    (hs : f.begin < f.stop) : selected F f ≠ [] := by
  intro hc
  have := congrArg List.length hc
  unfold selected at this
  split at this
  · simp at this; omega
  · simp at this; omega

theorem join_selected_inj {d : UInt8} {l1 l2 : List UInt8} {f : FieldRange}
    (hs : f.begin < f.stop)
    (h1 : f.begin < (splitFields d l1).length) (h2 : f.begin < (splitFields d l2).length)
    (h : join d (selected (splitFields d l1) f) = join d (selected (splitFields d l2) f)) :
    selected (splitFields d l1) f = selected (splitFields d l2) f := by
  rw [← splitFields_join d _ (selected_ne_nil h1 hs)
        (fun x hx => not_mem_of_mem_splitFields d l1 x (mem_of_mem_selected hx)),
      ← splitFields_join d (selected (splitFields d l2) f) (selected_ne_nil h2 hs)
        (fun x hx => not_mem_of_mem_splitFields d l2 x (mem_of_mem_selected hx)), h]

theorem cutSelect_eq_map {d : UInt8} {F : List (List UInt8)} : ∀ {ranges : List FieldRange},
    (∀ f ∈ ranges, f.begin < F.length) →
    ranges.filterMap (cutRange d F) = ranges.map (fun f => join d (selected F f))
  | [], _ => rfl
  | f :: r, h => by
    rw [List.filterMap_cons, List.map_cons]
    have : cutRange d F f = some (join d (selected F f)) := by
      simp only [cutRange]; rw [if_pos (h f (by simp))]
    rw [this, cutSelect_eq_map (fun g hg => h g (List.mem_cons_of_mem _ hg))]

theorem pieces_iff_selected_equal' (l1 l2 : List UInt8) (ranges : List FieldRange) (delim : UInt8)
    (h : WellFormed ranges) (h1 : ContainsAll ranges delim l1) (h2 : ContainsAll ranges delim l2) :
    rangeFields l1 ranges delim = rangeFields l2 ranges delim ↔
      ∀ f ∈ ranges, selected (splitFields delim l1) f = selected (splitFields delim l2) f := by
  have hb1 := containsAll_begin_lt h h1
  have hb2 := containsAll_begin_lt h h2
  rw [range_eq_cut' _ _ _ h, range_eq_cut' _ _ _ h]
  unfold cutSelect
  rw [cutSelect_eq_map hb1, cutSelect_eq_map hb2, List.map_inj_left]
  constructor
  · intro hj f hf
    exact join_selected_inj (wf_all_lt h f hf) (hb1 f hf) (hb2 f hf) (hj f hf)
  · intro hs f hf
    rw [hs f hf]

/-! ### DefragmentFields -/

def Valid (f : FieldRange) : Prop := f.begin < f.stop ∧ f.stop ≤ kInf
def SortedB (l : List FieldRange) : Prop := l.Pairwise (fun a b => a.begin ≤ b.begin)
def Chain (l : List FieldRange) : Prop := l.Pairwise (fun a b => a.stop ≤ b.begin)
def Disj (f g : FieldRange) : Prop := ¬ ∃ k, inRange k f ∧ inRange k g

theorem insertSorted_perm (f : FieldRange) : ∀ l, (insertSorted f l).Perm (f :: l)
  | [] => by simp [insertSorted]
  | g :: gs => by
    simp only [insertSorted]
    split
    · exact List.Perm.refl _
    · exact ((insertSorted_perm f gs).cons g).trans (List.Perm.swap f g gs)

theorem sortRanges_perm : ∀ fs, (sortRanges fs).Perm fs
  | [] => by simp [sortRanges]
  | f :: fs => by
    have : sortRanges (f :: fs) = insertSorted f (sortRanges fs) := rfl
    rw [this]
    exact (insertSorted_perm f _).trans ((sortRanges_perm fs).cons f)

theorem insertSorted_sorted (f : FieldRange) : ∀ l, SortedB l → SortedB (insertSorted f l)
  | [], _ => by simp [insertSorted, SortedB]
  | g :: gs, h => by
    unfold SortedB at h ⊢
    rw [List.pairwise_cons] at h
    simp only [insertSorted]
    split
    · rename_i hlt
      rw [List.pairwise_cons, List.pairwise_cons]
      refine ⟨?_, h⟩
      intro a ha
      rcases List.mem_cons.mp ha with rfl | ha
      · omega
      · have := h.1 a ha; omega
    · rename_i hlt
      rw [List.pairwise_cons]
      refine ⟨?_, insertSorted_sorted f gs h.2⟩
      intro a ha
      rcases List.mem_cons.mp ((insertSorted_perm f gs).mem_iff.mp ha) with rfl | ha
      · omega
      · exact h.1 a ha

theorem sortRanges_sorted : ∀ fs, SortedB (sortRanges fs)
  | [] => by simp [sortRanges, SortedB]
  | f :: fs => insertSorted_sorted f _ (sortRanges_sorted fs)

theorem inRange_merge {f g : FieldRange} (hf : Valid f) (hg : Valid g) (he : f.stop = g.begin)
    (k : Nat) : inRange k ⟨f.begin, g.stop⟩ ↔ inRange k f ∨ inRange k g := by
  unfold Valid at hf hg
  unfold inRange
  simp only
  constructor
  · rintro ⟨h1, h2⟩
    rcases Nat.lt_or_ge k f.stop with h | h
    · exact Or.inl ⟨h1, Or.inl h⟩
    · exact Or.inr ⟨by omega, h2⟩
  · rintro (⟨h1, h2⟩ | ⟨h1, h2⟩)
    · refine ⟨h1, Or.inl ?_⟩
      rcases h2 with h2 | h2 <;> omega
    · exact ⟨by omega, h2⟩

theorem mergeSorted_sound : ∀ (L : List FieldRange), SortedB L → (∀ f ∈ L, Valid f) →
    ∀ gs, mergeSorted L = some gs →
      WellFormed gs ∧ (∀ k, (∃ g ∈ gs, inRange k g) ↔ (∃ f ∈ L, inRange k f)) ∧
      gs.head?.map (·.begin) = L.head?.map (·.begin) ∧ (∀ g ∈ gs, Valid g) := by
  intro L
  fun_induction mergeSorted L with
  | case1 =>
    intro _ _ gs h
    simp at h; subst h
    simp [WellFormed]
  | case2 f =>
    intro _ hv gs h
    simp at h; subst h
    refine ⟨(hv f (by simp)).1, fun k => Iff.rfl, rfl, hv⟩
  | case3 f g rest hgt =>
    intro _ _ gs h
    simp at h
  | case4 f g rest hgt heq ih =>
    intro hs hv gs h
    have heq' : f.stop = g.begin := by simpa using heq
    have hvf := hv f (by simp)
    have hvg := hv g (by simp)
    unfold SortedB at hs
    rw [List.pairwise_cons, List.pairwise_cons] at hs
    have hvm : Valid ⟨f.begin, g.stop⟩ := by
      unfold Valid at hvf hvg ⊢; simp only; omega
    have hs' : SortedB (⟨f.begin, g.stop⟩ :: rest) := by
      unfold SortedB
      rw [List.pairwise_cons]
      exact ⟨fun a ha => hs.1 a (List.mem_cons_of_mem _ ha), hs.2.2⟩
    have hv' : ∀ x ∈ (⟨f.begin, g.stop⟩ : FieldRange) :: rest, Valid x := by
      intro x hx
      rcases List.mem_cons.mp hx with rfl | hx
      · exact hvm
      · exact hv x (by simp [hx])
    obtain ⟨h1, h2, h3, h4⟩ := ih hs' hv' gs h
    refine ⟨h1, ?_, by simpa using h3, h4⟩
    intro k
    rw [h2 k]
    constructor
    · rintro ⟨x, hx, hk⟩
      rcases List.mem_cons.mp hx with rfl | hx
      · rcases (inRange_merge hvf hvg heq' k).mp hk with hk | hk
        · exact ⟨f, by simp, hk⟩
        · exact ⟨g, by simp, hk⟩
      · exact ⟨x, by simp [hx], hk⟩
    · rintro ⟨x, hx, hk⟩
      rcases List.mem_cons.mp hx with rfl | hx
      · exact ⟨_, by simp, (inRange_merge hvf hvg heq' k).mpr (Or.inl hk)⟩
      · rcases List.mem_cons.mp hx with rfl | hx
        · exact ⟨_, by simp, (inRange_merge hvf hvg heq' k).mpr (Or.inr hk)⟩
        · exact ⟨x, by simp [hx], hk⟩
  | case5 f g rest hgt hne ih =>
    intro hs hv gs h
    have hlt : f.stop < g.begin := by
      have : f.stop ≠ g.begin := by simpa using hne
      omega
    have hvf := hv f (by simp)
    have hvg := hv g (by simp)
    unfold SortedB at hs
    rw [List.pairwise_cons] at hs
    rw [Option.map_eq_some_iff] at h
    obtain ⟨gs', hm, rfl⟩ := h
    obtain ⟨h1, h2, h3, h4⟩ := ih hs.2 (fun x hx => hv x (List.mem_cons_of_mem _ hx)) gs' hm
    refine ⟨?_, ?_, rfl, ?_⟩
    · cases gs' with
      | nil => exact hvf.1
      | cons g0 r =>
        simp at h3
        unfold Valid at hvf hvg
        exact ⟨hvf.1, by omega, by omega, h1⟩
    · intro k
      constructor
      · rintro ⟨x, hx, hk⟩
        rcases List.mem_cons.mp hx with rfl | hx
        · exact ⟨x, by simp, hk⟩
        · obtain ⟨y, hy, hk'⟩ := (h2 k).mp ⟨x, hx, hk⟩
          exact ⟨y, List.mem_cons_of_mem _ hy, hk'⟩
      · rintro ⟨x, hx, hk⟩
        rcases List.mem_cons.mp hx with rfl | hx
        · exact ⟨x, by simp, hk⟩
        · obtain ⟨y, hy, hk'⟩ := (h2 k).mpr ⟨x, hx, hk⟩
          exact ⟨y, List.mem_cons_of_mem _ hy, hk'⟩
    · intro x hx
      rcases List.mem_cons.mp hx with rfl | hx
      · exact hvf
      · exact h4 x hx

theorem defragment_sound' (fs gs : List FieldRange) (hfs : ∀ f ∈ fs, f.begin < f.stop ∧ f.stop ≤ kInf)
    (h : defragment fs = some gs) :
    WellFormed gs ∧ ∀ k, (∃ g ∈ gs, inRange k g) ↔ (∃ f ∈ fs, inRange k f) := by
  have hp := sortRanges_perm fs
  obtain ⟨h1, h2, _, _⟩ := mergeSorted_sound (sortRanges fs) (sortRanges_sorted fs)
    (fun f hf => hfs f (hp.mem_iff.mp hf)) gs h
  refine ⟨h1, fun k => ?_⟩
  rw [h2 k]
  constructor
  · rintro ⟨x, hx, hk⟩; exact ⟨x, hp.mem_iff.mp hx, hk⟩
  · rintro ⟨x, hx, hk⟩; exact ⟨x, hp.mem_iff.mpr hx, hk⟩

theorem mergeSorted_none_iff : ∀ (L : List FieldRange), SortedB L → (∀ f ∈ L, Valid f) →
    (mergeSorted L = none ↔ ¬ Chain L) := by
  intro L
  fun_induction mergeSorted L with
  | case1 => intro _ _; simp [Chain]
  | case2 f => intro _ _; simp [Chain]
  | case3 f g rest hgt =>
    intro _ _
    simp only [true_iff]
    intro hc
    unfold Chain at hc
    rw [List.pairwise_cons] at hc
    have := hc.1 g (by simp)
    omega
  | case4 f g rest hgt heq ih =>
    intro hs hv
    have heq' : f.stop = g.begin := by simpa using heq
    have hvf := hv f (by simp)
    have hvg := hv g (by simp)
    unfold SortedB at hs
    rw [List.pairwise_cons, List.pairwise_cons] at hs
    have hvm : Valid ⟨f.begin, g.stop⟩ := by
      unfold Valid at hvf hvg ⊢; simp only; omega
    have hs' : SortedB (⟨f.begin, g.stop⟩ :: rest) := by
      unfold SortedB
      rw [List.pairwise_cons]
      exact ⟨fun a ha => hs.1 a (List.mem_cons_of_mem _ ha), hs.2.2⟩
    have hv' : ∀ x ∈ (⟨f.begin, g.stop⟩ : FieldRange) :: rest, Valid x := by
      intro x hx
      rcases List.mem_cons.mp hx with rfl | hx
      · exact hvm
      · exact hv x (by simp [hx])
    rw [ih hs' hv']
    unfold Chain
    rw [List.pairwise_cons, List.pairwise_cons, List.pairwise_cons]
    simp only
    unfold Valid at hvf hvg
    constructor
    · intro hn hc
      exact hn ⟨hc.2.1, hc.2.2⟩
    · intro hn hc
      refine hn ⟨?_, hc.1, hc.2⟩
      intro a ha
      rcases List.mem_cons.mp ha with rfl | ha
      · omega
      · have := hc.1 a ha; omega
  | case5 f g rest hgt hne ih =>
    intro hs hv
    have hlt : f.stop < g.begin := by
      have : f.stop ≠ g.begin := by simpa using hne
      omega
    unfold SortedB at hs
    rw [List.pairwise_cons] at hs
    have hs2 := hs.2
    rw [List.pairwise_cons] at hs2
    rw [Option.map_eq_none_iff, ih hs.2 (fun x hx => hv x (List.mem_cons_of_mem _ hx))]
    unfold Chain
    rw [List.pairwise_cons (a := f)]
    constructor
    · intro hn hc
      exact hn hc.2
    · intro hn hc
      refine hn ⟨?_, hc⟩
      intro a ha
      rcases List.mem_cons.mp ha with rfl | ha
      · omega
      · have := hs2.1 a ha; omega

theorem disj_symm {f g : FieldRange} (h : Disj f g) : Disj g f := by
  rintro ⟨k, h1, h2⟩; exact h ⟨k, h2, h1⟩

theorem disj_iff_of_sorted {f g : FieldRange} (_hf : Valid f) (hg : Valid g) (hs : f.begin ≤ g.begin) :
    Disj f g ↔ f.stop ≤ g.begin := by
  unfold Valid at hg
  unfold Disj inRange
  constructor
  · intro h
    rcases Nat.lt_or_ge g.begin f.stop with hlt | hge
    · exact absurd ⟨g.begin, ⟨hs, Or.inl hlt⟩, ⟨Nat.le_refl _, Or.inl hg.1⟩⟩ h
    · exact hge
  · rintro h ⟨k, ⟨h1, h2⟩, ⟨h3, h4⟩⟩
    rcases h2 with h2 | h2 <;> omega

theorem chain_iff_pairwise_disj {L : List FieldRange} (hs : SortedB L) (hv : ∀ f ∈ L, Valid f) :
    Chain L ↔ L.Pairwise Disj := by
  induction L with
  | nil => simp [Chain]
  | cons f r ih =>
    unfold SortedB at hs
    rw [List.pairwise_cons] at hs
    unfold Chain at ih ⊢
    rw [List.pairwise_cons, List.pairwise_cons, ih hs.2 (fun x hx => hv x (List.mem_cons_of_mem _ hx))]
    constructor
    · rintro ⟨h1, h2⟩
      exact ⟨fun a ha => (disj_iff_of_sorted (hv f (by simp)) (hv a (by simp [ha])) (hs.1 a ha)).mpr (h1 a ha), h2⟩
    · rintro ⟨h1, h2⟩
      exact ⟨fun a ha => (disj_iff_of_sorted (hv f (by simp)) (hv a (by simp [ha])) (hs.1 a ha)).mp (h1 a ha), h2⟩

theorem not_pairwise_disj_iff (fs : List FieldRange) :
    ¬ fs.Pairwise Disj ↔
      ∃ (i j : Nat) (f g : FieldRange), i < j ∧ fs[i]? = some f ∧ fs[j]? = some g ∧
        ∃ k, inRange k f ∧ inRange k g := by
  constructor
  · intro hn
    apply Classical.byContradiction
    intro hex
    apply hn
    rw [List.pairwise_iff_getElem]
    intro i j hi hj hij hov
    exact hex ⟨i, j, fs[i], fs[j], hij, by simp [hi], by simp [hj], hov⟩
  · rintro ⟨i, j, f, g, hij, hf, hg, hov⟩ hp
    rw [List.pairwise_iff_getElem] at hp
    obtain ⟨hi, rfl⟩ := List.getElem?_eq_some_iff.mp hf
    obtain ⟨hj, rfl⟩ := List.getElem?_eq_some_iff.mp hg
    exact hp i j hi hj hij hov

theorem defragment_rejects_overlap' (fs : List FieldRange)
    (hfs : ∀ f ∈ fs, f.begin < f.stop ∧ f.stop ≤ kInf) :
    defragment fs = none ↔
      ∃ (i j : Nat) (f g : FieldRange), i < j ∧ fs[i]? = some f ∧ fs[j]? = some g ∧
        ∃ k, inRange k f ∧ inRange k g := by
  have hp := sortRanges_perm fs
  have hv : ∀ f ∈ sortRanges fs, Valid f := fun f hf => hfs f (hp.mem_iff.mp hf)
  unfold defragment
  rw [mergeSorted_none_iff _ (sortRanges_sorted fs) hv,
    chain_iff_pairwise_disj (sortRanges_sorted fs) hv,
    hp.pairwise_iff (fun h => disj_symm h), not_pairwise_disj_iff]

/-! ### ParseFields -/

theorem digitsVal_eq (w : List UInt8) : ∀ acc n, digitsVal w acc n =
    ((w.takeWhile isDigit).foldl (fun a c => a * 10 + (c.toNat - 48)) acc,
      w.dropWhile isDigit, n + (w.takeWhile isDigit).length) := by
  induction w with
  | nil => intro acc n; simp [digitsVal]
  | cons c r ih =>
    intro acc n
    by_cases h : isDigit c = true
    · simp [digitsVal, h, ih]; omega
    · simp [digitsVal, h]

theorem consumeInt_eq (w : List UInt8) : consumeInt w =
    if w.takeWhile isDigit = [] then none
    else if value (w.takeWhile isDigit) ≥ kInf then none
    else some (value (w.takeWhile isDigit), w.dropWhile isDigit) := by
  unfold consumeInt
  rw [digitsVal_eq]
  simp only [value, Nat.zero_add]
  by_cases h : w.takeWhile isDigit = []
  · simp [h]
  · have : ((w.takeWhile isDigit).length == 0) = false := by
      simp [h]
    simp [h]

theorem takeWhile_append_stop (p : UInt8 → Bool) : ∀ (D r : List UInt8), (∀ x ∈ D, p x = true) →
    (∀ c ∈ r.head?, p c = false) → (D ++ r).takeWhile p = D ∧ (D ++ r).dropWhile p = r
  | [], r, _, hr => by
    cases r with
    | nil => simp
    | cons c r => simp [hr c (by simp)]
  | x :: D, r, hD, hr => by
    have := takeWhile_append_stop p D r (fun y hy => hD y (List.mem_cons_of_mem _ hy)) hr
    simp [hD x (by simp), this]

theorem dropWhile_head (p : UInt8 → Bool) : ∀ (l : List UInt8), ∀ c ∈ (l.dropWhile p).head?, p c = false
  | [], c, hc => by simp at hc
  | x :: l, c, hc => by
    by_cases h : p x = true
    · rw [List.dropWhile_cons, if_pos h] at hc
      exact dropWhile_head p l c hc
    · rw [List.dropWhile_cons, if_neg h] at hc
      simp at hc; subst hc; simpa using h

theorem number_some {D : List UInt8} {n : Nat} (h : number D = some n) :
    D ≠ [] ∧ (∀ x ∈ D, isDigit x = true) ∧ value D = n ∧ 1 ≤ n ∧ n < kInf := by
  unfold number at h
  split at h
  · rename_i hc
    simp only [Bool.and_eq_true, decide_eq_true_eq, allDigits, Bool.not_eq_true',
      List.isEmpty_eq_false_iff, List.all_eq_true] at hc
    injection h with h
    subst h
    exact ⟨hc.1.1.1, hc.1.1.2, rfl, hc.1.2, hc.2⟩
  · cases h

theorem number_of {D : List UInt8} (h1 : D ≠ []) (h2 : ∀ x ∈ D, isDigit x = true)
    (h3 : 1 ≤ value D) (h4 : value D < kInf) : number D = some (value D) := by
  unfold number
  rw [if_pos]
  simp [allDigits, h1, h3, h4]
  exact h2

theorem consumeInt_append {D r : List UInt8} {n : Nat} (h : number D = some n)
    (hr : ∀ c ∈ r.head?, isDigit c = false) : consumeInt (D ++ r) = some (n, r) := by
  obtain ⟨h1, h2, h3, h4, h5⟩ := number_some h
  obtain ⟨e1, e2⟩ := takeWhile_append_stop isDigit D r h2 hr
  rw [consumeInt_eq, e1, e2, if_neg h1, if_neg (by omega), h3]

theorem consumeInt_some {w r : List UInt8} {v : Nat} (h : consumeInt w = some (v, r)) :
    ∃ D, w = D ++ r ∧ D ≠ [] ∧ (∀ x ∈ D, isDigit x = true) ∧ value D = v ∧ v < kInf ∧
      (∀ c ∈ r.head?, isDigit c = false) := by
  rw [consumeInt_eq] at h
  split at h
  · cases h
  · split at h
    · cases h
    · rename_i h1 h2
      injection h with h
      injection h with e1 e2
      refine ⟨w.takeWhile isDigit, ?_, h1, fun x hx => (List.all_eq_true.mp (List.all_takeWhile (p := isDigit) (l := w)) x hx), e1, by omega, ?_⟩
      · rw [← e2, List.takeWhile_append_dropWhile]
      · rw [← e2]; exact dropWhile_head isDigit w

def parseHd (s : List UInt8) : Option (Nat × List UInt8) :=
  match s with
  | [] => none
  | c :: _ =>
    if c == 45 then some (0, s)
    else match consumeInt s with
      | none => none
      | some (v, r) => if v == 0 then none else some (v - 1, r)

def parseTail (b : Nat) (r : List UInt8) : Option (FieldRange × List UInt8) :=
  match r with
  | [] => some (⟨b, b + 1⟩, r)
  | 44 :: _ => some (⟨b, b + 1⟩, r)
  | 45 :: r2 =>
    match r2 with
    | [] => some (⟨b, kInf⟩, r2)
    | 44 :: _ => some (⟨b, kInf⟩, r2)
    | _ => match consumeInt r2 with
      | none => none
      | some (e, r3) => if e ≤ b then none else some (⟨b, e⟩, r3)
  | _ => none

def cont : List UInt8 → Option (List UInt8)
  | [] => none
  | _ :: r' => some r'

def Stop (r : List UInt8) : Prop := r = [] ∨ ∃ r', r = 44 :: r'

theorem parseLoop_succ_inv {fuel : Nat} {c : UInt8} {t : List UInt8} {acc res : List FieldRange}
    (h : parseLoop (fuel + 1) (c :: t) acc = some res) :
    ∃ b r f r', parseHd (c :: t) = some (b, r) ∧ parseTail b r = some (f, r') ∧ Stop r' := by
  rw [parseLoop] at h
  simp only at h
  split at h
  · cases h
  · rename_i b r hhd
    split at h
    · cases h
    · rename_i f r' hitem
      refine ⟨b, r, f, r', hhd, hitem, ?_⟩
      split at h
      · exact Or.inl rfl
      · exact Or.inr ⟨_, rfl⟩
      · cases h

theorem parseLoop_succ_some {fuel : Nat} {c : UInt8} {t : List UInt8} {acc : List FieldRange}
    {b r f r'} (h1 : parseHd (c :: t) = some (b, r)) (h2 : parseTail b r = some (f, r'))
    (h3 : Stop r') :
    parseLoop (fuel + 1) (c :: t) acc =
      match cont r' with
      | none => some (f :: acc).reverse
      | some r'' => parseLoop fuel r'' (f :: acc) := by
  rw [parseLoop]
  simp only
  split
  · rename_i hhd
    have : parseHd (c :: t) = none := hhd
    rw [h1] at this; cases this
  · rename_i b0 r0 hhd
    have hhd' : parseHd (c :: t) = some (b0, r0) := hhd
    rw [h1] at hhd'
    injection hhd' with hhd'
    injection hhd' with e1 e2
    subst e1; subst e2
    split
    · rename_i hitem
      have : parseTail b r = none := hitem
      rw [h2] at this; cases this
    · rename_i f0 r0' hitem
      have hitem' : parseTail b r = some (f0, r0') := hitem
      rw [h2] at hitem'
      injection hitem' with hitem'
      injection hitem' with e1 e2
      subst e1; subst e2
      rcases h3 with rfl | ⟨r'', rfl⟩
      · rfl
      · rfl

inductive Shape : List UInt8 → Item → Prop
  | single {D n} : number D = some n → Shape D (.single n)
  | from {D n} : number D = some n → Shape (D ++ [45]) (.from n)
  | upto {D m} : number D = some m → Shape (45 :: D) (.upto m)
  | all : Shape [45] .all
  | range {D D2 n m} : number D = some n → number D2 = some m → n ≤ m →
      Shape (D ++ 45 :: D2) (.range n m)

theorem isDigit_ne_45 {c : UInt8} (h : isDigit c = true) : c ≠ 45 := by
  intro e; subst e; exact absurd h (by decide)

theorem isDigit_ne_44 {c : UInt8} (h : isDigit c = true) : c ≠ 44 := by
  intro e; subst e; exact absurd h (by decide)

theorem number_not_mem_45 {D n} (h : number D = some n) : (45 : UInt8) ∉ D :=
  fun hm => isDigit_ne_45 ((number_some h).2.1 45 hm) rfl

theorem number_not_mem_44 {D n} (h : number D = some n) : (44 : UInt8) ∉ D :=
  fun hm => isDigit_ne_44 ((number_some h).2.1 44 hm) rfl

theorem number_nil : number [] = none := by decide

theorem parseItem_of_shape {it x} (h : Shape it x) : parseItem it = some x := by
  cases h with
  | single hn =>
    unfold parseItem splitOn
    rw [splitFields_of_not_mem _ _ (number_not_mem_45 hn)]
    simp [hn]
  | «from» hn =>
    rename_i D n
    unfold parseItem splitOn
    rw [splitFields_append_delim _ _ _ (number_not_mem_45 hn)]
    have : D.isEmpty = false := by simp [(number_some hn).1]
    simp [splitFields, hn, this]
  | upto hn =>
    rename_i D n
    unfold parseItem splitOn
    rw [splitFields_cons_delim, splitFields_of_not_mem _ _ (number_not_mem_45 hn)]
    have : D.isEmpty = false := by simp [(number_some hn).1]
    simp [hn, this]
  | all =>
    decide
  | range h1 h2 hle =>
    rename_i D D2 n m
    unfold parseItem splitOn
    rw [splitFields_append_delim _ _ _ (number_not_mem_45 h1),
      splitFields_of_not_mem _ _ (number_not_mem_45 h2)]
    have e1 : D.isEmpty = false := by simp [(number_some h1).1]
    have e2 : D2.isEmpty = false := by simp [(number_some h2).1]
    simp [h1, h2, e1, e2, hle]

theorem shape_of_parseItem {it x} (h : parseItem it = some x) : Shape it x := by
  have hj := join_splitFields 45 it
  unfold parseItem splitOn at h
  split at h
  · rename_i a hs
    rw [hs] at hj
    simp only [join] at hj
    subst hj
    rw [Option.map_eq_some_iff] at h
    obtain ⟨n, hn, rfl⟩ := h
    exact Shape.single hn
  · rename_i a b hs
    rw [hs] at hj
    simp only [join] at hj
    subst hj
    split at h
    · rename_i hc
      simp only [Bool.and_eq_true, List.isEmpty_iff] at hc
      obtain ⟨rfl, rfl⟩ := hc
      injection h with h; subst h
      exact Shape.all
    · split at h
      · rename_i _ hc
        rw [List.isEmpty_iff] at hc; subst hc
        rw [Option.map_eq_some_iff] at h
        obtain ⟨n, hn, rfl⟩ := h
        exact Shape.upto hn
      · split at h
        · rename_i _ _ hc
          rw [List.isEmpty_iff] at hc; subst hc
          rw [Option.map_eq_some_iff] at h
          obtain ⟨n, hn, rfl⟩ := h
          exact Shape.from hn
        · split at h
          · rename_i n m hn hm
            split at h
            · injection h with h; subst h
              exact Shape.range hn hm (by assumption)
            · cases h
          · cases h
  · cases h

theorem shape_not_mem_44 {it x} (h : Shape it x) : (44 : UInt8) ∉ it := by
  cases h with
  | single hn => exact number_not_mem_44 hn
  | «from» hn =>
    intro hm
    rcases List.mem_append.mp hm with hm | hm
    · exact number_not_mem_44 hn hm
    · simp at hm
  | upto hn =>
    intro hm
    rcases List.mem_cons.mp hm with hm | hm
    · cases hm
    · exact number_not_mem_44 hn hm
  | all => decide
  | range h1 h2 _ =>
    intro hm
    rcases List.mem_append.mp hm with hm | hm
    · exact number_not_mem_44 h1 hm
    · rcases List.mem_cons.mp hm with hm | hm
      · cases hm
      · exact number_not_mem_44 h2 hm

theorem stop_head {r : List UInt8} (h : Stop r) : ∀ c ∈ r.head?, isDigit c = false := by
  rcases h with rfl | ⟨r', rfl⟩
  · simp
  · intro c hc; simp at hc; subst hc; decide

theorem parseHd_number {D r : List UInt8} {n : Nat} (h : number D = some n)
    (hr : ∀ c ∈ r.head?, isDigit c = false) : parseHd (D ++ r) = some (n - 1, r) := by
  obtain ⟨h1, h2, h3, h4, h5⟩ := number_some h
  have hc := consumeInt_append h hr
  obtain ⟨d, D', rfl⟩ := List.exists_cons_of_ne_nil h1
  have hd : (d == 45) = false := by simpa using isDigit_ne_45 (h2 d (by simp))
  have hn : (n == 0) = false := by simp; omega
  rw [List.cons_append] at hc ⊢
  simp only [parseHd, hd, hc, hn]
  simp

theorem parseTail_stop {b : Nat} {r : List UInt8} (h : Stop r) :
    parseTail b r = some (⟨b, b + 1⟩, r) := by
  rcases h with rfl | ⟨r', rfl⟩ <;> simp [parseTail]

theorem parseTail_dash_stop {b : Nat} {r : List UInt8} (h : Stop r) :
    parseTail b (45 :: r) = some (⟨b, kInf⟩, r) := by
  rcases h with rfl | ⟨r', rfl⟩ <;> simp [parseTail]

theorem parseTail_dash_number {b e : Nat} {D r : List UInt8} (h : number D = some e) (hbe : b < e)
    (hr : ∀ c ∈ r.head?, isDigit c = false) :
    parseTail b (45 :: (D ++ r)) = some (⟨b, e⟩, r) := by
  obtain ⟨h1, h2, h3, h4, h5⟩ := number_some h
  have hc := consumeInt_append h hr
  obtain ⟨d, D', rfl⟩ := List.exists_cons_of_ne_nil h1
  have hd : d ≠ 44 := isDigit_ne_44 (h2 d (by simp))
  rw [List.cons_append] at hc ⊢
  simp only [parseTail]
  split
  · rename_i heq; cases heq
  · rename_i heq; injection heq with e1 _; exact absurd e1 hd
  · rw [hc]; simp only; rw [if_neg (by omega)]

theorem parse_of_shape {it x rem} (h : Shape it x) (hs : Stop rem) :
    ∃ b r, parseHd (it ++ rem) = some (b, r) ∧ parseTail b r = some (x.denote, rem) := by
  have hsh := stop_head hs
  cases h with
  | single hn =>
    rename_i n
    refine ⟨_, _, parseHd_number hn hsh, ?_⟩
    rw [parseTail_stop hs]
    have := (number_some hn).2.2.2.1
    simp only [Item.denote]
    rw [Nat.sub_add_cancel this]
  | «from» hn =>
    rename_i D n
    refine ⟨n - 1, 45 :: rem, ?_, parseTail_dash_stop hs⟩
    rw [List.append_assoc]
    exact parseHd_number hn (by intro c hc; simp at hc; subst hc; decide)
  | upto hn =>
    rename_i D m
    refine ⟨0, 45 :: (D ++ rem), by simp [parseHd], ?_⟩
    exact parseTail_dash_number hn (number_some hn).2.2.2.1 hsh
  | all =>
    exact ⟨0, 45 :: rem, by simp [parseHd], parseTail_dash_stop hs⟩
  | range h1 h2 hle =>
    rename_i D D2 n m
    refine ⟨n - 1, 45 :: (D2 ++ rem), ?_, ?_⟩
    · rw [List.append_assoc]
      exact parseHd_number h1 (by intro c hc; simp at hc; subst hc; decide)
    · have := (number_some h1).2.2.2.1
      exact parseTail_dash_number h2 (by omega) hsh

theorem parseHd_some {s r : List UInt8} {b : Nat} (h : parseHd s = some (b, r)) :
    (∃ t, s = 45 :: t ∧ b = 0 ∧ r = s) ∨
    (∃ D, s = D ++ r ∧ number D = some (b + 1) ∧ ∀ c ∈ r.head?, isDigit c = false) := by
  unfold parseHd at h
  split at h
  · cases h
  · rename_i c t
    split at h
    · rename_i hc
      have : c = 45 := by simpa using hc
      subst this
      injection h with h; injection h with e1 e2
      exact Or.inl ⟨t, rfl, e1.symm, e2.symm⟩
    · split at h
      · cases h
      · rename_i v r0 hci
        split at h
        · cases h
        · rename_i hv
          injection h with h; injection h with e1 e2
          subst e2
          obtain ⟨D, hD, h1, h2, h3, h4, h5⟩ := consumeInt_some hci
          have hv' : v ≠ 0 := by simpa using hv
          refine Or.inr ⟨D, hD, ?_, h5⟩
          rw [← e1, Nat.sub_add_cancel (by omega), ← h3]
          exact number_of h1 h2 (by omega) (by omega)

theorem parseTail_some {b : Nat} {r r' : List UInt8} {f : FieldRange}
    (h : parseTail b r = some (f, r')) (hs : Stop r') :
    (r = r' ∧ f = ⟨b, b + 1⟩) ∨ (r = 45 :: r' ∧ f = ⟨b, kInf⟩) ∨
    (∃ D e, r = 45 :: (D ++ r') ∧ number D = some e ∧ b < e ∧ f = ⟨b, e⟩) := by
  unfold parseTail at h
  split at h
  · injection h with h; injection h with e1 e2
    exact Or.inl ⟨e2, e1.symm⟩
  · injection h with h; injection h with e1 e2
    exact Or.inl ⟨e2, e1.symm⟩
  · rename_i r2
    split at h
    · injection h with h; injection h with e1 e2
      exact Or.inr (Or.inl ⟨by rw [← e2], e1.symm⟩)
    · injection h with h; injection h with e1 e2
      exact Or.inr (Or.inl ⟨by rw [← e2], e1.symm⟩)
    · split at h
      · cases h
      · rename_i e r3 hci
        split at h
        · cases h
        · rename_i hle
          injection h with h; injection h with e1 e2
          subst e2
          obtain ⟨D, hD, h1, h2, h3, h4, h5⟩ := consumeInt_some hci
          refine Or.inr (Or.inr ⟨D, e, by rw [hD], ?_, by omega, e1.symm⟩)
          rw [← h3]
          exact number_of h1 h2 (by omega) (by omega)
  · cases h

theorem shape_of_parse {s r r' : List UInt8} {b : Nat} {f : FieldRange}
    (h1 : parseHd s = some (b, r)) (h2 : parseTail b r = some (f, r')) (hs : Stop r') :
    ∃ it x, s = it ++ r' ∧ Shape it x := by
  rcases parseHd_some h1 with ⟨t, rfl, rfl, rfl⟩ | ⟨D, rfl, hn, hr⟩
  · rcases parseTail_some h2 hs with ⟨e, _⟩ | ⟨e, _⟩ | ⟨D2, e, he, hn2, hlt, _⟩
    · subst e
      rcases hs with hs | ⟨_, hs⟩ <;> cases hs
    · injection e with _ e; subst e
      exact ⟨[45], .all, rfl, Shape.all⟩
    · injection he with _ he; subst he
      exact ⟨45 :: D2, .upto e, rfl, Shape.upto hn2⟩
  · rcases parseTail_some h2 hs with ⟨e, _⟩ | ⟨e, _⟩ | ⟨D2, e, he, hn2, hlt, _⟩
    · subst e
      exact ⟨D, _, rfl, Shape.single hn⟩
    · subst e
      exact ⟨D ++ [45], _, by simp, Shape.from hn⟩
    · subst he
      exact ⟨D ++ 45 :: D2, _, by simp, Shape.range hn hn2 (by omega)⟩

theorem stop_dropWhile (s : List UInt8) : Stop (s.dropWhile (· != 44)) := by
  have h := dropWhile_head (· != 44) s
  cases hr : s.dropWhile (· != 44) with
  | nil => exact Or.inl rfl
  | cons c r' =>
    rw [hr] at h
    have := h c (by simp)
    have : c = 44 := by simpa using this
    subst this
    exact Or.inr ⟨r', rfl⟩

theorem takeWhile_eq_of_shape {it x r'} (h : Shape it x) (hs : Stop r') :
    (it ++ r').takeWhile (· != 44) = it := by
  refine (takeWhile_append_stop (· != 44) it r' ?_ ?_).1
  · intro y hy
    have : y ≠ 44 := fun e => shape_not_mem_44 h (e ▸ hy)
    simpa using this
  · rcases hs with rfl | ⟨r'', rfl⟩
    · simp
    · intro c hc; simp at hc; subst hc; decide

theorem parseLoop_step (fuel : Nat) (c : UInt8) (t : List UInt8) (acc : List FieldRange) :
    parseLoop (fuel + 1) (c :: t) acc =
      match parseItem ((c :: t).takeWhile (· != 44)) with
      | none => none
      | some x =>
        match cont ((c :: t).dropWhile (· != 44)) with
        | none => some (x.denote :: acc).reverse
        | some r'' => parseLoop fuel r'' (x.denote :: acc) := by
  have hsplit := List.takeWhile_append_dropWhile (p := (· != 44)) (l := c :: t)
  have hstop := stop_dropWhile (c :: t)
  cases hp : parseItem ((c :: t).takeWhile (· != 44)) with
  | none =>
    simp only
    cases hl : parseLoop (fuel + 1) (c :: t) acc with
    | none => rfl
    | some res =>
      obtain ⟨b, r, f, r', h1, h2, h3⟩ := parseLoop_succ_inv hl
      obtain ⟨it, x, hs, hsh⟩ := shape_of_parse h1 h2 h3
      have := takeWhile_eq_of_shape hsh h3
      rw [← hs] at this
      rw [this, parseItem_of_shape hsh] at hp
      cases hp
  | some x =>
    simp only
    obtain ⟨b, r, h1, h2⟩ := parse_of_shape (shape_of_parseItem hp) hstop
    rw [hsplit] at h1
    exact parseLoop_succ_some h1 h2 hstop

/-- the parts `cutParse` maps `parseItem` over. -/
def P (s : List UInt8) : List (List UInt8) :=
  if (splitOn 44 s).length ≥ 2 && (splitOn 44 s).getLast? == some [] then (splitOn 44 s).dropLast
  else splitOn 44 s

theorem cutParse_eq (s : List UInt8) :
    cutParse s = if s.isEmpty then none else (P s).mapM parseItem := rfl

theorem splitFields_ne_singleton_nil {d : UInt8} {l : List UInt8} (h : l ≠ []) :
    splitFields d l ≠ [[]] := by
  intro hc
  have := join_splitFields d l
  rw [hc] at this
  exact h this.symm

theorem P_cases (s : List UInt8) :
    (s.dropWhile (· != 44) = [] ∧ P s = [s.takeWhile (· != 44)]) ∨
    (s.dropWhile (· != 44) = [44] ∧ P s = [s.takeWhile (· != 44)]) ∨
    (∃ r', r' ≠ [] ∧ s.dropWhile (· != 44) = 44 :: r' ∧ P s = s.takeWhile (· != 44) :: P r') := by
  have hE := splitFields_eq 44 s
  rcases stop_dropWhile s with h | ⟨r', h⟩
  · left
    rw [h] at hE
    refine ⟨h, ?_⟩
    simp [P, splitOn, hE]
  · rw [h] at hE
    simp only at hE
    by_cases hr : r' = []
    · subst hr
      right; left
      refine ⟨h, ?_⟩
      simp [P, splitOn, hE, splitFields]
    · right; right
      refine ⟨r', hr, h, ?_⟩
      have hne := splitFields_ne_singleton_nil (d := 44) hr
      have hnn := splitFields_ne_nil 44 r'
      unfold P splitOn
      rw [hE]
      generalize splitFields 44 r' = Q at hne hnn
      match Q, hne, hnn with
      | [q], hne, _ =>
        have : q ≠ [] := fun e => hne (by rw [e])
        simp [this]
      | q :: q2 :: Q', _, _ =>
        simp only [List.getLast?_cons_cons, List.dropLast_cons_cons, List.length_cons]
        have e1 : (decide (Q'.length + 1 + 1 + 1 ≥ 2)) = true := by simp
        have e2 : (decide (Q'.length + 1 + 1 ≥ 2)) = true := by simp
        rw [e1, e2]
        simp only [Bool.true_and]
        split <;> rfl

theorem parseLoop_eq : ∀ (fuel : Nat) (s : List UInt8) (acc : List FieldRange), s ≠ [] →
    s.length < fuel →
    parseLoop fuel s acc =
      ((P s).mapM parseItem).map (fun xs => acc.reverse ++ xs.map Item.denote) := by
  intro fuel
  induction fuel with
  | zero => intro s acc _ h; omega
  | succ fuel ih =>
    intro s acc hs hlen
    obtain ⟨c, t, rfl⟩ := List.exists_cons_of_ne_nil hs
    rw [parseLoop_step]
    have hsplit := List.takeWhile_append_dropWhile (p := (· != 44)) (l := c :: t)
    have hl := congrArg List.length hsplit
    rw [List.length_append] at hl
    have hPc := P_cases (c :: t)
    generalize (c :: t).takeWhile (· != 44) = it at *
    generalize (c :: t).dropWhile (· != 44) = rem at *
    cases hp : parseItem it with
    | none =>
      rcases hPc with ⟨_, hP⟩ | ⟨_, hP⟩ | ⟨r', _, _, hP⟩ <;>
        simp [hP, hp]
    | some x =>
      simp only
      rcases hPc with ⟨hr, hP⟩ | ⟨hr, hP⟩ | ⟨r', hr', hr, hP⟩
      · subst hr
        simp [hP, hp, cont]
      · subst hr
        have hf : 1 ≤ fuel := by simp at hl hlen; omega
        obtain ⟨fuel', rfl⟩ : ∃ k, fuel = k + 1 := ⟨fuel - 1, by omega⟩
        simp [hP, hp, cont, parseLoop]
      · subst hr
        simp only [cont]
        rw [ih r' _ hr' (by simp at hl hlen; omega), hP]
        simp only [List.mapM_cons, hp]
        cases List.mapM parseItem (P r') with
        | none => simp
        | some xs => simp

theorem parse_matches_cut_grammar' (s : List UInt8) :
    parseFields s = (cutParse s).map (·.map Item.denote) := by
  unfold parseFields
  rw [cutParse_eq]
  cases s with
  | nil => rfl
  | cons c t =>
    simp only [List.isEmpty_cons, Bool.false_eq_true, if_false]
    rw [parseLoop_eq _ _ _ (by simp) (by omega)]
    simp

end PV.Lemmas.Fields
