import PV.Model.Flatten
import PV.Spec.Flatten
namespace PV.Lemmas.Flatten
end PV.Lemmas.Flatten
