import PV.Model.Flatten
import PV.Spec.Flatten
namespace PV.Lemmas.Flatten
open PV.Flatten

/-- Unicode scalar value (same text as `PV.Props.C19.Scalar`). -/
def Scalar (c : Nat) : Prop := c < 0xD800 ∨ (0xE000 ≤ c ∧ c ≤ 0x10FFFF)
/-- BMP, non-surrogate. -/
def Ok (u : Nat) : Prop := u < 0xD800 ∨ (0xE000 ≤ u ∧ u < 0x10000)

theorem enc_eq : PV.Spec.Flatten.encode16 = PV.Flatten.encode16 := rfl

/-! ### main loop / ping-pong buffers -/

theorem stepLine_fst (fl : Flags) (lower nfkc : List Nat → List Nat) (rules : List Start)
    (isSpace : Nat → Bool) (b : Buffers) (line : List Nat) :
    (stepLine fl lower nfkc rules isSpace b line).1 =
      PV.Spec.Flatten.transform fl.lower fl.flatten fl.normalize lower (apply rules isSpace) nfkc line := by
  obtain ⟨l, f, n⟩ := fl
  obtain ⟨s0, s1, cur⟩ := b
  cases l <;> cases f <;> cases n <;> cases cur <;>
    simp [stepLine, Buffers.get, Buffers.set, PV.Spec.Flatten.transform]

theorem mainLoop_eq (fl : Flags) (lower nfkc : List Nat → List Nat) (rules : List Start)
    (isSpace : Nat → Bool) (lines : List (List Nat)) : ∀ b : Buffers,
    mainLoop fl lower nfkc rules isSpace b lines =
      lines.map (PV.Spec.Flatten.transform fl.lower fl.flatten fl.normalize lower (apply rules isSpace) nfkc) := by
  induction lines with
  | nil => intro b; rfl
  | cons l ls ih =>
    intro b
    show (stepLine fl lower nfkc rules isSpace b l).1 ::
        mainLoop fl lower nfkc rules isSpace (stepLine fl lower nfkc rules isSpace b l).2 ls = _
    rw [ih, stepLine_fst]; rfl

theorem transform_none (f g h : List Nat → List Nat) (line : List Nat) :
    PV.Spec.Flatten.transform false false false f g h line = line := rfl

/-! ### UTF-16 facts -/

theorem encode16_ok {c : Nat} (h : Ok c) : encode16 c = [c] := by
  unfold encode16; unfold Ok at h; split
  · omega
  · rfl

theorem flatMap_ok : ∀ (l : List Nat), (∀ u ∈ l, Ok u) → l.flatMap encode16 = l
  | [], _ => rfl
  | a :: l, h => by
    rw [List.flatMap_cons, encode16_ok (h a (by simp)), flatMap_ok l (fun u hu => h u (by simp [hu]))]
    rfl

theorem encode16_length_pos (c : Nat) : 0 < (encode16 c).length := by
  unfold encode16; split <;> simp

theorem encode16_length (c : Nat) : (encode16 c).length = u16Length c := by
  unfold encode16 u16Length; split <;> simp

theorem getD_append_len (P Q : List Nat) (k : Nat) :
    (P ++ Q).getD (P.length + k) 0 = Q.getD k 0 := by
  simp [List.getD_eq_getElem?_getD, List.getElem?_append_right]

theorem char32At_pair (P R : List Nat) (a b : Nat) (ha : isLead a = true) (hb : isTrail b = true) :
    char32At (P ++ (a :: b :: R)) P.length = combine a b := by
  unfold char32At
  have h0 := getD_append_len P (a :: b :: R) 0
  have h1 := getD_append_len P (a :: b :: R) 1
  simp only [Nat.add_zero] at h0
  simp only [h0, h1]
  have e0 : (a :: b :: R).getD 0 0 = a := by simp
  have e1 : (a :: b :: R).getD 1 0 = b := by simp
  have hlen : P.length + 1 < (P ++ (a :: b :: R)).length := by simp
  rw [e0, e1, ha, hb]
  simp only [hlen, decide_true, Bool.and_self, if_true]

theorem char32At_single (P R : List Nat) (a : Nat) (ha : isLead a = false) (hb : isTrail a = false) :
    char32At (P ++ (a :: R)) P.length = a := by
  unfold char32At
  have h0 := getD_append_len P (a :: R) 0
  simp only [Nat.add_zero] at h0
  simp only [h0]
  have e0 : (a :: R).getD 0 0 = a := by simp
  rw [e0, ha, hb]
  simp

theorem char32At_boundary (P R : List Nat) (c : Nat) (hc : Scalar c) :
    char32At (P ++ (encode16 c ++ R)) P.length = c := by
  unfold Scalar at hc
  unfold encode16
  by_cases h : c ≥ 0x10000
  · rw [if_pos h]
    have hl : isLead (0xD800 + (c - 0x10000) / 0x400) = true := by
      simp [isLead]; omega
    have ht : isTrail (0xDC00 + (c - 0x10000) % 0x400) = true := by
      simp [isTrail]; omega
    show char32At (P ++ (_ :: _ :: R)) P.length = c
    rw [char32At_pair P R _ _ hl ht]
    unfold combine; omega
  · rw [if_neg h]
    have hl : isLead c = false := by simp [isLead]; omega
    have ht : isTrail c = false := by simp [isTrail]; omega
    exact char32At_single P R c hl ht

/-! ### rule tables -/

theorem find?_congr' {α : Type} {p q : α → Bool} : ∀ {l : List α}, (∀ a ∈ l, p a = q a) →
    l.find? p = l.find? q
  | [], _ => rfl
  | a :: l, h => by
    have ha := h a (by simp)
    have ih := find?_congr' (l := l) (fun b hb => h b (by simp [hb]))
    simp only [List.find?_cons, ha, ih]

theorem bmpOnly_mem {rules : List Start} (hb : PV.Spec.Flatten.bmpOnly rules = true)
    {st : Start} (hst : st ∈ rules) :
    Ok st.c ∧ ∀ r ∈ st.longer, ∀ u ∈ r.fromSuffix, Ok u := by
  unfold PV.Spec.Flatten.bmpOnly at hb
  simp only [List.all_eq_true, Bool.and_eq_true, Bool.or_eq_true, decide_eq_true_eq] at hb
  obtain ⟨h1, h2⟩ := hb st hst
  refine ⟨h1, ?_⟩
  intro r hr u hu
  exact (h2 r hr).1 u hu

/-! ### unit-level matching = code-point-level matching -/

theorem take_flatMap_eq_iff : ∀ (suf rest : List Nat), (∀ u ∈ suf, Ok u) → (∀ c ∈ rest, Scalar c) →
    ((rest.flatMap encode16).take suf.length = suf ↔ rest.take suf.length = suf)
  | [], _, _, _ => by simp
  | s :: t, [], _, _ => by simp
  | s :: t, c :: rest, hsuf, hrest => by
    have hs : Ok s := hsuf s (by simp)
    have hc : Scalar c := hrest c (by simp)
    have ih := take_flatMap_eq_iff t rest (fun u hu => hsuf u (by simp [hu]))
      (fun d hd => hrest d (by simp [hd]))
    unfold Ok at hs; unfold Scalar at hc
    rw [List.flatMap_cons]
    by_cases h : c ≥ 0x10000
    · have : encode16 c = [0xD800 + (c - 0x10000) / 0x400, 0xDC00 + (c - 0x10000) % 0x400] := by
        unfold encode16; rw [if_pos h]
      rw [this]
      simp only [List.length_cons, List.cons_append, List.take_succ_cons, List.cons.injEq]
      constructor
      · rintro ⟨h1, _⟩; omega
      · rintro ⟨h1, _⟩; omega
    · have : encode16 c = [c] := by unfold encode16; rw [if_neg h]
      rw [this]
      simp only [List.length_cons, List.cons_append, List.nil_append, List.take_succ_cons,
        List.cons.injEq]
      rw [ih]

theorem ruleMatches_eq (isSpace : Nat → Bool) (P rest : List Nat) (c : Nat) (r : LongReplace)
    (hr : ∀ u ∈ r.fromSuffix, Ok u) (hs : ∀ c ∈ rest, Scalar c) :
    ruleMatches isSpace (P ++ (c :: rest.flatMap encode16)) P.length r =
      PV.Spec.Flatten.matchesCp isSpace rest r := by
  unfold ruleMatches PV.Spec.Flatten.matchesCp
  have hdrop : (P ++ (c :: rest.flatMap encode16)).drop (P.length + 1) = rest.flatMap encode16 := by
    simp
  simp only [hdrop]
  have hiff := take_flatMap_eq_iff r.fromSuffix rest hr hs
  by_cases hm : rest.take r.fromSuffix.length = r.fromSuffix
  · have hm' := hiff.mpr hm
    have hle : r.fromSuffix.length ≤ rest.length := by
      have := congrArg List.length hm
      simp only [List.length_take] at this
      omega
    have hsplit : rest.flatMap encode16 =
        r.fromSuffix ++ (rest.drop r.fromSuffix.length).flatMap encode16 := by
      conv => lhs; rw [← List.take_append_drop r.fromSuffix.length rest]
      rw [List.flatMap_append, hm, flatMap_ok _ hr]
    rw [hm, hm']
    simp only [beq_self_eq_true, Bool.true_and]
    cases hd : rest.drop r.fromSuffix.length with
    | nil =>
      have hlen : rest.length = r.fromSuffix.length := by
        have := congrArg List.length hd
        simp only [List.length_drop, List.length_nil] at this
        omega
      have hl2 : (P ++ (c :: rest.flatMap encode16)).length = P.length + 1 + r.fromSuffix.length := by
        rw [hsplit, hd]; simp; omega
      rw [beq_iff_eq.mpr hl2, beq_iff_eq.mpr hlen]
      simp only [Bool.or_true, Bool.true_or]
    | cons d ds =>
      have hlen : rest.length ≠ r.fromSuffix.length := by
        have := congrArg List.length hd
        simp only [List.length_drop, List.length_cons] at this
        omega
      have hd' : Scalar d := hs d (List.mem_of_mem_drop (hd ▸ List.mem_cons_self))
      have hinp : P ++ (c :: rest.flatMap encode16) =
          (P ++ c :: r.fromSuffix) ++ (encode16 d ++ ds.flatMap encode16) := by
        rw [hsplit, hd, List.flatMap_cons]; simp
      have hl2 : (P ++ (c :: rest.flatMap encode16)).length ≠ P.length + 1 + r.fromSuffix.length := by
        rw [hinp]
        have := encode16_length_pos d
        simp only [List.length_append, List.length_cons]
        omega
      have hE : P.length + 1 + r.fromSuffix.length = (P ++ c :: r.fromSuffix).length := by
        simp; omega
      have hch : char32At (P ++ (c :: rest.flatMap encode16)) (P.length + 1 + r.fromSuffix.length) = d := by
        rw [hinp, hE]; exact char32At_boundary _ _ d hd'
      rw [hch, beq_eq_false_iff_ne.mpr hl2, beq_eq_false_iff_ne.mpr hlen]
      rfl
  · have hm' : ¬ (rest.flatMap encode16).take r.fromSuffix.length = r.fromSuffix :=
      fun h => hm (hiff.mp h)
    rw [beq_eq_false_iff_ne.mpr hm, beq_eq_false_iff_ne.mpr hm', Bool.false_and, Bool.false_and]

/-! ### the loop invariant -/

theorem applyLoop_eq (rules : List Start) (hb : PV.Spec.Flatten.bmpOnly rules = true)
    (isSpace : Nat → Bool) :
    ∀ (fuel' fuel : Nat) (P rest out : List Nat), (∀ c ∈ rest, Scalar c) →
      (rest.flatMap encode16).length ≤ fuel → rest.length ≤ fuel' →
      applyLoop rules isSpace (P ++ rest.flatMap encode16) fuel P.length out =
        out ++ PV.Spec.Flatten.flattenSpec rules isSpace fuel' rest := by
  intro fuel'
  induction fuel' with
  | zero =>
    intro fuel P rest out _ _ hl
    have : rest = [] := List.eq_nil_of_length_eq_zero (by omega)
    subst this
    cases fuel <;> simp [applyLoop, PV.Spec.Flatten.flattenSpec]
  | succ fuel' ih =>
    intro fuel P rest out hs hf hl
    cases rest with
    | nil => cases fuel <;> simp [applyLoop, PV.Spec.Flatten.flattenSpec]
    | cons c rest =>
      have hc : Scalar c := hs c (by simp)
      have hs' : ∀ d ∈ rest, Scalar d := fun d hd => hs d (by simp [hd])
      have hpos := encode16_length_pos c
      rw [List.flatMap_cons, List.length_append] at hf
      cases fuel with
      | zero => omega
      | succ fuel =>
        have hi : ¬ P.length ≥ (P ++ (c :: rest).flatMap encode16).length := by
          rw [List.flatMap_cons]; simp only [List.length_append]; omega
        have hch : char32At (P ++ (c :: rest).flatMap encode16) P.length = c := by
          rw [List.flatMap_cons]; exact char32At_boundary _ _ c hc
        unfold applyLoop PV.Spec.Flatten.flattenSpec
        rw [if_neg hi]
        simp only [hch]
        cases hfind : rules.find? (fun x => x.c == c) with
        | none =>
          simp only []
          have hP : P.length + u16Length c = (P ++ encode16 c).length := by
            rw [List.length_append, encode16_length]
          have hinp : P ++ (c :: rest).flatMap encode16 = (P ++ encode16 c) ++ rest.flatMap encode16 := by
            rw [List.flatMap_cons, List.append_assoc]
          rw [hP, hinp, ih fuel (P ++ encode16 c) rest (out ++ encode16 c) hs' (by omega) (by simpa using hl)]
          rw [enc_eq, List.append_assoc]
        | some st =>
          simp only []
          have hmem := List.mem_of_find?_eq_some hfind
          have hceq : st.c = c := by simpa using List.find?_some hfind
          obtain ⟨hok, hlong⟩ := bmpOnly_mem hb hmem
          rw [hceq] at hok
          have henc : encode16 c = [c] := encode16_ok hok
          have hinp0 : P ++ (c :: rest).flatMap encode16 = P ++ (c :: rest.flatMap encode16) := by
            rw [List.flatMap_cons, henc]; rfl
          rw [henc] at hf
          have hcongr : st.longer.find? (ruleMatches isSpace (P ++ (c :: rest).flatMap encode16) P.length) =
              st.longer.find? (PV.Spec.Flatten.matchesCp isSpace rest) := by
            apply find?_congr'
            intro r hr
            rw [hinp0]
            exact ruleMatches_eq isSpace P rest c r (hlong r hr) hs'
          rw [hcongr]
          cases hfr : st.longer.find? (PV.Spec.Flatten.matchesCp isSpace rest) with
          | none =>
            simp only []
            have hP : P.length + 1 = (P ++ [c]).length := by simp
            have hinp : P ++ (c :: rest).flatMap encode16 = (P ++ [c]) ++ rest.flatMap encode16 := by
              rw [hinp0]; simp
            rw [hP, hinp, ih fuel (P ++ [c]) rest (out ++ st.character) hs'
              (by simp only [List.length_cons, List.length_nil] at hf; omega) (by simpa using hl)]
            rw [List.append_assoc]
          | some r =>
            simp only []
            have hrm := List.mem_of_find?_eq_some hfr
            have hmt : PV.Spec.Flatten.matchesCp isSpace rest r = true := List.find?_some hfr
            have hrok := hlong r hrm
            unfold PV.Spec.Flatten.matchesCp at hmt
            simp only [Bool.and_eq_true, beq_iff_eq] at hmt
            have htake := hmt.1
            have hsplit : rest.flatMap encode16 =
                r.fromSuffix ++ (rest.drop r.fromSuffix.length).flatMap encode16 := by
              conv => lhs; rw [← List.take_append_drop r.fromSuffix.length rest]
              rw [List.flatMap_append, htake, flatMap_ok _ hrok]
            have hP : P.length + r.fromSuffix.length + 1 = (P ++ c :: r.fromSuffix).length := by
              simp only [List.length_append, List.length_cons]; omega
            have hinp : P ++ (c :: rest).flatMap encode16 =
                (P ++ c :: r.fromSuffix) ++ (rest.drop r.fromSuffix.length).flatMap encode16 := by
              rw [hinp0, hsplit]; simp
            have hfl : ((rest.drop r.fromSuffix.length).flatMap encode16).length ≤ fuel := by
              have := congrArg List.length hsplit
              simp only [List.length_append] at this
              simp only [List.length_cons, List.length_nil] at hf
              omega
            rw [hP, hinp, ih fuel (P ++ c :: r.fromSuffix) (rest.drop r.fromSuffix.length) (out ++ r.to)
              (fun d hd => hs' d (List.mem_of_mem_drop hd)) hfl
              (by simp only [List.length_drop, List.length_cons] at *; omega)]
            rw [List.append_assoc]

theorem flattenSpec_no_rule (rules : List Start) (isSpace : Nat → Bool) :
    ∀ (fuel : Nat) (cps : List Nat), cps.length ≤ fuel → (∀ c ∈ cps, ∀ st ∈ rules, st.c ≠ c) →
      PV.Spec.Flatten.flattenSpec rules isSpace fuel cps = cps.flatMap encode16
  | 0, cps, hl, _ => by
    have : cps = [] := List.eq_nil_of_length_eq_zero (by omega)
    subst this; simp [PV.Spec.Flatten.flattenSpec]
  | fuel + 1, [], _, _ => by simp [PV.Spec.Flatten.flattenSpec]
  | fuel + 1, c :: rest, hl, hn => by
    have hnone : rules.find? (fun x => x.c == c) = none := by
      rw [List.find?_eq_none]
      intro st hst
      simpa using hn c (by simp) st hst
    unfold PV.Spec.Flatten.flattenSpec
    rw [hnone]
    simp only []
    rw [flattenSpec_no_rule rules isSpace fuel rest (by simpa using hl)
      (fun d hd => hn d (by simp [hd])), enc_eq, List.flatMap_cons]

end PV.Lemmas.Flatten
