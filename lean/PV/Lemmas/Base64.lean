import PV.Model.Base64
import PV.Model.Docenc
import PV.Spec.Base64
import PV.Spec.Records
namespace PV.Lemmas.Base64
end PV.Lemmas.Base64
