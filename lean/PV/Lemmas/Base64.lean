import PV.Model.Base64
import PV.Model.Docenc
import PV.Spec.Base64
import PV.Spec.Records
/-
Helper lemmas for C09 (base64 codec, docenc round trip, index selection).
-/
set_option linter.unusedVariables false
namespace PV.Lemmas.Base64
open PV.Base64 PV.Spec.Base64 PV.Spec.Records

/-! ## tables -/

theorem tbl_alpha_fin : ∀ i : Fin 64, tbl i.val = alpha i.val := by decide +kernel
theorem tbl_alpha (i : Nat) (h : i < 64) : tbl i = alpha i := tbl_alpha_fin ⟨i, h⟩

theorem inv_foreign_fin : ∀ n : Fin 256, inAlphabet (UInt8.ofNat n.val) = false → inv (UInt8.ofNat n.val) = -1 := by
  decide +kernel
theorem inv_foreign (b : UInt8) (h : inAlphabet b = false) : inv b = -1 := by
  have := inv_foreign_fin ⟨b.toNat, UInt8.toNat_lt b⟩
  simp only [UInt8.ofNat_toNat] at this
  exact this h
theorem inv_alpha_fin : ∀ i : Fin 64, inv (alpha i.val) = (i.val : Int) := by decide +kernel
theorem inv_alpha (i : Nat) (h : i < 64) : inv (alpha i) = (i : Int) := inv_alpha_fin ⟨i, h⟩
theorem alpha_inAlphabet_fin : ∀ i : Fin 64, inAlphabet (alpha i.val) = true := by decide +kernel
theorem alpha_inAlphabet (i : Nat) (h : i < 64) : inAlphabet (alpha i) = true := alpha_inAlphabet_fin ⟨i, h⟩
theorem inAlphabet_inv_fin : ∀ n : Fin 256, inAlphabet (UInt8.ofNat n.val) = true → inv (UInt8.ofNat n.val) ≠ -1 := by
  decide +kernel
theorem inAlphabet_inv (b : UInt8) (h : inAlphabet b = true) : inv b ≠ -1 := by
  have := inAlphabet_inv_fin ⟨b.toNat, UInt8.toNat_lt b⟩
  simp only [UInt8.ofNat_toNat] at this
  exact this h
theorem inAlphabet_ne_fin : ∀ n : Fin 256, inAlphabet (UInt8.ofNat n.val) = true →
    UInt8.ofNat n.val ≠ 61 ∧ UInt8.ofNat n.val ≠ 10 ∧ UInt8.ofNat n.val ≠ 13 := by
  decide +kernel
theorem inAlphabet_ne (b : UInt8) (h : inAlphabet b = true) : b ≠ 61 ∧ b ≠ 10 ∧ b ≠ 13 := by
  have := inAlphabet_ne_fin ⟨b.toNat, UInt8.toNat_lt b⟩
  simp only [UInt8.ofNat_toNat] at this
  exact this h


/-! ## encoder -/


theorem shrAnd_lt (v : Int) (sh m : Nat) (hm : 0 < m) : shrAnd v sh m < m := by
  unfold shrAnd
  have : (v / ((2 ^ sh : Nat) : Int)) % (m : Int) < m := Int.emod_lt_of_pos _ (by omega)
  have : 0 ≤ (v / ((2 ^ sh : Nat) : Int)) % (m : Int) := Int.emod_nonneg _ (by omega)
  omega

theorem encByte_m6 (s : EncSt) (c : UInt8) (h : s.valb = -6) :
    encByte s c = { val := wrap32 (s.val * 256 + c.toNat), valb := -4,
                    out := tbl (shrAnd (wrap32 (s.val * 256 + c.toNat)) 2 64) :: s.out } := by
  simp [encByte, h, encDrain, encDrainF]

theorem encByte_m4 (s : EncSt) (c : UInt8) (h : s.valb = -4) :
    encByte s c = { val := wrap32 (s.val * 256 + c.toNat), valb := -2,
                    out := tbl (shrAnd (wrap32 (s.val * 256 + c.toNat)) 4 64) :: s.out } := by
  simp [encByte, h, encDrain, encDrainF]

theorem encByte_m2 (s : EncSt) (c : UInt8) (h : s.valb = -2) :
    encByte s c = { val := wrap32 (s.val * 256 + c.toNat), valb := -6,
                    out := tbl (shrAnd (wrap32 (s.val * 256 + c.toNat)) 0 64) ::
                           tbl (shrAnd (wrap32 (s.val * 256 + c.toNat)) 6 64) :: s.out } := by
  simp [encByte, h, encDrain, encDrainF]

theorem sh1 (x : Int) (a b c : Nat) (ha : a < 256) (hb : b < 256) (hc : c < 256) :
    shrAnd (wrap32 (x * 256 + a)) 2 64 = (a * 65536 + b * 256 + c) / 262144 := by
  unfold shrAnd wrap32; simp only [Nat.reducePow]; omega


theorem sh2 (x : Int) (a b c : Nat) (ha : a < 256) (hb : b < 256) (hc : c < 256) :
    shrAnd (wrap32 (wrap32 (x * 256 + a) * 256 + b)) 4 64 = (a * 65536 + b * 256 + c) / 4096 % 64 := by
  unfold shrAnd wrap32; simp only [Nat.reducePow]; omega

theorem sh3 (x : Int) (a b c : Nat) (ha : a < 256) (hb : b < 256) (hc : c < 256) :
    shrAnd (wrap32 (wrap32 (wrap32 (x * 256 + a) * 256 + b) * 256 + c)) 6 64 = (a * 65536 + b * 256 + c) / 64 % 64 := by
  unfold shrAnd wrap32; simp only [Nat.reducePow]; omega

theorem sh4 (x : Int) (a b c : Nat) (ha : a < 256) (hb : b < 256) (hc : c < 256) :
    shrAnd (wrap32 (wrap32 (wrap32 (x * 256 + a) * 256 + b) * 256 + c)) 0 64 = (a * 65536 + b * 256 + c) % 64 := by
  unfold shrAnd wrap32; simp only [Nat.reducePow]; omega

theorem sh2' (x : Int) (a : Nat) (ha : a < 256) :
    shrAnd (wrap32 (wrap32 (x * 256 + a) * 256)) 4 64 = (a * 65536) / 4096 % 64 := by
  unfold shrAnd wrap32; simp only [Nat.reducePow]; omega

theorem sh3' (x : Int) (a b : Nat) (ha : a < 256) (hb : b < 256) :
    shrAnd (wrap32 (wrap32 (wrap32 (x * 256 + a) * 256 + b) * 256)) 6 64 = (a * 65536 + b * 256) / 64 % 64 := by
  unfold shrAnd wrap32; simp only [Nat.reducePow]; omega

theorem enc3 (s : EncSt) (a b c : UInt8) (h : s.valb = -6) :
    encByte (encByte (encByte s a) b) c =
      { val := wrap32 (wrap32 (wrap32 (s.val * 256 + a.toNat) * 256 + b.toNat) * 256 + c.toNat), valb := -6,
        out := alpha ((a.toNat * 65536 + b.toNat * 256 + c.toNat) % 64) ::
               alpha ((a.toNat * 65536 + b.toNat * 256 + c.toNat) / 64 % 64) ::
               alpha ((a.toNat * 65536 + b.toNat * 256 + c.toNat) / 4096 % 64) ::
               alpha ((a.toNat * 65536 + b.toNat * 256 + c.toNat) / 262144) :: s.out } := by
  have ha := UInt8.toNat_lt a
  have hb := UInt8.toNat_lt b
  have hc := UInt8.toNat_lt c
  have e1 := encByte_m6 s a h
  have e2 := encByte_m4 (encByte s a) b (by rw [e1])
  have e3 := encByte_m2 (encByte (encByte s a) b) c (by rw [e2])
  rw [e3, e2, e1]
  simp only
  rw [tbl_alpha _ (shrAnd_lt _ _ _ (by decide)), tbl_alpha _ (shrAnd_lt _ _ _ (by decide)),
    tbl_alpha _ (shrAnd_lt _ _ _ (by decide)), tbl_alpha _ (shrAnd_lt _ _ _ (by decide))]
  rw [sh4 _ _ _ _ ha hb hc, sh3 _ _ _ _ ha hb hc, sh2 _ _ _ c.toNat ha hb hc, sh1 _ _ b.toNat c.toNat ha hb hc]

def encFinish (s : EncSt) : List UInt8 :=
  (encPad (if s.valb > -6 then tbl (shrAnd (wrap32 (s.val * 256)) (s.valb + 8).toNat 64) :: s.out
    else s.out)).reverse

theorem encode_def (bs : List UInt8) : encode bs = encFinish (bs.foldl encByte ⟨0, -6, []⟩) := rfl

theorem encPad_0 (out : List UInt8) (h : out.length % 4 = 0) : encPad out = out := by
  simp [encPad, h]
theorem encPad_2 (out : List UInt8) (h : out.length % 4 = 2) : encPad out = 61 :: 61 :: out := by
  simp [encPad, h]
theorem encPad_3 (out : List UInt8) (h : out.length % 4 = 3) : encPad out = 61 :: out := by
  simp [encPad, h]

theorem enc_fold (bs : List UInt8) : ∀ s : EncSt, s.valb = -6 → s.out.length % 4 = 0 →
    encFinish (bs.foldl encByte s) = s.out.reverse ++ rfc4648 bs := by
  fun_induction rfc4648 bs with
  | case1 a b c r n ih =>
    intro s h hl
    simp only [List.foldl_cons]
    rw [enc3 s a b c h, ih _ rfl (by simp only [List.length_cons]; omega)]
    simp [n]
  | case2 a b n =>
    intro s h hl
    have ha := UInt8.toNat_lt a
    have hb := UInt8.toNat_lt b
    simp only [List.foldl_cons, List.foldl_nil]
    have e1 := encByte_m6 s a h
    have e2 := encByte_m4 (encByte s a) b (by rw [e1])
    rw [e2, e1]
    simp only [encFinish]
    simp only [show ((-2 : Int) > -6) = True from by decide, if_true, show ((-2 : Int) + 8).toNat = 6 from rfl]
    rw [encPad_3 _ (by simp only [List.length_cons]; omega)]
    rw [tbl_alpha _ (shrAnd_lt _ _ _ (by decide)), tbl_alpha _ (shrAnd_lt _ _ _ (by decide)),
      tbl_alpha _ (shrAnd_lt _ _ _ (by decide))]
    rw [sh3' _ _ _ ha hb, sh2 _ _ _ 0 ha hb (by decide), sh1 _ _ b.toNat 0 ha hb (by decide)]
    simp [n, pad]
  | case3 a n =>
    intro s h hl
    have ha := UInt8.toNat_lt a
    simp only [List.foldl_cons, List.foldl_nil]
    rw [encByte_m6 s a h]
    simp only [encFinish]
    simp only [show ((-4 : Int) > -6) = True from by decide, if_true, show ((-4 : Int) + 8).toNat = 4 from rfl]
    rw [encPad_2 _ (by simp only [List.length_cons]; omega)]
    rw [tbl_alpha _ (shrAnd_lt _ _ _ (by decide)), tbl_alpha _ (shrAnd_lt _ _ _ (by decide))]
    rw [sh2' _ _ ha, sh1 _ _ 0 0 ha (by decide) (by decide)]
    simp [n, pad]
  | case4 =>
    intro s h hl
    simp [encFinish, h, encPad_0 _ hl]


theorem encode_eq (bs : List UInt8) : encode bs = rfc4648 bs := by
  rw [encode_def]
  simpa using enc_fold bs ⟨0, -6, []⟩ rfl rfl

/-! ## decoder -/

theorem alpha_ne_pad (i : Nat) (h : i < 64) : (alpha i == 61) = false := by
  have := (inAlphabet_ne _ (alpha_inAlphabet i h)).1
  simpa using this

theorem decLoop_lt (i : Nat) (h : i < 64) (r : List UInt8) (val valb : Int) (out : List UInt8)
    (hv : valb + 6 < 0) :
    decLoop (alpha i :: r) val valb out = decLoop r (wrap32 (val * 64 + i)) (valb + 6) out := by
  have h2 : ¬ (valb + 6 ≥ 0) := by omega
  simp [decLoop, alpha_ne_pad i h, inv_alpha i h, h2]

theorem decLoop_ge (i : Nat) (h : i < 64) (r : List UInt8) (val valb : Int) (out : List UInt8)
    (hv : valb + 6 ≥ 0) :
    decLoop (alpha i :: r) val valb out =
      decLoop r (wrap32 (val * 64 + i)) (valb + 6 - 8)
        (UInt8.ofNat (shrAnd (wrap32 (val * 64 + i)) (valb + 6).toNat 256) :: out) := by
  simp [decLoop, alpha_ne_pad i h, inv_alpha i h, hv]


theorem dec2 (i0 i1 : Nat) (h0 : i0 < 64) (h1 : i1 < 64) (r : List UInt8) (val : Int) (out : List UInt8) :
    decLoop (alpha i0 :: alpha i1 :: r) val (-8) out =
      decLoop r (wrap32 (wrap32 (val * 64 + i0) * 64 + i1)) (-4)
        (UInt8.ofNat (shrAnd (wrap32 (wrap32 (val * 64 + i0) * 64 + i1)) 4 256) :: out) := by
  rw [decLoop_lt _ h0 _ _ _ _ (by decide), decLoop_ge _ h1 _ _ _ _ (by decide)]
  rfl

theorem dec3 (i0 i1 i2 : Nat) (h0 : i0 < 64) (h1 : i1 < 64) (h2 : i2 < 64) (r : List UInt8) (val : Int) (out : List UInt8) :
    decLoop (alpha i0 :: alpha i1 :: alpha i2 :: r) val (-8) out =
      decLoop r (wrap32 (wrap32 (wrap32 (val * 64 + i0) * 64 + i1) * 64 + i2)) (-6)
        (UInt8.ofNat (shrAnd (wrap32 (wrap32 (wrap32 (val * 64 + i0) * 64 + i1) * 64 + i2)) 2 256) ::
         UInt8.ofNat (shrAnd (wrap32 (wrap32 (val * 64 + i0) * 64 + i1)) 4 256) :: out) := by
  rw [dec2 _ _ h0 h1, decLoop_ge _ h2 _ _ _ _ (by decide)]
  rfl

theorem dec4 (i0 i1 i2 i3 : Nat) (h0 : i0 < 64) (h1 : i1 < 64) (h2 : i2 < 64) (h3 : i3 < 64)
    (r : List UInt8) (val : Int) (out : List UInt8) :
    decLoop (alpha i0 :: alpha i1 :: alpha i2 :: alpha i3 :: r) val (-8) out =
      decLoop r (wrap32 (wrap32 (wrap32 (wrap32 (val * 64 + i0) * 64 + i1) * 64 + i2) * 64 + i3)) (-8)
        (UInt8.ofNat (shrAnd (wrap32 (wrap32 (wrap32 (wrap32 (val * 64 + i0) * 64 + i1) * 64 + i2) * 64 + i3)) 0 256) ::
         UInt8.ofNat (shrAnd (wrap32 (wrap32 (wrap32 (val * 64 + i0) * 64 + i1) * 64 + i2)) 2 256) ::
         UInt8.ofNat (shrAnd (wrap32 (wrap32 (val * 64 + i0) * 64 + i1)) 4 256) :: out) := by
  rw [dec3 _ _ _ h0 h1 h2, decLoop_ge _ h3 _ _ _ _ (by decide)]
  rfl

theorem d1 (x : Int) (a b c : Nat) (ha : a < 256) (hb : b < 256) (hc : c < 256) :
    shrAnd (wrap32 (wrap32 (x * 64 + ((a * 65536 + b * 256 + c) / 262144 : Nat)) * 64 +
      ((a * 65536 + b * 256 + c) / 4096 % 64 : Nat))) 4 256 = a := by
  unfold shrAnd wrap32; simp only [Nat.reducePow]; omega

theorem d2 (x : Int) (a b c : Nat) (ha : a < 256) (hb : b < 256) (hc : c < 256) :
    shrAnd (wrap32 (wrap32 (wrap32 (x * 64 + ((a * 65536 + b * 256 + c) / 262144 : Nat)) * 64 +
      ((a * 65536 + b * 256 + c) / 4096 % 64 : Nat)) * 64 + ((a * 65536 + b * 256 + c) / 64 % 64 : Nat))) 2 256 = b := by
  unfold shrAnd wrap32; simp only [Nat.reducePow]; omega

theorem d3 (x : Int) (a b c : Nat) (ha : a < 256) (hb : b < 256) (hc : c < 256) :
    shrAnd (wrap32 (wrap32 (wrap32 (wrap32 (x * 64 + ((a * 65536 + b * 256 + c) / 262144 : Nat)) * 64 +
      ((a * 65536 + b * 256 + c) / 4096 % 64 : Nat)) * 64 + ((a * 65536 + b * 256 + c) / 64 % 64 : Nat)) * 64 +
      ((a * 65536 + b * 256 + c) % 64 : Nat))) 0 256 = c := by
  unfold shrAnd wrap32; simp only [Nat.reducePow]; omega


/-- the symbols of the RFC 4648 encoding, without padding -/
def syms : List UInt8 → List UInt8
  | a :: b :: c :: r =>
    alpha ((a.toNat * 65536 + b.toNat * 256 + c.toNat) / 262144) ::
    alpha ((a.toNat * 65536 + b.toNat * 256 + c.toNat) / 4096 % 64) ::
    alpha ((a.toNat * 65536 + b.toNat * 256 + c.toNat) / 64 % 64) ::
    alpha ((a.toNat * 65536 + b.toNat * 256 + c.toNat) % 64) :: syms r
  | [a, b] =>
    [alpha ((a.toNat * 65536 + b.toNat * 256 + 0) / 262144),
     alpha ((a.toNat * 65536 + b.toNat * 256 + 0) / 4096 % 64),
     alpha ((a.toNat * 65536 + b.toNat * 256 + 0) / 64 % 64)]
  | [a] =>
    [alpha ((a.toNat * 65536 + 0 * 256 + 0) / 262144), alpha ((a.toNat * 65536 + 0 * 256 + 0) / 4096 % 64)]
  | [] => []

def npad : List UInt8 → Nat
  | _ :: _ :: _ :: r => npad r
  | [_, _] => 1
  | [_] => 2
  | [] => 0

theorem rfc_eq_syms (bs : List UInt8) : rfc4648 bs = syms bs ++ List.replicate (npad bs) 61 := by
  fun_induction rfc4648 bs with
  | case1 a b c r n ih => simp [syms, npad, ih, n]
  | case2 a b n => simp [syms, npad, n, pad]
  | case3 a n => simp [syms, npad, n, pad, List.replicate]
  | case4 => simp [syms, npad]

theorem syms_alpha (bs : List UInt8) : ∀ x ∈ syms bs, inAlphabet x = true := by
  fun_induction syms bs with
  | case1 a b c r ih =>
    have ha := UInt8.toNat_lt a
    have hb := UInt8.toNat_lt b
    have hc := UInt8.toNat_lt c
    intro x hx
    simp only [List.mem_cons] at hx
    rcases hx with rfl | rfl | rfl | rfl | hx
    · exact alpha_inAlphabet _ (by omega)
    · exact alpha_inAlphabet _ (by omega)
    · exact alpha_inAlphabet _ (by omega)
    · exact alpha_inAlphabet _ (by omega)
    · exact ih x hx
  | case2 a b =>
    have ha := UInt8.toNat_lt a
    have hb := UInt8.toNat_lt b
    intro x hx
    simp only [List.mem_cons, List.not_mem_nil, or_false] at hx
    rcases hx with rfl | rfl | rfl
    · exact alpha_inAlphabet _ (by omega)
    · exact alpha_inAlphabet _ (by omega)
    · exact alpha_inAlphabet _ (by omega)
  | case3 a =>
    have ha := UInt8.toNat_lt a
    intro x hx
    simp only [List.mem_cons, List.not_mem_nil, or_false] at hx
    rcases hx with rfl | rfl
    · exact alpha_inAlphabet _ (by omega)
    · exact alpha_inAlphabet _ (by omega)
  | case4 => intro x hx; cases hx

theorem npad_le (bs : List UInt8) : npad bs ≤ (syms bs).length := by
  fun_induction syms bs <;> simp [npad] <;> omega

theorem dec_syms (bs : List UInt8) : ∀ (rest : List UInt8) (val : Int) (out : List UInt8),
    (∀ v vb o, decLoop rest v vb o = .ok o.reverse) →
    decLoop (syms bs ++ rest) val (-8) out = .ok (out.reverse ++ bs) := by
  fun_induction syms bs with
  | case1 a b c r ih =>
    intro rest val out hr
    have ha := UInt8.toNat_lt a
    have hb := UInt8.toNat_lt b
    have hc := UInt8.toNat_lt c
    simp only [List.cons_append]
    rw [dec4 _ _ _ _ (by omega) (by omega) (by omega) (by omega), ih _ _ _ hr]
    rw [d1 _ _ _ _ ha hb hc, d2 _ _ _ _ ha hb hc, d3 _ _ _ _ ha hb hc]
    simp
  | case2 a b =>
    intro rest val out hr
    have ha := UInt8.toNat_lt a
    have hb := UInt8.toNat_lt b
    simp only [List.cons_append, List.nil_append]
    rw [dec3 _ _ _ (by omega) (by omega) (by omega), hr]
    rw [d1 _ _ _ _ ha hb (by decide), d2 _ _ _ _ ha hb (by decide)]
    simp
  | case3 a =>
    intro rest val out hr
    have ha := UInt8.toNat_lt a
    simp only [List.cons_append, List.nil_append]
    rw [dec2 _ _ (by omega) (by omega), hr]
    rw [d1 _ _ _ _ ha (by decide) (by decide)]
    simp
  | case4 =>
    intro rest val out hr
    simp [hr]


theorem decLoop_pads (k : Nat) (v vb : Int) (o : List UInt8) :
    decLoop (List.replicate k 61) v vb o = .ok o.reverse := by
  cases k <;> simp [decLoop, List.replicate]

theorem takeWhile_none {α : Type} (p : α → Bool) (l : List α) (h : ∀ x ∈ l, p x = false) :
    l.takeWhile p = [] := by
  cases l with
  | nil => rfl
  | cons a r => simp [List.takeWhile, h a (by simp)]

theorem takeWhile_rev_nopad (l : List UInt8) (h : ∀ x ∈ l, x ≠ 61) :
    l.reverse.takeWhile (· == 61) = [] :=
  takeWhile_none _ _ (fun x hx => by simpa using h x (by simpa using hx))

theorem dropWhile_rev_nopad (l : List UInt8) (h : ∀ x ∈ l, x ≠ 61) :
    l.reverse.dropWhile (· == 61) = l.reverse := by
  have := List.takeWhile_append_dropWhile (p := (· == (61 : UInt8))) (l := l.reverse)
  rw [takeWhile_rev_nopad l h] at this
  simpa using this

theorem countPadding_app (l : List UInt8) (k : Nat) (h : ∀ x ∈ l, x ≠ 61) :
    countPadding (l ++ List.replicate k 61) = k := by
  unfold countPadding
  rw [List.reverse_append, List.reverse_replicate, List.takeWhile_append_of_pos (by simp),
    takeWhile_rev_nopad l h]
  simp

theorem stripPad_app (l : List UInt8) (k : Nat) (h : ∀ x ∈ l, x ≠ 61) :
    stripPad (l ++ List.replicate k 61) = l := by
  unfold stripPad
  rw [List.reverse_append, List.reverse_replicate, List.dropWhile_append_of_pos (by simp [pad]),
    show (fun x : UInt8 => x == pad) = (· == 61) from rfl, dropWhile_rev_nopad l h]
  simp

theorem syms_ne_pad (bs : List UInt8) : ∀ x ∈ syms bs, x ≠ 61 :=
  fun x hx => (inAlphabet_ne x (syms_alpha bs x hx)).1

theorem decode_rfc (bs : List UInt8) : decode (rfc4648 bs) = .ok bs := by
  rw [rfc_eq_syms]
  unfold decode
  rw [countPadding_app _ _ (syms_ne_pad bs)]
  have := npad_le bs
  rw [if_neg (by simp only [List.length_append, List.length_replicate]; omega)]
  simpa using dec_syms bs (List.replicate (npad bs) 61) 0 [] (decLoop_pads _)

theorem decode_rfc_stripped (bs : List UInt8) : decode (stripPad (rfc4648 bs)) = .ok bs := by
  rw [rfc_eq_syms, stripPad_app _ _ (syms_ne_pad bs)]
  unfold decode
  have := countPadding_app (syms bs) 0 (syms_ne_pad bs)
  simp only [List.replicate_zero, List.append_nil] at this
  rw [this, if_neg (by omega)]
  simpa using dec_syms bs [] 0 [] (decLoop_pads 0)


/-! ## foreign bytes / alphabet-only text -/

theorem decLoop_foreign (s : List UInt8) : ∀ (val valb : Int) (out : List UInt8),
    (∃ b ∈ s.takeWhile (· != 61), inAlphabet b = false) → ∀ o, decLoop s val valb out ≠ .ok o := by
  induction s with
  | nil => intro val valb out h; simp at h
  | cons c r ih =>
    intro val valb out h o
    by_cases hc : c = 61
    · subst hc; simp [List.takeWhile] at h
    · have hc' : (c != 61) = true := by simpa using hc
      have hc'' : (c == 61) = false := by simpa using hc
      simp only [List.takeWhile_cons, hc', if_true] at h
      obtain ⟨b, hb, hf⟩ := h
      rw [decLoop]
      simp only [hc'', Bool.false_eq_true, if_false]
      by_cases hi : inv c = -1
      · simp [hi]
      · have hi' : (inv c == -1) = false := by simpa using hi
        simp only [hi', Bool.false_eq_true, if_false]
        have hbr : ∃ b ∈ r.takeWhile (· != 61), inAlphabet b = false := by
          rcases List.mem_cons.mp hb with rfl | hb
          · exact absurd (inv_foreign _ hf) hi
          · exact ⟨b, hb, hf⟩
        split
        · exact ih _ _ _ hbr o
        · exact ih _ _ _ hbr o

theorem decLoop_alpha (s : List UInt8) : ∀ (val valb : Int) (out : List UInt8),
    (∀ b ∈ s.takeWhile (· != 61), inAlphabet b = true) → ∃ o, decLoop s val valb out = .ok o := by
  induction s with
  | nil => intro val valb out h; exact ⟨out.reverse, by simp [decLoop]⟩
  | cons c r ih =>
    intro val valb out h
    by_cases hc : c = 61
    · subst hc; exact ⟨out.reverse, by simp [decLoop]⟩
    · have hc' : (c != 61) = true := by simpa using hc
      have hc'' : (c == 61) = false := by simpa using hc
      simp only [List.takeWhile_cons, hc', if_true] at h
      have hi : inv c ≠ -1 := inAlphabet_inv c (h c (by simp))
      have hi' : (inv c == -1) = false := by simpa using hi
      rw [decLoop]
      simp only [hc'', hi', Bool.false_eq_true, if_false]
      have hr : ∀ b ∈ r.takeWhile (· != 61), inAlphabet b = true := fun b hb => h b (List.mem_cons_of_mem _ hb)
      split
      · exact ih _ _ _ hr
      · exact ih _ _ _ hr


/-! ## records and docenc -/

theorem splitGo_record (delim : UInt8) (sc : Bool) (l : List UInt8) (h : delim ∉ l) :
    ∀ (rest cur : List UInt8), splitGo delim sc (l ++ delim :: rest) cur =
      stripOneCr sc (cur.reverse ++ l) :: splitGo delim sc rest [] := by
  induction l with
  | nil => intro rest cur; simp [splitGo]
  | cons a l ih =>
    intro rest cur
    have h' : delim ≠ a ∧ delim ∉ l := by simpa using h
    have ha : (a == delim) = false := by simpa using (Ne.symm h'.1)
    simp only [List.cons_append, splitGo, ha, Bool.false_eq_true, if_false]
    rw [ih h'.2]
    simp

theorem splitRecords_flatMap (delim : UInt8) (sc : Bool) (rs : List (List UInt8))
    (h : ∀ r ∈ rs, delim ∉ r) :
    splitRecords delim sc (rs.flatMap (· ++ [delim])) = rs.map (stripOneCr sc) := by
  unfold splitRecords
  induction rs with
  | nil => simp [splitGo]
  | cons r rs ih =>
    simp only [List.flatMap_cons, List.append_assoc, List.singleton_append, List.map_cons]
    rw [splitGo_record delim sc r (h r (by simp)), ih (fun r' hr' => h r' (List.mem_cons_of_mem _ hr'))]
    simp

theorem stripOneCr_false (r : List UInt8) : stripOneCr false r = r := by simp [stripOneCr]

theorem stripOneCr_true (r : List UInt8) (h : (13 : UInt8) ∉ r) : stripOneCr true r = r := by
  unfold stripOneCr
  rw [if_neg]
  intro hh
  simp only [Bool.true_and, beq_iff_eq] at hh
  exact h (List.mem_of_getLast? hh)

theorem encode_chars (d : List UInt8) : ∀ x ∈ encode d, x ≠ 10 ∧ x ≠ 13 := by
  rw [encode_eq, rfc_eq_syms]
  intro x hx
  rcases List.mem_append.mp hx with hx | hx
  · exact (inAlphabet_ne x (syms_alpha d x hx)).2
  · have := List.eq_of_mem_replicate hx
    subst this
    decide

theorem decode_encode' (bs : List UInt8) : decode (encode bs) = .ok bs := by
  rw [encode_eq]; exact decode_rfc bs

theorem split_encoded (ds : List (List UInt8)) :
    splitRecords 10 true (unlines (ds.map encode)) = ds.map encode := by
  unfold unlines
  rw [splitRecords_flatMap]
  · rw [List.map_map]
    apply List.map_congr_left
    intro d _
    exact stripOneCr_true _ (fun hm => (encode_chars d _ hm).2 rfl)
  · intro r hr hm
    obtain ⟨d, _, rfl⟩ := List.mem_map.mp hr
    exact (encode_chars d _ hm).1 rfl

theorem decodeLines_encoded (sep : UInt8) (ds : List (List UInt8)) :
    PV.Docenc.decodeLines sep (ds.map encode) = some (ds.flatMap (· ++ [sep])) := by
  induction ds with
  | nil => simp [PV.Docenc.decodeLines]
  | cons d ds ih =>
    simp only [List.map_cons, PV.Docenc.decodeLines, decode_encode', ih]
    simp

theorem selectFrom_nil {α : Type} (ds : List α) : ∀ idx, PV.Docenc.selectFrom idx [] ds = ds := by
  induction ds with
  | nil => intro idx; simp [PV.Docenc.selectFrom]
  | cons d ds ih => intro idx; simp [PV.Docenc.selectFrom, ih]

theorem select_nil {α : Type} (ds : List α) : PV.Docenc.select [] ds = ds := selectFrom_nil ds 0

theorem docsNl_doc (ls : List (List UInt8)) (h : ∀ l ∈ ls, l ≠ [] ∧ (10 : UInt8) ∉ l) :
    ∀ (rest cur : List UInt8),
      PV.Docenc.docsNl (splitGo 10 false (unlines ls ++ 10 :: rest) []) cur =
        (cur ++ unlines ls) :: PV.Docenc.docsNl (splitGo 10 false rest []) [] := by
  induction ls with
  | nil =>
    intro rest cur
    simp [unlines, splitGo, stripOneCr, PV.Docenc.docsNl]
  | cons l ls ih =>
    intro rest cur
    have hl := h l (by simp)
    have hls : ∀ l' ∈ ls, l' ≠ [] ∧ (10 : UInt8) ∉ l' := fun l' hl' => h l' (List.mem_cons_of_mem _ hl')
    have e : unlines (l :: ls) ++ 10 :: rest = l ++ 10 :: (unlines ls ++ 10 :: rest) := by
      simp [unlines]
    rw [e, splitGo_record 10 false l hl.2, stripOneCr_false]
    have hne : (([] : List UInt8).reverse ++ l).isEmpty = false := by
      simp [hl.1]
    rw [PV.Docenc.docsNl, hne]
    simp only [Bool.false_eq_true, if_false]
    rw [ih hls]
    simp [unlines]

theorem docsNl_docs (ds : List (List UInt8))
    (h : ∀ d ∈ ds, ∃ ls : List (List UInt8), (∀ l ∈ ls, l ≠ [] ∧ (10 : UInt8) ∉ l) ∧ d = unlines ls) :
    PV.Docenc.docsNl (splitRecords 10 false (ds.flatMap (· ++ [10]))) [] = ds := by
  unfold splitRecords
  induction ds with
  | nil => simp [splitGo, PV.Docenc.docsNl]
  | cons d ds ih =>
    obtain ⟨ls, hls, hd⟩ := h d (by simp)
    subst hd
    simp only [List.flatMap_cons, List.append_assoc, List.singleton_append]
    rw [docsNl_doc ls hls, ih (fun d' hd' => h d' (List.mem_cons_of_mem _ hd'))]
    simp


/-! ## index selection -/

theorem filterMap_congr' {α β : Type} (f g : α → Option β) (l : List α) (h : ∀ x ∈ l, f x = g x) :
    l.filterMap f = l.filterMap g := by
  induction l with
  | nil => rfl
  | cons a l ih =>
    rw [List.filterMap_cons, List.filterMap_cons, h a (by simp),
      ih (fun x hx => h x (List.mem_cons_of_mem _ hx))]

theorem filterMap_shift {α : Type} (d : α) (ds : List α) (idx : Nat) (ind : List Nat)
    (h : ∀ i ∈ ind, idx + 1 < i) :
    ind.filterMap (fun i => (d :: ds)[i - idx - 1]?) = ind.filterMap (fun i => ds[i - (idx + 1) - 1]?) := by
  apply filterMap_congr'
  intro i hi
  have := h i hi
  have e : i - idx - 1 = (i - (idx + 1) - 1) + 1 := by omega
  rw [e, List.getElem?_cons_succ]

theorem selectFrom'_spec {α : Type} (ds : List α) : ∀ (idx : Nat) (ind : List Nat),
    (∀ i ∈ ind, idx < i) → ind.Pairwise (· < ·) →
    PV.Docenc.selectFrom.selectFrom' idx ind ds = ind.filterMap (fun i => ds[i - idx - 1]?) := by
  induction ds with
  | nil => intro idx ind _ _; cases ind <;> simp [PV.Docenc.selectFrom.selectFrom']
  | cons d ds ih =>
    intro idx ind hgt hs
    cases ind with
    | nil => simp [PV.Docenc.selectFrom.selectFrom']
    | cons i rest =>
      have hi : idx < i := hgt i (by simp)
      have hrest : ∀ j ∈ rest, i < j := (List.pairwise_cons.mp hs).1
      have hs' : rest.Pairwise (· < ·) := (List.pairwise_cons.mp hs).2
      rw [PV.Docenc.selectFrom.selectFrom']
      by_cases hne : i = idx + 1
      · subst hne
        simp only [bne_self_eq_false, Bool.false_eq_true, if_false]
        cases rest with
        | nil =>
          have e : idx + 1 - idx - 1 = 0 := by omega
          simp only [List.isEmpty_nil, if_true, List.filterMap_cons, List.filterMap_nil, e, List.getElem?_cons_zero]
        | cons j rest' =>
          simp only [List.isEmpty_cons, Bool.false_eq_true, if_false]
          have e : idx + 1 - idx - 1 = 0 := by omega
          rw [ih _ _ hrest hs', ← filterMap_shift d ds idx _ hrest]
          conv => rhs; rw [List.filterMap_cons]
          simp only [e, List.getElem?_cons_zero]
      · have hb : (i != idx + 1) = true := by simpa using hne
        simp only [hb, if_true]
        have hgt' : ∀ j ∈ i :: rest, idx + 1 < j := by
          intro j hj
          rcases List.mem_cons.mp hj with rfl | hj
          · omega
          · have := hrest j hj; omega
        rw [ih _ _ hgt' hs, filterMap_shift d ds idx _ hgt']

theorem selectFrom_spec {α : Type} (ds : List α) : ∀ (idx : Nat) (ind : List Nat), ind ≠ [] →
    (∀ i ∈ ind, idx < i) → ind.Pairwise (· < ·) →
    PV.Docenc.selectFrom idx ind ds = ind.filterMap (fun i => ds[i - idx - 1]?) := by
  induction ds with
  | nil => intro idx ind _ _ _; simp [PV.Docenc.selectFrom]
  | cons d ds ih =>
    intro idx ind hne hgt hs
    cases ind with
    | nil => exact absurd rfl hne
    | cons i rest =>
      have hi : idx < i := hgt i (by simp)
      have hrest : ∀ j ∈ rest, i < j := (List.pairwise_cons.mp hs).1
      have hs' : rest.Pairwise (· < ·) := (List.pairwise_cons.mp hs).2
      rw [PV.Docenc.selectFrom]
      by_cases hne : i = idx + 1
      · subst hne
        simp only [bne_self_eq_false, Bool.false_eq_true, if_false]
        cases rest with
        | nil =>
          have e : idx + 1 - idx - 1 = 0 := by omega
          simp only [List.isEmpty_nil, if_true, List.filterMap_cons, List.filterMap_nil, e, List.getElem?_cons_zero]
        | cons j rest' =>
          simp only [List.isEmpty_cons, Bool.false_eq_true, if_false]
          have e : idx + 1 - idx - 1 = 0 := by omega
          rw [selectFrom'_spec _ _ _ hrest hs', ← filterMap_shift d ds idx _ hrest]
          conv => rhs; rw [List.filterMap_cons]
          simp only [e, List.getElem?_cons_zero]
      · have hb : (i != idx + 1) = true := by simpa using hne
        simp only [hb, if_true]
        have hgt' : ∀ j ∈ i :: rest, idx + 1 < j := by
          intro j hj
          rcases List.mem_cons.mp hj with rfl | hj
          · omega
          · have := hrest j hj; omega
        rw [ih _ _ (by simp) hgt' hs, filterMap_shift d ds idx _ hgt']


end PV.Lemmas.Base64
