import PV.Model.BufStream
/-! helper lemmas for the BufferedStream theorems of C03 -/
namespace PV.Lemmas.BufStream
open PV.BufStream

/-- the WF clause of a single operation -/
def OpWF (cap : Nat) : Op → Prop
  | .put need bs => bs.length ≤ need ∧ need ≤ cap
  | _ => True

/-- the state invariant: delivered ++ buffered = `acc`, buffer within capacity, no empty chunk -/
def Inv (cap : Nat) (acc : List UInt8) (s : St) : Prop :=
  s.chunks.flatten ++ s.buf = acc ∧ s.buf.length ≤ cap ∧ ∀ c ∈ s.chunks, c ≠ []

theorem spill_buf (s : St) : (spill s).buf = [] := by
  unfold spill
  split
  · assumption
  · rfl

theorem spill_flat (s : St) : (spill s).chunks.flatten ++ (spill s).buf = s.chunks.flatten ++ s.buf := by
  unfold spill
  split
  · rfl
  · simp

theorem spill_flat' (s : St) : (spill s).chunks.flatten = s.chunks.flatten ++ s.buf := by
  have h := spill_flat s
  rw [spill_buf, List.append_nil] at h
  exact h

theorem spill_chunks_ne (s : St) (h : ∀ c ∈ s.chunks, c ≠ []) : ∀ c ∈ (spill s).chunks, c ≠ [] := by
  unfold spill
  split
  · exact h
  · rename_i hne
    intro c hc
    simp only [List.mem_append, List.mem_singleton] at hc
    rcases hc with hc | rfl
    · exact h c hc
    · exact hne

theorem spill_inv {cap : Nat} {acc : List UInt8} {s : St} (h : Inv cap acc s) : Inv cap acc (spill s) := by
  obtain ⟨h1, _, h3⟩ := h
  refine ⟨?_, ?_, spill_chunks_ne s h3⟩
  · rw [spill_flat]; exact h1
  · rw [spill_buf]; exact Nat.zero_le _

theorem step_inv {cap : Nat} {acc : List UInt8} {s : St} (o : Op) (h : Inv cap acc s) (ho : OpWF cap o) :
    Inv cap (acc ++ o.bytes) (step cap s o) := by
  cases o with
  | write bs =>
    simp only [step, Op.bytes]
    split
    · rename_i hfit
      obtain ⟨h1, _, h3⟩ := h
      refine ⟨?_, ?_, h3⟩
      · simp only [← List.append_assoc, h1]
      · simpa using hfit
    · have hs := spill_inv h
      obtain ⟨h1, _, h3⟩ := hs
      rw [spill_buf, List.append_nil] at h1
      split
      · rename_i hle
        exact ⟨by simp only [h1], hle, h3⟩
      · rename_i hfit hgt
        refine ⟨?_, ?_, ?_⟩
        · simp only [List.flatten_append, List.flatten_cons, List.flatten_nil, List.append_nil, h1, spill_buf]
        · simp only [spill_buf]; exact Nat.zero_le _
        · intro c hc
          simp only [List.mem_append, List.mem_singleton] at hc
          rcases hc with hc | rfl
          · exact h3 c hc
          · intro hnil
            subst hnil
            simp at hgt
  | put need bs =>
    obtain ⟨hb, hn⟩ := ho
    simp only [step, Op.bytes]
    split
    · have hs := spill_inv h
      obtain ⟨h1, _, h3⟩ := hs
      refine ⟨?_, ?_, h3⟩
      · simp only [← List.append_assoc, h1]
      · simp only [spill_buf, List.nil_append]; omega
    · rename_i hfit
      obtain ⟨h1, _, h3⟩ := h
      refine ⟨?_, ?_, h3⟩
      · simp only [← List.append_assoc, h1]
      · simp only [List.length_append]; omega
  | flush =>
    simp only [step, Op.bytes, List.append_nil]
    exact spill_inv h

theorem foldl_inv {cap : Nat} (ops : List Op) :
    ∀ {acc : List UInt8} {s : St}, Inv cap acc s → (∀ o ∈ ops, OpWF cap o) →
      Inv cap (acc ++ (ops.map Op.bytes).flatten) (ops.foldl (step cap) s) := by
  induction ops with
  | nil => intro acc s h _; simpa using h
  | cons o os ih =>
    intro acc s h hw
    have h1 := step_inv o h (hw o (List.mem_cons_self))
    have h2 := ih h1 (fun o' ho' => hw o' (List.mem_cons_of_mem _ ho'))
    simpa [List.append_assoc] using h2

theorem wf_opwf {cap : Nat} {ops : List Op} (hw : WF cap ops) : ∀ o ∈ ops, OpWF cap o := by
  intro o ho
  have := hw o ho
  cases o <;> exact this

theorem init_inv (cap : Nat) : Inv cap [] init := by
  refine ⟨rfl, Nat.zero_le _, ?_⟩
  intro c hc
  simp [init] at hc

theorem run_inv {cap : Nat} {ops : List Op} (hw : WF cap ops) :
    Inv cap (ops.map Op.bytes).flatten (run cap ops) := by
  have := foldl_inv (cap := cap) ops (init_inv cap) (wf_opwf hw)
  simpa [run] using this

theorem step_flush_buf (cap : Nat) (s : St) : (step cap s .flush).buf = [] := by
  simp only [step]
  exact spill_buf s

theorem step_flush_flat (cap : Nat) (s : St) : (step cap s .flush).chunks.flatten = s.chunks.flatten ++ s.buf := by
  simp only [step]
  exact spill_flat' s

end PV.Lemmas.BufStream
