import PV.Model.Cleaning
import PV.Spec.Utf8
import PV.Lemmas.Utf8
/-! helper lemmas for PV.Props.C18Cleaning -/
namespace PV.Lemmas.Cleaning
open PV.Cleaning PV.Utf8

/-- the scanning loop on already decoded code points -/
def run (p : Params) : St → List Nat → Option St
  | s, [] => some s
  | s, c :: cs =>
    match stepCp p s c with
    | none => none
    | some s' => run p s' cs

/-- the byte loop is the decoder followed by the code point loop -/
theorem scanFuel_eq (p : Params) (fuel : Nat) : ∀ (s : St) (bs : List UInt8),
    scanFuel p fuel s bs = (decodeAllFuel fuel bs).bind (run p s) := by
  induction fuel with
  | zero =>
    intro s bs
    cases bs with
    | nil => simp [scanFuel, decodeAllFuel, run]
    | cons b r => simp [scanFuel, decodeAllFuel]
  | succ fuel ih =>
    intro s bs
    cases bs with
    | nil => simp [scanFuel, decodeAllFuel, run]
    | cons b r =>
      simp only [scanFuel, decodeAllFuel]
      cases hdec : decode (b :: r) with
      | none => simp
      | some cn =>
        obtain ⟨c, n⟩ := cn
        simp only []
        cases hrest : decodeAllFuel fuel ((b :: r).drop n) with
        | none =>
          cases hstep : stepCp p s c with
          | none => simp
          | some s' => simp only [ih, hrest]; simp
        | some cps =>
          cases hstep : stepCp p s c with
          | none => simp [run, hstep]
          | some s' => simp only [ih, hrest]; simp [run, hstep]

theorem scan_eq (p : Params) (bs : List UInt8) : scan p bs = (decodeAll bs).bind (run p init) :=
  scanFuel_eq p bs.length init bs

/-! ### the counters -/

theorem stepCp_counters (p : Params) (s s' : St) (c : Nat) (h : stepCp p s c = some s') :
    ∃ sc, p.scriptOf c = some sc ∧ s'.scripts = sc :: s.scripts ∧
      s'.punct = s.punct + (if p.isPunct c then 1 else 0) ∧
      s'.spaces = s.spaces + (if p.isSpace c then 1 else 0) := by
  unfold stepCp at h
  split at h
  · cases h
  · split at h
    · cases h
    · rename_i sc hsc
      refine ⟨sc, hsc, ?_⟩
      simp only [] at h
      split at h
      · split at h
        · cases h
        · cases h; exact ⟨rfl, rfl, rfl⟩
      · cases h; exact ⟨rfl, rfl, rfl⟩

theorem run_counters (p : Params) : ∀ (cs : List Nat) (s s' : St), run p s cs = some s' →
    s'.scripts = (cs.filterMap p.scriptOf).reverse ++ s.scripts ∧
    s'.punct = s.punct + cs.countP (fun c => p.isPunct c) ∧
    s'.spaces = s.spaces + cs.countP (fun c => p.isSpace c) := by
  intro cs
  induction cs with
  | nil => intro s s' h; simp only [run, Option.some.injEq] at h; subst h; simp
  | cons c cs ih =>
    intro s s' h
    simp only [run] at h
    split at h
    · cases h
    · rename_i s1 hstep
      obtain ⟨sc, hsc, h1, h2, h3⟩ := stepCp_counters p s s1 c hstep
      obtain ⟨i1, i2, i3⟩ := ih s1 s' h
      refine ⟨?_, ?_, ?_⟩
      · rw [i1, h1, List.filterMap_cons, hsc]; simp
      · rw [i2, h2, List.countP_cons]; omega
      · rw [i3, h3, List.countP_cons]; omega

theorem length_filterMap_of_isSome {α β : Type} (f : α → Option β) (l : List α)
    (h : ∀ a ∈ l, (f a).isSome) : (l.filterMap f).length = l.length := by
  induction l with
  | nil => rfl
  | cons a l ih =>
    have ha := h a (List.mem_cons_self ..)
    obtain ⟨b, hb⟩ := Option.isSome_iff_exists.mp ha
    rw [List.filterMap_cons, hb]
    simp only [List.length_cons]
    rw [ih (fun x hx => h x (List.mem_cons_of_mem _ hx))]

/-! ### runs -/

/-- the registers `(prev, prevRun) = (a, k)` stand for the virtual prefix `replicate k a` -/
def Inv (p : Params) (a k : Nat) : Prop :=
  (k = 0 → isCtrl a = true) ∧ (p.isSpace a = true ∨ k < 2 ∨ k < p.run)

theorem noLongRun_replicate (p : Params) (a k : Nat) (h : p.isSpace a = true ∨ k < 2 ∨ k < p.run) :
    NoLongRun p (List.replicate k a) := by
  intro c n hsp h2 hrun hin
  have hlen := hin.length_le
  simp only [List.length_replicate] at hlen
  have hc : c = a := by
    have : c ∈ List.replicate n c := List.mem_replicate.mpr ⟨by omega, rfl⟩
    exact List.eq_of_mem_replicate (hin.mem this)
  subst hc
  rcases h with h | h | h
  · rw [h] at hsp; cases hsp
  · omega
  · omega

theorem noLongRun_of_suffix (p : Params) (l1 l2 : List Nat) (h : NoLongRun p (l1 ++ l2)) :
    NoLongRun p l2 := by
  intro c n hsp h2 hrun hin
  exact h c n hsp h2 hrun (List.infix_append_of_infix_right hin)

theorem noLongRun_of_prefix (p : Params) (l1 l2 : List Nat) (h : NoLongRun p (l1 ++ l2)) :
    NoLongRun p l1 := by
  intro c n hsp h2 hrun hin
  exact h c n hsp h2 hrun (List.infix_append_of_infix_left hin)

/-- a run cannot straddle the boundary between a block of `a` and a different character -/
theorem noLongRun_block_append (p : Params) (a k c : Nat) (cs : List Nat) (hne : a ≠ c)
    (h1 : NoLongRun p (List.replicate k a)) (h2 : NoLongRun p (c :: cs)) :
    NoLongRun p (List.replicate k a ++ c :: cs) := by
  intro x n hsp hn2 hrun hin
  rcases List.infix_append_iff_ne_nil.mp hin with h | h | ⟨u, v, hu, hv, huv, hsu, hpv⟩
  · exact h1 x n hsp hn2 hrun h
  · exact h2 x n hsp hn2 hrun h
  · -- u is a non-empty suffix of the block, v a non-empty prefix of `c :: cs`
    obtain ⟨_, hu', hv'⟩ := List.replicate_eq_append_iff.mp huv
    have hxa : x = a := by
      cases u with
      | nil => exact absurd rfl hu
      | cons y u' =>
        have hy : y = x := by
          have : y ∈ List.replicate (y :: u').length x := by rw [← hu']; exact List.mem_cons_self ..
          exact List.eq_of_mem_replicate this
        have : y ∈ List.replicate k a := hsu.subset (List.mem_cons_self ..)
        rw [← hy]; exact List.eq_of_mem_replicate this
    have hxc : x = c := by
      cases v with
      | nil => exact absurd rfl hv
      | cons y v' =>
        have hy : y = x := by
          have : y ∈ List.replicate (y :: v').length x := by rw [← hv']; exact List.mem_cons_self ..
          exact List.eq_of_mem_replicate this
        obtain ⟨t, ht⟩ := hpv
        simp only [List.cons_append, List.cons.injEq] at ht
        rw [← hy]; exact ht.1
    exact hne (hxa.symm.trans hxc)

/-- the code point loop succeeds exactly on the lists without a control character, an unknown script
    or a long run (counting the block the registers stand for) -/
theorem run_isSome_iff (p : Params) : ∀ (cs : List Nat) (s : St), Inv p s.prev s.prevRun →
    ((run p s cs).isSome ↔
      (∀ c ∈ cs, isCtrl c = false) ∧ (∀ c ∈ cs, (p.scriptOf c).isSome) ∧
      NoLongRun p (List.replicate s.prevRun s.prev ++ cs)) := by
  intro cs
  induction cs with
  | nil =>
    intro s hinv
    simp only [run, Option.isSome_some, List.not_mem_nil, false_imp_iff, implies_true, true_and,
      List.append_nil, true_iff]
    exact noLongRun_replicate p _ _ hinv.2
  | cons c cs ih =>
    intro s hinv
    obtain ⟨hk0, hblock⟩ := hinv
    simp only [run]
    by_cases hctrl : isCtrl c = true
    · -- control character
      have : stepCp p s c = none := by simp [stepCp, hctrl]
      rw [this]
      simp only [Option.isSome_none, Bool.false_eq_true, false_iff, not_and]
      intro h
      have := h c (List.mem_cons_self ..)
      rw [hctrl] at this; cases this
    · have hctrl' : isCtrl c = false := by simpa using hctrl
      cases hsc : p.scriptOf c with
      | none =>
        have : stepCp p s c = none := by simp [stepCp, hctrl', hsc]
        rw [this]
        simp only [Option.isSome_none, Bool.false_eq_true, false_iff, not_and]
        intro _ h
        have := h c (List.mem_cons_self ..)
        rw [hsc] at this; cases this
      | some sc =>
        have hall : ∀ (P : Nat → Prop), (∀ x ∈ c :: cs, P x) ↔ (P c ∧ ∀ x ∈ cs, P x) := by
          intro P; simp
        by_cases hpc : s.prev = c
        · -- same character as the previous one
          have hkpos : 1 ≤ s.prevRun := by
            rcases Nat.eq_zero_or_pos s.prevRun with h0 | h0
            · have := hk0 h0; rw [hpc, hctrl'] at this; cases this
            · exact h0
          have happ : List.replicate s.prevRun s.prev ++ c :: cs
              = List.replicate (s.prevRun + 1) c ++ cs := by
            rw [hpc, List.replicate_succ', List.append_assoc]; rfl
          by_cases hlong : (decide (p.run ≤ s.prevRun + 1) && !p.isSpace c) = true
          · have : stepCp p s c = none := by simp [stepCp, hctrl', hsc, hpc, hlong]
            rw [this]
            simp only [Option.isSome_none, Bool.false_eq_true, false_iff, not_and]
            intro _ _ hno
            rw [happ] at hno
            simp only [Bool.and_eq_true, decide_eq_true_eq, Bool.not_eq_eq_eq_not, Bool.not_true] at hlong
            exact hno c (s.prevRun + 1) hlong.2 (by omega) hlong.1
              (List.infix_append_of_infix_left (List.infix_refl _))
          · have hstep : stepCp p s c = some
                { scripts := sc :: s.scripts,
                  punct := s.punct + (if p.isPunct c then 1 else 0),
                  spaces := s.spaces + (if p.isSpace c then 1 else 0),
                  prev := s.prev, prevRun := s.prevRun + 1 } := by
              simp [stepCp, hctrl', hsc, hpc, hlong]
            rw [hstep]
            simp only []
            have hinv' : Inv p s.prev (s.prevRun + 1) := by
              refine ⟨by omega, ?_⟩
              rw [hpc]
              simp only [Bool.and_eq_true, decide_eq_true_eq, Bool.not_eq_eq_eq_not, Bool.not_true,
                not_and, Bool.not_eq_false] at hlong
              by_cases hr : p.run ≤ s.prevRun + 1
              · exact Or.inl (hlong hr)
              · exact Or.inr (Or.inr (by omega))
            rw [ih _ hinv']
            simp only []
            rw [hall, hall, happ, hpc, hctrl', hsc]
            simp
        · -- a different character: the run counter restarts
          have hstep : stepCp p s c = some
              { scripts := sc :: s.scripts,
                punct := s.punct + (if p.isPunct c then 1 else 0),
                spaces := s.spaces + (if p.isSpace c then 1 else 0),
                prev := c, prevRun := 1 } := by
            simp [stepCp, hctrl', hsc, hpc]
          rw [hstep]
          simp only []
          have hinv' : Inv p c 1 := ⟨by omega, Or.inr (Or.inl (by omega))⟩
          rw [ih _ hinv']
          simp only []
          rw [hall, hall, hctrl', hsc]
          have hrep : List.replicate 1 c ++ cs = c :: cs := rfl
          rw [hrep]
          constructor
          · rintro ⟨h1, h2, h3⟩
            exact ⟨⟨rfl, h1⟩, ⟨rfl, h2⟩,
              noLongRun_block_append p _ _ _ _ hpc (noLongRun_replicate p _ _ hblock) h3⟩
          · rintro ⟨⟨_, h1⟩, ⟨_, h2⟩, h3⟩
            exact ⟨h1, h2, noLongRun_of_suffix p _ _ h3⟩

theorem inv_init (p : Params) : Inv p init.prev init.prevRun :=
  ⟨fun _ => by decide, Or.inr (Or.inl (by decide))⟩

/-- the verdict on one field in terms of its code points -/
theorem keep_iff (p : Params) (bs : List UInt8) :
    keep p bs = true ↔ ∃ cs, decodeAll bs = some cs ∧ Accept p cs := by
  unfold keep
  rw [scan_eq]
  cases hd : decodeAll bs with
  | none => simp
  | some cs =>
    simp only [Option.bind_some, Option.some.injEq, exists_eq_left']
    have hiff := run_isSome_iff p cs init (inv_init p)
    have hnil : List.replicate init.prevRun init.prev ++ cs = cs := rfl
    rw [hnil] at hiff
    cases hrun : run p init cs with
    | none =>
      rw [hrun] at hiff
      simp only [Option.isSome_none, Bool.false_eq_true, false_iff] at hiff
      simp only [Bool.false_eq_true, false_iff]
      rintro ⟨h1, h2, h3, _⟩
      exact hiff ⟨h1, h2, h3⟩
    | some s =>
      rw [hrun] at hiff
      obtain ⟨h1, h2, h3⟩ := hiff.mp rfl
      obtain ⟨c1, c2, c3⟩ := run_counters p cs init s hrun
      have hinit : init.scripts = [] ∧ init.punct = 0 ∧ init.spaces = 0 := ⟨rfl, rfl, rfl⟩
      rw [hinit.1, List.append_nil] at c1
      rw [hinit.2.1, Nat.zero_add] at c2
      rw [hinit.2.2, Nat.zero_add] at c3
      have hlen : s.scripts.length = cs.length := by
        rw [c1, List.length_reverse, length_filterMap_of_isSome _ _ h2]
      simp only [Bool.and_eq_true, decide_eq_true_eq]
      rw [hlen, c1, c2, c3, List.reverse_reverse]
      unfold Accept
      constructor
      · rintro ⟨hm, ht⟩; exact ⟨h1, h2, h3, hm, ht⟩
      · rintro ⟨_, _, _, hm, ht⟩; exact ⟨hm, ht⟩

end PV.Lemmas.Cleaning
