import PV.Model.MVocab
import PV.Lemmas.Table
import PV.Lemmas.Substitute
/-
`util::MutableVocab` over the real hash-table model against the first-occurrence specification.
-/
namespace PV.Lemmas.MVocab
open PV.MVocab PV.Table PV.Spec.Map PV.Lemmas.Table

/-! ### the specification alone: `specId` through positions in a duplicate-free `seen` -/

theorem specId_none_iff (seen : List Nat) (k : Nat) : specId seen k = none ↔ k ∉ seen := by
  simp [specId]

theorem specId_of_get (seen : List Nat) (hnd : seen.Nodup) (j k : Nat) (h : seen[j]? = some k) :
    specId seen k = some (j + 1) := by
  unfold specId
  obtain ⟨hj, hk⟩ := List.getElem?_eq_some_iff.mp h
  have : seen.idxOf? k = some j := by
    rw [List.idxOf?_eq_some_iff]
    refine ⟨hj, hk, ?_⟩
    intro i hi heq
    have hij : seen[i]? = seen[j]? := by
      rw [h]; exact List.getElem?_eq_some_iff.mpr ⟨by omega, heq⟩
    have := (List.getElem?_inj (by omega) hnd).mp hij
    omega
  rw [this]; rfl

theorem specId_some (seen : List Nat) (k i : Nat) (h : specId seen k = some i) :
    ∃ j, i = j + 1 ∧ seen[j]? = some k := by
  unfold specId at h
  cases hx : seen.idxOf? k with
  | none => rw [hx] at h; simp at h
  | some j =>
    rw [hx] at h
    simp only [Option.map_some, Option.some.injEq] at h
    obtain ⟨hj, hk, _⟩ := List.idxOf?_eq_some_iff.mp hx
    exact ⟨j, h.symm, List.getElem?_eq_some_iff.mpr ⟨hj, hk⟩⟩

theorem get_append_left (seen ext : List Nat) (j k : Nat) (h : seen[j]? = some k) :
    (seen ++ ext)[j]? = some k := by
  obtain ⟨hj, _⟩ := List.getElem?_eq_some_iff.mp h
  rw [List.getElem?_append_left hj]; exact h

theorem nodup_snoc (seen : List Nat) (k : Nat) (hnd : seen.Nodup) (hk : k ∉ seen) :
    (seen ++ [k]).Nodup := by
  rw [List.nodup_append]
  refine ⟨hnd, by simp, ?_⟩
  intro a ha b hb
  simp only [List.mem_singleton] at hb
  subst hb
  intro hab; subst hab; exact hk ha

theorem specInsertAll_cons_some (seen : List Nat) (w : Word) (ws : List Word) (i : Nat)
    (h : specId seen (key w) = some i) :
    specInsertAll seen (w :: ws) = (i :: (specInsertAll seen ws).1, (specInsertAll seen ws).2) := by
  rw [specInsertAll, h]

theorem specInsertAll_cons_none (seen : List Nat) (w : Word) (ws : List Word)
    (h : specId seen (key w) = none) :
    specInsertAll seen (w :: ws) =
      ((seen.length + 1) :: (specInsertAll (seen ++ [key w]) ws).1,
        (specInsertAll (seen ++ [key w]) ws).2) := by
  rw [specInsertAll, h]

theorem spec_gen : ∀ (ws : List Word) (seen : List Nat), seen.Nodup →
    (specInsertAll seen ws).2.Nodup ∧
    (∀ (j k : Nat), seen[j]? = some k → (specInsertAll seen ws).2[j]? = some k) ∧
    (∀ i, i < ws.length →
      specId (specInsertAll seen ws).2 (key (ws.getD i [])) = some ((specInsertAll seen ws).1.getD i 0)) := by
  intro ws
  induction ws with
  | nil =>
    intro seen hnd
    refine ⟨hnd, fun j k h => h, fun i hi => by simp at hi⟩
  | cons w ws ih =>
    intro seen hnd
    cases hs : specId seen (key w) with
    | some n =>
      rw [specInsertAll_cons_some seen w ws n hs]
      obtain ⟨h1, h2, h3⟩ := ih seen hnd
      refine ⟨h1, h2, ?_⟩
      intro i hi
      cases i with
      | zero =>
        obtain ⟨j, hn, hj⟩ := specId_some seen _ _ hs
        simp only [List.getD_cons_zero]
        rw [hn]
        exact specId_of_get _ h1 j _ (h2 j _ hj)
      | succ i =>
        simp only [List.getD_cons_succ]
        exact h3 i (by simpa using hi)
    | none =>
      rw [specInsertAll_cons_none seen w ws hs]
      have hnd' := nodup_snoc seen (key w) hnd ((specId_none_iff _ _).mp hs)
      obtain ⟨h1, h2, h3⟩ := ih (seen ++ [key w]) hnd'
      refine ⟨h1, fun j k h => h2 j k (get_append_left seen _ j k h), ?_⟩
      intro i hi
      cases i with
      | zero =>
        simp only [List.getD_cons_zero]
        exact specId_of_get _ h1 seen.length _ (h2 seen.length _ (by simp))
      | succ i =>
        simp only [List.getD_cons_succ]
        exact h3 i (by simpa using hi)

theorem spec_len : ∀ (ws : List Word) (seen : List Nat), (specInsertAll seen ws).1.length = ws.length := by
  intro ws
  induction ws with
  | nil => intro seen; rfl
  | cons w ws ih =>
    intro seen
    cases hs : specId seen (key w) with
    | some n => rw [specInsertAll_cons_some seen w ws n hs]; simp [ih]
    | none => rw [specInsertAll_cons_none seen w ws hs]; simp [ih]

/-! ### the table against the specification -/

def R (m : M) (strings : List Word) (seen : List Nat) : Prop :=
  strings.length = seen.length + 1 ∧ ∀ k, lookup m k = (specId seen k).map (fun i => (k, i))

def Att (P : Word → Prop) (strings : List Word) (seen : List Nat) : Prop :=
  ∀ (j k : Nat), seen[j]? = some k → key (strings.getD (j + 1) []) = k ∧ P (strings.getD (j + 1) [])

theorem R_init : R [] [unk] [] := by
  refine ⟨rfl, fun k => ?_⟩
  simp [lookup, specId]

theorem Att_init (P : Word → Prop) : Att P [unk] [] := by
  intro j k h; simp at h

theorem wgetD_append_lt (strings : List Word) (x : Word) (i : Nat) (h : i < strings.length) :
    (strings ++ [x]).getD i [] = strings.getD i [] := by
  simp [List.getD, List.getElem?_append_left h]

theorem wgetD_append_length (strings : List Word) (x : Word) :
    (strings ++ [x]).getD strings.length [] = x := by
  simp [List.getD]

theorem specId_snoc_ne (seen : List Nat) (k k' : Nat) (hnd : (seen ++ [k]).Nodup) (hne : k ≠ k') :
    specId (seen ++ [k]) k' = specId seen k' := by
  cases hs : specId seen k' with
  | some i =>
    obtain ⟨j, hi, hj⟩ := specId_some _ _ _ hs
    rw [hi]
    exact specId_of_get _ hnd j k' (get_append_left seen _ j k' hj)
  | none =>
    rw [specId_none_iff] at hs ⊢
    simp only [List.mem_append, List.mem_singleton, not_or]
    exact ⟨hs, fun h => hne h.symm⟩

theorem R_insert (m : M) (strings : List Word) (seen : List Nat) (k : Nat) (w : Word)
    (hr : R m strings seen) (hnd : seen.Nodup) (hs : specId seen k = none) :
    R ((k, strings.length) :: m) (strings ++ [w]) (seen ++ [k]) := by
  obtain ⟨hlen, hl⟩ := hr
  have hnd' := nodup_snoc seen k hnd ((specId_none_iff _ _).mp hs)
  refine ⟨by simp; omega, fun k' => ?_⟩
  rw [PV.Lemmas.Substitute.lookup_cons]
  by_cases hk : k = k'
  · subst hk
    simp only [beq_self_eq_true, if_true]
    rw [specId_of_get _ hnd' seen.length k (by simp), hlen]
    rfl
  · have hk' : ((k, strings.length).1 == k') = false := by simpa using hk
    simp only [hk', Bool.false_eq_true, if_false]
    rw [specId_snoc_ne seen k k' hnd' hk]
    exact hl k'

theorem Att_insert (P : Word → Prop) (strings : List Word) (seen : List Nat) (w : Word)
    (ha : Att P strings seen) (hlen : strings.length = seen.length + 1) (hp : P w) :
    Att P (strings ++ [w]) (seen ++ [key w]) := by
  intro j k h
  by_cases hj : j < seen.length
  · rw [List.getElem?_append_left hj] at h
    rw [wgetD_append_lt strings w (j + 1) (by omega)]
    exact ha j k h
  · obtain ⟨hj', hk⟩ := List.getElem?_eq_some_iff.mp h
    simp only [List.length_append, List.length_singleton] at hj'
    have : j = seen.length := by omega
    subst this
    simp only [List.getElem_concat_length] at hk
    rw [← hlen, wgetD_append_length]
    exact ⟨hk, hp⟩

theorem foi_found (t : Table) (strings : List Word) (w : Word) (e : Entry) (t' : Table)
    (h : PV.Table.findOrInsert t (key w, strings.length) = some (true, e, t')) :
    findOrInsert ⟨t, strings⟩ w = some (e.2, ⟨t', strings⟩) := by
  simp only [PV.MVocab.findOrInsert, h]

theorem foi_new (t : Table) (strings : List Word) (w : Word) (e : Entry) (t' : Table)
    (h : PV.Table.findOrInsert t (key w, strings.length) = some (false, e, t')) :
    findOrInsert ⟨t, strings⟩ w = some (strings.length, ⟨t', strings ++ [w]⟩) := by
  simp only [PV.MVocab.findOrInsert, h]

theorem insertAll_cons (v : V) (w : Word) (ws : List Word) (i : Nat) (v' : V)
    (h : findOrInsert v w = some (i, v')) :
    insertAll v (w :: ws) = (insertAll v' ws).map (fun r => (i :: r.1, r.2)) := by
  simp only [insertAll, h]

theorem insertAll_gen (P : Word → Prop) : ∀ (ws : List Word) (t : Table) (m : M) (strings : List Word)
    (seen : List Nat), Inv t → Abs t m → R m strings seen → seen.Nodup → Att P strings seen →
    (∀ w ∈ ws, key w ≠ 0 ∧ P w) →
    ∃ t' m' strings', insertAll ⟨t, strings⟩ ws = some ((specInsertAll seen ws).1, ⟨t', strings'⟩) ∧
      Inv t' ∧ Abs t' m' ∧ R m' strings' (specInsertAll seen ws).2 ∧
      Att P strings' (specInsertAll seen ws).2 := by
  intro ws
  induction ws with
  | nil =>
    intro t m strings seen hi ha hr _ hatt _
    exact ⟨t, m, strings, rfl, hi, ha, hr, hatt⟩
  | cons w ws ih =>
    intro t m strings seen hi ha hr hnd hatt h0
    have h0' : ∀ x ∈ ws, key x ≠ 0 ∧ P x := fun x hx => h0 x (by simp [hx])
    obtain ⟨hk, hp⟩ := h0 w (by simp)
    rcases PV.Lemmas.Substitute.foi_val t m hi ha (key w) strings.length hk with
      ⟨e, t1, hl, hfoi, hi1, ha1⟩ | ⟨e, t1, hl, hfoi, hi1, ha1⟩
    · rw [hr.2 (key w)] at hl
      cases hs : specId seen (key w) with
      | none => rw [hs] at hl; simp at hl
      | some n =>
        rw [hs] at hl
        simp only [Option.map_some, Option.some.injEq] at hl
        subst hl
        rw [insertAll_cons _ w ws _ _ (foi_found t strings w _ t1 hfoi),
          specInsertAll_cons_some seen w ws n hs]
        obtain ⟨t', m', strings', hrun, hi', ha', hr', hatt'⟩ :=
          ih t1 m strings seen hi1 ha1 hr hnd hatt h0'
        exact ⟨t', m', strings', by rw [hrun]; rfl, hi', ha', hr', hatt'⟩
    · rw [hr.2 (key w)] at hl
      have hs : specId seen (key w) = none := by
        cases hs : specId seen (key w) with
        | none => rfl
        | some n => rw [hs] at hl; simp at hl
      rw [insertAll_cons _ w ws _ _ (foi_new t strings w _ t1 hfoi),
        specInsertAll_cons_none seen w ws hs]
      obtain ⟨t', m', strings', hrun, hi', ha', hr', hatt'⟩ :=
        ih t1 _ (strings ++ [w]) (seen ++ [key w]) hi1 ha1
          (R_insert m strings seen (key w) w hr hnd hs)
          (nodup_snoc seen (key w) hnd ((specId_none_iff _ _).mp hs))
          (Att_insert P strings seen w hatt hr.1 hp) h0'
      refine ⟨t', m', strings', ?_, hi', ha', hr', hatt'⟩
      rw [hrun, hr.1]; rfl

theorem find_spec (t : Table) (m : M) (strings : List Word) (seen : List Nat) (hi : Inv t)
    (ha : Abs t m) (hr : R m strings seen) (w : Word) (hk : key w ≠ 0) :
    find ⟨t, strings⟩ w = some (specFind seen w) := by
  unfold PV.MVocab.find specFind
  simp only
  rw [find_abs t m hi ha (key w) hk, hr.2 (key w)]
  cases specId seen (key w) <;> rfl

/-! ### the theorems -/

/-- the empty word hashes to 0, the table's "empty bucket" key: MutableVocab answers kUNK for it (outside C13's
"non-zero keys"; recorded, and excluded by hypothesis below) -/
theorem empty_word_key_zero : key [] = 0 := by
  decide +kernel

/-- FindOrInsert over any word list never fails and hands out exactly the specification's ids; afterwards `Size()` is
one more than the number of distinct keys and `Find` answers the specification's id (0 for unknown words) -/
theorem insertAll_refines (ws : List Word) (h0 : ∀ w ∈ ws, key w ≠ 0) :
    ∃ v, insertAll init ws = some ((specInsertAll [] ws).1, v) ∧
      v.strings.length = (specInsertAll [] ws).2.length + 1 ∧
      (∀ w, key w ≠ 0 → find v w = some (specFind (specInsertAll [] ws).2 w)) := by
  obtain ⟨t', m', strings', hrun, hi', ha', hr', _⟩ :=
    insertAll_gen (fun _ => True) ws PV.Table.init [] [unk] [] init_inv init_abs R_init
      List.nodup_nil (Att_init _) (fun w hw => ⟨h0 w hw, trivial⟩)
  exact ⟨⟨t', strings'⟩, hrun, hr'.1, fun w hw => find_spec t' m' strings' _ hi' ha' hr' w hw⟩

/-- two positions get the same id exactly when their words have the same key -/
theorem spec_ids_eq_iff (ws : List Word) (i j : Nat) (hi : i < ws.length) (hj : j < ws.length) :
    ((specInsertAll [] ws).1.getD i 0 = (specInsertAll [] ws).1.getD j 0) ↔ key (ws.getD i []) = key (ws.getD j []) := by
  obtain ⟨h1, _, h3⟩ := spec_gen ws [] List.nodup_nil
  have hi' := h3 i hi
  have hj' := h3 j hj
  constructor
  · intro h
    rw [h] at hi'
    obtain ⟨a, ha, hga⟩ := specId_some _ _ _ hi'
    obtain ⟨b, hb, hgb⟩ := specId_some _ _ _ hj'
    have : a = b := by omega
    subst this
    rw [hga] at hgb
    exact Option.some.inj hgb
  · intro h
    rw [h, hj'] at hi'
    exact (Option.some.inj hi').symm

/-- ids are dense: every id handed out is between 1 and the number of distinct keys -/
theorem spec_ids_range (ws : List Word) :
    ∀ x ∈ (specInsertAll [] ws).1, 1 ≤ x ∧ x ≤ (specInsertAll [] ws).2.length := by
  intro x hx
  obtain ⟨h1, _, h3⟩ := spec_gen ws [] List.nodup_nil
  obtain ⟨i, hi, hxi⟩ := List.getElem_of_mem hx
  have hlen := spec_len ws []
  have := h3 i (by omega)
  obtain ⟨a, ha, hga⟩ := specId_some _ _ _ this
  obtain ⟨hlt, _⟩ := List.getElem?_eq_some_iff.mp hga
  have hx' : (specInsertAll [] ws).1.getD i 0 = x := by
    simp [List.getD, hi, hxi]
  omega


/-- `String(FindOrInsert(w)) = w`: with no two different words sharing a key, the string stored under the id a word
received is that word, for every position of the input and at the end of the run (strings never move) -/
theorem strings_attached (ws : List Word) (h0 : ∀ w ∈ ws, key w ≠ 0)
    (hinj : ∀ a ∈ ws, ∀ b ∈ ws, key a = key b → a = b) (ids : List Nat) (v : V)
    (hr : insertAll init ws = some (ids, v)) :
    ∀ i, i < ws.length → v.strings.getD (ids.getD i 0) [] = ws.getD i [] := by
  intro i hi
  obtain ⟨t', m', strings', hrun, _, _, _, hatt⟩ :=
    insertAll_gen (fun x => x ∈ ws) ws PV.Table.init [] [unk] [] init_inv init_abs R_init
      List.nodup_nil (Att_init _) (fun w hw => ⟨h0 w hw, hw⟩)
  have hrun' : insertAll init ws = some ((specInsertAll [] ws).1, ⟨t', strings'⟩) := hrun
  rw [hr] at hrun'
  simp only [Option.some.injEq, Prod.mk.injEq] at hrun'
  obtain ⟨hids, hv⟩ := hrun'
  subst hids hv
  obtain ⟨_, _, h3⟩ := spec_gen ws [] List.nodup_nil
  obtain ⟨j, hj, hgj⟩ := specId_some _ _ _ (h3 i hi)
  obtain ⟨hkey, hmem⟩ := hatt j _ hgj
  rw [hj]
  have hmi : ws.getD i [] ∈ ws := by
    simp [List.getD, hi]
  exact hinj _ hmem _ hmi hkey

end PV.Lemmas.MVocab
