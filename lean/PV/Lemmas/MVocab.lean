import PV.Model.MVocab
import PV.Lemmas.Table
import PV.Lemmas.Substitute
/-
`util::MutableVocab` over the real hash-table model against the first-occurrence specification.
-/
namespace PV.Lemmas.MVocab
open PV.MVocab PV.Table PV.Spec.Map PV.Lemmas.Table

/-- the empty word hashes to 0, the table's "empty bucket" key: MutableVocab answers kUNK for it (outside C13's
"non-zero keys"; recorded, and excluded by hypothesis below) -/
theorem empty_word_key_zero : key [] = 0 := by
  sorry

/-- FindOrInsert over any word list never fails and hands out exactly the specification's ids; afterwards `Size()` is
one more than the number of distinct keys and `Find` answers the specification's id (0 for unknown words) -/
theorem insertAll_refines (ws : List Word) (h0 : ∀ w ∈ ws, key w ≠ 0) :
    ∃ v, insertAll init ws = some ((specInsertAll [] ws).1, v) ∧
      v.strings.length = (specInsertAll [] ws).2.length + 1 ∧
      (∀ w, key w ≠ 0 → find v w = some (specFind (specInsertAll [] ws).2 w)) := by
  sorry

/-- two positions get the same id exactly when their words have the same key -/
theorem spec_ids_eq_iff (ws : List Word) (i j : Nat) (hi : i < ws.length) (hj : j < ws.length) :
    ((specInsertAll [] ws).1.getD i 0 = (specInsertAll [] ws).1.getD j 0) ↔ key (ws.getD i []) = key (ws.getD j []) := by
  sorry

/-- ids are dense: every id handed out is between 1 and the number of distinct keys -/
theorem spec_ids_range (ws : List Word) :
    ∀ x ∈ (specInsertAll [] ws).1, 1 ≤ x ∧ x ≤ (specInsertAll [] ws).2.length := by
  sorry

/-- `String(FindOrInsert(w)) = w`: with no two different words sharing a key, the string stored under the id a word
received is that word, for every position of the input and at the end of the run (strings never move) -/
theorem strings_attached (ws : List Word) (h0 : ∀ w ∈ ws, key w ≠ 0)
    (hinj : ∀ a ∈ ws, ∀ b ∈ ws, key a = key b → a = b) (ids : List Nat) (v : V)
    (hr : insertAll init ws = some (ids, v)) :
    ∀ i, i < ws.length → v.strings.getD (ids.getD i 0) [] = ws.getD i [] := by
  sorry

end PV.Lemmas.MVocab
