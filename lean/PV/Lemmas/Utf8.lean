import PV.Model.Utf8
import PV.Spec.Utf8
namespace PV.Lemmas.Utf8
open PV.Utf8 PV.Spec.Utf8

theorem and_E0 : ∀ b, b < 256 → ((b &&& 0xE0) = 0xC0 ↔ (0xC0 ≤ b ∧ b < 0xE0)) := by decide +kernel
theorem and_F0 : ∀ b, b < 256 → ((b &&& 0xF0) = 0xE0 ↔ (0xE0 ≤ b ∧ b < 0xF0)) := by decide +kernel
theorem and_F8 : ∀ b, b < 256 → ((b &&& 0xF8) = 0xF0 ↔ (0xF0 ≤ b ∧ b < 0xF8)) := by decide +kernel
theorem and_1F (b : Nat) : b &&& 0x1F = b % 32 := Nat.and_two_pow_sub_one_eq_mod b 5
theorem and_3F (b : Nat) : b &&& 0x3F = b % 64 := Nat.and_two_pow_sub_one_eq_mod b 6
theorem and_0F (b : Nat) : b &&& 0x0F = b % 16 := Nat.and_two_pow_sub_one_eq_mod b 4
theorem and_07 (b : Nat) : b &&& 0x07 = b % 8 := Nat.and_two_pow_sub_one_eq_mod b 3

theorem or_eq_add (k x y : Nat) (hx : x % 2^k = 0) (hy : y < 2^k) : x ||| y = x + y := by
  have : x = (x / 2^k) <<< k := by
    rw [Nat.shiftLeft_eq]; 
    have := Nat.div_add_mod x (2^k)
    rw [hx, Nat.mul_comm] at this; omega
  rw [this, Nat.shiftLeft_add_eq_or_of_lt hy]

theorem cp2_eq (a b : Nat) : ((a % 32) <<< 6) ||| (b % 64) = a % 32 * 64 + b % 64 := by
  rw [or_eq_add 6 _ _ (by rw [Nat.shiftLeft_eq]; omega) (by omega), Nat.shiftLeft_eq]

theorem cp3_eq (a b c : Nat) :
    ((a % 16) <<< 12) ||| ((b % 64) <<< 6) ||| (c % 64) = a % 16 * 4096 + b % 64 * 64 + c % 64 := by
  rw [or_eq_add 12 (_ <<< 12) _ (by rw [Nat.shiftLeft_eq]; omega) (by rw [Nat.shiftLeft_eq]; omega)]
  rw [or_eq_add 6 _ _ (by rw [Nat.shiftLeft_eq, Nat.shiftLeft_eq]; omega) (by omega)]
  rw [Nat.shiftLeft_eq, Nat.shiftLeft_eq]

theorem cp4_eq (a b c d : Nat) :
    ((a % 8) <<< 18) ||| ((b % 64) <<< 12) ||| ((c % 64) <<< 6) ||| (d % 64)
      = a % 8 * 262144 + b % 64 * 4096 + c % 64 * 64 + d % 64 := by
  rw [or_eq_add 18 (_ <<< 18) _ (by rw [Nat.shiftLeft_eq]; omega) (by rw [Nat.shiftLeft_eq]; omega)]
  rw [or_eq_add 12 _ (_ <<< 6) (by rw [Nat.shiftLeft_eq, Nat.shiftLeft_eq]; omega) (by rw [Nat.shiftLeft_eq]; omega)]
  rw [or_eq_add 6 _ _ (by rw [Nat.shiftLeft_eq, Nat.shiftLeft_eq, Nat.shiftLeft_eq]; omega) (by omega)]
  rw [Nat.shiftLeft_eq, Nat.shiftLeft_eq, Nat.shiftLeft_eq]


/-- arithmetic restatement of `decode` on the window length and first four bytes -/
def decodeA (len b0 b1 b2 b3 : Nat) : Option (Nat × Nat) :=
  if len = 0 then none
  else if b0 < 0x80 then some (b0, 1)
  else if 2 ≤ len ∧ 0xC0 ≤ b0 ∧ b0 < 0xE0 then
    let cp := b0 % 32 * 64 + b1 % 64
    if (0x80 ≤ b1 ∧ b1 < 0xC0) ∧ 0x80 ≤ cp then some (cp, 2) else none
  else if 3 ≤ len ∧ 0xE0 ≤ b0 ∧ b0 < 0xF0 then
    let cp := b0 % 16 * 4096 + b1 % 64 * 64 + b2 % 64
    if (0x80 ≤ b1 ∧ b1 < 0xC0) ∧ (0x80 ≤ b2 ∧ b2 < 0xC0) ∧ 0x800 ≤ cp ∧ (cp < 0xD800 ∨ 0xE000 ≤ cp)
    then some (cp, 3) else none
  else if 4 ≤ len ∧ 0xF0 ≤ b0 ∧ b0 < 0xF8 then
    let cp := b0 % 8 * 262144 + b1 % 64 * 4096 + b2 % 64 * 64 + b3 % 64
    if (0x80 ≤ b1 ∧ b1 < 0xC0) ∧ (0x80 ≤ b2 ∧ b2 < 0xC0) ∧ (0x80 ≤ b3 ∧ b3 < 0xC0) ∧
        0x10000 ≤ cp ∧ cp ≤ 0x10FFFF
    then some (cp, 4) else none
  else none

theorem byteAt_lt (bs : List UInt8) (i : Nat) : byteAt bs i < 256 := UInt8.toNat_lt _

theorem decode_eq_decodeA (bs : List UInt8) :
    decode bs = decodeA bs.length (byteAt bs 0) (byteAt bs 1) (byteAt bs 2) (byteAt bs 3) := by
  have h0 := byteAt_lt bs 0
  simp only [decode]
  generalize byteAt bs 0 = b0 at *
  generalize byteAt bs 1 = b1 at *
  generalize byteAt bs 2 = b2 at *
  generalize byteAt bs 3 = b3 at *
  generalize bs.length = len at *
  simp only [decodeA, and_1F, and_3F, and_0F, and_07, cp2_eq, cp3_eq, cp4_eq,
    isTrailByte, isValidCodepoint, Bool.and_eq_true, Bool.or_eq_true, decide_eq_true_eq,
    beq_iff_eq, and_E0 b0 h0, and_F0 b0 h0, and_F8 b0 h0, ge_iff_le]
  repeat' split
  all_goals first | rfl | omega | skip



/-- the decoder looks at no more than the first four bytes of its window (and at whether 2, 3, 4 are there) -/
theorem decode_take4 (bs : List UInt8) : decode (bs.take 4) = decode bs := by
  rcases bs with _ | ⟨a, _ | ⟨b, _ | ⟨c, _ | ⟨d, r⟩⟩⟩⟩ <;> simp [decode, byteAt]

theorem prefix1 (x : UInt8) (bs : List UInt8) :
    [x] <+: bs ↔ 1 ≤ bs.length ∧ x.toNat = byteAt bs 0 := by
  rcases bs with _ | ⟨a, r⟩ <;> simp [byteAt, UInt8.toNat_inj]

theorem prefix2 (x y : UInt8) (bs : List UInt8) :
    [x, y] <+: bs ↔ 2 ≤ bs.length ∧ x.toNat = byteAt bs 0 ∧ y.toNat = byteAt bs 1 := by
  rcases bs with _ | ⟨a, _ | ⟨b, r⟩⟩ <;> simp [byteAt, UInt8.toNat_inj]

theorem prefix3 (x y z : UInt8) (bs : List UInt8) :
    [x, y, z] <+: bs ↔ 3 ≤ bs.length ∧ x.toNat = byteAt bs 0 ∧ y.toNat = byteAt bs 1 ∧
      z.toNat = byteAt bs 2 := by
  rcases bs with _ | ⟨a, _ | ⟨b, _ | ⟨c, r⟩⟩⟩ <;> simp [byteAt, UInt8.toNat_inj]

theorem prefix4 (x y z w : UInt8) (bs : List UInt8) :
    [x, y, z, w] <+: bs ↔ 4 ≤ bs.length ∧ x.toNat = byteAt bs 0 ∧ y.toNat = byteAt bs 1 ∧
      z.toNat = byteAt bs 2 ∧ w.toNat = byteAt bs 3 := by
  rcases bs with _ | ⟨a, _ | ⟨b, _ | ⟨c, _ | ⟨d, r⟩⟩⟩⟩ <;> simp [byteAt, UInt8.toNat_inj]

/-- arithmetic characterisation of a successful `decode` against the Table 3-6 encoder -/
theorem decode_eq_some_iff (bs : List UInt8) (c n : Nat) :
    decode bs = some (c, n) ↔ (Scalar c ∧ (encodeCP c).length = n ∧ encodeCP c <+: bs) := by
  rw [decode_eq_decodeA]
  have h0 := byteAt_lt bs 0
  have h1 := byteAt_lt bs 1
  have h2 := byteAt_lt bs 2
  have h3 := byteAt_lt bs 3
  unfold encodeCP Scalar
  repeat' split
  all_goals
    simp only [prefix1, prefix2, prefix3, prefix4, UInt8.toNat_ofNat', List.length_cons, List.length_nil, Nat.reducePow]
    generalize byteAt bs 0 = b0 at *
    generalize byteAt bs 1 = b1 at *
    generalize byteAt bs 2 = b2 at *
    generalize byteAt bs 3 = b3 at *
    generalize bs.length = len at *
    unfold decodeA
    simp only []
    repeat' split
    all_goals simp only [Option.some.injEq, Prod.mk.injEq, reduceCtorEq, false_iff]
    all_goals omega

/-- Table 3-7 on window length and first four bytes, without nested conditionals -/
def wf37A (len b0 b1 b2 b3 : Nat) : Option Nat :=
  if len = 0 then none
  else if b0 ≤ 0x7F then some 1
  else if 0xC2 ≤ b0 ∧ b0 ≤ 0xDF then
    if 2 ≤ len ∧ 0x80 ≤ b1 ∧ b1 ≤ 0xBF then some 2 else none
  else if 0xE0 ≤ b0 ∧ b0 ≤ 0xEF then
    if 3 ≤ len ∧ (0x80 ≤ b1 ∧ b1 ≤ 0xBF) ∧ (b0 = 0xE0 → 0xA0 ≤ b1) ∧ (b0 = 0xED → b1 ≤ 0x9F) ∧
      (0x80 ≤ b2 ∧ b2 ≤ 0xBF) then some 3 else none
  else if 0xF0 ≤ b0 ∧ b0 ≤ 0xF4 then
    if 4 ≤ len ∧ (0x80 ≤ b1 ∧ b1 ≤ 0xBF) ∧ (b0 = 0xF0 → 0x90 ≤ b1) ∧ (b0 = 0xF4 → b1 ≤ 0x8F) ∧
      (0x80 ≤ b2 ∧ b2 ≤ 0xBF) ∧ (0x80 ≤ b3 ∧ b3 ≤ 0xBF) then some 4 else none
  else none

theorem wf37_eq_wf37A (bs : List UInt8) :
    wf37 bs = wf37A bs.length (byteAt bs 0) (byteAt bs 1) (byteAt bs 2) (byteAt bs 3) := by
  rcases bs with _ | ⟨a, _ | ⟨b, _ | ⟨c, _ | ⟨d, r⟩⟩⟩⟩
  · rfl
  all_goals
    simp only [wf37, wf37A, byteAt, List.getD_cons_zero, List.getD_cons_succ, List.getD_nil, List.length_cons, List.length_nil,
      UInt8.toNat_zero, Bool.and_eq_true, decide_eq_true_eq]
    repeat' split
    all_goals first | rfl | omega

theorem decodeA_wf37A (len b0 b1 b2 b3 : Nat) (h0 : b0 < 256) :
    (decodeA len b0 b1 b2 b3).map (·.2) = wf37A len b0 b1 b2 b3 := by
  unfold decodeA wf37A
  simp only []
  repeat' split
  all_goals simp only [Option.map_some, Option.map_none, Option.some.injEq, reduceCtorEq]
  all_goals omega

theorem decode_map_snd_eq_wf37 (bs : List UInt8) : (decode bs).map (·.2) = wf37 bs := by
  rw [decode_eq_decodeA, wf37_eq_wf37A, decodeA_wf37A _ _ _ _ _ (byteAt_lt bs 0)]


theorem encodeCP_length_pos (c : Nat) : 1 ≤ (encodeCP c).length := by
  unfold encodeCP; repeat' split
  all_goals simp

theorem flatMap_encodeCP_eq_nil (cs : List Nat) : cs.flatMap encodeCP = [] ↔ cs = [] := by
  cases cs with
  | nil => simp
  | cons c cs =>
    have := encodeCP_length_pos c
    simp only [List.flatMap_cons, List.append_eq_nil_iff, reduceCtorEq, iff_false, not_and]
    intro h; rw [h] at this; simp at this

theorem decodeAllFuel_iff (fuel : Nat) : ∀ (bs : List UInt8) (cs : List Nat), bs.length ≤ fuel →
    (decodeAllFuel fuel bs = some cs ↔ ((∀ c ∈ cs, Scalar c) ∧ bs = cs.flatMap encodeCP)) := by
  induction fuel with
  | zero =>
    intro bs cs h
    have : bs = [] := List.length_eq_zero_iff.mp (by omega)
    subst this
    simp only [decodeAllFuel, Option.some.injEq]
    constructor
    · rintro rfl; simp
    · rintro ⟨_, h⟩; exact ((flatMap_encodeCP_eq_nil cs).mp h.symm).symm
  | succ fuel ih =>
    intro bs cs h
    cases bs with
    | nil =>
      simp only [decodeAllFuel, Option.some.injEq]
      constructor
      · rintro rfl; simp
      · rintro ⟨_, h⟩; exact ((flatMap_encodeCP_eq_nil cs).mp h.symm).symm
    | cons b r =>
      simp only [decodeAllFuel]
      constructor
      · intro hd
        split at hd
        · cases hd
        · rename_i c n hdec
          split at hd
          · cases hd
          · rename_i cps hrest
            cases hd
            obtain ⟨hs, hlen, hpre⟩ := (decode_eq_some_iff _ _ _).mp hdec
            have hn := encodeCP_length_pos c
            have hle : ((b :: r).drop n).length ≤ fuel := by
              rw [List.length_drop]; simp only [List.length_cons] at h ⊢; omega
            obtain ⟨hcs, hrest'⟩ := (ih _ _ hle).mp hrest
            refine ⟨?_, ?_⟩
            · intro x hx
              rcases List.mem_cons.mp hx with rfl | hx
              · exact hs
              · exact hcs x hx
            · rw [List.flatMap_cons, ← hrest', ← hlen]
              exact (List.prefix_iff_eq_append.mp hpre).symm
      · rintro ⟨hs, hbs⟩
        cases cs with
        | nil => simp at hbs
        | cons c cps =>
          rw [List.flatMap_cons] at hbs
          have hdec : decode (b :: r) = some (c, (encodeCP c).length) := by
            rw [decode_eq_some_iff]
            exact ⟨hs c (List.mem_cons_self ..), rfl, hbs ▸ List.prefix_append _ _⟩
          have hn := encodeCP_length_pos c
          have hdrop : (b :: r).drop (encodeCP c).length = cps.flatMap encodeCP := by
            rw [hbs, List.drop_left]
          have hle : ((b :: r).drop (encodeCP c).length).length ≤ fuel := by
            rw [List.length_drop]; simp only [List.length_cons] at h ⊢; omega
          have hrest := (ih _ cps hle).mpr ⟨fun x hx => hs x (List.mem_cons_of_mem _ hx), hdrop⟩
          rw [hdec]; simp only [hrest]


end PV.Lemmas.Utf8
