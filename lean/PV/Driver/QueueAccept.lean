import PV.Model.Queues
import PV.Model.RingReserve
import PV.Driver.Proto
/-
Trace acceptance for C16: the controlled scheduler (harness/implsched_main.cc) reports which thread was
granted which semaphore operation; between two grants a thread runs alone, so the slot / page / block
accesses it performs are appended as the internal LTS labels right after the grant.
-/
namespace PV.QueueAccept
open PV.Queues

structure Ev where
  thread : Nat
  op : String      -- start | wait | post | cont | join   (cont = the thread resumes after a granted wait/post)
  sem : Option Nat
  deriving Repr

def parseEv (w : String) : Option Ev :=
  match w.splitOn ":" with
  | [t, op, s] => match t.toNat? with
    | some t => some ⟨t, op, s.toNat?⟩
    | none => none
  | _ => none

def runLabels {σ lab : Type} (step : σ → lab → Option σ) : σ → List lab → Option σ
  | s, [] => some s
  | s, l :: ls => match step s l with
    | some s' => runLabels step s' ls
    | none => none

/-! PCQueue: threads 0..P-1 produce, P.. consume; semaphore 0 = empty_, 1 = used_ -/
def pcqLabels (nProd : Nat) (e : Ev) : Option (List PCQ.Label) :=
  if e.op == "start" then some []
  else if e.op == "unlock" then some []      -- the thread resumes after releasing a mutex: the critical section is one LTS step
  else if e.thread < nProd then
    match e.op, e.sem with
    | "wait", some 0 => some [.pWait e.thread]
    | "cont", some 0 => some [.pEnter e.thread, .pLeave e.thread]      -- resumes after empty_.wait(): lock, store, unlock
    | "post", some 1 => some [.pPost e.thread]
    | "cont", some 1 => some []
    | _, _ => none
  else
    let j := e.thread - nProd
    match e.op, e.sem with
    | "wait", some 1 => some [.cWait j]
    | "cont", some 1 => some [.cEnter j, .cLeave j]
    | "post", some 0 => some [.cPost j]
    | "cont", some 0 => some []
    | _, _ => none

def pcqAccept (p : PCQ.Params) : PCQ.State → List Ev → Nat → Except String PCQ.State
  | s, [], _ => .ok s
  | s, e :: es, i =>
    match pcqLabels p.items.length e with
    | none => .error s!"rejected-at {i} unexpected-operation"
    | some ls => match runLabels (PCQ.step p) s ls with
      | some s' => if s'.bad then .error s!"rejected-at {i} slot-conflict" else pcqAccept p s' es (i + 1)
      | none => .error s!"rejected-at {i} not-enabled"

/-! UnboundedSingleQueue: thread 0 produces, 1 consumes; semaphore 0 = valid_ -/
def usqAccept (p : USQ.Params) : USQ.State → List Ev → Nat → Except String USQ.State
  | s, [], _ => .ok s
  | s, e :: es, i =>
    let ls : Option (List USQ.Label) :=
      match e.thread, e.op with
      | 0, "start" => some (if p.n > 0 then [.pPage, .pWrite] else [])
      | 0, "post" => some [.pPost]
      | 0, "cont" => some (if s.produced < p.n then [.pPage, .pWrite] else [])      -- next Produce up to its post
      | 1, "start" => some []
      | 1, "wait" => some [.cWait]
      | 1, "cont" => some [.cPage, .cRead]
      | _, _ => none
    match ls with
    | none => .error s!"rejected-at {i} unexpected-operation"
    | some ls => match runLabels (USQ.step p) s ls with
      | some s' => if s'.bad then .error s!"rejected-at {i} page-or-entry-conflict" else usqAccept p s' es (i + 1)
      | none => .error s!"rejected-at {i} not-enabled"

/-! Ring: thread 0 = caller, 1 = writer thread; semaphore 0 = output_, 1 = trash_ -/
def ringClosure (p : Ring2.Params) : Nat → Ring2.State → Ring2.State
  | 0, s => s
  | fuel + 1, s =>
    match Ring2.step p s .pCopy with
    | some s' => ringClosure p fuel s'
    | none => match Ring2.step p s .pCall with
      | some s' => ringClosure p fuel s'
      | none => s

def ringAccept (p : Ring2.Params) (fuel : Nat) : Ring2.State → List Ev → Nat → Except String Ring2.State
  | s, [], _ => .ok s
  | s, e :: es, i =>
    if s.pPc == .joined then .ok s      -- the caller's own ~Lease post after join is outside the model
    else
      let r : Option Ring2.State :=
        match e.thread, e.op, e.sem with
        | 0, "start", _ => some s
        | 0, "wait", some 1 => Ring2.step p s .pAcquire
        | 0, "cont", some 1 => some (ringClosure p fuel s)          -- the write() calls up to the next spill
        | 0, "post", some 0 => Ring2.step p s .pSpill
        | 0, "cont", some 0 => some s
        | 0, "join", _ => Ring2.step p s .pJoin
        | 1, "wait", some 0 => Ring2.step p s .cAcquire
        | 1, "cont", some 0 => if s.blocks.getD s.cCur [] = [] then some s else Ring2.step p s .cWrite   -- writer_.write(...)
        | 1, "post", some 1 => Ring2.step p s .cRelease
        | 1, "cont", some 1 => some s
        | 1, "post", some 0 => Ring2.step p s .cWrite               -- size 0: leave the loop, ~Lease posts
        | 1, "cont", _ => some s
        | _, _, _ => none
      match r with
      | some s' => if s'.bad then .error s!"rejected-at {i} block-conflict" else ringAccept p fuel s' es (i + 1)
      | none => .error s!"rejected-at {i} not-enabled"

def csvNat (s : String) : Option (List Nat) :=
  if s == "-" then some [] else (s.splitOn ",").mapM String.toNat?

/-- queue.accept pcq <cap> <items per producer> <quotas> <events...>
    queue.accept usq <n> <events...>
    queue.accept ring <write sizes> <events...> -/
def unit (args : List String) : String :=
  match args with
  | "pcq" :: cap :: items :: quotas :: evs =>
    match cap.toNat?, csvNat items, csvNat quotas, evs.mapM parseEv with
    | some cap, some items, some quotas, some evs =>
      let its := items.mapIdx (fun i n => (List.range n).map (fun k => (i, k)))
      let p : PCQ.Params := ⟨cap, its, quotas⟩
      match pcqAccept p (PCQ.init p) evs 0 with
      | .error m => m
      | .ok s =>
        let fin := (s.prods.zip p.items).all (fun (pr, l) => pr.pc == .idle && pr.next == l.length) &&
                   (s.cons.zip p.quotas).all (fun (c, q) => c.pc == .idle && c.taken == q)
        let got := " | ".intercalate (s.cons.map (fun c => String.join (c.got.map (fun it => s!"{it.1 * 1000 + it.2} "))))
        s!"accepted {evs.length} final={fin} got {got}"
    | _, _, _, _ => "bad-op"
  | "usq" :: n :: evs =>
    match n.toNat?, evs.mapM parseEv with
    | some n, some evs =>
      let p : USQ.Params := ⟨1023, n⟩
      match usqAccept p USQ.init evs 0 with
      | .error m => m
      | .ok s => s!"accepted {evs.length} final={s.pPc == .idle && s.produced == n && s.cPc == .idle && s.got.length == n} fifo={s.got == List.range n}"
    | _, _ => "bad-op"
  | "ring" :: toks :: evs =>
    -- tokens: <n> = write() of n bytes (pattern v++ % 251 over the written bytes); u<d> = operator<< of the d-digit
    -- number 10^(d-1) (Ensure(kBytesU64)); c = operator<< of 'x' (Ensure(1))
    let tokens := if toks == "-" then [] else (toks.splitOn ",").filter (· ≠ "")
    let rec build : List String → Nat → Option (List Ring2.Call)
      | [], _ => some []
      | t :: ts, v =>
        if t == "c" then (build ts v).map (⟨1, [120]⟩ :: ·)
        else if t.startsWith "u" then
          match (t.drop 1).toNat? with
          | some d =>
            let d := max 1 (min d 20)
            (build ts v).map (⟨PV.Gen.kBytesU64, (49 : UInt8) :: List.replicate (d - 1) 48⟩ :: ·)
          | none => none
        else match t.toNat? with
          | some n => (build ts (v + n)).map (⟨0, (List.range n).map (fun k => UInt8.ofNat ((v + k) % 256 % 251))⟩ :: ·)
          | none => none
    match build tokens 0, evs.mapM parseEv with
    | some calls, some evs =>
      let p : Ring2.Params := ⟨PV.Gen.kBlocks, PV.Gen.kBlockSize, calls⟩
      let total := (Ring2.allBytes p).length
      match ringAccept p (total + 2 * calls.length + 2) (Ring2.init p) evs 0 with
      | .error m => m
      | .ok s => s!"accepted {evs.length} final={s.pPc == .joined} bytes={s.file.length} file-ok={s.file == Ring2.allBytes p}"
    | _, _ => "bad-op"
  | _ => "bad-op"

end PV.QueueAccept
