import PV.Driver.Proto
import PV.Model.Utf8
import PV.Spec.Utf8
import PV.Spec.Utf8Dec
import PV.Model.Base64
import PV.Model.Docenc
import PV.Spec.Base64
/-
One function per unit: `List String` (the operation's arguments) to one output line.
-/
namespace PV.Units
open PV.Proto

def utf8 (op : String) (args : List String) : String :=
  match op, args with
  | "decode", [h] =>
    match unhex h with
    | some bs => match PV.Utf8.decode bs with
      | some (cp, n) => s!"ok {cp} {n}"
      | none => "ERR:notutf8"
    | none => "bad-op"
  | "isutf8", [h] =>
    match unhex h with
    | some bs => if PV.Utf8.isUTF8 bs then "true" else "false"
    | none => "bad-op"
  | "spec.decode", [h] =>    -- oracle (spec side)
    match unhex h with
    | some bs => match PV.Spec.Utf8.specDecode bs with
      | some (cp, n) => s!"ok {cp} {n}"
      | none => "ERR:notutf8"
    | none => "bad-op"
  | "spec.isutf8", [h] =>
    match unhex h with
    | some bs => if PV.Spec.Utf8.specWellFormed bs then "true" else "false"
    | none => "bad-op"
  | _, _ => "bad-op"

def b64 (op : String) (args : List String) : String :=
  match op, args with
  | "enc", [h] =>
    match unhex h with
    | some bs => s!"ok {hex (PV.Base64.encode bs)}"
    | none => "bad-op"
  | "dec", [h] =>
    match unhex h with
    | some bs => match PV.Base64.decode bs with
      | .ok o => s!"ok {hex o}"
      | .notB64 => "ERR:notb64"
      | .length => "ERR:length"
    | none => "bad-op"
  | "spec.enc", [h] =>
    match unhex h with
    | some bs => s!"ok {hex (PV.Spec.Base64.rfc4648 bs)}"
    | none => "bad-op"
  | "spec.judgedec", [h, r] =>   -- r = "ERR" or the hex of the decoder's answer
    match unhex h, (if r == "ERR" then some none else (unhex r).map some) with
    | some bs, some res => if PV.Spec.Base64.judgeDecode bs res then "pass" else "fail"
    | _, _ => "bad-op"
  | _, _ => "bad-op"

def natList (s : String) : Option (List Nat) :=
  if s == "-" then some [] else (s.splitOn ",").mapM String.toNat?

def docenc (op : String) (args : List String) : String :=
  match op, args with
  | "enc", [nul, ind, h] =>
    match unhex h, natList ind with
    | some bs, some ind => s!"ok {hex (PV.Docenc.encode (nul == "1") ind bs)}"
    | _, _ => "bad-op"
  | "dec", [nul, ind, h] =>
    match unhex h, natList ind with
    | some bs, some ind => match PV.Docenc.decode (nul == "1") ind bs with
      | some o => s!"ok {hex o}"
      | none => "ERR:abort"
    | _, _ => "bad-op"
  | _, _ => "bad-op"

def dispatch (line : String) : String :=
  match words line with
  | [] => "bad-op"
  | cmd :: args =>
    match cmd.splitOn "." with
    | ["utf8", op] => utf8 op args
    | ["utf8", "spec", op] => utf8 ("spec." ++ op) args
    | ["b64", op] => b64 op args
    | ["docenc", op] => docenc op args
    | ["b64", "spec", op] => b64 ("spec." ++ op) args
    | _ => "bad-op"

end PV.Units
