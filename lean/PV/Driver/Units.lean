import PV.Model.Substitute
import PV.Driver.Proto
import PV.Model.Utf8
import PV.Spec.Utf8
import PV.Spec.Utf8Dec
import PV.Model.Base64
import PV.Model.Docenc
import PV.Model.Murmur
import PV.Spec.Murmur
import PV.Model.Fields
import PV.Spec.Fields
import PV.Model.Table
import PV.Spec.Map
import PV.Spec.TableInv
import PV.Model.Fold
import PV.Model.B64filter
import PV.Model.Tools
import PV.Model.Reader
import PV.Model.ReaderFallback
import PV.Model.Io
import PV.Model.Flatten
import PV.Model.Warc
import PV.Model.Format
import PV.Model.Cache
import PV.Model.WrapperTrace
import PV.Driver.QueueAccept
import PV.Model.Compress
import PV.Spec.Flatten
import PV.Gen.Flatten
import PV.Spec.FirstOcc
import PV.Spec.Base64
import PV.Model.Cleaning
import PV.Model.BufStream
import PV.Model.Tools2
import PV.Model.CleaningThresholds
import PV.Model.Pool
import PV.Model.MVocab
/-
One function per unit: `List String` (the operation's arguments) to one output line.
-/
namespace PV.Units
open PV.Proto

def utf8 (op : String) (args : List String) : String :=
  match op, args with
  | "decode", [h] =>
    match unhex h with
    | some bs => match PV.Utf8.decode bs with
      | some (cp, n) => s!"ok {cp} {n}"
      | none => "ERR:notutf8"
    | none => "bad-op"
  | "isutf8", [h] =>
    match unhex h with
    | some bs => if PV.Utf8.isUTF8 bs then "true" else "false"
    | none => "bad-op"
  | "isutf8", [h, _align] =>      -- the answer does not depend on where the bytes sit in memory
    match unhex h with
    | some bs => if PV.Utf8.isUTF8 bs then "true" else "false"
    | none => "bad-op"
  | "iterhuge", [n, h] =>   -- front of a text of n bytes = the given bytes followed by NULs (n may be 2^32 and more): by
                            -- PV.Props.C12.decode_window only the first min n 4 bytes matter
    match n.toNat?, unhex h with
    | some n, some bs => match PV.Utf8.decode ((bs ++ [0, 0, 0, 0]).take (min n 4)) with
      | some (cp, k) => s!"ok {cp} {k}"
      | none => "ERR:notutf8"
    | _, _ => "bad-op"
  | "spec.iterhuge", [n, h] =>
    match n.toNat?, unhex h with
    | some n, some bs => match PV.Spec.Utf8.specDecode ((bs ++ [0, 0, 0, 0]).take (min n 4)) with
      | some (cp, k) => s!"ok {cp} {k}"
      | none => "ERR:notutf8"
    | _, _ => "bad-op"
  | "spec.decode", [h] =>    -- oracle (spec side)
    match unhex h with
    | some bs => match PV.Spec.Utf8.specDecode bs with
      | some (cp, n) => s!"ok {cp} {n}"
      | none => "ERR:notutf8"
    | none => "bad-op"
  | "spec.isutf8", [h] =>
    match unhex h with
    | some bs => if PV.Spec.Utf8.specWellFormed bs then "true" else "false"
    | none => "bad-op"
  | "spec.isutf8", [h, _align] =>
    match unhex h with
    | some bs => if PV.Spec.Utf8.specWellFormed bs then "true" else "false"
    | none => "bad-op"
  | _, _ => "bad-op"

def b64 (op : String) (args : List String) : String :=
  match op, args with
  | "enc", [h] =>
    match unhex h with
    | some bs => s!"ok {hex (PV.Base64.encode bs)}"
    | none => "bad-op"
  | "dec", [h] =>
    match unhex h with
    | some bs => match PV.Base64.decode bs with
      | .ok o => s!"ok {hex o}"
      | .notB64 => "ERR:notb64"
      | .length => "ERR:length"
    | none => "bad-op"
  | "enchuge", [n, offs] =>   -- text of n bytes: NUL everywhere, a marker byte every 1048573 bytes (harness: huge_byte).  By
                              -- encode_length / encode_window / encode_tail (PV.Props.C09) the output's length and any 4-aligned
                              -- window are those of the corresponding input window; only the windows are computed here.
    match n.toNat?, (if offs == "-" then some [] else (offs.splitOn ",").mapM String.toNat?) with
    | some n, some os =>
      if n == 0 then "bad-op" else
      let hb : Nat → UInt8 := fun p => if p % 1048573 == 0 then UInt8.ofNat ((p / 1048573) % 251 + 1) else 0
      let win : Nat → Nat → List UInt8 := fun o k => (List.range k).map (fun i => hb (o + i))
      let ws := os.map (fun o => s!" {o}:" ++ (if o / 3 * 4 + 8 ≤ 4 * ((n + 2) / 3) then hex (PV.Base64.encode (win o 6)) else "short"))
      let last := (n - 1) / 3 * 3
      s!"ok len={4 * ((n + 2) / 3)}" ++ String.join ws ++ " tail:" ++ hex (PV.Base64.encode (win last (n - last)))
    | _, _ => "bad-op"
  | "dechuge", [n, h] =>      -- prefix (no '=') followed by NUL bytes up to n: NUL is foreign, so by decode_rejects_foreign the
                              -- result is never ok, however long the text; the model decodes the prefix plus one NUL
    match n.toNat?, unhex h with
    | some _, some pre => match PV.Base64.decode (pre ++ [0]) with
      | .ok o => s!"ok {o.length}"
      | .notB64 => "ERR:notb64"
      | .length => "ERR:length"
    | _, _ => "bad-op"
  | "decseq", hs =>      -- every document on its own: the result may not depend on what was decoded before
    match hs.mapM unhex with
    | some docs =>
      let rs := docs.map (fun bs => match PV.Base64.decode bs with
        | .ok o => s!"ok {hex o}"
        | .notB64 => "ERR:notb64"
        | .length => "ERR:length")
      if rs.isEmpty then "-" else " ; ".intercalate rs
    | none => "bad-op"
  | "spec.enc", [h] =>
    match unhex h with
    | some bs => s!"ok {hex (PV.Spec.Base64.rfc4648 bs)}"
    | none => "bad-op"
  | "spec.judgedec", [h, r] =>   -- r = "ERR" or the hex of the decoder's answer
    match unhex h, (if r == "ERR" then some none else (unhex r).map some) with
    | some bs, some res => if PV.Spec.Base64.judgeDecode bs res then "pass" else "fail"
    | _, _ => "bad-op"
  | _, _ => "bad-op"

def natList (s : String) : Option (List Nat) :=
  if s == "-" then some [] else (s.splitOn ",").mapM String.toNat?

def docenc (op : String) (args : List String) : String :=
  match op, args with
  | "enc", [nul, ind, h] =>
    match unhex h, natList ind with
    | some bs, some ind => s!"ok {hex (PV.Docenc.encode (nul == "1") ind bs)}"
    | _, _ => "bad-op"
  | "dec", [nul, ind, h] =>
    match unhex h, natList ind with
    | some bs, some ind => match PV.Docenc.decode (nul == "1") ind bs with
      | some o => s!"ok {hex o}"
      | none => "ERR:abort"
    | _, _ => "bad-op"
  | _, _ => "bad-op"

def murmur (op : String) (args : List String) : String :=
  match op, args with
  | "hash", [seed, h, _align] =>
    match seed.toNat?, unhex h with
    | some sd, some bs => match PV.Murmur.hash64A? bs.toArray (UInt64.ofNat sd) with
      | some v => s!"ok {v.toNat}"
      | none => "OOB"
    | _, _ => "bad-op"
  | "native", [seed, h, _align] =>
    match seed.toNat?, unhex h with
    | some sd, some bs => s!"ok {(PV.Murmur.hash64A bs (UInt64.ofNat sd)).toNat}"
    | _, _ => "bad-op"
  | "casekey", [a, b] =>
    match unhex a, unhex b with
    | some src, some low => s!"ok {(PV.Murmur.caseKey src low).toNat}"
    | _, _ => "bad-op"
  | "spec.hash", [seed, h, _align] =>
    match seed.toNat?, unhex h with
    | some sd, some bs => s!"ok {(PV.Spec.Murmur.murmurRef bs (UInt64.ofNat sd)).toNat}"
    | _, _ => "bad-op"
  | _, _ => "bad-op"

def rangesStr (rs : List PV.Fields.FieldRange) : String :=
  if rs.isEmpty then "ok -" else "ok " ++ ",".intercalate (rs.map (fun f => s!"{f.begin}:{f.stop}"))

def parseRanges (s : String) : Option (List PV.Fields.FieldRange) :=
  if s == "-" then some [] else
  (s.splitOn ",").mapM (fun it => match it.splitOn ":" with
    | [a, b] => match a.toNat?, b.toNat? with
      | some a, some b => some ⟨a, b⟩
      | _, _ => none
    | _ => none)

def piecesStr (ps : List (List UInt8)) : String :=
  s!"ok {ps.length}" ++ String.join (ps.map (fun p => " " ++ hex p))

def fields (op : String) (args : List String) : String :=
  match op, args with
  | "parse", [h] =>
    match unhex h with
    | some s => match PV.Fields.parseFields s with
      | some rs => rangesStr rs
      | none => "ERR:badfield"
    | none => "bad-op"
  | "parsedefrag", [h] =>
    match unhex h with
    | some s => match PV.Fields.parseAndDefragment s with
      | some rs => rangesStr rs
      | none => "ERR:badfield"
    | none => "bad-op"
  | "spec.parse", [h] =>
    match unhex h with
    | some s => match PV.Spec.Fields.cutParse s with
      | some its => rangesStr (its.map PV.Spec.Fields.Item.denote)
      | none => "ERR:badfield"
    | none => "bad-op"
  | "range", [l, d, rs] =>
    match unhex l, unhex d, parseRanges rs with
    | some line, some [dl], some rs => piecesStr (PV.Fields.rangeFields line rs dl)
    | _, _, _ => "bad-op"
  | "indiv", [l, d, rs] =>
    match unhex l, unhex d, parseRanges rs with
    | some line, some [dl], some rs => piecesStr (PV.Fields.individualFields line rs dl)
    | _, _, _ => "bad-op"
  | "spec.range", [l, d, rs] =>
    match unhex l, unhex d, parseRanges rs with
    | some line, some [dl], some rs => piecesStr (PV.Spec.Fields.cutSelect rs dl line)
    | _, _, _ => "bad-op"
  | "spec.indiv", [l, d, rs] =>
    match unhex l, unhex d, parseRanges rs with
    | some line, some [dl], some rs => piecesStr (rs.flatMap (PV.Spec.Fields.selected (PV.Spec.Fields.splitFields dl line)))
    | _, _, _ => "bad-op"
  | _, _ => "bad-op"

def parseTableOps (s : String) : Option (List PV.Table.Op) :=
  ((s.splitOn ",").filter (· ≠ "")).mapM (fun o => match o.splitOn ":" with
    | ["i", k, v] => match k.toNat?, v.toNat? with
      | some k, some v => some (PV.Table.Op.insert k v)
      | _, _ => none
    | ["n", k, v] => match k.toNat?, v.toNat? with        -- Insert() of an absent key = insert-if-absent of an absent key
      | some k, some v => some (PV.Table.Op.insert k v)
      | _, _ => none
    | ["f", k] => k.toNat?.map PV.Table.Op.find
    | _ => none)

def ansStr : PV.Table.Ans → String
  | .inserted true e => s!"t:{e.2}"
  | .inserted false e => s!"n:{e.2}"
  | .found (some e) => s!"{e.2}"
  | .found none => "-"

/-- run ops one at a time so that the bucket count after every op can be printed. -/
def tableRun (t : PV.Table.Table) : List PV.Table.Op → List String → Option (List String × PV.Table.Table)
  | [], acc => some (acc.reverse, t)
  | op :: ops, acc =>
    match PV.Table.step t op with
    | none => none
    | some (a, t') => tableRun t' ops (s!"{ansStr a}|{t'.buckets}" :: acc)

def specRun (m : PV.Spec.Map.M) : List PV.Table.Op → List String → List String
  | [], acc => acc.reverse
  | op :: ops, acc =>
    let (a, m') := PV.Spec.Map.step m op
    specRun m' ops (ansStr a :: acc)

def table (op : String) (args : List String) : String :=
  match op, args with
  | "run", ops :: rest =>
    match parseTableOps ops with
    | some ops => match tableRun PV.Table.init ops [] with
      | some (out, t) =>
        let base := "ok" ++ String.join (out.map (" " ++ ·))
        if rest == ["layout"] then
          base ++ " L" ++ String.join (t.slots.toList.map (fun e => s!" {e.1}:{if e.1 == 0 then 0 else e.2}"))
        else base
      | none => "DIVERGED"
    | none => "bad-op"
  | "spec.run", [ops] =>
    match parseTableOps ops with
    | some ops => "ok" ++ String.join ((specRun [] ops []).map (" " ++ ·))
    | none => "bad-op"
  | "inv", keys =>     -- the implementation's real bucket keys
    match keys.mapM String.toNat? with
    | some ks => if PV.Spec.TableInv.check ks.toArray then "inv-ok" else "inv-broken"
    | none => "bad-op"
  | _, _ => "bad-op"

def fold (op : String) (args : List String) : String :=
  match op, args with
  | "wrap", [w, keep, ds, h] =>
    match w.toNat?, natList ds, unhex h with
    | some w, some ds, some line =>
      match PV.Fold.wrapLines line { width := w, keep := keep == "1", delims := ds } with
      | some ps => s!"ok {ps.length}" ++ String.join (ps.map (fun (p, d) => " " ++ hex p ++ "/" ++ hex d))
      | none => "ERR:notutf8"
    | _, _, _ => "bad-op"
  | _, _ => "bad-op"

/-- built-in line-to-line children matching the real children the harness uses
    (`cat`, `tr a-z A-Z`, `sed s/^/X/`). -/
def childFn (name : String) : Option (List (List UInt8) → List (List UInt8)) :=
  match name with
  | "id" => some id
  | "upper" => some (fun ls => ls.map (fun l => l.map (fun b => if 97 ≤ b && b ≤ 122 then b - 32 else b)))
  | "prefix" => some (fun ls => ls.map (fun l => 88 :: l))
  | _ => none

def b64f (op : String) (args : List String) : String :=
  match op, args with
  | "run", [child, h] =>     -- h = the tool's stdin
    match childFn child, unhex h with
    | some f, some input =>
      match PV.B64filter.run f (PV.Spec.Records.splitRecords 10 true input) with
      | some out => s!"ok {hex (PV.Spec.Records.unlines out)}"
      | none => "ERR:abort"
    | _, _ => "bad-op"
  | _, _ => "bad-op"

open PV.Tools in
def toolRanges (fspec : String) : Option (List PV.Fields.FieldRange) :=
  match unhex fspec with
  | some s => PV.Fields.parseAndDefragment s
  | none => none

def recs (bs : List UInt8) : List (List UInt8) := PV.Spec.Records.splitRecords 10 true bs
def unl (ls : List (List UInt8)) : String := hex (PV.Spec.Records.unlines ls)

def tools (op : String) (args : List String) : String :=
  match op, args with
  | "dedupe", [f, d, h] =>
    match toolRanges f, unhex d, unhex h with
    | some rs, some [dl], some input =>
      let ls := recs input
      match PV.Tools.dedupe (PV.Tools.dedupeKey rs dl) ls with
      | some out => s!"ok {unl out} {out.length} {ls.length}"
      | none => "DIVERGED"
    | none, _, _ => "ERR:badfield"
    | _, _, _ => "bad-op"
  | "spec.dedupe", [f, d, h] =>      -- first occurrence by the selected TEXT (cut semantics)
    match toolRanges f, unhex d, unhex h with
    | some rs, some [dl], some input =>
      let out := PV.Spec.FirstOcc.firstOccBy (fun l => PV.Spec.Fields.cutSelect rs dl l) (recs input)
      s!"ok {unl out}"
    | none, _, _ => "ERR:badfield"
    | _, _, _ => "bad-op"
  | "dedupepar", [f, d, h0, h1] =>
    match toolRanges f, unhex d, unhex h0, unhex h1 with
    | some rs, some [dl], some i0, some i1 =>
      let l0 := recs i0
      let l1 := recs i1
      if l1.length < l0.length then "ERR:eof"            -- in1.ReadLine() throws EndOfFileException
      else
        match PV.Tools.dedupePar (PV.Tools.dedupeKey rs dl) (l0.zip l1) with
        | some out =>
          if l1.length > l0.length then s!"UNBALANCED {unl (out.map (·.1))} {unl (out.map (·.2))}"
          else s!"ok {unl (out.map (·.1))} {unl (out.map (·.2))}"
        | none => "DIVERGED"
    | none, _, _, _ => "ERR:badfield"
    | _, _, _, _ => "bad-op"
  | "spec.dedupepar", [f, d, h0, h1] =>
    match toolRanges f, unhex d, unhex h0, unhex h1 with
    | some rs, some [dl], some i0, some i1 =>
      let out := PV.Spec.FirstOcc.parSpec (fun l => PV.Spec.Fields.cutSelect rs dl l) ((recs i0).zip (recs i1))
      s!"ok {unl (out.map (·.1))} {unl (out.map (·.2))}"
    | _, _, _, _ => "bad-op"
  | "shard", [n, f, d, h] =>
    match n.toNat?, toolRanges f, unhex d, unhex h with
    | some n, some rs, some [dl], some input =>
      if n == 0 then "ERR:zero-shards" else
      "ok" ++ String.join ((PV.Tools.shard (PV.Tools.shardKey rs dl) n (recs input)).map (fun f => " " ++ unl f))
    | _, none, _, _ => "ERR:badfield"
    | _, _, _, _ => "bad-op"
  | "b64number", [h] =>
    match unhex h with
    | some input => match PV.Tools2.base64Number (recs input) with
      | some out => s!"ok {unl out}"
      | none => "ERR:notb64"
    | none => "bad-op"
  | "substitute", [h] =>        -- through the hash-table model (values stored in the entries)
    match unhex h with
    | some input => match PV.Substitute.substitute (recs input) with
      | some out => s!"ok {unl out}"
      | none => "ERR"
    | none => "bad-op"
  | "spec.substitute", [h] =>   -- table-free specification
    match unhex h with
    | some input => match PV.Substitute.spec (recs input) with
      | some out => s!"ok {unl out}"
      | none => "ERR"
    | none => "bad-op"
  | "vocab", [h] =>
    match unhex h with
    | some input => match PV.Tools2.vocab input with
      | some out => s!"ok {hex out}"
      | none => "DIVERGED"
    | none => "bad-op"
  | "shardnames", [p, n] =>
    match n.toNat? with
    | some n => "ok " ++ " ".intercalate (PV.Tools.shardNames p n)
    | none => "bad-op"
  | "long", [lim, h] =>
    match lim.toNat?, unhex h with
    | some lim, some input => s!"ok {unl (PV.Tools.removeLongLines lim (recs input))}"
    | _, _ => "bad-op"
  | "utf8", [h] =>
    match unhex h with
    | some input => s!"ok {unl (PV.Tools.removeInvalidUtf8 (recs input))}"
    | none => "bad-op"
  | "utf8b64", [h] =>
    match unhex h with
    | some input => match PV.Tools.removeInvalidUtf8Base64 (recs input) with
      | some out => s!"ok {unl out}"
      | none => "ERR:abort"
    | none => "bad-op"
  | "subtract", [sub, h] =>
    match unhex sub, unhex h with
    | some sub, some input => match PV.Tools.subtractLines PV.Tools.lineKey (recs sub) (recs input) with
      | some out => s!"ok {unl out}"
      | none => "DIVERGED"
    | _, _ => "bad-op"
  | "cc", [rm, h] =>
    match unhex rm, unhex h with
    | some rm, some input => match PV.Tools.commoncrawlDedupe PV.Tools.lineKey (recs rm) (recs input) with
      | some out => s!"ok {unl out}"
      | none => "DIVERGED"
    | _, _ => "bad-op"
  | _, _ => "bad-op"

def intList (s : String) : Option (List Int) :=
  if s == "-" then some [] else (s.splitOn ",").mapM String.toInt?

def recsStr (ls : List (List UInt8)) : String :=
  s!"ok {ls.length}" ++ String.join (ls.map (fun l => " " ++ hex l))

/-- reader.lines <backing> <delim> <strip> <min_buffer> <sched> <how> <start> <hexdata>
    `min_buffer` is FilePiece's argument: default_map_size_ = page * max(min_buffer / page + 1, 2), page = 4096. -/
def reader (op : String) (args : List String) : String :=
  match op, args with
  | "lines", [backing, d, strip, minb, sched, how, start, h] =>
    match unhex d, minb.toNat?, natList sched, start.toNat?, unhex h with
    | some [dl], some mb, some sc, some st, some data =>
      let page := 4096
      let cap0 := page * max (mb / page + 1) 2
      let stripCr := strip == "1" || how == "2"          -- LineIterator always strips
      let res := if backing == "file" then PV.Reader.recordsMmap dl stripCr data page cap0 st
                 else if backing.startsWith "filenommap" then
                   -- "filenommap:<k>": k mmap calls succeed, then the file is read with read(2)
                   let k := ((backing.splitOn ":").getD 1 "0").toNat?.getD 0
                   PV.Reader.recordsFallback dl stripCr data page cap0 st k sc
                 else PV.Reader.recordsRead dl stripCr cap0 data sc
      match res with
      | some ls => recsStr ls
      | none => "DIVERGED"
    | _, _, _, _, _ => "bad-op"
  | "spec.lines", [_, d, strip, _, _, how, start, h] =>
    match unhex d, start.toNat?, unhex h with
    | some [dl], some st, some data => recsStr (PV.Spec.Records.splitRecords dl (strip == "1" || how == "2") (data.drop st))
    | _, _, _ => "bad-op"
  | _, _ => "bad-op"

def natsStr (l : List Nat) (pfx : String) : String := String.join (l.map (fun n => pfx ++ toString n ++ " "))

def io (op : String) (args : List String) : String :=
  match op, args with
  | "write", [sched, h] =>
    match intList sched, unhex h with
    | some sc, some data => match PV.Io.writeOrThrow data sc with
      | .ok d log => s!"ok {hex d} | {natsStr log "w"}"
      | .err d log => s!"ERR:errno {hex d} | {natsStr log "w"}"
      | .diverged => "DIVERGED"
    | _, _ => "bad-op"
  | rd, [sched, amount, h] =>
    match intList sched, amount.toNat?, unhex h with
    | some sc, some am, some data =>
      let r := if rd == "readorthrow" then PV.Io.readOrThrow am data sc
               else if rd == "readoreof" then PV.Io.readOrEOF am data sc
               else PV.Io.partialReadOnce am data sc
      match r with
      | .ok g log => s!"ok {hex g} | {natsStr log "r"}"
      | .eof log => s!"ERR:eof - | {natsStr log "r"}"
      | .err log => s!"ERR:errno - | {natsStr log "r"}"
      | .diverged => "DIVERGED"
    | _, _, _ => "bad-op"
  | _, _ => "bad-op"

def decode16 : List Nat → List Nat
  | hi :: lo :: r => if PV.Flatten.isLead hi && PV.Flatten.isTrail lo then PV.Flatten.combine hi lo :: decode16 r else hi :: decode16 (lo :: r)
  | l => l

/-- flat.apply <lang> <space code points csv|-> <units csv|->  : model of Flatten::Apply ; `u_isspace` is
    passed in as the finite set of space code points relevant to the input. -/
def flat (op : String) (args : List String) : String :=
  match op, args with
  | "apply", [lang, sp, us] =>
    match PV.Gen.flattenLangs.find? (·.1 == lang), natList sp, natList us with
    | some (_, rules), some sp, some us =>
      let out := PV.Flatten.apply rules (fun c => sp.contains c) us
      "ok " ++ (if out.isEmpty then "-" else ",".intercalate (out.map toString))
    | none, _, _ => "ERR:exception"
    | _, _, _ => "bad-op"
  | "spec.apply", [lang, sp, us] =>     -- specification side: the tables LISTED for the language (source arrays), not the built ones
    match PV.Gen.flattenListedLangs.find? (·.1 == lang), natList sp, natList us with
    | some (_, rules), some sp, some us =>
      let out := PV.Spec.Flatten.flatten rules (fun c => sp.contains c) (decode16 us)
      "ok " ++ (if out.isEmpty then "-" else ",".intercalate (out.map toString))
    | none, _, _ => "ERR:exception"
    | _, _, _ => "bad-op"
  | _, _ => "bad-op"

def warcErr : PV.Warc.Err → String
  | .eofInHeader => "ERR:eof"
  | .eofInBody => "ERR:eof"
  | .badVersion => "ERR:version"
  | .twoLengths => "ERR:twolengths"
  | .lengthParse => "ERR:lengthparse"
  | .noLength => "ERR:nolength"
  | .noTerminator => "ERR:noterminator"

def warc (op : String) (args : List String) : String :=
  match op, args with
  | "read", [sched, h] =>
    match natList sched, unhex h with
    | some sc, some data =>
      let (rs, e) := PV.Warc.records data sc
      s!"ok {rs.length}" ++ String.join (rs.map (fun r => " " ++ hex r)) ++ (match e with | some e => " " ++ warcErr e | none => "")
    | _, _ => "bad-op"
  | _, _ => "bad-op"

def fmtPair (p : Nat × Nat) : String := s!"ok {p.1} {p.2}"

/-- fmt.<type> <value>  ->  ok <text length> <bytes touched> ; for float/double the arguments are
    <kind> <neg> <ndigits> <decimal point> as double-conversion produced them. -/
def fmt (op : String) (args : List String) : String :=
  match op, args with
  | "u16", [v] => match v.toNat? with | some v => fmtPair (PV.Format.u32 v) | none => "bad-op"
  | "u32", [v] => match v.toNat? with | some v => fmtPair (PV.Format.u32 v) | none => "bad-op"
  | "u64", [v] => match v.toNat? with | some v => fmtPair (PV.Format.u64 v) | none => "bad-op"
  | "i16", [v] => match v.toInt? with | some v => fmtPair (PV.Format.i32 v) | none => "bad-op"
  | "i32", [v] => match v.toInt? with | some v => fmtPair (PV.Format.i32 v) | none => "bad-op"
  | "i64", [v] => match v.toInt? with | some v => fmtPair (PV.Format.i64 v) | none => "bad-op"
  | _, [kind, neg, nd, dp] =>
    if op == "double" || op == "float" then
      match nd.toNat?, dp.toInt? with
      | some nd, some dp =>
        if kind == "num" then
          let l := PV.Format.shortestLen (neg == "1") nd dp
          s!"ok {l} {l + 1}"
        else
          let l := PV.Format.specialLen kind (neg == "1")
          s!"ok {l} {l + 1}"
      | _, _ => "bad-op"
    else "bad-op"
  | _, _ => "bad-op"

/-- cache.run <fspec hex> <delim hex> <child id|upper|prefix> <stdin hex> : what cache prints and what the child is sent -/
def cacheU (op : String) (args : List String) : String :=
  match op, args with
  | "run", [f, d, child, h] =>
    match toolRanges f, unhex d, childFn child, unhex h with
    | some rs, some [dl], some cf, some input =>
      let key := fun (l : List UInt8) => PV.Tools.cacheKey rs dl l
      let lines := recs input
      let one := fun (l : List UInt8) => (cf [l]).headD []
      match PV.Cache.run key one lines with
      | some out => s!"ok {unl out} {unl (PV.Cache.childInput key lines)}"
      | none => "ERR:abort"
    | none, _, _, _ => "ERR:badfield"
    | _, _, _, _ => "bad-op"
  | _, _ => "bad-op"

def parseEvent (w : String) : Option PV.Wrapper.Event :=
  match w.splitOn ":" with
  | ["enq", r, n] => match r.toNat?, n.toNat? with | some r, some n => some (.enq r n) | _, _ => none
  | ["write", r] => r.toNat?.map .write
  | ["poison"] => some .poison
  | ["close"] => some .close
  | ["consume", n] => n.toNat?.map .consume
  | ["finish"] => some .finish
  | ["read"] => some .read
  | ["out"] => some .out
  | _ => none

/-- wrapper.accept <enqueueFirst 0|1> <poisonFirst 0|1> <event> ... : run the visible-event automaton -/
def wrapperU (op : String) (args : List String) : String :=
  match op, args with
  | "accept", ef :: pf :: evs =>
    match evs.mapM parseEvent with
    | some es =>
      match PV.Wrapper.firstRejected (ef == "1") (pf == "1") PV.Wrapper.ainit es 0 with
      | none => s!"accepted {es.length}"
      | some i => s!"rejected-at {i} {evs.getD i "?"}"
    | none => "bad-op"
  | _, _ => "bad-op"

def parseWEv (w : String) : Option PV.Compress.WEv :=
  match w.splitOn ":" with
  | ["W.write", a, _] => a.toNat?.map .write
  | ["W.proc", a, b] => match a.toNat?, b.toNat? with | some a, some b => some (.proc a b) | _, _ => none
  | ["W.did", a, b] => match a.toNat?, b.toNat? with | some a, some b => some (.did a b) | _, _ => none
  | ["W.drain", a, _] => a.toNat?.map .drain
  | ["W.flush", a, _] => some (.flush (a == "1"))
  | ["W.fin", a, _] => a.toNat?.map .fin
  | ["W.findone", a, _] => a.toNat?.map .findone
  | _ => none

def parseREv (w : String) : Option PV.Compress.REv :=
  match w.splitOn ":" with
  | ["R.read", a, _] => a.toNat?.map .read
  | ["R.input", a, _] => a.toNat?.map .input
  | ["R.proc", a, b] => match a.toNat?, b.toNat? with | some a, some b => some (.proc a b) | _, _ => none
  | ["R.ok", a, b] => match a.toNat?, b.toNat? with | some a, some b => some (.ok a b) | _, _ => none
  | ["R.end", a, b] => match a.toNat?, b.toNat? with | some a, some b => some (.end_ a b) | _, _ => none
  | ["R.ret", a, _] => a.toNat?.map .ret
  | _ => none

/-- z.waccept <bufSize> <kMin> <trace ';' separated>   /   z.raccept <already> <trace> -/
def zU (op : String) (args : List String) : String :=
  match op, args with
  | "waccept", [b, k, tr] =>
    match b.toNat?, k.toNat?, ((tr.splitOn ";").filter (· ≠ "") |>.filter (· ≠ "-")).mapM parseWEv with
    | some b, some k, some evs =>
      match PV.Compress.wFirstRejected (PV.Compress.winit b k) evs 0 with
      | some i => s!"rejected-at {i}"
      | none => match PV.Compress.wrun (PV.Compress.winit b k) evs with
        | some s => s!"accepted {evs.length} file={s.file.length} produced={s.produced} given={s.given} consumed={s.consumed} members={s.members} idle={s.mode == .idle} dirty={s.dirty} inorder={s.file ++ s.buf == List.range s.produced}"
        | none => "rejected"
    | _, _, _ => "bad-op"
  | "raccept", [a, tr] =>
    match a.toNat?, ((tr.splitOn ";").filter (· ≠ "") |>.filter (· ≠ "-")).mapM parseREv with
    | some a, some evs =>
      -- a run may contain several readers (members / formats); each `R.read` after an `R.end` starts on the next one,
      -- whose leftover input is unknown to the trace: restart the automaton there with the announced input
      match PV.Compress.rFirstRejected (PV.Compress.rinit a) evs 0 with
      | some i => s!"rejected-at {i}"
      | none => match PV.Compress.rrun (PV.Compress.rinit a) evs with
        | some s => s!"accepted {evs.length} delivered={s.delivered} fed={s.fed} steps={s.steps} progress={PV.Compress.progressOk evs} failed={s.mode == .failed}"
        | none => "rejected"
    | _, _ => "bad-op"
  | _, _ => "bad-op"


/-! simple_cleaning (C18): `clean.filter <minChars> <run> <mci n/d> <minpunct n/d> <sample> <scripts csv|-> <minscripts n/d>
    <fspec hex> <delim hex> <table cp:script|x:punct:space,...|-> <input hex>` -/
def parseRatio (s : String) : Option PV.Cleaning.Ratio :=
  match s.splitOn "/" with
  | [a, b] => match a.toNat?, b.toNat? with
    | some a, some b => some ⟨a, b⟩
    | _, _ => none
  | _ => none

def parseClassTable (s : String) : Option (List (Nat × Option Nat × Bool × Bool)) :=
  if s == "-" then some [] else
  (s.splitOn ",").mapM (fun e =>
    match e.splitOn ":" with
    | [c, sc, p, sp] =>
      match c.toNat? with
      | some c => some (c, sc.toNat?, p == "1", sp == "1")
      | none => none
    | _ => none)

def cleanU (op : String) (args : List String) : String :=
  match op, args with
  | "filter", [mc, run, mci, mp, sample, scr, ms, f, d, tab, h] =>
    match mc.toNat?, run.toNat?, parseRatio mci, parseRatio mp, sample.toNat?, parseRatio ms, toolRanges f, unhex d, parseClassTable tab, unhex h with
    | some mc, some run, some mci, some mp, some sample, some ms, some rs, some [dl], some table, some input =>
      let scripts := if scr == "-" then [] else (scr.splitOn ",").filterMap String.toNat?
      let look (c : Nat) := table.find? (fun e => e.1 == c)
      let t : PV.Cleaning.Thresholds := { maxCommonInherited := mci, minPunct := mp, minPunctSample := sample, scripts := scripts, minScripts := ms }
      let p : PV.Cleaning.Params :=
        { minChars := mc, run := run,
          scriptOf := fun c => match look c with | some e => e.2.1 | none => none,
          isPunct := fun c => match look c with | some e => e.2.2.1 | none => false,
          isSpace := fun c => match look c with | some e => e.2.2.2 | none => false,
          thresholds := PV.Cleaning.ratThresholds t }
      s!"ok {unl (PV.Cleaning.filter p rs dl (recs input))}"
    | _, _, _, _, _, _, none, _, _, _ => "ERR:badfield"
    | _, _, _, _, _, _, _, _, _, _ => "bad-op"
  | _, _ => "bad-op"


/-! BufferedStream (C03): `bstream.run <tokens>`; tokens: w<n> = write() of n bytes (pattern v++ % 251), u<d> = operator<< of
    the d-digit number 10^(d-1) (Ensure(kBytesU64)), c = operator<< of 'x' (Ensure(1)), f = flush().  The stream is then
    destroyed.  Output: the sizes of the chunks handed to the Writer, the number of Writer::flush calls, bytes-ok. -/
def bstreamOps : List String → Nat → Option (List PV.BufStream.Op)
  | [], _ => some []
  | t :: ts, v =>
    if t == "c" then (bstreamOps ts v).map (.put 1 [120] :: ·)
    else if t == "f" then (bstreamOps ts v).map (.flush :: ·)
    else if t.startsWith "u" then
      match (t.drop 1).toNat? with
      | some d =>
        let d := max 1 (min d 20)
        (bstreamOps ts v).map (.put PV.Gen.kBytesU64 ((49 : UInt8) :: List.replicate (d - 1) 48) :: ·)
      | none => none
    else if t.startsWith "w" then
      match (t.drop 1).toNat? with
      | some n => (bstreamOps ts (v + n)).map (.write ((List.range n).map (fun k => UInt8.ofNat ((v + k) % 256 % 251))) :: ·)
      | none => none
    else none

def bstreamU (op : String) (args : List String) : String :=
  match op, args with
  | "run", [toks] =>
    let tokens := if toks == "-" then [] else (toks.splitOn ",").filter (· ≠ "")
    match bstreamOps tokens 0 with
    | some ops =>
      let cap := max 8192 PV.Gen.kToStringMaxBytes
      let s := PV.BufStream.finish cap ops
      let sizes := ",".intercalate (s.chunks.map (fun c => toString c.length))
      let ok := s.chunks.flatten == (ops.map PV.BufStream.Op.bytes).flatten
      s!"ok {if sizes.isEmpty then "-" else sizes} {s.flushes} {if ok then "bytes-ok" else "BYTES-DIFFER"}"
    | none => "bad-op"
  | _, _ => "bad-op"

/-- util::Pool histories: `a<size>` | `c<delta>`; the answer line of harness op `pool.run`. -/
def parsePoolOp (s : String) : Option PV.Pool.Op :=
  match s.toList with
  | 'a' :: r => (String.ofList r).toNat?.map PV.Pool.Op.alloc
  | 'c' :: '-' :: r => (String.ofList r).toNat?.map (fun n => PV.Pool.Op.cont (-(n : Int)))
  | 'c' :: r => (String.ofList r).toNat?.map (fun n => PV.Pool.Op.cont (n : Int))
  | _ => none

def poolRun : PV.Pool.Hist → List PV.Pool.Op → List String → Option (PV.Pool.Hist × List String)
  | h, [], acc => some (h, acc.reverse)
  | h, o :: os, acc =>
    match h.step o with
    | none => none
    | some h' =>
      let moved := h'.copies.length != h.copies.length
      match h'.live.getLast? with
      | none => none
      | some l => poolRun h' os (s!"{l.addr.page}:{l.addr.off}{if moved then "m" else ""}" :: acc)

def poolU (op : String) (args : List String) : String :=
  match op with
  | "run" =>
    match args.mapM parsePoolOp with
    | none => "bad-op"
    | some ops =>
      match poolRun PV.Pool.Hist.init ops [] with
      | none => "bad-op"
      | some (h, outs) =>
        let pg := if h.pool.pages.isEmpty then "-" else ",".intercalate (h.pool.pages.map toString)
        s!"ok {String.join (outs.map (· ++ " "))}| pages={pg} cur={h.pool.cur} intact"
  | _ => "bad-op"

/-- util::MutableVocab: FindOrInsert every word, then Find every word (harness op `mvocab.run`); `spec.run` = first-occurrence ids. -/
def mvocabU (op : String) (args : List String) : String :=
  match args.mapM unhex with
  | none => "bad-op"
  | some ws =>
    let show_ (l : List Nat) := String.join (l.map (fun n => " " ++ toString n))
    match op with
    | "run" =>
      match PV.MVocab.insertAll PV.MVocab.init ws with
      | none => "ERR:table"
      | some (ids, v) =>
        match PV.MVocab.findAll v ws with
        | none => "ERR:table"
        | some fs => s!"ok{show_ ids} |{show_ fs} size={v.strings.length}"
    | "spec.run" =>
      let r := PV.MVocab.specInsertAll [] ws
      s!"ok{show_ r.1} |{show_ (ws.map (PV.MVocab.specFind r.2))} size={r.2.length + 1}"
    | _ => "bad-op"

def dispatch (line : String) : String :=
  match words line with
  | [] => "bad-op"
  | cmd :: args =>
    match cmd.splitOn "." with
    | ["utf8", op] => utf8 op args
    | ["utf8", "spec", op] => utf8 ("spec." ++ op) args
    | ["b64", op] => b64 op args
    | ["docenc", op] => docenc op args
    | ["murmur", op] => murmur op args
    | ["fold", op] => fold op args
    | ["b64f", op] => b64f op args
    | ["tools", op] => tools op args
    | ["reader", op] => reader op args
    | ["reader", "spec", op] => reader ("spec." ++ op) args
    | ["io", op] => io op args
    | ["flat", op] => flat op args
    | ["warc", op] => warc op args
    | ["fmt", op] => fmt op args
    | ["cache", op] => cacheU op args
    | ["wrapper", op] => wrapperU op args
    | ["queue", "accept"] => PV.QueueAccept.unit args
    | ["z", op] => zU op args
    | ["flat", "spec", op] => flat ("spec." ++ op) args
    | ["tools", "spec", op] => tools ("spec." ++ op) args
    | ["murmur", "spec", op] => murmur ("spec." ++ op) args
    | ["fields", op] => fields op args
    | ["fields", "spec", op] => fields ("spec." ++ op) args
    | ["clean", op] => cleanU op args
    | ["bstream", op] => bstreamU op args
    | ["table", op] => table op args
    | ["pool", op] => poolU op args
    | ["mvocab", op] => mvocabU op args
    | ["mvocab", "spec", op] => mvocabU ("spec." ++ op) args
    | ["table", "spec", op] => table ("spec." ++ op) args
    | ["b64", "spec", op] => b64 ("spec." ++ op) args
    | _ => "bad-op"

end PV.Units
