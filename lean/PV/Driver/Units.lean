import PV.Driver.Proto
import PV.Model.Utf8
import PV.Spec.Utf8
import PV.Spec.Utf8Dec
import PV.Model.Base64
import PV.Model.Docenc
import PV.Model.Murmur
import PV.Spec.Murmur
import PV.Model.Fields
import PV.Spec.Fields
import PV.Model.Table
import PV.Spec.Map
import PV.Spec.TableInv
import PV.Model.Fold
import PV.Model.B64filter
import PV.Spec.Base64
/-
One function per unit: `List String` (the operation's arguments) to one output line.
-/
namespace PV.Units
open PV.Proto

def utf8 (op : String) (args : List String) : String :=
  match op, args with
  | "decode", [h] =>
    match unhex h with
    | some bs => match PV.Utf8.decode bs with
      | some (cp, n) => s!"ok {cp} {n}"
      | none => "ERR:notutf8"
    | none => "bad-op"
  | "isutf8", [h] =>
    match unhex h with
    | some bs => if PV.Utf8.isUTF8 bs then "true" else "false"
    | none => "bad-op"
  | "spec.decode", [h] =>    -- oracle (spec side)
    match unhex h with
    | some bs => match PV.Spec.Utf8.specDecode bs with
      | some (cp, n) => s!"ok {cp} {n}"
      | none => "ERR:notutf8"
    | none => "bad-op"
  | "spec.isutf8", [h] =>
    match unhex h with
    | some bs => if PV.Spec.Utf8.specWellFormed bs then "true" else "false"
    | none => "bad-op"
  | _, _ => "bad-op"

def b64 (op : String) (args : List String) : String :=
  match op, args with
  | "enc", [h] =>
    match unhex h with
    | some bs => s!"ok {hex (PV.Base64.encode bs)}"
    | none => "bad-op"
  | "dec", [h] =>
    match unhex h with
    | some bs => match PV.Base64.decode bs with
      | .ok o => s!"ok {hex o}"
      | .notB64 => "ERR:notb64"
      | .length => "ERR:length"
    | none => "bad-op"
  | "spec.enc", [h] =>
    match unhex h with
    | some bs => s!"ok {hex (PV.Spec.Base64.rfc4648 bs)}"
    | none => "bad-op"
  | "spec.judgedec", [h, r] =>   -- r = "ERR" or the hex of the decoder's answer
    match unhex h, (if r == "ERR" then some none else (unhex r).map some) with
    | some bs, some res => if PV.Spec.Base64.judgeDecode bs res then "pass" else "fail"
    | _, _ => "bad-op"
  | _, _ => "bad-op"

def natList (s : String) : Option (List Nat) :=
  if s == "-" then some [] else (s.splitOn ",").mapM String.toNat?

def docenc (op : String) (args : List String) : String :=
  match op, args with
  | "enc", [nul, ind, h] =>
    match unhex h, natList ind with
    | some bs, some ind => s!"ok {hex (PV.Docenc.encode (nul == "1") ind bs)}"
    | _, _ => "bad-op"
  | "dec", [nul, ind, h] =>
    match unhex h, natList ind with
    | some bs, some ind => match PV.Docenc.decode (nul == "1") ind bs with
      | some o => s!"ok {hex o}"
      | none => "ERR:abort"
    | _, _ => "bad-op"
  | _, _ => "bad-op"

def murmur (op : String) (args : List String) : String :=
  match op, args with
  | "hash", [seed, h, _align] =>
    match seed.toNat?, unhex h with
    | some sd, some bs => match PV.Murmur.hash64A? bs.toArray (UInt64.ofNat sd) with
      | some v => s!"ok {v.toNat}"
      | none => "OOB"
    | _, _ => "bad-op"
  | "native", [seed, h, _align] =>
    match seed.toNat?, unhex h with
    | some sd, some bs => s!"ok {(PV.Murmur.hash64A bs (UInt64.ofNat sd)).toNat}"
    | _, _ => "bad-op"
  | "spec.hash", [seed, h, _align] =>
    match seed.toNat?, unhex h with
    | some sd, some bs => s!"ok {(PV.Spec.Murmur.murmurRef bs (UInt64.ofNat sd)).toNat}"
    | _, _ => "bad-op"
  | _, _ => "bad-op"

def rangesStr (rs : List PV.Fields.FieldRange) : String :=
  if rs.isEmpty then "ok -" else "ok " ++ ",".intercalate (rs.map (fun f => s!"{f.begin}:{f.stop}"))

def parseRanges (s : String) : Option (List PV.Fields.FieldRange) :=
  if s == "-" then some [] else
  (s.splitOn ",").mapM (fun it => match it.splitOn ":" with
    | [a, b] => match a.toNat?, b.toNat? with
      | some a, some b => some ⟨a, b⟩
      | _, _ => none
    | _ => none)

def piecesStr (ps : List (List UInt8)) : String :=
  s!"ok {ps.length}" ++ String.join (ps.map (fun p => " " ++ hex p))

def fields (op : String) (args : List String) : String :=
  match op, args with
  | "parse", [h] =>
    match unhex h with
    | some s => match PV.Fields.parseFields s with
      | some rs => rangesStr rs
      | none => "ERR:badfield"
    | none => "bad-op"
  | "parsedefrag", [h] =>
    match unhex h with
    | some s => match PV.Fields.parseAndDefragment s with
      | some rs => rangesStr rs
      | none => "ERR:badfield"
    | none => "bad-op"
  | "spec.parse", [h] =>
    match unhex h with
    | some s => match PV.Spec.Fields.cutParse s with
      | some its => rangesStr (its.map PV.Spec.Fields.Item.denote)
      | none => "ERR:badfield"
    | none => "bad-op"
  | "range", [l, d, rs] =>
    match unhex l, unhex d, parseRanges rs with
    | some line, some [dl], some rs => piecesStr (PV.Fields.rangeFields line rs dl)
    | _, _, _ => "bad-op"
  | "indiv", [l, d, rs] =>
    match unhex l, unhex d, parseRanges rs with
    | some line, some [dl], some rs => piecesStr (PV.Fields.individualFields line rs dl)
    | _, _, _ => "bad-op"
  | "spec.range", [l, d, rs] =>
    match unhex l, unhex d, parseRanges rs with
    | some line, some [dl], some rs => piecesStr (PV.Spec.Fields.cutSelect rs dl line)
    | _, _, _ => "bad-op"
  | "spec.indiv", [l, d, rs] =>
    match unhex l, unhex d, parseRanges rs with
    | some line, some [dl], some rs => piecesStr (rs.flatMap (PV.Spec.Fields.selected (PV.Spec.Fields.splitFields dl line)))
    | _, _, _ => "bad-op"
  | _, _ => "bad-op"

def parseTableOps (s : String) : Option (List PV.Table.Op) :=
  ((s.splitOn ",").filter (· ≠ "")).mapM (fun o => match o.splitOn ":" with
    | ["i", k, v] => match k.toNat?, v.toNat? with
      | some k, some v => some (PV.Table.Op.insert k v)
      | _, _ => none
    | ["f", k] => k.toNat?.map PV.Table.Op.find
    | _ => none)

def ansStr : PV.Table.Ans → String
  | .inserted true e => s!"t:{e.2}"
  | .inserted false e => s!"n:{e.2}"
  | .found (some e) => s!"{e.2}"
  | .found none => "-"

/-- run ops one at a time so that the bucket count after every op can be printed. -/
def tableRun (t : PV.Table.Table) : List PV.Table.Op → List String → Option (List String × PV.Table.Table)
  | [], acc => some (acc.reverse, t)
  | op :: ops, acc =>
    match PV.Table.step t op with
    | none => none
    | some (a, t') => tableRun t' ops (s!"{ansStr a}|{t'.buckets}" :: acc)

def specRun (m : PV.Spec.Map.M) : List PV.Table.Op → List String → List String
  | [], acc => acc.reverse
  | op :: ops, acc =>
    let (a, m') := PV.Spec.Map.step m op
    specRun m' ops (ansStr a :: acc)

def table (op : String) (args : List String) : String :=
  match op, args with
  | "run", ops :: rest =>
    match parseTableOps ops with
    | some ops => match tableRun PV.Table.init ops [] with
      | some (out, t) =>
        let base := "ok" ++ String.join (out.map (" " ++ ·))
        if rest == ["layout"] then
          base ++ " L" ++ String.join (t.slots.toList.map (fun e => s!" {e.1}:{if e.1 == 0 then 0 else e.2}"))
        else base
      | none => "DIVERGED"
    | none => "bad-op"
  | "spec.run", [ops] =>
    match parseTableOps ops with
    | some ops => "ok" ++ String.join ((specRun [] ops []).map (" " ++ ·))
    | none => "bad-op"
  | "inv", keys =>     -- the implementation's real bucket keys
    match keys.mapM String.toNat? with
    | some ks => if PV.Spec.TableInv.check ks.toArray then "inv-ok" else "inv-broken"
    | none => "bad-op"
  | _, _ => "bad-op"

def fold (op : String) (args : List String) : String :=
  match op, args with
  | "wrap", [w, keep, ds, h] =>
    match w.toNat?, natList ds, unhex h with
    | some w, some ds, some line =>
      match PV.Fold.wrapLines line { width := w, keep := keep == "1", delims := ds } with
      | some ps => s!"ok {ps.length}" ++ String.join (ps.map (fun (p, d) => " " ++ hex p ++ "/" ++ hex d))
      | none => "ERR:notutf8"
    | _, _, _ => "bad-op"
  | _, _ => "bad-op"

/-- built-in line-to-line children matching the real children the harness uses
    (`cat`, `tr a-z A-Z`, `sed s/^/X/`). -/
def childFn (name : String) : Option (List (List UInt8) → List (List UInt8)) :=
  match name with
  | "id" => some id
  | "upper" => some (fun ls => ls.map (fun l => l.map (fun b => if 97 ≤ b && b ≤ 122 then b - 32 else b)))
  | "prefix" => some (fun ls => ls.map (fun l => 88 :: l))
  | _ => none

def b64f (op : String) (args : List String) : String :=
  match op, args with
  | "run", [child, h] =>     -- h = the tool's stdin
    match childFn child, unhex h with
    | some f, some input =>
      match PV.B64filter.run f (PV.Spec.Records.splitRecords 10 true input) with
      | some out => s!"ok {hex (PV.Spec.Records.unlines out)}"
      | none => "ERR:abort"
    | _, _ => "bad-op"
  | _, _ => "bad-op"

def dispatch (line : String) : String :=
  match words line with
  | [] => "bad-op"
  | cmd :: args =>
    match cmd.splitOn "." with
    | ["utf8", op] => utf8 op args
    | ["utf8", "spec", op] => utf8 ("spec." ++ op) args
    | ["b64", op] => b64 op args
    | ["docenc", op] => docenc op args
    | ["murmur", op] => murmur op args
    | ["fold", op] => fold op args
    | ["b64f", op] => b64f op args
    | ["murmur", "spec", op] => murmur ("spec." ++ op) args
    | ["fields", op] => fields op args
    | ["fields", "spec", op] => fields ("spec." ++ op) args
    | ["table", op] => table op args
    | ["table", "spec", op] => table ("spec." ++ op) args
    | ["b64", "spec", op] => b64 ("spec." ++ op) args
    | _ => "bad-op"

end PV.Units
