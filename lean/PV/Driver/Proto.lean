/-
Line-protocol helpers shared by all driver units.  Bytes travel hex-encoded; the empty
byte string is "-".  Core Lean only.
-/
namespace PV.Proto

def hexVal (c : Char) : Option Nat :=
  if '0' ≤ c && c ≤ '9' then some (c.toNat - '0'.toNat)
  else if 'a' ≤ c && c ≤ 'f' then some (c.toNat - 'a'.toNat + 10)
  else if 'A' ≤ c && c ≤ 'F' then some (c.toNat - 'A'.toNat + 10)
  else none

def unhexAux : List Char → List UInt8 → Option (List UInt8)
  | [], acc => some acc.reverse
  | [_], _ => none
  | a :: b :: r, acc =>
    match hexVal a, hexVal b with
    | some x, some y => unhexAux r (UInt8.ofNat (x * 16 + y) :: acc)
    | _, _ => none

def unhex (s : String) : Option (List UInt8) :=
  if s == "-" then some [] else unhexAux s.toList []

def hexDigit (n : Nat) : Char :=
  if n < 10 then Char.ofNat ('0'.toNat + n) else Char.ofNat ('a'.toNat + n - 10)

def hex (bs : List UInt8) : String :=
  if bs.isEmpty then "-" else
  String.ofList (bs.foldr (fun b acc => hexDigit (b.toNat / 16) :: hexDigit (b.toNat % 16) :: acc) [])

def words (line : String) : List String :=
  (line.trimAscii.toString.splitOn " ").filter (· ≠ "")

end PV.Proto
