import PV.Model.Fold
import PV.Model.Utf8
import PV.Lemmas.Fold
/-
C07 — foldfilter splits within the width and reassembles losslessly.
-/
namespace PV.Props.C07
open PV.Fold PV.Utf8 PV.Lemmas.Fold

/-- valid UTF-8 input line -/
def Valid (line : List UInt8) : Prop := isUTF8 line = true

/-- For valid UTF-8 and any width ≥ 1, delimiter list and -s setting, `wrap_lines` terminates
    normally (no decode error, no divergence) and the pieces together with the withheld
    delimiter runs concatenate to exactly the original line. -/
theorem wrap_lossless (line : List UInt8) (o : Opts) (hv : Valid line) (hw : 1 ≤ o.width) :
    ∃ ps, wrapLines line o = some ps ∧ ps.flatMap (fun (p, d) => p ++ d) = line := by
  obtain ⟨ps, h, hcat, _⟩ := wrapLines_spec line o ((isUTF8_iff_WF line).mp hv) hw
  exact ⟨ps, h, by rw [pairFun_eq]; exact hcat⟩

/-- Every piece handed to the child is at most WIDTH bytes long, a single code point longer
    than WIDTH excepted. -/
theorem pieces_within_width (line : List UInt8) (o : Opts) (hv : Valid line) (hw : 1 ≤ o.width)
    (ps : List (List UInt8 × List UInt8)) (h : wrapLines line o = some ps) :
    ∀ pd ∈ ps, pd.1.length ≤ o.width ∨ ∃ c, decodeAll pd.1 = some [c] := by
  obtain ⟨ps', h', _, hit, _⟩ := wrapLines_spec line o ((isUTF8_iff_WF line).mp hv) hw
  rw [h] at h'; cases h'
  intro pd hpd
  exact (hit pd hpd).1

/-- No piece and no withheld run splits a code point. -/
theorem pieces_on_boundaries (line : List UInt8) (o : Opts) (hv : Valid line) (hw : 1 ≤ o.width)
    (ps : List (List UInt8 × List UInt8)) (h : wrapLines line o = some ps) :
    ∀ pd ∈ ps, isUTF8 pd.1 = true ∧ isUTF8 pd.2 = true := by
  obtain ⟨ps', h', _, hit, _⟩ := wrapLines_spec line o ((isUTF8_iff_WF line).mp hv) hw
  rw [h] at h'; cases h'
  intro pd hpd
  obtain ⟨_, h1, _, h2⟩ := hit pd hpd
  exact ⟨(isUTF8_iff_WF _).mpr h1, (isUTF8_iff_WF _).mpr (DelimRun_WF h2)⟩

/-- The runs withheld under -s consist of delimiter characters only; without -s nothing is
    withheld. -/
theorem withheld_only_delims (line : List UInt8) (o : Opts) (hv : Valid line) (hw : 1 ≤ o.width)
    (ps : List (List UInt8 × List UInt8)) (h : wrapLines line o = some ps) :
    ∀ pd ∈ ps, (o.keep = true → pd.2 = []) ∧
      ∃ cs, decodeAll pd.2 = some cs ∧ ∀ c ∈ cs, c ∈ o.delims := by
  obtain ⟨ps', h', _, hit, _⟩ := wrapLines_spec line o ((isUTF8_iff_WF line).mp hv) hw
  rw [h] at h'; cases h'
  intro pd hpd
  obtain ⟨_, _, h1, h2⟩ := hit pd hpd
  exact ⟨h1, DelimRun_decodeAll h2⟩

/-- There is always at least one piece (so the record count sent to the reader thread is never
    the end-of-input marker 0), and only the empty line yields an empty piece. -/
theorem pieces_nonempty (line : List UInt8) (o : Opts) (hv : Valid line) (hw : 1 ≤ o.width)
    (ps : List (List UInt8 × List UInt8)) (h : wrapLines line o = some ps) :
    ps ≠ [] ∧ (line ≠ [] → ∀ pd ∈ ps, pd.1 ≠ []) := by
  obtain ⟨ps', h', _, _, hne, hall⟩ := wrapLines_spec line o ((isUTF8_iff_WF line).mp hv) hw
  rw [h] at h'; cases h'
  exact ⟨hne, hall⟩

/-- An identity child reproduces the input exactly, line for line (this uses that the reader
    thread does not strip carriage returns: `Gen.foldfilterCollectStripCr = false`). -/
theorem identity_child_roundtrip (lines : List (List UInt8)) (o : Opts) (hw : 1 ≤ o.width)
    (hv : ∀ l ∈ lines, Valid l) : foldfilter id o lines = some lines := by
  exact foldfilter_id o hw lines (fun l hl => (isUTF8_iff_WF l).mp (hv l hl))

/-- Input and output line counts always match, whatever the child answers. -/
theorem line_counts_match (child : List UInt8 → List UInt8) (lines : List (List UInt8)) (o : Opts)
    (hw : 1 ≤ o.width) (hv : ∀ l ∈ lines, Valid l) :
    ∃ out, foldfilter child o lines = some out ∧ out.length = lines.length := by
  exact foldfilter_length child o hw lines (fun l hl => (isUTF8_iff_WF l).mp (hv l hl))

-- non-vacuity: the two boundary cases the property singles out
example : wrapLines [97, 97, 97, 97, 0xE2, 0x82, 0xAC] ⟨5, true, [58, 44, 32, 45, 46, 47]⟩ =
    some [([97, 97, 97, 97], []), ([0xE2, 0x82, 0xAC], [])] := by decide +kernel
example : wrapLines [97, 32, 32, 32, 98, 99, 100] ⟨3, false, [32]⟩ =
    some [([97], [32, 32, 32]), ([98, 99, 100], [])] := by decide +kernel
example : Valid [97, 0xE2, 0x82, 0xAC] := by unfold Valid; decide +kernel

end PV.Props.C07
