import PV.Model.Cache
import PV.Spec.FirstOcc
import PV.Lemmas.Cache
/-
C04 — cache is transparent: the child's answers per key, one child call per distinct key.
(Interleaving of the two threads, flush points and pipes: C05's LTS theorems with this tool's
parameters; exit status: C11.)
-/
namespace PV.Props.C04
open PV.Cache PV.Spec.FirstOcc

/-- the first input line having the same key as `l` (among `lines`), `l` itself if none. -/
def firstWithKey (key : Line → Nat) (lines : List Line) (l : Line) : Line :=
  (lines.find? (fun x => key x == key l)).getD l

/-- the child receives precisely the first-occurrence lines, each once and in input order. -/
theorem child_sees_firstOcc (key : Line → Nat) (lines : List Line) :
    childInput key lines = firstOccBy key lines := by
  exact PV.Lemmas.Cache.input_fst key lines []

/-- cache emits one line per input line, in input order, where the line for input i is the child's
    answer to the first input line having the same key. -/
theorem cache_output_spec (key : Line → Nat) (child : Line → Line) (lines : List Line) :
    run key child lines = some (lines.map (fun l => child (firstWithKey key lines l))) := by
  exact PV.Lemmas.Cache.run_spec key child lines

/-- with whole-line keys (no two different lines share a key) this is exactly the output of running
    the child directly. -/
theorem whole_line_key_transparent (key : Line → Nat) (child : Line → Line) (lines : List Line)
    (hinj : ∀ a ∈ lines, ∀ b ∈ lines, key a = key b → a = b) :
    run key child lines = some (lines.map child) := by
  rw [cache_output_spec]
  congr 1
  apply List.map_congr_left
  intro l hl
  exact congrArg child (PV.Lemmas.Cache.fwk_self_of_inj key lines hinj l hl)

/-- one output line per input line. -/
theorem one_line_per_line (key : Line → Nat) (child : Line → Line) (lines out : List Line)
    (h : run key child lines = some out) : out.length = lines.length := by
  rw [cache_output_spec] at h
  cases h
  simp

-- non-vacuity
example : run (fun l => l.length) (fun l => 120 :: l) [[1], [2, 2], [3], [4, 4]] = some [[120, 1], [120, 2, 2], [120, 1], [120, 2, 2]] := by decide

end PV.Props.C04
