import PV.Model.Status
/-
C11 — I/O errors and child failures are never reported as success (status logic; the
enumeration over failing system calls and dying children is done on the real binaries).
-/
namespace PV.Props.C11
open PV.Status

/-- a child killed by any fatal signal makes the wrapper's observed status non-zero. -/
theorem signalled_child_nonzero : ∀ p ∈ PV.Gen.waitSignalled, processExit p.2 ≠ 0 := by
  decide

/-- when the child exits on its own the wrapper's status is exactly the child's exit code. -/
theorem exit_is_child_exit : ∀ p ∈ PV.Gen.waitExited, processExit p.2 = (p.1 : Int) := by
  decide

/-- success is observed only if every thread finished normally and the child exited 0
    (over all tabulated child endings). -/
theorem exit0_iff_child0_and_threads_ok (threadsOk : Bool) (c : ChildEnd) (e : ToolEnd)
    (h : wrapperEnd threadsOk c = some e) : observedSuccess e = true → (threadsOk = true ∧ c = .exited 0) := by
  intro hs
  cases threadsOk with
  | false => simp [wrapperEnd] at h; subst h; simp [observedSuccess] at hs
  | true =>
    refine ⟨rfl, ?_⟩
    simp only [wrapperEnd, if_true] at h
    cases c with
    | exited code =>
      simp only [waitReturn, Option.map_map, Option.map_eq_some_iff] at h
      obtain ⟨p, hp, rfl⟩ := h
      have hm := List.mem_of_find?_eq_some hp
      have hk := List.find?_some hp
      simp only [beq_iff_eq] at hk
      have := exit_is_child_exit p hm
      simp only [observedSuccess, Function.comp, beq_iff_eq] at hs
      rw [hs] at this
      have : p.1 = 0 := by omega
      rw [← hk, this]
    | signalled sig =>
      simp only [waitReturn, Option.map_map, Option.map_eq_some_iff] at h
      obtain ⟨p, hp, rfl⟩ := h
      have hm := List.mem_of_find?_eq_some hp
      have := signalled_child_nonzero p hm
      simp only [observedSuccess, Function.comp, beq_iff_eq] at hs
      exact absurd hs this

/-- an iostream tool that checks its output stream never reports success after a failed write. -/
theorem write_error_nonzero : observedSuccess (iostreamToolEnd true true) = false := by decide

-- non-vacuity
example : waitReturn (.signalled 9) ≠ none := by decide
example : wrapperEnd true (.exited 0) = some (.returned 0) := by decide

end PV.Props.C11
