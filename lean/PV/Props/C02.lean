import PV.Model.ReaderFallback
import PV.Lemmas.ReaderFallback
import PV.Model.Reader
import PV.Spec.Records
import PV.Lemmas.Reader
/-
C02 — the line reader yields exactly the input's records for any source and chunking.
-/
namespace PV.Props.C02
open PV.Reader PV.Spec.Records

/-- Read mode (pipe, compressed stream, istream): for every byte string, every schedule of
    read() return sizes, every initial buffer size ≥ 1, delimiter and strip_cr setting, calling
    ReadLine until end of input returns exactly the records of the input (no divergence; nothing
    lost, duplicated or reordered at any refill, memmove or doubling). -/
theorem read_mode_records (delim : UInt8) (stripCr : Bool) (cap0 : Nat) (hcap : 0 < cap0)
    (src : List UInt8) (sched : List Nat) :
    recordsRead delim stripCr cap0 src sched = some (splitRecords delim stripCr src) := by
  obtain ⟨s', e, _⟩ := PV.Lemmas.Reader.readAll_read delim stripCr cap0 hcap src sched
  simp [recordsRead, e]

/-- mmap mode (regular file at any start offset): same, for every page size, every initial
    window that is a positive multiple of the page size, every start offset inside the file. -/
theorem mmap_mode_records (delim : UInt8) (stripCr : Bool) (file : List UInt8) (page cap0 start : Nat)
    (hpage : 0 < page) (hcap : 0 < cap0) (hdvd : page ∣ cap0) (hstart : start ≤ file.length) :
    recordsMmap delim stripCr file page cap0 start = some (splitRecords delim stripCr (file.drop start)) := by
  obtain ⟨s', e, _⟩ := PV.Lemmas.Reader.readAll_mmap delim stripCr file page cap0 start hpage hcap hdvd hstart
  simp [recordsMmap, e]

/-- after end of input has been reported once it is reported on every further call (read mode). -/
theorem eof_stable_read (delim : UInt8) (stripCr : Bool) (cap0 : Nat) (hcap : 0 < cap0)
    (src : List UInt8) (sched : List Nat) (ls : List (List UInt8)) (s : RState)
    (h : readAll readBacking delim stripCr (src.length + 2) (src.length + 2) (initRead cap0 src sched) = some (ls, s)) :
    ∀ fuel, 0 < fuel → ∃ s', readLine readBacking delim stripCr fuel 0 s = .eof s' := by
  obtain ⟨s', e, e1, e2⟩ := PV.Lemmas.Reader.readAll_read delim stripCr cap0 hcap src sched
  rw [e] at h
  obtain rfl : s' = s := by injection h with h; exact (Prod.mk.inj h).2
  intro fuel hf
  obtain ⟨f, rfl⟩ : ∃ f, fuel = f + 1 := ⟨fuel - 1, by omega⟩
  exact ⟨s', PV.Lemmas.Reader.readLine_at_eof readBacking delim stripCr f s' e1 e2⟩

/-- … and in mmap mode. -/
theorem eof_stable_mmap (delim : UInt8) (stripCr : Bool) (file : List UInt8) (page cap0 start : Nat)
    (hpage : 0 < page) (hcap : 0 < cap0) (hdvd : page ∣ cap0) (hstart : start ≤ file.length)
    (ls : List (List UInt8)) (s : MState)
    (h : readAll mmapBacking delim stripCr (file.length + 2) (file.length + 2) (initMmap file page cap0 start) = some (ls, s)) :
    ∀ fuel, 0 < fuel → ∃ s', readLine mmapBacking delim stripCr fuel 0 s = .eof s' := by
  obtain ⟨s', e, e1, e2⟩ := PV.Lemmas.Reader.readAll_mmap delim stripCr file page cap0 start hpage hcap hdvd hstart
  rw [e] at h
  obtain rfl : s' = s := by injection h with h; exact (Prod.mk.inj h).2
  intro fuel hf
  obtain ⟨f, rfl⟩ : ∃ f, fuel = f + 1 := ⟨fuel - 1, by omega⟩
  exact ⟨s', PV.Lemmas.Reader.readLine_at_eof mmapBacking delim stripCr f s' e1 e2⟩

/-- the specification itself: records re-joined with the delimiter give back the input when no
    carriage return is stripped and the input ends with the delimiter (no byte lost). -/
theorem splitRecords_lossless (delim : UInt8) (bs : List UInt8) :
    (splitRecords delim false (bs ++ [delim])).flatMap (· ++ [delim]) = bs ++ [delim] := by
  have := PV.Lemmas.Reader.splitGo_lossless delim bs []
  simpa [splitRecords] using this

/-- A regular file whose `mapsLeft`-th and later `mmap` calls fail (at the first window, at any later window, in
    the middle of a record), read with any schedule of short reads afterwards, yields exactly the records of the
    bytes from the start offset: nothing is lost, duplicated or reordered at the transition. -/
theorem fallback_records (delim : UInt8) (stripCr : Bool) (file : List UInt8) (page cap0 start mapsLeft : Nat)
    (sched : List Nat) (hpage : 0 < page) (hcap : 0 < cap0) (hdvd : page ∣ cap0) (hstart : start ≤ file.length) :
    recordsFallback delim stripCr file page cap0 start mapsLeft sched
      = some (splitRecords delim stripCr (file.drop start)) := by
  obtain ⟨s', e, _, _⟩ := PV.Lemmas.ReaderFallback.readAll_fallback delim stripCr file page cap0 start mapsLeft
    sched hpage hcap hdvd hstart
  simp [recordsFallback, e]

-- non-vacuity: a 2-byte page, the second mapping fails in the middle of the record "bcd"
example : recordsFallback 10 true [97, 10, 98, 99, 100, 10, 101] 2 4 0 1 [1, 1] = some [[97], [98, 99, 100], [101]] := by decide

-- non-vacuity
example : recordsRead 10 true 4 [97, 13, 10, 98, 10, 10, 99] [1, 2, 1, 3] = some [[97], [98], [], [99]] := by
  decide +kernel
example : recordsMmap 10 true [97, 13, 10, 98, 10, 10, 99] 4 4 1 = some [[], [98], [], [99]] := by
  decide +kernel

end PV.Props.C02
