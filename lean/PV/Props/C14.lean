import PV.Model.Murmur
import PV.Spec.Murmur
import PV.Lemmas.Murmur
/-
C14 — line hashing is MurmurHash64A, identical across tools, runs and alignments.
(The model reads bytes through indices only, so alignment cannot enter; the implementation's
alignment independence is exercised by the correspondence run at all 8 start alignments.)
-/
namespace PV.Props.C14
open PV.Murmur PV.Spec.Murmur

/-- the constants in today's source are the reference ones, and the tool seeds are the
    documented ones (dedupe 1/1, shard 47849374332489).  cache's seed is not part of this property:
    its keys never leave the process (see PV.Props.C10.cache_empty_first_field_counts for what it must satisfy). -/
theorem constants_are_reference :
    PV.Gen.murmurM = 0xc6a4a7935bd1e995 ∧ PV.Gen.murmurR = 47 ∧
    PV.Gen.shardSeed = 47849374332489 ∧ PV.Gen.dedupeLineSeed = 1 ∧ PV.Gen.dedupeFieldSeed = 1 := by
  decide

/-- computing the hash reads no byte outside the string (every length, every tail 0–7). -/
theorem reads_in_bounds (bs : Array UInt8) (seed : UInt64) : (hash64A? bs seed).isSome = true := by
  exact PV.Lemmas.Murmur.hash64A?_isSome bs seed

/-- the hash equals reference MurmurHash64A for every byte string and seed. -/
theorem hash_eq_reference (bs : List UInt8) (seed : UInt64) : hash64A bs seed = murmurRef bs seed := by
  exact PV.Lemmas.Murmur.hash64A_eq bs seed

/-- hashing a selection of fields is the left fold of the reference function with the previous
    value as seed. -/
theorem field_key_is_fold (seed : UInt64) (pieces : List (List UInt8)) :
    hashPieces seed pieces = pieces.foldl (fun h p => murmurRef p h) seed := by
  exact PV.Lemmas.Murmur.hashPieces_eq seed pieces

/-- the case-model key used by train_case and apply_case is the documented nesting of the reference
    function (one definition serves both tools in the model; the two call sites are tied to it by
    running train_case's output through apply_case). -/
theorem case_key_is_reference (source lowered : List UInt8) :
    caseKey source lowered = murmurRef lowered (murmurRef source 0) := by
  unfold caseKey
  rw [hash_eq_reference, hash_eq_reference]

-- non-vacuity / known-answer: MurmurHash64A("hello world, this is", seed 1)
example : hash64A "hello world, this is".toUTF8.toList 1 = 13782079507294449509 := by decide +kernel

end PV.Props.C14
