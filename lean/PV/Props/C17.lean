import PV.Model.Warc
import PV.Lemmas.Warc
/-
C17 — WARC records are framed exactly (reader part; the parallel part is in the LTS section below
once added).
-/
namespace PV.Props.C17
open PV.Warc

/-- a well-formed record: version line, extra header lines (non-empty, no CR/LF, not a
    Content-Length header), the Content-Length header, blank line, body, CRLF CRLF. -/
def crlf : List UInt8 := [13, 10]
def str (s : String) : List UInt8 := s.toUTF8.toList
def natStr (n : Nat) : List UInt8 := (toString n).toUTF8.toList

def OkHeader (h : List UInt8) : Prop :=
  h ≠ [] ∧ (13 : UInt8) ∉ h ∧ (10 : UInt8) ∉ h ∧ ¬ ((h.take 15).map toLowerByte = contentLengthKey)

def mkRecord (hs : List (List UInt8)) (body : List UInt8) : List UInt8 :=
  str "WARC/1.0" ++ crlf ++ hs.flatMap (· ++ crlf) ++ str "Content-Length: " ++ natStr body.length ++ crlf ++ crlf ++
    body ++ crlf ++ crlf

/-- Every fragmentation of the stream gives the same records and the same verdict. -/
theorem chunking_independent (input : List UInt8) (s1 s2 : List Nat) :
    records input s1 = records input s2 := by
  sorry

/-- The records tile the input: byte for byte, no gap, no overlap, no resynchronisation — on
    success their concatenation is the whole input, on error it is the prefix read so far. -/
theorem records_tile_input (input : List UInt8) (sched : List Nat) :
    (((records input sched).2 = none → (records input sched).1.flatten = input) ∧
     (records input sched).1.flatten <+: input) := by
  sorry

/-- every returned record starts with the version line and ends with CRLF CRLF. -/
theorem record_shape (input : List UInt8) (sched : List Nat) :
    ∀ r ∈ (records input sched).1, str "WARC/1.0" <+: r ∧ [13, 10, 13, 10] <:+ r := by
  sorry

/-- A stream of well-formed records (bodies of any bytes and sizes) is read back exactly, for
    every fragmentation. -/
theorem read_exact (recs : List (List (List UInt8) × List UInt8)) (sched : List Nat)
    (h : ∀ r ∈ recs, ∀ hd ∈ r.1, OkHeader hd) :
    records (recs.flatMap (fun r => mkRecord r.1 r.2)) sched = (recs.map (fun r => mkRecord r.1 r.2), none) := by
  sorry

/-- Truncation anywhere inside a record is an error, never a shorter success. -/
theorem truncation_is_error (hs : List (List UInt8)) (body : List UInt8) (h : ∀ hd ∈ hs, OkHeader hd)
    (k : Nat) (hk0 : 0 < k) (hk : k < (mkRecord hs body).length) (sched : List Nat) :
    (records ((mkRecord hs body).take k) sched).2 ≠ none := by
  sorry

/-- A negative Content-Length is rejected (it used to be accepted and the stream resynchronised). -/
theorem negative_length_rejected (n : Nat) (hn : 0 < n) (rest : List UInt8) (sched : List Nat) :
    (records (str "WARC/1.0" ++ crlf ++ str "Content-Length: -" ++ natStr n ++ crlf ++ crlf ++ rest) sched) =
      ([], some .lengthParse) := by
  sorry

/-- Missing and duplicate Content-Length are errors. -/
theorem missing_length_rejected (hs : List (List UInt8)) (h : ∀ hd ∈ hs, OkHeader hd) (rest : List UInt8) (sched : List Nat) :
    (records (str "WARC/1.0" ++ crlf ++ hs.flatMap (· ++ crlf) ++ crlf ++ rest) sched) = ([], some .noLength) := by
  sorry

theorem duplicate_length_rejected (a b : Nat) (rest : List UInt8) (sched : List Nat) :
    (records (str "WARC/1.0" ++ crlf ++ str "Content-Length: " ++ natStr a ++ crlf ++ str "content-length: " ++ natStr b ++ crlf ++ rest) sched) =
      ([], some .twoLengths) := by
  sorry

/-- A missing version line is an error. -/
theorem missing_version_rejected (line rest : List UInt8) (h1 : (10 : UInt8) ∉ line) (h2 : line ≠ str "WARC/1.0")
    (h3 : line ≠ str "WARC/1.0" ++ [13]) (sched : List Nat) :
    (records (line ++ [10] ++ rest) sched) = ([], some .badVersion) := by
  sorry

-- non-vacuity
example : (records (mkRecord [str "WARC-Type: x"] (str "hello") ++ mkRecord [] []) [1, 2, 3, 4, 5, 1, 1, 1]).1.length = 2 := by
  decide +kernel
example : OkHeader (str "WARC-Type: x") := by unfold OkHeader; decide +kernel

end PV.Props.C17
