import PV.Model.Warc
import PV.Lemmas.Warc
/-
C17 — WARC records are framed exactly (reader part; the parallel part is in the LTS section below
once added).
-/
namespace PV.Props.C17
open PV.Warc

/-- a well-formed record: version line, extra header lines (non-empty, no CR/LF, not a
    Content-Length header), the Content-Length header, blank line, body, CRLF CRLF. -/
def crlf : List UInt8 := [13, 10]
def str (s : String) : List UInt8 := s.toUTF8.toList
def natStr (n : Nat) : List UInt8 := (toString n).toUTF8.toList

def OkHeader (h : List UInt8) : Prop :=
  h ≠ [] ∧ (13 : UInt8) ∉ h ∧ (10 : UInt8) ∉ h ∧ ¬ ((h.take 15).map toLowerByte = contentLengthKey)

def mkRecord (hs : List (List UInt8)) (body : List UInt8) : List UInt8 :=
  str "WARC/1.0" ++ crlf ++ hs.flatMap (· ++ crlf) ++ str "Content-Length: " ++ natStr body.length ++ crlf ++ crlf ++
    body ++ crlf ++ crlf

/-- Every fragmentation of the stream gives the same records and the same verdict. -/
theorem chunking_independent (input : List UInt8) (s1 s2 : List Nat) :
    records input s1 = records input s2 := by
  rw [PV.Lemmas.Warc.records_eq, PV.Lemmas.Warc.records_eq]

/-- The records tile the input: byte for byte, no gap, no overlap, no resynchronisation — on
    success their concatenation is the whole input, on error it is the prefix read so far. -/
theorem records_tile_input (input : List UInt8) (sched : List Nat) :
    (((records input sched).2 = none → (records input sched).1.flatten = input) ∧
     (records input sched).1.flatten <+: input) := by
  rw [PV.Lemmas.Warc.records_eq]
  obtain ⟨h1, h2⟩ := PV.Lemmas.Warc.readAllSpec_tile (input.length + 1) input
  exact ⟨h2 (Nat.lt_succ_self _), h1⟩

/-- every returned record starts with the version line and ends with CRLF CRLF. -/
theorem record_shape (input : List UInt8) (sched : List Nat) :
    ∀ r ∈ (records input sched).1, str "WARC/1.0" <+: r ∧ [13, 10, 13, 10] <:+ r := by
  rw [PV.Lemmas.Warc.records_eq]
  exact PV.Lemmas.Warc.readAllSpec_shape (input.length + 1) input


open PV.Lemmas.Warc in
private theorem mkRecord_eq (hs : List (List UInt8)) (body : List UInt8) :
    mkRecord hs body = mkV "WARC/1.0".toUTF8.toList hs keyU (natBytes body.length) body := by
  show "WARC/1.0".toUTF8.toList ++ [13, 10] ++ hs.flatMap (· ++ [13, 10]) ++ "Content-Length: ".toUTF8.toList ++
      natBytes body.length ++ [13, 10] ++ [13, 10] ++ body ++ [13, 10] ++ [13, 10] = _
  rw [strU]
  simp only [mkV, List.append_assoc, List.cons_append, List.nil_append]

open PV.Lemmas.Warc in
private theorem okH_of_OkHeader (hs : List (List UInt8)) (h : ∀ hd ∈ hs, OkHeader hd) : ∀ hd ∈ hs, OkH hd :=
  fun hd hm => okH_of hd (h hd hm).1 (h hd hm).2.2.1 (h hd hm).2.2.2

open PV.Lemmas.Warc in
private theorem readSpec_mkRecord (hs : List (List UInt8)) (body rest : List UInt8)
    (h : ∀ hd ∈ hs, OkHeader hd) (hb : body.length < 2 ^ 63) :
    readSpec (mkRecord hs body ++ rest) = .record (mkRecord hs body) rest := by
  rw [mkRecord_eq]
  exact readSpec_mk _ rfl hs keyU _ body rest (okH_of_OkHeader hs h) keyU_isKey (natBytes_ne_nil _)
    (natBytes_digit _) (valOf_false_toNat _ _ (natBytes_val _) hb)

/-- A stream of well-formed records (bodies of any bytes, below the 2^63-byte limit at which strtoll
    saturates — see `read_exact_false`) is read back exactly, for every fragmentation. -/
theorem read_exact (recs : List (List (List UInt8) × List UInt8)) (sched : List Nat)
    (h : ∀ r ∈ recs, ∀ hd ∈ r.1, OkHeader hd) (hb : ∀ r ∈ recs, r.2.length < 2 ^ 63) :
    records (recs.flatMap (fun r => mkRecord r.1 r.2)) sched = (recs.map (fun r => mkRecord r.1 r.2), none) := by
  rw [PV.Lemmas.Warc.records_eq]
  apply PV.Lemmas.Warc.readAllSpec_concat (fun r => mkRecord r.1 r.2) recs
  · intro r hr rest
    exact readSpec_mkRecord r.1 r.2 rest (h r hr) (hb r hr)
  · have := PV.Lemmas.Warc.flatMap_length_ge (fun r : List (List UInt8) × List UInt8 => mkRecord r.1 r.2) recs
      (fun r _ => by
        rw [mkRecord_eq]; simp [PV.Lemmas.Warc.mkV]; omega)
    omega

open PV.Lemmas.Warc in
/-- `read_exact` is false as stated: a body of 2^63 bytes. -/
theorem read_exact_false :
    ¬ (∀ (recs : List (List (List UInt8) × List UInt8)) (sched : List Nat)
        (_ : ∀ r ∈ recs, ∀ hd ∈ r.1, OkHeader hd),
        records (recs.flatMap (fun r => mkRecord r.1 r.2)) sched = (recs.map (fun r => mkRecord r.1 r.2), none)) := by
  intro H
  obtain ⟨body, hb⟩ : ∃ body : List UInt8, body.length = 2 ^ 63 := ⟨List.replicate _ 0, List.length_replicate⟩
  have h1 := H [([], body)] [] (by simp)
  simp only [List.flatMap_cons, List.flatMap_nil, List.append_nil, List.map_cons, List.map_nil] at h1
  rw [records_eq, readAllSpec_succ] at h1
  have hsat := readSpec_mk_sat _ rfl keyU (natBytes body.length) body
  rw [← mkRecord_eq] at hsat
  cases hr : readSpec (mkRecord [] body) with
  | eof => rw [hr] at h1; simp at h1
  | error e => rw [hr] at h1; simp at h1
  | record r R' =>
    rw [hr] at h1
    simp only [Prod.mk.injEq, List.cons.injEq] at h1
    rw [h1.1.1] at hr
    refine hsat R' keyU_isKey (natBytes_ne_nil _) (natBytes_digit _) ?_ hr
    rw [valOf_false_sat _ _ (natBytes_val _) (by omega), hb]
    omega


/-- Truncation anywhere inside a record (body below 2^63 bytes) is an error, never a shorter success. -/
theorem truncation_is_error (hs : List (List UInt8)) (body : List UInt8) (h : ∀ hd ∈ hs, OkHeader hd)
    (hb : body.length < 2 ^ 63)
    (k : Nat) (hk0 : 0 < k) (hk : k < (mkRecord hs body).length) (sched : List Nat) :
    (records ((mkRecord hs body).take k) sched).2 ≠ none := by
  rw [PV.Lemmas.Warc.records_eq]
  have hrs := readSpec_mkRecord hs body [] h hb
  rw [List.append_nil] at hrs
  obtain ⟨e, he⟩ := PV.Lemmas.Warc.readSpec_prefix_error _ _ _ hrs k hk0 hk
  rw [PV.Lemmas.Warc.readAllSpec_error _ e he]
  simp

open PV.Lemmas.Warc in
/-- `truncation_is_error` is false as stated: a body of 2^63+3 bytes whose bytes 2^63-1 … 2^63+2 are
    CR LF CR LF, cut just before the real terminator, is accepted as a (shorter) record. -/
theorem truncation_is_error_false :
    ¬ (∀ (hs : List (List UInt8)) (body : List UInt8) (_ : ∀ hd ∈ hs, OkHeader hd)
        (k : Nat) (_ : 0 < k) (_ : k < (mkRecord hs body).length) (sched : List Nat),
        (records ((mkRecord hs body).take k) sched).2 ≠ none) := by
  intro H
  obtain ⟨x, hx⟩ : ∃ x : List UInt8, x.length = 2 ^ 63 - 1 := ⟨List.replicate _ 0, List.length_replicate⟩
  generalize hbody : x ++ [13, 10, 13, 10] = body
  have hbl : body.length = 2 ^ 63 + 3 := by rw [← hbody, List.length_append, hx]; rfl
  generalize hM : mkV "WARC/1.0".toUTF8.toList [] keyU (natBytes body.length) x = M
  have hMl : M.length = (mkRecord [] body).length - 4 := by
    rw [mkRecord_eq, ← hM, mkV_length, mkV_length, hbl, hx]
    omega
  have hsplit : mkRecord [] body = M ++ [13, 10, 13, 10] := by
    rw [mkRecord_eq, ← hM, ← hbody]
    simp only [mkV, List.append_assoc, List.cons_append, List.nil_append]
  have htake : (mkRecord [] body).take ((mkRecord [] body).length - 4) = M := by
    rw [← hMl, hsplit, List.take_left]
  have hlen : (mkRecord [] body).length = M.length + 4 := by rw [hsplit]; simp
  apply H [] body (by simp) ((mkRecord [] body).length - 4) (by
      have := (mkV_length "WARC/1.0".toUTF8.toList [] keyU (natBytes body.length) x)
      rw [hM] at this; omega) (by omega) []
  rw [htake, records_eq]
  have hrs : readSpec M = .record M [] := by
    have := readSpec_mk "WARC/1.0".toUTF8.toList rfl [] keyU (natBytes body.length) x [] (by simp)
      keyU_isKey (natBytes_ne_nil _) (natBytes_digit _)
      (by rw [valOf_false_sat _ _ (natBytes_val _) (by omega), hx])
    rw [List.append_nil, hM] at this
    exact this
  rw [readAllSpec_single M hrs]

/-- A negative Content-Length is rejected (it used to be accepted and the stream resynchronised). -/
theorem negative_length_rejected (n : Nat) (hn : 0 < n) (rest : List UInt8) (sched : List Nat) :
    (records (str "WARC/1.0" ++ crlf ++ str "Content-Length: -" ++ natStr n ++ crlf ++ crlf ++ rest) sched) =
      ([], some .lengthParse) := by
  rw [PV.Lemmas.Warc.records_eq]
  apply PV.Lemmas.Warc.readAllSpec_error
  apply PV.Lemmas.Warc.readSpec_negative _ rfl PV.Lemmas.Warc.keyU (PV.Lemmas.Warc.natBytes n) (crlf ++ rest) _
    PV.Lemmas.Warc.keyU_isKey (PV.Lemmas.Warc.natBytes_ne_nil _) (PV.Lemmas.Warc.natBytes_digit _)
    (PV.Lemmas.Warc.valOf_true_neg _ n (PV.Lemmas.Warc.natBytes_val n) hn)
  show "WARC/1.0".toUTF8.toList ++ [13, 10] ++ "Content-Length: -".toUTF8.toList ++ PV.Lemmas.Warc.natBytes n ++
    [13, 10] ++ [13, 10] ++ rest = _
  rw [PV.Lemmas.Warc.strNeg]
  simp only [crlf, List.append_assoc, List.cons_append, List.nil_append]

/-- Missing and duplicate Content-Length are errors. -/
theorem missing_length_rejected (hs : List (List UInt8)) (h : ∀ hd ∈ hs, OkHeader hd) (rest : List UInt8) (sched : List Nat) :
    (records (str "WARC/1.0" ++ crlf ++ hs.flatMap (· ++ crlf) ++ crlf ++ rest) sched) = ([], some .noLength) := by
  rw [PV.Lemmas.Warc.records_eq]
  apply PV.Lemmas.Warc.readAllSpec_error
  apply PV.Lemmas.Warc.readSpec_missing _ rfl hs rest _ (okH_of_OkHeader hs h)
  show "WARC/1.0".toUTF8.toList ++ [13, 10] ++ hs.flatMap (· ++ [13, 10]) ++ [13, 10] ++ rest = _
  simp only [List.append_assoc, List.cons_append, List.nil_append]

theorem duplicate_length_rejected (a b : Nat) (rest : List UInt8) (sched : List Nat) :
    (records (str "WARC/1.0" ++ crlf ++ str "Content-Length: " ++ natStr a ++ crlf ++ str "content-length: " ++ natStr b ++ crlf ++ rest) sched) =
      ([], some .twoLengths) := by
  rw [PV.Lemmas.Warc.records_eq]
  apply PV.Lemmas.Warc.readAllSpec_error
  apply PV.Lemmas.Warc.readSpec_duplicate _ rfl PV.Lemmas.Warc.keyU (PV.Lemmas.Warc.natBytes a)
    PV.Lemmas.Warc.keyL (PV.Lemmas.Warc.natBytes b) rest _
    PV.Lemmas.Warc.keyU_isKey PV.Lemmas.Warc.keyL_isKey (PV.Lemmas.Warc.natBytes_ne_nil _)
    (PV.Lemmas.Warc.natBytes_digit _) (PV.Lemmas.Warc.natBytes_digit _)
  show "WARC/1.0".toUTF8.toList ++ [13, 10] ++ "Content-Length: ".toUTF8.toList ++ PV.Lemmas.Warc.natBytes a ++
    [13, 10] ++ "content-length: ".toUTF8.toList ++ PV.Lemmas.Warc.natBytes b ++ [13, 10] ++ rest = _
  rw [PV.Lemmas.Warc.strU, PV.Lemmas.Warc.strL]
  simp only [List.append_assoc, List.cons_append, List.nil_append]

/-- A missing version line is an error. -/
theorem missing_version_rejected (line rest : List UInt8) (h1 : (10 : UInt8) ∉ line) (h2 : line ≠ str "WARC/1.0")
    (h3 : line ≠ str "WARC/1.0" ++ [13]) (sched : List Nat) :
    (records (line ++ [10] ++ rest) sched) = ([], some .badVersion) := by
  rw [PV.Lemmas.Warc.records_eq]
  apply PV.Lemmas.Warc.readAllSpec_error
  have e : line ++ [10] ++ rest = line ++ 10 :: rest := by simp
  rw [e]
  exact PV.Lemmas.Warc.readSpec_badVersion line rest h1 h2 h3

-- non-vacuity
example : (records (mkRecord [str "WARC-Type: x"] (str "hello") ++ mkRecord [] []) [1, 2, 3, 4, 5, 1, 1, 1]).1.length = 2 := by
  decide +kernel
example : OkHeader (str "WARC-Type: x") := by unfold OkHeader; decide +kernel

end PV.Props.C17
