import PV.Model.Fields
import PV.Model.Murmur
import PV.Spec.Fields
import PV.Lemmas.Fields
import PV.Model.Tools
/-
C10 — field keys depend only on the selected fields (cut -f semantics).
Property theorems only; helper lemmas live in PV/Lemmas/Fields.lean.
-/
namespace PV.Props.C10
open PV.Fields PV.Spec.Fields

/-- RangeFields hands the callback exactly what `cut` selects: per range, the selected fields
    joined by the delimiter; a range the line has no field for contributes nothing. -/
theorem range_eq_cut (line : List UInt8) (ranges : List FieldRange) (delim : UInt8)
    (h : WellFormed ranges) : rangeFields line ranges delim = cutSelect ranges delim line := by
  exact PV.Lemmas.Fields.range_eq_cut' line ranges delim h

/-- IndividualFields hands over the selected fields one by one. -/
theorem individual_eq_selected (line : List UInt8) (ranges : List FieldRange) (delim : UInt8)
    (h : WellFormed ranges) (hlen : line.length < kInf) :
    individualFields line ranges delim =
      ranges.flatMap (selected (splitFields delim line)) := by
  exact PV.Lemmas.Fields.individual_eq_selected' line ranges delim h hlen

/-- Two lines that both contain all selected fields get the same pieces (hence the same key)
    exactly when their selected fields have identical content. -/
theorem pieces_iff_selected_equal (l1 l2 : List UInt8) (ranges : List FieldRange) (delim : UInt8)
    (h : WellFormed ranges) (h1 : ContainsAll ranges delim l1) (h2 : ContainsAll ranges delim l2) :
    rangeFields l1 ranges delim = rangeFields l2 ranges delim ↔
      ∀ f ∈ ranges, selected (splitFields delim l1) f = selected (splitFields delim l2) f := by
  exact PV.Lemmas.Fields.pieces_iff_selected_equal' l1 l2 ranges delim h h1 h2

/-- Hence bytes in unselected fields — including whether further, possibly empty, fields follow
    the last selected one — never influence the key … -/
theorem key_ignores_unselected (l1 l2 : List UInt8) (ranges : List FieldRange) (delim : UInt8) (seed : UInt64)
    (h : WellFormed ranges) (h1 : ContainsAll ranges delim l1) (h2 : ContainsAll ranges delim l2)
    (heq : ∀ f ∈ ranges, selected (splitFields delim l1) f = selected (splitFields delim l2) f) :
    PV.Murmur.hashPieces seed (rangeFields l1 ranges delim) =
      PV.Murmur.hashPieces seed (rangeFields l2 ranges delim) := by
  rw [(pieces_iff_selected_equal l1 l2 ranges delim h h1 h2).mpr heq]

/-- … and any difference inside a selected field changes the pieces that are hashed (so the
    keys differ unless the 64-bit hash collides). -/
theorem selected_difference_changes_pieces (l1 l2 : List UInt8) (ranges : List FieldRange) (delim : UInt8)
    (h : WellFormed ranges) (h1 : ContainsAll ranges delim l1) (h2 : ContainsAll ranges delim l2)
    (hne : ∃ f ∈ ranges, selected (splitFields delim l1) f ≠ selected (splitFields delim l2) f) :
    rangeFields l1 ranges delim ≠ rangeFields l2 ranges delim := by
  intro he
  obtain ⟨f, hf, hne⟩ := hne
  exact hne ((pieces_iff_selected_equal l1 l2 ranges delim h h1 h2).mp he f hf)

/-- A selected field that is present but EMPTY must count: the three tools hash the pieces as a chain of MurmurHash64A, and an
    empty piece changes the chain state iff the state is not a fixed point of hashing "".  The start values of today's source
    (dedupe -f, shard, cache; regenerated constants) are not such fixed points … -/
theorem empty_first_field_counts :
    PV.Murmur.hashPieces (PV.Tools.seedOf PV.Gen.dedupeFieldSeed) [[]] ≠ PV.Tools.seedOf PV.Gen.dedupeFieldSeed ∧
    PV.Murmur.hashPieces (PV.Tools.seedOf PV.Gen.shardSeed) [[]] ≠ PV.Tools.seedOf PV.Gen.shardSeed ∧
    PV.Murmur.hashPieces (PV.Tools.seedOf PV.Gen.cacheSeed) [[]] ≠ PV.Tools.seedOf PV.Gen.cacheSeed := by
  decide +kernel

/-- … whereas 0 is (cache started there until 331adfa): from seed 0 an empty first piece is invisible whatever follows, so
    `cache -k 1,2` gave "\tx" (pieces "", "x") the key of "x" (piece "x") and answered one with the other's cached line. -/
theorem empty_first_piece_invisible_from_seed_zero (ps : List (List UInt8)) :
    PV.Murmur.hashPieces 0 ([] :: ps) = PV.Murmur.hashPieces 0 ps := by
  have h : PV.Murmur.hash64A [] 0 = 0 := by decide +kernel
  simp [PV.Murmur.hashPieces, h]

/-- ParseFields accepts exactly the cut LIST grammar over the characters `0-9 , -` and reads it
    as cut does: malformed lists (field 0, decreasing range, missing separator, empty list or
    item, out-of-range number) are errors. -/
theorem parse_matches_cut_grammar (s : List UInt8) :
    parseFields s = (cutParse s).map (·.map Item.denote) := by
  exact PV.Lemmas.Fields.parse_matches_cut_grammar' s

/-- DefragmentFields: the result is well formed and selects exactly the same field numbers. -/
theorem defragment_sound (fs gs : List FieldRange) (hfs : ∀ f ∈ fs, f.begin < f.stop ∧ f.stop ≤ kInf)
    (h : defragment fs = some gs) :
    WellFormed gs ∧ ∀ k, (∃ g ∈ gs, inRange k g) ↔ (∃ f ∈ fs, inRange k f) := by
  exact PV.Lemmas.Fields.defragment_sound' fs gs hfs h

/-- … and overlapping ranges are rejected rather than silently reinterpreted. -/
theorem defragment_rejects_overlap (fs : List FieldRange) (hfs : ∀ f ∈ fs, f.begin < f.stop ∧ f.stop ≤ kInf) :
    defragment fs = none ↔
      ∃ (i j : Nat) (f g : FieldRange), i < j ∧ fs[i]? = some f ∧ fs[j]? = some g ∧ ∃ k, inRange k f ∧ inRange k g := by
  exact PV.Lemmas.Fields.defragment_rejects_overlap' fs hfs

-- non-vacuity
example : rangeFields [97, 9] [⟨0, 1⟩] 9 = [[97]] := by decide                 -- "a\t" -f 1  keys as "a"
example : rangeFields [97, 9, 88] [⟨0, 1⟩] 9 = [[97]] := by decide             -- "a\tX" -f 1
example : rangeFields [97, 9] [⟨1, 2⟩] 9 = [[]] := by decide                   -- "a\t" -f 2  = ""
example : rangeFields [98, 9, 9, 99] [⟨1, 2⟩] 9 = [[]] := by decide            -- "b\t\tc" -f 2 = ""
example : WellFormed [⟨0, 1⟩, ⟨2, 4⟩] := by simp [WellFormed, kInf, PV.Gen.kInfiniteEnd]
example : parseFields [48] = none := by decide                                  -- "0"
example : parseFields [50, 45, 51, 45, 49] = none := by decide                  -- "2-3-1"

end PV.Props.C10
