import PV.Model.Tools2
import PV.Lemmas.Tools2
import PV.Spec.FirstOcc
import PV.Model.Table
import PV.Spec.Map
import PV.Lemmas.Table
import PV.Model.Substitute
import PV.Lemmas.Substitute
import PV.Model.MVocab
import PV.Lemmas.MVocab
/-
C13 — the seen-set answers membership correctly after any insertion history.
Property theorems only; the invariant and the proofs are in PV/Lemmas/Table.lean.
-/
namespace PV.Props.C13
open PV.Table PV.Spec.Map

/-- Every history of insert-if-absent / lookup operations on non-zero keys, started from the
    freshly constructed table, runs to completion (no probing loop diverges, the "table full"
    exception is never raised, however often the table doubles) and gives exactly the answers of
    a finite map: 'present' exactly for the keys inserted so far, 'already there' exactly on
    repeats, and the value returned is the one stored with the key's first insertion. -/
theorem history_refines (ops : List Op) (h : ∀ op ∈ ops, opKey op ≠ 0) :
    ∃ t, run init ops = some ((PV.Spec.Map.run [] ops).1, t) := by
  obtain ⟨t, ht, _, _⟩ := PV.Lemmas.Table.run_inv ops init [] PV.Lemmas.Table.init_inv
    PV.Lemmas.Table.init_abs h
  exact ⟨t, ht⟩

/-- Growth preserves contents: doubling a reachable table keeps every (key, value) pair and
    adds none. -/
theorem double_preserves (ops : List Op) (h : ∀ op ∈ ops, opKey op ≠ 0) (ans : List Ans) (t : Table)
    (hr : run init ops = some (ans, t)) :
    ∃ t', double t = some t' ∧ t'.buckets = 2 * t.buckets ∧
      ∀ k, k ≠ 0 → find t' k = find t k := by
  obtain ⟨t0, ht0, hi, _⟩ := PV.Lemmas.Table.run_inv ops init [] PV.Lemmas.Table.init_inv
    PV.Lemmas.Table.init_abs h
  rw [hr] at ht0
  injection ht0 with ht0
  injection ht0 with _ ht0
  subst ht0
  exact PV.Lemmas.Table.double_preserves_of_inv t hi

/-- The number of stored entries always stays below the number of buckets (at least one bucket
    is empty, so every probe terminates) and the bucket count is a power of two ≥ 8. -/
theorem reachable_shape (ops : List Op) (h : ∀ op ∈ ops, opKey op ≠ 0) (ans : List Ans) (t : Table)
    (hr : run init ops = some (ans, t)) :
    t.entries < t.buckets ∧ (∃ n, 3 ≤ n ∧ t.buckets = 2 ^ n) ∧ t.mask + 1 = t.buckets := by
  obtain ⟨t0, ht0, hi, _⟩ := PV.Lemmas.Table.run_inv ops init [] PV.Lemmas.Table.init_inv
    PV.Lemmas.Table.init_abs h
  rw [hr] at ht0
  injection ht0 with ht0
  injection ht0 with _ ht0
  subst ht0
  exact PV.Lemmas.Table.shape_of_inv t hi

-- non-vacuity: a history that forces two doublings with wrap-around clusters (keys ≡ 7 mod 8)
example : (run init ((List.range 20).map (fun i => Op.insert (8 * i + 7) i))).map (fun r => r.2.buckets) = some 32 := by
  decide +kernel

/-! #### vocab (PV.Tools2): the seen-set over words -/
section Vocab
open PV.Tools PV.Tools2 PV.Spec.FirstOcc

/-- vocab (through the real hash-table model) prints exactly the first occurrence of every distinct word (up to
    64-bit collisions; a word hashing to the invalid key 0 is excluded), NUL-terminated, in order. -/
theorem vocab_first_occurrences (input : List UInt8) (h0 : ∀ w ∈ vocabWords input, wordKey w ≠ 0) :
    vocab input = some ((firstOccBy wordKey (vocabWords input)).flatMap (· ++ [0])) := by
  have h := PV.Lemmas.Tools.dedupeLoop_spec wordKey (vocabWords input) PV.Table.init []
    PV.Lemmas.Table.init_inv PV.Lemmas.Table.init_abs h0
  simp only [vocab, dedupe, h, Option.map_some]
  rfl

-- non-vacuity
example : vocabWords [98, 32, 97, 32, 32, 98, 9, 99, 10, 97] = [[98], [97], [98], [99], [97]] := by decide

end Vocab

section Substitute
/-! Values stay attached to their key across growth, through a TOOL: `substitute` keeps the value of the first line of every
    key in the hash-table entry (written through the iterator FindOrInsert returns) and must print exactly that value for
    every later line with the key, however often the table has doubled in between. -/
open PV.Substitute PV.Tools PV.Fields

/-- all sentence keys of the well-formed lines of an input -/
def keysOf (ls : List Line) : List Nat :=
  ls.filterMap (fun l => match rangeFields l ranges 9 with
    | [_, p1, _, _] => some (key p1)
    | _ => none)

/-- `substitute` through the real table model (any number of doublings) equals the table-free specification: a line whose
    sentences were seen before is printed with the value of the FIRST line that had them; 64-bit collisions and a key hashing
    to the invalid key 0 excepted. -/
theorem substitute_refines (ls : List Line) (h0 : ∀ k ∈ keysOf ls, k ≠ 0) :
    substitute ls = spec ls := by
  apply PV.Lemmas.Substitute.substitute_spec
  intro l hl p0 p1 p2 p3 h
  exact h0 _ (List.mem_filterMap.2 ⟨l, hl, by rw [h]⟩)

/-- a line with fewer than six fields stops the tool with an error, whatever came before (nothing is guessed) -/
theorem short_line_is_error (pre : List Line) (l : Line) (post : List Line)
    (hl : (rangeFields l ranges 9).length ≠ 4) :
    spec (pre ++ l :: post) = none :=
  PV.Lemmas.Substitute.specGo_short l post hl pre []

-- non-vacuity: "a\tb\tc\td\tV1\tx", "e\tf\tc\td\tV2\ty"  ->  second line printed with V1
example : spec [[97,9,98,9,99,9,100,9,86,49,9,120], [101,9,102,9,99,9,100,9,86,50,9,121]]
    = some [[97,9,98,9,99,9,100,9,86,49,9,120], [101,9,102,9,99,9,100,9,86,49,9,121]] := by decide +kernel
example : substitute [[97,9,98,9,99,9,100,9,86,49,9,120], [101,9,102,9,99,9,100,9,86,50,9,121]]
    = some [[97,9,98,9,99,9,100,9,86,49,9,120], [101,9,102,9,99,9,100,9,86,49,9,121]] := by decide +kernel
example : spec [[97,9,98,9,99,9,100,9,86]] = none := by decide +kernel      -- five fields

end Substitute

/-! ### util::MutableVocab (word ids of train_case / apply_case / truecase): values stay attached to their keys -/
section MVocab
open PV.MVocab

/-- FindOrInsert over any word list (no word hashing to 0) never fails and hands out the first-occurrence ids 1, 2, …;
afterwards Size() is one more than the number of distinct keys and Find answers that id, 0 (kUNK) for unknown words -/
theorem mvocab_refines (ws : List Word) (h0 : ∀ w ∈ ws, key w ≠ 0) :
    ∃ v, insertAll init ws = some ((specInsertAll [] ws).1, v) ∧
      v.strings.length = (specInsertAll [] ws).2.length + 1 ∧
      (∀ w, key w ≠ 0 → find v w = some (specFind (specInsertAll [] ws).2 w)) :=
  PV.Lemmas.MVocab.insertAll_refines ws h0

/-- two positions receive the same id exactly when their words have the same key, and ids are dense in 1..#distinct -/
theorem mvocab_ids (ws : List Word) :
    (∀ i j, i < ws.length → j < ws.length →
      (((specInsertAll [] ws).1.getD i 0 = (specInsertAll [] ws).1.getD j 0) ↔ key (ws.getD i []) = key (ws.getD j []))) ∧
    (∀ x ∈ (specInsertAll [] ws).1, 1 ≤ x ∧ x ≤ (specInsertAll [] ws).2.length) :=
  ⟨fun i j hi hj => PV.Lemmas.MVocab.spec_ids_eq_iff ws i j hi hj, PV.Lemmas.MVocab.spec_ids_range ws⟩

/-- `String(FindOrInsert(w)) = w` for every position of the input, at the end of the run: the stored string stays attached to its id -/
theorem mvocab_strings_attached (ws : List Word) (h0 : ∀ w ∈ ws, key w ≠ 0)
    (hinj : ∀ a ∈ ws, ∀ b ∈ ws, key a = key b → a = b) (ids : List Nat) (v : V)
    (hr : insertAll init ws = some (ids, v)) :
    ∀ i, i < ws.length → v.strings.getD (ids.getD i 0) [] = ws.getD i [] :=
  PV.Lemmas.MVocab.strings_attached ws h0 hinj ids v hr

/-- the carve-out is real: the empty word's key IS 0 (MutableVocab answers kUNK for it) -/
theorem mvocab_empty_word_key_zero : key [] = 0 := PV.Lemmas.MVocab.empty_word_key_zero

-- non-vacuity: "a" "b" "a" get 1 2 1 and the hypotheses hold for them
example : (insertAll init [[97], [98], [97]]).map (fun r => (r.1, r.2.strings)) = some ([1, 2, 1], [unk, [97], [98]]) := by decide +kernel
example : key [97] ≠ 0 ∧ key [98] ≠ 0 ∧ key [97] ≠ key [98] := by decide +kernel
end MVocab

end PV.Props.C13
