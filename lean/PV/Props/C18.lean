import PV.Model.Tools
import PV.Spec.FirstOcc
import PV.Spec.Utf8
import PV.Lemmas.Tools
import PV.Lemmas.Utf8
/-
C18 — line filters keep or drop each line by its own content only.
(simple_cleaning's per-field predicate with ICU's classification as parameters is in
PV.Model.Cleaning / C18b theorems below once added.)
-/
namespace PV.Props.C18
open PV.Tools PV.Spec.FirstOcc

/-! #### remove_long_lines -/
theorem long_lines_sublist (limit : Nat) (ls : List Line) : (removeLongLines limit ls).Sublist ls := by
  exact List.filter_sublist

/-- thresholds are exact: exactly LIMIT bytes is kept, LIMIT+1 is dropped. -/
theorem long_lines_limit_exact (limit : Nat) (ls : List Line) (l : Line) :
    l ∈ removeLongLines limit ls ↔ (l ∈ ls ∧ l.length ≤ limit) := by
  simp [removeLongLines, List.mem_filter]

theorem long_lines_compositional (limit : Nat) (a b : List Line) :
    removeLongLines limit (a ++ b) = removeLongLines limit a ++ removeLongLines limit b := by
  simp [removeLongLines, List.filter_append]

/-! #### remove_invalid_utf8 -/
theorem invalid_utf8_sublist (ls : List Line) : (removeInvalidUtf8 ls).Sublist ls := by
  exact List.filter_sublist

theorem invalid_utf8_keeps_wellformed (ls : List Line) (l : Line) :
    l ∈ removeInvalidUtf8 ls ↔ (l ∈ ls ∧ PV.Spec.Utf8.WellFormed l) := by
  unfold removeInvalidUtf8
  rw [List.mem_filter, PV.Lemmas.Tools.isUTF8_iff]

theorem invalid_utf8_compositional (a b : List Line) :
    removeInvalidUtf8 (a ++ b) = removeInvalidUtf8 a ++ removeInvalidUtf8 b := by
  simp [removeInvalidUtf8, List.filter_append]

/-! #### remove_invalid_utf8_base64 (one output line per input line) -/
theorem b64_utf8_compositional (a b : List Line) :
    removeInvalidUtf8Base64 (a ++ b) =
      (match removeInvalidUtf8Base64 a, removeInvalidUtf8Base64 b with
       | some x, some y => some (x ++ y)
       | _, _ => none) := by
  exact PV.Lemmas.Tools.b64_append a b

theorem b64_utf8_linewise (ls out : List Line) (h : removeInvalidUtf8Base64 ls = some out) :
    out.length = ls.length ∧ ∀ i (hi : i < ls.length) (ho : i < out.length),
      out[i] = ls[i] ∨ out[i] = PV.Base64.encode [] := by
  exact PV.Lemmas.Tools.b64_linewise ls out h

/-! #### subtract_lines -/
/-- removes every copy of every subtrahend line (key) and nothing else. -/
theorem subtract_spec (key : Line → Nat) (sub ls : List Line)
    (h0 : ∀ l ∈ sub ++ ls, key l ≠ 0) :
    subtractLines key sub ls = some (ls.filter (fun l => decide (key l ∉ sub.map key))) := by
  exact PV.Lemmas.Tools.subtractLines_spec key sub ls h0

/-! #### commoncrawl_dedupe -/
/-- the kept lines: strip spaces, drop delimiter lines, drop keys seen before (in the removal
    file or earlier in the input), drop ill-formed UTF-8 (which still counts as seen). -/
def ccSpecGo (key : Line → Nat) : List Nat → List Line → List Line
  | _, [] => []
  | seen, l :: ls =>
    let l := stripSpaces l
    if ccMagic.isPrefixOf l then ccSpecGo key seen ls
    else if key l ∈ seen then ccSpecGo key seen ls
    else if PV.Utf8.isUTF8 l then l :: ccSpecGo key (key l :: seen) ls
    else ccSpecGo key (key l :: seen) ls

theorem ccdedupe_spec (key : Line → Nat) (remove ls : List Line)
    (h0 : ∀ l ∈ remove ++ ls, key (stripSpaces l) ≠ 0) :
    commoncrawlDedupe key remove ls = some (ccSpecGo key ((remove.map (fun l => key (stripSpaces l))).reverse) ls) := by
  have heq : ∀ (ls : List Line) (seen : List Nat),
      ccSpecGo key seen ls = PV.Lemmas.Tools.ccGo key seen ls := by
    intro ls
    induction ls with
    | nil => intro seen; simp [ccSpecGo, PV.Lemmas.Tools.ccGo]
    | cons l ls ih => intro seen; simp [ccSpecGo, PV.Lemmas.Tools.ccGo, ih]
  rw [heq]
  exact PV.Lemmas.Tools.ccdedupe_ccGo key remove ls h0

/-- commoncrawl_dedupe never emits an ill-formed line, and never the same key twice. -/
theorem ccdedupe_output_wellformed (key : Line → Nat) (seen : List Nat) (ls : List Line) :
    (∀ l ∈ ccSpecGo key seen ls, PV.Spec.Utf8.WellFormed l) ∧ ((ccSpecGo key seen ls).map key).Nodup := by
  have heq : ∀ (ls : List Line) (seen : List Nat),
      ccSpecGo key seen ls = PV.Lemmas.Tools.ccGo key seen ls := by
    intro ls
    induction ls with
    | nil => intro seen; simp [ccSpecGo, PV.Lemmas.Tools.ccGo]
    | cons l ls ih => intro seen; simp [ccSpecGo, PV.Lemmas.Tools.ccGo, ih]
  rw [heq]
  refine ⟨?_, PV.Lemmas.Tools.ccGo_nodup key ls seen⟩
  intro l hl
  exact (PV.Lemmas.Tools.isUTF8_iff l).1 (PV.Lemmas.Tools.mem_ccGo key ls seen l hl).1

-- non-vacuity
example : removeLongLines 2 [[1, 2], [1, 2, 3], []] = [[1, 2], []] := by decide
example : stripSpaces [32, 9, 97, 32, 98, 13, 32] = [97, 32, 98] := by decide

end PV.Props.C18
