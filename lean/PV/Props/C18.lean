import PV.Model.Tools
import PV.Model.Cleaning
import PV.Lemmas.Cleaning
import PV.Spec.FirstOcc
import PV.Spec.Utf8
import PV.Lemmas.Tools
import PV.Lemmas.Utf8
/-
C18 — line filters keep or drop each line by its own content only.
(simple_cleaning's per-field predicate, with ICU's classification and the float threshold tests as parameters,
is PV.Model.Cleaning; its theorems are in the last section.)
-/
namespace PV.Props.C18
open PV.Tools PV.Spec.FirstOcc

/-! #### remove_long_lines -/
theorem long_lines_sublist (limit : Nat) (ls : List Line) : (removeLongLines limit ls).Sublist ls := by
  exact List.filter_sublist

/-- thresholds are exact: exactly LIMIT bytes is kept, LIMIT+1 is dropped. -/
theorem long_lines_limit_exact (limit : Nat) (ls : List Line) (l : Line) :
    l ∈ removeLongLines limit ls ↔ (l ∈ ls ∧ l.length ≤ limit) := by
  simp [removeLongLines, List.mem_filter]

theorem long_lines_compositional (limit : Nat) (a b : List Line) :
    removeLongLines limit (a ++ b) = removeLongLines limit a ++ removeLongLines limit b := by
  simp [removeLongLines, List.filter_append]

/-! #### remove_invalid_utf8 -/
theorem invalid_utf8_sublist (ls : List Line) : (removeInvalidUtf8 ls).Sublist ls := by
  exact List.filter_sublist

theorem invalid_utf8_keeps_wellformed (ls : List Line) (l : Line) :
    l ∈ removeInvalidUtf8 ls ↔ (l ∈ ls ∧ PV.Spec.Utf8.WellFormed l) := by
  unfold removeInvalidUtf8
  rw [List.mem_filter, PV.Lemmas.Tools.isUTF8_iff]

theorem invalid_utf8_compositional (a b : List Line) :
    removeInvalidUtf8 (a ++ b) = removeInvalidUtf8 a ++ removeInvalidUtf8 b := by
  simp [removeInvalidUtf8, List.filter_append]

/-! #### remove_invalid_utf8_base64 (one output line per input line) -/
theorem b64_utf8_compositional (a b : List Line) :
    removeInvalidUtf8Base64 (a ++ b) =
      (match removeInvalidUtf8Base64 a, removeInvalidUtf8Base64 b with
       | some x, some y => some (x ++ y)
       | _, _ => none) := by
  exact PV.Lemmas.Tools.b64_append a b

theorem b64_utf8_linewise (ls out : List Line) (h : removeInvalidUtf8Base64 ls = some out) :
    out.length = ls.length ∧ ∀ i (hi : i < ls.length) (ho : i < out.length),
      out[i] = ls[i] ∨ out[i] = PV.Base64.encode [] := by
  exact PV.Lemmas.Tools.b64_linewise ls out h

/-! #### subtract_lines -/
/-- removes every copy of every subtrahend line (key) and nothing else. -/
theorem subtract_spec (key : Line → Nat) (sub ls : List Line)
    (h0 : ∀ l ∈ sub ++ ls, key l ≠ 0) :
    subtractLines key sub ls = some (ls.filter (fun l => decide (key l ∉ sub.map key))) := by
  exact PV.Lemmas.Tools.subtractLines_spec key sub ls h0

/-! #### commoncrawl_dedupe -/
/-- the kept lines: strip spaces, drop delimiter lines, drop keys seen before (in the removal
    file or earlier in the input), drop ill-formed UTF-8 (which still counts as seen). -/
def ccSpecGo (key : Line → Nat) : List Nat → List Line → List Line
  | _, [] => []
  | seen, l :: ls =>
    let l := stripSpaces l
    if ccMagic.isPrefixOf l then ccSpecGo key seen ls
    else if key l ∈ seen then ccSpecGo key seen ls
    else if PV.Utf8.isUTF8 l then l :: ccSpecGo key (key l :: seen) ls
    else ccSpecGo key (key l :: seen) ls

theorem ccdedupe_spec (key : Line → Nat) (remove ls : List Line)
    (h0 : ∀ l ∈ remove ++ ls, key (stripSpaces l) ≠ 0) :
    commoncrawlDedupe key remove ls = some (ccSpecGo key ((remove.map (fun l => key (stripSpaces l))).reverse) ls) := by
  have heq : ∀ (ls : List Line) (seen : List Nat),
      ccSpecGo key seen ls = PV.Lemmas.Tools.ccGo key seen ls := by
    intro ls
    induction ls with
    | nil => intro seen; simp [ccSpecGo, PV.Lemmas.Tools.ccGo]
    | cons l ls ih => intro seen; simp [ccSpecGo, PV.Lemmas.Tools.ccGo, ih]
  rw [heq]
  exact PV.Lemmas.Tools.ccdedupe_ccGo key remove ls h0

/-- commoncrawl_dedupe never emits an ill-formed line, and never the same key twice. -/
theorem ccdedupe_output_wellformed (key : Line → Nat) (seen : List Nat) (ls : List Line) :
    (∀ l ∈ ccSpecGo key seen ls, PV.Spec.Utf8.WellFormed l) ∧ ((ccSpecGo key seen ls).map key).Nodup := by
  have heq : ∀ (ls : List Line) (seen : List Nat),
      ccSpecGo key seen ls = PV.Lemmas.Tools.ccGo key seen ls := by
    intro ls
    induction ls with
    | nil => intro seen; simp [ccSpecGo, PV.Lemmas.Tools.ccGo]
    | cons l ls ih => intro seen; simp [ccSpecGo, PV.Lemmas.Tools.ccGo, ih]
  rw [heq]
  refine ⟨?_, PV.Lemmas.Tools.ccGo_nodup key ls seen⟩
  intro l hl
  exact (PV.Lemmas.Tools.isUTF8_iff l).1 (PV.Lemmas.Tools.mem_ccGo key ls seen l hl).1


/-! #### simple_cleaning (PV.Model.Cleaning; ICU classification and the float thresholds are parameters) -/
section Cleaning
open PV.Cleaning

/-- Full characterisation of one field's verdict: it is kept exactly when it is well-formed UTF-8 whose code
    points contain no C0 control other than tab / CR, all have a script, contain no run of `max run 2` equal
    non-space characters, number at least `--min-chars`, and pass the threshold tests on the counters. -/
theorem cleaning_keep_iff (p : Params) (bs : List UInt8) :
    keep p bs = true ↔ ∃ cs, PV.Utf8.decodeAll bs = some cs ∧ Accept p cs :=
  PV.Lemmas.Cleaning.keep_iff p bs

/-- simple_cleaning never passes ill-formed UTF-8 (whatever the parameters and thresholds). -/
theorem cleaning_rejects_illformed (p : Params) (bs : List UInt8) (h : keep p bs = true) :
    PV.Spec.Utf8.WellFormed bs := by
  obtain ⟨cs, hd, _⟩ := (cleaning_keep_iff p bs).mp h
  exact ⟨cs, (PV.Lemmas.Utf8.decodeAllFuel_iff bs.length bs cs (Nat.le_refl _)).mp hd⟩

/-- ... nor a C0 control character other than tab and carriage return. -/
theorem cleaning_rejects_controls (p : Params) (bs : List UInt8) (cs : List Nat)
    (h : keep p bs = true) (hd : PV.Utf8.decodeAll bs = some cs) :
    ∀ c ∈ cs, ¬ (c < 32 ∧ c ≠ 9 ∧ c ≠ 13) := by
  obtain ⟨cs', hd', hacc⟩ := (cleaning_keep_iff p bs).mp h
  rw [hd] at hd'; cases hd'
  intro c hc ⟨h1, h2, h3⟩
  have := hacc.1 c hc
  simp [isCtrl, h1, h2, h3] at this

/-- ... nor a field with fewer than `--min-chars` code points, nor one with a run of `--character-run` (at least 2)
    equal non-space characters. -/
theorem cleaning_min_chars_and_runs (p : Params) (bs : List UInt8) (cs : List Nat)
    (h : keep p bs = true) (hd : PV.Utf8.decodeAll bs = some cs) :
    p.minChars ≤ cs.length ∧ NoLongRun p cs := by
  obtain ⟨cs', hd', hacc⟩ := (cleaning_keep_iff p bs).mp h
  rw [hd] at hd'; cases hd'
  exact ⟨hacc.2.2.2.1, hacc.2.2.1⟩

/-- A line is kept exactly when every selected field is kept; the verdict is a function of the line alone, so
    the tool's output is a sublist of its input and filtering distributes over concatenation. -/
theorem cleaning_linewise (p : Params) (ranges : List PV.Fields.FieldRange) (delim : UInt8) (a b : List (List UInt8)) :
    filter p ranges delim (a ++ b) = filter p ranges delim a ++ filter p ranges delim b ∧
    (filter p ranges delim a).Sublist a ∧
    (∀ l, l ∈ filter p ranges delim a ↔ l ∈ a ∧ ∀ f ∈ PV.Fields.individualFields l ranges delim, keep p f = true) := by
  refine ⟨List.filter_append .., List.filter_sublist, ?_⟩
  intro l
  unfold filter keepLine
  rw [List.mem_filter, List.all_eq_true]

/-- non-vacuity: with a Latin/Common classification, "ab, c" (6 code points incl. a space and a comma) is kept
    with --min-chars 3 and --character-run 3, "aaa" is dropped for its run, "a\x01b" for its control character and
    "\xff" for being ill-formed. -/
def exParams : Params :=
  { minChars := 3, run := 3, scriptOf := fun c => some (if c = 32 ∨ c = 44 then 0 else 25),
    isPunct := fun c => c == 44, isSpace := fun c => c == 32, thresholds := fun _ _ _ => true }
example : keep exParams [97, 98, 44, 32, 99] = true := by decide
example : keep exParams [97, 97, 97, 98] = false := by decide
example : keep exParams [32, 32, 32, 32, 97] = true := by decide
example : keep exParams [97, 1, 98, 99] = false := by decide
example : keep exParams [255, 97, 98, 99] = false := by decide
example : keep exParams [97, 98] = false := by decide

end Cleaning

-- non-vacuity
example : removeLongLines 2 [[1, 2], [1, 2, 3], []] = [[1, 2], []] := by decide
example : stripSpaces [32, 9, 97, 32, 98, 13, 32] = [97, 32, 98] := by decide

end PV.Props.C18
