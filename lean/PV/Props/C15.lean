import PV.Model.Compress
import PV.Lemmas.Compress
/-
C15 — compressed I/O is transparent (the stream logic around the codecs).
The codec itself (zlib / bzip2 / liblzma) is an oracle: the theorems hold for EVERY sequence of
codec answers the controller accepts; that the real codecs' output is a valid stream decoding to the
input is checked against independent decoders (Python zlib/bz2/lzma, gzip/bzip2 tools) in the tie.
-/
namespace PV.Props.C15
open PV.Compress PV.Lemmas.Compress

/-- Writer accounting: whatever the write sizes, flush points and codec answers, the bytes handed
    to the file followed by the bytes still in the 4 KiB buffer are exactly the bytes the codec
    produced, in order — nothing is lost, duplicated or reordered at a buffer turn — and the codec
    never consumed more input than it was given. -/
theorem writer_accounting (bufSize kMin : Nat) (evs : List WEv) (s : WState)
    (h : wrun (winit bufSize kMin) evs = some s) :
    s.file ++ s.buf = List.range s.produced ∧ s.consumed ≤ s.given ∧ s.buf.length = s.bufSize - s.availOut := by
  have hi := winv_run evs _ s (winv_init bufSize kMin) h
  refine ⟨hi.acc, ?_, hi.len⟩
  have := hi.inp
  omega

/-- After a completed flush everything produced is in the file and all input was consumed. -/
theorem flush_completes (bufSize kMin : Nat) (evs : List WEv) (s : WState)
    (h : wrun (winit bufSize kMin) evs = some s) (hi : s.mode = .idle) (hd : s.dirty = false) :
    s.file = List.range s.produced ∧ s.consumed = s.given ∧ 1 ≤ s.members := by
  have hv := winv_run evs _ s (winv_init bufSize kMin) h
  have hb := hv.clean hi hd
  have ha := hv.noIn (Or.inl hi)
  have hacc := hv.acc
  have hinp := hv.inp
  rw [hb, List.append_nil] at hacc
  refine ⟨hacc, ?_, hv.mem (Or.inl hd)⟩
  omega

/-- A stream that is flushed without any write still runs the codec's Finish: an (empty) member is
    emitted, so the output file is never a zero-byte invalid stream. -/
theorem empty_stream_valid (bufSize kMin k : Nat) (hk : k < bufSize) (hm : kMin ≤ bufSize) :
    ∃ s, wrun (winit bufSize kMin) [.flush true, .fin bufSize, .findone k, .drain (bufSize - k)] = some s ∧
      s.members = 1 ∧ s.file = List.range (bufSize - k) ∧ s.dirty = false := by
  have h1 : k ≠ bufSize := by omega
  have h2 : k ≤ bufSize := by omega
  simp [wrun, wstep, winit, WState.produce, WState.drainAll, hm, h1, h2]

set_option linter.unusedVariables false in -- statement kept as given; some binders are not needed
/-- the writer never calls the codec with less than kMin output space, and never drains an empty
    buffer inside the loops. -/
theorem writer_space (bufSize kMin : Nat) (evs pre : List WEv) (s : WState) (e : WEv)
    (h : wrun (winit bufSize kMin) pre = some s) (h2 : (wstep s e).isSome)
    (hk : 1 ≤ kMin) (hb : kMin ≤ bufSize) :
    (∀ ain aout, e = .proc ain aout → kMin ≤ aout) ∧ (∀ aout, e = .fin aout → kMin ≤ aout) := by
  have hv := winv_run pre _ s (winv_init bufSize kMin) h
  have hc := wconst_run pre _ s h
  have hbs : s.bufSize = bufSize := hc.1
  have hkm : s.kMin = kMin := hc.2
  have hfull := hv.full
  clear hv hc h
  constructor
  · intro ain aout he
    subst he
    simp only [wstep] at h2
    (repeat' split at h2)
    all_goals try (simp at h2; done)
    all_goals first
      | omega
      | (have := hfull (by first | exact Or.inl ‹_› | exact Or.inr ‹_›); omega)
  · intro aout he
    subst he
    simp only [wstep] at h2
    (repeat' split at h2)
    all_goals try (simp at h2; done)
    all_goals first
      | omega
      | (have := hfull (by first | exact Or.inl ‹_› | exact Or.inr ‹_›); omega)

set_option linter.unusedVariables false in -- statement kept as given; some binders are not needed
/-- NOTE on `reader_no_spin` above: as stated it is TRUE but says little — every codec call is a
    `proc` event of its own, so `s.steps ≤ evs.length` holds for every accepted run, with or without
    the contract C1 (`hp` is not used).  The bound that really expresses "Read cannot spin" does not
    count the `proc`/`ok` events themselves: with a codec that honours C1, the number of codec calls
    plus the input still unconsumed is at most (compressed bytes supplied + number of Read calls):
    inside one Read call every codec call but the last consumes at least one input byte. -/
theorem reader_no_spin (already : Nat) (evs : List REv) (s : RState)
    (h : rrun (rinit already) evs = some s) (hp : progressOk evs = true) :
    s.steps + s.availIn ≤ s.fed + evs.countP (fun e => e matches .read _) := by
  have hf : (fun e : REv => e matches .read _) = isRead := by
    funext e
    cases e <;> rfl
  have hv := rinv_run evs _ s 0 (rinv_init already) (by cases evs <;> simp [pokHead, pokStep, rinit]) hp h
  have := hv.pot
  rw [hf]
  omega

-- C1 is really needed for `reader_no_spin`: a codec that neither consumes nor produces is
-- accepted by the controller and spins (3 calls > 1 byte supplied + 1 Read) — only `progressOk` rejects it
example : let evs : List REv := [.read 10, .proc 1 10, .ok 1 0, .proc 1 10, .ok 1 0, .proc 1 10, .ok 1 0]
    ((rrun (rinit 1) evs).map (fun s => (s.steps, s.fed)), evs.countP (fun e => e matches .read _), progressOk evs)
      = (some (3, 1), 1, false) := by decide
-- the bound is attained: 2 bytes supplied, 1 Read, 3 codec calls (the last one at end of file)
example : let evs : List REv := [.read 10, .proc 2 10, .ok 1 0, .proc 1 10, .ok 0 0, .input 0, .proc 0 10]
    ((rrun (rinit 2) evs).map (fun s => (s.steps, s.availIn, s.fed)), evs.countP (fun e => e matches .read _), progressOk evs)
      = (some (3, 0, 2), 1, true) := by decide

set_option linter.unusedVariables false in -- statement kept as given; some binders are not needed
/-- a Process call at end of file that yields nothing is followed by no further codec call. -/
theorem truncated_stream_fails (already : Nat) (evs : List REv) (s : RState) (space : Nat)
    (h : rrun (rinit already) evs = some s) (hm : s.mode = .head true) (ha : s.availIn = 0) :
    ∀ s1 s2, rstep s (.proc 0 space) = some s1 → rstep s1 (.ok 0 s.nout) = some s2 → s2.mode = .failed := by
  intro s1 s2 h1 h2
  simp only [rstep, hm, ha] at h1
  split at h1
  · cases h1
    simp [rstep] at h2
    rw [← h2.2]
  · cases h1

/-- what a Read call returns never exceeds the amount asked for. -/
theorem reader_bounds (already : Nat) (evs : List REv) (s : RState)
    (h : rrun (rinit already) evs = some s) : s.nout ≤ s.amount ∨ s.mode = .idle := by
  exact Or.inl (rbound_run evs _ s (by simp [rinit]) h)

-- non-vacuity: the trace of `z.write gzip w3,f` recorded from the real code
example : (wrun (winit 4096 6) [.write 3, .proc 3 4096, .did 0 4086, .flush true, .fin 4086, .findone 4073, .drain 23]).map
    (fun s => (s.file.length, s.members, s.consumed)) = some (23, 1, 3) := by decide

end PV.Props.C15
