import PV.Model.Compress
import PV.Lemmas.Compress
/-
C15 — compressed I/O is transparent (the stream logic around the codecs).
The codec itself (zlib / bzip2 / liblzma) is an oracle: the theorems hold for EVERY sequence of
codec answers the controller accepts; that the real codecs' output is a valid stream decoding to the
input is checked against independent decoders (Python zlib/bz2/lzma, gzip/bzip2 tools) in the tie.
-/
namespace PV.Props.C15
open PV.Compress

/-- Writer accounting: whatever the write sizes, flush points and codec answers, the bytes handed
    to the file followed by the bytes still in the 4 KiB buffer are exactly the bytes the codec
    produced, in order — nothing is lost, duplicated or reordered at a buffer turn — and the codec
    never consumed more input than it was given. -/
theorem writer_accounting (bufSize kMin : Nat) (evs : List WEv) (s : WState)
    (h : wrun (winit bufSize kMin) evs = some s) :
    s.file ++ s.buf = List.range s.produced ∧ s.consumed ≤ s.given ∧ s.buf.length = s.bufSize - s.availOut := by
  sorry

/-- After a completed flush everything produced is in the file and all input was consumed. -/
theorem flush_completes (bufSize kMin : Nat) (evs : List WEv) (s : WState)
    (h : wrun (winit bufSize kMin) evs = some s) (hi : s.mode = .idle) (hd : s.dirty = false) :
    s.file = List.range s.produced ∧ s.consumed = s.given ∧ 1 ≤ s.members := by
  sorry

/-- A stream that is flushed without any write still runs the codec's Finish: an (empty) member is
    emitted, so the output file is never a zero-byte invalid stream. -/
theorem empty_stream_valid (bufSize kMin k : Nat) (hk : k < bufSize) (hm : kMin ≤ bufSize) :
    ∃ s, wrun (winit bufSize kMin) [.flush true, .fin bufSize, .findone k, .drain (bufSize - k)] = some s ∧
      s.members = 1 ∧ s.file = List.range (bufSize - k) ∧ s.dirty = false := by
  sorry

/-- the writer never calls the codec with less than kMin output space, and never drains an empty
    buffer inside the loops. -/
theorem writer_space (bufSize kMin : Nat) (evs pre : List WEv) (s : WState) (e : WEv)
    (h : wrun (winit bufSize kMin) pre = some s) (h2 : (wstep s e).isSome)
    (hk : 1 ≤ kMin) (hb : kMin ≤ bufSize) :
    (∀ ain aout, e = .proc ain aout → kMin ≤ aout) ∧ (∀ aout, e = .fin aout → kMin ≤ aout) := by
  sorry

/-- Reader accounting: bytes returned never exceed what was asked for, and the number of codec
    calls is bounded by the progress they make: with a codec that makes progress whenever it has
    input (contract C1), every accepted run of `k` events contains at most
    (compressed bytes supplied + bytes delivered + number of Read calls and refills + 1) codec calls
    — so Read cannot spin; a call at end of file that makes no progress ends the run in `failed`
    (the truncated-stream error) instead of looping. -/
theorem reader_no_spin (already : Nat) (evs : List REv) (s : RState)
    (h : rrun (rinit already) evs = some s) (hp : progressOk evs = true) :
    s.steps ≤ s.fed + s.delivered + s.nout + evs.length := by
  sorry

/-- a Process call at end of file that yields nothing is followed by no further codec call. -/
theorem truncated_stream_fails (already : Nat) (evs : List REv) (s : RState) (space : Nat)
    (h : rrun (rinit already) evs = some s) (hm : s.mode = .head true) (ha : s.availIn = 0) :
    ∀ s1 s2, rstep s (.proc 0 space) = some s1 → rstep s1 (.ok 0 s.nout) = some s2 → s2.mode = .failed := by
  sorry

/-- what a Read call returns never exceeds the amount asked for. -/
theorem reader_bounds (already : Nat) (evs : List REv) (s : RState)
    (h : rrun (rinit already) evs = some s) : s.nout ≤ s.amount ∨ s.mode = .idle := by
  sorry

-- non-vacuity: the trace of `z.write gzip w3,f` recorded from the real code
example : (wrun (winit 4096 6) [.write 3, .proc 3 4096, .did 0 4086, .flush true, .fin 4086, .findone 4073, .drain 23]).map
    (fun s => (s.file.length, s.members, s.consumed)) = some (23, 1, 3) := by decide

end PV.Props.C15
