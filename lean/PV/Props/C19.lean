import PV.Model.Flatten
import PV.Spec.Flatten
import PV.Gen.Flatten
import PV.Lemmas.Flatten
/-
C19 — process_unicode applies the requested transforms to every line, each char once.
-/
namespace PV.Props.C19
open PV.Flatten

def Scalar (c : Nat) : Prop := c < 0xD800 ∨ (0xE000 ≤ c ∧ c ≤ 0x10FFFF)

/-- For every combination of flags and every line position, the printed line is the input line
    with exactly the requested transforms applied in order (lowercasing, flatten, NFKC) — the
    ping-pong buffers never leak the previous line or an untransformed buffer. -/
theorem pipeline_per_line (fl : Flags) (lower nfkc : List Nat → List Nat) (rules : List Start)
    (isSpace : Nat → Bool) (lines : List (List Nat)) :
    processUnicode fl lower nfkc rules isSpace lines =
      lines.map (PV.Spec.Flatten.transform fl.lower fl.flatten fl.normalize lower (apply rules isSpace) nfkc) := by
  unfold processUnicode
  exact PV.Lemmas.Flatten.mainLoop_eq fl lower nfkc rules isSpace lines _

/-- with no flag, text passes through unchanged. -/
theorem no_flag_identity (lower nfkc : List Nat → List Nat) (rules : List Start) (isSpace : Nat → Bool)
    (lines : List (List Nat)) : processUnicode ⟨false, false, false⟩ lower nfkc rules isSpace lines = lines := by
  rw [pipeline_per_line]
  induction lines with
  | nil => rfl
  | cons l ls ih => rw [List.map_cons, ih]; rfl

/-- Flatten::Apply on the UTF-16 text of any sequence of scalar values equals the code-point
    level specification: leftmost, multi-character alternatives before the single-character one,
    else copy — every code point, including supplementary-plane ones, is emitted exactly once. -/
theorem apply_eq_spec (rules : List Start) (hb : PV.Spec.Flatten.bmpOnly rules = true) (isSpace : Nat → Bool)
    (cps : List Nat) (hs : ∀ c ∈ cps, Scalar c) :
    apply rules isSpace (cps.flatMap encode16) = PV.Spec.Flatten.flatten rules isSpace cps := by
  unfold apply PV.Spec.Flatten.flatten
  have h := PV.Lemmas.Flatten.applyLoop_eq rules hb isSpace (cps.length + 1)
    ((cps.flatMap encode16).length + 1) [] cps [] hs (Nat.le_succ _) (Nat.le_succ _)
  simpa using h

/-- characters no rule targets pass through unchanged. -/
theorem no_rule_passthrough (rules : List Start) (hb : PV.Spec.Flatten.bmpOnly rules = true) (isSpace : Nat → Bool)
    (cps : List Nat) (hs : ∀ c ∈ cps, Scalar c) (hn : ∀ c ∈ cps, ∀ st ∈ rules, st.c ≠ c) :
    apply rules isSpace (cps.flatMap encode16) = cps.flatMap encode16 := by
  rw [apply_eq_spec rules hb isSpace cps hs]
  exact PV.Lemmas.Flatten.flattenSpec_no_rule rules isSpace _ cps (Nat.le_succ _) hn

/-- "the listed punctuation substitutions for the language": the table the running code has BUILT for each of the five languages
    (dumped from `LookupFlatten`) is exactly the table that the rule arrays in the source text give when each array goes to the
    languages it is listed for (general: all; quotes: en, de, es; English right-boundary and digit-brace rules: en; French
    guillemets: fr) — nothing more, nothing less, in the same order. -/
theorem generated_tables_are_the_listed_ones : PV.Gen.flattenLangs = PV.Gen.flattenListedLangs := by
  decide +kernel

/-- the generated tables of all five languages satisfy the BMP hypothesis. -/
theorem generated_tables_bmp : ∀ lt ∈ PV.Gen.flattenLangs, PV.Spec.Flatten.bmpOnly lt.2 = true := by
  intro lt h
  simp only [PV.Gen.flattenLangs, List.mem_cons, List.not_mem_nil, or_false] at h
  rcases h with h | h | h | h | h <;> subst h <;> decide +kernel

-- non-vacuity: x 😀 y through the English table; `' s` at a right boundary; ``…`` quotes
example : apply PV.Gen.flatten_en (fun c => c == 32) [120, 0xD83D, 0xDE00, 121] = [120, 0xD83D, 0xDE00, 121] := by
  decide +kernel
example : apply PV.Gen.flatten_en (fun c => c == 32) [74, 39, 32, 115] = [74, 39, 115] := by decide +kernel
example : apply PV.Gen.flatten_en (fun c => c == 32) [96, 96, 97, 96] = [34, 97, 39] := by decide +kernel

end PV.Props.C19
