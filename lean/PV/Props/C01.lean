import PV.Model.Tools
import PV.Spec.FirstOcc
import PV.Lemmas.Tools
/-
C01 — dedupe keeps exactly the first occurrence of every key, in input order.
The key function is arbitrary (whole-line Murmur or the field fold for -f and -d, see C10/C14); the
only hypothesis is that no key hashes to 0, the empty-bucket marker (see `zero_hash_dropped`).
"Same key" is equality of 64-bit hashes; `collision_free_text` transfers every statement to
equality of the selected text under the documented no-collision hypothesis.
-/
namespace PV.Props.C01
open PV.Tools PV.Spec.FirstOcc

/-- dedupe (through the real hash-table model, any number of doublings) writes exactly the
    first-occurrence lines, in input order. -/
theorem dedupe_eq_firstOcc (key : Line → Nat) (ls : List Line) (h0 : ∀ l ∈ ls, key l ≠ 0) :
    dedupe key ls = some (firstOccBy key ls) := by
  exact PV.Lemmas.Tools.dedupeLoop_spec key ls PV.Table.init [] PV.Lemmas.Table.init_inv
    PV.Lemmas.Table.init_abs h0

/-- "exactly those lines whose key has not appeared on an earlier line" -/
theorem firstOcc_characterisation {α β : Type} [DecidableEq β] (f : α → β) (ls : List α) :
    firstOccBy f ls =
      (ls.zipIdx.filter (fun (l, i) => decide (f l ∉ (ls.take i).map f))).map (·.1) := by
  have h := PV.Lemmas.Tools.firstOccGo_char f ls [] [] (fun x => by simp)
  simpa [firstOccBy] using h

theorem firstOcc_sublist {α β : Type} [DecidableEq β] (f : α → β) (ls : List α) :
    (firstOccBy f ls).Sublist ls := by
  exact PV.Lemmas.Tools.firstOccGo_sublist f ls []

/-- no key occurs twice in the output -/
theorem firstOcc_keys_nodup {α β : Type} [DecidableEq β] (f : α → β) (ls : List α) :
    ((firstOccBy f ls).map f).Nodup := by
  exact PV.Lemmas.Tools.firstOccGo_nodup f ls []

/-- every input key occurs in the output -/
theorem firstOcc_keys_complete {α β : Type} [DecidableEq β] (f : α → β) (ls : List α) :
    ∀ l ∈ ls, f l ∈ (firstOccBy f ls).map f := by
  intro l hl
  rcases PV.Lemmas.Tools.firstOccGo_complete f ls [] l hl with h | h
  · simp at h
  · exact h

/-- running dedupe on its own output changes nothing -/
theorem firstOcc_idempotent {α β : Type} [DecidableEq β] (f : α → β) (ls : List α) :
    firstOccBy f (firstOccBy f ls) = firstOccBy f ls := by
  unfold firstOccBy
  apply PV.Lemmas.Tools.firstOccGo_id
  · intro x _; simp
  · exact PV.Lemmas.Tools.firstOccGo_nodup f ls []

/-- under the no-collision hypothesis, first occurrence by hash is first occurrence by the
    selected text. -/
theorem collision_free_text {α β γ : Type} [DecidableEq β] [DecidableEq γ] (key : α → β) (text : α → γ)
    (ls : List α) (h : ∀ a ∈ ls, ∀ b ∈ ls, key a = key b ↔ text a = text b) :
    firstOccBy key ls = firstOccBy text ls := by
  exact PV.Lemmas.Tools.firstOccGo_text key text ls [] [] h (fun a _ => by simp)

/-- the documented marker behaviour: a line whose key is 0 is treated as already seen. -/
theorem zero_hash_dropped (key : Line → Nat) (l : Line) (h : key l = 0) : dedupe key [l] = some [] := by
  exact PV.Lemmas.Tools.dedupe_zero key l h

/-- parallel mode follows the two-table short-circuit specification … -/
theorem dedupePar_eq_spec (key : Line → Nat) (ps : List (Line × Line))
    (h0 : ∀ p ∈ ps, key p.1 ≠ 0 ∧ key p.2 ≠ 0) : dedupePar key ps = some (parSpec key ps) := by
  exact PV.Lemmas.Tools.dedupeParLoop_spec key ps PV.Table.init PV.Table.init [] []
    PV.Lemmas.Table.init_inv PV.Lemmas.Table.init_abs PV.Lemmas.Table.init_inv
    PV.Lemmas.Table.init_abs h0

/-- … whose output pairs are input pairs in input order (so the two outputs stay line-aligned), -/
theorem par_sublist {α β : Type} [DecidableEq β] (f : α → β) (ps : List (α × α)) :
    (parSpec f ps).Sublist ps := by
  exact PV.Lemmas.Tools.parGo_sublist f ps [] []

/-- neither output repeats a line (key), -/
theorem par_nodup_each_side {α β : Type} [DecidableEq β] (f : α → β) (ps : List (α × α)) :
    ((parSpec f ps).map (fun p => f p.1)).Nodup ∧ ((parSpec f ps).map (fun p => f p.2)).Nodup := by
  exact PV.Lemmas.Tools.parGo_nodup f ps [] []

/-- and a pair whose two sides both never occurred before is never dropped. -/
theorem par_both_new_kept {α β : Type} [DecidableEq β] (f : α → β) (pre post : List (α × α)) (a b : α)
    (ha : f a ∉ pre.map (fun p => f p.1)) (hb : f b ∉ pre.map (fun p => f p.2)) :
    (a, b) ∈ parSpec f (pre ++ (a, b) :: post) := by
  exact PV.Lemmas.Tools.parGo_both_new f a b post pre [] [] (by simp) (by simp) ha hb

-- non-vacuity
example : firstOccBy (fun (n : Nat) => n % 3) [1, 4, 2, 7, 5, 3] = [1, 2, 3] := by decide
example : parSpec (fun (n : Nat) => n) [(1, 2), (1, 3), (4, 2), (5, 3)] = [(1, 2), (5, 3)] := by decide

end PV.Props.C01
