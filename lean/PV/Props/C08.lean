import PV.Model.B64filter
import PV.Lemmas.B64filter
/-
C08 — b64filter preserves document boundaries and content around the child.
-/
namespace PV.Props.C08
open PV.B64filter PV.Base64 PV.Spec.Records

/-- cut a list into consecutive segments of the given lengths. -/
def segments {α : Type} : List Nat → List α → List (List α)
  | [], _ => []
  | n :: ns, xs => xs.take n :: segments ns (xs.drop n)

/-- the record count sent to the reader is never 0, the end-of-input marker. -/
theorem line_cnt_pos (doc : List UInt8) : (describe doc).lines ≠ [] := by
  exact PV.Lemmas.B64filter.describe_lines_ne doc

/-- what the feeder sends for a document and what the reader rebuilds from the same lines is
    the document itself: empty documents, documents of newlines only, with or without a final
    newline, NUL bytes, CRs (uses `Gen.b64filterCollectStripCr = false`). -/
theorem describe_reassemble (doc : List UInt8) :
    reassemble ((describe doc).lines.map stripCr) (describe doc).trailing = doc := by
  exact PV.Lemmas.B64filter.describe_reassemble' doc

/-- With an identity child every document is reproduced exactly: the output line for each
    input line is the canonical base64 of the same bytes (input may be padded or unpadded). -/
theorem identity_child_exact (input docs : List (List UInt8)) (h : decodeAllDocs input = some docs) :
    run id input = some (docs.map encode) := by
  unfold run
  rw [h]
  exact PV.Lemmas.B64filter.collect_exact docs

/-- in particular canonical input is reproduced byte for byte. -/
theorem identity_child_canonical (docs : List (List UInt8)) :
    run id (docs.map encode) = some (docs.map encode) := by
  unfold run
  rw [PV.Lemmas.B64filter.decodeAllDocs_encoded]
  exact PV.Lemmas.B64filter.collect_exact docs

/-- exactly one output line per input document, whatever the child. -/
theorem one_line_per_doc (child : List (List UInt8) → List (List UInt8)) (input out : List (List UInt8))
    (h : run child input = some out) : out.length = input.length := by
  unfold run at h
  split at h
  · cases h
  · rename_i docs hd
    rw [PV.Lemmas.B64filter.collect_length _ _ _ h, List.length_map,
      PV.Lemmas.B64filter.decodeAllDocs_length _ _ hd]

/-- No shift: for every line-preserving child, document i's output is built from exactly the
    child's answers to document i's lines — the answer stream is cut at the documents' own
    line counts, so lines of different documents are never merged, split or moved. -/
theorem no_shift (child : List (List UInt8) → List (List UInt8))
    (hlen : ∀ ls, (child ls).length = ls.length)
    (input docs : List (List UInt8)) (h : decodeAllDocs input = some docs) :
    run child input = some
      (((docs.map describe).zip
          (segments ((docs.map describe).map (·.lines.length)) (child ((docs.map describe).flatMap (·.lines))))).map
        (fun (d, seg) => encode (reassemble (seg.map stripCr) d.trailing))) := by
  have hseg : ∀ (ns : List Nat) (xs : List (List UInt8)),
      segments ns xs = PV.Lemmas.B64filter.segs ns xs := by
    intro ns
    induction ns with
    | nil => intro xs; rfl
    | cons n ns ih => intro xs; simp only [segments, PV.Lemmas.B64filter.segs, ih]
  unfold run
  rw [h, hseg]
  exact PV.Lemmas.B64filter.collect_segs _ _ (by rw [hlen, List.length_flatMap])

-- non-vacuity
example : describe [] = ⟨[[]], false⟩ := by decide
example : describe [10, 10] = ⟨[[], []], true⟩ := by decide
example : describe [97, 13, 10, 98] = ⟨[[97, 13], [98]], false⟩ := by decide
example : run id [[]] = some [[]] := by decide            -- the empty document

end PV.Props.C08
