import PV.Model.QueuesLate
import PV.Model.Queues
import PV.Model.RingReserve
import PV.Lemmas.Queues.Ring2
import PV.Lemmas.Queues
/-
C16 — thread hand-off queues deliver every item once, in order, without deadlock.
All statements are over `Reachable`, i.e. every interleaving of the LTS steps, for every
capacity, every number of producers/consumers, every item count and every write-size sequence.
-/
namespace PV.Props.C16
open PV.Queues

/-! ### PCQueue -/
section PCQ
open PCQ

/-- a slot is never written while it still holds an unconsumed value or is being read, and never
    read while empty or being written. -/
theorem pcq_slot_safety (p : Params) (hc : 1 ≤ p.cap) (s : State) (hr : Reachable p s) : s.bad = false := by
  exact (PV.Lemmas.Queues.PCQ.inv_of_reachable hc hr).nb

/-- items come out in the order they went in (global FIFO of the ring). -/
theorem pcq_fifo (p : Params) (hc : 1 ≤ p.cap) (s : State) (hr : Reachable p s) : s.reads <+: s.writes := by
  exact (PV.Lemmas.Queues.PCQ.inv_of_reachable hc hr).fifo

/-- each producer's items are written in that producer's order, and what a consumer received is a
    subsequence of the read order (so: in production order per producer). -/
theorem pcq_per_producer_order (p : Params) (hc : 1 ≤ p.cap)
    (hid : ∀ (i : Nat) (its : List Item), p.items[i]? = some its → ∀ it ∈ its, it.1 = i)
    (s : State) (hr : Reachable p s) :
    (∀ i, (s.writes.filter (fun it => it.1 == i)) <+: p.items.getD i []) ∧
    (∀ (j : Nat) (c : Cons), s.cons[j]? = some c → c.got.Sublist s.reads) := by
  have h3 := PV.Lemmas.Queues.PCQ.inv3_of_reachable hc hid hr
  exact ⟨fun i => by rw [h3.ord i]; exact List.take_prefix _ _, h3.sub⟩

/-- exactly once: when everybody is done, the consumers together hold exactly the produced items. -/
theorem pcq_exactly_once (p : Params) (hc : 1 ≤ p.cap) (hq : totalItems p = totalQuota p)
    (s : State) (hr : Reachable p s) (hf : Final p s) :
    s.reads = s.writes ∧ s.writes.Perm p.items.flatten ∧ (s.cons.map (·.got)).flatten.Perm p.items.flatten := by
  exact PV.Lemmas.Queues.PCQ.exactly_once hq (PV.Lemmas.Queues.PCQ.inv_of_reachable hc hr)
    (PV.Lemmas.Queues.PCQ.inv2_of_reachable hc hr) hf

/-- no thread is left blocked forever while matching producers / consumers exist. -/
theorem pcq_no_deadlock (p : Params) (hc : 1 ≤ p.cap) (hq : totalItems p = totalQuota p)
    (s : State) (hr : Reachable p s) : Final p s ∨ ∃ l s', step p s l = some s' := by
  exact PV.Lemmas.Queues.PCQ.no_deadlock hc hq (PV.Lemmas.Queues.PCQ.inv_of_reachable hc hr)
end PCQ

/-! ### UnboundedSingleQueue -/
section USQ
open USQ

/-- the consumer never follows an unlinked `next`, never reads an unwritten entry, and the producer
    never touches a page the consumer has freed. -/
theorem usq_safe (p : Params) (hp : 1 ≤ p.pageSize) (s : State) (hr : Reachable p s) : s.bad = false := by
  exact (PV.Lemmas.Queues.USQ.inv_of_reachable hp hr).bad

theorem usq_fifo (p : Params) (hp : 1 ≤ p.pageSize) (s : State) (hr : Reachable p s) :
    s.got = List.range s.got.length ∧ s.got.length ≤ s.written.length := by
  exact PV.Lemmas.Queues.USQ.fifo_of_inv (PV.Lemmas.Queues.USQ.inv_of_reachable hp hr)

theorem usq_no_deadlock (p : Params) (hp : 1 ≤ p.pageSize) (s : State) (hr : Reachable p s) :
    Final p s ∨ ∃ l s', step p s l = some s' := by
  exact PV.Lemmas.Queues.USQ.progress (PV.Lemmas.Queues.USQ.inv_of_reachable hp hr)
end USQ

/-! ### BlockQueue / ThreadedBufferedStream -/
section Ring
open Ring

/-- the caller and the writer thread never hold the same block. -/
theorem ring_exclusive (p : Params) (hn : 2 ≤ p.nBlocks) (hb : 1 ≤ p.blockSize) (s : State) (hr : Reachable p s) :
    s.bad = false := by
  obtain ⟨A, D, Qd, h⟩ := PV.Lemmas.Queues.Ring.reach_inv (by omega) hb hr
  exact h.bad

/-- the bytes given to the Writer are always a prefix of the concatenation of all write() calls, -/
theorem ring_bytes_prefix (p : Params) (hn : 2 ≤ p.nBlocks) (hb : 1 ≤ p.blockSize) (s : State) (hr : Reachable p s) :
    s.file <+: p.calls.flatten := by
  obtain ⟨A, D, Qd, h⟩ := PV.Lemmas.Queues.Ring.reach_inv (by omega) hb hr
  exact PV.Lemmas.Queues.Ring.inv_prefix h

/-- and once the destructor has returned the file is exactly that concatenation. -/
theorem ring_bytes (p : Params) (hn : 2 ≤ p.nBlocks) (hb : 1 ≤ p.blockSize) (s : State) (hr : Reachable p s)
    (hf : Final s) : s.file = p.calls.flatten := by
  obtain ⟨A, D, Qd, h⟩ := PV.Lemmas.Queues.Ring.reach_inv (by omega) hb hr
  exact PV.Lemmas.Queues.Ring.inv_final h hf

/-- destroying the stream always flushes the remainder and joins: no reachable state is stuck before
    the destructor has returned. -/
theorem ring_no_deadlock (p : Params) (hn : 2 ≤ p.nBlocks) (hb : 1 ≤ p.blockSize) (s : State) (hr : Reachable p s) :
    Final s ∨ ∃ l s', step p s l = some s' := by
  obtain ⟨A, D, Qd, h⟩ := PV.Lemmas.Queues.Ring.reach_inv (by omega) hb hr
  exact PV.Lemmas.Queues.Ring.inv_no_deadlock hn h

/-- every execution is finite. -/
theorem ring_terminates (p : Params) (hn : 2 ≤ p.nBlocks) (hb : 1 ≤ p.blockSize) :
    ∃ μ : State → Nat, ∀ s l s', Reachable p s → step p s l = some s' → μ s' < μ s := by
  have _ := hn
  exact ⟨PV.Lemmas.Queues.Ring.mu, fun _ _ _ _ hs => PV.Lemmas.Queues.Ring.mu_decreases hb hs⟩

/-- the ring in the source has enough blocks for these theorems (regenerated constant). -/
theorem kBlocks_ok : 2 ≤ PV.Gen.kBlocks ∧ 1 ≤ PV.Gen.kBlockSize := by
  decide

/-- with a single block the stream would deadlock (why `2 ≤ nBlocks` is needed). -/
theorem ring_deadlocks_with_one_block :
    ∃ (p : Params) (s : State), p.nBlocks = 1 ∧ 1 ≤ p.blockSize ∧ Reachable p s ∧ ¬ Final s ∧ ∀ l, step p s l = none := by
  -- witness: `⟨1, 1, []⟩` after `[pAcquire, pSpill, cAcquire, cWrite]` (the caller waits for a block, the writer has exited)
  exact ⟨PV.Lemmas.Queues.Ring.p1, PV.Lemmas.Queues.Ring.s1, rfl, Nat.le_refl 1, PV.Lemmas.Queues.Ring.s1_reachable,
    PV.Lemmas.Queues.Ring.s1_not_final, PV.Lemmas.Queues.Ring.s1_stuck⟩
end Ring

/-! ### the ring with write() and the in-place operator<< path (short blocks); the trace acceptor uses this model -/
section Ring2
open Ring2

/-- the caller and the writer thread never hold the same block. -/
theorem ring2_exclusive (p : Params) (hn : 2 ≤ p.nBlocks) (hb : 1 ≤ p.blockSize) (hw : p.WF) (s : State) (hr : Reachable p s) :
    s.bad = false := by
  obtain ⟨A, D, Qd, h⟩ := PV.Lemmas.Queues.Ring2.reach_inv (by omega) hb hw hr
  exact h.bad

/-- the bytes given to the Writer are always a prefix of the concatenation of all operations' bytes, -/
theorem ring2_bytes_prefix (p : Params) (hn : 2 ≤ p.nBlocks) (hb : 1 ≤ p.blockSize) (hw : p.WF) (s : State) (hr : Reachable p s) :
    s.file <+: allBytes p := by
  obtain ⟨A, D, Qd, h⟩ := PV.Lemmas.Queues.Ring2.reach_inv (by omega) hb hw hr
  exact PV.Lemmas.Queues.Ring2.inv_prefix h

/-- and once the destructor has returned the file is exactly that concatenation (also when short blocks were handed
    over in between). -/
theorem ring2_bytes (p : Params) (hn : 2 ≤ p.nBlocks) (hb : 1 ≤ p.blockSize) (hw : p.WF) (s : State) (hr : Reachable p s)
    (hf : Final s) : s.file = allBytes p := by
  obtain ⟨A, D, Qd, h⟩ := PV.Lemmas.Queues.Ring2.reach_inv (by omega) hb hw hr
  exact PV.Lemmas.Queues.Ring2.inv_final h hf

/-- no reachable state is stuck before the destructor has returned. -/
theorem ring2_no_deadlock (p : Params) (hn : 2 ≤ p.nBlocks) (hb : 1 ≤ p.blockSize) (hw : p.WF) (s : State) (hr : Reachable p s) :
    Final s ∨ ∃ l s', step p s l = some s' := by
  obtain ⟨A, D, Qd, h⟩ := PV.Lemmas.Queues.Ring2.reach_inv (by omega) hb hw hr
  exact PV.Lemmas.Queues.Ring2.inv_no_deadlock hn h

/-- every execution is finite. -/
theorem ring2_terminates (p : Params) (hn : 2 ≤ p.nBlocks) (hb : 1 ≤ p.blockSize) (hw : p.WF) :
    ∃ μ : State → Nat, ∀ s l s', Reachable p s → step p s l = some s' → μ s' < μ s := by
  have _ := hn
  have _ := hw
  exact ⟨PV.Lemmas.Queues.Ring2.mu, fun _ _ _ _ hs => PV.Lemmas.Queues.Ring2.mu_decreases hb hs⟩

/-- the Ensure amounts of the real stream satisfy `WF`: a block holds the longest in-place text. -/
theorem kBlockSize_holds_any_number : PV.Gen.kToStringMaxBytes ≤ PV.Gen.kBlockSize := by
  decide

-- non-vacuity: blockSize 4, "abc" written, then a 2-byte number with Ensure(3): the block holding "abc" is handed over short
example : ((Ring2.runTrace ⟨3, 4, [⟨0, [97, 98, 99]⟩, ⟨3, [49, 50]⟩]⟩ (Ring2.init ⟨3, 4, [⟨0, [97, 98, 99]⟩, ⟨3, [49, 50]⟩]⟩)
    [.pAcquire, .pCall, .pCopy, .pCall, .pSpill, .pAcquire, .pCopy, .pSpill, .cAcquire, .cWrite, .cRelease, .cAcquire, .cWrite, .cRelease,
     .pAcquire, .pSpill, .cAcquire, .cWrite, .pAcquire, .pJoin]).map (·.file)) = some [97, 98, 99, 49, 50] := by
  decide

end Ring2

-- non-vacuity: a complete PCQueue run with capacity 1
example : ((PCQ.runTrace ⟨1, [[(0, 0), (0, 1)]], [2]⟩ (PCQ.init ⟨1, [[(0, 0), (0, 1)]], [2]⟩)
    [.pWait 0, .pEnter 0, .pLeave 0, .pPost 0, .cWait 0, .cEnter 0, .cLeave 0, .cPost 0,
     .pWait 0, .pEnter 0, .pLeave 0, .pPost 0, .cWait 0, .cEnter 0, .cLeave 0, .cPost 0]).map (·.reads)) = some [(0, 0), (0, 1)] := by
  decide

/-! Why `Consume` copies the value INSIDE the locked block.  `PV.Queues.PCQLate` is the same system with the copy moved after the
    unlock ("the slot is not recycled until empty_ is posted").  That sentence is true for one consumer only: -/
section LateCopy
open PV.Queues PV.Queues.PCQ

def lateParams : Params := { cap := 2, items := [[(0, 1), (0, 2), (0, 3)]], quotas := [2, 1] }

/-- the producer fills both slots; consumer 0 claims slot 0 but has not copied yet; consumer 1 claims slot 1, copies, posts;
    the producer, woken by that post, writes slot 0; consumer 0 copies -/
def lateTrace : List PCQLate.Label :=
  [.prod (.pWait 0), .prod (.pEnter 0), .prod (.pLeave 0), .prod (.pPost 0),
   .prod (.pWait 0), .prod (.pEnter 0), .prod (.pLeave 0), .prod (.pPost 0),
   .cWait 0, .cClaim 0, .cWait 1, .cClaim 1, .cCopy 1, .cPost 1,
   .prod (.pWait 0), .prod (.pEnter 0), .prod (.pLeave 0), .prod (.pPost 0), .cCopy 0]

/-- with the copy outside the lock, capacity 2, one producer and two consumers there is a schedule on which a claimed slot is
    overwritten before it was copied: items 1, 2, 3 are written, items 2 and 3 are read, item 1 is lost (contrast `pcq_slot_safety`
    and `pcq_fifo`, which hold for every schedule of the real system). -/
theorem late_copy_unsafe_with_two_consumers :
    ∃ tr, (PCQLate.runTrace lateParams (PCQLate.init lateParams) tr).map (fun s => (s.base.bad, s.base.reads, s.base.writes))
      = some (true, [(0, 2), (0, 3)], [(0, 1), (0, 2), (0, 3)]) :=
  ⟨lateTrace, by decide +kernel⟩

end LateCopy

/-! The same for the unbounded queue: `PV.Queues.USQLate` links a new page after the post for its first entry. -/
section LateLink
open PV.Queues PV.Queues.USQ

/-- page size 1, two items: the second item opens page 1; the consumer, woken by its post, steps off page 0 before the link exists -/
def lateLinkTrace : List USQLate.Label :=
  [.pPage, .pWrite, .pPost, .pPage, .pWrite, .pPost, .cWait, .cPage, .cRead, .cWait, .cPage]

/-- linking a new page after the semaphore post is unsafe: there is a schedule on which the consumer follows a null `next`
    (contrast `usq_safe`, which holds for every schedule of the real order: allocate, link, write, post). -/
theorem late_link_unsafe :
    ∃ tr, (USQLate.runTrace ⟨1, 2⟩ USQLate.init tr).map (fun s => s.base.bad) = some true :=
  ⟨lateLinkTrace, by decide +kernel⟩

end LateLink

end PV.Props.C16
