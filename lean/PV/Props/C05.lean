import PV.Model.Wrapper
import PV.Model.WrapperTrace
import PV.Lemmas.Wrapper
/-
C05 — child-process wrappers never deadlock and always complete in order.
The LTS (PV.Model.Wrapper) quantifies over all interleavings of feeder, collector, child and
the two bounded pipes, all pipe/buffer capacities ≥ 1, all record sizes (also larger than the
pipes), every release policy of a one-answer-per-chunk child and every read-ahead bound.
-/
namespace PV.Props.C05
open PV.Wrapper

/-- the chunks of all records in order. -/
def allChunks (p : Params) : List Chunk :=
  (List.range (nrec p)).flatMap (fun i => (List.range (sizeOf p i)).map (fun k => (i, k)))

/-- the configuration the three tools have after the cache fix: the entry is produced before the
    record's chunks are written; foldfilter peeks and produces the end marker before closing. -/
def Good (p : Params) : Prop := p.Ok ∧ p.enqueueFirst = true ∧ (p.peek = true → p.poisonFirst = true)

/-- No deadlock: every reachable state is final or has an enabled step. -/
theorem no_deadlock (p : Params) (hp : Good p) (s : State) (hr : Reachable p s) :
    Final p s ∨ ∃ l s', step p s l = some s' := by
  sorry

/-- The collector's error branches (surplus output / child ended early) are unreachable. -/
theorem never_fails (p : Params) (hp : Good p) (s : State) (hr : Reachable p s) : s.coll ≠ .failed := by
  sorry

/-- Every execution is finite: a natural-number measure strictly decreases with every step. -/
theorem terminates (p : Params) (hp : Good p) :
    ∃ μ : State → Nat, ∀ s l s', Reachable p s → step p s l = some s' → μ s' < μ s := by
  sorry

/-- No shift: the answers the collector consumes are, at every moment, a prefix of all chunks in
    order — in particular the k-th answer read for an entry is the child's answer to that record's
    k-th chunk — and the records are emitted in input order. -/
theorem collector_in_order (p : Params) (hp : Good p) (s : State) (hr : Reachable p s) :
    s.got <+: allChunks p ∧ s.out <+: List.range (nrec p) ∧ s.cRead <+: allChunks p := by
  sorry

/-- In a final state everything was fed to the child and every record was emitted, in order. -/
theorem final_output_complete (p : Params) (hp : Good p) (s : State) (hr : Reachable p s) (hf : Final p s) :
    s.out = List.range (nrec p) ∧ s.got = allChunks p ∧ s.cRead = allChunks p := by
  sorry

/-- Visible-event refinement: every concrete step projects to an accepted event of the abstract
    trace automaton (or is invisible), so PV_TRACE logs of real runs must be accepted by `arun`. -/
theorem refines (p : Params) (hp : p.Ok) :
    ∃ R : State → AState → Prop, R init ainit ∧
      ∀ s a l s', Reachable p s → R s a → step p s l = some s' →
        (match project p s l with
         | some e => ∃ a', astep p.enqueueFirst p.poisonFirst a e = some a' ∧ R s' a'
         | none => R s' a) := by
  sorry

/-- The defect that was repaired in cache (entry produced only after the record has been written):
    with a record larger than buffer + pipes the system deadlocks. -/
theorem deadlock_when_enqueue_after_write :
    ∃ (p : Params) (s : State), p.Ok ∧ p.enqueueFirst = false ∧ Reachable p s ∧ ¬ Final p s ∧ Stuck p s := by
  sorry

-- non-vacuity: a complete run of a 2-record system
example : (runTrace ⟨[1, 1], 1, 1, 1, true, true, true, fun r _ => r, 0⟩ init
    [.fEnqueue, .fAppend, .fNext, .fEnqueue, .fSpillStart, .fSpill, .fSpillEnd, .fAppend, .fNext, .fPoison,
     .cRead, .cWrite, .kConsume, .kRead, .kOut, .fSpillStart, .fSpill, .fSpillEnd, .fClose, .cRead, .cWrite, .cEof,
     .kConsume, .kRead, .kOut, .kConsume]).map (·.out) = some [0, 1] := by decide

end PV.Props.C05
