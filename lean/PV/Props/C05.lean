import PV.Model.Wrapper
import PV.Model.WrapperTrace
import PV.Lemmas.Wrapper
/-
C05 — child-process wrappers never deadlock and always complete in order.
The LTS (PV.Model.Wrapper) quantifies over all interleavings of feeder, collector, child and
the two bounded pipes, all pipe/buffer capacities ≥ 1, all record sizes (also larger than the
pipes), every release policy of a one-answer-per-chunk child and every read-ahead bound.
-/
namespace PV.Props.C05
open PV.Wrapper

/-- the chunks of all records in order. -/
def allChunks (p : Params) : List Chunk :=
  (List.range (nrec p)).flatMap (fun i => (List.range (sizeOf p i)).map (fun k => (i, k)))

/-- the configuration the three tools have after the cache fix: the entry is produced before the
    record's chunks are written; foldfilter peeks and produces the end marker before closing. -/
def Good (p : Params) : Prop := p.Ok ∧ p.enqueueFirst = true ∧ (p.peek = true → p.poisonFirst = true)

/-! ### Bridges to `PV.Lemmas.Wrapper` -/

theorem allChunks_eq (p : Params) : allChunks p = PV.Lemmas.Wrapper.allChunks p := rfl

theorem allChunks_length (p : Params) : (allChunks p).length = PV.Lemmas.Wrapper.S p (nrec p) := by
  rw [allChunks_eq]; exact PV.Lemmas.Wrapper.chunksUpTo_length p (nrec p)

/-- FINDING: `no_deadlock` and `never_fails` are FALSE as stated.  With `peek = true` and no chunk at
    all (e.g. a single record of size 0) the collector emits the record while the queue is still empty,
    enters `peeking`, the feeder then produces the end marker and closes, the child reaches EOF and
    `kPeekEof` fires: the collector fails ("child ended early"), and that state is stuck and not final.
    Counterexample: sizes `[0]`, all capacities 1, enqueueFirst, poisonFirst, peek, eager release. -/
def cexParams : Params := ⟨[0], 1, 1, 1, true, true, true, fun r _ => r, 0⟩

def cexTrace : List Label := [.fEnqueue, .kConsume, .kOut, .fNext, .fPoison, .fClose, .cEof, .kPeekEof]

def cexState : State :=
  { fRec := 1, fEnq := false, fSent := 0, fSpilling := false, fPoison := true, fClosed := true, buf := [],
    pipe1 := [], cRead := [], cEmitted := 0, cEof := true, pipe2 := [], queue := [none], coll := .failed,
    got := [], out := [0] }

theorem eager_policyOk (p : Params) (h : p.release = fun r _ => r) : p.PolicyOk := by
  constructor
  · intro r e; rw [h]; exact Nat.le_refl _
  · intro r r' e e' hr _; rw [h]; exact hr
  · intro r; rw [h]

theorem cex_good : Good cexParams :=
  ⟨⟨by decide, by decide, by decide, eager_policyOk _ rfl⟩, rfl, fun _ => rfl⟩

theorem cex_reachable : Reachable cexParams cexState :=
  PV.Lemmas.Wrapper.reachable_of_runTrace Reachable.init cexTrace (by decide)

/-- the statement of `never_fails` is refuted. -/
theorem never_fails_is_false :
    ¬ (∀ (p : Params), Good p → ∀ s : State, Reachable p s → s.coll ≠ .failed) :=
  fun h => h cexParams cex_good cexState cex_reachable rfl

/-- the statement of `no_deadlock` is refuted. -/
theorem no_deadlock_is_false :
    ¬ (∀ (p : Params), Good p → ∀ s : State, Reachable p s → Final p s ∨ ∃ l s', step p s l = some s') := by
  intro h
  rcases h cexParams cex_good cexState cex_reachable with hf | ⟨l, s', hs⟩
  · exact absurd hf.1 (by decide)
  · revert s' hs; cases l <;> decide

/-- The extra hypothesis that makes both statements true: a peeking wrapper (foldfilter) sends at least
    one chunk whenever there is a record (every line has ≥ 1 piece). -/
def PeekNonEmpty (p : Params) : Prop := p.peek = true → nrec p ≠ 0 → allChunks p ≠ []

theorem peekNonEmpty_of_pos (p : Params) (h : p.peek = true → ∀ size ∈ p.sizes, 1 ≤ size) : PeekNonEmpty p := by
  intro hpk hn hnil
  have hlen : 0 < nrec p := Nat.pos_of_ne_zero hn
  have h1 := PV.Lemmas.Wrapper.S_lt p hlen
  have h2 := allChunks_length p
  rw [hnil] at h2
  have h3 : 1 ≤ PV.Wrapper.sizeOf p 0 := by
    unfold PV.Wrapper.sizeOf nrec at *
    cases hs : p.sizes with
    | nil => rw [hs] at hlen; simp at hlen
    | cons a t => have := h hpk a (by rw [hs]; simp); simpa using this
  simp at h2 h1; omega

theorem hyp_of_good (p : Params) (hp : Good p) (hz : PeekNonEmpty p) : PV.Lemmas.Wrapper.Hyp p := by
  refine ⟨hp.1, hp.2.1, hp.2.2, ?_⟩
  intro hpk
  by_cases hn : nrec p = 0
  · exact Or.inl hn
  · right
    have := hz hpk hn
    rw [← allChunks_length]
    exact List.length_pos_iff.2 this


/-- No deadlock: every reachable state is final or has an enabled step (for peeking wrappers under the
    hypothesis that a non-empty input sends at least one chunk — see `no_deadlock_is_false`). -/
theorem no_deadlock (p : Params) (hp : Good p) (hz : PeekNonEmpty p) (s : State) (hr : Reachable p s) :
    Final p s ∨ ∃ l s', step p s l = some s' :=
  have hh := hyp_of_good p hp hz
  PV.Lemmas.Wrapper.progress hh (PV.Lemmas.Wrapper.inv_reachable hr) (PV.Lemmas.Wrapper.nf_reachable hh hr)


/-- The collector's error branches (surplus output / child ended early) are unreachable. -/
theorem never_fails (p : Params) (hp : Good p) (hz : PeekNonEmpty p) (s : State) (hr : Reachable p s) :
    s.coll ≠ .failed :=
  (PV.Lemmas.Wrapper.nf_reachable (hyp_of_good p hp hz) hr).1

/-- the form suggested for foldfilter: every record of a peeking wrapper has at least one chunk. -/
theorem never_fails_of_pos (p : Params) (hp : Good p) (hz : p.peek = true → ∀ size ∈ p.sizes, 1 ≤ size)
    (s : State) (hr : Reachable p s) : s.coll ≠ .failed :=
  never_fails p hp (peekNonEmpty_of_pos p hz) s hr

theorem no_deadlock_of_pos (p : Params) (hp : Good p) (hz : p.peek = true → ∀ size ∈ p.sizes, 1 ≤ size)
    (s : State) (hr : Reachable p s) : Final p s ∨ ∃ l s', step p s l = some s' :=
  no_deadlock p hp (peekNonEmpty_of_pos p hz) s hr

/-- Every execution is finite: a natural-number measure strictly decreases with every step. -/
theorem terminates (p : Params) (hp : Good p) :
    ∃ μ : State → Nat, ∀ s l s', Reachable p s → step p s l = some s' → μ s' < μ s :=
  have _ := hp  -- not needed: the measure decreases on every step of every parameter set
  ⟨PV.Lemmas.Wrapper.mu p, fun _ _ _ _ hs => PV.Lemmas.Wrapper.mu_decreases hs⟩

/-- No shift: the answers the collector consumes are, at every moment, a prefix of all chunks in
    order — in particular the k-th answer read for an entry is the child's answer to that record's
    k-th chunk — and the records are emitted in input order. -/
theorem collector_in_order (p : Params) (hp : Good p) (s : State) (hr : Reachable p s) :
    s.got <+: allChunks p ∧ s.out <+: List.range (nrec p) ∧ s.cRead <+: allChunks p := by
  have _ := hp  -- not needed: holds for every parameter set
  have h := PV.Lemmas.Wrapper.inv_reachable hr
  exact ⟨h.got_prefix, h.out_prefix, h.cRead_prefix⟩

/-- In a final state everything was fed to the child and every record was emitted, in order. -/
theorem final_output_complete (p : Params) (hp : Good p) (s : State) (hr : Reachable p s) (hf : Final p s) :
    s.out = List.range (nrec p) ∧ s.got = allChunks p ∧ s.cRead = allChunks p :=
  have _ := hp  -- not needed: holds for every parameter set
  (PV.Lemmas.Wrapper.inv_reachable hr).final hf

/-- Visible-event refinement: every concrete step projects to an accepted event of the abstract
    trace automaton (or is invisible), so PV_TRACE logs of real runs must be accepted by `arun`. -/
theorem refines (p : Params) (hp : p.Ok) :
    ∃ R : State → AState → Prop, R init ainit ∧
      ∀ s a l s', Reachable p s → R s a → step p s l = some s' →
        (match project p s l with
         | some e => ∃ a', astep p.enqueueFirst p.poisonFirst a e = some a' ∧ R s' a'
         | none => R s' a) := by
  have _ := hp  -- not needed: holds for every parameter set
  refine ⟨fun s a => a = PV.Lemmas.Wrapper.absOf p s, (PV.Lemmas.Wrapper.absOf_init p).symm, ?_⟩
  intro s a l s' hr hR hs
  subst hR
  have h := PV.Lemmas.Wrapper.ref_step (PV.Lemmas.Wrapper.inv_reachable hr) hs
  unfold PV.Lemmas.Wrapper.RefStep at h
  split
  · rename_i e he
    rw [he] at h
    exact ⟨_, h, rfl⟩
  · rename_i he
    rw [he] at h
    exact (show _ = _ from h).symm

/-- parameters / trace / state witnessing the cache defect. -/
def dlParams : Params := ⟨[6], 1, 1, 1, false, false, false, fun r _ => r, 0⟩

def dlTrace : List Label :=
  [.fAppend, .fSpillStart, .fSpill, .fSpillEnd, .fAppend, .fSpillStart, .cRead, .fSpill, .fSpillEnd, .fAppend,
   .fSpillStart, .cWrite, .cRead, .fSpill, .fSpillEnd, .fAppend, .fSpillStart]

def dlState : State :=
  { fRec := 0, fEnq := false, fSent := 4, fSpilling := true, fPoison := false, fClosed := false, buf := [(0, 3)],
    pipe1 := [(0, 2)], cRead := [(0, 0), (0, 1)], cEmitted := 1, cEof := false, pipe2 := [(0, 0)], queue := [],
    coll := .idle, got := [], out := [] }

/-- The defect that was repaired in cache (entry produced only after the record has been written):
    with a record larger than buffer + pipes the system deadlocks. -/
theorem deadlock_when_enqueue_after_write :
    ∃ (p : Params) (s : State), p.Ok ∧ p.enqueueFirst = false ∧ Reachable p s ∧ ¬ Final p s ∧ Stuck p s := by
  refine ⟨dlParams, dlState, ⟨by decide, by decide, by decide, eager_policyOk _ rfl⟩, rfl, ?_, ?_, ?_⟩
  · exact PV.Lemmas.Wrapper.reachable_of_runTrace Reachable.init dlTrace (by decide)
  · intro hf; exact absurd hf.1 (by decide)
  · intro l; cases l <;> decide

-- non-vacuity: a complete run of a 2-record system
example : (runTrace ⟨[1, 1], 1, 1, 1, true, true, true, fun r _ => r, 0⟩ init
    [.fEnqueue, .fAppend, .fNext, .fEnqueue, .fSpillStart, .fSpill, .fSpillEnd, .fAppend, .fNext, .fPoison,
     .cRead, .cWrite, .kConsume, .kRead, .kOut, .fSpillStart, .fSpill, .fSpillEnd, .fClose, .cRead, .cWrite, .cEof,
     .kConsume, .kRead, .kOut, .kConsume]).map (·.out) = some [0, 1] := by decide

end PV.Props.C05
