import PV.Model.Io
import PV.Model.Reader
import PV.Spec.Records
import PV.Lemmas.Io
import PV.Props.C02
/-
C03 — partial reads/writes and EINTR never change a tool's output.
The input side is C02's `read_mode_records` (∀ schedule of read() return sizes the records are
the same); here are the loops in util/file.cc.  The tool-level statement is decided by fault
enumeration on the real binaries (see tools/props/c03.py).
-/
namespace PV.Props.C03
open PV.Io

/-- a script with no hard error: only short counts and EINTR. -/
def Benign (sched : List Int) : Prop := ∀ o ∈ sched, 0 ≤ o

/-- WriteOrThrow hands exactly the data to the OS, in order, whatever pattern of short writes
    and EINTR occurs, and terminates. -/
theorem writeAll_delivers (data : List UInt8) (sched : List Int) (h : Benign sched) :
    ∃ log, writeOrThrow data sched = .ok data log := by
  obtain ⟨l, hl⟩ := PV.Lemmas.Io.writeAll_ok sched h (data.length + sched.length + 1) data [] []
    (Nat.le_refl _)
  exact ⟨l, by simpa [writeOrThrow] using hl⟩

/-- every request the loop issues is for the bytes not yet written (so nothing is sent twice). -/
theorem writeAll_never_overwrites (data : List UInt8) (sched : List Int) (done : List UInt8) (log : List Nat)
    (h : writeOrThrow data sched = .err done log) : done <+: data := by
  have := PV.Lemmas.Io.writeAll_err_prefix _ _ _ _ _ _ _ h
  simpa using this

/-- ReadOrEOF returns the first `amount` bytes of the source (or all of it if shorter),
    independent of the fragmentation. -/
theorem readOrEOF_total (amount : Nat) (src : List UInt8) (sched : List Int) (h : Benign sched) :
    ∃ log, readOrEOF amount src sched = .ok (src.take amount) log := by
  obtain ⟨l, hl⟩ := (PV.Lemmas.Io.readLoop_spec false (amount + 1) amount src sched [] [] h
    (Nat.le_refl _)).1 (Or.inl rfl)
  exact ⟨l, by simpa [readOrEOF] using hl⟩

/-- ReadOrThrow returns exactly `amount` bytes or reports end of file, never a short success. -/
theorem readOrThrow_exact (amount : Nat) (src : List UInt8) (sched : List Int) (h : Benign sched) :
    (amount ≤ src.length → ∃ log, readOrThrow amount src sched = .ok (src.take amount) log) ∧
    (src.length < amount → ∃ log, readOrThrow amount src sched = .eof log) := by
  have hs := PV.Lemmas.Io.readLoop_spec true (amount + 1) amount src sched [] [] h (Nat.le_refl _)
  constructor
  · intro hle
    obtain ⟨l, hl⟩ := hs.1 (Or.inr hle)
    exact ⟨l, by simpa [readOrThrow] using hl⟩
  · intro hlt
    exact hs.2 rfl hlt

/-- the records a tool processes do not depend on how read() fragments the input
    (restatement of C02 for two arbitrary schedules). -/
theorem records_schedule_independent (delim : UInt8) (stripCr : Bool) (cap0 : Nat) (hcap : 0 < cap0)
    (src : List UInt8) (s1 s2 : List Nat) :
    PV.Reader.recordsRead delim stripCr cap0 src s1 = PV.Reader.recordsRead delim stripCr cap0 src s2 := by
  rw [PV.Props.C02.read_mode_records delim stripCr cap0 hcap src s1,
      PV.Props.C02.read_mode_records delim stripCr cap0 hcap src s2]

-- non-vacuity
example : writeOrThrow [1, 2, 3, 4, 5] [1, 0, 2] = .ok [1, 2, 3, 4, 5] [5, 4, 4, 2] := by decide
example : readOrEOF 10 [1, 2, 3, 4, 5] [2, 0, 1] = .ok [1, 2, 3, 4, 5] [10, 8, 8, 7, 5] := by decide
example : Benign [1, 0, 2] := by unfold Benign; decide

end PV.Props.C03
