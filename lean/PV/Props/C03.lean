import PV.Model.BufStream
import PV.Lemmas.BufStream
import PV.Model.Io
import PV.Model.Reader
import PV.Spec.Records
import PV.Lemmas.Io
import PV.Props.C02
/-
C03 — partial reads/writes and EINTR never change a tool's output.
The input side is C02's `read_mode_records` (∀ schedule of read() return sizes the records are
the same); here are the loops in util/file.cc.  The tool-level statement is decided by fault
enumeration on the real binaries (see tools/props/c03.py).
-/
namespace PV.Props.C03
open PV.Io

/-- a script with no hard error: only short counts and EINTR. -/
def Benign (sched : List Int) : Prop := ∀ o ∈ sched, 0 ≤ o

/-- WriteOrThrow hands exactly the data to the OS, in order, whatever pattern of short writes
    and EINTR occurs, and terminates. -/
theorem writeAll_delivers (data : List UInt8) (sched : List Int) (h : Benign sched) :
    ∃ log, writeOrThrow data sched = .ok data log := by
  obtain ⟨l, hl⟩ := PV.Lemmas.Io.writeAll_ok sched h (data.length + sched.length + 1) data [] []
    (Nat.le_refl _)
  exact ⟨l, by simpa [writeOrThrow] using hl⟩

/-- every request the loop issues is for the bytes not yet written (so nothing is sent twice). -/
theorem writeAll_never_overwrites (data : List UInt8) (sched : List Int) (done : List UInt8) (log : List Nat)
    (h : writeOrThrow data sched = .err done log) : done <+: data := by
  have := PV.Lemmas.Io.writeAll_err_prefix _ _ _ _ _ _ _ h
  simpa using this

/-- ReadOrEOF returns the first `amount` bytes of the source (or all of it if shorter),
    independent of the fragmentation. -/
theorem readOrEOF_total (amount : Nat) (src : List UInt8) (sched : List Int) (h : Benign sched) :
    ∃ log, readOrEOF amount src sched = .ok (src.take amount) log := by
  obtain ⟨l, hl⟩ := (PV.Lemmas.Io.readLoop_spec false (amount + 1) amount src sched [] [] h
    (Nat.le_refl _)).1 (Or.inl rfl)
  exact ⟨l, by simpa [readOrEOF] using hl⟩

/-- ReadOrThrow returns exactly `amount` bytes or reports end of file, never a short success. -/
theorem readOrThrow_exact (amount : Nat) (src : List UInt8) (sched : List Int) (h : Benign sched) :
    (amount ≤ src.length → ∃ log, readOrThrow amount src sched = .ok (src.take amount) log) ∧
    (src.length < amount → ∃ log, readOrThrow amount src sched = .eof log) := by
  have hs := PV.Lemmas.Io.readLoop_spec true (amount + 1) amount src sched [] [] h (Nat.le_refl _)
  constructor
  · intro hle
    obtain ⟨l, hl⟩ := hs.1 (Or.inr hle)
    exact ⟨l, by simpa [readOrThrow] using hl⟩
  · intro hlt
    exact hs.2 rfl hlt

/-- the records a tool processes do not depend on how read() fragments the input
    (restatement of C02 for two arbitrary schedules). -/
theorem records_schedule_independent (delim : UInt8) (stripCr : Bool) (cap0 : Nat) (hcap : 0 < cap0)
    (src : List UInt8) (s1 s2 : List Nat) :
    PV.Reader.recordsRead delim stripCr cap0 src s1 = PV.Reader.recordsRead delim stripCr cap0 src s2 := by
  rw [PV.Props.C02.read_mode_records delim stripCr cap0 hcap src s1,
      PV.Props.C02.read_mode_records delim stripCr cap0 hcap src s2]

-- non-vacuity
example : writeOrThrow [1, 2, 3, 4, 5] [1, 0, 2] = .ok [1, 2, 3, 4, 5] [5, 4, 4, 2] := by decide
example : readOrEOF 10 [1, 2, 3, 4, 5] [2, 0, 1] = .ok [1, 2, 3, 4, 5] [10, 8, 8, 7, 5] := by decide
example : Benign [1, 0, 2] := by unfold Benign; decide

/-! #### BufferedStream (util/buffered_stream.hh), the layer above WriteOrThrow on every tool's output -/
section BufStream
open PV.BufStream

/-- at every moment: what the writer has received followed by what sits in the buffer is exactly the concatenation
    of the bytes of all operations so far, in order; and the buffer never exceeds its capacity. -/
theorem bufstream_invariant (cap : Nat) (ops : List Op) (hw : WF cap ops) :
    (run cap ops).chunks.flatten ++ (run cap ops).buf = (ops.map Op.bytes).flatten ∧ (run cap ops).buf.length ≤ cap := by
  have h := PV.Lemmas.BufStream.run_inv hw
  exact ⟨h.1, h.2.1⟩

/-- after the destructor the writer has received exactly the bytes of all operations, in order, whatever the sizes
    (smaller than, equal to, larger than the buffer) and wherever numbers were formatted in place. -/
theorem bufstream_delivers (cap : Nat) (ops : List Op) (hw : WF cap ops) :
    (finish cap ops).chunks.flatten = (ops.map Op.bytes).flatten ∧ (finish cap ops).buf = [] := by
  have h := PV.Lemmas.BufStream.run_inv hw
  refine ⟨?_, PV.Lemmas.BufStream.step_flush_buf cap _⟩
  unfold finish
  rw [PV.Lemmas.BufStream.step_flush_flat]
  exact h.1

/-- a flush leaves nothing behind, and the writer is never handed an empty chunk. -/
theorem bufstream_flush_and_chunks (cap : Nat) (ops : List Op) (hw : WF cap ops) :
    (step cap (run cap ops) .flush).buf = [] ∧ ∀ c ∈ (run cap ops).chunks, c ≠ [] := by
  have h := PV.Lemmas.BufStream.run_inv hw
  exact ⟨PV.Lemmas.BufStream.step_flush_buf cap _, h.2.2⟩

-- non-vacuity (cap 4): "abc", a 2-byte number with Ensure(3), then a 6-byte write that bypasses the buffer
example : (finish 4 [.write [97, 98, 99], .put 3 [49, 50], .write [1, 2, 3, 4, 5, 6]]).chunks = [[97, 98, 99], [49, 50], [1, 2, 3, 4, 5, 6]] := by decide
example : WF 4 [.write [97, 98, 99], .put 3 [49, 50], .write [1, 2, 3, 4, 5, 6]] := by
  intro o ho
  simp only [List.mem_cons, List.not_mem_nil, or_false] at ho
  rcases ho with rfl | rfl | rfl <;> simp

end BufStream

end PV.Props.C03
