import PV.Model.Format
import PV.Lemmas.Format
import PV.Model.Pool
import PV.Lemmas.Pool
/-
C20 — helper routines never write beyond the space they reserved (the number formatters used by
the output streams).  `PV.Gen.kBytes*` are ToStringBuf<T>::kBytes as the compiler sees them today.
The other C20 obligations proved elsewhere: probing never diverges / no table-full exception
(C13 history_refines), the reader and wrap_lines never diverge and index inside the buffer
(C02, C07 totality), Murmur reads in bounds (C14 reads_in_bounds), b64filter's record count is
never the end marker and back() is guarded (C08), shard count 0 is rejected (C06 check).
Second part: `util::Pool` (PV.Pool), the bump allocator that holds cache's answers and the strings of MutableVocab,
substitute and idf: for EVERY history of Allocate / Continue calls the allocations lie inside malloc'ed pages, never share a
byte, earlier ones never move, Continue's memcpy stays inside both pages and copies exactly the old bytes, and the shift that
sizes the next page cannot reach 64.  Tie: harness op pool.run (real Pool, pattern-filled allocations, ASan) vs pvdriver pool.run.
-/
namespace PV.Props.C20
open PV.Format

theorem u16_fits (v : Nat) (h : v < 2 ^ 16) : (u32 v).2 ≤ PV.Gen.kBytesU16 := by
  have h' : v < 100000 := by
    have : (2:Nat) ^ 16 = 65536 := by decide
    omega
  exact PV.Lemmas.Format.u32_touched_le5 v h'
theorem i16_fits (v : Int) (h : -(2 ^ 15) ≤ v ∧ v < 2 ^ 15) : (i32 v).2 ≤ PV.Gen.kBytesI16 := by
  have e15 : (2:Int) ^ 15 = 32768 := by decide
  rw [e15] at h
  rw [PV.Lemmas.Format.i32_snd]
  show _ ≤ 6
  split
  · have := PV.Lemmas.Format.u32_touched_le5 (-v).toNat (by omega)
    omega
  · have := PV.Lemmas.Format.u32_touched_le5 v.toNat (by omega)
    omega
theorem u32_fits (v : Nat) (h : v < 2 ^ 32) : (u32 v).2 ≤ PV.Gen.kBytesU32 := by
  have _ := h  -- the bound holds for every v
  exact PV.Lemmas.Format.u32_touched_le10 v
theorem i32_fits (v : Int) (h : -(2 ^ 31) ≤ v ∧ v < 2 ^ 31) : (i32 v).2 ≤ PV.Gen.kBytesI32 := by
  have _ := h
  rw [PV.Lemmas.Format.i32_snd]
  show _ ≤ 11
  split
  · have := PV.Lemmas.Format.u32_touched_le10 (-v).toNat
    omega
  · have := PV.Lemmas.Format.u32_touched_le10 v.toNat
    omega
theorem u64_fits (v : Nat) (h : v < 2 ^ 64) : (u64 v).2 ≤ PV.Gen.kBytesU64 := by
  have _ := h  -- the bound holds for every v
  exact PV.Lemmas.Format.u64_touched_le20 v
theorem i64_fits (v : Int) (h : -(2 ^ 63) ≤ v ∧ v < 2 ^ 63) : (i64 v).2 ≤ PV.Gen.kBytesI64 := by
  have e63 : (2:Int) ^ 63 = 9223372036854775808 := by decide
  rw [e63] at h
  rw [PV.Lemmas.Format.i64_snd]
  show _ ≤ 20
  split
  · have := PV.Lemmas.Format.u64_touched_le19 (-v).toNat (by omega)
    omega
  · have := PV.Lemmas.Format.u64_touched_le20 v.toNat
    omega

/-- every double: at most 17 significant digits, decimal point in [-323, 309]. -/
theorem double_fits (neg : Bool) (len : Nat) (dp : Int) (hl : 1 ≤ len ∧ len ≤ 17) (hd : -323 ≤ dp ∧ dp ≤ 309) :
    floatTouched neg len dp ≤ PV.Gen.kBytesDouble := by
  exact PV.Lemmas.Format.floatTouched_le neg len dp hl hd

/-- every float: at most 9 significant digits, decimal point in [-44, 39]. -/
theorem float_fits (neg : Bool) (len : Nat) (dp : Int) (hl : 1 ≤ len ∧ len ≤ 9) (hd : -44 ≤ dp ∧ dp ≤ 39) :
    floatTouched neg len dp ≤ PV.Gen.kBytesFloat := by
  exact PV.Lemmas.Format.floatTouched_le neg len dp ⟨hl.1, by omega⟩ ⟨by omega, by omega⟩

theorem specials_fit (kind : String) (neg : Bool) :
    specialLen kind neg + 1 ≤ PV.Gen.kBytesDouble ∧ specialLen kind neg + 1 ≤ PV.Gen.kBytesFloat := by
  have h : specialLen kind neg ≤ 4 := by
    unfold specialLen
    split
    · omega
    · split <;> omega
  show _ ≤ 26 ∧ _ ≤ 26
  omega

/-- the per-type reservations never exceed what `Ensure` may be asked for. -/
theorem kBytes_le_max :
    PV.Gen.kBytesDouble ≤ PV.Gen.kToStringMaxBytes ∧ PV.Gen.kBytesFloat ≤ PV.Gen.kToStringMaxBytes ∧
    PV.Gen.kBytesU64 ≤ PV.Gen.kToStringMaxBytes ∧ PV.Gen.kBytesI64 ≤ PV.Gen.kToStringMaxBytes ∧
    PV.Gen.kBytesPtr ≤ PV.Gen.kToStringMaxBytes := by
  decide

-- non-vacuity: the longest double, -1.2345678901234567e-6 = "-0.0000012345678901234567"
example : floatTouched true 17 (-5) = 26 := by decide
example : (u64 18446744073709551615).2 = 20 := by decide
example : (i64 (-9223372036854775808)).2 = 20 := by decide

/-! ### util::Pool: every history of Allocate / Continue -/
section pool
open PV.Pool

/-- every live allocation lies inside one malloc'ed page, for all of its bytes -/
theorem pool_allocations_in_page (ops : List Op) (h : Hist) (hr : Hist.init.run ops = some h) :
    ∀ l ∈ h.live, inPage h.pool l.addr l.size :=
  PV.Lemmas.Pool.run_live_in_page ops h hr

/-- no two live allocations share a byte (a stored answer or word is never overwritten by a later one) -/
theorem pool_allocations_disjoint (ops : List Op) (h : Hist) (hr : Hist.init.run ops = some h) :
    h.live.Pairwise disjoint :=
  PV.Lemmas.Pool.run_live_disjoint ops h hr

/-- earlier allocations never move or change size, pages never change size; Allocate moves nothing at all -/
theorem pool_earlier_allocations_stay (h h' : Hist) (o : Op) (hs : h.step o = some h') :
    h.live.dropLast <+: h'.live ∧ h.pool.pages <+: h'.pool.pages ∧ (∀ n, o = .alloc n → h.live <+: h'.live) :=
  PV.Lemmas.Pool.step_keeps_earlier h h' o hs

/-- every memcpy of Continue reads inside the old page and writes inside the new, different, page -/
theorem pool_continue_copies_in_bounds (ops : List Op) (h : Hist) (hr : Hist.init.run ops = some h) :
    ∀ c ∈ h.copies, inPage h.pool c.src c.len ∧ inPage h.pool c.dst c.len ∧ c.src.page < c.dst.page :=
  PV.Lemmas.Pool.run_copies_in_bounds ops h hr

/-- Continue on the most recent allocation never trips the contract test, and when it moves it copies exactly the old bytes -/
theorem pool_continue_total_and_copies_old (ops : List Op) (h : Hist) (hr : Hist.init.run ops = some h) (l : Live) (d : Int)
    (hl : h.live.getLast? = some l) (hd : 0 ≤ (l.size : Int) + d) :
    ∃ h', h.step (.cont d) = some h' ∧
      (h'.copies = h.copies ∨ ∃ l', h'.live.getLast? = some l' ∧ h'.copies = h.copies ++ [⟨l.addr, l'.addr, l.size⟩]) := by
  have hdef := PV.Lemmas.Pool.cont_defined ops h hr l d hl hd
  cases hs : h.step (.cont d) with
  | none => rw [hs] at hdef; cases hdef
  | some h' => exact ⟨h', rfl, PV.Lemmas.Pool.cont_copy_is_old ops h h' hr l d hl hs⟩

/-- page k has at least 32·2^k bytes; while the pages fit a 64-bit address space there are at most 59 of them, so the count in
`32 << free_list_.size()` stays below 64 -/
theorem pool_shift_count_small (ops : List Op) (h : Hist) (hr : Hist.init.run ops = some h) :
    (∀ k (hk : k < h.pool.pages.length), 32 * 2 ^ k ≤ h.pool.pages[k]) ∧
    (h.pool.pages.sum < 2 ^ 64 → h.pool.pages.length ≤ 59) :=
  ⟨PV.Lemmas.Pool.run_page_sizes ops h hr, PV.Lemmas.Pool.shift_count_small ops h hr⟩

/-- cache keeps NULL as "no answer yet" and primes its pool with one byte: once the pool has a page, no allocation (not even of
zero bytes) is handed out in the NULL region again, and the pool keeps its pages -/
theorem pool_no_null_after_first_page (p : Pool) (n : Nat) (h : p.pages ≠ []) :
    1 ≤ (allocate p n).2.page ∧ (allocate p n).1.pages ≠ [] := by
  have hl : 1 ≤ p.pages.length := List.length_pos_iff.mpr h
  unfold allocate more
  split
  · simp
  · exact ⟨hl, h⟩

/-- the first non-empty allocation of a fresh pool opens page 1 (while a zero-byte allocation of a fresh pool IS the NULL pointer: example below) -/
theorem pool_first_byte_opens_a_page (n : Nat) (hn : 0 < n) : (allocate init n).1.pages ≠ [] ∧ (allocate init n).2 = ⟨1, 0⟩ := by
  have h : (init.cur + n > init.endOff) := by
    show 0 + n > 0
    omega
  unfold allocate
  rw [if_pos h]
  simp [more, init]
example : (allocate init 0).2 = ⟨0, 0⟩ := by decide

private theorem run_allocs_from (sizes : List Nat) (h0 : Hist) :
    ∃ h, h0.run (sizes.map Op.alloc) = some h ∧ h.live.length = h0.live.length + sizes.length ∧ h.copies = h0.copies := by
  induction sizes generalizing h0 with
  | nil => exact ⟨h0, rfl, by simp, rfl⟩
  | cons n ns ih =>
    obtain ⟨h, hr, hl, hc⟩ := ih { h0 with pool := (allocate h0.pool n).1, live := h0.live ++ [⟨(allocate h0.pool n).2, n⟩] }
    refine ⟨h, ?_, ?_, ?_⟩
    · simpa [Hist.run, Hist.step] using hr
    · simp only [List.length_append, List.length_cons, List.length_nil] at hl ⊢; omega
    · simpa using hc
/-- the way every tool uses the pool (Allocate only: one block per stored answer / word): any sequence of sizes is served, one live
block per request, no two sharing a byte, all inside their pages, and nothing is ever copied -/
theorem pool_allocate_only (sizes : List Nat) :
    ∃ h, Hist.init.run (sizes.map Op.alloc) = some h ∧ h.live.length = sizes.length ∧ h.live.Pairwise disjoint ∧
      (∀ l ∈ h.live, inPage h.pool l.addr l.size) ∧ h.copies = [] := by
  obtain ⟨h, hr, hl, hc⟩ := run_allocs_from sizes Hist.init
  exact ⟨h, hr, by simpa [Hist.init] using hl, PV.Lemmas.Pool.run_live_disjoint _ h hr, PV.Lemmas.Pool.run_live_in_page _ h hr, by simpa [Hist.init] using hc⟩

-- non-vacuity: a history with an in-place Continue, a shrinking one, a moving one (copy of 100 bytes from page 2 to page 3) and four pages
example : (Hist.init.run [.alloc 5, .alloc 0, .cont 3, .cont (-2), .alloc 100, .cont 40, .alloc 1]).map
    (fun h => (h.pool, h.live.map (fun l => (l.addr.page, l.addr.off, l.size)), h.copies.map (fun c => (c.src.page, c.src.off, c.dst.page, c.len)))) =
    some (⟨[32, 100, 140, 256], 1⟩, [(1, 0, 5), (1, 5, 1), (3, 0, 140), (4, 0, 1)], [(2, 0, 3, 100)]) := by rfl
end pool

end PV.Props.C20
