import PV.Model.Format
import PV.Lemmas.Format
/-
C20 — helper routines never write beyond the space they reserved (the number formatters used by
the output streams).  `PV.Gen.kBytes*` are ToStringBuf<T>::kBytes as the compiler sees them today.
The other C20 obligations proved elsewhere: probing never diverges / no table-full exception
(C13 history_refines), the reader and wrap_lines never diverge and index inside the buffer
(C02, C07 totality), Murmur reads in bounds (C14 reads_in_bounds), b64filter's record count is
never the end marker and back() is guarded (C08), shard count 0 is rejected (C06 check).
-/
namespace PV.Props.C20
open PV.Format

theorem u16_fits (v : Nat) (h : v < 2 ^ 16) : (u32 v).2 ≤ PV.Gen.kBytesU16 := by
  have h' : v < 100000 := by
    have : (2:Nat) ^ 16 = 65536 := by decide
    omega
  exact PV.Lemmas.Format.u32_touched_le5 v h'
theorem i16_fits (v : Int) (h : -(2 ^ 15) ≤ v ∧ v < 2 ^ 15) : (i32 v).2 ≤ PV.Gen.kBytesI16 := by
  have e15 : (2:Int) ^ 15 = 32768 := by decide
  rw [e15] at h
  rw [PV.Lemmas.Format.i32_snd]
  show _ ≤ 6
  split
  · have := PV.Lemmas.Format.u32_touched_le5 (-v).toNat (by omega)
    omega
  · have := PV.Lemmas.Format.u32_touched_le5 v.toNat (by omega)
    omega
theorem u32_fits (v : Nat) (h : v < 2 ^ 32) : (u32 v).2 ≤ PV.Gen.kBytesU32 := by
  have _ := h  -- the bound holds for every v
  exact PV.Lemmas.Format.u32_touched_le10 v
theorem i32_fits (v : Int) (h : -(2 ^ 31) ≤ v ∧ v < 2 ^ 31) : (i32 v).2 ≤ PV.Gen.kBytesI32 := by
  have _ := h
  rw [PV.Lemmas.Format.i32_snd]
  show _ ≤ 11
  split
  · have := PV.Lemmas.Format.u32_touched_le10 (-v).toNat
    omega
  · have := PV.Lemmas.Format.u32_touched_le10 v.toNat
    omega
theorem u64_fits (v : Nat) (h : v < 2 ^ 64) : (u64 v).2 ≤ PV.Gen.kBytesU64 := by
  have _ := h  -- the bound holds for every v
  exact PV.Lemmas.Format.u64_touched_le20 v
theorem i64_fits (v : Int) (h : -(2 ^ 63) ≤ v ∧ v < 2 ^ 63) : (i64 v).2 ≤ PV.Gen.kBytesI64 := by
  have e63 : (2:Int) ^ 63 = 9223372036854775808 := by decide
  rw [e63] at h
  rw [PV.Lemmas.Format.i64_snd]
  show _ ≤ 20
  split
  · have := PV.Lemmas.Format.u64_touched_le19 (-v).toNat (by omega)
    omega
  · have := PV.Lemmas.Format.u64_touched_le20 v.toNat
    omega

/-- every double: at most 17 significant digits, decimal point in [-323, 309]. -/
theorem double_fits (neg : Bool) (len : Nat) (dp : Int) (hl : 1 ≤ len ∧ len ≤ 17) (hd : -323 ≤ dp ∧ dp ≤ 309) :
    floatTouched neg len dp ≤ PV.Gen.kBytesDouble := by
  exact PV.Lemmas.Format.floatTouched_le neg len dp hl hd

/-- every float: at most 9 significant digits, decimal point in [-44, 39]. -/
theorem float_fits (neg : Bool) (len : Nat) (dp : Int) (hl : 1 ≤ len ∧ len ≤ 9) (hd : -44 ≤ dp ∧ dp ≤ 39) :
    floatTouched neg len dp ≤ PV.Gen.kBytesFloat := by
  exact PV.Lemmas.Format.floatTouched_le neg len dp ⟨hl.1, by omega⟩ ⟨by omega, by omega⟩

theorem specials_fit (kind : String) (neg : Bool) :
    specialLen kind neg + 1 ≤ PV.Gen.kBytesDouble ∧ specialLen kind neg + 1 ≤ PV.Gen.kBytesFloat := by
  have h : specialLen kind neg ≤ 4 := by
    unfold specialLen
    split
    · omega
    · split <;> omega
  show _ ≤ 26 ∧ _ ≤ 26
  omega

/-- the per-type reservations never exceed what `Ensure` may be asked for. -/
theorem kBytes_le_max :
    PV.Gen.kBytesDouble ≤ PV.Gen.kToStringMaxBytes ∧ PV.Gen.kBytesFloat ≤ PV.Gen.kToStringMaxBytes ∧
    PV.Gen.kBytesU64 ≤ PV.Gen.kToStringMaxBytes ∧ PV.Gen.kBytesI64 ≤ PV.Gen.kToStringMaxBytes ∧
    PV.Gen.kBytesPtr ≤ PV.Gen.kToStringMaxBytes := by
  decide

-- non-vacuity: the longest double, -1.2345678901234567e-6 = "-0.0000012345678901234567"
example : floatTouched true 17 (-5) = 26 := by decide
example : (u64 18446744073709551615).2 = 20 := by decide
example : (i64 (-9223372036854775808)).2 = 20 := by decide

end PV.Props.C20
