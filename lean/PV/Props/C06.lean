import PV.Model.Tools
import PV.Spec.FirstOcc
import PV.Lemmas.Tools
/-
C06 — shard partitions the input by key, stably (the partition part; the validity of the
compressed output files is C15's `empty_stream_valid` / writer theorems, and the writer
threads are C16's ring theorems).
-/
namespace PV.Props.C06
open PV.Tools PV.Spec.FirstOcc

/-- the output files together contain every input line exactly once and nothing else. -/
theorem shard_partition (key : Line → Nat) (n : Nat) (hn : 0 < n) (ls : List Line) :
    (shard key n ls).flatten.Perm ls := by
  exact PV.Lemmas.Tools.shard_flatten_perm key n hn ls

theorem shard_file_count (key : Line → Nat) (n : Nat) (ls : List Line) : (shard key n ls).length = n := by
  simp [shard]

/-- each file preserves input order. -/
theorem shard_each_sublist (key : Line → Nat) (n : Nat) (ls : List Line) :
    ∀ f ∈ shard key n ls, f.Sublist ls := by
  intro f hf
  obtain ⟨i, _, hi⟩ := List.mem_map.1 hf
  rw [← hi]
  exact List.filter_sublist

/-- the file chosen depends only on the key and the shard count. -/
theorem shard_index_pure (key : Line → Nat) (n i : Nat) (ls : List Line) (l : Line) :
    l ∈ shardFile key n i ls ↔ (l ∈ ls ∧ key l % n = i) := by
  simp [shardFile, List.mem_filter]

/-- all lines with equal key land in the same file. -/
theorem shard_colocated (key : Line → Nat) (n i : Nat) (ls : List Line) (a b : Line)
    (ha : a ∈ shardFile key n i ls) (hb : b ∈ ls) (hk : key a = key b) : b ∈ shardFile key n i ls := by
  simp only [shardFile, List.mem_filter, beq_iff_eq] at ha ⊢
  exact ⟨hb, by rw [← hk]; exact ha.2⟩

/-- deduplicating every shard gives, as a multiset, the same lines as deduplicating the whole
    input. -/
theorem dedupe_commutes (key : Line → Nat) (n : Nat) (hn : 0 < n) (ls : List Line) :
    ((shard key n ls).map (firstOccBy key)).flatten.Perm (firstOccBy key ls) := by
  rw [PV.Lemmas.Tools.shard_firstOcc]
  exact PV.Lemmas.Tools.shard_flatten_perm key n hn _

/-- `--prefix p --number n` names: n distinct names, all of the same length. -/
theorem names_distinct (pfx : String) (n : Nat) :
    (shardNames pfx n).length = n ∧ (shardNames pfx n).Nodup := by
  exact ⟨by simp [shardNames], PV.Lemmas.Tools.shardNames_nodup pfx n⟩

-- non-vacuity
example : shard (fun l => l.length) 2 [[1], [2, 2], [3], []] = [[[2, 2], []], [[1], [3]]] := by decide
example : shardNames "p" 11 = ["p00", "p01", "p02", "p03", "p04", "p05", "p06", "p07", "p08", "p09", "p10"] := by decide

end PV.Props.C06
