import PV.Model.Utf8
import PV.Spec.Utf8
import PV.Lemmas.Utf8
/-
C12 — UTF-8 validation accepts exactly well-formed UTF-8.
Property theorems only; helper lemmas live in PV/Lemmas/Utf8.lean.
-/
namespace PV.Props.C12
open PV.Utf8 PV.Spec.Utf8

/-- `DecodeUTF8` succeeds with `(c, n)` exactly when `c` is a scalar value whose Table 3-6
    encoding has `n` bytes and is a prefix of the window. -/
theorem decode_iff (bs : List UInt8) (c n : Nat) :
    decode bs = some (c, n) ↔ (Scalar c ∧ (encodeCP c).length = n ∧ encodeCP c <+: bs) :=
  PV.Lemmas.Utf8.decode_eq_some_iff bs c n

/-- The language accepted at the front of a window is exactly Table 3-7's: no overlong forms,
    no surrogates, nothing above U+10FFFF, no truncation, no stray continuation byte. -/
theorem decode_wf37 (bs : List UInt8) : (decode bs).map (·.2) = wf37 bs :=
  PV.Lemmas.Utf8.decode_map_snd_eq_wf37 bs

/-- What follows the first four bytes — however much of it, 2^32 bytes and more included — cannot change the decoder's answer:
    the answer for the rest of a text of any length is the answer for its first four bytes.  (The correspondence run uses this to
    say what the real iterator must return at the front of 2^32+k-byte and 2^33+k-byte texts, which the model cannot hold.) -/
theorem decode_window (bs : List UInt8) : decode bs = decode (bs.take 4) :=
  (PV.Lemmas.Utf8.decode_take4 bs).symm

/-- The iterator loop returns `cs` exactly when the text is the concatenated encoding of the
    scalar values `cs`. -/
theorem decodeAll_iff (bs : List UInt8) (cs : List Nat) :
    decodeAll bs = some cs ↔ ((∀ c ∈ cs, Scalar c) ∧ bs = cs.flatMap encodeCP) :=
  PV.Lemmas.Utf8.decodeAllFuel_iff bs.length bs cs (Nat.le_refl _)

/-- `IsUTF8` accepts exactly the well-formed strings. -/
theorem isUTF8_iff (bs : List UInt8) : isUTF8 bs = true ↔ WellFormed bs := by
  unfold isUTF8 WellFormed
  rw [Option.isSome_iff_exists]
  exact exists_congr fun cs => decodeAll_iff bs cs

/-- A filter that keeps a line iff `IsUTF8` (remove_invalid_utf8) keeps precisely the
    well-formed lines, unchanged and in order. -/
theorem filter_keeps_exactly_wellformed (ls : List (List UInt8)) :
    ∀ l, l ∈ ls.filter (fun l => isUTF8 l) ↔ (l ∈ ls ∧ WellFormed l) := by
  intro l
  rw [List.mem_filter, isUTF8_iff]

-- non-vacuity: concrete windows on both sides of each boundary
example : decode [0xC3, 0xA9] = some (0xE9, 2) := by decide
example : decode [0xC0, 0xAF] = none := by decide              -- overlong
example : decode ([0xE2, 0x82, 0xAC] ++ List.replicate 1000 0) = some (0x20AC, 3) := by rw [decode_window]; decide
example : decode [0xED, 0xA0, 0x80] = none := by decide        -- surrogate
example : decode [0xF4, 0x90, 0x80, 0x80] = none := by decide  -- > U+10FFFF
example : decode [0xF0, 0x9F, 0x98, 0x80] = some (0x1F600, 4) := by decide
example : decode [0xE2, 0x82] = none := by decide              -- truncated
example : decode [0x80] = none := by decide                    -- stray continuation

end PV.Props.C12
