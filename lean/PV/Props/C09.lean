import PV.Lemmas.Base64Window
import PV.Model.Tools2
import PV.Lemmas.Tools2
import PV.Model.Base64
import PV.Model.Docenc
import PV.Spec.Base64
import PV.Spec.Records
import PV.Lemmas.Base64
import PV.Lemmas.Docenc
/-
C09 — base64 codec and docenc round-trip exactly and reject foreign bytes.
Property theorems only; helper lemmas live in PV/Lemmas/Base64.lean.
`PV.Gen.invTable`, `PV.Gen.b64Table`, `PV.Gen.docencEncodeStripCr` are regenerated from the
C++ source on every run, so these theorems are about the tables in today's tree.
-/
namespace PV.Props.C09
open PV.Base64 PV.Spec.Base64 PV.Spec.Records

/-- `TABLE` is the RFC 4648 alphabet. -/
theorem table_is_alphabet : ∀ i, i < 64 → tbl i = alpha i := by
  exact PV.Lemmas.Base64.tbl_alpha

/-- `INV_TABLE` is exactly the inverse of the alphabet: -1 on every foreign byte (all 256
    entries are examined), the index on members. -/
theorem inv_table_exact (b : UInt8) :
    (inAlphabet b = false → inv b = -1) ∧ (∀ i, i < 64 → alpha i = b → inv b = (i : Int)) := by
  refine ⟨PV.Lemmas.Base64.inv_foreign b, ?_⟩
  intro i hi hb
  subst hb
  exact PV.Lemmas.Base64.inv_alpha i hi

/-- Encoding any byte string yields its RFC 4648 base64 with padding. -/
theorem encode_eq_rfc4648 (bs : List UInt8) : encode bs = rfc4648 bs := by
  exact PV.Lemmas.Base64.encode_eq bs

/-- Decoding the encoding returns the original bytes. -/
theorem decode_encode (bs : List UInt8) : decode (encode bs) = .ok bs := by
  exact PV.Lemmas.Base64.decode_encode' bs

/-- ... also with the padding removed. -/
theorem decode_encode_unpadded (bs : List UInt8) : decode (stripPad (encode bs)) = .ok bs := by
  rw [PV.Lemmas.Base64.encode_eq]
  exact PV.Lemmas.Base64.decode_rfc_stripped bs

/-- Decoding fails, instead of producing data, whenever a byte outside the alphabet occurs
    before the first '='. -/
theorem decode_rejects_foreign (s : List UInt8)
    (h : ∃ b ∈ beforePad s, inAlphabet b = false) : ∀ o, decode s ≠ .ok o := by
  intro o
  unfold decode
  split
  · intro hh; cases hh
  · exact PV.Lemmas.Base64.decLoop_foreign s 0 (-8) [] h o

/-- Conversely text made of alphabet characters (then optional '=' …) is accepted unless
    the reserve computation underflows (more trailing '=' than 3/4 of the length). -/
theorem decode_accepts_alphabet (s : List UInt8)
    (h : ∀ b ∈ beforePad s, inAlphabet b = true) (hp : countPadding s ≤ s.length * 3 / 4) :
    ∃ o, decode s = .ok o := by
  unfold decode
  rw [if_neg (by omega)]
  exact PV.Lemmas.Base64.decLoop_alpha s 0 (-8) [] h

/-- A document for the default separator: newline-terminated non-empty lines (no blank line,
    no newline inside a line).  The empty document is included. -/
def NlDoc (d : List UInt8) : Prop :=
  ∃ ls : List (List UInt8), (∀ l ∈ ls, l ≠ [] ∧ (10 : UInt8) ∉ l) ∧ d = unlines ls

/-- `docenc -d | docenc` reproduces any sequence of such documents (default separator):
    decoding the base64 lines of `ds` and re-encoding gives the same base64 lines. -/
theorem docenc_roundtrip_nl (ds : List (List UInt8)) (h : ∀ d ∈ ds, NlDoc d) :
    (PV.Docenc.decode false [] (unlines (ds.map encode))).map (PV.Docenc.encode false []) =
      some (unlines (ds.map encode)) := by
  have hd : PV.Docenc.decode false [] (unlines (ds.map encode)) = some (ds.flatMap (· ++ [10])) := by
    unfold PV.Docenc.decode
    simp only [PV.Docenc.selectArgs, PV.Docenc.prepare, PV.Docenc.sortIndices, List.foldr_nil, PV.Docenc.uniqAdjacent]
    rw [PV.Lemmas.Base64.split_encoded, PV.Lemmas.Base64.select_nil]
    exact PV.Lemmas.Base64.decodeLines_encoded 10 ds
  rw [hd, Option.map_some]
  congr 1
  unfold PV.Docenc.encode
  simp only [Bool.false_eq_true, if_false]
  simp only [PV.Docenc.selectArgs, PV.Docenc.prepare, PV.Docenc.sortIndices, List.foldr_nil, PV.Docenc.uniqAdjacent]
  rw [show PV.Gen.docencEncodeStripCr = false from rfl, PV.Lemmas.Base64.docsNl_docs ds h,
    PV.Lemmas.Base64.select_nil]

/-- Same for `-0` and NUL-free, non-empty documents (an empty document cannot be told from
    "no document" at end of input; the tool documents the separator confusion). -/
theorem docenc_roundtrip_nul (ds : List (List UInt8)) (h : ∀ d ∈ ds, d ≠ [] ∧ (0 : UInt8) ∉ d) :
    (PV.Docenc.decode true [] (unlines (ds.map encode))).map (PV.Docenc.encode true []) =
      some (unlines (ds.map encode)) := by
  have hd : PV.Docenc.decode true [] (unlines (ds.map encode)) = some (ds.flatMap (· ++ [0])) := by
    unfold PV.Docenc.decode
    simp only [PV.Docenc.selectArgs, PV.Docenc.prepare, PV.Docenc.sortIndices, List.foldr_nil, PV.Docenc.uniqAdjacent]
    rw [PV.Lemmas.Base64.split_encoded, PV.Lemmas.Base64.select_nil]
    exact PV.Lemmas.Base64.decodeLines_encoded 0 ds
  rw [hd, Option.map_some]
  congr 1
  unfold PV.Docenc.encode PV.Docenc.docsNul
  simp only [if_true]
  simp only [PV.Docenc.selectArgs, PV.Docenc.prepare, PV.Docenc.sortIndices, List.foldr_nil, PV.Docenc.uniqAdjacent]
  rw [show PV.Gen.docencEncodeStripCr = false from rfl,
    PV.Lemmas.Base64.splitRecords_flatMap 0 false ds (fun d hd => (h d hd).2),
    PV.Lemmas.Base64.select_nil]
  congr 2
  rw [List.map_congr_left (fun d _ => PV.Lemmas.Base64.stripOneCr_false d), List.map_id']

/-- Index arguments select exactly the listed documents: for a strictly increasing list of
    positive indices the walk returns the documents at those (1-based) positions. -/
theorem index_selection {α : Type} (ind : List Nat) (ds : List α)
    (hpos : ∀ i ∈ ind, 0 < i) (hsorted : ind.Pairwise (· < ·)) (hne : ind ≠ []) :
    PV.Docenc.select ind ds = ind.filterMap (fun i => ds[i - 1]?) := by
  have := PV.Lemmas.Base64.selectFrom_spec ds 0 ind hne hpos hsorted
  simpa [PV.Docenc.select] using this

theorem index_selection_all {α : Type} (ds : List α) : PV.Docenc.select [] ds = ds := by
  exact PV.Lemmas.Base64.select_nil ds

/-- Index arguments as typed — in any order, repeated, from overlapping ranges — select exactly the documents
    whose (1-based) number is listed, each once, in document order. -/
theorem index_selection_any_args {α : Type} (args : List Nat) (ds : List α)
    (hpos : ∀ i ∈ args, 0 < i) (hne : args ≠ []) :
    PV.Docenc.selectArgs args ds =
      ((List.range ds.length).filter (fun k => decide (k + 1 ∈ args))).filterMap (fun k => ds[k]?) := by
  exact PV.Lemmas.Docenc.selectArgs_spec args ds hpos hne

/-- before the repair (`prepare` = sort only) a repeated index blocked the walk: `1-3 2-4` selected documents 1 and 2. -/
theorem index_selection_needs_unique :
    PV.Docenc.select (PV.Docenc.sortIndices [1, 2, 3, 2, 3, 4]) ["a", "b", "c", "d", "e"] = ["a", "b"] := by decide

-- non-vacuity
example : encode [0x41, 0x42, 0x43] = [0x51, 0x55, 0x4A, 0x44] := by decide
example : decode [0x51, 0x55, 0x4A, 0x44] = .ok [0x41, 0x42, 0x43] := by decide
example : NlDoc [0x61, 13, 10, 0x62, 10] := ⟨[[0x61, 13], [0x62]], by decide, by decide⟩
example : PV.Docenc.select [2, 3] ["a", "b", "c", "d"] = ["b", "c"] := by decide
example : PV.Docenc.selectArgs [1, 2, 3, 2, 3, 4] ["a", "b", "c", "d", "e"] = ["a", "b", "c", "d"] := by decide
example : PV.Docenc.selectArgs [3, 1, 3] ["a", "b", "c", "d", "e"] = ["a", "c"] := by decide

/-! #### base64_number (PV.Tools2) -/
section Number
open PV.Tools PV.Tools2

/-- tokens are exactly the maximal delimiter-free runs: none is empty, none contains a delimiter, and with the
    delimiters that separated them they make up the input (here: dropping all delimiters from the input gives the
    concatenation of the tokens). -/
theorem tokens_spec (isDelim : UInt8 → Bool) (bs : List UInt8) :
    (∀ t ∈ tokens isDelim bs, t ≠ [] ∧ ∀ b ∈ t, isDelim b = false) ∧
    (tokens isDelim bs).flatten = bs.filter (fun b => !isDelim b) := by
  exact PV.Lemmas.Tools2.tokens_spec isDelim bs

/-- base64_number numbers documents by their 0-based input line, whatever they contain (empty documents, documents
    without final newline, blank lines inside): the output for `a ++ b` is the output for `a` followed by the output
    for `b` numbered from `a.length`. -/
theorem base64_number_compositional (a b : List Line) (i : Nat) :
    base64NumberFrom i (a ++ b) =
      (base64NumberFrom i a).bind (fun x => (base64NumberFrom (i + a.length) b).map (x ++ ·)) := by
  exact PV.Lemmas.Tools2.base64NumberFrom_append a b i

/-- every output line is a non-empty line of its document, free of TAB and LF, followed by TAB and the document's
    number; an undecodable line aborts the run. -/
theorem base64_number_lines (ls out : List Line) (h : base64Number ls = some out) :
    ∀ o ∈ out, ∃ i body, i < ls.length ∧ o = body ++ [9] ++ decimal i ∧ body ≠ [] ∧ (9 : UInt8) ∉ body ∧ (10 : UInt8) ∉ body := by
  intro o ho
  obtain ⟨j, body, _, hj, h1, h2, h3, h4⟩ := PV.Lemmas.Tools2.base64NumberFrom_lines ls 0 out h o ho
  exact ⟨j, body, by simpa using hj, h1, h2, h3, h4⟩

-- "aGk=" = "hi", "" = empty document, "YQoKYgli" = "a\n\nb\tb"
example : base64Number [[97, 71, 107, 61], [], [89, 81, 111, 75, 89, 103, 108, 105]] =
    some [[104, 105, 9, 48], [97, 9, 50], [98, 32, 98, 9, 50]] := by decide

end Number

section Window
/-! Texts too long to run: the encoder's output is compositional at 3-byte boundaries, so any 4-aligned window of the output of a
    text of ANY length is the encoding of the corresponding input window, and the length is 4*ceil(n/3).  The correspondence run
    judges base64_encode on texts of 2^31 .. 2^32+k bytes (which the model cannot hold) by windows through these theorems;
    `decode_rejects_foreign` above does the same for base64_decode on such texts. -/
/-- RFC 4648 encoding is compositional at multiples of three bytes -/
theorem rfc4648_append (a b : List UInt8) (h : a.length % 3 = 0) :
    rfc4648 (a ++ b) = rfc4648 a ++ rfc4648 b := by
  exact PV.Lemmas.Base64Window.rfc4648_append a b h

/-- the encoded length is 4 * ceil(n / 3), for every n -/
theorem encode_length (bs : List UInt8) : (encode bs).length = 4 * ((bs.length + 2) / 3) := by
  exact PV.Lemmas.Base64Window.encode_length bs

/-- a window of the output at a 4-aligned offset is the encoding of the corresponding 3-aligned input window, whatever
    precedes and follows it and however long the whole text is -/
theorem encode_window (pre mid post : List UInt8) (hp : pre.length % 3 = 0) (hm : mid.length % 3 = 0) :
    ((encode (pre ++ mid ++ post)).drop (4 * (pre.length / 3))).take (4 * (mid.length / 3)) = encode mid := by
  exact PV.Lemmas.Base64Window.encode_window pre mid post hp hm

/-- and the final window (the last 1..3 input bytes, with padding) likewise -/
theorem encode_tail (pre last : List UInt8) (hp : pre.length % 3 = 0) :
    (encode (pre ++ last)).drop (4 * (pre.length / 3)) = encode last := by
  exact PV.Lemmas.Base64Window.encode_tail pre last hp

example : encode [0, 0, 0, 77, 97, 110, 0] = [65, 65, 65, 65, 84, 87, 70, 117, 65, 65, 61, 61] := by decide +kernel

end Window

end PV.Props.C09
