/-
Specification of "the records of a byte stream" (property C02), used by every tool model:
split at the delimiter; a delimiter-terminated record loses one trailing CR when `stripCr`;
a non-empty unterminated tail is a final record (returned as is); nothing follows a trailing
delimiter.
-/
namespace PV.Spec.Records

def stripOneCr (stripCr : Bool) (r : List UInt8) : List UInt8 :=
  if stripCr && r.getLast? == some 13 then r.dropLast else r

/-- `cur` is the current record, reversed. -/
def splitGo (delim : UInt8) (stripCr : Bool) : List UInt8 → List UInt8 → List (List UInt8)
  | [], cur => if cur.isEmpty then [] else [cur.reverse]
  | b :: r, cur =>
    if b == delim then stripOneCr stripCr cur.reverse :: splitGo delim stripCr r []
    else splitGo delim stripCr r (b :: cur)

def splitRecords (delim : UInt8) (stripCr : Bool) (bs : List UInt8) : List (List UInt8) :=
  splitGo delim stripCr bs []

/-- What a line-oriented tool writes: every record followed by a newline. -/
def unlines (ls : List (List UInt8)) : List UInt8 := ls.flatMap (· ++ [10])

end PV.Spec.Records
