/-
Specification of well-formed UTF-8 (Unicode Standard, ch. 3, D92, Tables 3-6 and 3-7).
Independent of the model: no bit operations, only the arithmetic definition.
-/
namespace PV.Spec.Utf8

/-- Unicode scalar value. -/
def Scalar (c : Nat) : Prop := c < 0xD800 ∨ (0xE000 ≤ c ∧ c ≤ 0x10FFFF)

instance : DecidablePred Scalar := fun c => by unfold Scalar; infer_instance

/-- Table 3-6: the UTF-8 encoding of a scalar value (arithmetic form). -/
def encodeCP (c : Nat) : List UInt8 :=
  if c < 0x80 then [UInt8.ofNat c]
  else if c < 0x800 then [UInt8.ofNat (0xC0 + c / 64), UInt8.ofNat (0x80 + c % 64)]
  else if c < 0x10000 then
    [UInt8.ofNat (0xE0 + c / 4096), UInt8.ofNat (0x80 + c / 64 % 64), UInt8.ofNat (0x80 + c % 64)]
  else
    [UInt8.ofNat (0xF0 + c / 262144), UInt8.ofNat (0x80 + c / 4096 % 64),
     UInt8.ofNat (0x80 + c / 64 % 64), UInt8.ofNat (0x80 + c % 64)]

/-- Well-formed UTF-8 text: a concatenation of encodings of scalar values. -/
def WellFormed (bs : List UInt8) : Prop :=
  ∃ cs : List Nat, (∀ c ∈ cs, Scalar c) ∧ bs = cs.flatMap encodeCP

/-- Table 3-7 (well-formed UTF-8 byte sequences), as a decidable predicate on the first
    sequence of a window: returns the length of the well-formed sequence at the front. -/
def wf37 (bs : List UInt8) : Option Nat :=
  let t (b : UInt8) (lo hi : Nat) : Bool := lo ≤ b.toNat && b.toNat ≤ hi
  match bs with
  | [] => none
  | b0 :: r =>
    let b0 := b0.toNat
    if b0 ≤ 0x7F then some 1
    else if 0xC2 ≤ b0 && b0 ≤ 0xDF then
      match r with
      | b1 :: _ => if t b1 0x80 0xBF then some 2 else none
      | _ => none
    else if 0xE0 ≤ b0 && b0 ≤ 0xEF then
      match r with
      | b1 :: b2 :: _ =>
        let lo := if b0 = 0xE0 then 0xA0 else 0x80
        let hi := if b0 = 0xED then 0x9F else 0xBF
        if t b1 lo hi && t b2 0x80 0xBF then some 3 else none
      | _ => none
    else if 0xF0 ≤ b0 && b0 ≤ 0xF4 then
      match r with
      | b1 :: b2 :: b3 :: _ =>
        let lo := if b0 = 0xF0 then 0x90 else 0x80
        let hi := if b0 = 0xF4 then 0x8F else 0xBF
        if t b1 lo hi && t b2 0x80 0xBF && t b3 0x80 0xBF then some 4 else none
      | _ => none
    else none

end PV.Spec.Utf8
