/-
RFC 4648 §4 base64, written independently of the implementation: arithmetic on 24-bit groups.
-/
namespace PV.Spec.Base64

/-- The base64 alphabet: index → character. -/
def alpha (i : Nat) : UInt8 :=
  if i < 26 then UInt8.ofNat (65 + i)
  else if i < 52 then UInt8.ofNat (97 + (i - 26))
  else if i < 62 then UInt8.ofNat (48 + (i - 52))
  else if i = 62 then 43 else 47

/-- Is this byte a member of the alphabet? -/
def inAlphabet (b : UInt8) : Bool :=
  (65 ≤ b && b ≤ 90) || (97 ≤ b && b ≤ 122) || (48 ≤ b && b ≤ 57) || b == 43 || b == 47

def pad : UInt8 := 61

/-- RFC 4648 encoding with padding. -/
def rfc4648 : List UInt8 → List UInt8
  | a :: b :: c :: r =>
    let n := a.toNat * 65536 + b.toNat * 256 + c.toNat
    alpha (n / 262144) :: alpha (n / 4096 % 64) :: alpha (n / 64 % 64) :: alpha (n % 64) :: rfc4648 r
  | [a, b] =>
    let n := a.toNat * 65536 + b.toNat * 256
    [alpha (n / 262144), alpha (n / 4096 % 64), alpha (n / 64 % 64), pad]
  | [a] =>
    let n := a.toNat * 65536
    [alpha (n / 262144), alpha (n / 4096 % 64), pad, pad]
  | [] => []

/-- The text with trailing padding removed. -/
def stripPad (s : List UInt8) : List UInt8 := (s.reverse.dropWhile (· == pad)).reverse

/-- The part of the text before the first '='. -/
def beforePad (s : List UInt8) : List UInt8 := s.takeWhile (· != pad)

end PV.Spec.Base64
