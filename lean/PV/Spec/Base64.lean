/-
RFC 4648 §4 base64, written independently of the implementation: arithmetic on 24-bit groups.
-/
namespace PV.Spec.Base64

/-- The base64 alphabet: index → character. -/
def alpha (i : Nat) : UInt8 :=
  if i < 26 then UInt8.ofNat (65 + i)
  else if i < 52 then UInt8.ofNat (97 + (i - 26))
  else if i < 62 then UInt8.ofNat (48 + (i - 52))
  else if i = 62 then 43 else 47

/-- Is this byte a member of the alphabet? -/
def inAlphabet (b : UInt8) : Bool :=
  (65 ≤ b && b ≤ 90) || (97 ≤ b && b ≤ 122) || (48 ≤ b && b ≤ 57) || b == 43 || b == 47

def pad : UInt8 := 61

/-- RFC 4648 encoding with padding. -/
def rfc4648 : List UInt8 → List UInt8
  | a :: b :: c :: r =>
    let n := a.toNat * 65536 + b.toNat * 256 + c.toNat
    alpha (n / 262144) :: alpha (n / 4096 % 64) :: alpha (n / 64 % 64) :: alpha (n % 64) :: rfc4648 r
  | [a, b] =>
    let n := a.toNat * 65536 + b.toNat * 256
    [alpha (n / 262144), alpha (n / 4096 % 64), alpha (n / 64 % 64), pad]
  | [a] =>
    let n := a.toNat * 65536
    [alpha (n / 262144), alpha (n / 4096 % 64), pad, pad]
  | [] => []

/-- The text with trailing padding removed. -/
def stripPad (s : List UInt8) : List UInt8 := (s.reverse.dropWhile (· == pad)).reverse

/-- The part of the text before the first '='. -/
def beforePad (s : List UInt8) : List UInt8 := s.takeWhile (· != pad)

end PV.Spec.Base64

namespace PV.Spec.Base64

/-- index of a character in the alphabet (search, independent of any inverse table). -/
def alphaIndex (b : UInt8) : Option Nat := (List.range 64).find? (fun i => alpha i == b)

/-- reference decoder for canonical text: groups of 4 symbols → 3 bytes; a final group of
    2 or 3 symbols → 1 or 2 bytes.  `none` if a symbol is foreign or a lone symbol remains. -/
def refDecode : List UInt8 → Option (List UInt8)
  | a :: b :: c :: d :: r =>
    match alphaIndex a, alphaIndex b, alphaIndex c, alphaIndex d, refDecode r with
    | some a, some b, some c, some d, some rest =>
      let n := a * 262144 + b * 4096 + c * 64 + d
      some (UInt8.ofNat (n / 65536) :: UInt8.ofNat (n / 256 % 256) :: UInt8.ofNat (n % 256) :: rest)
    | _, _, _, _, _ => none
  | [a, b, c] =>
    match alphaIndex a, alphaIndex b, alphaIndex c with
    | some a, some b, some c =>
      let n := a * 262144 + b * 4096 + c * 64
      some [UInt8.ofNat (n / 65536), UInt8.ofNat (n / 256 % 256)]
    | _, _, _ => none
  | [a, b] =>
    match alphaIndex a, alphaIndex b with
    | some a, some b => some [UInt8.ofNat ((a * 262144 + b * 4096) / 65536)]
    | _, _ => none
  | [_] => none
  | [] => some []

/-- The property's verdict on one decoder answer (`none` = the decoder reported an error):
    * a foreign byte before the first '='  ⇒ must be an error;
    * the text is the (padded or unpadded) RFC 4648 encoding of `x` ⇒ must be `x`;
    * anything else is not constrained by the property. -/
def judgeDecode (s : List UInt8) (res : Option (List UInt8)) : Bool :=
  if (beforePad s).any (fun b => !inAlphabet b) then res.isNone
  else match refDecode (beforePad s) with
    | some x => if rfc4648 x == s || stripPad (rfc4648 x) == s then res == some x else true
    | none => true

end PV.Spec.Base64
