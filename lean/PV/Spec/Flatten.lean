import PV.Model.FlattenTypes
/-
Specification of Flatten on CODE POINTS: substitutions are applied left to right; at a start
character the listed multi-character alternatives are tried in order before the
single-character one; a character no rule targets is copied; every input code point is
consumed exactly once.  (Rule tables hold BMP text only, so their UTF-16 units are code points.)
-/
namespace PV.Spec.Flatten
open PV.Flatten

def encode16 (c : Nat) : List Nat :=
  if c ≥ 0x10000 then [0xD800 + (c - 0x10000) / 0x400, 0xDC00 + (c - 0x10000) % 0x400] else [c]

/-- rule `r` matches after the start character when the following code points are `fromSuffix`
    and, for right-boundary rules, the match is followed by the end of the line or a space. -/
def matchesCp (isSpace : Nat → Bool) (rest : List Nat) (r : LongReplace) : Bool :=
  (rest.take r.fromSuffix.length == r.fromSuffix) &&
    (!r.rightBoundary || rest.length == r.fromSuffix.length ||
      isSpace ((rest.drop r.fromSuffix.length).headD 0))

def flattenSpec (rules : List Start) (isSpace : Nat → Bool) : Nat → List Nat → List Nat
  | 0, _ => []
  | _, [] => []
  | fuel + 1, c :: rest =>
    match rules.find? (·.c == c) with
    | some st =>
      match st.longer.find? (matchesCp isSpace rest) with
      | some r => r.to ++ flattenSpec rules isSpace fuel (rest.drop r.fromSuffix.length)
      | none => st.character ++ flattenSpec rules isSpace fuel rest
    | none => encode16 c ++ flattenSpec rules isSpace fuel rest

def flatten (rules : List Start) (isSpace : Nat → Bool) (cps : List Nat) : List Nat :=
  flattenSpec rules isSpace (cps.length + 1) cps

/-- the requested transforms in order. -/
def transform (lower flat nfkc : Bool) (lowerF flatF nfkcF : List Nat → List Nat) (line : List Nat) : List Nat :=
  let l := if lower then lowerF line else line
  let l := if flat then flatF l else l
  if nfkc then nfkcF l else l

/-- tables contain BMP, non-surrogate text only. -/
def bmpOnly (rules : List Start) : Bool :=
  let ok (u : Nat) : Bool := u < 0xD800 || (0xE000 ≤ u && u < 0x10000)
  rules.all (fun st => ok st.c && st.longer.all (fun r => r.fromSuffix.all ok && !r.fromSuffix.isEmpty))

end PV.Spec.Flatten
