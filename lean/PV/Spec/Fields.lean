import PV.Model.Fields
/-
Specification for C10: `cut -f LIST -d CHAR` semantics on split fields, and the cut LIST grammar.
(`FieldRange` is shared with the model: a half-open interval of 0-based field numbers, `kInf` = open.)
-/
namespace PV.Spec.Fields
open PV.Fields

/-- the fields of a line: split at every delimiter (always at least one field). -/
def splitFields (delim : UInt8) : List UInt8 → List (List UInt8)
  | [] => [[]]
  | c :: r =>
    match splitFields delim r with
    | [] => [[]]        -- unreachable
    | f :: fs => if c == delim then [] :: f :: fs else (c :: f) :: fs

def join (delim : UInt8) : List (List UInt8) → List UInt8
  | [] => []
  | [f] => f
  | f :: g :: r => f ++ delim :: join delim (g :: r)

/-- the fields a range selects from a line's fields. -/
def selected (fields : List (List UInt8)) (f : FieldRange) : List (List UInt8) :=
  if f.stop == kInf then fields.drop f.begin else (fields.drop f.begin).take (f.stop - f.begin)

/-- what `cut` would print for one range (nothing if the line has no such field). -/
def cutRange (delim : UInt8) (fields : List (List UInt8)) (f : FieldRange) : Option (List UInt8) :=
  if f.begin < fields.length then some (join delim (selected fields f)) else none

def cutSelect (ranges : List FieldRange) (delim : UInt8) (line : List UInt8) : List (List UInt8) :=
  ranges.filterMap (cutRange delim (splitFields delim line))

/-- ranges as DefragmentFields leaves them: non-empty, increasing, disjoint. -/
def WellFormed : List FieldRange → Prop
  | [] => True
  | [f] => f.begin < f.stop
  | f :: g :: r => f.begin < f.stop ∧ f.stop ≤ g.begin ∧ f.stop ≠ kInf ∧ WellFormed (g :: r)

/-- the line has every field the ranges select. -/
def ContainsAll (ranges : List FieldRange) (delim : UInt8) (line : List UInt8) : Prop :=
  ∀ f ∈ ranges, if f.stop = kInf then f.begin < (splitFields delim line).length
                else f.stop ≤ (splitFields delim line).length

/-! ### the cut LIST grammar -/

inductive Item where
  | single (n : Nat)      -- N
  | range (n m : Nat)     -- N-M
  | from (n : Nat)        -- N-
  | upto (m : Nat)        -- -M
  | all                   -- -      (accepted leniently)
  deriving DecidableEq, Repr

def Item.denote : Item → FieldRange
  | .single n => ⟨n - 1, n⟩
  | .range n m => ⟨n - 1, m⟩
  | .from n => ⟨n - 1, kInf⟩
  | .upto m => ⟨0, m⟩
  | .all => ⟨0, kInf⟩

def allDigits (s : List UInt8) : Bool := !s.isEmpty && s.all isDigit
def value (s : List UInt8) : Nat := s.foldl (fun a c => a * 10 + (c.toNat - 48)) 0

/-- a field number: digits, 1 ≤ value < kInf. -/
def number (s : List UInt8) : Option Nat :=
  if allDigits s && 1 ≤ value s && value s < kInf then some (value s) else none

def splitOn (sep : UInt8) (s : List UInt8) : List (List UInt8) := splitFields sep s

def parseItem (s : List UInt8) : Option Item :=
  match splitOn 45 s with
  | [a] => (number a).map .single
  | [a, b] =>
    if a.isEmpty && b.isEmpty then some .all
    else if a.isEmpty then (number b).map .upto
    else if b.isEmpty then (number a).map .from
    else match number a, number b with
      | some n, some m => if n ≤ m then some (.range n m) else none
      | _, _ => none
  | _ => none

/-- LIST := item (',' item)* [','] ; the single trailing comma is tolerated. -/
def cutParse (s : List UInt8) : Option (List Item) :=
  if s.isEmpty then none else
  let parts := splitOn 44 s
  let parts := if parts.length ≥ 2 && parts.getLast? == some [] then parts.dropLast else parts
  parts.mapM parseItem

def inRange (k : Nat) (f : FieldRange) : Prop := f.begin ≤ k ∧ (k < f.stop ∨ f.stop = kInf)

end PV.Spec.Fields
