import PV.Model.Table
/-
Executable form of the linear-probing invariant, evaluated by the driver on the
IMPLEMENTATION's real bucket array (dumped by the harness) after growth steps:
power-of-two size, no duplicate keys, and path-closedness (every key is reachable from its
ideal bucket without crossing an empty bucket).
-/
namespace PV.Spec.TableInv
open PV.Table

def isPow2 (n : Nat) : Bool := n != 0 && (n &&& (n - 1)) == 0

/-- all buckets on the cyclic walk from `ideal` to `j` (exclusive) are occupied. -/
def pathClosed (keys : Array Nat) (mask : Nat) (j : Nat) : Bool :=
  let k := keys.getD j 0
  let ideal := k &&& mask
  let dist := (j + keys.size - ideal) % keys.size
  (List.range dist).all (fun d => keys.getD ((ideal + d) &&& mask) 0 != 0)

def noDup (keys : Array Nat) : Bool :=
  let occ := (keys.toList.filter (· != 0))
  occ.length == occ.eraseDups.length

def check (keys : Array Nat) : Bool :=
  isPow2 keys.size && keys.size ≥ 8 &&
  (List.range keys.size).all (fun j => keys.getD j 0 == 0 || pathClosed keys (keys.size - 1) j) &&
  noDup keys && keys.any (· == 0)

end PV.Spec.TableInv
