import PV.Spec.Utf8
/-
Executable oracle for C12: decode the first sequence of a window by the *specification*
(Table 3-7 for the length, Table 3-6 arithmetic for the value).  Used by the violation
search to judge the implementation's answers independently of the model.
-/
namespace PV.Spec.Utf8

def specDecode (bs : List UInt8) : Option (Nat × Nat) :=
  match wf37 bs with
  | none => none
  | some n =>
    let b (i : Nat) : Nat := (bs.getD i 0).toNat
    match n with
    | 1 => some (b 0, 1)
    | 2 => some ((b 0 - 0xC0) * 64 + (b 1 - 0x80), 2)
    | 3 => some ((b 0 - 0xE0) * 4096 + (b 1 - 0x80) * 64 + (b 2 - 0x80), 3)
    | _ => some ((b 0 - 0xF0) * 262144 + (b 1 - 0x80) * 4096 + (b 2 - 0x80) * 64 + (b 3 - 0x80), 4)

/-- whole-string well-formedness by repeated `wf37` (fuel = length). -/
def specWellFormedFuel : Nat → List UInt8 → Bool
  | _, [] => true
  | 0, _ => false
  | f + 1, bs => match wf37 bs with
    | none => false
    | some n => specWellFormedFuel f (bs.drop n)

def specWellFormed (bs : List UInt8) : Bool := specWellFormedFuel bs.length bs

end PV.Spec.Utf8
