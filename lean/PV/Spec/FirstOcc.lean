/-
Specification of "keep the first occurrence of every key" (C01, C18, C04).
-/
namespace PV.Spec.FirstOcc

variable {α β : Type} [DecidableEq β]

/-- keep `l` iff its key is not among `seen` nor among the keys of earlier lines. -/
def firstOccGo (f : α → β) : List β → List α → List α
  | _, [] => []
  | seen, l :: ls =>
    if f l ∈ seen then firstOccGo f seen ls else l :: firstOccGo f (f l :: seen) ls

def firstOccBy (f : α → β) (ls : List α) : List α := firstOccGo f [] ls

/-- parallel mode: a pair is kept iff its first side is new among all earlier first sides that
    were examined, and its second side is new among the second sides examined so far (the
    second side is only examined — and remembered — when the first side was new). -/
def parGo (f : α → β) : List β → List β → List (α × α) → List (α × α)
  | _, _, [] => []
  | s0, s1, (a, b) :: ps =>
    if f a ∈ s0 then parGo f s0 s1 ps
    else if f b ∈ s1 then parGo f (f a :: s0) s1 ps
    else (a, b) :: parGo f (f a :: s0) (f b :: s1) ps

def parSpec (f : α → β) (ps : List (α × α)) : List (α × α) := parGo f [] [] ps

end PV.Spec.FirstOcc
