/-
Reference MurmurHash64A (Austin Appleby, MurmurHash2 64-bit for 64-bit platforms), written
over the byte list by chunking, with the reference constants written out here.
-/
namespace PV.Spec.Murmur

def M : UInt64 := 0xc6a4a7935bd1e995
def R : UInt64 := 47

/-- little-endian value of up to 8 bytes. -/
def le (bs : List UInt8) : UInt64 :=
  bs.foldr (fun b acc => (acc <<< 8) ||| UInt64.ofNat b.toNat) 0

def mix (h k : UInt64) : UInt64 :=
  let k := k * M
  let k := k ^^^ (k >>> R)
  let k := k * M
  (h ^^^ k) * M

/-- consume full 8-byte chunks, then the tail (1..7 bytes: xor the little-endian value, multiply). -/
def body : Nat → List UInt8 → UInt64 → UInt64
  | 0, _, h => h
  | fuel + 1, bs, h =>
    if bs.length ≥ 8 then body fuel (bs.drop 8) (mix h (le (bs.take 8)))
    else if bs.isEmpty then h
    else (h ^^^ le bs) * M

def murmurRef (bs : List UInt8) (seed : UInt64) : UInt64 :=
  let h := seed ^^^ (UInt64.ofNat bs.length * M)
  let h := body (bs.length / 8 + 1) bs h
  let h := h ^^^ (h >>> R)
  let h := h * M
  h ^^^ (h >>> R)

end PV.Spec.Murmur
