import PV.Model.Table
/-
Specification for C13: a finite map key → value as an association list.
-/
namespace PV.Spec.Map
open PV.Table

abbrev M := List (Nat × Nat)

def lookup (m : M) (k : Nat) : Option (Nat × Nat) := m.find? (·.1 == k)

def step (m : M) : Op → Ans × M
  | .insert k v =>
    match lookup m k with
    | some e => (.inserted true e, m)
    | none => (.inserted false (k, v), (k, v) :: m)
  | .find k => (.found (lookup m k), m)

def run (m : M) : List Op → List Ans × M
  | [] => ([], m)
  | op :: ops =>
    let (a, m') := step m op
    let (as, m'') := run m' ops
    (a :: as, m'')

def opKey : Op → Nat
  | .insert k _ => k
  | .find k => k

end PV.Spec.Map
