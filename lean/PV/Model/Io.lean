/-
Model of the retry loops in util/file.cc (C03): WriteOrThrow, PartialRead, ReadOrThrow, ReadOrEOF.
The operating system is an adversary given as a finite script of outcomes, one per
read()/write() call; after the script is exhausted every call transfers everything asked for.
  n > 0 : transfer at most n bytes (a short count when n < request)
  0     : fail with EINTR
  n < 0 : fail with another errno
Each function also returns the log of request sizes it issued, which the correspondence check
compares with the real code's system calls.
-/
namespace PV.Io

inductive WRes where
  | ok (delivered : List UInt8) (log : List Nat)
  | err (delivered : List UInt8) (log : List Nat)     -- FDException
  | diverged
  deriving Repr, DecidableEq

/-- `WriteOrThrow(fd, data, size)` -/
def writeAll : Nat → List UInt8 → List Int → List UInt8 → List Nat → WRes
  | 0, _, _, _, _ => .diverged
  | fuel + 1, data, sched, done, log =>
    if data.isEmpty then .ok done log.reverse
    else
      let log := data.length :: log
      match sched with
      | [] => .ok (done ++ data) log.reverse          -- full write, then `size == 0`
      | o :: rest =>
        if o == 0 then writeAll fuel data rest done log          -- EINTR: retry the same request
        else if o < 0 then .err done log.reverse                  -- ret < 1: throw
        else
          let n := min o.toNat data.length
          writeAll fuel (data.drop n) rest (done ++ data.take n) log

def writeOrThrow (data : List UInt8) (sched : List Int) : WRes :=
  writeAll (data.length + sched.length + 1) data sched [] []

inductive RRes where
  | ok (got : List UInt8) (log : List Nat)
  | eof (log : List Nat)          -- EndOfFileException (ReadOrThrow only)
  | err (log : List Nat)          -- FDException
  | diverged
  deriving Repr, DecidableEq

/-- `PartialRead(fd, to, amount)`: one successful read() (EINTR retried).
    Returns (bytes, remaining source, remaining script, log) or error. -/
def partialRead : Nat → Nat → List UInt8 → List Int → List Nat →
    Option (Option (List UInt8 × List UInt8 × List Int) × List Nat)
  | 0, _, _, _, _ => none
  | fuel + 1, amount, src, sched, log =>
    let log := amount :: log
    match sched with
    | [] => some (some (src.take amount, src.drop amount, []), log)
    | o :: rest =>
      if o == 0 then partialRead fuel amount src rest log
      else if o < 0 then some (none, log)
      else
        let n := min o.toNat amount
        some (some (src.take n, src.drop n, rest), log)

/-- `ReadOrEOF(fd, to, amount)` (and `ReadOrThrow` with `throwOnEof`). -/
def readLoop (throwOnEof : Bool) : Nat → Nat → List UInt8 → List Int → List UInt8 → List Nat → RRes
  | 0, _, _, _, _, _ => .diverged
  | fuel + 1, remaining, src, sched, got, log =>
    if remaining == 0 then .ok got log.reverse
    else
      match partialRead (sched.length + 1) remaining src sched log with
      | none => .diverged
      | some (none, log) => .err log.reverse
      | some (some (bs, src', sched'), log) =>
        if bs.isEmpty then (if throwOnEof then .eof log.reverse else .ok got log.reverse)
        else readLoop throwOnEof fuel (remaining - bs.length) src' sched' (got ++ bs) log

def readOrEOF (amount : Nat) (src : List UInt8) (sched : List Int) : RRes :=
  readLoop false (amount + 1) amount src sched [] []

def readOrThrow (amount : Nat) (src : List UInt8) (sched : List Int) : RRes :=
  readLoop true (amount + 1) amount src sched [] []

def partialReadOnce (amount : Nat) (src : List UInt8) (sched : List Int) : RRes :=
  match partialRead (sched.length + 1) amount src sched [] with
  | none => .diverged
  | some (none, log) => .err log.reverse
  | some (some (bs, _, _), log) => .ok bs log.reverse

end PV.Io
