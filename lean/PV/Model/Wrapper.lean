/-
Labelled transition system for the child-process wrappers (C05, C04):
cache, foldfilter and b64filter all have the same shape —

  feeder thread    : for each input record, produce a bookkeeping entry on an unbounded queue and
                     append the record's chunks to an 8 KiB stream buffer, which is spilled to the
                     child's stdin pipe only when an append finds it full and at the final flush;
                     then produce the end marker and flush/close (order is a parameter);
  child process    : reads chunks from its stdin pipe, answers chunk j with answer j; when it is
                     willing to answer is an arbitrary release policy; it cannot read while more
                     than `readAhead` answers are pending (a child blocked on write does not read);
  collector thread : takes the next entry from the queue, reads that many answers from the child's
                     stdout pipe, emits the record; foldfilter additionally peeks for surplus output
                     when the queue is empty after a record.

Units are "chunks" (a line, or a part of a line: pipe capacities are in the same unit), so a
record larger than both pipes is representable.  All queues are FIFO lists of chunk identities
(record, index) so that ordering properties can be stated.
-/
namespace PV.Wrapper

abbrev Chunk := Nat × Nat

structure Params where
  sizes : List Nat                 -- chunks sent to the child for record i (0 = nothing sent: cache hit)
  bufCap : Nat                     -- stream buffer capacity
  cap1 : Nat                       -- pipe to the child
  cap2 : Nat                       -- pipe from the child
  enqueueFirst : Bool              -- entry produced before (true) / after (false) the record's chunks are written
  poisonFirst : Bool               -- end marker produced before (true) / after (false) the final flush + close
  peek : Bool                      -- collector peeks at the child's output when the queue is empty after a record
  release : Nat → Bool → Nat       -- child: answers it is willing to have emitted after reading r chunks (eof seen?)
  readAhead : Nat                  -- child reads only while pending answers ≤ readAhead

/-- the release policy of a child that answers one chunk per chunk. -/
structure Params.PolicyOk (p : Params) : Prop where
  le : ∀ r e, p.release r e ≤ r
  mono : ∀ r r' e e', r ≤ r' → (e = true → e' = true) → p.release r e ≤ p.release r' e'
  eof : ∀ r, p.release r true = r

structure Params.Ok (p : Params) : Prop where
  buf : 1 ≤ p.bufCap
  c1 : 1 ≤ p.cap1
  c2 : 1 ≤ p.cap2
  policy : p.PolicyOk

inductive CollState where
  | idle                                   -- about to Consume
  | reading (rec size got : Nat)           -- collecting answers for an entry
  | peeking                                -- foldfilter's surplus-output test
  | finished
  | failed                                 -- exception: surplus output / child ended early
  deriving Repr, DecidableEq

structure State where
  -- feeder
  fRec : Nat                -- index of the current record
  fEnq : Bool               -- its entry has been produced
  fSent : Nat               -- its chunks appended to the stream buffer so far
  fSpilling : Bool          -- in the middle of SpillBuffer (blocking write of the whole buffer)
  fPoison : Bool            -- end marker produced
  fClosed : Bool            -- final flush done and child's stdin closed
  buf : List Chunk
  pipe1 : List Chunk
  -- child
  cRead : List Chunk
  cEmitted : Nat
  cEof : Bool
  pipe2 : List Chunk
  -- queue of (record, size); `none` is the end marker
  queue : List (Option (Nat × Nat))
  -- collector
  coll : CollState
  got : List Chunk          -- every answer consumed so far, in order
  out : List Nat            -- records emitted, in order
  deriving Repr, DecidableEq

def init : State :=
  { fRec := 0, fEnq := false, fSent := 0, fSpilling := false, fPoison := false, fClosed := false,
    buf := [], pipe1 := [], cRead := [], cEmitted := 0, cEof := false, pipe2 := [], queue := [],
    coll := .idle, got := [], out := [] }

inductive Label where
  | fEnqueue | fAppend | fSpillStart | fSpill | fSpillEnd | fNext | fPoison | fClose
  | cRead | cEof | cWrite
  | kConsume | kRead | kOut | kPeekData | kPeekEof
  deriving Repr, DecidableEq

def nrec (p : Params) : Nat := p.sizes.length
def sizeOf (p : Params) (i : Nat) : Nat := p.sizes.getD i 0
def pending (p : Params) (s : State) : Nat := p.release s.cRead.length s.cEof - s.cEmitted

/-- `step p s l` = the successor of `s` under label `l`, or `none` if `l` is not enabled. -/
def step (p : Params) (s : State) : Label → Option State
  | .fEnqueue =>
    if s.fRec < nrec p ∧ !s.fEnq ∧ !s.fSpilling ∧
        (if p.enqueueFirst then s.fSent = 0 else s.fSent = sizeOf p s.fRec) then
      some { s with fEnq := true, queue := s.queue ++ [some (s.fRec, sizeOf p s.fRec)] }
    else none
  | .fAppend =>
    if s.fRec < nrec p ∧ s.fSent < sizeOf p s.fRec ∧ !s.fSpilling ∧ (p.enqueueFirst → s.fEnq) ∧
        s.buf.length < p.bufCap then
      some { s with buf := s.buf ++ [(s.fRec, s.fSent)], fSent := s.fSent + 1 }
    else none
  | .fSpillStart =>      -- an append finds the buffer full, or the final flush begins
    if !s.fSpilling ∧ s.buf ≠ [] ∧
        ((s.fRec < nrec p ∧ s.fSent < sizeOf p s.fRec ∧ (p.enqueueFirst → s.fEnq) ∧ s.buf.length = p.bufCap) ∨
         (s.fRec = nrec p ∧ !s.fClosed ∧ (p.poisonFirst → s.fPoison))) then
      some { s with fSpilling := true }
    else none
  | .fSpill =>
    match s.buf with
    | c :: rest => if s.fSpilling ∧ s.pipe1.length < p.cap1 then some { s with buf := rest, pipe1 := s.pipe1 ++ [c] } else none
    | [] => none
  | .fSpillEnd => if s.fSpilling ∧ s.buf = [] then some { s with fSpilling := false } else none
  | .fNext =>
    if s.fRec < nrec p ∧ s.fSent = sizeOf p s.fRec ∧ s.fEnq ∧ !s.fSpilling then
      some { s with fRec := s.fRec + 1, fEnq := false, fSent := 0 }
    else none
  | .fPoison =>
    if s.fRec = nrec p ∧ !s.fPoison ∧ !s.fSpilling ∧ (if p.poisonFirst then True else s.fClosed) then
      some { s with fPoison := true, queue := s.queue ++ [none] }
    else none
  | .fClose =>
    if s.fRec = nrec p ∧ !s.fClosed ∧ !s.fSpilling ∧ s.buf = [] ∧ (p.poisonFirst → s.fPoison) then
      some { s with fClosed := true }
    else none
  | .cRead =>
    match s.pipe1 with
    | c :: rest => if pending p s ≤ p.readAhead then some { s with pipe1 := rest, cRead := s.cRead ++ [c] } else none
    | [] => none
  | .cEof => if s.pipe1 = [] ∧ s.fClosed ∧ !s.cEof then some { s with cEof := true } else none
  | .cWrite =>
    if s.cEmitted < p.release s.cRead.length s.cEof ∧ s.pipe2.length < p.cap2 then
      match s.cRead[s.cEmitted]? with
      | some c => some { s with pipe2 := s.pipe2 ++ [c], cEmitted := s.cEmitted + 1 }
      | none => none
    else none
  | .kConsume =>
    if s.coll = .idle then
      match s.queue with
      | some (r, n) :: rest => some { s with queue := rest, coll := .reading r n 0 }
      | none :: rest => some { s with queue := rest, coll := .finished }
      | [] => none
    else none
  | .kRead =>
    match s.coll, s.pipe2 with
    | .reading r n k, c :: rest => if k < n then some { s with pipe2 := rest, got := s.got ++ [c], coll := .reading r n (k + 1) } else none
    | _, _ => none
  | .kOut =>
    match s.coll with
    | .reading r n k =>
      if k = n then some { s with out := s.out ++ [r], coll := if p.peek ∧ s.queue = [] then .peeking else .idle } else none
    | _ => none
  | .kPeekData =>     -- peek() returned because the child wrote something
    if s.coll = .peeking ∧ s.pipe2 ≠ [] then some { s with coll := if s.queue = [] then .failed else .idle } else none
  | .kPeekEof =>      -- peek() hit end of file on the child's output
    if s.coll = .peeking ∧ s.pipe2 = [] ∧ s.cEof ∧ s.cEmitted = s.cRead.length then some { s with coll := .failed } else none

def allLabels : List Label :=
  [.fEnqueue, .fAppend, .fSpillStart, .fSpill, .fSpillEnd, .fNext, .fPoison, .fClose, .cRead, .cEof, .cWrite,
   .kConsume, .kRead, .kOut, .kPeekData, .kPeekEof]

def successors (p : Params) (s : State) : List (Label × State) :=
  allLabels.filterMap (fun l => (step p s l).map (fun s' => (l, s')))

inductive Reachable (p : Params) : State → Prop where
  | init : Reachable p init
  | step {s s' : State} {l : Label} : Reachable p s → step p s l = some s' → Reachable p s'

/-- everything has been fed, answered, collected and emitted. -/
def Final (p : Params) (s : State) : Prop :=
  s.coll = .finished ∧ s.fClosed = true ∧ s.fPoison = true ∧ s.cEof = true ∧
  s.cEmitted = s.cRead.length ∧ s.pipe1 = [] ∧ s.pipe2 = [] ∧ s.queue = []

def Stuck (p : Params) (s : State) : Prop := ∀ l, step p s l = none

/-- run a trace of labels (for trace acceptance): `none` at the first label that is not enabled. -/
def runTrace (p : Params) : State → List Label → Option State
  | s, [] => some s
  | s, l :: ls => match step p s l with
    | some s' => runTrace p s' ls
    | none => none

end PV.Wrapper
