import PV.Model.Table
import PV.Model.Murmur
import PV.Model.Fields
import PV.Model.Tools
/-
`substitute` (preprocess/substitute_main.cc): tab-separated lines; pieces = fields 1-2, 3-4 ("sentences"), 5 ("value"), 6-
("after").  The first line with a given sentences key is copied and its value remembered IN THE HASH TABLE ENTRY (written
through the iterator FindOrInsert returns); every later line with that key is printed with the remembered value in place of
its own.  A line with fewer than six fields is an error.  `none` = abnormal termination.
The table stores Nat values: the value is the position of the remembered string in `stored` (the string pool).
-/
namespace PV.Substitute
open PV.Table PV.Fields PV.Tools

def ranges : List FieldRange := [⟨0, 2⟩, ⟨2, 4⟩, ⟨4, 5⟩, ⟨5, kInf⟩]

/-- MurmurHashNative(sentences) with the default seed 0 -/
def key (sentences : Line) : Nat := (PV.Murmur.hash64A sentences (seedOf 0)).toNat

/-- what is printed for a line whose key was seen before -/
def replaced (p0 p1 v p3 : Line) : Line := p0 ++ [9] ++ p1 ++ [9] ++ v ++ [9] ++ p3

def loop : Table → List Line → List Line → Option (List Line)
  | _, _, [] => some []
  | t, stored, l :: ls =>
    match rangeFields l ranges 9 with
    | [p0, p1, p2, p3] =>
      match findOrInsert t (key p1, stored.length) with
      | none => none
      | some (true, e, t') =>
        (loop t' stored ls).map (fun rest => replaced p0 p1 (stored.getD e.2 []) p3 :: rest)
      | some (false, _, t') =>
        (loop t' (stored ++ [p2]) ls).map (fun rest => l :: rest)
    | _ => none                                   -- "Did not get all fields in line"

def substitute (ls : List Line) : Option (List Line) := loop init [] ls

/-! ### specification: no table, an association list of (key, first value) -/

def specGo : List (Nat × Line) → List Line → Option (List Line)
  | _, [] => some []
  | seen, l :: ls =>
    match rangeFields l ranges 9 with
    | [p0, p1, p2, p3] =>
      match seen.find? (·.1 == key p1) with
      | some (_, v) => (specGo seen ls).map (fun rest => replaced p0 p1 v p3 :: rest)
      | none => (specGo ((key p1, p2) :: seen) ls).map (fun rest => l :: rest)
    | _ => none

def spec (ls : List Line) : Option (List Line) := specGo [] ls

end PV.Substitute
