import PV.Model.Utf8
import PV.Gen.Consts
/-
Model of preprocess/foldfilter_main.cc : wrap_lines() (same variables: pos, pos_last_cut,
pos_delimiters, pos_first_delimiter, pos_cut, pos_cut_end) and the reader thread's re-join.
`DecodeUTF8` is the C12 model; a throw (ill-formed input) is `none`.  The `while`/`for` loops
have no syntactic bound, so they take fuel; `none` also stands for "fuel exhausted" and the
theorems show it is not reached for valid UTF-8.
-/
namespace PV.Fold

structure Opts where
  width : Nat                 -- column_width
  keep : Bool                 -- keep_delimiters_in_lines  (false = -s)
  delims : List Nat           -- delimiters, in order of preference
  deriving Repr

def slice (line : List UInt8) (a b : Nat) : List UInt8 := (line.take b).drop a

/-- `find_delimiter`: index in the list or `none` (= not_found). -/
def findDelimiter (ds : List Nat) (c : Nat) : Option Nat :=
  match ds.findIdx? (· == c) with
  | some i => some i
  | none => none

/-- The peek-ahead `for` loop after a cut position: extend `pos_cut_end` over the delimiters
    that follow (in keep mode only while the piece stays within the width). -/
def peek (line : List UInt8) (o : Opts) (last : Nat) : Nat → Nat → Option Nat
  | 0, _ => none
  | fuel + 1, pce =>
    if pce ≥ line.length then some pce
    else if o.keep && pce - last ≥ o.width then some pce
    else match PV.Utf8.decode (line.drop pce) with
      | none => none
      | some (ch, cl) =>
        if o.keep && pce + cl - last > o.width then some pce
        else if (findDelimiter o.delims ch).isNone then some pce
        else peek line o last fuel (pce + cl)

structure St where
  pos : Nat
  last : Nat                  -- pos_last_cut
  pd : List Nat               -- pos_delimiters
  pfd : Nat                   -- pos_first_delimiter
  out : List (List UInt8 × List UInt8)   -- (piece, withheld delimiter run), reversed

/-- the main `while (pos < length)` loop. -/
def loop (line : List UInt8) (o : Opts) : Nat → St → Option St
  | 0, _ => none
  | fuel + 1, s =>
    if s.pos ≥ line.length then some s
    else match PV.Utf8.decode (line.drop s.pos) with
      | none => none
      | some (ch, cl) =>
        let pos := s.pos + cl
        let (pd, pfd) := match findDelimiter o.delims ch with
          | some i => (s.pd.set i s.pfd, s.pfd)
          | none => (s.pd, pos)
        -- a code point that does not fit any more starts the next piece (unless it is alone)
        let overshoot := pos - s.last > o.width && pos - cl > s.last
        let pos := if overshoot then pos - cl else pos
        if !overshoot && pos - s.last < o.width then
          loop line o fuel { s with pos := pos, pd := pd, pfd := pfd }
        else
          let posCut := match pd.find? (· > s.last) with
            | some p => p
            | none => pos
          match peek line o s.last (line.length + 1) posCut with
          | none => none
          | some pce =>
            let item := if o.keep then (slice line s.last pce, [])
                        else (slice line s.last posCut, slice line posCut pce)
            loop line o fuel { pos := pce, last := pce, pd := pd, pfd := pfd, out := item :: s.out }

/-- `wrap_lines`: the pieces sent to the child, each with the delimiter run withheld after it. -/
def wrapLines (line : List UInt8) (o : Opts) : Option (List (List UInt8 × List UInt8)) :=
  match loop line o ((line.length + 1) * (line.length + 2)) ⟨0, 0, List.replicate o.delims.length 0, 0, []⟩ with
  | none => none
  | some s =>
    let out := if s.last < s.pos || s.pos == 0 then (slice line s.last s.pos, []) :: s.out else s.out
    some out.reverse

/-- the reader thread: one output line per input line = the child's answers for that line's
    pieces re-joined with the withheld delimiters.  The child's answer is read back as a record
    with `strip_cr = Gen.foldfilterCollectStripCr`. -/
def stripCr (r : List UInt8) : List UInt8 :=
  if PV.Gen.foldfilterCollectStripCr && r.getLast? == some 13 then r.dropLast else r

def rejoin (child : List UInt8 → List UInt8) (ps : List (List UInt8 × List UInt8)) : List UInt8 :=
  ps.flatMap (fun (p, d) => stripCr (child p) ++ d)

/-- foldfilter on a list of input lines with a line-to-line child; `none` = abnormal termination. -/
def foldfilter (child : List UInt8 → List UInt8) (o : Opts) : List (List UInt8) → Option (List (List UInt8))
  | [] => some []
  | l :: ls =>
    match wrapLines l o, foldfilter child o ls with
    | some ps, some rest => some (rejoin child ps :: rest)
    | _, _ => none

end PV.Fold
