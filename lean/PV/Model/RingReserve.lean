import PV.Model.Queues
/-
BlockQueue + ThreadedBufferedStream with BOTH kinds of output operation: `write()` and the in-place `operator<<`
path (`Ensure(n)` / `AdvanceTo`), which may hand a SHORT block to the writer thread.  Same LTS as PV.Queues.Ring
otherwise (that one has `write()` only); this is the version the trace acceptor uses.
-/
namespace PV.Queues

namespace Ring2

/-- one output operation on the stream.  `reserve = 0`: `write(data, n)`, which is split over as many blocks as it
    needs.  `reserve > 0`: `operator<<` of a number or a character: `Ensure(reserve)` hands the current block over
    (short) when fewer than `reserve` bytes are left in it, then the text (at most `reserve` bytes) is written in
    place and `AdvanceTo` moves `current_`. -/
structure Call where
  reserve : Nat
  bytes : List UInt8
  deriving Repr, DecidableEq

structure Params where
  nBlocks : Nat                   -- kBlocks
  blockSize : Nat                 -- kBlockSize
  calls : List Call               -- the operations made on the stream, then it is destroyed

/-- what the real code guarantees about its `Ensure` amounts (`kBlockSize >= kToStringMaxBytes`). -/
def Params.WF (p : Params) : Prop :=
  ∀ c ∈ p.calls, c.reserve ≤ p.blockSize ∧ (0 < c.reserve → c.bytes.length ≤ c.reserve)

def allBytes (p : Params) : List UInt8 := (p.calls.map (·.bytes)).flatten

inductive PPc where
  | acquiring                     -- inside failure_.wait() (constructor / SuccessNext)
  | ready                         -- holds a block, between operations
  | posted                        -- SuccessNext: cursor advanced, success_.post() done, about to wait
  | joining                       -- destructor: poison queued and the last failure_.wait() passed; in thread_.join()
  | joined                        -- destructor finished (after thread_.join())
  deriving Repr, DecidableEq

inductive CPc where
  | acquiring | holding | released | exited
  deriving Repr, DecidableEq

structure State where
  output : Nat                    -- output_ semaphore (blocks ready for the writer thread)
  trash : Nat                     -- trash_ semaphore (blocks free for the caller)
  blocks : List (List UInt8)      -- contents; the block's `size` is the length
  pCur : Nat                      -- caller's block index
  pPc : PPc
  fill : List UInt8               -- bytes in the caller's current block (current_ - Base())
  data : List UInt8               -- rest of the operation in progress
  need : Nat                      -- pending Ensure(need) of the operation in progress (0 = none)
  calls : List Call               -- operations still to come
  poisoned : Bool                 -- destructor has queued the empty block
  cCur : Nat
  cPc : CPc
  file : List UInt8               -- what the Writer has been given
  bad : Bool                      -- both sides held the same block
  deriving Repr, DecidableEq

def init (p : Params) : State :=
  { output := 0, trash := p.nBlocks, blocks := List.replicate p.nBlocks [], pCur := 0, pPc := .acquiring, fill := [], data := [], need := 0,
    calls := p.calls, poisoned := false, cCur := 0, cPc := .acquiring, file := [], bad := false }

inductive Label where
  | pAcquire        -- failure_.wait() succeeds: the caller holds block pCur
  | pCall           -- start the next write() call
  | pCopy           -- memcpy what fits into the current block
  | pSpill          -- SpillBuffer / poison: set size, advance, success_.post()
  | pJoin           -- thread_.join() returns
  | cAcquire        -- the writer thread's failure_.wait() (= output_) succeeds
  | cWrite          -- writer_.write(base, size) or exit on size 0
  | cRelease        -- SuccessNext: advance, success_.post() (= trash_)
  deriving Repr, DecidableEq

def next (p : Params) (i : Nat) : Nat := if i + 1 = p.nBlocks then 0 else i + 1

def step (p : Params) (s : State) : Label → Option State
  | .pAcquire =>
    if s.pPc = .acquiring ∧ 0 < s.trash then
      some { s with trash := s.trash - 1, pPc := .ready, fill := [],
                    bad := s.bad || decide (s.cPc = .holding ∧ s.cCur = s.pCur) }
    else if s.pPc = .posted ∧ 0 < s.trash then
      some { s with trash := s.trash - 1, pPc := if s.poisoned then .joining else .ready, fill := [],
                    bad := s.bad || decide (s.cPc = .holding ∧ s.cCur = s.pCur) }
    else none
  | .pCall =>
    match s.calls with
    | c :: rest =>
      if s.pPc = .ready ∧ s.data = [] ∧ s.need = 0 ∧ !s.poisoned then some { s with data := c.bytes, need := c.reserve, calls := rest } else none
    | [] => none
  | .pCopy =>
    if s.need = 0 then
      if s.pPc = .ready ∧ s.data ≠ [] ∧ s.fill.length < p.blockSize then
        let room := p.blockSize - s.fill.length
        some { s with fill := s.fill ++ s.data.take room, data := s.data.drop room }
      else none
    else
      -- Ensure(need) found room: the text is written in place, AdvanceTo
      if s.pPc = .ready ∧ s.need ≤ p.blockSize - s.fill.length then
        some { s with fill := s.fill ++ s.data, data := [], need := 0 }
      else none
  | .pSpill =>
    if s.pPc = .ready ∧ !s.poisoned then
      if s.need = 0 ∧ s.data ≠ [] ∧ s.fill.length = p.blockSize then
        -- write(): the block is full
        some { s with blocks := s.blocks.set s.pCur s.fill, pCur := next p s.pCur, output := s.output + 1, pPc := .posted }
      else if 0 < s.need ∧ p.blockSize - s.fill.length < s.need ∧ s.fill ≠ [] then
        -- Ensure(need): not enough room, the (short) block is handed over
        some { s with blocks := s.blocks.set s.pCur s.fill, pCur := next p s.pCur, output := s.output + 1, pPc := .posted }
      else if s.need = 0 ∧ s.data = [] ∧ s.calls = [] ∧ s.fill ≠ [] then
        -- destructor: SpillBuffer of the remainder
        some { s with blocks := s.blocks.set s.pCur s.fill, pCur := next p s.pCur, output := s.output + 1, pPc := .posted }
      else if s.need = 0 ∧ s.data = [] ∧ s.calls = [] ∧ s.fill = [] then
        -- destructor: poison (size 0)
        some { s with blocks := s.blocks.set s.pCur [], pCur := next p s.pCur, output := s.output + 1, pPc := .posted, poisoned := true }
      else none
    else none
  | .pJoin => if s.pPc = .joining ∧ s.cPc = .exited then some { s with pPc := .joined } else none
  | .cAcquire =>
    if s.cPc = .acquiring ∧ 0 < s.output then
      some { s with output := s.output - 1, cPc := .holding, bad := s.bad || decide (s.pPc = .ready ∧ s.pCur = s.cCur) }
    else none
  | .cWrite =>
    if s.cPc = .holding then
      let b := s.blocks.getD s.cCur []
      if b = [] then some { s with cPc := .exited, output := s.output + 1 }   -- ~Lease: failure_.post()
      else some { s with file := s.file ++ b, cPc := .released }
    else none
  | .cRelease =>
    if s.cPc = .released then some { s with cCur := next p s.cCur, trash := s.trash + 1, cPc := .acquiring } else none

inductive Reachable (p : Params) : State → Prop where
  | init : Reachable p (init p)
  | step {s s' : State} {l : Label} : Reachable p s → step p s l = some s' → Reachable p s'

def Final (s : State) : Prop := s.pPc = .joined

def runTrace (p : Params) : State → List Label → Option State
  | s, [] => some s
  | s, l :: ls => match step p s l with
    | some s' => runTrace p s' ls
    | none => none

end Ring2

end PV.Queues
