import PV.Spec.Records
/-
Model of util/file_piece.cc : ReadLine / ReadLineOrEOF over the two backings
  * read mode  (ReadShift: refill, memmove or double the buffer; source = an adversary that
    decides how many bytes every read() returns), and
  * mmap mode  (MMapShift: sliding page-aligned window over a regular file, doubling).
`ReadLine` itself is written once, over an abstract window (buffer contents from
`data_.begin()` to `position_end_`, `position_` as an index, `at_end_`), parameterised by the
backing's `Shift`.
-/
namespace PV.Reader

/-! ### read mode -/

structure RState where
  buf : List UInt8      -- bytes [data_.begin(), position_end_)
  pos : Nat             -- position_ - data_.begin()
  cap : Nat             -- default_map_size_
  atEnd : Bool
  src : List UInt8      -- bytes the source has not delivered yet
  sched : List Nat      -- adversary: what the next read() calls return (clamped to 1..request)
  deriving Repr

/-- one `read()`/`Read()` call asking for `amount > 0` bytes: returns between 1 and `amount`
    bytes while data remains (the schedule chooses; exhausted schedule = full reads), 0 at EOF. -/
def osRead (amount : Nat) (src : List UInt8) (sched : List Nat) : List UInt8 × List UInt8 × List Nat :=
  let want := match sched with
    | [] => amount
    | n :: _ => max 1 (min n amount)
  (src.take want, src.drop want, sched.tail)

/-- `FilePiece::ReadShift` -/
def readShift (s : RState) : RState :=
  -- start at the beginning of the buffer if there is nothing useful in it
  let (buf, pos) := if s.pos == s.buf.length then ([], 0) else (s.buf, s.pos)
  let alreadyRead := buf.length
  let (buf, pos, cap) :=
    if alreadyRead == s.cap then
      if pos == 0 then (buf, pos, s.cap * 2)          -- buffer too small: HugeRealloc to double
      else (buf.drop pos, 0, s.cap)                    -- memmove the unread part to the front
    else (buf, pos, s.cap)
  let (got, src, sched) := osRead (cap - buf.length) s.src s.sched
  { buf := buf ++ got, pos := pos, cap := cap, atEnd := got.isEmpty, src := src, sched := sched }

/-! ### mmap mode -/

structure MState where
  file : List UInt8     -- the regular file
  page : Nat            -- kPageSize
  cap : Nat             -- default_map_size_
  mappedOff : Nat       -- mapped_offset_
  winLen : Nat          -- size of the current mapping (0 before the first MMapShift)
  pos : Nat             -- position_ - data_.begin()
  atEnd : Bool
  mapped : Bool         -- position_ != NULL
  deriving Repr

def MState.window (s : MState) : List UInt8 := (s.file.drop s.mappedOff).take s.winLen

/-- `FilePiece::MMapShift(desired_begin)` with `desired_begin = position_ - data_.begin() + mapped_offset_` -/
def mmapShift (s : MState) : MState :=
  let desired := s.pos + s.mappedOff
  let ignore := desired % s.page
  -- duplicate request for Shift means give more data
  let cap := if s.mapped && s.pos == ignore then s.cap * 2 else s.cap
  let mo := desired - ignore
  let total := s.file.length
  let (atEnd, size) := if cap ≥ total - mo then (true, total - mo) else (s.atEnd, cap)
  { s with cap := cap, mappedOff := mo, winLen := size, pos := ignore, atEnd := atEnd, mapped := true }

/-! ### ReadLine over an abstract backing -/

structure Backing (σ : Type) where
  buf : σ → List UInt8
  pos : σ → Nat
  atEnd : σ → Bool
  setPos : σ → Nat → σ
  shift : σ → σ

def readBacking : Backing RState :=
  { buf := (·.buf), pos := (·.pos), atEnd := (·.atEnd), setPos := fun s p => { s with pos := p }, shift := readShift }

def mmapBacking : Backing MState :=
  { buf := MState.window, pos := (·.pos), atEnd := (·.atEnd), setPos := fun s p => { s with pos := p }, shift := mmapShift }

inductive LineRes (σ : Type) where
  | line (l : List UInt8) (s : σ)
  | eof (s : σ)                -- EndOfFileException
  | diverged

/-- `FilePiece::ReadLine(delim, strip_cr)`; `fuel` bounds the number of `Shift()` calls. -/
def readLine {σ : Type} (B : Backing σ) (delim : UInt8) (stripCr : Bool) : Nat → Nat → σ → LineRes σ
  | 0, _, _ => .diverged
  | fuel + 1, skip, s =>
    let buf := B.buf s
    let pos := B.pos s
    let i := pos + skip + ((buf.drop (pos + skip)).takeWhile (· != delim)).length   -- std::find
    if i < buf.length then
      let subtractCr := if stripCr && i > pos && buf.getD (i - 1) 0 == 13 then 1 else 0
      .line ((buf.take (i - subtractCr)).drop pos) (B.setPos s (i + 1))
    else if B.atEnd s then
      if pos == buf.length then .eof s                    -- Shift() throws
      else .line (buf.drop pos) (B.setPos s buf.length)   -- Consume(position_end_)
    else readLine B delim stripCr fuel (buf.length - pos) (B.shift s)

/-- call ReadLine until it reports end of input; `none` = diverged. -/
def readAll {σ : Type} (B : Backing σ) (delim : UInt8) (stripCr : Bool) (shiftFuel : Nat) : Nat → σ → Option (List (List UInt8) × σ)
  | 0, _ => none
  | fuel + 1, s =>
    match readLine B delim stripCr shiftFuel 0 s with
    | .diverged => none
    | .eof s' => some ([], s')
    | .line l s' =>
      match readAll B delim stripCr shiftFuel fuel s' with
      | none => none
      | some (ls, s'') => some (l :: ls, s'')

/-- FilePiece over a pipe / compressed stream: `InitializeNoRead`, `TransitionToRead`, one `Shift()`.
    `cap0` is `default_map_size_` (a positive multiple of the page size in the real code). -/
def initRead (cap0 : Nat) (src : List UInt8) (sched : List Nat) : RState :=
  readShift { buf := [], pos := 0, cap := cap0, atEnd := false, src := src, sched := sched }

/-- FilePiece over a regular file positioned at `start`: `mapped_offset_ = start`, one `Shift()`. -/
def initMmap (file : List UInt8) (page cap0 start : Nat) : MState :=
  mmapShift { file := file, page := page, cap := cap0, mappedOff := start, winLen := 0, pos := 0, atEnd := false, mapped := false }

/-- all records a tool sees from a pipe. -/
def recordsRead (delim : UInt8) (stripCr : Bool) (cap0 : Nat) (src : List UInt8) (sched : List Nat) : Option (List (List UInt8)) :=
  (readAll readBacking delim stripCr (src.length + 2) (src.length + 2) (initRead cap0 src sched)).map (·.1)

/-- all records a tool sees from a regular file (mmap), starting at byte offset `start`. -/
def recordsMmap (delim : UInt8) (stripCr : Bool) (file : List UInt8) (page cap0 start : Nat) : Option (List (List UInt8)) :=
  (readAll mmapBacking delim stripCr (file.length + 2) (file.length + 2) (initMmap file page cap0 start)).map (·.1)

end PV.Reader
