import PV.Gen.Consts
/-
Labelled transition systems for the thread hand-off queues of util/pcqueue.hh and
util/threaded_buffered_stream.hh (C16), at the granularity of semaphore operations and of the
begin/end of every slot, page or block access, so that "never hand out a slot that is still in
use by the other side" is a state predicate (`bad`).
-/
namespace PV.Queues

abbrev Item := Nat × Nat      -- (producer, sequence number)

/-! ## PCQueue<T>: bounded, multi-producer, multi-consumer -/
namespace PCQ

structure Params where
  cap : Nat                       -- queue size
  items : List (List Item)        -- what each producer produces, in its own order
  quotas : List Nat               -- how many items each consumer consumes

inductive Pc where
  | idle        -- not inside Produce/Consume
  | waited      -- passed the semaphore wait
  | inSlot      -- holds the mutex, is copying to / from the slot
  | done        -- released the mutex, about to post
  deriving Repr, DecidableEq

structure Prod where
  pc : Pc
  next : Nat                      -- index of the item it is producing / will produce next
  deriving Repr, DecidableEq

structure Cons where
  pc : Pc
  taken : Nat                     -- completed Consume calls
  got : List Item                 -- items received, in order
  deriving Repr, DecidableEq

structure State where
  empty : Nat                     -- empty_ semaphore
  used : Nat                      -- used_ semaphore
  slots : List (Option Item)      -- storage_ ; `none` = no live value
  produceAt : Nat
  consumeAt : Nat
  pLock : Option Nat              -- holder of produce_at_mutex_
  cLock : Option Nat
  prods : List Prod
  cons : List Cons
  writes : List Item              -- ghost: items in the order they were written
  reads : List Item               -- ghost: items in the order they were read
  bad : Bool                      -- a slot was written while live or read while not live / being written
  deriving Repr, DecidableEq

def init (p : Params) : State :=
  { empty := p.cap, used := 0, slots := List.replicate p.cap none, produceAt := 0, consumeAt := 0,
    pLock := none, cLock := none, prods := p.items.map (fun _ => ⟨.idle, 0⟩),
    cons := p.quotas.map (fun _ => ⟨.idle, 0, []⟩), writes := [], reads := [], bad := false }

inductive Label where
  | pWait (i : Nat) | pEnter (i : Nat) | pLeave (i : Nat) | pPost (i : Nat)
  | cWait (j : Nat) | cEnter (j : Nat) | cLeave (j : Nat) | cPost (j : Nat)
  deriving Repr, DecidableEq

def step (p : Params) (s : State) : Label → Option State
  | .pWait i =>
    match s.prods[i]?, p.items[i]? with
    | some pr, some its =>
      if pr.pc = .idle ∧ pr.next < its.length ∧ 0 < s.empty then
        some { s with empty := s.empty - 1, prods := s.prods.set i { pr with pc := .waited } }
      else none
    | _, _ => none
  | .pEnter i =>      -- lock, begin `*produce_at_ = val`
    match s.prods[i]? with
    | some pr =>
      if pr.pc = .waited ∧ s.pLock = none then
        let live := (s.slots.getD s.produceAt none).isSome
        let beingRead := s.cLock.isSome ∧ s.consumeAt = s.produceAt
        some { s with pLock := some i, prods := s.prods.set i { pr with pc := .inSlot }, bad := s.bad || live || decide beingRead }
      else none
    | none => none
  | .pLeave i =>      -- value stored, `++produce_at_` with wrap, unlock
    match s.prods[i]?, p.items[i]? with
    | some pr, some its =>
      if pr.pc = .inSlot ∧ s.pLock = some i then
        let it := its.getD pr.next (0, 0)
        some { s with slots := s.slots.set s.produceAt (some it),
                      produceAt := if s.produceAt + 1 = p.cap then 0 else s.produceAt + 1,
                      pLock := none, writes := s.writes ++ [it], prods := s.prods.set i { pr with pc := .done } }
      else none
    | _, _ => none
  | .pPost i =>
    match s.prods[i]? with
    | some pr =>
      if pr.pc = .done then some { s with used := s.used + 1, prods := s.prods.set i { pc := .idle, next := pr.next + 1 } } else none
    | none => none
  | .cWait j =>
    match s.cons[j]?, p.quotas[j]? with
    | some c, some q =>
      if c.pc = .idle ∧ c.taken < q ∧ 0 < s.used then
        some { s with used := s.used - 1, cons := s.cons.set j { c with pc := .waited } }
      else none
    | _, _ => none
  | .cEnter j =>
    match s.cons[j]? with
    | some c =>
      if c.pc = .waited ∧ s.cLock = none then
        let dead := (s.slots.getD s.consumeAt none).isNone
        let beingWritten := s.pLock.isSome ∧ s.produceAt = s.consumeAt
        some { s with cLock := some j, cons := s.cons.set j { c with pc := .inSlot }, bad := s.bad || dead || decide beingWritten }
      else none
    | none => none
  | .cLeave j =>
    match s.cons[j]? with
    | some c =>
      if c.pc = .inSlot ∧ s.cLock = some j then
        let it := (s.slots.getD s.consumeAt none).getD (0, 0)
        some { s with slots := s.slots.set s.consumeAt none,
                      consumeAt := if s.consumeAt + 1 = p.cap then 0 else s.consumeAt + 1,
                      cLock := none, reads := s.reads ++ [it], cons := s.cons.set j { c with pc := .done, got := c.got ++ [it] } }
      else none
    | none => none
  | .cPost j =>
    match s.cons[j]? with
    | some c =>
      if c.pc = .done then some { s with empty := s.empty + 1, cons := s.cons.set j { c with pc := .idle, taken := c.taken + 1 } } else none
    | none => none

inductive Reachable (p : Params) : State → Prop where
  | init : Reachable p (init p)
  | step {s s' : State} {l : Label} : Reachable p s → step p s l = some s' → Reachable p s'

def totalItems (p : Params) : Nat := (p.items.map List.length).sum
def totalQuota (p : Params) : Nat := p.quotas.sum

/-- every producer has produced everything, every consumer has consumed its quota. -/
def Final (p : Params) (s : State) : Prop :=
  (∀ i pr, s.prods[i]? = some pr → pr.pc = .idle ∧ pr.next = (p.items.getD i []).length) ∧
  (∀ j c, s.cons[j]? = some c → c.pc = .idle ∧ c.taken = p.quotas.getD j 0)

def runTrace (p : Params) : State → List Label → Option State
  | s, [] => some s
  | s, l :: ls => match step p s l with
    | some s' => runTrace p s' ls
    | none => none

end PCQ

/-! ## UnboundedSingleQueue<T>: single producer, single consumer, linked pages -/
namespace USQ

structure Params where
  pageSize : Nat                  -- entries per page (1023 in the code)
  n : Nat                         -- items produced / consumed

inductive PPc where | idle | paged | wrote deriving Repr, DecidableEq
inductive CPc where | idle | waited | paged deriving Repr, DecidableEq

structure State where
  written : List Nat              -- items written, in order (item k is the number k)
  linked : Nat                    -- pages 0 .. linked-1 exist and are linked from their predecessor
  pPage : Nat                     -- the producer's filling_ page
  valid : Nat                     -- valid_ semaphore
  pPc : PPc
  produced : Nat                  -- completed Produce calls
  r : Nat                         -- entries read
  cPage : Nat                     -- the consumer's reading_ page
  freed : Nat                     -- pages 0 .. freed-1 have been deleted
  cPc : CPc
  got : List Nat
  bad : Bool                      -- followed a null `next`, touched a freed page, read an unwritten entry
  deriving Repr, DecidableEq

def init : State :=
  { written := [], linked := 1, pPage := 0, valid := 0, pPc := .idle, produced := 0, r := 0, cPage := 0, freed := 0,
    cPc := .idle, got := [], bad := false }

inductive Label where
  | pPage | pWrite | pPost | cWait | cPage | cRead
  deriving Repr, DecidableEq

def step (p : Params) (s : State) : Label → Option State
  | .pPage =>       -- `if (filling_current_ == filling_end_)` : allocate, link, SetFilling — or nothing to do
    if s.pPc = .idle ∧ s.produced < p.n then
      let w := s.written.length
      if w = (s.pPage + 1) * p.pageSize then
        some { s with linked := s.linked + 1, pPage := s.pPage + 1, pPc := .paged }
      else some { s with pPc := .paged }
    else none
  | .pWrite =>      -- `*(filling_current_++) = val`
    if s.pPc = .paged then
      some { s with written := s.written ++ [s.written.length], pPc := .wrote, bad := s.bad || decide (s.pPage < s.freed) }
    else none
  | .pPost => if s.pPc = .wrote then some { s with valid := s.valid + 1, pPc := .idle, produced := s.produced + 1 } else none
  | .cWait => if s.cPc = .idle ∧ s.got.length < p.n ∧ 0 < s.valid then some { s with valid := s.valid - 1, cPc := .waited } else none
  | .cPage =>       -- `if (reading_current_ == reading_end_) SetReading(reading_->next)` (frees the old page)
    if s.cPc = .waited then
      if s.r = (s.cPage + 1) * p.pageSize then
        some { s with cPage := s.cPage + 1, freed := s.cPage + 1, cPc := .paged, bad := s.bad || decide (s.linked ≤ s.cPage + 1) }
      else some { s with cPc := .paged }
    else none
  | .cRead =>
    if s.cPc = .paged then
      match s.written[s.r]? with
      | some x => some { s with r := s.r + 1, got := s.got ++ [x], cPc := .idle }
      | none => some { s with r := s.r + 1, got := s.got ++ [0], cPc := .idle, bad := true }
    else none

inductive Reachable (p : Params) : State → Prop where
  | init : Reachable p init
  | step {s s' : State} {l : Label} : Reachable p s → step p s l = some s' → Reachable p s'

def Final (p : Params) (s : State) : Prop := s.pPc = .idle ∧ s.produced = p.n ∧ s.cPc = .idle ∧ s.got.length = p.n

def runTrace (p : Params) : State → List Label → Option State
  | s, [] => some s
  | s, l :: ls => match step p s l with
    | some s' => runTrace p s' ls
    | none => none

end USQ

/-! ## BlockQueue + ThreadedBufferedStream: ring of blocks between a writer thread and the caller -/
namespace Ring

structure Params where
  nBlocks : Nat                   -- kBlocks
  blockSize : Nat                 -- kBlockSize
  calls : List (List UInt8)       -- the write() calls made on the stream, then it is destroyed

inductive PPc where
  | acquiring                     -- inside failure_.wait() (constructor / SuccessNext)
  | ready                         -- holds a block, between operations
  | posted                        -- SuccessNext: cursor advanced, success_.post() done, about to wait
  | joining                       -- destructor: poison queued and the last failure_.wait() passed; in thread_.join()
  | joined                        -- destructor finished (after thread_.join())
  deriving Repr, DecidableEq

inductive CPc where
  | acquiring | holding | released | exited
  deriving Repr, DecidableEq

structure State where
  output : Nat                    -- output_ semaphore (blocks ready for the writer thread)
  trash : Nat                     -- trash_ semaphore (blocks free for the caller)
  blocks : List (List UInt8)      -- contents; the block's `size` is the length
  pCur : Nat                      -- caller's block index
  pPc : PPc
  fill : List UInt8               -- bytes in the caller's current block (current_ - Base())
  data : List UInt8               -- rest of the write() call in progress
  calls : List (List UInt8)       -- write() calls still to come
  poisoned : Bool                 -- destructor has queued the empty block
  cCur : Nat
  cPc : CPc
  file : List UInt8               -- what the Writer has been given
  bad : Bool                      -- both sides held the same block
  deriving Repr, DecidableEq

def init (p : Params) : State :=
  { output := 0, trash := p.nBlocks, blocks := List.replicate p.nBlocks [], pCur := 0, pPc := .acquiring, fill := [], data := [],
    calls := p.calls, poisoned := false, cCur := 0, cPc := .acquiring, file := [], bad := false }

inductive Label where
  | pAcquire        -- failure_.wait() succeeds: the caller holds block pCur
  | pCall           -- start the next write() call
  | pCopy           -- memcpy what fits into the current block
  | pSpill          -- SpillBuffer / poison: set size, advance, success_.post()
  | pJoin           -- thread_.join() returns
  | cAcquire        -- the writer thread's failure_.wait() (= output_) succeeds
  | cWrite          -- writer_.write(base, size) or exit on size 0
  | cRelease        -- SuccessNext: advance, success_.post() (= trash_)
  deriving Repr, DecidableEq

def next (p : Params) (i : Nat) : Nat := if i + 1 = p.nBlocks then 0 else i + 1

def step (p : Params) (s : State) : Label → Option State
  | .pAcquire =>
    if s.pPc = .acquiring ∧ 0 < s.trash then
      some { s with trash := s.trash - 1, pPc := .ready, fill := [],
                    bad := s.bad || decide (s.cPc = .holding ∧ s.cCur = s.pCur) }
    else if s.pPc = .posted ∧ 0 < s.trash then
      some { s with trash := s.trash - 1, pPc := if s.poisoned then .joining else .ready, fill := [],
                    bad := s.bad || decide (s.cPc = .holding ∧ s.cCur = s.pCur) }
    else none
  | .pCall =>
    match s.calls with
    | c :: rest => if s.pPc = .ready ∧ s.data = [] ∧ !s.poisoned then some { s with data := c, calls := rest } else none
    | [] => none
  | .pCopy =>
    if s.pPc = .ready ∧ s.data ≠ [] ∧ s.fill.length < p.blockSize then
      let room := p.blockSize - s.fill.length
      some { s with fill := s.fill ++ s.data.take room, data := s.data.drop room }
    else none
  | .pSpill =>
    if s.pPc = .ready ∧ !s.poisoned then
      if s.data ≠ [] ∧ s.fill.length = p.blockSize then
        -- write(): the block is full
        some { s with blocks := s.blocks.set s.pCur s.fill, pCur := next p s.pCur, output := s.output + 1, pPc := .posted }
      else if s.data = [] ∧ s.calls = [] ∧ s.fill ≠ [] then
        -- destructor: SpillBuffer of the remainder
        some { s with blocks := s.blocks.set s.pCur s.fill, pCur := next p s.pCur, output := s.output + 1, pPc := .posted }
      else if s.data = [] ∧ s.calls = [] ∧ s.fill = [] then
        -- destructor: poison (size 0)
        some { s with blocks := s.blocks.set s.pCur [], pCur := next p s.pCur, output := s.output + 1, pPc := .posted, poisoned := true }
      else none
    else none
  | .pJoin => if s.pPc = .joining ∧ s.cPc = .exited then some { s with pPc := .joined } else none
  | .cAcquire =>
    if s.cPc = .acquiring ∧ 0 < s.output then
      some { s with output := s.output - 1, cPc := .holding, bad := s.bad || decide (s.pPc = .ready ∧ s.pCur = s.cCur) }
    else none
  | .cWrite =>
    if s.cPc = .holding then
      let b := s.blocks.getD s.cCur []
      if b = [] then some { s with cPc := .exited, output := s.output + 1 }   -- ~Lease: failure_.post()
      else some { s with file := s.file ++ b, cPc := .released }
    else none
  | .cRelease =>
    if s.cPc = .released then some { s with cCur := next p s.cCur, trash := s.trash + 1, cPc := .acquiring } else none

inductive Reachable (p : Params) : State → Prop where
  | init : Reachable p (init p)
  | step {s s' : State} {l : Label} : Reachable p s → step p s l = some s' → Reachable p s'

def Final (s : State) : Prop := s.pPc = .joined

def runTrace (p : Params) : State → List Label → Option State
  | s, [] => some s
  | s, l :: ls => match step p s l with
    | some s' => runTrace p s' ls
    | none => none

end Ring

end PV.Queues
