import PV.Gen.Status
/-
Model of exit-status propagation (C11): a tool's `main` returns `Wait(child)`; the kernel reports
`return value mod 256` as the exit status; an uncaught exception ends in `terminate()` = SIGABRT.
`Wait()`'s values come from the generated table (what the built code really returned).
-/
namespace PV.Status

/-- the process exit status seen by the parent shell for `return r` from main. -/
def processExit (r : Int) : Int := r % 256

inductive ChildEnd where
  | exited (code : Nat)
  | signalled (sig : Nat)
  deriving Repr, DecidableEq

/-- `preprocess::Wait(child)` as tabulated from the build. -/
def waitReturn : ChildEnd → Option Int
  | .exited c => (PV.Gen.waitExited.find? (·.1 == c)).map (·.2)
  | .signalled s => (PV.Gen.waitSignalled.find? (·.1 == s)).map (·.2)

inductive ToolEnd where
  | returned (r : Int)     -- main returned r
  | terminated             -- uncaught exception -> std::terminate -> SIGABRT
  deriving Repr, DecidableEq

/-- 0 = success as seen by the caller. -/
def observedSuccess : ToolEnd → Bool
  | .returned r => processExit r == 0
  | .terminated => false

/-- a wrapper (cache, foldfilter, b64filter): if all threads finished normally it returns
    `Wait(child)`; if a thread hit an error (write to the child failed, child output ended early,
    surplus output) the exception is uncaught. -/
def wrapperEnd (threadsOk : Bool) (child : ChildEnd) : Option ToolEnd :=
  if threadsOk then (waitReturn child).map .returned else some .terminated

/-- an iostream tool: `main` returns `ret` where the code decides `ret` from the stream state. -/
def iostreamToolEnd (coutFailed : Bool) (checksStream : Bool) : ToolEnd :=
  .returned (if coutFailed && checksStream then 1 else 0)

end PV.Status
