/-
Model of util/probing_hash_table.hh : AutoProbing<Entry, IdentityHash> over Power2Mod with
invalid key 0 (the seen-set of dedupe / subtract_lines / commoncrawl_dedupe and the vocab).
Entries are (key, value); key 0 marks an empty bucket.  Probing loops have no syntactic bound
in the C++, so they take fuel and return `none` ("diverged") when it runs out; the theorems show
`none` is unreachable.  `none` also stands for ProbingSizeException (`++entries_ >= buckets_`).
-/
namespace PV.Table

abbrev Entry := Nat × Nat

structure Table where
  slots : Array Entry
  mask : Nat
  entries : Nat
  threshold : Nat
  deriving Repr

/-- `std::min<size_t>(buckets - 1, buckets * 0.75)` -/
def thresholdOf (buckets : Nat) : Nat := min (buckets - 1) (buckets * 3 / 4)

/-- AutoProbing(initial_size = 5): `Size(5, 1.4)` = RoundBuckets(max(6, 7)) = 8 buckets, zero filled. -/
def initBuckets : Nat := 8
def init : Table :=
  { slots := Array.replicate initBuckets (0, 0), mask := initBuckets - 1, entries := 0,
    threshold := thresholdOf initBuckets }

def Table.buckets (t : Table) : Nat := t.slots.size
def Table.key (t : Table) (i : Nat) : Nat := (t.slots.getD i (0, 0)).1
/-- `Power2Mod::Ideal`: `hash & mask_` (IdentityHash). -/
def Table.ideal (t : Table) (k : Nat) : Nat := k &&& t.mask
/-- `Power2Mod::Next`: `(it - begin + 1) & mask_`. -/
def Table.next (t : Table) (i : Nat) : Nat := (i + 1) &&& t.mask

/-- the probe loop shared by FindOrInsert / UnsafeMutableFind / Find: walk from `i` until the
    key or an empty bucket is seen.  `some (true, i)` found at i, `some (false, i)` empty at i. -/
def probe (t : Table) (k : Nat) : Nat → Nat → Option (Bool × Nat)
  | 0, _ => none
  | fuel + 1, i =>
    let got := t.key i
    if got == k then some (true, i)
    else if got == 0 then some (false, i)
    else probe t k fuel (t.next i)

/-- `UncheckedInsert`: first empty bucket from the ideal one. -/
def firstEmpty (t : Table) : Nat → Nat → Option Nat
  | 0, _ => none
  | fuel + 1, i => if t.key i == 0 then some i else firstEmpty t fuel (t.next i)

def uncheckedInsert (t : Table) (e : Entry) : Option Table :=
  match firstEmpty t t.buckets (t.ideal e.1) with
  | none => none
  | some i => some { t with slots := t.slots.setIfInBounds i e }

/-- phase 1 of Double: the run of occupied buckets at the start (`i != old_end && key != 0`) is
    moved to `rolled_over` and cleared. -/
def rollOver (slots : Array Entry) (oldEnd : Nat) : Nat → Nat → List Entry → Array Entry × List Entry
  | 0, _, acc => (slots, acc.reverse)
  | fuel + 1, i, acc =>
    if i != oldEnd && (slots.getD i (0, 0)).1 != 0 then
      rollOver (slots.setIfInBounds i (0, (slots.getD i (0, 0)).2)) oldEnd fuel (i + 1) ((slots.getD i (0, 0)) :: acc)
    else (slots, acc.reverse)

/-- phase 2: `for i in [0, old_end)`: take the entry out and re-insert it. -/
def reinsertAll (t : Table) (oldEnd : Nat) : Nat → Nat → Option Table
  | 0, _ => some t
  | fuel + 1, i =>
    if i == oldEnd then some t
    else
      let e := t.slots.getD i (0, 0)
      if e.1 != 0 then
        match uncheckedInsert { t with slots := t.slots.setIfInBounds i (0, e.2) } e with
        | none => none
        | some t' => reinsertAll t' oldEnd fuel (i + 1)
      else reinsertAll t oldEnd fuel (i + 1)

def insertList (t : Table) : List Entry → Option Table
  | [] => some t
  | e :: es => match uncheckedInsert t e with
    | none => none
    | some t' => insertList t' es

/-- `Double(new_base, clear_new=false)` after HugeRealloc zero-filled the new half. -/
def double (t : Table) : Option Table :=
  let oldEnd := t.buckets
  let slots := t.slots ++ Array.replicate oldEnd (0, 0)
  let mask := (t.mask <<< 1) ||| 1
  let (slots, rolled) := rollOver slots oldEnd (oldEnd + 1) 0 []
  let t1 : Table := { t with slots := slots, mask := mask }
  match reinsertAll t1 oldEnd (oldEnd + 1) 0 with
  | none => none
  | some t2 => insertList t2 rolled

/-- DoubleIfNeeded -/
def doubleIfNeeded (t : Table) : Option Table :=
  if t.entries < t.threshold then some t
  else match double t with
    | none => none
    | some t' => some { t' with threshold := thresholdOf t'.buckets }

/-- `AutoProbing::FindOrInsert(entry, out)`: returns (found?, entry now stored at `out`, table). -/
def findOrInsert (t : Table) (e : Entry) : Option (Bool × Entry × Table) :=
  match doubleIfNeeded t with
  | none => none
  | some t =>
    match probe t e.1 t.buckets (t.ideal e.1) with
    | none => none
    | some (true, i) => some (true, t.slots.getD i (0, 0), t)
    | some (false, i) =>
      if t.entries + 1 ≥ t.buckets then none           -- ProbingSizeException
      else some (false, e, { t with slots := t.slots.setIfInBounds i e, entries := t.entries + 1 })

/-- `AutoProbing::Find(key, out)` -/
def find (t : Table) (k : Nat) : Option (Option Entry) :=
  match probe t k t.buckets (t.ideal k) with
  | none => none
  | some (true, i) => some (some (t.slots.getD i (0, 0)))
  | some (false, _) => some none

inductive Op where
  | insert (k v : Nat)     -- FindOrInsert with entry (k, v)
  | find (k : Nat)
  deriving Repr, DecidableEq

inductive Ans where
  | inserted (found : Bool) (stored : Entry)
  | found (e : Option Entry)
  deriving Repr, DecidableEq

def step (t : Table) : Op → Option (Ans × Table)
  | .insert k v => (findOrInsert t (k, v)).map (fun (f, e, t') => (.inserted f e, t'))
  | .find k => (find t k).map (fun r => (.found r, t))

def run (t : Table) : List Op → Option (List Ans × Table)
  | [] => some ([], t)
  | op :: ops =>
    match step t op with
    | none => none
    | some (a, t') => (run t' ops).map (fun (as, t'') => (a :: as, t''))

end PV.Table
