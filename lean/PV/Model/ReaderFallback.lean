import PV.Model.Reader
/-
util/file_piece.cc, the mmap -> read fallback: `MMapShift` catches the failure of `mmap`, seeks the descriptor to
`desired_begin` (the first unconsumed byte), `TransitionToRead()` allocates an empty buffer of `default_map_size_`
bytes and `Shift()` goes on with `ReadShift()`.  From then on the file is read with `read(2)`.

The failure point is a parameter (`mapsLeft` = how many further `mmap` calls succeed; 0 = mmap never works), as
is the schedule of short reads afterwards.  Not modelled: `ReadCompressed::Reset` re-runs the compression-magic
detection on the bytes at `desired_begin`; the model presumes they are not a gzip/bzip2/xz magic (the
correspondence check only generates such files).  `ReadLine` keeps its `skip` across the transition although the
new buffer restarts at the beginning of the unfinished record and may be shorter than `skip`; `readLine`'s
`drop (pos + skip)` past the end is the model of `std::find(position_ + skip, position_end_)` finding nothing.
-/
namespace PV.Reader

inductive FState where
  | m (s : MState) (mapsLeft : Nat) (sched : List Nat)
  | r (s : RState)
  deriving Repr

/-- `FilePiece::Shift()` = `MMapShift` (which may fail and fall back) followed by `ReadShift` in read mode. -/
def fbShift : FState → FState
  | .r s => .r (readShift s)
  | .m s (k + 1) sched => .m (mmapShift s) k sched
  | .m s 0 sched =>
    let desired := s.pos + s.mappedOff
    let ignore := desired % s.page
    -- "duplicate request for Shift means give more data" is executed before the mapping is attempted
    let cap := if s.mapped && s.pos == ignore then s.cap * 2 else s.cap
    .r (readShift { buf := [], pos := 0, cap := cap, atEnd := false, src := s.file.drop desired, sched := sched })

def FState.buf : FState → List UInt8
  | .m s _ _ => s.window
  | .r s => s.buf

def FState.pos : FState → Nat
  | .m s _ _ => s.pos
  | .r s => s.pos

def FState.atEnd : FState → Bool
  | .m s _ _ => s.atEnd
  | .r s => s.atEnd

def FState.setPos : FState → Nat → FState
  | .m s k sc, p => .m { s with pos := p } k sc
  | .r s, p => .r { s with pos := p }

def fallbackBacking : Backing FState :=
  { buf := FState.buf, pos := FState.pos, atEnd := FState.atEnd, setPos := FState.setPos, shift := fbShift }

/-- FilePiece over a regular file positioned at `start` whose `mapsLeft`-th and later `mmap` calls fail. -/
def initFallback (file : List UInt8) (page cap0 start mapsLeft : Nat) (sched : List Nat) : FState :=
  fbShift (.m { file := file, page := page, cap := cap0, mappedOff := start, winLen := 0, pos := 0, atEnd := false, mapped := false } mapsLeft sched)

def recordsFallback (delim : UInt8) (stripCr : Bool) (file : List UInt8) (page cap0 start mapsLeft : Nat) (sched : List Nat) :
    Option (List (List UInt8)) :=
  (readAll fallbackBacking delim stripCr (2 * (file.length + 2)) (file.length + 2) (initFallback file page cap0 start mapsLeft sched)).map (·.1)

end PV.Reader
