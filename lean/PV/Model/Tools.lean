import PV.Model.Table
import PV.Model.Murmur
import PV.Model.Fields
import PV.Model.Utf8
import PV.Model.Base64
import PV.Spec.Records
import PV.Gen.Consts
/-
Models of the line-oriented tools built on the reader (C02 records), the key functions
(C10/C14) and the seen-set (C13):
  dedupe (single and -p), shard, remove_long_lines, remove_invalid_utf8,
  remove_invalid_utf8_base64, subtract_lines, commoncrawl_dedupe.
`none` = abnormal termination (exception / divergence in the table).
-/
namespace PV.Tools
open PV.Table PV.Fields

abbrev Line := List UInt8

/-! ### keys -/

def seedOf (n : Nat) : UInt64 := UInt64.ofNat n

/-- cache: RangeFields + `HashWithSeed`, a chain of MurmurHash64A that starts at `cacheSeed`. -/
def cacheKey (ranges : List FieldRange) (delim : UInt8) (l : Line) : Nat :=
  (PV.Murmur.hashPieces (seedOf PV.Gen.cacheSeed) (PV.Fields.rangeFields l ranges delim)).toNat

/-- dedupe: whole line (`Dedupe`) when the key is the single open range from field 1, else
    `FieldDedupe` (RangeFields + HashCallback(1)). -/
def dedupeKey (ranges : List FieldRange) (delim : UInt8) (l : Line) : Nat :=
  if ranges == [⟨0, kInf⟩] then (PV.Murmur.hash64A l (seedOf PV.Gen.dedupeLineSeed)).toNat
  else (PV.Murmur.hashPieces (seedOf PV.Gen.dedupeFieldSeed) (rangeFields l ranges delim)).toNat

/-- shard: always RangeFields + HashCallback(default seed). -/
def shardKey (ranges : List FieldRange) (delim : UInt8) (l : Line) : Nat :=
  (PV.Murmur.hashPieces (seedOf PV.Gen.shardSeed) (rangeFields l ranges delim)).toNat

/-! ### dedupe -/

/-- FilterParallel, stdin→stdout: keep the line iff `!table.FindOrInsert(key)`. -/
def dedupeLoop (key : Line → Nat) : Table → List Line → Option (List Line)
  | _, [] => some []
  | t, l :: ls =>
    match findOrInsert t (key l, 0) with
    | none => none
    | some (found, _, t') =>
      match dedupeLoop key t' ls with
      | none => none
      | some rest => some (if found then rest else l :: rest)

def dedupe (key : Line → Nat) (ls : List Line) : Option (List Line) := dedupeLoop key init ls

/-- FilterParallel with four files: `pass0(line0) && pass1(line1)` (short-circuit) on the
    line pairs; returns the kept pairs.  (Unbalanced inputs are handled by the caller:
    exit status 2, see `dedupeParStatus`.) -/
def dedupeParLoop (key : Line → Nat) : Table → Table → List (Line × Line) → Option (List (Line × Line))
  | _, _, [] => some []
  | t0, t1, (a, b) :: ps =>
    match findOrInsert t0 (key a, 0) with
    | none => none
    | some (found0, _, t0') =>
      if found0 then dedupeParLoop key t0' t1 ps
      else match findOrInsert t1 (key b, 0) with
        | none => none
        | some (found1, _, t1') =>
          match dedupeParLoop key t0' t1' ps with
          | none => none
          | some rest => some (if found1 then rest else (a, b) :: rest)

def dedupePar (key : Line → Nat) (ps : List (Line × Line)) : Option (List (Line × Line)) :=
  dedupeParLoop key init init ps

/-! ### shard -/

/-- the lines written to output `i` of `n`, in input order. -/
def shardFile (key : Line → Nat) (n : Nat) (i : Nat) (ls : List Line) : List Line :=
  ls.filter (fun l => key l % n == i)

def shard (key : Line → Nat) (n : Nat) (ls : List Line) : List (List Line) :=
  (List.range n).map (fun i => shardFile key n i ls)

/-- `--prefix p --number n`: zero-padded 0-based indices; `digits` = number of decimal digits of
    `n - 1`. -/
def numDigits : Nat → Nat → Nat
  | 0, _ => 0
  | fuel + 1, v => if v == 0 then 0 else 1 + numDigits fuel (v / 10)

def padLeft (w : Nat) (s : String) : String := String.ofList (List.replicate (w - s.length) '0') ++ s

def shardNames (pfx : String) (n : Nat) : List String :=
  let digits := numDigits 64 (n - 1)
  (List.range n).map (fun i => pfx ++ padLeft digits (toString i))

/-! ### stateless filters -/

def removeLongLines (limit : Nat) (ls : List Line) : List Line := ls.filter (fun l => l.length ≤ limit)

def removeInvalidUtf8 (ls : List Line) : List Line := ls.filter (fun l => PV.Utf8.isUTF8 l)

/-- keeps the line if it decodes to valid UTF-8, else prints the empty document's encoding;
    `none` = base64 exception. -/
def removeInvalidUtf8Base64 : List Line → Option (List Line)
  | [] => some []
  | l :: ls =>
    match PV.Base64.decode l, removeInvalidUtf8Base64 ls with
    | .ok d, some rest => some ((if PV.Utf8.isUTF8 d then l else PV.Base64.encode []) :: rest)
    | _, _ => none

/-! ### set-based filters -/

def lineKey (l : Line) : Nat := (PV.Murmur.hash64A l (seedOf 1)).toNat

def loadSet (key : Line → Nat) : Table → List Line → Option Table
  | t, [] => some t
  | t, l :: ls => match findOrInsert t (key l, 0) with
    | none => none
    | some (_, _, t') => loadSet key t' ls

/-- subtract_lines: load the subtrahend, then keep the lines whose key is not found. -/
def subtractLoop (key : Line → Nat) (t : Table) : List Line → Option (List Line)
  | [] => some []
  | l :: ls =>
    match find t (key l), subtractLoop key t ls with
    | some r, some rest => some (if r.isSome then rest else l :: rest)
    | _, _ => none

def subtractLines (key : Line → Nat) (sub ls : List Line) : Option (List Line) :=
  match loadSet key init sub with
  | none => none
  | some t => subtractLoop key t ls

def isSpaceByte (b : UInt8) : Bool := PV.Gen.kSpaces.getD b.toNat 0 != 0

/-- commoncrawl_dedupe's StripSpaces -/
def stripSpaces (l : Line) : Line := ((l.dropWhile isSpaceByte).reverse.dropWhile isSpaceByte).reverse

def ccMagic : Line := "df6fa1abb58549287111ba8d776733e9".toUTF8.toList

def ccLoop (key : Line → Nat) : Table → List Line → Option (List Line)
  | _, [] => some []
  | t, l :: ls =>
    let l := stripSpaces l
    if ccMagic.isPrefixOf l then ccLoop key t ls
    else match findOrInsert t (key l, 0) with
      | none => none
      | some (found, _, t') =>
        match ccLoop key t' ls with
        | none => none
        | some rest => some (if !found && PV.Utf8.isUTF8 l then l :: rest else rest)

def commoncrawlDedupe (key : Line → Nat) (remove ls : List Line) : Option (List Line) :=
  match loadSet key init (remove.map stripSpaces) with
  | none => none
  | some t => ccLoop key t ls

end PV.Tools
