import PV.Gen.Utf8
/-
Model of util/utf8.hh.  `isTrailByte`, `isValidCodepoint`, `byteAt` and `decode` (IsTrailByte, IsValidCodepoint, DecodeUTF8)
are GENERATED from the current source by tools/gen_utf8.py into PV/Gen/Utf8.lean (same namespace); this file adds the
iterator loop (DecodeUTF8Iterator / IsUTF8), which is written by hand.
Core Lean only (no Mathlib) so the driver links.

Bytes are `UInt8`; the C++ arithmetic on `char`/`char32_t` is carried out on `Nat`
with the same operator shapes (`&&&`, `<<<`, `|||`).  A `throw NotUTF8Exception`
is `none`.
-/
namespace PV.Utf8

/-- The iterator loop of `IsUTF8` / `DecodeUTF8Range`: decode at the front, drop `mblen`
    bytes, repeat until empty.  Returns the code points, or `none` on the first throw.
    Fuel = number of bytes (each step drops ≥ 1). -/
def decodeAllFuel : Nat → List UInt8 → Option (List Nat)
  | _, [] => some []
  | 0, _ :: _ => none
  | fuel + 1, bs@(_ :: _) =>
    match decode bs with
    | none => none
    | some (cp, n) =>
      match decodeAllFuel fuel (bs.drop n) with
      | none => none
      | some cps => some (cp :: cps)

def decodeAll (bs : List UInt8) : Option (List Nat) := decodeAllFuel bs.length bs

/-- `util::IsUTF8` -/
def isUTF8 (bs : List UInt8) : Bool := (decodeAll bs).isSome

end PV.Utf8
