/-
Model of util/utf8.hh : IsTrailByte, IsValidCodepoint, DecodeUTF8, DecodeUTF8Iterator/IsUTF8.
Core Lean only (no Mathlib) so the driver links.

Bytes are `UInt8`; the C++ arithmetic on `char`/`char32_t` is carried out on `Nat`
with the same operator shapes (`&&&`, `<<<`, `|||`).  A `throw NotUTF8Exception`
is `none`.
-/
namespace PV.Utf8

/-- `static_cast<signed char>(x) < -0x40` : the signed values -128..-65, i.e. bytes 0x80..0xBF. -/
def isTrailByte (b : Nat) : Bool := 0x80 ≤ b && b < 0xC0

/-- `(uint32(c) < 0xD800) || (c >= 0xE000 && c <= 0x10FFFF)` -/
def isValidCodepoint (c : Nat) : Bool := c < 0xD800 || (0xE000 ≤ c && c ≤ 0x10FFFF)

/-- byte `i` of the window as a `Nat` (only read under the same `len ≥ i+1` guard as the C++). -/
def byteAt (bs : List UInt8) (i : Nat) : Nat := (bs.getD i 0).toNat

/-- `DecodeUTF8(begin, end, &mblen)`: `some (codepoint, mblen)` or `none` for the throw.
    The C++ presumes `end > begin`; the empty window is `none`. -/
def decode (bs : List UInt8) : Option (Nat × Nat) :=
  let len := bs.length
  if len = 0 then none else
  let b0 := byteAt bs 0
  if b0 < 0x80 then some (b0, 1)
  else if len ≥ 2 && (b0 &&& 0xE0) == 0xC0 then
    let b1 := byteAt bs 1
    let cp := ((b0 &&& 0x1F) <<< 6) ||| (b1 &&& 0x3F)
    if isTrailByte b1 && cp ≥ 0x0080 && isValidCodepoint cp then some (cp, 2) else none
  else if len ≥ 3 && (b0 &&& 0xF0) == 0xE0 then
    let b1 := byteAt bs 1
    let b2 := byteAt bs 2
    let cp := ((b0 &&& 0x0F) <<< 12) ||| ((b1 &&& 0x3F) <<< 6) ||| (b2 &&& 0x3F)
    if isTrailByte b1 && isTrailByte b2 && cp ≥ 0x0800 && isValidCodepoint cp then some (cp, 3) else none
  else if len ≥ 4 && (b0 &&& 0xF8) == 0xF0 then
    let b1 := byteAt bs 1
    let b2 := byteAt bs 2
    let b3 := byteAt bs 3
    let cp := ((b0 &&& 0x07) <<< 18) ||| ((b1 &&& 0x3F) <<< 12) ||| ((b2 &&& 0x3F) <<< 6) ||| (b3 &&& 0x3F)
    if isTrailByte b1 && isTrailByte b2 && isTrailByte b3 && cp ≥ 0x10000 && isValidCodepoint cp
    then some (cp, 4) else none
  else none

/-- The iterator loop of `IsUTF8` / `DecodeUTF8Range`: decode at the front, drop `mblen`
    bytes, repeat until empty.  Returns the code points, or `none` on the first throw.
    Fuel = number of bytes (each step drops ≥ 1). -/
def decodeAllFuel : Nat → List UInt8 → Option (List Nat)
  | _, [] => some []
  | 0, _ :: _ => none
  | fuel + 1, bs@(_ :: _) =>
    match decode bs with
    | none => none
    | some (cp, n) =>
      match decodeAllFuel fuel (bs.drop n) with
      | none => none
      | some cps => some (cp :: cps)

def decodeAll (bs : List UInt8) : Option (List Nat) := decodeAllFuel bs.length bs

/-- `util::IsUTF8` -/
def isUTF8 (bs : List UInt8) : Bool := (decodeAll bs).isSome

end PV.Utf8
