import PV.Gen.Consts
/-
Model of preprocess/base64.cc : base64_encode, base64_decode, count_padding.
`TABLE` and `INV_TABLE` are the GENERATED values (PV.Gen), i.e. what the C++ compiler made of
the initialisers in the current tree.  The `int val` accumulator is modelled as a 32-bit
two's-complement integer (`wrap32`): the shifts overflow `int` after a few input bytes and
the code relies on only the low bits being read.
-/
namespace PV.Base64
open PV.Gen

def tbl (i : Nat) : UInt8 := b64Table.getD i 0
def inv (b : UInt8) : Int := invTable.getD b.toNat (-1)

/-- 32-bit two's-complement wrap-around. -/
def wrap32 (v : Int) : Int := (v + 2147483648) % 4294967296 - 2147483648

/-- `(val >> sh) & mask` for a signed `val` (arithmetic shift = floor division), `mask+1 = 2^k`. -/
def shrAnd (val : Int) (sh : Nat) (modulus : Nat) : Nat := ((val / (2 ^ sh : Nat)) % (modulus : Nat)).toNat

/-- `while (valb >= 0) { out.push_back(TABLE[(val >> valb) & 0x3F]); valb -= 6; }`
    `out` is kept reversed. -/
def encDrainF : Nat → Int → Int → List UInt8 → Int × List UInt8
  | 0, _, valb, out => (valb, out)
  | f + 1, val, valb, out =>
    if valb ≥ 0 then encDrainF f val (valb - 6) (tbl (shrAnd val valb.toNat 64) :: out) else (valb, out)

/-- fuel `valb/6 + 1` is exactly the number of iterations the `while` can make. -/
def encDrain (val : Int) (valb : Int) (out : List UInt8) : Int × List UInt8 :=
  encDrainF (valb.toNat / 6 + 1) val valb out

structure EncSt where
  val : Int
  valb : Int
  out : List UInt8   -- reversed

def encByte (s : EncSt) (c : UInt8) : EncSt :=
  let val := wrap32 (s.val * 256 + c.toNat)
  let (valb, out) := encDrain val (s.valb + 8) s.out
  { val := val, valb := valb, out := out }

/-- `while (out.size() % 4) out.push_back('=')` on the reversed output. -/
def encPad (out : List UInt8) : List UInt8 :=
  match out.length % 4 with
  | 0 => out
  | 1 => 61 :: 61 :: 61 :: out
  | 2 => 61 :: 61 :: out
  | _ => 61 :: out

def encode (bs : List UInt8) : List UInt8 :=
  let s := bs.foldl encByte { val := 0, valb := -6, out := [] }
  let out := if s.valb > -6
    then tbl (shrAnd (wrap32 (s.val * 256)) (s.valb + 8).toNat 64) :: s.out
    else s.out
  (encPad out).reverse

/-- `count_padding`: number of trailing '='. -/
def countPadding (s : List UInt8) : Nat := (s.reverse.takeWhile (· == 61)).length

inductive DecRes where
  | ok (bs : List UInt8)
  | notB64      -- UTIL_THROW_IF(INV_TABLE[*c] == -1, ...)
  | length      -- out.reserve(size*3/4 - padding) with the subtraction wrapping: std::length_error
  deriving DecidableEq, Repr

def decLoop : List UInt8 → Int → Int → List UInt8 → DecRes
  | [], _, _, out => .ok out.reverse
  | c :: r, val, valb, out =>
    if c == 61 then .ok out.reverse
    else if inv c == -1 then .notB64
    else
      let val := wrap32 (val * 64 + inv c)
      let valb := valb + 6
      if valb ≥ 0 then decLoop r val (valb - 8) (UInt8.ofNat (shrAnd val valb.toNat 256) :: out)
      else decLoop r val valb out

def decode (s : List UInt8) : DecRes :=
  if s.length * 3 / 4 < countPadding s then .length
  else decLoop s 0 (-8) []

end PV.Base64
