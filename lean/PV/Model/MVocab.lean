import PV.Model.Table
import PV.Model.Murmur
import PV.Model.Tools
/-
util/mutable_vocab.{hh,cc} — `util::MutableVocab`, the word-id vocabulary of train_case / apply_case / truecase.
`strings_` starts with "<unk>" (id 0 = kUNK); the hash table (AutoProbing, IdentityHash) maps MurmurHashNative(word)
to the id, which FindOrInsert writes through the iterator after the insertion; the word's bytes are copied into a
`util::Pool` (PV.Pool, theorems in Props/C20) and `strings_` gets a view of the copy.
`none` = abnormal termination (the table model's ProbingSizeException / divergence, shown unreachable in C13).
-/
namespace PV.MVocab
open PV.Table PV.Tools

abbrev Word := List UInt8

structure V where
  table   : Table
  strings : List Word          -- strings_[id]


def unk : Word := "<unk>".toUTF8.toList

def init : V := ⟨PV.Table.init, [unk]⟩

/-- MurmurHashNative(word) with the default seed 0 -/
def key (w : Word) : Nat := (PV.Murmur.hash64A w (seedOf 0)).toNat

/-- `MutableVocab::FindOrInsert` -/
def findOrInsert (v : V) (w : Word) : Option (Nat × V) :=
  match PV.Table.findOrInsert v.table (key w, v.strings.length) with
  | none => none
  | some (true, e, t') => some (e.2, { v with table := t' })
  | some (false, _, t') => some (v.strings.length, ⟨t', v.strings ++ [w]⟩)

/-- `MutableVocab::Find` -/
def find (v : V) (w : Word) : Option Nat :=
  match PV.Table.find v.table (key w) with
  | none => none
  | some none => some 0
  | some (some e) => some e.2

/-- FindOrInsert every word in order -/
def insertAll : V → List Word → Option (List Nat × V)
  | v, [] => some ([], v)
  | v, w :: ws =>
    match findOrInsert v w with
    | none => none
    | some (i, v') => (insertAll v' ws).map (fun r => (i :: r.1, r.2))

def findAll (v : V) (ws : List Word) : Option (List Nat) := ws.mapM (find v)

/-! ### specification: ids are handed out in first-occurrence order, starting at 1 -/

/-- `seen` = the distinct keys so far, oldest first; the id of a key is its position + 1 -/
def specId (seen : List Nat) (k : Nat) : Option Nat := (seen.idxOf? k).map (· + 1)

def specInsertAll : List Nat → List Word → List Nat × List Nat
  | seen, [] => ([], seen)
  | seen, w :: ws =>
    match specId seen (key w) with
    | some i => let r := specInsertAll seen ws; (i :: r.1, r.2)
    | none => let r := specInsertAll (seen ++ [key w]) ws; ((seen.length + 1) :: r.1, r.2)

def specFind (seen : List Nat) (w : Word) : Nat := (specId seen (key w)).getD 0

end PV.MVocab
