/-
Model of util/buffered_stream.hh: `BufferedStream<Writer>` (the output side of FileStream, i.e. of every tool's
stdout): `write(data, n)`, the in-place path of `operator<<` (`Ensure(n)` / `AdvanceTo`; `put(char)` is
`Ensure(1)`), `flush()` and the destructor.  The state is what is in the buffer (`current_ - buf_`) and the sequence
of chunks handed to `writer_.write` so far.
-/
namespace PV.BufStream

inductive Op where
  | write (bs : List UInt8)                 -- write(data, length)
  | put (need : Nat) (bs : List UInt8)      -- Ensure(need), then bs.length <= need bytes written in place, AdvanceTo
  | flush
  deriving Repr, DecidableEq

def Op.bytes : Op → List UInt8
  | .write bs => bs
  | .put _ bs => bs
  | .flush => []

structure St where
  buf : List UInt8                 -- bytes in [buf_, current_)
  chunks : List (List UInt8)       -- what writer_.write received, oldest first
  flushes : Nat                    -- writer_.flush() calls
  deriving Repr, DecidableEq

def init : St := { buf := [], chunks := [], flushes := 0 }

/-- `SpillBuffer()` -/
def spill (s : St) : St := if s.buf = [] then s else { s with chunks := s.chunks ++ [s.buf], buf := [] }

def step (cap : Nat) (s : St) : Op → St
  | .write bs =>
    if s.buf.length + bs.length ≤ cap then { s with buf := s.buf ++ bs }
    else
      let s1 := spill s
      if bs.length ≤ cap then { s1 with buf := bs }
      else { s1 with chunks := s1.chunks ++ [bs] }          -- larger than the whole buffer: straight to the writer
  | .put need bs =>
    let s1 := if s.buf.length + need > cap then spill s else s
    { s1 with buf := s1.buf ++ bs }
  | .flush => let s1 := spill s; { s1 with flushes := s1.flushes + 1 }

def run (cap : Nat) (ops : List Op) : St := ops.foldl (step cap) init

/-- the destructor: `flush()` -/
def finish (cap : Nat) (ops : List Op) : St := step cap (run cap ops) .flush

/-- what the real stream guarantees about its in-place writes (`kBufferSize >= kToStringMaxBytes`). -/
def WF (cap : Nat) (ops : List Op) : Prop :=
  ∀ o ∈ ops, match o with
    | .put need bs => bs.length ≤ need ∧ need ≤ cap
    | _ => True

end PV.BufStream
