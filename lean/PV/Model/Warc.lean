import PV.Model.Reader
/-
Model of preprocess/warc.cc : WARCReader::Read (ReadMore, HeaderReader::Line, Content-Length
parsing with strtoll, overhang) over a chunked source: every `reader_.Read(to, amount)` returns
between 1 and `amount` bytes as an adversary schedule dictates (0 only at end of input) —
the same source model as C02's read mode (`PV.Reader.osRead`).
-/
namespace PV.Warc
open PV.Reader

structure Src where
  src : List UInt8
  sched : List Nat
  deriving Repr

inductive Err where
  | eofInHeader        -- "Unexpected end of file inside header" / "WARC ended in header."
  | badVersion         -- "Expected WARC/1.0 header"
  | twoLengths         -- "Two Content-Length headers?"
  | lengthParse        -- "Content-Length parse error" / negative / no digits
  | noLength           -- "No Content-Length: header"
  | eofInBody          -- "Unexpected end of file while reading content"
  | noTerminator       -- "End of WARC record missing CRLF CRLF"
  deriving Repr, DecidableEq

def kRead : Nat := 4096

/-- `ReadMore`: `some (out', src')`, or `none` when the source is at end of input
    (the caller distinguishes `had = 0`). -/
def readMore (out : List UInt8) (s : Src) : Option (List UInt8 × Src) :=
  let (got, src, sched) := osRead kRead s.src s.sched
  if got.isEmpty then none else some (out ++ got, ⟨src, sched⟩)

inductive LineRes where
  | line (l : List UInt8) (lineEnd : Nat) (consumed : Nat) (out : List UInt8) (s : Src)
      -- l = the line without CR; lineEnd = index just after l in `out`
  | eofClean            -- ReadMore returned false with nothing buffered
  | eofDirty            -- ReadMore threw EndOfFileException
  | diverged

/-- `HeaderReader::Line` -/
def headerLine : Nat → List UInt8 → Nat → Src → LineRes
  | 0, _, _, _ => .diverged
  | fuel + 1, out, consumed, s =>
    let rest := out.drop consumed
    let n := (rest.takeWhile (· != 10)).length
    if consumed + n < out.length then
      let raw := rest.take n
      let l := if raw.getLast? == some 13 then raw.dropLast else raw
      .line l (consumed + l.length) (consumed + n + 1) out s
    else
      match readMore out s with
      | none => if out.isEmpty then .eofClean else .eofDirty
      | some (out', s') => headerLine fuel out' consumed s'

def isSpace (c : UInt8) : Bool := c == 32 || (9 ≤ c && c ≤ 13)
def isDigit (c : UInt8) : Bool := 48 ≤ c && c ≤ 57

/-- `strtoll(out + start, &end, 10)` on the NUL-terminated buffer: returns (value, end index,
    converted?) ; saturates at LLONG_MAX / LLONG_MIN. -/
def strtoll (out : List UInt8) (start : Nat) : Int × Nat × Bool :=
  let rest := out.drop start
  let ws := (rest.takeWhile isSpace).length
  let r1 := rest.drop ws
  let (neg, sg) := match r1 with
    | 45 :: _ => (true, 1)
    | 43 :: _ => (false, 1)
    | _ => (false, 0)
  let digs := (r1.drop sg).takeWhile isDigit
  if digs.isEmpty then (0, start, false)
  else
    let v : Nat := digs.foldl (fun a c => a * 10 + (c.toNat - 48)) 0
    let val : Int := if neg then (if v > 2 ^ 63 then -(2 ^ 63 : Int) else -(v : Int))
                     else (if v ≥ 2 ^ 63 then (2 ^ 63 - 1 : Int) else (v : Int))
    (val, start + ws + sg + digs.length, true)

def toLowerByte (c : UInt8) : UInt8 := if 65 ≤ c && c ≤ 90 then c + 32 else c
def contentLengthKey : List UInt8 := "content-length:".toUTF8.toList

/-- the header loop: `while (!line.empty())`; returns (length, consumed, out, src). -/
def headerLoop : Nat → List UInt8 → List UInt8 → Nat → Src → Option Nat →
    Except Err (Nat × Nat × List UInt8 × Src)
  | 0, _, _, _, _, _ => .error .eofInHeader          -- unreachable (fuel)
  | fuel + 1, line, out, consumed, s, len =>
    if line.isEmpty then
      match len with
      | none => .error .noLength
      | some n => .ok (n, consumed, out, s)
    else
      match headerLine (s.src.length + 2) out consumed s with
      | .line l lineEnd consumed' out' s' =>
        if l.length ≥ 15 && (l.take 15).map toLowerByte == contentLengthKey then
          if len.isSome then .error .twoLengths
          else
            let start := lineEnd - l.length + 15
            let (v, e, conv) := strtoll out' start
            if e != lineEnd && !(l.length == 15 && !conv) then .error .lengthParse      -- end != line end
            else if v < 0 || !conv then .error .lengthParse                               -- negative / no digits
            else headerLoop fuel l out' consumed' s' (some v.toNat)
        else headerLoop fuel l out' consumed' s' len
      | _ => .error .eofInHeader

/-- the body loop: read exactly `need` more bytes. -/
def readBody : Nat → List UInt8 → Nat → Src → Option (List UInt8 × Src)
  | 0, _, _, _ => none
  | fuel + 1, out, need, s =>
    if need == 0 then some (out, s)
    else
      let (got, src, sched) := osRead need s.src s.sched
      if got.isEmpty then none else readBody fuel (out ++ got) (need - got.length) ⟨src, sched⟩

inductive ReadRes where
  | record (r : List UInt8) (overhang : List UInt8) (s : Src)
  | eof
  | error (e : Err)
  deriving Repr

/-- `WARCReader::Read(out)` -/
def read (overhang : List UInt8) (s : Src) : ReadRes :=
  match headerLine (s.src.length + 2) overhang 0 s with
  | .eofClean => .eof
  | .eofDirty => .error .eofInHeader
  | .diverged => .error .eofInHeader
  | .line l _ consumed out s =>
    if l != "WARC/1.0".toUTF8.toList then .error .badVersion
    else
      match headerLoop (out.length + s.src.length + 2) l out consumed s none with
      | .error e => .error e
      | .ok (length, consumed, out, s) =>
        let total := consumed + length + 4
        if total < out.length then
          let rec_ := out.take total
          if rec_.drop (total - 4) != [13, 10, 13, 10] then .error .noTerminator
          else .record rec_ (out.drop total) s
        else
          match readBody (total + 1) out (total - out.length) s with
          | none => .error .eofInBody
          | some (rec_, s) =>
            if rec_.drop (total - 4) != [13, 10, 13, 10] then .error .noTerminator
            else .record rec_ [] s

/-- read records until end of input or the first error. -/
def readAll : Nat → List UInt8 → Src → List (List UInt8) × Option Err
  | 0, _, _ => ([], none)
  | fuel + 1, ov, s =>
    match read ov s with
    | .eof => ([], none)
    | .error e => ([], some e)
    | .record r ov' s' =>
      let (rs, e) := readAll fuel ov' s'
      (r :: rs, e)

def records (input : List UInt8) (sched : List Nat) : List (List UInt8) × Option Err :=
  readAll (input.length + 1) [] ⟨input, sched⟩

end PV.Warc
