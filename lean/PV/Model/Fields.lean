import PV.Gen.Consts
/-
Model of preprocess/fields.hh (RangeFields, IndividualFields) and fields.cc (ParseFields,
DefragmentFields).  Pointers are indices into the line; `end` is `line.length`; a pointer
one past `end` (as `find(..)+1` produces when no delimiter is left) is the index
`line.length + 1`, exactly as in the code.
-/
namespace PV.Fields

structure FieldRange where
  begin : Nat
  stop : Nat          -- `end`; `kInfiniteEnd` = open range
  deriving DecidableEq, Repr

def kInf : Nat := PV.Gen.kInfiniteEnd

/-- `std::find(begin, end, delim) - line` for `begin ≤ end`: index of the first `delim` at or
    after `b`, or `line.length`. -/
def findFrom (line : List UInt8) (delim : UInt8) (b : Nat) : Nat :=
  b + ((line.drop b).takeWhile (· != delim)).length

def slice (line : List UInt8) (a b : Nat) : List UInt8 := (line.take b).drop a

/-- `for (; index < f.begin; ++index) { begin = find(begin,end,delim)+1; if (begin > end) return; }`
    `n` = `f.begin - index` iterations left.  `none` = returned. -/
def skipFields (line : List UInt8) (delim : UInt8) : Nat → Nat → Option Nat
  | 0, b => some b
  | n + 1, b =>
    let b' := findFrom line delim b + 1
    if b' > line.length then none else skipFields line delim n b'

/-- the inner loop of RangeFields over `n = f.end - index` fields starting at `b`:
    `inl piece` = hit the end of the line: callback(old_begin .. end) and return;
    `inr b'`   = loop finished with `begin = b'`. -/
def takeFields (line : List UInt8) (delim : UInt8) (old : Nat) : Nat → Nat → Sum (List UInt8) Nat
  | 0, b => .inr b
  | n + 1, b =>
    let b' := findFrom line delim b + 1
    if b' > line.length then .inl (slice line old line.length) else takeFields line delim old n b'

/-- RangeFields: the pieces handed to the callback, in order. -/
def rangeFieldsFrom (line : List UInt8) (delim : UInt8) : List FieldRange → Nat → Nat → List (List UInt8)
  | [], _, _ => []
  | f :: fs, index, b =>
    match skipFields line delim (f.begin - index) b with
    | none => []
    | some b =>
      let index := max index f.begin
      if f.stop == kInf then [slice line b line.length]
      else match takeFields line delim b (f.stop - index) b with
        | .inl piece => [piece]
        | .inr b' => slice line b (b' - 1) :: rangeFieldsFrom line delim fs (max index f.stop) b'

def rangeFields (line : List UInt8) (ranges : List FieldRange) (delim : UInt8) : List (List UInt8) :=
  rangeFieldsFrom line delim ranges 0 0

/-- IndividualFields with an always-true callback: one piece per selected field. -/
def takeIndividual (line : List UInt8) (delim : UInt8) : Nat → Nat → List (List UInt8) × Option Nat
  | 0, b => ([], some b)
  | n + 1, b =>
    let found := findFrom line delim b
    let piece := slice line b found
    let b' := found + 1
    if b' > line.length then ([piece], none)
    else let (ps, r) := takeIndividual line delim n b'; (piece :: ps, r)

def individualFieldsFrom (line : List UInt8) (delim : UInt8) : List FieldRange → Nat → Nat → List (List UInt8)
  | [], _, _ => []
  | f :: fs, index, b =>
    match skipFields line delim (f.begin - index) b with
    | none => []
    | some b =>
      let index := max index f.begin
      match takeIndividual line delim (f.stop - index) b with
      | (ps, none) => ps
      | (ps, some b') => ps ++ individualFieldsFrom line delim fs (max index f.stop) b'

def individualFields (line : List UInt8) (ranges : List FieldRange) (delim : UInt8) : List (List UInt8) :=
  individualFieldsFrom line delim ranges 0 0

/-! ### ParseFields / DefragmentFields -/

def isDigit (c : UInt8) : Bool := 48 ≤ c && c ≤ 57
def isSpace (c : UInt8) : Bool := c == 32 || (9 ≤ c && c ≤ 13)

/-- digits → value; stops at the first non-digit.  Returns (value, rest, ndigits). -/
def digitsVal : List UInt8 → Nat → Nat → Nat × List UInt8 × Nat
  | [], acc, n => (acc, [], n)
  | c :: r, acc, n => if isDigit c then digitsVal r (acc * 10 + (c.toNat - 48)) (n + 1) else (acc, c :: r, n)

/-- ConsumeInt: the argument must start with a digit (no white space or sign is accepted); then
    `strtoul`; the value must be below `kInfiniteEnd` (this also covers strtoul's ERANGE). `none` = exception. -/
def consumeInt (s : List UInt8) : Option (Nat × List UInt8) :=
  let (v, rest, nd) := digitsVal s 0 0
  if nd == 0 then none
  else if v ≥ kInf then none
  else some (v, rest)

/-- ParseFields.  `fuel` bounds the `while (*arg)` loop (each iteration consumes ≥ 1 char). -/
def parseLoop : Nat → List UInt8 → List FieldRange → Option (List FieldRange)
  | 0, _, _ => none
  | fuel + 1, s, acc =>
    match s with
    | [] => some acc.reverse
    | c :: _ =>
      -- begin
      let hd : Option (Nat × List UInt8) :=
        if c == 45 then some (0, s)
        else match consumeInt s with
          | none => none
          | some (v, r) => if v == 0 then none else some (v - 1, r)     -- fields are numbered from 1
      match hd with
      | none => none
      | some (b, r) =>
        -- switch (*arg)
        let item : Option (FieldRange × List UInt8) :=
          match r with
          | [] => some (⟨b, b + 1⟩, r)
          | 44 :: _ => some (⟨b, b + 1⟩, r)
          | 45 :: r2 =>
            match r2 with
            | [] => some (⟨b, kInf⟩, r2)
            | 44 :: _ => some (⟨b, kInf⟩, r2)
            | _ => match consumeInt r2 with
              | none => none
              | some (e, r3) => if e ≤ b then none else some (⟨b, e⟩, r3)
          | _ => none
        match item with
        | none => none
        | some (f, r) =>
          -- after an item only ',' or the end of the string may follow
          match r with
          | [] => some (f :: acc).reverse
          | 44 :: r' => parseLoop fuel r' (f :: acc)
          | _ => none

def parseFields (s : List UInt8) : Option (List FieldRange) :=
  if s.isEmpty then none else parseLoop (s.length + 1) s []

def insertSorted (f : FieldRange) : List FieldRange → List FieldRange
  | [] => [f]
  | g :: gs => if f.begin < g.begin then f :: g :: gs else g :: insertSorted f gs

def sortRanges (fs : List FieldRange) : List FieldRange := fs.foldr insertSorted []

/-- the merge loop of DefragmentFields on a list sorted by `begin`; `none` = "Overlapping index ranges". -/
def mergeSorted : List FieldRange → Option (List FieldRange)
  | [] => some []
  | [f] => some [f]
  | f :: g :: rest =>
    if f.stop > g.begin then none
    else if f.stop == g.begin then mergeSorted (⟨f.begin, g.stop⟩ :: rest)
    else (mergeSorted (g :: rest)).map (f :: ·)
termination_by l => l.length

def defragment (fs : List FieldRange) : Option (List FieldRange) := mergeSorted (sortRanges fs)

/-- `-f LIST` as the tools process it. -/
def parseAndDefragment (s : List UInt8) : Option (List FieldRange) := (parseFields s).bind defragment

end PV.Fields
