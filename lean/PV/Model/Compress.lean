/-
Model of the stream logic in util/compress.cc (C15): WriteStream<Compressor>::write / flush and
ReadStream<Compression>::Read, with the codec (zlib, bzip2, liblzma) as an ORACLE: the model is the
controller that decides when to refill, when to drain the 4 KiB buffer, when to call the codec and
with which input/output space; what the codec does with a call (how much input it consumes, how much
output it produces, whether the stream ended) is read from the event, so the same definitions
serve (a) as the object of the theorems — for every sequence of codec answers — and (b) as the
acceptor for PV_TRACE logs of the real code running the real codecs.

Bytes are tracked as identities (the k-th byte the codec produced is the number k), so that
"nothing lost, duplicated or reordered at a buffer turn" is an equation between lists.
-/
namespace PV.Compress

/-! ## writer -/

inductive WEv where
  | write (n : Nat)                 -- write(data, n) called
  | proc (ain aout : Nat)           -- about to call Process with this input / output space
  | did (ain aout : Nat)            -- Process returned, leaving this input / output space
  | drain (n : Nat)                 -- writer_.write(buf_, n)
  | flush (dirty : Bool)            -- flush() called
  | fin (aout : Nat)                -- about to call Finish with this output space
  | findone (aout : Nat)            -- Finish reported the end of the stream, leaving this output space
  deriving Repr, DecidableEq

inductive WMode where
  | idle
  | loop              -- head of `while (AvailInput())`
  | drained           -- just drained inside the write loop: Process comes next
  | awaitDid
  | fl                -- head of the do-while in flush()
  | flDrained
  | awaitFin          -- Finish was called with `availOut` space; its effect is revealed by the next event
  | finDone           -- Finish reported the end; a final drain may follow
  deriving Repr, DecidableEq

structure WState where
  bufSize : Nat
  kMin : Nat
  availOut : Nat
  availIn : Nat
  dirty : Bool
  mode : WMode
  buf : List Nat            -- produced bytes sitting in buf_
  file : List Nat           -- bytes handed to the Writer, in order
  produced : Nat            -- number of bytes the codec has produced so far (next identity)
  given : Nat               -- input bytes passed to write()
  consumed : Nat            -- input bytes the codec has taken
  members : Nat             -- completed streams (Finish returned true)
  deriving Repr, DecidableEq

def winit (bufSize kMin : Nat) : WState :=
  { bufSize := bufSize, kMin := kMin, availOut := bufSize, availIn := 0, dirty := true, mode := .idle, buf := [], file := [],
    produced := 0, given := 0, consumed := 0, members := 0 }

/-- the codec produced `k` more bytes into buf_. -/
def WState.produce (s : WState) (k : Nat) : WState :=
  { s with buf := s.buf ++ (List.range k).map (· + s.produced), produced := s.produced + k }

def WState.drainAll (s : WState) : WState :=
  { s with file := s.file ++ s.buf, buf := [], availOut := s.bufSize }

/-- one event; `none` = the real code did something this controller would not do. -/
def wstep (s : WState) : WEv → Option WState
  | .write n =>
    if s.mode = .idle then
      some (if n = 0 then { s with dirty := true } else { s with availIn := n, given := s.given + n, mode := .loop })
    else none
  | .drain n =>
    match s.mode with
    | .loop => if s.availOut < s.kMin ∧ n = s.bufSize - s.availOut then some { s.drainAll with mode := .drained } else none
    | .fl => if s.availOut < s.kMin ∧ n = s.bufSize - s.availOut then some { s.drainAll with mode := .flDrained } else none
    | .awaitFin =>
      -- Finish returned false leaving less than kMin space: n = bufSize - (space left)
      if n ≤ s.bufSize ∧ s.bufSize - n ≤ s.availOut ∧ s.bufSize - n < s.kMin then
        let s1 := s.produce (s.availOut - (s.bufSize - n))
        some { s1.drainAll with mode := .flDrained }
      else none
    | .finDone => if n = s.bufSize - s.availOut ∧ s.availOut ≠ s.bufSize then
        some { s.drainAll with mode := .idle, dirty := false }
      else none
    | _ => none
  | .proc ain aout =>
    match s.mode with
    | .loop => if s.kMin ≤ s.availOut ∧ ain = s.availIn ∧ aout = s.availOut then some { s with mode := .awaitDid } else none
    | .drained => if ain = s.availIn ∧ aout = s.availOut then some { s with mode := .awaitDid } else none
    | _ => none
  | .did ain aout =>
    if s.mode = .awaitDid ∧ ain ≤ s.availIn ∧ aout ≤ s.availOut then
      let s1 := s.produce (s.availOut - aout)
      let s2 := { s1 with availOut := aout, availIn := ain, consumed := s.consumed + (s.availIn - ain) }
      some (if ain = 0 then { s2 with mode := .idle, dirty := true } else { s2 with mode := .loop })
    else none
  | .flush d =>
    if s.mode = .idle ∧ d = s.dirty then some (if s.dirty then { s with mode := .fl } else s) else none
  | .fin aout =>
    match s.mode with
    | .fl => if s.kMin ≤ s.availOut ∧ aout = s.availOut then some { s with mode := .awaitFin } else none
    | .flDrained => if aout = s.availOut then some { s with mode := .awaitFin } else none
    | .awaitFin =>
      -- previous Finish returned false leaving `aout ≥ kMin` space
      if aout ≤ s.availOut ∧ s.kMin ≤ aout then
        some { (s.produce (s.availOut - aout)) with availOut := aout, mode := .awaitFin }
      else none
    | _ => none
  | .findone aout =>
    if s.mode = .awaitFin ∧ aout ≤ s.availOut then
      let s1 := { (s.produce (s.availOut - aout)) with availOut := aout, members := s.members + 1 }
      some (if aout = s.bufSize then { s1 with mode := .idle, dirty := false } else { s1 with mode := .finDone })
    else none

def wrun : WState → List WEv → Option WState
  | s, [] => some s
  | s, e :: es => match wstep s e with
    | some s' => wrun s' es
    | none => none

def wFirstRejected : WState → List WEv → Nat → Option Nat
  | _, [], _ => none
  | s, e :: es, i => match wstep s e with
    | some s' => wFirstRejected s' es (i + 1)
    | none => some i

/-! ## reader -/

inductive REv where
  | read (amount : Nat)             -- Read(to, amount) called, amount > 0
  | input (got : Nat)               -- ReadInput refilled with `got` bytes (0 = end of the compressed file)
  | proc (ain space : Nat)          -- about to call Process with this input and output space
  | ok (ain nout : Nat)             -- Process returned "more to come"; input left, bytes in `to` so far
  | end_ (ain ret : Nat)            -- Process reported the end of the member; input left over, bytes in `to`
  | ret (n : Nat)                   -- Read returns n
  deriving Repr, DecidableEq

inductive RMode where
  | idle
  | head (atEof : Bool)             -- loop head, after a possible refill
  | awaitRes (atEof : Bool) (before : Nat)
  | retPending (n : Nat)
  | failed                          -- "Compressed stream ended prematurely" thrown
  deriving Repr, DecidableEq

structure RState where
  amount : Nat
  nout : Nat                -- bytes produced into `to` by this Read call
  availIn : Nat
  mode : RMode
  fresh : Bool              -- a new reader (start, or after a member ended): its initial input is whatever it was constructed with
  fed : Nat                 -- compressed bytes supplied in total
  delivered : Nat           -- bytes returned to the caller in total
  steps : Nat               -- codec calls so far
  deriving Repr, DecidableEq

def rinit (already : Nat) : RState :=
  { amount := 0, nout := 0, availIn := already, mode := .idle, fresh := true, fed := already, delivered := 0, steps := 0 }

def rstep (s : RState) : REv → Option RState
  | .read amount =>
    if s.mode = .idle ∧ 0 < amount then some { s with amount := amount, nout := 0, mode := .head false } else none
  | .input got =>
    match s.mode with
    | .head _ => if s.availIn = 0 then some { s with availIn := got, fed := s.fed + got, fresh := false, mode := .head (got == 0) } else none
    | _ => none
  | .proc ain space =>
    match s.mode with
    | .head atEof =>
      -- Process is only called with input available, or at end of file
      -- a fresh reader starts with the bytes it was constructed with (magic header / leftover of the previous member)
      if (s.fresh ∨ ain = s.availIn) ∧ space = s.amount - s.nout ∧ (ain ≠ 0 ∨ atEof) then
        some { s with availIn := ain, fed := s.fed + (ain - s.availIn), fresh := false,
                      mode := .awaitRes (atEof && ain == 0) s.nout, steps := s.steps + 1 }
      else none
    | _ => none
  | .ok ain nout =>
    match s.mode with
    | .awaitRes atEof before =>
      if ain ≤ s.availIn ∧ before ≤ nout ∧ nout ≤ s.amount then
        let s1 := { s with availIn := ain, nout := nout }
        if atEof && nout == before then some { s1 with mode := .failed }       -- truncated stream
        else if nout = 0 then some { s1 with mode := .head false }            -- `while (NextOutput() == to)`
        else some { s1 with mode := .retPending nout }
      else none
    | _ => none
  | .end_ ain ret =>
    match s.mode with
    | .awaitRes _ before =>
      if ain ≤ s.availIn ∧ before ≤ ret ∧ ret ≤ s.amount then
        -- the reader is replaced; whatever follows belongs to the next reader
        some { s with availIn := 0, nout := ret, delivered := s.delivered + ret, fresh := true, mode := .idle }
      else none
    | _ => none
  | .ret n =>
    match s.mode with
    | .retPending m => if n = m then some { s with delivered := s.delivered + n, mode := .idle } else none
    | _ => none

def rrun : RState → List REv → Option RState
  | s, [] => some s
  | s, e :: es => match rstep s e with
    | some s' => rrun s' es
    | none => none

def rFirstRejected : RState → List REv → Nat → Option Nat
  | _, [], _ => none
  | s, e :: es, i => match rstep s e with
    | some s' => rFirstRejected s' es (i + 1)
    | none => some i

/-- the codec contract C1 on one call: with input available it consumes input or produces output. -/
def progressOk : List REv → Bool
  | .proc ain _ :: .ok ain' nout :: rest => (ain = 0 || ain' < ain || 0 < nout) && progressOk (.ok ain' nout :: rest)
  | _ :: rest => progressOk rest
  | [] => true

end PV.Compress
