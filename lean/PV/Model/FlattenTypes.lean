/- Types of the generated Flatten rule tables (UTF-16 code units, as ICU's UnicodeString holds them). -/
namespace PV.Flatten

structure LongReplace where
  fromSuffix : List Nat     -- `from` except its first character
  to : List Nat
  rightBoundary : Bool
  deriving Repr, DecidableEq

structure Start where
  c : Nat                   -- the start character (code point)
  longer : List LongReplace
  character : List Nat      -- fallback if nothing in `longer` matches
  deriving Repr, DecidableEq

end PV.Flatten
