import PV.Gen.Consts
/-
Model of util/murmur_hash.cc : MurmurHash64A (the 64-bit platform path that MurmurHashNative
selects), pointer/loop/fall-through shape, on `UInt64` (wrap-around arithmetic as in C).
Every byte access goes through `rd`, which is `none` outside the string: the result is
`none` iff the C code would read out of bounds.
The multiplier and shift are the GENERATED constants from the source.
-/
namespace PV.Murmur

def m : UInt64 := UInt64.ofNat PV.Gen.murmurM
def r : UInt64 := UInt64.ofNat PV.Gen.murmurR

def rd (bs : Array UInt8) (i : Nat) : Option UInt64 := (bs[i]?).map (fun b => UInt64.ofNat b.toNat)

/-- `*data++` on a `const uint64_t*` at byte offset `off` (little endian). -/
def load64 (bs : Array UInt8) (off : Nat) : Option UInt64 := do
  let b0 ← rd bs off;       let b1 ← rd bs (off + 1); let b2 ← rd bs (off + 2); let b3 ← rd bs (off + 3)
  let b4 ← rd bs (off + 4); let b5 ← rd bs (off + 5); let b6 ← rd bs (off + 6); let b7 ← rd bs (off + 7)
  pure (b0 ||| (b1 <<< 8) ||| (b2 <<< 16) ||| (b3 <<< 24) ||| (b4 <<< 32) ||| (b5 <<< 40) ||| (b6 <<< 48) ||| (b7 <<< 56))

/-- loop body: `k *= m; k ^= k >> r; k *= m; h ^= k; h *= m;` -/
def mixBlock (h k : UInt64) : UInt64 :=
  let k := k * m
  let k := k ^^^ (k >>> r)
  let k := k * m
  (h ^^^ k) * m

/-- `while (data != end)` over `n` remaining 8-byte blocks starting at block `i`. -/
def blocks (bs : Array UInt8) : Nat → Nat → UInt64 → Option UInt64
  | 0, _, h => some h
  | n + 1, i, h => do
    let k ← load64 bs (8 * i)
    blocks bs n (i + 1) (mixBlock h k)

/-- the `switch (len & 7)` with fall-through; `base` is the byte offset of `data2`. -/
def tail (bs : Array UInt8) (base : Nat) (rem : Nat) (h : UInt64) : Option UInt64 := do
  let h ← if rem ≥ 7 then (rd bs (base + 6)).map (fun (b : UInt64) => h ^^^ (b <<< (48 : UInt64))) else some h
  let h ← if rem ≥ 6 then (rd bs (base + 5)).map (fun (b : UInt64) => h ^^^ (b <<< (40 : UInt64))) else some h
  let h ← if rem ≥ 5 then (rd bs (base + 4)).map (fun (b : UInt64) => h ^^^ (b <<< (32 : UInt64))) else some h
  let h ← if rem ≥ 4 then (rd bs (base + 3)).map (fun (b : UInt64) => h ^^^ (b <<< (24 : UInt64))) else some h
  let h ← if rem ≥ 3 then (rd bs (base + 2)).map (fun (b : UInt64) => h ^^^ (b <<< (16 : UInt64))) else some h
  let h ← if rem ≥ 2 then (rd bs (base + 1)).map (fun (b : UInt64) => h ^^^ (b <<< (8 : UInt64))) else some h
  if rem ≥ 1 then (rd bs base).map (fun (b : UInt64) => (h ^^^ b) * m) else some h

def finalize (h : UInt64) : UInt64 :=
  let h := h ^^^ (h >>> r)
  let h := h * m
  h ^^^ (h >>> r)

/-- `MurmurHash64A(key, len, seed)`; `none` = an out-of-bounds read. -/
def hash64A? (bs : Array UInt8) (seed : UInt64) : Option UInt64 := do
  let len := bs.size
  let h := seed ^^^ (UInt64.ofNat len * m)
  let h ← blocks bs (len / 8) 0 h
  let h ← tail bs (8 * (len / 8)) (len % 8) h      -- `len & 7`
  pure (finalize h)

/-- total version used by the tool models (the theorem `hash64A?_isSome` shows the default is
    never taken). -/
def hash64A (bs : List UInt8) (seed : UInt64) : UInt64 := (hash64A? bs.toArray seed).getD 0

/-- `HashCallback`: the key of a field selection is the left fold of the hash over the
    emitted pieces with the previous value as seed. -/
def hashPieces (seed : UInt64) (pieces : List (List UInt8)) : UInt64 :=
  pieces.foldl (fun h p => hash64A p h) seed

end PV.Murmur

namespace PV.Murmur
/-- the key of the case model written by train_case (Recorder::Add) and looked up by apply_case:
    `MurmurHash64A(lowered_target, MurmurHash64A(source))` (default seed 0 for the inner call). -/
def caseKey (source lowered : List UInt8) : UInt64 := hash64A lowered (hash64A source 0)
end PV.Murmur
