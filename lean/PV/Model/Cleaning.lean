/-
Model of preprocess/simple_cleaning_main.cc: `SimpleCleaningFilter::operator()` (one field) and
`SimpleCleaningFilterFields` (every selected field must pass; `IndividualFields` of fields.hh).

Modelled: the scanning loop (U8_NEXT; the control-character test; the script lookup; the punctuation and space
counters; the run counter with its `previous` / `previous_run` registers), the `--min-chars` test and the order of
the tests.  Parameters (not verified, taken from the same ICU build by the correspondence check):
`scriptOf` = `uscript_getScript` (`none` = failure or USCRIPT_INVALID_CODE), `isPunct` = `u_ispunct`,
`isSpace` = `u_isspace`.  `thresholds` stands for the three float comparisons after the loop
(--max-common-inherited, --min-punct / --min-punct-sample-size, --scripts / --min-scripts); it receives what those
comparisons read: the script of every character in order, the punctuation count and the space count.
U8_NEXT is modelled by `PV.Utf8.decode`: both yield the code point and its length on a well-formed sequence and
an error (`none` / a negative value, which is `< 32`) otherwise.
-/
import PV.Model.Utf8
import PV.Model.Fields

namespace PV.Cleaning

structure Params where
  minChars : Nat
  run : Nat
  scriptOf : Nat → Option Nat
  isPunct : Nat → Bool
  isSpace : Nat → Bool
  thresholds : List Nat → Nat → Nat → Bool

/-- the registers of the scanning loop -/
structure St where
  scripts : List Nat      -- script of every character so far, newest first (`++counts[script]`)
  punct : Nat
  spaces : Nat
  prev : Nat              -- `previous`, initially 0
  prevRun : Nat           -- `previous_run`, initially 0
  deriving Repr, DecidableEq

def init : St := { scripts := [], punct := 0, spaces := 0, prev := 0, prevRun := 0 }

/-- `character < 32 && character != '\t' && character != '\r'` -/
def isCtrl (c : Nat) : Bool := c < 32 && c != 9 && c != 13

/-- one loop iteration on the decoded character `c`; `none` = `return false`. -/
def stepCp (p : Params) (s : St) (c : Nat) : Option St :=
  if isCtrl c then none else
  match p.scriptOf c with
  | none => none
  | some sc =>
    let s1 : St := { s with scripts := sc :: s.scripts,
                            punct := s.punct + (if p.isPunct c then 1 else 0),
                            spaces := s.spaces + (if p.isSpace c then 1 else 0) }
    if s.prev = c then
      let r := s.prevRun + 1
      if p.run ≤ r && !p.isSpace c then none else some { s1 with prevRun := r }
    else some { s1 with prev := c, prevRun := 1 }

/-- the `while (offset < length)` loop; fuel = number of bytes (each iteration consumes ≥ 1). -/
def scanFuel (p : Params) : Nat → St → List UInt8 → Option St
  | _, s, [] => some s
  | 0, _, _ :: _ => none
  | fuel + 1, s, bs@(_ :: _) =>
    match PV.Utf8.decode bs with
    | none => none                           -- U8_NEXT yields a negative value: `character < 32`
    | some (c, n) =>
      match stepCp p s c with
      | none => none
      | some s' => scanFuel p fuel s' (bs.drop n)

def scan (p : Params) (bs : List UInt8) : Option St := scanFuel p bs.length init bs

/-- `SimpleCleaningFilter::operator()` on one field. -/
def keep (p : Params) (bs : List UInt8) : Bool :=
  match scan p bs with
  | none => false
  | some s => decide (p.minChars ≤ s.scripts.length) && p.thresholds s.scripts.reverse s.punct s.spaces

/-- `SimpleCleaningFilterFields::operator()`: every selected field passes (IndividualFields stops at the first
    failing field; the verdict is the conjunction). -/
def keepLine (p : Params) (ranges : List PV.Fields.FieldRange) (delim : UInt8) (line : List UInt8) : Bool :=
  (PV.Fields.individualFields line ranges delim).all (keep p)

/-- the tool on a sequence of lines (FilterParallel, single input). -/
def filter (p : Params) (ranges : List PV.Fields.FieldRange) (delim : UInt8) (ls : List (List UInt8)) : List (List UInt8) :=
  ls.filter (keepLine p ranges delim)

/-! ### the specification side: what a kept field looks like -/

/-- no run of `n` equal non-space characters with `n ≥ max run 2` -/
def NoLongRun (p : Params) (cs : List Nat) : Prop :=
  ∀ c n, p.isSpace c = false → 2 ≤ n → p.run ≤ n → ¬ (List.replicate n c) <:+: cs

def Accept (p : Params) (cs : List Nat) : Prop :=
  (∀ c ∈ cs, isCtrl c = false) ∧
  (∀ c ∈ cs, (p.scriptOf c).isSome) ∧
  NoLongRun p cs ∧
  p.minChars ≤ cs.length ∧
  p.thresholds (cs.filterMap p.scriptOf) (cs.countP (fun c => p.isPunct c)) (cs.countP (fun c => p.isSpace c)) = true

end PV.Cleaning
