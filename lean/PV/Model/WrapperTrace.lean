import PV.Model.Wrapper
/-
Visible-event abstraction of the wrapper LTS, used to validate PV_TRACE event logs recorded from the
real cache / foldfilter / b64filter binaries: only what the two threads report (enqueue, write,
poison, close; consume, read, out) with the causal constraints that every run of the concrete
LTS obeys — a record's chunks are written only after (enqueueFirst) / before its entry is
produced, an entry is consumed only after it was produced, answer number m is read only after
chunk number m was written, entries are consumed in production order with exactly their size.
`project` maps concrete labels to visible events; `refines` (proved in PV.Props.C05) says every
concrete run projects to an accepted visible trace.
-/
namespace PV.Wrapper

inductive Event where
  | enq (rec size : Nat)
  | write (rec : Nat)
  | poison
  | close
  | consume (size : Nat)      -- size 0 with `isPoison` handled by `finish`
  | finish                    -- the collector consumed the end marker
  | read
  | out
  deriving Repr, DecidableEq

structure AState where
  fRec : Nat                  -- next record whose entry / chunks are expected
  fEnq : Bool
  fSent : Nat
  fPoison : Bool
  fClosed : Bool
  written : Nat               -- chunks written in total
  queue : List (Option Nat)   -- sizes; none = end marker
  cur : Option (Nat × Nat)    -- (size, got)
  reads : Nat                 -- answers read in total
  outs : Nat
  finished : Bool
  deriving Repr, DecidableEq

def ainit : AState := ⟨0, false, 0, false, false, 0, [], none, 0, 0, false⟩

/-- one visible event; `sizes` are the per-record chunk counts announced by the `enq` events
    themselves (the real sizes are data dependent), so only consistency is checked. -/
def astep (enqueueFirst poisonFirst : Bool) (s : AState) : Event → Option AState
  | .enq r n =>
    -- implicit "next record" when the previous one is complete
    if s.fPoison then none
    else if enqueueFirst then
      if r = s.fRec ∧ !s.fEnq ∧ s.fSent = 0 then
        some (if n = 0 then { s with fRec := s.fRec + 1, queue := s.queue ++ [some n] }       -- nothing to write for this record
              else { s with fEnq := true, fSent := n, queue := s.queue ++ [some n] })
      else none
    else
      -- entry produced after its chunks: they must all have been written (fSent counts them up)
      if r = s.fRec ∧ s.fSent = n then some { s with fRec := s.fRec + 1, fSent := 0, queue := s.queue ++ [some n] } else none
  | .write r =>
    if s.fPoison ∨ s.fClosed then none
    else if enqueueFirst then
      -- fSent counts the chunks still to be written for the announced entry
      if r = s.fRec ∧ s.fEnq ∧ 0 < s.fSent then
        let left := s.fSent - 1
        some (if left = 0 then { s with fSent := 0, fEnq := false, fRec := s.fRec + 1, written := s.written + 1 }
              else { s with fSent := left, written := s.written + 1 })
      else none
    else
      if r = s.fRec then some { s with fSent := s.fSent + 1, written := s.written + 1 } else none
  | .poison =>
    if !s.fPoison ∧ (enqueueFirst → (!s.fEnq ∨ s.fSent = 0)) ∧ (poisonFirst ∨ s.fClosed) then
      some { s with fPoison := true, queue := s.queue ++ [none] } else none
  | .close =>
    if !s.fClosed ∧ (poisonFirst → s.fPoison) then some { s with fClosed := true } else none
  | .consume n =>
    match s.cur, s.queue with
    | none, some m :: rest => if n = m ∧ !s.finished then some { s with queue := rest, cur := some (m, 0) } else none
    | _, _ => none
  | .finish =>
    match s.cur, s.queue with
    | none, none :: rest => if !s.finished then some { s with queue := rest, finished := true } else none
    | _, _ => none
  | .read =>
    match s.cur with
    | some (n, k) => if k < n ∧ s.reads < s.written then some { s with cur := some (n, k + 1), reads := s.reads + 1 } else none
    | none => none
  | .out =>
    match s.cur with
    | some (n, k) => if k = n then some { s with cur := none, outs := s.outs + 1 } else none
    | none => none

def arun (ef pf : Bool) : AState → List Event → Option AState
  | s, [] => some s
  | s, e :: es => match astep ef pf s e with
    | some s' => arun ef pf s' es
    | none => none

/-- index of the first rejected event (for diagnostics), or none if the whole trace is accepted. -/
def firstRejected (ef pf : Bool) : AState → List Event → Nat → Option Nat
  | _, [], _ => none
  | s, e :: es, i => match astep ef pf s e with
    | some s' => firstRejected ef pf s' es (i + 1)
    | none => some i

/-- concrete label ↦ visible event (in the state BEFORE the step). -/
def project (p : Params) (s : State) : Label → Option Event
  | .fEnqueue => some (.enq s.fRec (sizeOf p s.fRec))
  | .fAppend => some (.write s.fRec)
  | .fPoison => some .poison
  | .fClose => some .close
  | .kConsume => match s.queue with
    | some (_, n) :: _ => some (.consume n)
    | none :: _ => some .finish
    | [] => none
  | .kRead => some .read
  | .kOut => some .out
  | _ => none

end PV.Wrapper
