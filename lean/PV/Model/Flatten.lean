import PV.Model.FlattenTypes
/-
Model of util/utf8_icu.cc : Flatten::Apply(const UnicodeString&, UnicodeString&) over UTF-16 code
units (what ICU's UnicodeString holds), and of process_unicode_main.cc's per-line pipeline with
its two ping-pong buffers.  ICU's `toLower`, NFKC `Normalize` and `u_isspace` are parameters.
-/
namespace PV.Flatten

def isLead (u : Nat) : Bool := 0xD800 ≤ u && u < 0xDC00
def isTrail (u : Nat) : Bool := 0xDC00 ≤ u && u < 0xE000
def combine (hi lo : Nat) : Nat := 0x10000 + (hi - 0xD800) * 0x400 + (lo - 0xDC00)

/-- `UnicodeString::char32At(i)`: the code point that contains code unit `i`. -/
def char32At (s : List Nat) (i : Nat) : Nat :=
  let u := s.getD i 0
  if isLead u && i + 1 < s.length && isTrail (s.getD (i + 1) 0) then combine u (s.getD (i + 1) 0)
  else if isTrail u && 0 < i && isLead (s.getD (i - 1) 0) then combine (s.getD (i - 1) 0) u
  else u

/-- `U16_LENGTH(c)` -/
def u16Length (c : Nat) : Nat := if c ≥ 0x10000 then 2 else 1

/-- `UnicodeString::append(UChar32)` -/
def encode16 (c : Nat) : List Nat :=
  if c ≥ 0x10000 then [0xD800 + (c - 0x10000) / 0x400, 0xDC00 + (c - 0x10000) % 0x400] else [c]

/-- does rule `r` match at unit index `i` (the start character is at `i`)?
    `!in.compare(i + 1, len, from_suffix) && (!right_boundary || in.length() == ending || u_isspace(in.char32At(ending)))` -/
def ruleMatches (isSpace : Nat → Bool) (inp : List Nat) (i : Nat) (r : LongReplace) : Bool :=
  let ending := i + 1 + r.fromSuffix.length
  ((inp.drop (i + 1)).take r.fromSuffix.length == r.fromSuffix) &&
    (!r.rightBoundary || inp.length == ending || isSpace (char32At inp ending))

def applyLoop (rules : List Start) (isSpace : Nat → Bool) (inp : List Nat) : Nat → Nat → List Nat → List Nat
  | 0, _, out => out
  | fuel + 1, i, out =>
    if i ≥ inp.length then out
    else
      let c := char32At inp i
      match rules.find? (·.c == c) with
      | some st =>
        match st.longer.find? (ruleMatches isSpace inp i) with
        | some r => applyLoop rules isSpace inp fuel (i + r.fromSuffix.length + 1) (out ++ r.to)
        | none => applyLoop rules isSpace inp fuel (i + 1) (out ++ st.character)
      | none => applyLoop rules isSpace inp fuel (i + u16Length c) (out ++ encode16 c)

/-- `Flatten::Apply` -/
def apply (rules : List Start) (isSpace : Nat → Bool) (inp : List Nat) : List Nat :=
  applyLoop rules isSpace inp (inp.length + 1) 0 []

/-! ### process_unicode main loop -/

structure Flags where
  lower : Bool
  flatten : Bool
  normalize : Bool
  deriving Repr, DecidableEq

structure Buffers where
  str0 : List Nat
  str1 : List Nat
  cur : Bool          -- false: cur = &str[0], tmp = &str[1];  true: swapped
  deriving Repr

def Buffers.get (b : Buffers) (which : Bool) : List Nat := if which then b.str1 else b.str0
def Buffers.set (b : Buffers) (which : Bool) (v : List Nat) : Buffers :=
  if which then { b with str1 := v } else { b with str0 := v }

/-- one iteration of `while (getline(std::cin, line))`; returns the printed line (`*cur`). -/
def stepLine (fl : Flags) (lower nfkc : List Nat → List Nat) (rules : List Start) (isSpace : Nat → Bool)
    (b : Buffers) (line : List Nat) : List Nat × Buffers :=
  let b := b.set b.cur line                                     -- *cur = fromUTF8(line)
  let b := if fl.lower then b.set b.cur (lower (b.get b.cur)) else b
  let b := if fl.flatten then
      let b := b.set (!b.cur) (apply rules isSpace (b.get b.cur))   -- flatten.Apply(*cur, *tmp)
      { b with cur := !b.cur }                                       -- std::swap(cur, tmp)
    else b
  let b := if fl.normalize then
      let b := b.set (!b.cur) (nfkc (b.get b.cur))
      { b with cur := !b.cur }
    else b
  (b.get b.cur, b)

def mainLoop (fl : Flags) (lower nfkc : List Nat → List Nat) (rules : List Start) (isSpace : Nat → Bool) :
    Buffers → List (List Nat) → List (List Nat)
  | _, [] => []
  | b, l :: ls =>
    let (o, b') := stepLine fl lower nfkc rules isSpace b l
    o :: mainLoop fl lower nfkc rules isSpace b' ls

def processUnicode (fl : Flags) (lower nfkc : List Nat → List Nat) (rules : List Start) (isSpace : Nat → Bool)
    (lines : List (List Nat)) : List (List Nat) :=
  mainLoop fl lower nfkc rules isSpace ⟨[], [], false⟩ lines

end PV.Flatten
