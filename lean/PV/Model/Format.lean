import PV.Gen.Consts
/-
Model of how many bytes util::ToString touches from the pointer `Ensure(kBytes)` returned (C20):
  * integers (util/integer_to_string.cc, SSE2 variant): the digits, except that some branches
    store 8 or 16 bytes at once (`_mm_storel_epi64` / `_mm_storeu_si128`) regardless of the count;
  * float / double (util/float_to_string.cc): the characters double-conversion's ToShortest
    writes for (sign, number of digits, decimal point) with decimal_in_shortest_low = -6,
    decimal_in_shortest_high = 21, NO_FLAGS, plus the NUL the StringBuilder destructor appends.
-/
namespace PV.Format

def ndigits : Nat → Nat → Nat
  | 0, _ => 1
  | fuel + 1, v => if v < 10 then 1 else 1 + ndigits fuel (v / 10)

/-- decimal digits of v (v < 10^30) -/
def digits10 (v : Nat) : Nat := ndigits 30 v

/-- (length of the text, bytes touched) for `ToString(uint32_t)` -/
def u32 (v : Nat) : Nat × Nat :=
  if v < 100000000 then (digits10 v, digits10 v)
  else
    let a := if v / 100000000 ≥ 10 then 2 else 1
    (a + 8, a + 8)

/-- `ToString(uint64_t)` -/
def u64 (v : Nat) : Nat × Nat :=
  if v < 100000000 then (digits10 v, digits10 v)
  else if v < 10000000000000000 then (digits10 v, 16)        -- one 16-byte store, `digit` leading zeros shifted out
  else
    let a := v / 10000000000000000
    let p := if a < 10 then 1 else if a < 100 then 2 else if a < 1000 then 3 else 4
    (p + 16, p + 16)

/-- signed wrappers: '-' then the magnitude -/
def i32 (v : Int) : Nat × Nat :=
  if v < 0 then let (l, t) := u32 (-v).toNat; (l + 1, t + 1) else u32 v.toNat

def i64 (v : Int) : Nat × Nat :=
  if v < 0 then let (l, t) := u64 (-v).toNat; (l + 1, t + 1) else u64 v.toNat

/-- number of characters double-conversion's ToShortest emits for a finite non-zero-length digit
    string: `neg`, `len` significant digits, decimal point position `dp` (value = 0.d1d2… × 10^dp). -/
def shortestLen (neg : Bool) (len : Nat) (dp : Int) : Nat :=
  let sign := if neg then 1 else 0
  let exponent := dp - 1
  if -6 ≤ exponent ∧ exponent < 21 then
    -- CreateDecimalRepresentation(digits, length, decimal_point, max(0, length - decimal_point))
    if dp ≤ 0 then sign + 2 + (-dp).toNat + len
    else if dp ≥ (len : Int) then sign + dp.toNat
    else sign + len + 1
  else
    -- CreateExponentialRepresentation: d[.ddd]e[-]xxx
    let mant := if len > 1 then len + 1 else 1
    let e := if exponent < 0 then (-exponent).toNat else exponent.toNat
    let elen := if e ≥ 100 then 3 else if e ≥ 10 then 2 else 1
    sign + mant + 1 + (if exponent < 0 then 1 else 0) + elen

/-- bytes touched by `ToString(double)`: the text plus the terminating NUL. -/
def floatTouched (neg : Bool) (len : Nat) (dp : Int) : Nat := shortestLen neg len dp + 1

/-- "inf" / "-inf" / "NaN" -/
def specialLen (kind : String) (neg : Bool) : Nat :=
  if kind == "nan" then 3 else if neg then 4 else 3

end PV.Format
