import PV.Model.Base64
import PV.Spec.Records
import PV.Gen.Consts
/-
Model of preprocess/docenc_main.cc : encode(), decode(), index selection.
Input is the byte stream; records come from the C02 reader (`splitRecords`), with the
`strip_cr` argument that encode() passes to ReadLineOrEOF taken from the source
(`Gen.docencEncodeStripCr`).
-/
namespace PV.Docenc
open PV.Spec.Records

/-- encode(), default separator: accumulate non-empty lines (+ '\n') until a blank line or EOF;
    a final empty document at EOF is not printed. -/
def docsNl : List (List UInt8) → List UInt8 → List (List UInt8)
  | [], cur => if cur.isEmpty then [] else [cur]
  | r :: rs, cur => if r.isEmpty then cur :: docsNl rs [] else docsNl rs (cur ++ r ++ [10])

/-- encode(), -0 : every record is one document (a final empty document cannot occur:
    the reader returns no empty unterminated tail). -/
def docsNul (rs : List (List UInt8)) : List (List UInt8) := rs

/-- the `indices` walk shared by encode() and decode(): `idx` is the 1-based number of the
    *previous* document; `ind` the sorted index list (empty = everything). -/
def selectFrom : Nat → List Nat → List α → List α
  | _, _, [] => []
  | idx, ind, d :: ds =>
    let idx := idx + 1
    match ind with
    | [] => d :: selectFrom idx [] ds
    | i :: rest =>
      if i != idx then selectFrom idx (i :: rest) ds
      else if rest.isEmpty then [d]           -- found all indices: stop early
      else d :: selectFrom' idx rest ds
where
  /-- same walk once at least one index has matched (`indices` non-empty, so an empty rest
      never means "everything"). -/
  selectFrom' : Nat → List Nat → List α → List α
  | _, _, [] => []
  | _, [], _ => []
  | idx, i :: rest, d :: ds =>
    let idx := idx + 1
    if i != idx then selectFrom' idx (i :: rest) ds
    else if rest.isEmpty then [d]
    else d :: selectFrom' idx rest ds

def select (ind : List Nat) (ds : List α) : List α := selectFrom 0 ind ds

/-- what `main()` does with the index arguments before the walk: `std::sort`, then `std::unique` + erase. -/
def insertSorted (i : Nat) : List Nat → List Nat
  | [] => [i]
  | j :: js => if i ≤ j then i :: j :: js else j :: insertSorted i js

def sortIndices (args : List Nat) : List Nat := args.foldr insertSorted []

/-- `std::unique`: drop an element equal to its predecessor. -/
def uniqAdjacent : List Nat → List Nat
  | [] => []
  | [a] => [a]
  | a :: b :: rest => if a = b then uniqAdjacent (b :: rest) else a :: uniqAdjacent (b :: rest)

def prepare (args : List Nat) : List Nat := uniqAdjacent (sortIndices args)

/-- the tool's selection for the index arguments as typed (`N`, and `M-N` expanded to M..N), in any order. -/
def selectArgs (args : List Nat) (ds : List α) : List α := select (prepare args) ds

/-- `docenc [indices]` on a byte stream: the base64 lines written to stdout. -/
def encode (nul : Bool) (ind : List Nat) (input : List UInt8) : List UInt8 :=
  let docs := if nul then docsNul (splitRecords 0 PV.Gen.docencEncodeStripCr input)
              else docsNl (splitRecords 10 PV.Gen.docencEncodeStripCr input) []
  unlines ((selectArgs ind docs).map PV.Base64.encode)

/-- `docenc -d [indices]`: decode every selected line, each followed by the separator.
    `none` = an exception (foreign byte / length error) terminated the program. -/
def decodeLines (sep : UInt8) : List (List UInt8) → Option (List UInt8)
  | [] => some []
  | l :: ls =>
    match PV.Base64.decode l with
    | .notB64 => none
    | .length => none
    | .ok d => (decodeLines sep ls).map (fun rest => d ++ [sep] ++ rest)

def decode (nul : Bool) (ind : List Nat) (input : List UInt8) : Option (List UInt8) :=
  decodeLines (if nul then 0 else 10) (selectArgs ind (splitRecords 10 true input))

end PV.Docenc
