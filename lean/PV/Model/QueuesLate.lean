import PV.Model.Queues
/-
A VARIANT of the PCQueue transition system, not the code: `Consume` only CLAIMS its slot under the lock (remembers consume_at_ and
advances it), releases the lock, copies the value afterwards and then posts `empty_` ("the slot is not recycled until empty_ is
posted").  Kept to show, as a theorem about a concrete schedule, why the model above (and the code) copy INSIDE the locked block:
with two consumers the `empty_` permits are anonymous, so a producer woken by the second consumer's post writes the first
consumer's slot while it is still being copied.
-/
namespace PV.Queues.PCQLate
open PV.Queues PV.Queues.PCQ

structure LState where
  base : PCQ.State
  claimed : List (Option Nat)     -- per consumer: the slot it has claimed and not yet copied
  deriving Repr, DecidableEq

def init (p : Params) : LState := { base := PCQ.init p, claimed := p.quotas.map (fun _ => none) }

inductive Label where
  | prod (l : PCQ.Label)          -- the producer's four steps, unchanged
  | cWait (j : Nat) | cClaim (j : Nat) | cCopy (j : Nat) | cPost (j : Nat)
  deriving Repr, DecidableEq

def step (p : Params) (s : LState) : Label → Option LState
  | .prod l =>
    match l with
    | .pWait _ | .pPost _ | .pLeave _ => (PCQ.step p s.base l).map (fun b => { s with base := b })
    | .pEnter i =>
      -- writing a slot that a consumer has claimed but not copied yet is the hazard
      let hazard := s.claimed.any (fun c => c == some s.base.produceAt)
      (PCQ.step p s.base (.pEnter i)).map (fun b => { s with base := { b with bad := b.bad || hazard } })
    | _ => none
  | .cWait j => (PCQ.step p s.base (.cWait j)).map (fun b => { s with base := b })
  | .cClaim j =>      -- lock; from = consume_at_; ++consume_at_; unlock
    match s.base.cons[j]? with
    | some c =>
      if c.pc = .waited ∧ s.base.cLock = none then
        some { base := { s.base with consumeAt := if s.base.consumeAt + 1 = p.cap then 0 else s.base.consumeAt + 1,
                                      cons := s.base.cons.set j { c with pc := .inSlot } },
               claimed := s.claimed.set j (some s.base.consumeAt) }
      else none
    | none => none
  | .cCopy j =>       -- out = *from, outside the lock
    match s.base.cons[j]?, s.claimed.getD j none with
    | some c, some slot =>
      if c.pc = .inSlot then
        let v := s.base.slots.getD slot none
        let beingWritten := s.base.pLock.isSome ∧ s.base.produceAt = slot
        let it := v.getD (0, 0)
        some { base := { s.base with slots := s.base.slots.set slot none, reads := s.base.reads ++ [it],
                                      cons := s.base.cons.set j { c with pc := .done, got := c.got ++ [it] },
                                      bad := s.base.bad || v.isNone || decide beingWritten },
               claimed := s.claimed.set j none }
      else none
    | _, _ => none
  | .cPost j => (PCQ.step p s.base (.cPost j)).map (fun b => { s with base := b })

def runTrace (p : Params) : LState → List Label → Option LState
  | s, [] => some s
  | s, l :: ls => match step p s l with
    | some s' => runTrace p s' ls
    | none => none

end PV.Queues.PCQLate
