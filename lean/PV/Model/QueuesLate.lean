import PV.Model.Queues
/-
A VARIANT of the PCQueue transition system, not the code: `Consume` only CLAIMS its slot under the lock (remembers consume_at_ and
advances it), releases the lock, copies the value afterwards and then posts `empty_` ("the slot is not recycled until empty_ is
posted").  Kept to show, as a theorem about a concrete schedule, why the model above (and the code) copy INSIDE the locked block:
with two consumers the `empty_` permits are anonymous, so a producer woken by the second consumer's post writes the first
consumer's slot while it is still being copied.
-/
namespace PV.Queues.PCQLate
open PV.Queues PV.Queues.PCQ

structure LState where
  base : PCQ.State
  claimed : List (Option Nat)     -- per consumer: the slot it has claimed and not yet copied
  deriving Repr, DecidableEq

def init (p : Params) : LState := { base := PCQ.init p, claimed := p.quotas.map (fun _ => none) }

inductive Label where
  | prod (l : PCQ.Label)          -- the producer's four steps, unchanged
  | cWait (j : Nat) | cClaim (j : Nat) | cCopy (j : Nat) | cPost (j : Nat)
  deriving Repr, DecidableEq

def step (p : Params) (s : LState) : Label → Option LState
  | .prod l =>
    match l with
    | .pWait _ | .pPost _ | .pLeave _ => (PCQ.step p s.base l).map (fun b => { s with base := b })
    | .pEnter i =>
      -- writing a slot that a consumer has claimed but not copied yet is the hazard
      let hazard := s.claimed.any (fun c => c == some s.base.produceAt)
      (PCQ.step p s.base (.pEnter i)).map (fun b => { s with base := { b with bad := b.bad || hazard } })
    | _ => none
  | .cWait j => (PCQ.step p s.base (.cWait j)).map (fun b => { s with base := b })
  | .cClaim j =>      -- lock; from = consume_at_; ++consume_at_; unlock
    match s.base.cons[j]? with
    | some c =>
      if c.pc = .waited ∧ s.base.cLock = none then
        some { base := { s.base with consumeAt := if s.base.consumeAt + 1 = p.cap then 0 else s.base.consumeAt + 1,
                                      cons := s.base.cons.set j { c with pc := .inSlot } },
               claimed := s.claimed.set j (some s.base.consumeAt) }
      else none
    | none => none
  | .cCopy j =>       -- out = *from, outside the lock
    match s.base.cons[j]?, s.claimed.getD j none with
    | some c, some slot =>
      if c.pc = .inSlot then
        let v := s.base.slots.getD slot none
        let beingWritten := s.base.pLock.isSome ∧ s.base.produceAt = slot
        let it := v.getD (0, 0)
        some { base := { s.base with slots := s.base.slots.set slot none, reads := s.base.reads ++ [it],
                                      cons := s.base.cons.set j { c with pc := .done, got := c.got ++ [it] },
                                      bad := s.base.bad || v.isNone || decide beingWritten },
               claimed := s.claimed.set j none }
      else none
    | _, _ => none
  | .cPost j => (PCQ.step p s.base (.cPost j)).map (fun b => { s with base := b })

def runTrace (p : Params) : LState → List Label → Option LState
  | s, [] => some s
  | s, l :: ls => match step p s l with
    | some s' => runTrace p s' ls
    | none => none

end PV.Queues.PCQLate

/-
A second VARIANT, of the unbounded queue: `Produce` links a freshly allocated page to its predecessor only AFTER the semaphore post
for the first entry of that page ("a linked page is never empty").  The consumer, woken by that post, follows a `next` pointer that
is still null.
-/
namespace PV.Queues.USQLate
open PV.Queues PV.Queues.USQ

structure LState where
  base : USQ.State
  pendingLink : Bool              -- a page has been allocated by the current Produce and is not linked yet
  deriving Repr, DecidableEq

def init : LState := { base := USQ.init, pendingLink := false }

inductive Label where
  | pPage | pWrite | pPost | pLink | cWait | cPage | cRead
  deriving Repr, DecidableEq

def step (p : Params) (s : LState) : Label → Option LState
  | .pPage =>
    if s.base.pPc = .idle ∧ s.base.produced < p.n ∧ s.pendingLink = false then
      let w := s.base.written.length
      if w = (s.base.pPage + 1) * p.pageSize then
        some { base := { s.base with pPage := s.base.pPage + 1, pPc := .paged }, pendingLink := true }      -- allocated, NOT linked
      else some { s with base := { s.base with pPc := .paged } }
    else none
  | .pWrite => (USQ.step p s.base .pWrite).map (fun b => { s with base := b })
  | .pPost => (USQ.step p s.base .pPost).map (fun b => { s with base := b })
  | .pLink => if s.pendingLink ∧ s.base.pPc = .idle then some { base := { s.base with linked := s.base.linked + 1 }, pendingLink := false } else none
  | .cWait => (USQ.step p s.base .cWait).map (fun b => { s with base := b })
  | .cPage => (USQ.step p s.base .cPage).map (fun b => { s with base := b })
  | .cRead => (USQ.step p s.base .cRead).map (fun b => { s with base := b })

def runTrace (p : Params) : LState → List Label → Option LState
  | s, [] => some s
  | s, l :: ls => match step p s l with
    | some s' => runTrace p s' ls
    | none => none

end PV.Queues.USQLate
